(* C14 proofs, part 2: the read loop (ReadMessage until the first error) against rfc_receive. *)
From Verif Require Import Lib.Base Lib.Sx Lib.Utf8 Model.WsRead Proofs.WsReadUtf8 Proofs.WsRead.
From Verif Require Import Gen.Gen_websocket.
Open Scope Z_scope.

(* ------------------------------------------------------------------ what is compared *)
Definition msgs_of (evs : list event) : list rresult :=
  flat_map (fun e => match e with EvMsg t p => [RMsg (Z.of_N t) p] | EvPong _ => [] end) evs.
Definition pongs_of (evs : list event) : list (Z * bytes) :=
  flat_map (fun e => match e with EvPong p => [(websocket_PongMessage, p)] | EvMsg _ _ => [] end) evs.

(* the error every read returns from the failure on, and the Close frame written, for an outcome
   of the RFC receiver.  A stream that ends inside a frame header whose first bytes already break
   a rule may be answered either way (unexpected EOF, or protocol error + Close 1002). *)
Definition agrees (o : outcome) (e : rerr) (closefr : list (Z * bytes)) : Prop :=
  match o with
  | OCut hdr => (e = EUeof /\ closefr = []) \/
                (hdr = true /\ exists m, e = EProto m /\ closefr = [close_frame websocket_CloseProtocolError m])
  | OViolation => exists m, e = EProto m /\ closefr = [close_frame websocket_CloseProtocolError m]
  | OTooBig => e = ELimit /\ closefr = [close_frame websocket_CloseMessageTooBig []]
  | OClosed None _ => e = EClose websocket_CloseNoStatusReceived [] /\ closefr = [(websocket_CloseMessage, [])]
  | OClosed (Some code) reason => e = EClose (Z.of_N code) reason /\ closefr = [close_frame (Z.of_N code) []]
  end.

(* ------------------------------------------------------------------ the spec's accumulator *)
Lemma rfc_recv_acc fuel server cap : forall open bs evs,
  rfc_recv fuel server cap open bs evs =
  (rev evs ++ fst (rfc_recv fuel server cap open bs []), snd (rfc_recv fuel server cap open bs [])).
Proof.
  induction fuel as [|f IH]; intros open bs evs; cbn [rfc_recv].
  - rewrite !rev'_rev. cbn. rewrite app_nil_r. reflexivity.
  - destruct (rfc_header bs) as [| | |h rest]; repeat rewrite rev'_rev; cbn [fst snd rev]; rewrite ?app_nil_r; try reflexivity.
    destruct (rfc_violation _ _ h); [repeat rewrite rev'_rev; cbn; rewrite app_nil_r; reflexivity|].
    destruct (8 <=? f_op h)%N.
    + destruct (rfc_payload h rest) as [[p rest']|]; [|repeat rewrite rev'_rev; cbn; rewrite app_nil_r; reflexivity].
      destruct (f_op h =? 9)%N.
      { rewrite (IH open rest' (EvPong p :: evs)), (IH open rest' [EvPong p]). cbn [rev fst snd].
        rewrite <- !app_assoc. reflexivity. }
      destruct (f_op h =? 10)%N; [apply IH|].
      repeat rewrite rev'_rev; cbn; rewrite app_nil_r; reflexivity.
    + destruct (match open with Some o => o | None => (f_op h, [], 0%N) end) as [[t fr] n].
      destruct (cap <? n + f_len h)%N; [repeat rewrite rev'_rev; cbn; rewrite app_nil_r; reflexivity|].
      destruct (rfc_payload h rest) as [[p rest']|]; [|repeat rewrite rev'_rev; cbn; rewrite app_nil_r; reflexivity].
      destruct (f_fin h).
      * rewrite (IH None rest' (_ :: evs)), (IH None rest' [_]). cbn [rev fst snd]. rewrite <- !app_assoc. reflexivity.
      * apply IH.
Qed.

(* ------------------------------------------------------------------ one frame of the RFC receiver *)
Inductive sstep :=
| SFail (o : outcome)
| SPong (p rest' : bytes)          (* a Ping arrived: answer with a Pong carrying p *)
| SSkip (rest' : bytes)            (* a Pong arrived *)
| SData (h : fhdr) (rest : bytes). (* data frame header accepted, payload follows *)

Definition open_parts (open : option (N * list bytes * N)) (h : fhdr) : N * list bytes * N :=
  match open with Some o => o | None => (f_op h, [], 0%N) end.

Definition spec_step (server : bool) (cap : N) (open : option (N * list bytes * N)) (bs : bytes) : sstep :=
  match rfc_header bs with
  | HEnd => SFail (OCut false)
  | HCut => SFail (OCut true)
  | HBadLen => SFail OViolation
  | HOk h rest =>
    if rfc_violation server (match open with Some _ => true | None => false end) h then SFail OViolation
    else if (8 <=? f_op h)%N then
      match rfc_payload h rest with
      | None => SFail (OCut false)
      | Some (p, rest') =>
        if (f_op h =? 9)%N then SPong p rest' else if (f_op h =? 10)%N then SSkip rest' else SFail (rfc_close p)
      end
    else if (cap <? snd (open_parts open h) + f_len h)%N then SFail OTooBig
    else SData h rest
  end.

Definition spec_payload (fuel : nat) (server : bool) (cap : N) (open : option (N * list bytes * N))
           (h : fhdr) (rest : bytes) (evs : list event) : list event * outcome :=
  let '(t, fr, n) := open_parts open h in
  match rfc_payload h rest with
  | None => (rev' evs, OCut false)
  | Some (p, rest') =>
    if f_fin h then rfc_recv fuel server cap None rest' (EvMsg t (concat (rev' (p :: fr))) :: evs)
    else rfc_recv fuel server cap (Some (t, p :: fr, (n + f_len h)%N)) rest' evs
  end.

Lemma rfc_recv_step fuel server cap open bs evs :
  rfc_recv (S fuel) server cap open bs evs =
  match spec_step server cap open bs with
  | SFail o => (rev' evs, o)
  | SPong p rest' => rfc_recv fuel server cap open rest' (EvPong p :: evs)
  | SSkip rest' => rfc_recv fuel server cap open rest' evs
  | SData h rest => spec_payload fuel server cap open h rest evs
  end.
Proof.
  cbn [rfc_recv]. unfold spec_step, spec_payload, open_parts.
  destruct (rfc_header bs) as [| | |h rest]; try reflexivity.
  destruct (rfc_violation _ _ h); [reflexivity|].
  destruct (8 <=? f_op h)%N.
  - destruct (rfc_payload h rest) as [[p rest']|]; [|reflexivity].
    destruct (f_op h =? 9)%N; [reflexivity|]. destruct (f_op h =? 10)%N; reflexivity.
  - destruct open as [[[t fr] n]|]; cbn [snd]; destruct (cap <? _ + f_len h)%N; reflexivity.
Qed.

(* ------------------------------------------------------------------ one frame of the library *)
Definition fails (c : conn) (r : mres Z) (e : rerr) (frs : list (Z * bytes)) : Prop :=
  exists c', r = MErr c' e /\ c_out c' = frs ++ c_out c /\ c_errcount c' = c_errcount c.

(* the open message of the receiver and the reader state describe the same thing *)
Definition open_matches (open : option (N * list bytes * N)) (c : conn) : Prop :=
  match open with
  | Some (_, _, n) => c_final c = false /\ c_len c = Z.of_N n
  | None => c_final c = true /\ c_len c = 0
  end.

Lemma lib_step server limit c open : clean server limit c -> limit < 9223372036854775808 -> open_matches open c ->
  match spec_step server (rfc_cap limit) open (c_in c) with
  | SFail o => exists e frs, agrees o e frs /\ fails c (advance_frame true c) e frs /\ e <> EEof
  | SPong p rest' =>
    exists c1, advance_frame true c = MOk c1 websocket_PingMessage /\ clean server limit c1 /\
      c_in c1 = rest' /\ c_out c1 = (websocket_PongMessage, p) :: c_out c /\ c_final c1 = c_final c /\
      c_len c1 = c_len c /\ c_errcount c1 = c_errcount c /\ (length rest' + 2 <= length (c_in c))%nat
  | SSkip rest' =>
    exists c1, advance_frame true c = MOk c1 websocket_PongMessage /\ clean server limit c1 /\
      c_in c1 = rest' /\ c_out c1 = c_out c /\ c_final c1 = c_final c /\
      c_len c1 = c_len c /\ c_errcount c1 = c_errcount c /\ (length rest' + 2 <= length (c_in c))%nat
  | SData h rest =>
    exists c1, advance_frame true c = MOk c1 (Z.of_N (f_op h)) /\
      c_server c1 = server /\ c_limit c1 = limit /\ c_err c1 = None /\ c_wclosed c1 = false /\
      c_in c1 = rest /\ c_out c1 = c_out c /\ c_errcount c1 = c_errcount c /\
      c_rem c1 = Z.of_N (f_len h) /\ c_final c1 = f_fin h /\
      c_len c1 = Z.of_N (snd (open_parts open h) + f_len h) /\ c_len c1 < 9223372036854775808 /\
      (server = true -> c_key c1 = f_key h) /\ f_masked h = server /\
      (match open with Some _ => f_op h = 0%N | None => f_op h = 1%N \/ f_op h = 2%N end) /\
      wf_bytes (f_key h) /\ wf_bytes rest /\ (length rest + 2 <= length (c_in c))%nat
  end.
Proof.
  intros Hcl Hl63 Hop. pose proof (advance_frame_spec server limit c Hcl Hl63) as H.
  destruct Hcl as [Hsrv Hlim Herr Hw Hrem Hlen Hwf].
  assert (Hopen : (match open with Some _ => true | None => false end) = negb (c_final c)).
  { destruct open as [[[t fr] n]|]; cbn in Hop; destruct Hop as [-> _]; reflexivity. }
  unfold spec_step. rewrite Hopen.
  destruct (rfc_header (c_in c)) as [| | |h rest] eqn:Eh.
  - destruct H as (c' & E & O & C). exists EUeof, []. split; [left; auto|]. split; [exists c'; auto|discriminate].
  - destruct H as [(c' & E & O & C)|(m & c' & E & O & C)].
    + exists EUeof, []. split; [left; auto|]. split; [exists c'; auto|discriminate].
    + exists (EProto m), [close_frame websocket_CloseProtocolError m]. split; [right; eauto|].
      split; [exists c'; auto|discriminate].
  - destruct H as (m & c' & E & O & C).
    exists (EProto m), [close_frame websocket_CloseProtocolError m]. split; [cbn; eauto|]. split; [exists c'; auto|discriminate].
  - destruct (rfc_header_rest _ _ _ Hwf Eh) as (Hwk & Hwr & Hlr & Hl63h).
    destruct (rfc_violation server (negb (c_final c)) h) eqn:Hv.
    { destruct H as (m & c' & E & O & C).
      exists (EProto m), [close_frame websocket_CloseProtocolError m]. split; [cbn; eauto|]. split; [exists c'; auto|discriminate]. }
    destruct (viol_false_inv _ _ _ Hv) as (Vm & Vop & Vz & Vd).
    destruct (8 <=? f_op h)%N eqn:E8.
    + destruct (rfc_payload h rest) as [[p rest']|] eqn:Ep.
      2:{ destruct H as (c' & E & O & C). exists EUeof, []. split; [left; auto|]. split; [exists c'; auto|discriminate]. }
      destruct (rfc_payload_rest _ _ _ _ Hwk Hwr Ep) as (Hwp & Hwr' & Hlr').
      destruct (f_op h =? 9)%N.
      { eexists. split; [exact H|]. unfold ctl_state. repeat split; cbn; auto; lia. }
      destruct (f_op h =? 10)%N.
      { eexists. split; [exact H|]. unfold ctl_state. repeat split; cbn; auto; lia. }
      unfold close_fail in H. destruct (rfc_close p) as [| | |[code|] reason] eqn:Ec; try contradiction.
      * destruct H as (m & c' & E & O & C).
        exists (EProto m), [close_frame websocket_CloseProtocolError m]. split; [cbn; eauto|]. split; [exists c'; auto|discriminate].
      * destruct H as (c' & E & O & C). eexists _, [_]. split; [cbn; eauto|]. split; [exists c'; auto|discriminate].
      * destruct H as (c' & E & O & C). eexists _, [_]. split; [cbn; eauto|]. split; [exists c'; auto|discriminate].
    + assert (Hn : snd (open_parts open h) = Z.to_N (c_len c)).
      { unfold open_parts. destruct open as [[[t fr] n]|]; cbn in Hop |- *; destruct Hop as [_ ->]; lia. }
      rewrite Hn. destruct (rfc_cap limit <? Z.to_N (c_len c) + f_len h)%N eqn:Ecap.
      { destruct H as (c' & E & O & C). eexists _, [_]. split; [cbn; eauto|]. split; [exists c'; auto|discriminate]. }
      eexists. split; [exact H|]. unfold hdr_state. rewrite E8. cbn.
      apply N.ltb_ge in Ecap. unfold rfc_cap, two63 in *.
      assert (Z.to_N (c_len c) + f_len h < 9223372036854775808)%N by (destruct (0 <? limit) eqn:E0; [apply Z.ltb_lt in E0|]; lia).
      repeat split; auto; try lia.
      * intros ->. rewrite Vm. reflexivity.
      * destruct open as [[[t fr] n]|]; cbn in Hop; destruct Hop as [Hf _]; rewrite Hf in *; cbn in *.
        -- destruct Vop as [Vop|Vop]; [|apply N.leb_gt in E8; lia].
           assert (f_op h = 0 \/ f_op h = 1 \/ f_op h = 2)%N as [X|X] by lia; [exact X|]. specialize (Vd X). discriminate.
        -- destruct Vop as [Vop|Vop]; [|apply N.leb_gt in E8; lia].
           assert (f_op h = 0 \/ f_op h = 1 \/ f_op h = 2)%N as [X|X] by lia; [|exact X]. specialize (Vz X). discriminate.
Qed.

(* ------------------------------------------------------------------ the read loop, cut at its joints *)
Definition K (fL extra : nat) (racc : list rresult) (x : res (conn * rresult)) : res (conn * list rresult) :=
  let* (c, r) := x in
  match r with
  | RMsg _ _ => read_loop fL extra true c (r :: racc)
  | RErr _ => read_extra extra true c (r :: racc)
  end.

Definition KA (t : Z) (x : res (conn * (list bytes + rerr))) : res (conn * rresult) :=
  let* (c, r) := x in
  match r with
  | inl chunks => Ok (c, RMsg t (concat (rev' chunks)))
  | inr e => Ok (c, RErr e)
  end.

Definition KN (fuel0 : nat) (x : res (conn * option Z)) : res (conn * rresult) :=
  let* (c, r) := x in
  match r with
  | None => next_reader_fail c
  | Some t => KA t (read_all (fuel0 + fuel0) true c [])
  end.

Lemma read_loop_S f extra c racc :
  read_loop (S f) extra true c racc =
  K f extra racc (KN (S (S (length (c_in c)))) (next_reader_loop (S (S (length (c_in c)))) true (set_len c 0))).
Proof.
  cbn [read_loop]. unfold K, KN, KA, read_message.
  change (c_in (set_len c 0)) with (c_in c).
  destruct (next_reader_loop (S (S (length (c_in c)))) true (set_len c 0)) as [[c1 [t|]]| |]; cbn [bind]; try reflexivity.
  all: try (destruct (read_all _ true c1 []) as [[c2 [chunks|e]]| |]; cbn [bind]; reflexivity).
Qed.

(* after a failure every further ReadMessage returns the same error and writes nothing *)
Lemma read_message_failed c e : c_err c = Some e -> c_errcount c + 1 < repeat_limit ->
  read_message true c = Ok (set_errcount (set_len c 0) (c_errcount c + 1), RErr e).
Proof.
  intros He Hc. unfold read_message. cbn [next_reader_loop]. change (c_err (set_len c 0)) with (c_err c). rewrite He.
  cbn [bind]. unfold next_reader_fail.
  change (c_errcount (set_errcount (set_len c 0) (c_errcount (set_len c 0) + 1))) with (c_errcount c + 1).
  replace (repeat_limit <=? c_errcount c + 1) with false by (symmetry; apply Z.leb_gt; lia).
  change (c_err (set_errcount (set_len c 0) (c_errcount (set_len c 0) + 1))) with (c_err c). rewrite He. reflexivity.
Qed.

Lemma repeat_snoc {A} (x : A) n l : repeat x n ++ x :: l = x :: repeat x n ++ l.
Proof. induction n as [|n IH]; cbn; [reflexivity|]. rewrite IH. reflexivity. Qed.

Lemma rev_repeat' {A} (x : A) n : rev (repeat x n) = repeat x n.
Proof.
  induction n as [|n IH]; [reflexivity|]. cbn [repeat rev]. rewrite IH.
  rewrite (repeat_snoc x n []). rewrite app_nil_r. reflexivity.
Qed.

Lemma read_extra_failed extra : forall c e acc, c_err c = Some e -> c_errcount c + Z.of_nat extra < repeat_limit ->
  exists c', read_extra extra true c acc = Ok (c', repeat (RErr e) extra ++ acc) /\ c_out c' = c_out c /\ c_err c' = Some e.
Proof.
  induction extra as [|n IH]; intros c e acc He Hc.
  - exists c. cbn. auto.
  - cbn [read_extra]. rewrite (read_message_failed c e He) by lia. cbn [bind].
    destruct (IH (set_errcount (set_len c 0) (c_errcount c + 1)) e (RErr e :: acc) He) as (c' & E & O & Er).
    { cbn. lia. }
    exists c'. rewrite E. split; [|auto]. cbn [repeat]. rewrite repeat_snoc. reflexivity.
Qed.

Section Sim.
Variables (server : bool) (limit : Z) (extra : nat).
Hypothesis Hl63 : limit < 9223372036854775808.
Hypothesis Hextra : Z.of_nat extra + 1 < repeat_limit.

(* the rest of the session, as the RFC receiver's verdict (E, o) predicts it: racc / out0 are the
   results returned and the frames written so far (newest first) *)
Definition Final (racc : list rresult) (out0 : list (Z * bytes)) (E : list event) (o : outcome)
           (x : res (conn * list rresult)) : Prop :=
  exists e closefr c', agrees o e closefr /\
    x = Ok (c', repeat (RErr e) (S extra) ++ rev (msgs_of E) ++ racc) /\
    c_out c' = closefr ++ rev (pongs_of E) ++ out0.

Lemma Final_msg racc out0 E o x t p p' : p' = p ->
  Final (RMsg (Z.of_N t) p' :: racc) out0 E o x -> Final racc out0 (EvMsg t p :: E) o x.
Proof.
  intros -> (e & cf & c' & A & X & O). exists e, cf, c'. split; [exact A|]. split.
  - rewrite X. cbn [msgs_of flat_map app rev]. rewrite <- !app_assoc. reflexivity.
  - rewrite O. reflexivity.
Qed.

Lemma Final_pong racc out0 E o x p :
  Final racc ((websocket_PongMessage, p) :: out0) E o x -> Final racc out0 (EvPong p :: E) o x.
Proof.
  intros (e & cf & c' & A & X & O). exists e, cf, c'. split; [exact A|]. split.
  - rewrite X. reflexivity.
  - rewrite O. cbn [pongs_of flat_map app rev]. rewrite <- !app_assoc. reflexivity.
Qed.

Lemma Final_failed racc out0 o e frs c x :
  agrees o e frs -> c_err c = Some e -> c_errcount c + Z.of_nat extra < repeat_limit -> c_out c = frs ++ out0 ->
  x = read_extra extra true c (RErr e :: racc) -> Final racc out0 [] o x.
Proof.
  intros A He Hc O ->. destruct (read_extra_failed extra c e (RErr e :: racc) He Hc) as (c' & E & O' & _).
  exists e, frs, c'. split; [exact A|]. split.
  - rewrite E. cbn [repeat msgs_of flat_map rev app]. rewrite repeat_snoc. reflexivity.
  - rewrite O', O. reflexivity.
Qed.

(* a failing advanceFrame inside NextReader *)
Lemma fail_in_next c e frs o racc fL fN fuel0 :
  c_err c = None -> c_errcount c = 0 -> fails c (advance_frame true c) e frs -> agrees o e frs ->
  Final racc (c_out c) [] o (K fL extra racc (KN fuel0 (next_reader_loop (S fN) true c))).
Proof.
  intros He Hc (c' & Ea & O & C) A. cbn [next_reader_loop]. rewrite He, Ea.
  unfold KN. cbn [bind]. unfold next_reader_fail.
  change (c_errcount (set_errcount (set_err c' (Some e)) (c_errcount (set_err c' (Some e)) + 1))) with (c_errcount c' + 1).
  rewrite C, Hc. replace (repeat_limit <=? 0 + 1) with false by reflexivity.
  cbn [c_err set_errcount set_err]. unfold K. cbn [bind].
  eapply Final_failed; [exact A| | | |reflexivity]; cbn; auto. lia.
Qed.

(* a failing advanceFrame inside messageReader.Read *)
Lemma fail_in_all c e frs o racc fL fA t acc :
  c_err c = None -> c_errcount c = 0 -> c_rem c = 0 -> c_final c = false -> e <> EEof ->
  fails c (advance_frame true c) e frs -> agrees o e frs ->
  Final racc (c_out c) [] o (K fL extra racc (KA t (read_all (S (S fA)) true c acc))).
Proof.
  intros He Hc Hr Hf Hne (c' & Ea & O & C) A. cbn [read_all]. rewrite He, Hr, Hf, Ea. cbn [Z.ltb Z.compare].
  cbn [c_err set_err]. unfold KA. cbn [bind].
  replace (match e with EEof => EUeof | _ => e end) with e by (destruct e; try reflexivity; contradiction).
  unfold K. cbn [bind].
  eapply Final_failed; [exact A| | | |reflexivity]; cbn; auto. lia.
Qed.


Let cap := rfc_cap limit.

(* between messages: inside the loop of NextReader, before a frame header *)
Definition SimA (sf : nat) : Prop :=
  forall c racc fL fN fuel0,
    clean server limit c -> c_final c = true -> c_len c = 0 -> c_errcount c = 0 ->
    (length (c_in c) < sf)%nat -> (length (c_in c) <= fL)%nat -> (length (c_in c) < fN)%nat ->
    (length (c_in c) + 2 <= fuel0)%nat ->
    Final racc (c_out c) (fst (rfc_recv sf server cap None (c_in c) [])) (snd (rfc_recv sf server cap None (c_in c) []))
          (K fL extra racc (KN fuel0 (next_reader_loop fN true c))).

(* inside a fragmented message: in messageReader.Read, before a frame header *)
Definition SimB (sf : nat) : Prop :=
  forall c racc fL fA t fr n acc,
    clean server limit c -> c_final c = false -> c_len c = Z.of_N n -> c_errcount c = 0 ->
    concat (rev acc) = concat (rev fr) ->
    (length (c_in c) < sf)%nat -> (length (c_in c) <= fL)%nat -> (2 * length (c_in c) + 2 <= fA)%nat ->
    Final racc (c_out c) (fst (rfc_recv sf server cap (Some (t, fr, n)) (c_in c) []))
          (snd (rfc_recv sf server cap (Some (t, fr, n)) (c_in c) []))
          (K fL extra racc (KA (Z.of_N t) (read_all fA true c acc))).

(* the message is complete: back to the application, which calls ReadMessage again *)
Lemma message_done sf c racc fL t acc fr p :
  SimA sf -> clean server limit c -> c_final c = true -> c_errcount c = 0 ->
  concat (rev acc) = concat (rev fr) ++ p ->
  (length (c_in c) < sf)%nat -> (length (c_in c) + 2 <= fL)%nat ->
  forall fA, (1 <= fA)%nat ->
  Final racc (c_out c)
        (fst (rfc_recv sf server cap None (c_in c) [EvMsg t (concat (rev' (p :: fr)))]))
        (snd (rfc_recv sf server cap None (c_in c) [EvMsg t (concat (rev' (p :: fr)))]))
        (K fL extra racc (KA (Z.of_N t) (read_all fA true c acc))).
Proof.
  intros HA Hcl Hf Hc Hacc Hsf HfL fA HfA.
  destruct fA as [|fA]; [lia|]. cbn [read_all]. destruct Hcl as [Hsrv Hlim Herr Hw Hrem Hlen Hwf].
  rewrite Herr, Hrem, Hf. cbn [Z.ltb Z.compare]. unfold KA. cbn [bind]. unfold K. cbn [bind].
  destruct fL as [|fL]; [lia|]. rewrite read_loop_S.
  rewrite rfc_recv_acc. cbn [fst snd rev app].
  apply (Final_msg _ _ _ _ _ _ _ (concat (rev' acc))).
  { rewrite !rev'_rev. cbn [rev]. rewrite concat_app. cbn [concat]. rewrite app_nil_r. exact Hacc. }
  apply (HA (set_len c 0)); cbn; auto; try lia.
  constructor; cbn; auto. lia.
Qed.

(* the payload of an accepted data frame *)
Lemma SimP sf : SimA sf -> SimB sf ->
  forall c1 racc fL fA open h rest t fr n acc,
    c_server c1 = server -> c_limit c1 = limit -> c_err c1 = None -> c_wclosed c1 = false ->
    c_in c1 = rest -> c_errcount c1 = 0 -> c_rem c1 = Z.of_N (f_len h) -> c_final c1 = f_fin h ->
    c_len c1 = Z.of_N (n + f_len h) -> c_len c1 < 9223372036854775808 ->
    (server = true -> c_key c1 = f_key h) -> f_masked h = server ->
    wf_bytes (f_key h) -> wf_bytes rest ->
    open_parts open h = (t, fr, n) -> concat (rev acc) = concat (rev fr) ->
    (length rest < sf)%nat -> (length rest + 2 <= fL)%nat -> (2 * length rest + 3 <= fA)%nat ->
    Final racc (c_out c1) (fst (spec_payload sf server cap open h rest [])) (snd (spec_payload sf server cap open h rest []))
          (K fL extra racc (KA (Z.of_N t) (read_all fA true c1 acc))).
Proof.
  intros HA HB c1 racc fL fA open h rest t fr n acc Hsrv Hlim Herr Hw Hin Hcnt Hrem Hfin Hlen Hlen63 Hkey Hmask
         Hwk Hwr Hop Hacc Hsf HfL HfA.
  unfold spec_payload. rewrite Hop.
  (* the state after the payload has been consumed *)
  assert (AFTER : forall c2 acc2 p rest' fA2,
    clean server limit c2 -> c_in c2 = rest' -> c_final c2 = f_fin h -> c_len c2 = Z.of_N (n + f_len h) ->
    c_errcount c2 = 0 -> c_out c2 = c_out c1 ->
    concat (rev acc2) = concat (rev fr) ++ p -> (length rest' <= length rest)%nat -> (2 * length rest' + 2 <= fA2)%nat ->
    Final racc (c_out c1)
      (fst (if f_fin h then rfc_recv sf server cap None rest' [EvMsg t (concat (rev' (p :: fr)))]
            else rfc_recv sf server cap (Some (t, p :: fr, (n + f_len h)%N)) rest' []))
      (snd (if f_fin h then rfc_recv sf server cap None rest' [EvMsg t (concat (rev' (p :: fr)))]
            else rfc_recv sf server cap (Some (t, p :: fr, (n + f_len h)%N)) rest' []))
      (K fL extra racc (KA (Z.of_N t) (read_all fA2 true c2 acc2)))).
  { intros c2 acc2 p rest' fA2 Hcl2 Hin2 Hf2 Hl2 Hc2 Ho2 Hacc2 Hlr HfA2. rewrite <- Ho2. rewrite <- Hin2.
    destruct (f_fin h).
    - apply message_done; auto; try lia. rewrite Hin2. lia. rewrite Hin2. lia.
    - apply HB; auto; try lia.
      + cbn [rev]. rewrite concat_app. cbn [concat]. rewrite app_nil_r. exact Hacc2.
      + rewrite Hin2. lia.
      + rewrite Hin2. lia.
      + rewrite Hin2. lia. }
  unfold rfc_payload.
  destruct (N.eqb_spec (f_len h) 0) as [E0|E0].
  - (* empty payload: nothing to read *)
    replace (split_at (f_len h) rest []) with (Some (@nil N, rest)) by (rewrite E0; destruct rest; reflexivity).
    replace (if f_masked h then rfc_unmask (f_key h) 0 [] else []) with (@nil N) by (destruct (f_masked h); reflexivity).
    apply AFTER; auto; try lia.
    + constructor; auto; try lia; try (rewrite Hrem, E0; reflexivity); try (rewrite Hin; exact Hwr).
    + rewrite app_nil_r. exact Hacc.
  - destruct fA as [|fA]; [lia|]. cbn [read_all]. rewrite Herr, Hrem.
    replace (0 <? Z.of_N (f_len h)) with true by (symmetry; apply Z.ltb_lt; lia).
    rewrite N2Z.id, Hin.
    destruct (split_at (f_len h) rest []) as [[q rest']|] eqn:Es.
    + apply split_at_nil in Es as [Er Lq].
      assert (Hp : (if c_server c1 then mask_bytes (c_key c1) 0 q else q) =
                   (if f_masked h then rfc_unmask (f_key h) 0 q else q)).
      { rewrite Hsrv, Hmask. destruct server; [rewrite Hkey by reflexivity; apply mask_unmask|reflexivity]. }
      rewrite Hp. set (p := if f_masked h then rfc_unmask (f_key h) 0 q else q).
      assert (Hwr' : wf_bytes rest') by (rewrite Er in Hwr; apply wf_app in Hwr; tauto).
      assert (Hlr : (length rest' <= length rest)%nat) by (rewrite Er, app_length; lia).
      apply AFTER; cbn; auto; try lia.
      * constructor; cbn; auto; lia.
      * rewrite concat_app. cbn [concat]. rewrite app_nil_r, Hacc. reflexivity.
    + (* the stream ends inside the frame *)
      unfold KA. cbn [bind]. unfold K. cbn [bind]. rewrite rev'_rev. cbn [rev fst snd].
      eapply Final_failed with (frs := []); [left; split; reflexivity| | | |reflexivity]; cbn; auto. lia.
Qed.

Lemma SimA_S sf : SimA sf -> SimB sf -> SimA (S sf).
Proof.
  intros HA HB c racc fL fN fuel0 Hcl Hf Hl Hc Hsf HfL HfN Hf0.
  pose proof (lib_step server limit c None Hcl Hl63 (conj Hf Hl)) as ST.
  rewrite rfc_recv_step. fold cap in ST.
  destruct fN as [|fN]; [lia|].
  destruct (spec_step server cap None (c_in c)) as [o|p rest'|rest'|h rest].
  - destruct ST as (e & frs & A & F & _). rewrite rev'_rev. cbn [rev fst snd].
    apply fail_in_next with (e := e) (frs := frs); auto. apply Hcl.
  - destruct ST as (c1 & Ea & Hcl1 & Hin1 & Ho1 & Hf1 & Hl1 & Hc1 & Hlen1).
    cbn [next_reader_loop]. rewrite (cl_err _ _ _ Hcl), Ea. replace (is_data websocket_PingMessage) with false by reflexivity.
    rewrite rfc_recv_acc. cbn [rev app fst snd]. apply Final_pong. rewrite <- Ho1, <- Hin1.
    apply HA; auto; try congruence; rewrite ?Hin1; lia.
  - destruct ST as (c1 & Ea & Hcl1 & Hin1 & Ho1 & Hf1 & Hl1 & Hc1 & Hlen1).
    cbn [next_reader_loop]. rewrite (cl_err _ _ _ Hcl), Ea. replace (is_data websocket_PongMessage) with false by reflexivity.
    rewrite <- Ho1, <- Hin1. apply HA; auto; try congruence; rewrite ?Hin1; lia.
  - destruct ST as (c1 & Ea & Hs1 & Hli1 & He1 & Hw1 & Hin1 & Ho1 & Hc1 & Hr1 & Hf1 & Hl1 & Hl163 & Hk1 & Hm1 & Hop1 & Hwk & Hwr & Hlen1).
    cbn [next_reader_loop]. rewrite (cl_err _ _ _ Hcl), Ea.
    replace (is_data (Z.of_N (f_op h))) with true by (destruct Hop1 as [-> | ->]; reflexivity).
    unfold KN. cbn [bind]. rewrite <- Ho1.
    apply (SimP sf HA HB c1 racc fL (fuel0 + fuel0) None h rest (f_op h) [] 0%N []); auto; try congruence; try lia.
Qed.

Lemma SimB_S sf : SimA sf -> SimB sf -> SimB (S sf).
Proof.
  intros HA HB c racc fL fA t fr n acc Hcl Hf Hl Hc Hacc Hsf HfL HfA.
  pose proof (lib_step server limit c (Some (t, fr, n)) Hcl Hl63 (conj Hf Hl)) as ST.
  rewrite rfc_recv_step. fold cap in ST.
  destruct fA as [|fA]; [lia|].
  destruct (spec_step server cap (Some (t, fr, n)) (c_in c)) as [o|p rest'|rest'|h rest].
  - destruct fA as [|fA]; [lia|].
    destruct ST as (e & frs & A & F & Hne). rewrite rev'_rev. cbn [rev fst snd].
    apply fail_in_all with (e := e) (frs := frs); auto; apply Hcl.
  - destruct ST as (c1 & Ea & Hcl1 & Hin1 & Ho1 & Hf1 & Hl1 & Hc1 & Hlen1).
    cbn [read_all]. rewrite (cl_err _ _ _ Hcl), (cl_rem _ _ _ Hcl), Hf, Ea. cbn [Z.ltb Z.compare].
    replace (is_data websocket_PingMessage) with false by reflexivity.
    rewrite rfc_recv_acc. cbn [rev app fst snd]. apply Final_pong. rewrite <- Ho1, <- Hin1.
    apply HB; auto; try congruence; rewrite ?Hin1; lia.
  - destruct ST as (c1 & Ea & Hcl1 & Hin1 & Ho1 & Hf1 & Hl1 & Hc1 & Hlen1).
    cbn [read_all]. rewrite (cl_err _ _ _ Hcl), (cl_rem _ _ _ Hcl), Hf, Ea. cbn [Z.ltb Z.compare].
    replace (is_data websocket_PongMessage) with false by reflexivity.
    rewrite <- Ho1, <- Hin1. apply HB; auto; try congruence; rewrite ?Hin1; lia.
  - destruct ST as (c1 & Ea & Hs1 & Hli1 & He1 & Hw1 & Hin1 & Ho1 & Hc1 & Hr1 & Hf1 & Hl1 & Hl163 & Hk1 & Hm1 & Hop1 & Hwk & Hwr & Hlen1).
    cbn [read_all]. rewrite (cl_err _ _ _ Hcl), (cl_rem _ _ _ Hcl), Hf, Ea. cbn [Z.ltb Z.compare].
    rewrite Hop1. replace (is_data (Z.of_N 0)) with false by reflexivity. rewrite <- Ho1.
    apply (SimP sf HA HB c1 racc fL fA (Some (t, fr, n)) h rest t fr n acc); auto; try congruence; try lia.
Qed.

Lemma sim_all sf : SimA sf /\ SimB sf.
Proof.
  induction sf as [|sf [IA IB]].
  - split; intros c; intros; lia.
  - split; [apply SimA_S|apply SimB_S]; assumption.
Qed.

End Sim.

(* ------------------------------------------------------------------ the whole session *)
Theorem lib_refines_rfc server limit extra bs :
  wf_bytes bs -> limit < 9223372036854775808 -> (extra < 999)%nat ->
  exists e closefr,
    agrees (snd (rfc_receive server limit bs)) e closefr /\
    lib_session true server limit extra bs =
      Ok (msgs_of (fst (rfc_receive server limit bs)) ++ repeat (RErr e) (S extra),
          pongs_of (fst (rfc_receive server limit bs)) ++ closefr) /\
    (length closefr <= 1)%nat.
Proof.
  intros Hwf Hl63 Hex. unfold lib_session, rfc_receive.
  assert (Hextra : Z.of_nat extra + 1 < repeat_limit) by (unfold repeat_limit; lia).
  destruct (sim_all server limit extra Hl63 Hextra (S (length bs))) as [HA _].
  set (c0 := new_conn server limit bs).
  rewrite read_loop_S. change (c_in c0) with bs.
  destruct (HA (set_len c0 0) [] (length bs) (S (S (length bs))) (S (S (length bs)))) as (e & cf & c' & A & X & O);
    try (cbn; lia); try reflexivity.
  { constructor; cbn; auto; lia. }
  change (c_in (set_len c0 0)) with bs in *. change (c_out (set_len c0 0)) with (@nil (Z * bytes)) in O.
  exists e, cf. split; [exact A|]. rewrite X. cbn [bind]. rewrite O. rewrite !rev'_rev, !app_nil_r.
  assert (Hcf : (length cf <= 1)%nat).
  { destruct (snd (rfc_recv (S (length bs)) server (rfc_cap limit) None bs [])) as [hd| | |[code|] reason]; cbn in A.
    - destruct A as [[_ ->]|[_ (m & _ & ->)]]; cbn; lia.
    - destruct A as (m & _ & ->); cbn; lia.
    - destruct A as [_ ->]; cbn; lia.
    - destruct A as [_ ->]; cbn; lia.
    - destruct A as [_ ->]; cbn; lia. }
  split; [|exact Hcf]. f_equal. f_equal.
  - rewrite rev_app_distr, rev_involutive. rewrite rev_repeat'. reflexivity.
  - rewrite rev_app_distr, rev_involutive. f_equal.
    destruct cf as [|x [|y cf]]; try reflexivity. cbn in Hcf. lia.
Qed.
