(* C08 over the rtmpchunk builder's data-dependent chunk reader (Model/RtmpChunk.v): a session cut
   after any number of bytes.  Their transport is a list of byte segments ending in a clean EOF;
   io.ReadFull over bufio is their [stake].  Used from their development: stake_flat,
   read_message_same, single_message (one written message is read back, whatever follows),
   rtmp_read_total.  New here: the reader is monotone in its input ("extension": what it returned on
   a stream it also returns when more bytes follow, unless it had run into the end), and from that
   the cut theorem. *)
From Verif Require Import Lib.Base Lib.Sx Model.RtmpChunk Proofs.RtmpChunk Proofs.RtmpChunkRT.
Open Scope N_scope.

(* r1: the result on some input; r2: the result on the same input followed by the bytes q *)
Definition ext_res {A} (q : bytes) (r1 r2 : res (A * inp)) : Prop :=
  match r1 with
  | Ok (a, i1) => match r2 with Ok (b, i2) => a = b /\ flat i2 = flat i1 ++ q | _ => False end
  | Err e => e = E_EOF \/ e = E_UEOF \/ r2 = Err e
  | Panic p => r2 = Panic p
  end.

Lemma ext_bind {A B} q (r1 r2 : res (A * inp)) (k1 k2 : A * inp -> res (B * inp)) :
  ext_res q r1 r2 ->
  (forall a i1 i2, flat i2 = flat i1 ++ q -> ext_res q (k1 (a, i1)) (k2 (a, i2))) ->
  ext_res q (bind r1 k1) (bind r2 k2).
Proof.
  intros H K. destruct r1 as [[a i1]|e1|p1]; cbn in *.
  - destruct r2 as [[b i2]|e2|p2]; try contradiction. destruct H as [-> H]. cbn. now apply K.
  - destruct H as [H|[H|H]]; [now left|right; now left|]. rewrite H. cbn. right. now right.
  - rewrite H. reflexivity.
Qed.

Lemma ext_err {A} q e : @ext_res A q (Err e) (Err e).
Proof. cbn. right. now right. Qed.
Lemma ext_panic {A} q p : @ext_res A q (Panic p) (Panic p).
Proof. reflexivity. Qed.
Lemma ext_ok {A} q (a : A) i1 i2 : flat i2 = flat i1 ++ q -> ext_res q (Ok (a, i1)) (Ok (a, i2)).
Proof. intros H. cbn. auto. Qed.

Lemma stake_ext q i1 i2 n : flat i2 = flat i1 ++ q -> ext_res q (stake i1 n) (stake i2 n).
Proof.
  intros H. pose proof (stake_flat i1 n) as A1. pose proof (stake_flat i2 n) as A2. rewrite H in A2.
  destruct (stake i1 n) as [[a i1']|e1|p1]; [|cbn|contradiction].
  - destruct A1 as (Hn & -> & Hf1).
    destruct (stake i2 n) as [[b i2']|e2|p2]; [|destruct A2 as (A2 & _); rewrite lenN_app in A2; lia|contradiction].
    destruct A2 as (_ & -> & Hf2). cbn. rewrite lenN_length in Hn. split.
    + rewrite firstn_app. replace (N.to_nat n - length (flat i1))%nat with 0%nat by lia.
      now rewrite firstn_O, app_nil_r.
    + rewrite Hf2, Hf1, skipn_app. replace (N.to_nat n - length (flat i1))%nat with 0%nat by lia.
      now rewrite skipn_O.
  - destruct A1 as (_ & ->). destruct (lenN (flat i1) =? 0); auto.
Qed.

Lemma stake1_ext q i1 i2 : flat i2 = flat i1 ++ q -> ext_res q (stake1 i1) (stake1 i2).
Proof.
  intros H. unfold stake1. apply ext_bind; [now apply stake_ext|].
  intros a j1 j2 Hj. destruct a as [|t [|u l]]; cbn; auto.
Qed.

Lemma read_basic_header_ext q i1 i2 :
  flat i2 = flat i1 ++ q -> ext_res q (read_basic_header i1) (read_basic_header i2).
Proof.
  intros H. unfold read_basic_header. apply ext_bind; [now apply stake1_ext|].
  intros t j1 j2 Hj. destruct (1 <? t mod 64); [now apply ext_ok|].
  apply ext_bind; [now apply stake1_ext|].
  intros t2 k1 k2 Hk. destruct (t mod 64 =? 1); [|now apply ext_ok].
  apply ext_bind; [now apply stake1_ext|].
  intros t3 l1 l2 Hl. now apply ext_ok.
Qed.

Lemma read_message_header_ext q cid st fmt i1 i2 :
  flat i2 = flat i1 ++ q -> ext_res q (read_message_header cid st fmt i1) (read_message_header cid st fmt i2).
Proof.
  intros H. unfold read_message_header.
  destruct ((c_count st =? 0) && negb (fmt =? F0) && negb ((cid =? CID_PC) && (fmt =? F1))); [apply ext_err|].
  destruct (negb (match c_part st with None => true | Some _ => false end) && (fmt =? F0)); [apply ext_err|].
  apply ext_bind; [now apply stake_ext|].
  intros p j1 j2 Hj.
  match goal with |- ext_res _ (bind ?X _) (bind ?X _) => destruct X as [[h1 e1]|e|p0]; cbn [bind]; [|apply ext_err|apply ext_panic] end.
  destruct e1.
  - apply ext_bind; [apply ext_bind; [now apply stake_ext|]|].
    + intros t k1 k2 Hk. destruct t as [|a [|b [|c [|d [|z l]]]]]; cbn; auto.
    + intros ts k1 k2 Hk. now apply ext_ok.
  - cbn [bind]. now apply ext_ok.
Qed.

Lemma read_payload_ext q inchunk cid st i1 i2 :
  flat i2 = flat i1 ++ q -> ext_res q (read_payload inchunk cid st i1) (read_payload inchunk cid st i2).
Proof.
  intros H. unfold read_payload.
  destruct (match c_part st with None => ([], 0) | Some g => g end) as [got gl].
  destruct (h_len (c_hdr st) =? 0); [now apply ext_ok|].
  destruct (h_len (c_hdr st) <? gl); [apply ext_panic|].
  apply ext_bind; [now apply stake_ext|].
  intros d j1 j2 Hj.
  destruct (gl + N.min (h_len (c_hdr st) - gl) inchunk =? h_len (c_hdr st)); now apply ext_ok.
Qed.

Lemma read_chunk_ext q s i1 i2 :
  flat i2 = flat i1 ++ q -> ext_res q (read_chunk s i1) (read_chunk s i2).
Proof.
  intros H. unfold read_chunk. apply ext_bind; [now apply read_basic_header_ext|].
  intros [fmt cid] j1 j2 Hj.
  apply ext_bind; [now apply read_message_header_ext|].
  intros st1 k1 k2 Hk.
  apply ext_bind; [now apply read_payload_ext|].
  intros [om st2] l1 l2 Hl.
  destruct om as [m|]; [|now apply ext_ok].
  destruct (on_message_arrived (in_chunk s) m); cbn [bind]; [now apply ext_ok|apply ext_err|apply ext_panic].
Qed.

(* the reader is monotone in its input *)
Lemma read_message_ext q fuel : forall s i1 i2,
  flat i2 = flat i1 ++ q -> ext_res q (read_message fuel s i1) (read_message fuel s i2).
Proof.
  induction fuel as [|f IH]; intros s i1 i2 H; cbn [read_message]; [apply ext_err|].
  apply ext_bind; [now apply read_chunk_ext|].
  intros [om s1] j1 j2 Hj. destruct om as [m|]; [now apply ext_ok|]. now apply IH.
Qed.

(* a strict prefix of one written message: the reader reports the end of the stream, io.EOF or
   io.ErrUnexpectedEOF -- it neither returns a message nor fails in any other way *)
Theorem truncated_message m c s (p : bytes) w fuel :
  wf_msg m -> 0 < c -> in_chunk s = c -> c_part (get_chunk (chunks s) (m_cid m)) = None -> rs_ok s ->
  write_message c m = Ok (w, next_chunk c m) -> (length (m_payload m) < fuel)%nat ->
  (exists t, w = p ++ t /\ t <> []) ->
  read_message fuel s [p] = Err E_EOF \/ read_message fuel s [p] = Err E_UEOF.
Proof.
  intros W Hc Hin Hp Hok Hw Hfuel (t & -> & Ht).
  destruct (single_message m c s W Hc Hin Hp) as (w' & s' & Hw' & Hr & _).
  assert (Ew : w' = p ++ t) by congruence. subst w'.
  specialize (Hr [] [] fuel Hfuel). rewrite app_nil_r in Hr.
  match type of Hr with read_message _ _ ?I = _ =>
    assert (Hfl : flat I = flat [p] ++ t) by (unfold flat; cbn; now rewrite !app_nil_r);
    pose proof (read_message_ext t fuel s [p] I Hfl) as E
  end. rewrite Hr in E.
  destruct (read_message fuel s [p]) as [[[m1 s1] i1]|e|q] eqn:R; cbn in E.
  - (* a message from the prefix would leave the rest t unread, but nothing is left *)
    destruct E as (_ & E). unfold flat in E. cbn in E. apply (f_equal (@length _)) in E.
    rewrite app_length in E. cbn in E. destruct t; [congruence|cbn in E; lia].
  - destruct E as [->|[->|E]]; [now left|now right|discriminate].
  - discriminate.
Qed.

Lemma idle_rs_ok s : all_idle s -> rs_ok s.
Proof. intros H cid. unfold cs_ok. now rewrite (H cid). Qed.

Lemma lenN_firstn_le2 (b : bytes) k : k <= lenN b -> lenN (firstn (N.to_nat k) b) = k.
Proof. rewrite !lenN_length, firstn_length. lia. Qed.

(* C08, RTMP read path, cut stream, over the data-dependent chunk reader: the session written by
   WriteMessage (chunk sizes following Set Chunk Size on both sides), cut after k bytes *)
Theorem session_cut ms : Forall wf_msg ms ->
  forall c s acc fuel k, 0 < c -> in_chunk s = c -> all_idle s ->
  (length ms < fuel)%nat -> Forall (fun m => (length (m_payload m) + length ms < fuel)%nat) ms ->
  exists ws, write_all c ms = map Ok ws /\
    (k <= lenN (concat ws) ->
     exists n e, read_all fuel s [firstn (N.to_nat k) (concat ws)] acc = (rev acc ++ firstn n ms, e) /\
       (e = E_EOF \/ e = E_UEOF) /\ (n <= length ms)%nat /\
       lenN (concat (firstn n ws)) <= k /\
       ((n < length ms)%nat -> k < lenN (concat (firstn (S n) ws)))).
Proof.
  induction 1 as [|m t W Wt IH]; intros c s acc fuel k Hc Hin Hidle Hf Hfs.
  - exists []. split; [reflexivity|]. intros Hk. cbn [concat] in *. rewrite firstn_nil.
    exists 0%nat, E_EOF. destruct fuel as [|f]; [cbn in Hf; lia|].
    cbn [read_all]. cbn [read_message]. unfold read_chunk, read_basic_header, stake1. cbn.
    rewrite frev_rev, app_nil_r. repeat split; auto; try lia.
  - destruct (single_message m c s W Hc Hin (Hidle _)) as (w & s1 & Hw & Hr1 & Hn & Hi).
    assert (Hc1 : 0 < next_chunk c m) by (apply next_chunk_pos; [apply W|exact Hc]).
    assert (Hidle1 : all_idle s1) by (eapply idle_step; eauto).
    pose proof (Forall_inv Hfs) as Hm. pose proof (Forall_inv_tail Hfs) as Ht. cbn beta in Hm. cbn [length] in *.
    destruct fuel as [|f]; [lia|].
    destruct (IH (next_chunk c m) s1 (m :: acc) f (k - lenN w) Hc1 Hn Hidle1) as (ws & Hws & Hcut).
    + lia.
    + eapply Forall_impl; [|exact Ht]. cbn. intros a Ha. lia.
    + exists (w :: ws). split; [cbn [write_all]; rewrite Hw, Hws; reflexivity|].
      intros Hk. cbn [concat] in *. rewrite lenN_app in Hk.
      destruct (N.le_gt_cases (lenN w) k) as [Hwk|Hwk].
      * (* the first message arrived completely *)
        destruct Hcut as (n & e & Hr & He & Hn1 & Hlo & Hhi); [lia|].
        exists (S n), e. cbn [read_all].
        assert (Hsplit : firstn (N.to_nat k) (w ++ concat ws) = w ++ firstn (N.to_nat (k - lenN w)) (concat ws)).
        { rewrite lenN_length in *. rewrite firstn_app.
          replace (N.to_nat k - length w)%nat with (N.to_nat (k - N.of_nat (length w))) by lia.
          rewrite firstn_all2 by lia. reflexivity. }
        rewrite Hsplit, Hr1 by lia. cbn beta iota. unfold bytes in *. rewrite Hr. cbn [rev]. change (firstn (S n) (m :: t)) with (m :: firstn n t). rewrite <- app_assoc.
        split; [reflexivity|]. split; [exact He|]. split; [cbn; lia|].
        change (firstn (S n) (w :: ws)) with (w :: firstn n ws).
        change (firstn (S (S n)) (w :: ws)) with (w :: firstn (S n) ws). cbn [concat]. rewrite !lenN_app. split; [lia|]. intros Hlt. specialize (Hhi ltac:(cbn in Hlt; lia)). lia.
      * (* the stream ends inside the first message *)
        exists 0%nat. cbn [read_all].
        assert (Hp : firstn (N.to_nat k) (w ++ concat ws) = firstn (N.to_nat k) w).
        { rewrite lenN_length in *. rewrite firstn_app. replace (N.to_nat k - length w)%nat with 0%nat by lia.
          now rewrite firstn_O, app_nil_r. }
        rewrite Hp.
        assert (Htr : exists t0, w = firstn (N.to_nat k) w ++ t0 /\ t0 <> []).
        { exists (skipn (N.to_nat k) w). split; [now rewrite firstn_skipn|].
          intros E. apply (f_equal (@length _)) in E. rewrite skipn_length in E. rewrite lenN_length in Hwk. cbn in E. lia. }
        destruct (truncated_message m c s (firstn (N.to_nat k) w) w (S f) W Hc Hin (Hidle _) (idle_rs_ok s Hidle) Hw ltac:(lia) Htr) as [R|R];
          unfold bytes in *; rewrite R; [exists E_EOF|exists E_UEOF]; rewrite frev_rev, app_nil_r;
          (split; [reflexivity|]); (split; [auto|]); (split; [lia|]); cbn [firstn concat];
          (split; [unfold lenN; cbn; lia|]); intros _; rewrite app_nil_r; exact Hwk.
Qed.

(* ... however the transport delivers the k bytes *)
Corollary session_cut_segmented ms : Forall wf_msg ms ->
  forall c s fuel k, 0 < c -> in_chunk s = c -> all_idle s ->
  (length ms < fuel)%nat -> Forall (fun m => (length (m_payload m) + length ms < fuel)%nat) ms ->
  exists ws, write_all c ms = map Ok ws /\
    forall i, k <= lenN (concat ws) -> flat i = firstn (N.to_nat k) (concat ws) ->
     exists n e, read_all fuel s i [] = (firstn n ms, e) /\
       (e = E_EOF \/ e = E_UEOF) /\ (n <= length ms)%nat /\
       lenN (concat (firstn n ws)) <= k /\
       ((n < length ms)%nat -> k < lenN (concat (firstn (S n) ws))).
Proof.
  intros W c s fuel k Hc Hin Hidle Hf Hfs.
  destruct (session_cut ms W c s [] fuel k Hc Hin Hidle Hf Hfs) as (ws & Hws & Hcut).
  exists ws. split; [exact Hws|]. intros i Hk Hfl.
  destruct (Hcut Hk) as (n & e & Hr & H). exists n, e. split; [|exact H].
  cbn [rev app] in Hr. rewrite <- Hr. apply read_all_same. rewrite Hfl. unfold flat. cbn. now rewrite app_nil_r.
Qed.
