(* C07 -- totality of the translated helper functions (bodies regenerated from /repo).
   Finite domains (uint8 / uint16 receivers and arguments) by exhaustive kernel evaluation
   lifted with [forallb_forall]; helpers over int by case analysis on their guards. *)
From Coq Require Import String.
From Verif Require Import Lib.Base Lib.Sx Lib.GoSem Model.Total.
From Verif Require Import Gen.Gen_amf0 Gen.Gen_rtmp Gen.Gen_flv Gen.Gen_aac Gen.Gen_avc Gen.Gen_websocket.
Open Scope Z_scope.

(* ---- finite sweeps ---- *)
Lemma z_range_In lo n v : In v (z_range lo n) <-> lo <= v < lo + Z.of_nat n.
Proof.
  revert lo. induction n as [|n IH]; intros lo.
  - cbn. lia.
  - cbn [z_range In]. rewrite IH. lia.
Qed.

Lemma sweep1 (f : Z -> bool) (w : Z) :
  forallb f (z_range 0 (Z.to_nat (2 ^ w))) = true ->
  forall v, 0 <= v < 2 ^ w -> f v = true.
Proof.
  intros H v Hv. rewrite forallb_forall in H. apply H. apply z_range_In.
  rewrite Z2Nat.id by lia. lia.
Qed.

Lemma sweep2 (f : Z -> Z -> bool) (w1 w2 : Z) :
  forallb (fun v => forallb (f v) (z_range 0 (Z.to_nat (2 ^ w2)))) (z_range 0 (Z.to_nat (2 ^ w1))) = true ->
  forall v a, 0 <= v < 2 ^ w1 -> 0 <= a < 2 ^ w2 -> f v a = true.
Proof.
  intros H v a Hv Ha.
  apply (sweep1 (fun a => f v a) w2); [|exact Ha].
  apply (sweep1 (fun v => forallb (f v) (z_range 0 (Z.to_nat (2 ^ w2)))) w1 H v Hv).
Qed.

Lemma no_panic_spec {A} (r : res A) : no_panic r = true -> forall s, r <> Panic s.
Proof. destruct r; cbn; intros H s0 E; discriminate. Qed.

(* a result that is Ok is in particular not a panic *)
Lemma is_ok_no_panic {A} (r : res A) : is_ok r = true -> forall s, r <> Panic s.
Proof. destruct r; cbn; intros H s0 E; discriminate. Qed.

Ltac sweep8 f :=
  intros v Hv; apply is_ok_no_panic; revert v Hv;
  apply (sweep1 (fun v => is_ok (f v)) 8); vm_compute; reflexivity.
Ltac sweep16 f :=
  intros v Hv; apply is_ok_no_panic; revert v Hv;
  apply (sweep1 (fun v => is_ok (f v)) 16); vm_compute; reflexivity.
Ltac sweep88 f :=
  intros v a Hv Ha; apply is_ok_no_panic; revert v a Hv Ha;
  apply (sweep2 (fun v a => is_ok (f v a)) 8 8); vm_compute; reflexivity.
(* no bound: follow the guards *)
Ltac by_guards f :=
  intros; unfold f; cbv zeta;
  repeat match goal with |- context [if ?c then _ else _] => destruct c end; discriminate.

(* setters without any indexing: case analysis is enough (and much faster than 65536 evaluations);
   fall back to the sweep if the source grows a table *)
Ltac guards_or_sweep88 f := first [ by_guards f | sweep88 f ].

(* ---- amf0 ---- *)
Lemma amf0_marker_String_total : forall v, 0 <= v < 2 ^ 8 -> forall s, amf0_marker_String v <> Panic s.
Proof. sweep8 amf0_marker_String. Qed.

(* the marker dispatch of the AMF0 decoder, for EVERY byte string (any length, any values) *)
Lemma amf0_Discovery_total : forall (p : list Z) s, amf0_Discovery p <> Panic s.
Proof.
  intros p s. unfold amf0_Discovery. destruct p as [|z l].
  - vm_compute. discriminate.
  - destruct (len_Z (z :: l) <? 1); [discriminate|].
    cbn [nth_chk bind]. cbv zeta.
    repeat match goal with |- context [if ?c then _ else _] => destruct c end; discriminate.
Qed.

Lemma len_Z_acc_ge : forall l acc, acc <= len_Z_acc acc l.
Proof. induction l as [|x l IH]; intros acc; cbn [len_Z_acc]; [lia|]. specialize (IH (acc + 1)). lia. Qed.
Lemma len_Z_cons_ge1 : forall x l, (len_Z (x :: l) <? 1) = false.
Proof. intros x l. unfold len_Z. cbn [len_Z_acc]. apply Z.ltb_ge. pose proof (len_Z_acc_ge l (0 + 1)). lia. Qed.

(* the dispatch yields a value exactly for the nine implemented markers *)
Lemma amf0_Discovery_markers : forall m rest, 0 <= m < 2 ^ 8 ->
  exists a e, amf0_Discovery (m :: rest) = Ok (a, e) /\
    (e = false <-> In m [0; 1; 2; 3; 5; 6; 8; 9; 10]).
Proof.
  intros m rest Hm.
  assert (E : amf0_Discovery (m :: rest) = amf0_Discovery [m]).
  { unfold amf0_Discovery. rewrite !len_Z_cons_ge1. reflexivity. }
  rewrite E. clear E rest. revert m Hm.
  assert (H : forall m, 0 <= m < 2 ^ 8 ->
    (match amf0_Discovery [m] with
     | Ok (_, e) => Bool.eqb (negb e) (existsb (Z.eqb m) [0; 1; 2; 3; 5; 6; 8; 9; 10])
     | _ => false end) = true).
  { apply (sweep1 (fun m => match amf0_Discovery [m] with
     | Ok (_, e) => Bool.eqb (negb e) (existsb (Z.eqb m) [0; 1; 2; 3; 5; 6; 8; 9; 10])
     | _ => false end) 8). vm_compute. reflexivity. }
  intros m Hm. specialize (H m Hm). destruct (amf0_Discovery [m]) as [[a e]| |]; try discriminate.
  exists a, e. split; [reflexivity|].
  apply Bool.eqb_prop in H. split.
  - intros ->. cbn [negb] in H. symmetry in H. apply existsb_exists in H. destruct H as (x & Hin & Hx).
    apply Z.eqb_eq in Hx. subst x. exact Hin.
  - intros Hin. assert (X : existsb (Z.eqb m) [0; 1; 2; 3; 5; 6; 8; 9; 10] = true).
    { apply existsb_exists. exists m. split; [exact Hin|apply Z.eqb_refl]. }
    rewrite X in H. destruct e; [discriminate|reflexivity].
Qed.

(* ---- rtmp ---- *)
Lemma rtmp_UserControl_Size_total : forall v s, rtmp_UserControl_Size v <> Panic s.
Proof. by_guards rtmp_UserControl_Size. Qed.
Lemma rtmp_UserControl_Size_values : forall v, 0 <= v < 2 ^ 16 ->
  exists n, rtmp_UserControl_Size v = Ok n /\ (n = 3 \/ n = 6 \/ n = 10).
Proof.
  assert (H : forall v, 0 <= v < 2 ^ 16 ->
     (match rtmp_UserControl_Size v with Ok n => (n =? 3) || (n =? 6) || (n =? 10) | _ => false end) = true).
  { apply (sweep1 (fun v => match rtmp_UserControl_Size v with Ok n => (n =? 3) || (n =? 6) || (n =? 10) | _ => false end) 16).
    vm_compute. reflexivity. }
  intros v Hv. specialize (H v Hv). destruct (rtmp_UserControl_Size v) as [n| |]; try discriminate.
  exists n. split; [reflexivity|]. lia.
Qed.
Lemma rtmp_SetChunkSize_Size_total : forall u s, rtmp_SetChunkSize_Size u <> Panic s.
Proof. by_guards rtmp_SetChunkSize_Size. Qed.
Lemma rtmp_WindowAcknowledgementSize_Size_total : forall u s, rtmp_WindowAcknowledgementSize_Size u <> Panic s.
Proof. by_guards rtmp_WindowAcknowledgementSize_Size. Qed.
Lemma rtmp_SetPeerBandwidth_Size_total : forall u s, rtmp_SetPeerBandwidth_Size u <> Panic s.
Proof. by_guards rtmp_SetPeerBandwidth_Size. Qed.

(* ---- flv ---- *)
Lemma flv_TagType_String_total : forall v, 0 <= v < 2 ^ 8 -> forall s, flv_TagType_String v <> Panic s.
Proof. sweep8 flv_TagType_String. Qed.
Lemma flv_AudioChannels_String_total : forall v, 0 <= v < 2 ^ 8 -> forall s, flv_AudioChannels_String v <> Panic s.
Proof. sweep8 flv_AudioChannels_String. Qed.
Lemma flv_AudioSampleBits_String_total : forall v, 0 <= v < 2 ^ 8 -> forall s, flv_AudioSampleBits_String v <> Panic s.
Proof. sweep8 flv_AudioSampleBits_String. Qed.
Lemma flv_AudioSamplingRate_String_total : forall v, 0 <= v < 2 ^ 8 -> forall s, flv_AudioSamplingRate_String v <> Panic s.
Proof. sweep8 flv_AudioSamplingRate_String. Qed.
Lemma flv_AudioCodec_String_total : forall v, 0 <= v < 2 ^ 8 -> forall s, flv_AudioCodec_String v <> Panic s.
Proof. sweep8 flv_AudioCodec_String. Qed.
Lemma flv_VideoFrameType_String_total : forall v, 0 <= v < 2 ^ 8 -> forall s, flv_VideoFrameType_String v <> Panic s.
Proof. sweep8 flv_VideoFrameType_String. Qed.
Lemma flv_VideoCodec_String_total : forall v, 0 <= v < 2 ^ 8 -> forall s, flv_VideoCodec_String v <> Panic s.
Proof. sweep8 flv_VideoCodec_String. Qed.
Lemma flv_VideoFrameTrait_String_total : forall v, 0 <= v < 2 ^ 8 -> forall s, flv_VideoFrameTrait_String v <> Panic s.
Proof. sweep8 flv_VideoFrameTrait_String. Qed.
Lemma flv_AudioSamplingRate_ToHz_total : forall v, 0 <= v < 2 ^ 8 -> forall s, flv_AudioSamplingRate_ToHz_res v <> Panic s.
Proof. sweep8 flv_AudioSamplingRate_ToHz_res. Qed.
Lemma flv_AudioSamplingRate_OpusToHz_total : forall v, 0 <= v < 2 ^ 8 -> forall s, flv_AudioSamplingRate_OpusToHz_res v <> Panic s.
Proof. sweep8 flv_AudioSamplingRate_OpusToHz_res. Qed.
Lemma flv_AudioSamplingRate_From_total : forall v a, 0 <= v < 2 ^ 8 -> 0 <= a < 2 ^ 8 -> forall s, flv_AudioSamplingRate_From_res v a <> Panic s.
Proof. guards_or_sweep88 flv_AudioSamplingRate_From_res. Qed.
Lemma flv_AudioSamplingRate_OpusFrom_total : forall v a, 0 <= v < 2 ^ 8 -> 0 <= a < 2 ^ 8 -> forall s, flv_AudioSamplingRate_OpusFrom_res v a <> Panic s.
Proof. guards_or_sweep88 flv_AudioSamplingRate_OpusFrom_res. Qed.
Lemma flv_AudioChannels_From_total : forall v a, 0 <= v < 2 ^ 8 -> 0 <= a < 2 ^ 8 -> forall s, flv_AudioChannels_From_res v a <> Panic s.
Proof. guards_or_sweep88 flv_AudioChannels_From_res. Qed.

(* ---- aac ---- *)
Lemma aac_ObjectType_String_total : forall v, 0 <= v < 2 ^ 8 -> forall s, aac_ObjectType_String v <> Panic s.
Proof. sweep8 aac_ObjectType_String. Qed.
Lemma aac_ObjectType_ToProfile_total : forall v, 0 <= v < 2 ^ 8 -> forall s, aac_ObjectType_ToProfile v <> Panic s.
Proof. sweep8 aac_ObjectType_ToProfile. Qed.
Lemma aac_Profile_String_total : forall v, 0 <= v < 2 ^ 8 -> forall s, aac_Profile_String v <> Panic s.
Proof. sweep8 aac_Profile_String. Qed.
Lemma aac_Profile_ToObjectType_total : forall v, 0 <= v < 2 ^ 8 -> forall s, aac_Profile_ToObjectType v <> Panic s.
Proof. sweep8 aac_Profile_ToObjectType. Qed.
Lemma aac_SampleRateIndex_String_total : forall v, 0 <= v < 2 ^ 8 -> forall s, aac_SampleRateIndex_String v <> Panic s.
Proof. sweep8 aac_SampleRateIndex_String. Qed.
Lemma aac_SampleRateIndex_ToHz_total : forall v, 0 <= v < 2 ^ 8 -> forall s, aac_SampleRateIndex_ToHz v <> Panic s.
Proof. sweep8 aac_SampleRateIndex_ToHz. Qed.
Lemma aac_Channels_String_total : forall v, 0 <= v < 2 ^ 8 -> forall s, aac_Channels_String v <> Panic s.
Proof. sweep8 aac_Channels_String. Qed.

(* ---- avc ---- *)
Lemma avc_NALUType_String_total : forall v, 0 <= v < 2 ^ 8 -> forall s, avc_NALUType_String v <> Panic s.
Proof. sweep8 avc_NALUType_String. Qed.
Lemma avc_AVCProfile_String_total : forall v, 0 <= v < 2 ^ 16 -> forall s, avc_AVCProfile_String v <> Panic s.
Proof. sweep16 avc_AVCProfile_String. Qed.
Lemma avc_AVCLevel_String_total : forall v, 0 <= v < 2 ^ 8 -> forall s, avc_AVCLevel_String v <> Panic s.
Proof. sweep8 avc_AVCLevel_String. Qed.

(* ---- websocket (int arguments: every integer) ---- *)
Lemma websocket_isControl_total : forall v s, websocket_isControl v <> Panic s.
Proof. by_guards websocket_isControl. Qed.
Lemma websocket_isData_total : forall v s, websocket_isData v <> Panic s.
Proof. by_guards websocket_isData. Qed.
Lemma websocket_isValidReceivedCloseCode_total : forall v s, websocket_isValidReceivedCloseCode v <> Panic s.
Proof. by_guards websocket_isValidReceivedCloseCode. Qed.
Lemma websocket_isValidCompressionLevel_total : forall v s, websocket_isValidCompressionLevel v <> Panic s.
Proof. by_guards websocket_isValidCompressionLevel. Qed.

(* the boundary that used to panic: one past the end of each table *)
Example ToHz_at_table_end :
  flv_AudioSamplingRate_ToHz_res 4 <> Panic site_index /\ aac_SampleRateIndex_ToHz 17 <> Panic site_index.
Proof. split; vm_compute; discriminate. Qed.

(* the checked accessor does report a panic when an index is out of range: the totality
   statements above are not vacuous artefacts of the encoding *)
Example nth_chk_panics : nth_chk [5512; 11025; 22050; 44100] 8 = Panic site_index /\ nth_chk [1; 2] (-1) = Panic site_index
  /\ nth_chk [1; 2] 1 = Ok 2.
Proof. vm_compute. auto. Qed.

(* run_c07 never reports a panic for a helper case whose arguments are in range (composition
   used by the correspondence run) *)
Lemma run_c07_spec_case : forall rest, run_c07 (SL (SZ 0 :: rest)) = s_ok [].
Proof. reflexivity. Qed.
