(* Proofs about Model/Jose.v: the end-to-end clauses (sign -> serialize -> parse -> verify returns the
   payload; any change to a decoded field is rejected) in Sections whose hypotheses idealise the
   cryptographic primitives.  The idealisations are hypotheses, never axioms; they are listed
   in kits/C16/kit.json. *)
From Verif Require Import Lib.Base Lib.Sx Model.Jose Proofs.Jose Proofs.JoseCompact Proofs.JoseCipher.
Open Scope N_scope.

(* ------------------------------------------------------------------ JWS *)
Section IdealSignature.
  (* verification under the right key, and under any other key *)
  Variable verify verify_other : bytes -> bytes -> bool.
  (* the one object the signer produced *)
  Variable prot payload sig : bytes.
  Hypothesis wf_p : wf_bytes prot.
  Hypothesis wf_l : wf_bytes payload.
  Hypothesis wf_s : wf_bytes sig.
  (* IDEALISATION: under the right key exactly the produced (input, signature) pair verifies
     (correctness + unforgeability + no second valid signature value in circulation);
     under a different key nothing verifies *)
  Hypothesis ideal_sig : forall m s, verify m s = true <-> (m = signing_input prot payload /\ s = sig).
  Hypothesis ideal_other : forall m s, verify_other m s = false.

  Let o := {| js_prot := prot; js_payload := payload; js_sig := sig |}.

  (* c16_roundtrip_sym, signature half *)
  Lemma jws_roundtrip :
    bind (parse_jws_compact (jws_compact o) true) (jws_verify verify) = Ok payload.
  Proof.
    rewrite parse_jws_compact_serialize by (repeat split; assumption). cbn [bind].
    unfold jws_verify. cbn [o js_prot js_payload js_sig].
    destruct (verify (signing_input prot payload) sig) eqn:E; [reflexivity|].
    assert (T : verify (signing_input prot payload) sig = true) by (apply ideal_sig; auto). congruence.
  Qed.

  (* c16_tamper_sym, signature half: ANY other triple of decoded fields is rejected *)
  Lemma jws_tamper o' :
    wf_jws o' -> o' <> o -> jws_verify verify o' = Err e_crypto.
  Proof.
    intros (Wp & Wl & Ws) NE. unfold jws_verify.
    destruct (verify (signing_input (js_prot o') (js_payload o')) (js_sig o')) eqn:E; [|reflexivity].
    apply ideal_sig in E. destruct E as [E1 E2].
    apply signing_input_injective in E1; try assumption. destruct E1 as [Ep El].
    exfalso. apply NE. destruct o' as [p l s]. cbn in *. subst. reflexivity.
  Qed.

  Lemma jws_other_key o' : jws_verify verify_other o' = Err e_crypto.
  Proof. unfold jws_verify. rewrite ideal_other. reflexivity. Qed.
End IdealSignature.

(* ------------------------------------------------------------------ CBC-HMAC from an ideal MAC *)
Lemma cbc_open_authentic hm cbcdec tb nonce ctag aad p :
  cbc_open hm cbcdec tb nonce ctag aad = Ok p ->
  exists ct tag, ctag = ct ++ tag /\ lenN tag = tb /\ tag_of (hm (mac_input aad nonce ct)) tb = Ok tag.
Proof.
  unfold cbc_open. cbn zeta. destruct (N.ltb_spec (lenN ctag) tb); [discriminate|].
  destruct (split_at_some (lenN ctag - tb) ctag) as (ct & tag & -> & Ec & Lc); [lia|].
  destruct (tag_of (hm (mac_input aad nonce ct)) tb) as [t| |] eqn:Et; cbn [bind]; try discriminate.
  destruct (ct_eq t tag) eqn:Eq; cbn [negb]; [|discriminate]. apply bytes_eqb_eq in Eq. subst t.
  intros _. exists ct, tag. split; [exact Ec|]. split; [|exact Et].
  subst ctag. rewrite lenN_app in *. lia.
Qed.

Section IdealMac.
  Variable hm : bytes -> bytes.
  Variable cbcdec : bytes -> bytes -> bytes.
  Variable tb : N.
  (* the one sealed message: its AAD, nonce, ciphertext and tag *)
  Variable aad0 iv0 ct0 tag0 : bytes.
  Hypothesis len_aad0 : lenN aad0 < 2305843009213693952.
  (* IDEALISATION: the only (message, tag) pair valid under the MAC key is the produced one *)
  Hypothesis ideal_mac : forall m t, tag_of (hm m) tb = Ok t -> m = mac_input aad0 iv0 ct0 /\ t = tag0.

  (* any change of AAD, IV, ciphertext or tag (keeping the nonce length, which the decrypt guard
     enforces, and a tag of tb bytes) is rejected by Open: the tag is compared in full and covers
     aad || iv || ct || len64(aad) injectively *)
  Lemma cbc_tamper aad iv ct tag p :
    length iv = length iv0 -> lenN tag = tb -> lenN tag0 = tb -> lenN aad < 2305843009213693952 ->
    cbc_open hm cbcdec tb iv (ct ++ tag) aad = Ok p ->
    aad = aad0 /\ iv = iv0 /\ ct = ct0 /\ tag = tag0.
  Proof.
    intros Li Lt Lt0 La H. apply cbc_open_authentic in H. destruct H as (ct' & tag' & E & Lt' & Ht).
    apply app_inv_len_tail in E; [|rewrite !lenN_length in *; lia]. destruct E as [<- <-].
    apply ideal_mac in Ht. destruct Ht as [Em ->].
    apply mac_input_injective in Em; try assumption. destruct Em as (-> & -> & ->). auto.
  Qed.
End IdealMac.

(* ------------------------------------------------------------------ JWE *)
Section IdealEncryption.
  Variable unwrapk : bytes -> res bytes.
  Variable open : bytes -> bytes -> bytes -> bytes -> res bytes.
  Variable ns : N.
  (* the one object the encrypter produced *)
  Variable prot ek iv ct tag : bytes.
  Variable aad : option bytes.
  Variable cek plaintext : bytes.
  Hypothesis wf_o : wf_jwe {| je_prot := prot; je_key := ek; je_iv := iv; je_ct := ct; je_tag := tag |}.
  Hypothesis prot_nonempty : prot <> [].
  Hypothesis iv_size : lenN iv = ns.
  (* IDEALISATION of key management under the recipient's key: only the produced encrypted key
     unwraps, and it unwraps to the content key (RSA / AES-KW / GCM-KW / ECDH+KW; for dir and
     ECDH-ES the encrypted key is empty and unwrapk ignores it: those modes are outside this Section) *)
  Hypothesis ideal_unwrap : forall k c, unwrapk k = Ok c <-> (k = ek /\ c = cek).
  Hypothesis unwrap_total : forall k s, unwrapk k <> Panic s.
  (* IDEALISATION of the content AEAD under the content key: exactly the produced
     (nonce, ciphertext||tag, AAD) opens, to the plaintext; Open is total on nonces of the right size *)
  Hypothesis ideal_open : forall i c a p,
    open cek i c a = Ok p <-> (i = iv /\ c = ct ++ tag /\ a = aad_input prot aad /\ p = plaintext).
  Hypothesis open_total : forall k i c a s, lenN i = ns -> open k i c a <> Panic s.

  Let o := {| je_prot := prot; je_key := ek; je_iv := iv; je_ct := ct; je_tag := tag |}.

  (* c16_roundtrip_sym, encryption half (compact; AAD as given to the decrypter) *)
  Lemma jwe_roundtrip :
    bind (parse_jwe_compact (jwe_compact o) 1) (fun o' => jwe_decrypt unwrapk open ns o' aad) = Ok plaintext.
  Proof.
    rewrite parse_jwe_compact_serialize by assumption. cbn [bind].
    unfold jwe_decrypt. cbn [o je_prot je_key je_iv je_ct je_tag].
    assert (U : unwrapk ek = Ok cek) by (apply ideal_unwrap; auto). rewrite U.
    unfold aead_decrypt, aead_decrypt_g. rewrite iv_size, N.eqb_refl. cbn [negb andb].
    assert (O : open cek iv (ct ++ tag) (aad_input prot aad) = Ok plaintext) by (apply ideal_open; auto).
    rewrite O. reflexivity.
  Qed.

  Hypothesis wf_a : wf_aad aad.

  (* c16_tamper_sym, encryption half: any change of the protected header, encrypted key, IV, AAD, or of
     the ciphertext||tag string is rejected with an error (never a panic) *)
  Lemma jwe_tamper o' aad' :
    wf_bytes (je_prot o') -> wf_aad aad' ->
    (je_prot o' <> prot \/ je_key o' <> ek \/ je_iv o' <> iv \/ je_ct o' ++ je_tag o' <> ct ++ tag \/ aad' <> aad) ->
    jwe_decrypt unwrapk open ns o' aad' = Err e_crypto.
  Proof.
    intros Wp Wa NE. unfold jwe_decrypt.
    destruct (unwrapk (je_key o')) as [c| |s] eqn:U; [|reflexivity|exfalso; exact (unwrap_total _ _ U)].
    apply ideal_unwrap in U. destruct U as [Ek ->].
    unfold aead_decrypt, aead_decrypt_g.
    destruct (N.eqb_spec (lenN (je_iv o')) ns) as [Ei|NEi]; cbn [negb andb]; [|reflexivity].
    destruct (open cek (je_iv o') (je_ct o' ++ je_tag o') (aad_input (je_prot o') aad')) as [p| |s] eqn:O;
      [|reflexivity|exfalso; exact (open_total _ _ _ _ _ Ei O)].
    apply ideal_open in O. destruct O as (Ei' & Ec & Ea & _).
    destruct wf_o as (Wp0 & _).
    apply aad_input_injective in Ea; try assumption. destruct Ea as [Ep Eaad].
    exfalso. destruct NE as [N|[N|[N|[N|N]]]]; apply N; assumption.
  Qed.

  (* single-bit flips keep the field lengths; with equal lengths a changed ciphertext or tag
     changes the concatenation *)
  Lemma jwe_tamper_fields o' :
    wf_bytes (je_prot o') -> length (je_ct o') = length ct -> o' <> o ->
    jwe_decrypt unwrapk open ns o' aad = Err e_crypto.
  Proof.
    intros Wp Lc NE. apply jwe_tamper; [exact Wp|exact wf_a|].
    destruct o' as [p k i c t]. cbn [je_prot je_key je_iv je_ct je_tag] in *.
    destruct (list_eq_dec N.eq_dec p prot) as [->|]; [|auto].
    destruct (list_eq_dec N.eq_dec k ek) as [->|]; [|auto].
    destruct (list_eq_dec N.eq_dec i iv) as [->|]; [|auto].
    right. right. right. left. intro E. apply app_inv_len_head in E; [|exact Lc]. destruct E as [-> ->].
    apply NE. reflexivity.
  Qed.
End IdealEncryption.

(* what is NOT a change for Decrypt: the ciphertext and tag members are concatenated before the
   AEAD sees them, so moving the boundary between them (not a bit flip) yields the same input *)
Lemma jwe_ct_tag_boundary unwrapk open ns p k i c t x a :
  jwe_decrypt unwrapk open ns {| je_prot := p; je_key := k; je_iv := i; je_ct := c ++ [x]; je_tag := t |} a =
  jwe_decrypt unwrapk open ns {| je_prot := p; je_key := k; je_iv := i; je_ct := c; je_tag := x :: t |} a.
Proof.
  unfold jwe_decrypt, aead_decrypt, aead_decrypt_g. cbn [je_prot je_key je_iv je_ct je_tag].
  rewrite <- app_assoc. reflexivity.
Qed.

(* dir / ECDH-ES: the key-management step of those modes satisfies the idealisation used above
   with the empty encrypted key -- outright, not as a hypothesis *)
Lemma unwrap_direct_ideal cek k c : unwrap_direct cek k = Ok c <-> (k = [] /\ c = cek).
Proof.
  unfold unwrap_direct. destruct k as [|x k]; cbn [is_nil]; split.
  - intro H. inversion H. auto.
  - intros [_ ->]. reflexivity.
  - discriminate.
  - intros [H _]. discriminate.
Qed.
Lemma unwrap_direct_total cek k s : unwrap_direct cek k <> Panic s.
Proof. unfold unwrap_direct. destruct (is_nil k); discriminate. Qed.

(* ------------------------------------------------------------------ histories on objects *)
(* no operation changes the objects *)
Lemma hist_step_persistent objs op : fst (hist_step objs op) = objs.
Proof.
  unfold hist_step. destruct op as [z|b|l]; try reflexivity.
  destruct l as [|[c| |] [|[i| |] [|? ?]]]; try reflexivity.
  destruct (nth_error objs (Z.to_nat i)); reflexivity.
Qed.

(* hence every result of a history is a function of the initial objects and of that operation
   alone -- whatever was done before, and wherever the operation stands in the history *)
Lemma hist_run_pointwise objs ops : hist_run objs ops = map (fun op => snd (hist_step objs op)) ops.
Proof.
  induction ops as [|op ops IH]; [reflexivity|]. cbn [hist_run map].
  pose proof (hist_step_persistent objs op) as P. destruct (hist_step objs op) as [objs' r]. cbn [fst snd] in *.
  subst objs'. rewrite IH. reflexivity.
Qed.

Lemma hist_run_app objs a b : hist_run objs (a ++ b) = hist_run objs a ++ hist_run objs b.
Proof. rewrite !hist_run_pointwise. apply map_app. Qed.

(* what the results are: the right key returns exactly the payload, a wrong key an error, the
   serializations are those of the object as created *)
Lemma hist_obs_spec o :
  hist_obs o 3 = SL [SZ 3; SZ 0; SB (hobj_payload o)] /\
  hist_obs o 4 = SL [SZ 4; SZ 1] /\
  hist_obs o 1 = SL [SZ 1; SB (hobj_compact o)] /\
  hist_obs o 2 = SL (SZ 2 :: hobj_members o) /\
  hist_obs o 6 = SL [SZ 6; SZ 0; SB (hobj_payload o)] /\
  hist_obs o 10 = SL [SZ 10; SZ 0; SB (hobj_payload o); SZ 0; SB (hobj_payload o)] /\
  hist_obs o 11 = SL [SZ 11; SZ 1; SZ 0; SB (hobj_payload o)].
Proof. repeat split; reflexivity. Qed.
