(* Proofs about Model/Amf0.v (C05; the lemmas named amf0_* / um_*_ are also used by C03, C07).

   Method: a relation [wire w v] ("the byte string w is an encoding of v that the decoder
   accepts": like [enc v] but with any non-zero byte for true and any ECMA count) with
   - wire_len      : lenN w = size v
   - enc_wire      : wf_amf v -> wire (enc v) v
   - wire_dec      : wire w v -> dec fuel (w ++ rest) = Ok (v, size v)        (completeness)
   - dec_wire      : dec fuel p = Ok (v, n) -> p = w ++ rest, wire w v, n = size v  (soundness)
   from which round trip, exact size, consumed = Size(), totality and fuel adequacy follow. *)
From Verif Require Import Lib.Base Lib.Sx Model.Amf0.
Open Scope N_scope.
Ltac Zify.zify_post_hook ::= Z.div_mod_to_equations.

(* ------------------------------------------------------------------ lists, take, lenN *)
Lemma lenN_acc_spec (b : bytes) : forall a, lenN_acc a b = a + N.of_nat (length b).
Proof. induction b as [|x t IH]; intros a; cbn [lenN_acc length]; [lia|rewrite IH; lia]. Qed.

Lemma lenN_length (b : bytes) : lenN b = N.of_nat (length b).
Proof. unfold lenN. rewrite lenN_acc_spec. lia. Qed.

Lemma lenN_app (a b : bytes) : lenN (a ++ b) = lenN a + lenN b.
Proof. rewrite !lenN_length, app_length. lia. Qed.

Lemma lenN_cons x (b : bytes) : lenN (x :: b) = 1 + lenN b.
Proof. rewrite !lenN_length. cbn [length]. lia. Qed.

Lemma lenN_nil : lenN [] = 0.
Proof. reflexivity. Qed.

Lemma take_app (a r : bytes) : take (length a) (a ++ r) = Some (a, r).
Proof. induction a as [|x a IH]; cbn [take length app]; [reflexivity|rewrite IH; reflexivity]. Qed.

Lemma take_some n : forall (b a r : bytes), take n b = Some (a, r) -> b = a ++ r /\ length a = n.
Proof.
  induction n as [|n IH]; intros b a r H; cbn [take] in H.
  - inversion H; subst. split; reflexivity.
  - destruct b as [|x t]; [discriminate|].
    destruct (take n t) as [[a' r']|] eqn:E; [|discriminate].
    inversion H; subst. apply IH in E. destruct E as [-> <-]. split; reflexivity.
Qed.

Lemma take_none n : forall (b : bytes), take n b = None -> (length b < n)%nat.
Proof.
  induction n as [|n IH]; intros b H; cbn [take] in H; [discriminate|].
  destruct b as [|x t]; cbn [length]; [lia|].
  destruct (take n t) as [[a' r']|] eqn:E; [discriminate|]. apply IH in E. lia.
Qed.

Lemma takeN_app (a r : bytes) n : n = lenN a -> takeN n (a ++ r) = Some (a, r).
Proof. intros ->. unfold takeN. rewrite lenN_length, Nat2N.id. apply take_app. Qed.

Lemma takeN_some n (b a r : bytes) : takeN n b = Some (a, r) -> b = a ++ r /\ lenN a = n.
Proof.
  unfold takeN. intros H. apply take_some in H. destruct H as [-> H]. split; [reflexivity|].
  rewrite lenN_length, H. apply N2Nat.id.
Qed.

Lemma takeN_none n (b : bytes) : takeN n b = None -> lenN b < n.
Proof. unfold takeN. intros H. apply take_none in H. rewrite lenN_length. lia. Qed.

Lemma zeros_length s : length (zeros s) = length s.
Proof. unfold zeros. apply map_length. Qed.

Lemma plen_cons kv (ps : props) : plen (kv :: ps) = 1 + plen ps.
Proof. unfold plen. cbn [length]. lia. Qed.

(* ------------------------------------------------------------------ big-endian round trips *)
Lemma ube2_be2 n : n < 65536 -> ube2 ((n / 256) mod 256) (n mod 256) = n.
Proof. unfold ube2. lia. Qed.

Lemma ube4_be4 n : n < 4294967296 ->
  ube4 ((n / 16777216) mod 256) ((n / 65536) mod 256) ((n / 256) mod 256) (n mod 256) = n.
Proof. unfold ube4. lia. Qed.

Lemma be8_eq n : be8 n =
  [ (n / 4294967296 / 16777216) mod 256; (n / 4294967296 / 65536) mod 256;
    (n / 4294967296 / 256) mod 256; (n / 4294967296) mod 256;
    (n mod 4294967296 / 16777216) mod 256; (n mod 4294967296 / 65536) mod 256;
    (n mod 4294967296 / 256) mod 256; (n mod 4294967296) mod 256 ].
Proof. reflexivity. Qed.

Lemma ube8_be8 n : n < 18446744073709551616 ->
  ube8 ((n / 4294967296 / 16777216) mod 256) ((n / 4294967296 / 65536) mod 256)
       ((n / 4294967296 / 256) mod 256) ((n / 4294967296) mod 256)
       ((n mod 4294967296 / 16777216) mod 256) ((n mod 4294967296 / 65536) mod 256)
       ((n mod 4294967296 / 256) mod 256) ((n mod 4294967296) mod 256) = n.
Proof.
  intros H. unfold ube8.
  rewrite (ube4_be4 (n / 4294967296)) by lia.
  rewrite (ube4_be4 (n mod 4294967296)) by lia. lia.
Qed.

Lemma ube2_bound h l : h < 256 -> l < 256 -> ube2 h l < 65536.
Proof. unfold ube2. lia. Qed.
Lemma ube4_bound a b c d : a < 256 -> b < 256 -> c < 256 -> d < 256 -> ube4 a b c d < 4294967296.
Proof. unfold ube4. lia. Qed.
Lemma ube8_bound a b c d e f g h :
  a < 256 -> b < 256 -> c < 256 -> d < 256 -> e < 256 -> f < 256 -> g < 256 -> h < 256 ->
  ube8 a b c d e f g h < 18446744073709551616.
Proof. unfold ube8, ube4. lia. Qed.

(* ------------------------------------------------------------------ induction principle *)
Section amf_induction.
  Variable P : amf -> Prop.
  Hypothesis Hnum : forall b, P (ANum b).
  Hypothesis Hbool : forall b, P (ABool b).
  Hypothesis Hstr : forall s, P (AStr s).
  Hypothesis Hobj : forall ps, Forall (fun kv => P (snd kv)) ps -> P (AObj ps).
  Hypothesis Hnull : P ANull.
  Hypothesis Hundef : P AUndef.
  Hypothesis Hecma : forall c ps, Forall (fun kv => P (snd kv)) ps -> P (AEcma c ps).
  Hypothesis Hstrict : forall ps, Forall (fun kv => P (snd kv)) ps -> P (AStrict ps).
  Fixpoint amf_ind' (v : amf) : P v :=
    let go := fix go (ps : props) : Forall (fun kv => P (snd kv)) ps :=
      match ps with
      | [] => Forall_nil _
      | kv :: t => Forall_cons kv (amf_ind' (snd kv)) (go t)
      end in
    match v with
    | ANum b => Hnum b
    | ABool b => Hbool b
    | AStr s => Hstr s
    | AObj ps => Hobj ps (go ps)
    | ANull => Hnull
    | AUndef => Hundef
    | AEcma c ps => Hecma c ps (go ps)
    | AStrict ps => Hstrict ps (go ps)
    end.
End amf_induction.

(* ------------------------------------------------------------------ unfolding lemmas *)
Lemma enc_obj ps : enc (AObj ps) = mObject :: enc_props ps ++ eof_bytes.
Proof. reflexivity. Qed.
Lemma enc_ecma c ps : enc (AEcma c ps) = mEcmaArray :: be4 c ++ enc_props ps ++ eof_bytes.
Proof. reflexivity. Qed.
Lemma enc_strict ps : enc (AStrict ps) = mStrictArray :: be4 (u32 (plen ps)) ++ enc_props ps.
Proof. reflexivity. Qed.

Lemma size_obj ps : size (AObj ps) = 1 + 3 + size_props ps.
Proof. reflexivity. Qed.
Lemma size_ecma c ps : size (AEcma c ps) = 1 + 4 + 3 + size_props ps.
Proof. reflexivity. Qed.
Lemma size_strict ps : size (AStrict ps) = 1 + 4 + size_props ps.
Proof. reflexivity. Qed.

Lemma wf_obj ps : wf_amfb (AObj ps) = wf_propsb ps.
Proof. reflexivity. Qed.
Lemma wf_ecma c ps : wf_amfb (AEcma c ps) = (c <? 4294967296) && wf_propsb ps.
Proof. reflexivity. Qed.
Lemma wf_strict ps : wf_amfb (AStrict ps) = (plen ps <? 4294967296) && wf_propsb ps.
Proof. reflexivity. Qed.

(* ------------------------------------------------------------------ exact size *)
Lemma utf8_enc_len s : lenN (utf8_enc s) = utf8_size s.
Proof.
  unfold utf8_enc, utf8_size, be2. rewrite lenN_app.
  destruct (u16 (lenN s) =? 0); rewrite !lenN_length; cbn [length]; rewrite ?zeros_length; lia.
Qed.

Lemma enc_props_len ps :
  Forall (fun kv => lenN (enc (snd kv)) = size (snd kv)) ps -> lenN (enc_props ps) = size_props ps.
Proof.
  induction 1 as [|[k x] t Hx _ IH]; [reflexivity|].
  cbn [enc_props size_props snd] in *. rewrite !lenN_app, utf8_enc_len, Hx, IH. lia.
Qed.

Lemma be4_len n : lenN (be4 n) = 4.
Proof. reflexivity. Qed.

(* C05 clause 1: marshalling yields exactly Size() bytes -- every tree, no side condition *)
Theorem amf0_size_enc v : lenN (enc v) = size v.
Proof.
  induction v as [b|b|s|ps IH| | |c ps IH|ps IH] using amf_ind'.
  - reflexivity.
  - reflexivity.
  - cbn [enc size]. rewrite lenN_cons, utf8_enc_len. reflexivity.
  - rewrite enc_obj, size_obj, lenN_cons, lenN_app, (enc_props_len _ IH). change (lenN eof_bytes) with 3. lia.
  - reflexivity.
  - reflexivity.
  - rewrite enc_ecma, size_ecma, lenN_cons, !lenN_app, (enc_props_len _ IH), be4_len. change (lenN eof_bytes) with 3. lia.
  - rewrite enc_strict, size_strict, lenN_cons, !lenN_app, (enc_props_len _ IH), be4_len. lia.
Qed.

Theorem amf0_length_enc v : N.of_nat (length (enc v)) = size v.
Proof. rewrite <- lenN_length. apply amf0_size_enc. Qed.

(* ------------------------------------------------------------------ the wire relation *)
Inductive wire : bytes -> amf -> Prop :=
| W_num a b c d e f g h :
    wire [mNumber; a; b; c; d; e; f; g; h] (ANum (ube8 a b c d e f g h))
| W_bool b : wire [mBoolean; b] (ABool (negb (b =? 0)))
| W_str h l s : lenN s = ube2 h l -> wire (mString :: h :: l :: s) (AStr s)
| W_obj wps ps : wire_props wps ps -> wire (mObject :: wps ++ eof_bytes) (AObj ps)
| W_null : wire [mNull] ANull
| W_undef : wire [mUndefined] AUndef
| W_ecma a b c d wps ps :
    wire_props wps ps -> wire (mEcmaArray :: a :: b :: c :: d :: wps ++ eof_bytes) (AEcma (ube4 a b c d) ps)
| W_strict a b c d wps ps :
    wire_props wps ps -> ube4 a b c d = plen ps ->
    wire (mStrictArray :: a :: b :: c :: d :: wps) (AStrict ps)
with wire_props : bytes -> props -> Prop :=
| WP_nil : wire_props [] []
| WP_cons h l k w v wps ps :
    lenN k = ube2 h l -> wire w v -> wire_props wps ps ->
    wire_props (h :: l :: k ++ w ++ wps) ((k, v) :: ps).

Scheme wire_min := Minimality for wire Sort Prop
  with wire_props_min := Minimality for wire_props Sort Prop.
Combined Scheme wire_mutind from wire_min, wire_props_min.

Lemma wire_len_both :
  (forall w v, wire w v -> lenN w = size v) /\
  (forall wps ps, wire_props wps ps -> lenN wps = size_props ps).
Proof.
  apply wire_mutind.
  - reflexivity.
  - reflexivity.
  - intros h l s H. cbn [size]. unfold utf8_size. rewrite !lenN_cons. lia.
  - intros wps ps _ IH. rewrite size_obj, lenN_cons, lenN_app, IH. change (lenN eof_bytes) with 3. lia.
  - reflexivity.
  - reflexivity.
  - intros a b c d wps ps _ IH. rewrite size_ecma, !lenN_cons, lenN_app, IH. change (lenN eof_bytes) with 3. lia.
  - intros a b c d wps ps _ IH _. rewrite size_strict, !lenN_cons, IH. lia.
  - reflexivity.
  - intros h l k w v wps ps Hk _ IHw _ IHp. cbn [size_props]. unfold utf8_size.
    rewrite !lenN_cons, !lenN_app, IHw, IHp. lia.
Qed.
Definition wire_len := proj1 wire_len_both.
Definition wire_props_len := proj2 wire_len_both.

Lemma wire_head w v : wire w v -> exists m r, w = m :: r /\ (m =? mObjectEnd) = false.
Proof. destruct 1; eexists; eexists; (split; [reflexivity|reflexivity]). Qed.

(* the canonical encoding of a representable value is on the wire relation *)
Lemma wf_strb_spec s : wf_strb s = true -> lenN s <= 65535 /\ wf_bytes s.
Proof.
  unfold wf_strb. intros H. apply andb_true_iff in H. destruct H as [H1 H2]. split; [lia|].
  unfold wf_bytes, wf_bytesb in *. rewrite forallb_forall in H2. apply Forall_forall.
  intros x Hx. apply H2 in Hx. unfold wf_byte, wf_byteb in *. lia.
Qed.

Lemma utf8_enc_wf s : lenN s <= 65535 ->
  utf8_enc s = (lenN s / 256) mod 256 :: lenN s mod 256 :: s.
Proof.
  intros H. unfold utf8_enc, u16, be2.
  replace (lenN s mod 65536) with (lenN s) by lia.
  destruct (lenN s =? 0) eqn:E; [|reflexivity].
  assert (s = []) as ->. { destruct s; [reflexivity|]. rewrite lenN_cons in E. lia. }
  reflexivity.
Qed.

Lemma enc_wire_props ps :
  Forall (fun kv => wf_amf (snd kv) -> wire (enc (snd kv)) (snd kv)) ps ->
  wf_propsb ps = true -> wire_props (enc_props ps) ps.
Proof.
  induction 1 as [|[k x] t Hx _ IH]; intros Hwf; [constructor|].
  cbn [wf_propsb] in Hwf. apply andb_true_iff in Hwf. destruct Hwf as [Hwf Ht].
  apply andb_true_iff in Hwf. destruct Hwf as [Hk Hwx].
  apply wf_strb_spec in Hk. destruct Hk as [Hk _].
  cbn [enc_props snd] in *. rewrite utf8_enc_wf by exact Hk. cbn [app].
  constructor; [rewrite ube2_be2; lia|exact (Hx Hwx)|exact (IH Ht)].
Qed.

Theorem enc_wire v : wf_amf v -> wire (enc v) v.
Proof.
  unfold wf_amf.
  induction v as [b|b|s|ps IH| | |c ps IH|ps IH] using amf_ind'; intros Hwf.
  - cbn [wf_amfb] in Hwf. cbn [enc]. rewrite be8_eq.
    rewrite <- (ube8_be8 b) at 9 by lia. constructor.
  - cbn [enc]. destruct b; [exact (W_bool 1)|exact (W_bool 0)].
  - cbn [wf_amfb] in Hwf. apply wf_strb_spec in Hwf. destruct Hwf as [Hs _].
    cbn [enc]. rewrite utf8_enc_wf by exact Hs. constructor. rewrite ube2_be2; lia.
  - rewrite wf_obj in Hwf. rewrite enc_obj. constructor. apply enc_wire_props; assumption.
  - constructor.
  - constructor.
  - rewrite wf_ecma in Hwf. apply andb_true_iff in Hwf. destruct Hwf as [Hc Hps].
    rewrite enc_ecma. unfold be4. cbn [app].
    rewrite <- (ube4_be4 c) at 5 by lia. constructor. apply enc_wire_props; assumption.
  - rewrite wf_strict in Hwf. apply andb_true_iff in Hwf. destruct Hwf as [Hc Hps].
    rewrite enc_strict. unfold be4, u32. cbn [app].
    replace (plen ps mod 4294967296) with (plen ps) by lia.
    constructor; [apply enc_wire_props; assumption|apply ube4_be4; lia].
Qed.

(* ------------------------------------------------------------------ decoder equations *)
Definition is_unsup (m : N) : bool :=
  (m =? mDate) || (m =? mLongString) || (m =? mUnsupported) || (m =? mXmlDocument)
  || (m =? mTypedObject) || (m =? mAvmPlusObject) || (m =? mForbidden)
  || (m =? mMovieClip) || (m =? mRecordSet).

Lemma dec_O p : dec O p = Err E_FUEL.
Proof. reflexivity. Qed.

Lemma dec_S f m r : dec (S f) (m :: r) =
  if m =? mNumber then um_number (m :: r)
  else if m =? mBoolean then um_bool (m :: r)
  else if m =? mString then um_string (m :: r)
  else if m =? mObject then
    (let* (ps, sz) := dec_props f true 0 r [] 0 0 in Ok (AObj ps, 1 + 3 + sz))
  else if m =? mNull then um_null (m :: r)
  else if m =? mUndefined then um_undef (m :: r)
  else if m =? mReference then Err E_INVALID
  else if m =? mEcmaArray then
    match r with
    | a :: b :: c :: d :: r' =>
        let* (ps, sz) := dec_props f true 0 r' [] 0 0 in
        Ok (AEcma (ube4 a b c d) ps, 1 + 4 + 3 + sz)
    | _ => Err E_SHORT
    end
  else if m =? mObjectEnd then
    match r with _ :: _ :: _ => Err E_ILLEGAL | _ => Err E_SHORT end
  else if m =? mStrictArray then
    match r with
    | a :: b :: c :: d :: r' =>
        let count := ube4 a b c d in
        if count =? 0 then Ok (AStrict [], 1 + 4)
        else let* (ps, sz) := dec_props f false count r' [] 0 0 in
             Ok (AStrict ps, 1 + 4 + sz)
    | _ => Err E_SHORT
    end
  else if is_unsup m then Err E_UNSUP
  else Err E_INVALID.
Proof. reflexivity. Qed.

Lemma dec_nil f : dec (S f) [] = Err E_SHORT.
Proof. reflexivity. Qed.

Lemma dec_props_O eof maxn p racc n sz : dec_props O eof maxn p racc n sz = Err E_FUEL.
Proof. reflexivity. Qed.

Lemma dec_props_S f eof maxn p racc n sz : dec_props (S f) eof maxn p racc n sz =
  if negb eof && (maxn <=? n) then Ok (rev racc, sz)
  else
    match um_utf8 p with
    | Ok (k, p1) =>
        if eof && is_eof k p1 then Ok (rev racc, sz)
        else
          match dec f p1 with
          | Ok (v, vs) =>
              match takeN vs p1 with
              | Some (_, p2) => dec_props f eof maxn p2 ((k, v) :: racc) (N.succ n) (sz + (utf8_size k + vs))
              | None => Panic 1
              end
          | Err e => Err e
          | Panic s => Panic s
          end
    | Err e => Err e
    | Panic s => Panic s
    end.
Proof. reflexivity. Qed.

(* concrete markers *)
Lemma dec_num f r : dec (S f) (mNumber :: r) = um_number (mNumber :: r).
Proof. reflexivity. Qed.
Lemma dec_bool f r : dec (S f) (mBoolean :: r) = um_bool (mBoolean :: r).
Proof. reflexivity. Qed.
Lemma dec_str f r : dec (S f) (mString :: r) = um_string (mString :: r).
Proof. reflexivity. Qed.
Lemma dec_null f r : dec (S f) (mNull :: r) = um_null (mNull :: r).
Proof. reflexivity. Qed.
Lemma dec_undef f r : dec (S f) (mUndefined :: r) = um_undef (mUndefined :: r).
Proof. reflexivity. Qed.
Lemma dec_obj f r : dec (S f) (mObject :: r) = um_object f (mObject :: r).
Proof. reflexivity. Qed.
Lemma dec_ecma f r : dec (S f) (mEcmaArray :: r) = um_ecma f (mEcmaArray :: r).
Proof. destruct r as [|a [|b [|c [|d r']]]]; reflexivity. Qed.
Lemma dec_strict f r : dec (S f) (mStrictArray :: r) = um_strict f (mStrictArray :: r).
Proof. destruct r as [|a [|b [|c [|d r']]]]; reflexivity. Qed.

Lemma um_object_eq f r : um_object f (mObject :: r) =
  (let* (ps, sz) := dec_props f true 0 r [] 0 0 in Ok (AObj ps, 1 + 3 + sz)).
Proof. reflexivity. Qed.
Lemma um_ecma_eq f a b c d r : um_ecma f (mEcmaArray :: a :: b :: c :: d :: r) =
  (let* (ps, sz) := dec_props f true 0 r [] 0 0 in Ok (AEcma (ube4 a b c d) ps, 1 + 4 + 3 + sz)).
Proof. reflexivity. Qed.
Lemma um_strict_eq f a b c d r : um_strict f (mStrictArray :: a :: b :: c :: d :: r) =
  (if ube4 a b c d =? 0 then Ok (AStrict [], 1 + 4)
   else let* (ps, sz) := dec_props f false (ube4 a b c d) r [] 0 0 in Ok (AStrict ps, 1 + 4 + sz)).
Proof. reflexivity. Qed.

Lemma um_utf8_app h l k rest : lenN k = ube2 h l -> um_utf8 (h :: l :: k ++ rest) = Ok (k, rest).
Proof. intros H. unfold um_utf8. rewrite takeN_app by (symmetry; exact H). reflexivity. Qed.

Lemma um_utf8_ok p k p1 : um_utf8 p = Ok (k, p1) ->
  exists h l, p = h :: l :: k ++ p1 /\ lenN k = ube2 h l.
Proof.
  unfold um_utf8. destruct p as [|h [|l r]]; try discriminate.
  destruct (takeN (ube2 h l) r) as [[s r']|] eqn:E; [|discriminate].
  intros H. inversion H; subst. apply takeN_some in E. destruct E as [-> E]. eauto.
Qed.

Lemma um_utf8_not_panic p s : um_utf8 p <> Panic s.
Proof.
  unfold um_utf8. destruct p as [|h [|l r]]; try discriminate.
  destruct (takeN (ube2 h l) r) as [[? ?]|]; discriminate.
Qed.

Lemma um_utf8_err p e : um_utf8 p = Err e -> e = E_SHORT.
Proof.
  unfold um_utf8. destruct p as [|h [|l r]]; try (intros H; inversion H; reflexivity).
  destruct (takeN (ube2 h l) r) as [[? ?]|]; intros H; inversion H; reflexivity.
Qed.

(* ------------------------------------------------------------------ completeness *)
Lemma length_lenN_lt (a : bytes) (n : nat) : (length a < n)%nat <-> lenN a < N.of_nat n.
Proof. rewrite lenN_length. lia. Qed.

Lemma wire_dec_both :
  (forall w v, wire w v ->
     forall f rest, (length w < f)%nat -> dec f (w ++ rest) = Ok (v, size v)) /\
  (forall wps ps, wire_props wps ps ->
     forall f rest racc n sz,
       ((length wps + 3 <= f)%nat ->
          dec_props f true 0 (wps ++ eof_bytes ++ rest) racc n sz
          = Ok (rev racc ++ ps, sz + size_props ps)) /\
       (forall maxn, maxn = n + plen ps -> (length wps < f)%nat ->
          dec_props f false maxn (wps ++ rest) racc n sz
          = Ok (rev racc ++ ps, sz + size_props ps))).
Proof.
  apply wire_mutind.
  - intros a b c d e f0 g h f rest Hf. destruct f as [|f]; [lia|]. reflexivity.
  - intros b f rest Hf. destruct f as [|f]; [lia|]. reflexivity.
  - intros h l s Hs f rest Hf. destruct f as [|f]; [lia|].
    cbn [app]. rewrite dec_str. unfold um_string.
    change (negb (mString =? mString)) with false. cbv iota.
    rewrite um_utf8_app by exact Hs. reflexivity.
  - intros wps ps _ IH f rest Hf. destruct f as [|f]; [cbn [length] in Hf; lia|].
    cbn [app]. rewrite dec_obj, um_object_eq, <- app_assoc.
    cbn [length] in Hf. rewrite app_length in Hf. cbn [length eof_bytes] in Hf.
    destruct (IH f rest [] 0 0) as [IHa _]. rewrite IHa by lia.
    cbn [bind rev app]. rewrite size_obj. reflexivity.
  - intros f rest Hf. destruct f as [|f]; [lia|]. reflexivity.
  - intros f rest Hf. destruct f as [|f]; [lia|]. reflexivity.
  - intros a b c d wps ps _ IH f rest Hf. destruct f as [|f]; [cbn [length] in Hf; lia|].
    cbn [app]. rewrite dec_ecma, um_ecma_eq, <- app_assoc.
    cbn [length] in Hf. rewrite app_length in Hf. cbn [length eof_bytes] in Hf.
    destruct (IH f rest [] 0 0) as [IHa _]. rewrite IHa by lia.
    cbn [bind rev app]. rewrite size_ecma. reflexivity.
  - intros a b c d wps ps Hw IH Hc f rest Hf. destruct f as [|f]; [cbn [length] in Hf; lia|].
    cbn [app]. rewrite dec_strict, um_strict_eq. cbn [length] in Hf.
    destruct (ube4 a b c d =? 0) eqn:E.
    + assert (ps = []) as ->. { destruct ps; [reflexivity|]. rewrite plen_cons in Hc. lia. }
      inversion Hw; subst. reflexivity.
    + destruct (IH f rest [] 0 0) as [_ IHb]. rewrite (IHb (ube4 a b c d)) by lia.
      cbn [bind rev app]. rewrite size_strict. reflexivity.
  - intros f rest racc n sz. split.
    + intros Hf. destruct f as [|f]; [lia|]. cbn [app]. rewrite dec_props_S.
      cbn [negb andb]. change (um_utf8 (eof_bytes ++ rest)) with (Ok (@nil N, mObjectEnd :: rest)).
      cbv iota. change (is_eof [] (mObjectEnd :: rest)) with true. cbn [andb size_props].
      rewrite app_nil_r. f_equal. f_equal. lia.
    + intros maxn Hm Hf. destruct f as [|f]; [lia|]. rewrite dec_props_S.
      replace (maxn <=? n) with true by (unfold plen in Hm; cbn [length] in Hm; lia).
      cbn [negb andb size_props]. rewrite app_nil_r. f_equal. f_equal. lia.
  - intros h l k w v wps ps Hk Hw IHw Hps IHp f rest racc n sz.
    destruct (wire_head _ _ Hw) as (m & r & Hwm & Hm9).
    pose proof (wire_len _ _ Hw) as Hlen.
    split.
    + intros Hf. destruct f as [|f]; [lia|]. rewrite dec_props_S. cbn [negb andb].
      cbn [app]. rewrite <- !app_assoc. rewrite um_utf8_app by exact Hk.
      cbn [length] in Hf. rewrite !app_length in Hf.
      assert (His : is_eof k (w ++ wps ++ eof_bytes ++ rest) = false).
      { rewrite Hwm. cbn [app is_eof]. destruct k; [exact Hm9|reflexivity]. }
      rewrite His. cbv iota. rewrite IHw by lia.
      rewrite takeN_app by (symmetry; exact Hlen).
      destruct (IHp f rest ((k, v) :: racc) (N.succ n) (sz + (utf8_size k + size v))) as [IHa _].
      rewrite IHa by lia. cbn [rev size_props]. rewrite <- app_assoc. cbn [app].
      f_equal. f_equal. lia.
    + intros maxn Hmax Hf. destruct f as [|f]; [lia|]. rewrite dec_props_S.
      rewrite plen_cons in Hmax.
      replace (maxn <=? n) with false by lia. cbn [negb andb].
      cbn [app]. rewrite <- !app_assoc. rewrite um_utf8_app by exact Hk.
      cbn [length] in Hf. rewrite !app_length in Hf.
      rewrite IHw by lia.
      rewrite takeN_app by (symmetry; exact Hlen).
      destruct (IHp f rest ((k, v) :: racc) (N.succ n) (sz + (utf8_size k + size v))) as [_ IHb].
      rewrite (IHb maxn) by lia. cbn [rev size_props]. rewrite <- app_assoc. cbn [app].
      f_equal. f_equal. lia.
Qed.

Theorem wire_dec w v f rest : wire w v -> (length w < f)%nat -> dec f (w ++ rest) = Ok (v, size v).
Proof. intros Hw. exact (proj1 wire_dec_both w v Hw f rest). Qed.

(* ------------------------------------------------------------------ soundness *)
Lemma ok_pair_inj {A B : Type} (a a' : A) (b b' : B) : @Ok (A * B) (a, b) = Ok (a', b') -> a' = a /\ b' = b.
Proof. intros H. inversion H. auto. Qed.
Lemma um_number_ok p v n : um_number p = Ok (v, n) ->
  exists w rest, p = w ++ rest /\ wire w v /\ n = size v.
Proof.
  unfold um_number.
  destruct p as [|m [|a [|b [|c [|d [|e [|f [|g [|h rest]]]]]]]]]; try discriminate.
  destruct (m =? mNumber) eqn:E; cbn [negb]; [|discriminate].
  apply N.eqb_eq in E. subst m. intros H. inversion H; subst.
  exists [mNumber; a; b; c; d; e; f; g; h], rest. repeat split. constructor.
Qed.

Lemma um_bool_ok p v n : um_bool p = Ok (v, n) ->
  exists w rest, p = w ++ rest /\ wire w v /\ n = size v.
Proof.
  unfold um_bool. destruct p as [|m [|b rest]]; try discriminate.
  destruct (m =? mBoolean) eqn:E; cbn [negb]; [|discriminate].
  apply N.eqb_eq in E. subst m. intros H. inversion H; subst.
  exists [mBoolean; b], rest. repeat split. constructor.
Qed.

Lemma um_string_ok p v n : um_string p = Ok (v, n) ->
  exists w rest, p = w ++ rest /\ wire w v /\ n = size v.
Proof.
  unfold um_string. destruct p as [|m r]; try discriminate.
  destruct (m =? mString) eqn:E; cbn [negb]; [|discriminate].
  apply N.eqb_eq in E. subst m.
  destruct (um_utf8 r) as [[s r']|e|s'] eqn:Eu; cbn [bind]; try discriminate.
  intros H. inversion H; subst. apply um_utf8_ok in Eu. destruct Eu as (h & l & -> & Hs).
  exists (mString :: h :: l :: s), r'. repeat split. constructor. exact Hs.
Qed.

Lemma um_null_ok p v n : um_null p = Ok (v, n) ->
  exists w rest, p = w ++ rest /\ wire w v /\ n = size v.
Proof.
  unfold um_null, um_single. destruct p as [|m r]; try discriminate.
  destruct (m =? mNull) eqn:E; cbn [negb]; [|discriminate].
  apply N.eqb_eq in E. subst m. intros H. inversion H; subst.
  exists [mNull], r. repeat split. constructor.
Qed.

Lemma um_undef_ok p v n : um_undef p = Ok (v, n) ->
  exists w rest, p = w ++ rest /\ wire w v /\ n = size v.
Proof.
  unfold um_undef, um_single. destruct p as [|m r]; try discriminate.
  destruct (m =? mUndefined) eqn:E; cbn [negb]; [|discriminate].
  apply N.eqb_eq in E. subst m. intros H. inversion H; subst.
  exists [mUndefined], r. repeat split. constructor.
Qed.

Definition props_sound (eof : bool) (maxn : N) (p : bytes) (racc : props) (n sz : N)
           (ps' : props) (sz' : N) : Prop :=
  exists ps wps rest,
    ps' = rev racc ++ ps /\ sz' = sz + size_props ps /\ wire_props wps ps /\
    (if eof then p = wps ++ eof_bytes ++ rest
     else p = wps ++ rest /\ (n <= maxn -> n + plen ps = maxn)).

Lemma is_eof_true k p1 : is_eof k p1 = true -> k = [] /\ exists r, p1 = mObjectEnd :: r.
Proof.
  unfold is_eof. destruct k; [|discriminate]. destruct p1 as [|m r]; [discriminate|].
  intros H. apply N.eqb_eq in H. subst. eauto.
Qed.

Lemma dec_wire_both : forall f,
  (forall p v n, dec f p = Ok (v, n) -> exists w rest, p = w ++ rest /\ wire w v /\ n = size v) /\
  (forall eof maxn p racc n sz ps' sz',
     dec_props f eof maxn p racc n sz = Ok (ps', sz') -> props_sound eof maxn p racc n sz ps' sz').
Proof.
  induction f as [|f [IHd IHp]]; [split; intros; discriminate|]. split.
  - intros p v n. destruct p as [|m r]; [discriminate|]. rewrite dec_S.
    destruct (m =? mNumber); [apply um_number_ok|].
    destruct (m =? mBoolean); [apply um_bool_ok|].
    destruct (m =? mString); [apply um_string_ok|].
    destruct (m =? mObject) eqn:Eo.
    { apply N.eqb_eq in Eo. subst m.
      destruct (dec_props f true 0 r [] 0 0) as [[ps sz]|e|s] eqn:E; cbv beta iota delta [bind]; try discriminate.
      intros H. apply ok_pair_inj in H. destruct H as [-> ->]. apply IHp in E.
      destruct E as (ps0 & wps & rest & -> & -> & Hw & ->). cbn [rev app].
      exists (mObject :: wps ++ eof_bytes), rest. split; [cbn [app]; now rewrite <- app_assoc|].
      split; [constructor; exact Hw|]. rewrite size_obj. lia. }
    destruct (m =? mNull); [apply um_null_ok|].
    destruct (m =? mUndefined); [apply um_undef_ok|].
    destruct (m =? mReference); [discriminate|].
    destruct (m =? mEcmaArray) eqn:Ee.
    { apply N.eqb_eq in Ee. subst m.
      destruct r as [|a [|b [|c [|d r']]]]; try discriminate.
      destruct (dec_props f true 0 r' [] 0 0) as [[ps sz]|e|s] eqn:E; cbv beta iota delta [bind]; try discriminate.
      intros H. apply ok_pair_inj in H. destruct H as [-> ->]. apply IHp in E.
      destruct E as (ps0 & wps & rest & -> & -> & Hw & ->). cbn [rev app].
      exists (mEcmaArray :: a :: b :: c :: d :: wps ++ eof_bytes), rest.
      split; [cbn [app]; now rewrite <- app_assoc|].
      split; [constructor; exact Hw|]. rewrite size_ecma. lia. }
    destruct (m =? mObjectEnd); [destruct r as [|? [|? ?]]; discriminate|].
    destruct (m =? mStrictArray) eqn:Es.
    { apply N.eqb_eq in Es. subst m.
      destruct r as [|a [|b [|c [|d r']]]]; try discriminate. cbv zeta.
      destruct (ube4 a b c d =? 0) eqn:Ec.
      - intros H. apply ok_pair_inj in H. destruct H as [-> ->].
        exists [mStrictArray; a; b; c; d], r'. split; [reflexivity|]. split; [|reflexivity].
        apply (W_strict a b c d [] []); [constructor|]. unfold plen. cbn [length]. lia.
      - destruct (dec_props f false (ube4 a b c d) r' [] 0 0) as [[ps sz]|e|s] eqn:E; cbv beta iota delta [bind]; try discriminate.
        intros H. apply ok_pair_inj in H. destruct H as [-> ->]. apply IHp in E.
        destruct E as (ps0 & wps & rest & -> & -> & Hw & -> & Hn). cbn [rev app].
        exists (mStrictArray :: a :: b :: c :: d :: wps), rest. split; [reflexivity|].
        split; [constructor; [exact Hw|]; specialize (Hn ltac:(lia)); lia|].
        rewrite size_strict. lia. }
    destruct (is_unsup m); discriminate.
  - intros eof maxn p racc n sz ps' sz'. rewrite dec_props_S.
    destruct (negb eof && (maxn <=? n)) eqn:Estop.
    { intros H. inversion H; subst. apply andb_true_iff in Estop. destruct Estop as [He Hle].
      destruct eof; [discriminate|].
      exists [], [], p. rewrite app_nil_r. cbn [size_props app]. repeat split; [lia|constructor|].
      intros Hn. unfold plen. cbn [length]. lia. }
    destruct (um_utf8 p) as [[k p1]|e|s] eqn:Eu; try discriminate.
    apply um_utf8_ok in Eu. destruct Eu as (h & l & -> & Hk).
    destruct (eof && is_eof k p1) eqn:Eeof.
    { intros H. inversion H; subst. apply andb_true_iff in Eeof. destruct Eeof as [-> His].
      apply is_eof_true in His. destruct His as (-> & r & ->).
      destruct (ube2 h l) eqn:Ehl; [|rewrite lenN_nil in Hk; lia].
      assert (h = 0 /\ l = 0) as [-> ->] by (unfold ube2 in Ehl; lia).
      exists [], [], r. rewrite app_nil_r. cbn [size_props app]. repeat split; [lia|constructor]. }
    destruct (dec f p1) as [[v vs]|e|s] eqn:Ed; try discriminate.
    apply IHd in Ed. destruct Ed as (w & rest & -> & Hw & ->).
    rewrite takeN_app by (symmetry; apply wire_len; exact Hw).
    intros H. apply IHp in H.
    destruct H as (ps & wps & rest' & -> & -> & Hwps & Htail).
    exists ((k, v) :: ps), (h :: l :: k ++ w ++ wps).
    destruct eof.
    + subst rest. exists rest'. cbn [rev size_props]. rewrite <- !app_assoc. cbn [app].
      repeat split; [lia|constructor; assumption|]. now rewrite <- !app_assoc.
    + destruct Htail as [-> Hn]. exists rest'. cbn [rev size_props]. rewrite <- !app_assoc. cbn [app].
      repeat split; [lia|constructor; assumption|now rewrite <- !app_assoc|].
      intros Hle. rewrite plen_cons. cbn [negb andb] in Estop.
      specialize (Hn ltac:(lia)). lia.
Qed.

Theorem dec_wire f p v n : dec f p = Ok (v, n) ->
  exists w rest, p = w ++ rest /\ wire w v /\ n = size v.
Proof. exact (proj1 (dec_wire_both f) p v n). Qed.

(* ------------------------------------------------------------------ shape of one decoder step *)
Definition dec_step (P : bool -> N -> bytes -> res (props * N)) (m : N) (r : bytes) : res (amf * N) :=
  if m =? mNumber then um_number (m :: r)
  else if m =? mBoolean then um_bool (m :: r)
  else if m =? mString then um_string (m :: r)
  else if m =? mObject then
    (let* (ps, sz) := P true 0 r in Ok (AObj ps, 1 + 3 + sz))
  else if m =? mNull then um_null (m :: r)
  else if m =? mUndefined then um_undef (m :: r)
  else if m =? mReference then Err E_INVALID
  else if m =? mEcmaArray then
    match r with
    | a :: b :: c :: d :: r' =>
        let* (ps, sz) := P true 0 r' in
        Ok (AEcma (ube4 a b c d) ps, 1 + 4 + 3 + sz)
    | _ => Err E_SHORT
    end
  else if m =? mObjectEnd then
    match r with _ :: _ :: _ => Err E_ILLEGAL | _ => Err E_SHORT end
  else if m =? mStrictArray then
    match r with
    | a :: b :: c :: d :: r' =>
        let count := ube4 a b c d in
        if count =? 0 then Ok (AStrict [], 1 + 4)
        else let* (ps, sz) := P false count r' in
             Ok (AStrict ps, 1 + 4 + sz)
    | _ => Err E_SHORT
    end
  else if is_unsup m then Err E_UNSUP
  else Err E_INVALID.

Lemma dec_S_step f m r :
  dec (S f) (m :: r) = dec_step (fun eof maxn r' => dec_props f eof maxn r' [] 0 0) m r.
Proof. reflexivity. Qed.

(* results that do not depend on the fuel: neither a panic nor out-of-fuel *)
Definition plain {A} (X : res A) : Prop := (forall s, X <> Panic s) /\ X <> Err E_FUEL.

Lemma um_number_plain p : plain (um_number p).
Proof.
  unfold um_number, plain.
  destruct p as [|m [|a [|b [|c [|d [|e [|f [|g [|h rest]]]]]]]]]; try (split; [intros s|]; discriminate).
  destruct (negb (m =? mNumber)); split; try intros s; discriminate.
Qed.
Lemma um_bool_plain p : plain (um_bool p).
Proof.
  unfold um_bool, plain. destruct p as [|m [|b rest]]; try (split; [intros s|]; discriminate).
  destruct (negb (m =? mBoolean)); split; try intros s; discriminate.
Qed.
Lemma um_string_plain p : plain (um_string p).
Proof.
  unfold um_string, plain. destruct p as [|m r]; try (split; [intros s|]; discriminate).
  destruct (negb (m =? mString)); [split; [intros s|]; discriminate|].
  destruct (um_utf8 r) as [[s0 r']|e|s0] eqn:E; cbv beta iota delta [bind].
  - split; [intros s|]; discriminate.
  - apply um_utf8_err in E. subst e. split; [intros s|]; discriminate.
  - exfalso. exact (um_utf8_not_panic _ _ E).
Qed.
Lemma um_single_plain t v p : plain (um_single t v p).
Proof.
  unfold um_single, plain. destruct p as [|m r]; try (split; [intros s|]; discriminate).
  destruct (negb (m =? t)); split; try intros s; discriminate.
Qed.

Lemma dec_step_shape m r :
  (exists X, (forall P, dec_step P m r = X) /\ plain X) \/
  (exists eof maxn r' g,
     (length r' <= length r)%nat /\
     (forall P, dec_step P m r = bind (P eof maxn r') g) /\
     (forall x, exists y, g x = Ok y)).
Proof.
  unfold dec_step.
  destruct (m =? mNumber); [left; eexists; split; [reflexivity|apply um_number_plain]|].
  destruct (m =? mBoolean); [left; eexists; split; [reflexivity|apply um_bool_plain]|].
  destruct (m =? mString); [left; eexists; split; [reflexivity|apply um_string_plain]|].
  destruct (m =? mObject).
  { right. exists true, 0, r, (fun '(ps, sz) => Ok (AObj ps, 1 + 3 + sz)).
    split; [lia|]. split; [reflexivity|]. intros [ps sz]. eauto. }
  destruct (m =? mNull); [left; eexists; split; [reflexivity|apply um_single_plain]|].
  destruct (m =? mUndefined); [left; eexists; split; [reflexivity|apply um_single_plain]|].
  destruct (m =? mReference); [left; eexists; split; [reflexivity|split; [intros s|]; discriminate]|].
  destruct (m =? mEcmaArray).
  { destruct r as [|a [|b [|c [|d r']]]];
      try (left; eexists; split; [reflexivity|split; [intros s|]; discriminate]).
    right. exists true, 0, r', (fun '(ps, sz) => Ok (AEcma (ube4 a b c d) ps, 1 + 4 + 3 + sz)).
    split; [cbn [length]; lia|]. split; [reflexivity|]. intros [ps sz]. eauto. }
  destruct (m =? mObjectEnd).
  { left. destruct r as [|? [|? ?]]; eexists; (split; [reflexivity|split; [intros s|]; discriminate]). }
  destruct (m =? mStrictArray).
  { destruct r as [|a [|b [|c [|d r']]]];
      try (left; eexists; split; [reflexivity|split; [intros s|]; discriminate]).
    cbv zeta. destruct (ube4 a b c d =? 0).
    - left. eexists; split; [reflexivity|split; [intros s|]; discriminate].
    - right. exists false, (ube4 a b c d), r', (fun '(ps, sz) => Ok (AStrict ps, 1 + 4 + sz)).
      split; [cbn [length]; lia|]. split; [reflexivity|]. intros [ps sz]. eauto. }
  destruct (is_unsup m); left; eexists; (split; [reflexivity|split; [intros s|]; discriminate]).
Qed.

Lemma bind_panic {A B} (r : res A) (g : A -> res B) s :
  (forall x, exists y, g x = Ok y) -> bind r g = Panic s -> r = Panic s.
Proof.
  intros Hg. destruct r as [x|e|s']; cbv beta iota delta [bind]; intros H.
  - destruct (Hg x) as [y Hy]. rewrite Hy in H. discriminate.
  - discriminate.
  - inversion H. reflexivity.
Qed.
Lemma bind_err {A B} (r : res A) (g : A -> res B) e :
  (forall x, exists y, g x = Ok y) -> bind r g = Err e -> r = Err e.
Proof.
  intros Hg. destruct r as [x|e'|s']; cbv beta iota delta [bind]; intros H.
  - destruct (Hg x) as [y Hy]. rewrite Hy in H. discriminate.
  - inversion H. reflexivity.
  - discriminate.
Qed.

(* ------------------------------------------------------------------ totality: never a panic *)
Lemma dec_total_both : forall f,
  (forall p s, dec f p <> Panic s) /\
  (forall eof maxn p racc n sz s, dec_props f eof maxn p racc n sz <> Panic s).
Proof.
  induction f as [|f [IHd IHp]]; [split; intros; discriminate|]. split.
  - intros p s. destruct p as [|m r]; [discriminate|]. rewrite dec_S_step.
    destruct (dec_step_shape m r) as [(X & HX & Hpl & _)|(eof & maxn & r' & g & _ & HX & Hg)].
    + rewrite HX. apply Hpl.
    + rewrite HX. intros H. apply bind_panic in H; [|exact Hg]. exact (IHp _ _ _ _ _ _ _ H).
  - intros eof maxn p racc n sz s. rewrite dec_props_S.
    destruct (negb eof && (maxn <=? n)); [discriminate|].
    destruct (um_utf8 p) as [[k p1]|e|s'] eqn:Eu; [|discriminate|exfalso; exact (um_utf8_not_panic _ _ Eu)].
    destruct (eof && is_eof k p1); [discriminate|].
    destruct (dec f p1) as [[v vs]|e|s'] eqn:Ed; [|discriminate|exfalso; exact (IHd _ _ Ed)].
    apply dec_wire in Ed. destruct Ed as (w & rest & -> & Hw & ->).
    rewrite takeN_app by (symmetry; apply wire_len; exact Hw). apply IHp.
Qed.

Theorem amf0_dec_total' fuel p s : dec fuel p <> Panic s.
Proof. exact (proj1 (dec_total_both fuel) p s). Qed.

Theorem amf0_dec_total fuel p : wf_bytes p -> forall s, dec fuel p <> Panic s.
Proof. intros _ s. apply amf0_dec_total'. Qed.

Lemma dec_props_total f eof maxn p racc n sz s : dec_props f eof maxn p racc n sz <> Panic s.
Proof. exact (proj2 (dec_total_both f) eof maxn p racc n sz s). Qed.

(* ------------------------------------------------------------------ fuel adequacy *)
Lemma dec_fuel_both : forall f,
  (forall p, (length p < f)%nat -> dec f p <> Err E_FUEL) /\
  (forall eof maxn p racc n sz, (length p < f)%nat -> dec_props f eof maxn p racc n sz <> Err E_FUEL).
Proof.
  induction f as [|f [IHd IHp]]; [split; intros; lia|]. split.
  - intros p Hf. destruct p as [|m r]; [discriminate|]. rewrite dec_S_step. cbn [length] in Hf.
    destruct (dec_step_shape m r) as [(X & HX & _ & Hnf)|(eof & maxn & r' & g & Hlen & HX & Hg)].
    + rewrite HX. exact Hnf.
    + rewrite HX. intros H. apply bind_err in H; [|exact Hg]. revert H. apply IHp. lia.
  - intros eof maxn p racc n sz Hf. rewrite dec_props_S.
    destruct (negb eof && (maxn <=? n)); [discriminate|].
    destruct (um_utf8 p) as [[k p1]|e|s'] eqn:Eu.
    + apply um_utf8_ok in Eu. destruct Eu as (h & l & -> & Hk).
      cbn [length] in Hf. rewrite app_length in Hf.
      destruct (eof && is_eof k p1); [discriminate|].
      destruct (dec f p1) as [[v vs]|e|s'] eqn:Ed.
      * apply dec_wire in Ed. destruct Ed as (w & rest & -> & Hw & ->).
        rewrite takeN_app by (symmetry; apply wire_len; exact Hw).
        apply IHp. rewrite app_length in Hf. lia.
      * intros H. inversion H; subst. revert Ed. apply IHd. lia.
      * discriminate.
    + apply um_utf8_err in Eu. subst e. discriminate.
    + discriminate.
Qed.

Theorem amf0_dec_fuel fuel p : (length p < fuel)%nat -> dec fuel p <> Err E_FUEL.
Proof. exact (proj1 (dec_fuel_both fuel) p). Qed.

Lemma dec_mono_both : forall f,
  (forall p X, dec f p = X -> X <> Err E_FUEL -> dec (S f) p = X) /\
  (forall eof maxn p racc n sz X, dec_props f eof maxn p racc n sz = X -> X <> Err E_FUEL ->
     dec_props (S f) eof maxn p racc n sz = X).
Proof.
  induction f as [|f [IHd IHp]]; [split; intros; subst; exfalso; auto|]. split.
  - intros p X HX Hnf. destruct p as [|m r]; [exact HX|].
    rewrite dec_S_step in *.
    destruct (dec_step_shape m r) as [(Y & HY & _)|(eof & maxn & r' & g & _ & HY & Hg)].
    + rewrite HY in *. exact HX.
    + rewrite HY in *.
      destruct (dec_props f eof maxn r' [] 0 0) as [x|e|s] eqn:E.
      * rewrite (IHp _ _ _ _ _ _ _ E) by discriminate. exact HX.
      * cbv beta iota delta [bind] in HX. subst X.
        rewrite (IHp _ _ _ _ _ _ _ E) by (intros H; apply Hnf; inversion H; reflexivity). reflexivity.
      * exfalso. exact (dec_props_total _ _ _ _ _ _ _ _ E).
  - intros eof maxn p racc n sz X HX Hnf. rewrite dec_props_S in HX. rewrite dec_props_S.
    destruct (negb eof && (maxn <=? n)); [exact HX|].
    destruct (um_utf8 p) as [[k p1]|e|s'] eqn:Eu; [|exact HX|exact HX].
    destruct (eof && is_eof k p1); [exact HX|].
    destruct (dec f p1) as [[v vs]|e|s'] eqn:Ed.
    + rewrite (IHd _ _ Ed) by discriminate.
      destruct (takeN vs p1) as [[? p2]|]; [|exact HX].
      apply IHp; assumption.
    + rewrite (IHd _ _ Ed) by (intros H; apply Hnf; rewrite <- HX; inversion H; reflexivity). exact HX.
    + exfalso. exact (amf0_dec_total' _ _ _ Ed).
Qed.

Theorem amf0_dec_fuel_mono f f' p X :
  dec f p = X -> X <> Err E_FUEL -> (f <= f')%nat -> dec f' p = X.
Proof.
  intros HX Hnf Hle. induction Hle as [|f' _ IH]; [exact HX|].
  exact (proj1 (dec_mono_both f') p X IH Hnf).
Qed.

Lemma dec_props_fuel_mono f f' eof maxn p racc n sz X :
  dec_props f eof maxn p racc n sz = X -> X <> Err E_FUEL -> (f <= f')%nat ->
  dec_props f' eof maxn p racc n sz = X.
Proof.
  intros HX Hnf Hle. induction Hle as [|f' _ IH]; [exact HX|].
  exact (proj2 (dec_mono_both f') eof maxn p racc n sz X IH Hnf).
Qed.

(* the result does not depend on the fuel once it exceeds the input length *)
Corollary amf0_decode_fuel fuel p : (length p < fuel)%nat -> dec fuel p = decode p.
Proof.
  intros Hf. unfold decode, dec_fuel.
  apply (amf0_dec_fuel_mono (S (length p)) fuel p); [reflexivity|apply amf0_dec_fuel; lia|lia].
Qed.

(* ------------------------------------------------------------------ round trip, consumed *)
(* C05 clause 2 (core): every representable tree -- any nesting, any key order, repeated and
   empty keys, all 2^64 number patterns -- decodes from its own encoding, whatever follows it,
   to the same tree with the keys in the original order; the reported size is Size(). *)
Theorem amf0_dec_enc v rest fuel :
  wf_amf v -> (length (enc v) < fuel)%nat -> dec fuel (enc v ++ rest) = Ok (v, size v).
Proof. intros Hwf Hf. apply wire_dec; [apply enc_wire; exact Hwf|exact Hf]. Qed.

Theorem amf0_dec_consumed fuel p v n : dec fuel p = Ok (v, n) ->
  n = size v /\ exists w rest, p = w ++ rest /\ lenN w = n.
Proof.
  intros H. apply dec_wire in H. destruct H as (w & rest & -> & Hw & ->).
  split; [reflexivity|]. exists w, rest. split; [reflexivity|apply wire_len; exact Hw].
Qed.

Theorem amf0_dec_takeN fuel p v n : dec fuel p = Ok (v, n) ->
  exists w rest, takeN n p = Some (w, rest) /\ p = w ++ rest.
Proof.
  intros H. apply amf0_dec_consumed in H. destruct H as (-> & w & rest & -> & Hl).
  exists w, rest. split; [apply takeN_app; symmetry; exact Hl|reflexivity].
Qed.

Corollary amf0_dec_size_le fuel p v n : dec fuel p = Ok (v, n) -> n <= lenN p.
Proof.
  intros H. apply amf0_dec_consumed in H. destruct H as (_ & w & rest & -> & <-).
  rewrite lenN_app. lia.
Qed.

(* the decoder looks at exactly Size() bytes: any other continuation gives the same result, and
   no shorter prefix decodes *)
Theorem amf0_dec_exact fuel p v n : dec fuel p = Ok (v, n) ->
  exists w rest, p = w ++ rest /\ lenN w = n /\ n = size v /\
    (forall rest' fuel', (length w < fuel')%nat -> dec fuel' (w ++ rest') = Ok (v, n)) /\
    (forall k fuel' x, (k < length w)%nat -> dec fuel' (firstn k p) <> Ok x).
Proof.
  intros H. apply dec_wire in H. destruct H as (w & rest & -> & Hw & ->).
  exists w, rest. split; [reflexivity|]. split; [apply wire_len; exact Hw|]. split; [reflexivity|].
  split; [intros rest' fuel' Hf; apply wire_dec; assumption|].
  intros k fuel' [v' n'] Hk Hd.
  apply dec_wire in Hd. destruct Hd as (w' & rest'' & Hsplit & Hw' & ->).
  (* w ++ rest = w' ++ rest'' ++ skipn k (w ++ rest): both decode the whole input *)
  pose proof (firstn_skipn k (w ++ rest)) as Hfs. rewrite Hsplit, <- app_assoc in Hfs.
  set (F := S (length (w ++ rest))).
  assert (H1 : dec F (w ++ rest) = Ok (v, size v)).
  { apply wire_dec; [exact Hw|]. unfold F. rewrite app_length. lia. }
  assert (H2 : dec F (w ++ rest) = Ok (v', size v')).
  { rewrite <- Hfs. apply wire_dec; [exact Hw'|]. unfold F. rewrite <- Hfs, app_length. lia. }
  rewrite H1 in H2. apply ok_pair_inj in H2. destruct H2 as [-> Hsz].
  pose proof (wire_len _ _ Hw) as L1. pose proof (wire_len _ _ Hw') as L2.
  assert (Hlen : (length (firstn k (w ++ rest)) <= k)%nat) by apply firstn_le_length.
  rewrite Hsplit, app_length in Hlen. rewrite !lenN_length in *. lia.
Qed.

(* ------------------------------------------------------------------ decoded values are representable *)
Lemma wf_bytes_app (a b : bytes) : wf_bytes (a ++ b) <-> wf_bytes a /\ wf_bytes b.
Proof. unfold wf_bytes. apply Forall_app. Qed.

Lemma wf_bytes_cons x (b : bytes) : wf_bytes (x :: b) <-> x < 256 /\ wf_bytes b.
Proof. unfold wf_bytes. split; [intros H; inversion H; auto|intros [H1 H2]; constructor; assumption]. Qed.

Lemma wf_strb_intro s : lenN s <= 65535 -> wf_bytes s -> wf_strb s = true.
Proof.
  intros H1 H2. unfold wf_strb. apply andb_true_iff. split; [lia|].
  unfold wf_bytesb. apply forallb_forall. intros x Hx.
  unfold wf_bytes in H2. rewrite Forall_forall in H2. apply H2 in Hx. unfold wf_byte, wf_byteb in *. lia.
Qed.

Lemma wire_wf_both :
  (forall w v, wire w v -> wf_bytes w -> wf_amfb v = true) /\
  (forall wps ps, wire_props wps ps -> wf_bytes wps -> wf_propsb ps = true).
Proof.
  apply wire_mutind.
  - intros a b c d e f g h H. repeat (apply wf_bytes_cons in H; destruct H as [? H]).
    cbn [wf_amfb]. pose proof (ube8_bound a b c d e f g h). lia.
  - reflexivity.
  - intros h l s Hs H. repeat (apply wf_bytes_cons in H; destruct H as [? H]).
    cbn [wf_amfb]. apply wf_strb_intro; [|exact H]. pose proof (ube2_bound h l). lia.
  - intros wps ps _ IH H. apply wf_bytes_cons in H. destruct H as [_ H].
    apply wf_bytes_app in H. destruct H as [H _]. rewrite wf_obj. auto.
  - reflexivity.
  - reflexivity.
  - intros a b c d wps ps _ IH H. repeat (apply wf_bytes_cons in H; destruct H as [? H]).
    apply wf_bytes_app in H. destruct H as [H _]. rewrite wf_ecma. apply andb_true_iff.
    split; [pose proof (ube4_bound a b c d); lia|auto].
  - intros a b c d wps ps _ IH Hc H. repeat (apply wf_bytes_cons in H; destruct H as [? H]).
    rewrite wf_strict. apply andb_true_iff.
    split; [pose proof (ube4_bound a b c d); lia|auto].
  - reflexivity.
  - intros h l k w v wps ps Hk _ IHw _ IHp H. repeat (apply wf_bytes_cons in H; destruct H as [? H]).
    apply wf_bytes_app in H. destruct H as [Hkb H]. apply wf_bytes_app in H. destruct H as [Hwb Hpb].
    cbn [wf_propsb]. rewrite (IHw Hwb), (IHp Hpb), wf_strb_intro; [reflexivity| |exact Hkb].
    pose proof (ube2_bound h l). lia.
Qed.

Theorem amf0_dec_wf fuel p v n : wf_bytes p -> dec fuel p = Ok (v, n) -> wf_amf v.
Proof.
  intros Hp H. apply dec_wire in H. destruct H as (w & rest & -> & Hw & _).
  apply wf_bytes_app in Hp. destruct Hp as [Hp _]. exact (proj1 wire_wf_both w v Hw Hp).
Qed.

(* the encoder produces bytes *)
Lemma marker_lt m : In m [mNumber; mBoolean; mString; mObject; mNull; mUndefined; mEcmaArray; mStrictArray] -> m < 256.
Proof. cbn [In]. intros H. repeat (destruct H as [<-|H]; [reflexivity|]). destruct H. Qed.

Lemma utf8_enc_wfb s : wf_strb s = true -> wf_bytes (utf8_enc s).
Proof.
  intros H. apply wf_strb_spec in H. destruct H as [H1 H2]. rewrite utf8_enc_wf by exact H1.
  apply wf_bytes_cons. split; [lia|]. apply wf_bytes_cons. split; [lia|exact H2].
Qed.

Lemma enc_props_wfb ps :
  Forall (fun kv => wf_amf (snd kv) -> wf_bytes (enc (snd kv))) ps ->
  wf_propsb ps = true -> wf_bytes (enc_props ps).
Proof.
  induction 1 as [|[k x] t Hx _ IH]; intros Hwf; [constructor|].
  cbn [wf_propsb] in Hwf. apply andb_true_iff in Hwf. destruct Hwf as [Hwf Ht].
  apply andb_true_iff in Hwf. destruct Hwf as [Hk Hwx].
  cbn [enc_props snd] in *. apply wf_bytes_app. split; [apply utf8_enc_wfb; exact Hk|].
  apply wf_bytes_app. split; [exact (Hx Hwx)|exact (IH Ht)].
Qed.

Lemma be4_wfb n : wf_bytes (be4 n).
Proof. unfold be4. repeat (apply wf_bytes_cons; split; [lia|]). constructor. Qed.

Theorem amf0_enc_wf_bytes v : wf_amf v -> wf_bytes (enc v).
Proof.
  unfold wf_amf.
  induction v as [b|b|s|ps IH| | |c ps IH|ps IH] using amf_ind'; intros Hwf.
  - cbn [enc]. rewrite be8_eq. repeat (apply wf_bytes_cons; split; [try reflexivity; lia|]). constructor.
  - cbn [enc]. destruct b; repeat (apply wf_bytes_cons; split; [reflexivity|]); constructor.
  - cbn [enc wf_amfb] in *. apply wf_bytes_cons. split; [reflexivity|apply utf8_enc_wfb; exact Hwf].
  - rewrite wf_obj in Hwf. rewrite enc_obj. apply wf_bytes_cons. split; [reflexivity|].
    apply wf_bytes_app. split; [apply enc_props_wfb; assumption|].
    unfold eof_bytes. repeat (apply wf_bytes_cons; split; [reflexivity|]). constructor.
  - cbn [enc]. apply wf_bytes_cons. split; [reflexivity|constructor].
  - cbn [enc]. apply wf_bytes_cons. split; [reflexivity|constructor].
  - rewrite wf_ecma in Hwf. apply andb_true_iff in Hwf. destruct Hwf as [_ Hps].
    rewrite enc_ecma. apply wf_bytes_cons. split; [reflexivity|].
    apply wf_bytes_app. split; [apply be4_wfb|].
    apply wf_bytes_app. split; [apply enc_props_wfb; assumption|].
    unfold eof_bytes. repeat (apply wf_bytes_cons; split; [reflexivity|]). constructor.
  - rewrite wf_strict in Hwf. apply andb_true_iff in Hwf. destruct Hwf as [_ Hps].
    rewrite enc_strict. apply wf_bytes_cons. split; [reflexivity|].
    apply wf_bytes_app. split; [apply be4_wfb|apply enc_props_wfb; assumption].
Qed.

(* C05 clause 3: whatever decodes re-marshals to bytes that decode to the same value, and
   marshal . decode . marshal = marshal *)
Theorem amf0_reenc fuel p v n : wf_bytes p -> dec fuel p = Ok (v, n) ->
  decode (enc v) = Ok (v, n) /\
  (forall v' n', decode (enc v) = Ok (v', n') -> enc v' = enc v) /\
  lenN (enc v) = n.
Proof.
  intros Hp H. pose proof (amf0_dec_wf _ _ _ _ Hp H) as Hwf.
  apply amf0_dec_consumed in H. destruct H as [-> _].
  assert (Hd : decode (enc v) = Ok (v, size v)).
  { unfold decode, dec_fuel. rewrite <- (app_nil_r (enc v)) at 2. apply amf0_dec_enc; [exact Hwf|lia]. }
  split; [exact Hd|]. split; [|apply amf0_size_enc].
  intros v' n' H'. rewrite Hd in H'. apply ok_pair_inj in H'. destruct H' as [-> _]. reflexivity.
Qed.

(* ------------------------------------------------------------------ the typed methods (used by C03) *)
Definition typed_like (T : nat -> bytes -> res (amf * N)) : Prop :=
  forall p, (forall f, T f p = dec (S f) p) \/ (forall f, T f p = Err E_SHORT) \/ (forall f, T f p = Err E_ILLEGAL).

Lemma um_object_typed : typed_like um_object.
Proof.
  intros p. destruct p as [|m r]; [right; left; reflexivity|].
  destruct (N.eqb_spec m mObject) as [->|Hne].
  - left. intros f. symmetry. apply dec_obj.
  - right; right. intros f. unfold um_object. apply N.eqb_neq in Hne. rewrite Hne. reflexivity.
Qed.
Lemma um_ecma_typed : typed_like um_ecma.
Proof.
  intros p. destruct p as [|m [|a [|b [|c [|d r]]]]]; try (right; left; reflexivity).
  destruct (N.eqb_spec m mEcmaArray) as [->|Hne].
  - left. intros f. symmetry. apply dec_ecma.
  - right; right. intros f. unfold um_ecma. apply N.eqb_neq in Hne. rewrite Hne. reflexivity.
Qed.
Lemma um_strict_typed : typed_like um_strict.
Proof.
  intros p. destruct p as [|m [|a [|b [|c [|d r]]]]]; try (right; left; reflexivity).
  destruct (N.eqb_spec m mStrictArray) as [->|Hne].
  - left. intros f. symmetry. apply dec_strict.
  - right; right. intros f. unfold um_strict. apply N.eqb_neq in Hne. rewrite Hne. reflexivity.
Qed.

Section typed.
  Variable T : nat -> bytes -> res (amf * N).
  Hypothesis HT : typed_like T.

  Lemma typed_total f p s : T f p <> Panic s.
  Proof. destruct (HT p) as [E|[E|E]]; rewrite E; [apply amf0_dec_total'|discriminate|discriminate]. Qed.

  Lemma typed_ok f p v n : T f p = Ok (v, n) -> dec (S f) p = Ok (v, n).
  Proof. destruct (HT p) as [E|[E|E]]; rewrite E; [auto|discriminate|discriminate]. Qed.

  Lemma typed_consumed f p v n : T f p = Ok (v, n) ->
    n = size v /\ exists w rest, p = w ++ rest /\ lenN w = n.
  Proof. intros H. apply typed_ok in H. exact (amf0_dec_consumed _ _ _ _ H). Qed.

  Lemma typed_takeN f p v n : T f p = Ok (v, n) ->
    exists w rest, takeN n p = Some (w, rest) /\ p = w ++ rest.
  Proof. intros H. apply typed_ok in H. exact (amf0_dec_takeN _ _ _ _ H). Qed.

  Lemma typed_wf f p v n : wf_bytes p -> T f p = Ok (v, n) -> wf_amf v.
  Proof. intros Hp H. apply typed_ok in H. exact (amf0_dec_wf _ _ _ _ Hp H). Qed.

  Lemma typed_fuel f p : (length p <= f)%nat -> T f p <> Err E_FUEL.
  Proof.
    intros Hf. destruct (HT p) as [E|[E|E]]; rewrite E; [apply amf0_dec_fuel; lia|discriminate|discriminate].
  Qed.

  Lemma typed_fuel_mono f f' p X : T f p = X -> X <> Err E_FUEL -> (f <= f')%nat -> T f' p = X.
  Proof.
    intros HX Hnf Hle. destruct (HT p) as [E|[E|E]]; rewrite E in *; [|exact HX|exact HX].
    apply (amf0_dec_fuel_mono (S f)); [exact HX|exact Hnf|lia].
  Qed.
End typed.

Definition um_object_total := typed_total _ um_object_typed.
Definition um_ecma_total := typed_total _ um_ecma_typed.
Definition um_strict_total := typed_total _ um_strict_typed.
Definition um_object_consumed := typed_consumed _ um_object_typed.
Definition um_ecma_consumed := typed_consumed _ um_ecma_typed.
Definition um_strict_consumed := typed_consumed _ um_strict_typed.
Definition um_object_takeN := typed_takeN _ um_object_typed.
Definition um_ecma_takeN := typed_takeN _ um_ecma_typed.
Definition um_strict_takeN := typed_takeN _ um_strict_typed.
Definition um_object_wf := typed_wf _ um_object_typed.
Definition um_ecma_wf := typed_wf _ um_ecma_typed.
Definition um_strict_wf := typed_wf _ um_strict_typed.
Definition um_object_fuel := typed_fuel _ um_object_typed.
Definition um_ecma_fuel := typed_fuel _ um_ecma_typed.
Definition um_strict_fuel := typed_fuel _ um_strict_typed.
Definition um_object_fuel_mono := typed_fuel_mono _ um_object_typed.
Definition um_ecma_fuel_mono := typed_fuel_mono _ um_ecma_typed.
Definition um_strict_fuel_mono := typed_fuel_mono _ um_strict_typed.

Lemma um_object_enc ps rest fuel : wf_amf (AObj ps) -> (length (enc (AObj ps)) < fuel)%nat ->
  um_object fuel (enc (AObj ps) ++ rest) = Ok (AObj ps, size (AObj ps)).
Proof.
  intros Hwf Hf. rewrite enc_obj. cbn [app]. rewrite <- dec_obj. rewrite app_comm_cons, <- enc_obj.
  apply amf0_dec_enc; [exact Hwf|lia].
Qed.
Lemma um_ecma_enc c ps rest fuel : wf_amf (AEcma c ps) -> (length (enc (AEcma c ps)) < fuel)%nat ->
  um_ecma fuel (enc (AEcma c ps) ++ rest) = Ok (AEcma c ps, size (AEcma c ps)).
Proof.
  intros Hwf Hf. rewrite enc_ecma. cbn [app]. rewrite <- dec_ecma. rewrite app_comm_cons, <- enc_ecma.
  apply amf0_dec_enc; [exact Hwf|lia].
Qed.
Lemma um_strict_enc ps rest fuel : wf_amf (AStrict ps) -> (length (enc (AStrict ps)) < fuel)%nat ->
  um_strict fuel (enc (AStrict ps) ++ rest) = Ok (AStrict ps, size (AStrict ps)).
Proof.
  intros Hwf Hf. rewrite enc_strict. cbn [app]. rewrite <- dec_strict. rewrite app_comm_cons, <- enc_strict.
  apply amf0_dec_enc; [exact Hwf|lia].
Qed.

(* scalars *)
Lemma um_number_enc b rest : b < 18446744073709551616 ->
  um_number (enc (ANum b) ++ rest) = Ok (ANum b, size (ANum b)).
Proof.
  intros Hb. change (enc (ANum b) ++ rest) with (mNumber :: be8 b ++ rest).
  rewrite <- (dec_num (length (enc (ANum b)))).
  change (mNumber :: be8 b ++ rest) with (enc (ANum b) ++ rest).
  apply amf0_dec_enc; [unfold wf_amf; cbn [wf_amfb]; lia|lia].
Qed.
Lemma um_bool_enc b rest : um_bool (enc (ABool b) ++ rest) = Ok (ABool b, size (ABool b)).
Proof. destruct b; reflexivity. Qed.
Lemma um_string_enc s rest : wf_amf (AStr s) ->
  um_string (enc (AStr s) ++ rest) = Ok (AStr s, size (AStr s)).
Proof.
  intros Hwf. change (enc (AStr s) ++ rest) with (mString :: utf8_enc s ++ rest).
  rewrite <- (dec_str (length (enc (AStr s)))).
  change (mString :: utf8_enc s ++ rest) with (enc (AStr s) ++ rest).
  apply amf0_dec_enc; [exact Hwf|lia].
Qed.
Lemma um_null_enc rest : um_null (enc ANull ++ rest) = Ok (ANull, size ANull).
Proof. reflexivity. Qed.
Lemma um_undef_enc rest : um_undef (enc AUndef ++ rest) = Ok (AUndef, size AUndef).
Proof. reflexivity. Qed.

Lemma scalar_consumed p v n :
  (exists w rest, p = w ++ rest /\ wire w v /\ n = size v) ->
  n = size v /\ exists w rest, p = w ++ rest /\ lenN w = n.
Proof. intros (w & rest & -> & Hw & ->). split; [reflexivity|]. exists w, rest. split; [reflexivity|apply wire_len; exact Hw]. Qed.
Lemma um_number_consumed p v n : um_number p = Ok (v, n) -> n = size v /\ exists w rest, p = w ++ rest /\ lenN w = n.
Proof. intros H. apply scalar_consumed, um_number_ok, H. Qed.
Lemma um_bool_consumed p v n : um_bool p = Ok (v, n) -> n = size v /\ exists w rest, p = w ++ rest /\ lenN w = n.
Proof. intros H. apply scalar_consumed, um_bool_ok, H. Qed.
Lemma um_string_consumed p v n : um_string p = Ok (v, n) -> n = size v /\ exists w rest, p = w ++ rest /\ lenN w = n.
Proof. intros H. apply scalar_consumed, um_string_ok, H. Qed.
Lemma um_null_consumed p v n : um_null p = Ok (v, n) -> n = size v /\ exists w rest, p = w ++ rest /\ lenN w = n.
Proof. intros H. apply scalar_consumed, um_null_ok, H. Qed.
Lemma um_undef_consumed p v n : um_undef p = Ok (v, n) -> n = size v /\ exists w rest, p = w ++ rest /\ lenN w = n.
Proof. intros H. apply scalar_consumed, um_undef_ok, H. Qed.
Lemma um_number_total p s : um_number p <> Panic s.
Proof. apply um_number_plain. Qed.
Lemma um_bool_total p s : um_bool p <> Panic s.
Proof. apply um_bool_plain. Qed.
Lemma um_string_total p s : um_string p <> Panic s.
Proof. apply um_string_plain. Qed.
Lemma um_null_total p s : um_null p <> Panic s.
Proof. apply um_single_plain. Qed.
Lemma um_undef_total p s : um_undef p <> Panic s.
Proof. apply um_single_plain. Qed.

(* ------------------------------------------------------------------ objectBase.Set / Get *)
Lemma bytes_eqb_eq (a b : bytes) : bytes_eqb a b = true <-> a = b.
Proof.
  revert b. induction a as [|x a IH]; intros [|y b]; cbn [bytes_eqb]; split; intros H;
    try reflexivity; try discriminate.
  - apply andb_true_iff in H. destruct H as [H1 H2]. apply N.eqb_eq in H1. apply IH in H2. now subst.
  - inversion H; subst. apply andb_true_iff. split; [apply N.eqb_refl|apply IH; reflexivity].
Qed.

Lemma bytes_eqb_refl (a : bytes) : bytes_eqb a a = true.
Proof. apply bytes_eqb_eq. reflexivity. Qed.

Lemma bytes_eqb_neq (a b : bytes) : a <> b -> bytes_eqb a b = false.
Proof. intros H. destruct (bytes_eqb a b) eqn:E; [apply bytes_eqb_eq in E; contradiction|reflexivity]. Qed.

Lemma has_key_in ps k : has_key ps k = true <-> In k (map fst ps).
Proof.
  unfold has_key. rewrite existsb_exists. split.
  - intros ([k' v] & Hin & He). cbn [fst] in He. apply bytes_eqb_eq in He. subst.
    apply in_map_iff. exists (k, v). split; [reflexivity|exact Hin].
  - intros H. apply in_map_iff in H. destruct H as ([k' v] & <- & Hin).
    exists (k', v). split; [exact Hin|apply bytes_eqb_refl].
Qed.

(* Set keeps the key list: unchanged when the key exists (value replaced in place), the key
   appended otherwise -- so keys stay in first-set order *)
Lemma set_prop_keys ps k v :
  map fst (set_prop ps k v) = if has_key ps k then map fst ps else map fst ps ++ [k].
Proof.
  unfold set_prop. destruct (has_key ps k).
  - rewrite map_map. apply map_ext_in. intros [k' v'] _. cbn [fst].
    destruct (bytes_eqb k' k) eqn:E; [apply bytes_eqb_eq in E; now subst|reflexivity].
  - rewrite map_app. reflexivity.
Qed.

Lemma set_prop_nodup ps k v : NoDup (map fst ps) -> NoDup (map fst (set_prop ps k v)).
Proof.
  intros H. rewrite set_prop_keys. destruct (has_key ps k) eqn:E; [exact H|].
  assert (Hn : ~ In k (map fst ps)) by (intros Hi; apply has_key_in in Hi; congruence).
  clear E. induction (map fst ps) as [|x l IH]; cbn [app].
  - constructor; [intros []|constructor].
  - inversion H; subst. constructor.
    + rewrite in_app_iff. cbn [In]. intros [Hx|[Hx|[]]]; [contradiction|]. subst. apply Hn. now left.
    + apply IH; [assumption|]. intros Hi. apply Hn. now right.
Qed.

Lemma get_set_same ps k v : get_prop (set_prop ps k v) k = Some v.
Proof.
  unfold set_prop. destruct (has_key ps k) eqn:E.
  - induction ps as [|[k' v'] t IH]; [discriminate|]. cbn [map get_prop fst].
    destruct (bytes_eqb k' k) eqn:Ek; cbn [get_prop fst].
    + rewrite bytes_eqb_refl. reflexivity.
    + rewrite Ek. apply IH. unfold has_key in *. cbn [existsb fst] in E. rewrite Ek in E. exact E.
  - induction ps as [|[k' v'] t IH]; cbn [app get_prop].
    + rewrite bytes_eqb_refl. reflexivity.
    + unfold has_key in *. cbn [existsb fst] in E. apply orb_false_iff in E. destruct E as [Ek Et].
      rewrite Ek. apply IH. exact Et.
Qed.

Lemma get_set_other ps k v k' : k' <> k -> get_prop (set_prop ps k v) k' = get_prop ps k'.
Proof.
  intros Hne. unfold set_prop. destruct (has_key ps k).
  - induction ps as [|[k0 v0] t IH]; [reflexivity|]. cbn [map get_prop fst].
    destruct (bytes_eqb k0 k) eqn:Ek; cbn [get_prop].
    + apply bytes_eqb_eq in Ek. subst k0. rewrite (bytes_eqb_neq k k') by congruence. exact IH.
    + destruct (bytes_eqb k0 k'); [reflexivity|exact IH].
  - induction ps as [|[k0 v0] t IH]; cbn [app get_prop].
    + rewrite (bytes_eqb_neq k k') by congruence. reflexivity.
    + destruct (bytes_eqb k0 k'); [reflexivity|exact IH].
Qed.

(* a container filled through the API: keys unique, in first-set order, last value wins *)
Definition build_props (ops : props) : props :=
  fold_left (fun acc kv => set_prop acc (fst kv) (snd kv)) ops [].

Lemma build_props_nodup ops : NoDup (map fst (build_props ops)).
Proof.
  unfold build_props. assert (H : NoDup (map fst (@nil (bytes * amf)))) by constructor.
  revert H. generalize (@nil (bytes * amf)). induction ops as [|[k v] t IH]; intros acc H; [exact H|].
  cbn [fold_left fst snd]. apply IH. apply set_prop_nodup. exact H.
Qed.
