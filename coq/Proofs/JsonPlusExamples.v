(* C17: concrete instances (non-vacuity of the theorem hypotheses, regression witnesses). *)
From Verif Require Import Lib.Base Lib.Sx Gen.Gen_json Model.JsonPlus.
From Verif Require Import Proofs.JsonPlusIndex Proofs.JsonPlusSplit Proofs.JsonPlusScan Proofs.JsonPlusStrip.
Open Scope N_scope.

(* the limit below which the scanner cannot report "token too long": 2^62 bytes *)
Lemma tok_limit_value : tok_limit = 4611686018427387904.
Proof. vm_compute. reflexivity. Qed.

(* an object whose first value is a string holding an escaped quote followed by two slashes and
   whose second key holds an apostrophe and slash-star; decorated with a line comment holding a
   quote, an apostrophe and a backslash, a block comment holding star, apostrophe, quote, slashes,
   and an unterminated line comment at the end *)
Definition ex_doc : list item :=
  [Run [123]; Str [107]; Run [58]; Str [97; 92; 34; 47; 47; 98]; Line [32; 34; 120; 39; 32; 92];
   Run [44]; Block [42; 39; 34; 47; 47; 42]; Str [105; 116; 39; 115; 32; 47; 42]; Run [58; 91; 49; 93; 125]].
Definition ex_tail : option bytes := Some [32; 101; 110; 100; 34; 39; 47; 42].

Example ex_doc_ok : doc_ok ex_doc ex_tail = true.
Proof. vm_compute. reflexivity. Qed.

Example ex_doc_bytewise :
  reader (map (fun c => [c]) (render_dec ex_doc ex_tail)) 0 = (render_plain ex_doc, Ok tt).
Proof. vm_compute. reflexivity. Qed.

Example ex_doc_segs_ok : runs_ok (map (fun c => [c]) (render_dec ex_doc ex_tail)).
Proof. vm_compute. reflexivity. Qed.

(* empty reads in between (at most 100 in a row) are a segmentation like any other *)
Example ex_empty_reads_ok : runs_ok ([[123]; []; []; [125]; []] ++ repeat [] 99).
Proof. vm_compute. reflexivity. Qed.
Example ex_empty_reads : reader_dt ([[123]; []; []; [125]; []] ++ repeat [] 99) 0 true = ([123; 125], Ok tt).
Proof. vm_compute. reflexivity. Qed.
(* ... and 101 in a row make bufio give up *)
Example ex_no_progress : reader ([[123]] ++ repeat [] 101 ++ [[125]]) 0 = ([], Err E_NOPROGRESS).
Proof. vm_compute. reflexivity. Qed.

(* the hypothesis of split_stable is satisfiable: a complete string literal *)
Example ex_split_tok : split [34; 97; 34] false = Ok (Tok 3 [34; 97; 34]).
Proof. vm_compute. reflexivity. Qed.

(* regression witnesses of the two repaired defects *)
Definition w_escaped : bytes := [123;34;107;34;58;34;97;92;34;47;47;98;34;125].   (* DESIGN section 5 item 20 *)
Example ex_escaped_quote_now_intact : reader [w_escaped] 0 = (w_escaped, Ok tt).
Proof. vm_compute. reflexivity. Qed.

(* (the 64 KiB witnesses of item 21 are too deep for vm_compute; they are in corpus/C17) *)

(* what is not silently accepted: an unclosed block comment or string is an error *)
Example ex_unclosed_block : reader [[49; 47; 42; 32; 120]] 0 = ([], Err E_NOTMATCH).
Proof. vm_compute. reflexivity. Qed.
Example ex_unclosed_string : reader [[123; 34; 97]] 0 = ([], Err E_NOTMATCH).
Proof. vm_compute. reflexivity. Qed.
