(* C17 proofs, part 2: the split function -- characterisation, no panic, progress, and
   stability of a returned token under every extension of the data. *)
From Verif Require Import Lib.Base Lib.Sx Gen.Gen_json Model.JsonPlus Proofs.JsonPlusIndex.
Open Scope N_scope.

Definition mk_sm (i : nat) : bytes := nth i start_matches [].
Definition mk_em (i : nat) : bytes := nth i end_matches [].
Definition mk_isc (i : nat) : bool := nth i is_comments false.
Definition mk_req (i : nat) : bool := nth i required_matches false.

Lemma slice_from_ok d n s : (0 <= n <= lenZ d)%Z -> slice_from d n s = Ok (skipn (Z.to_nat n) d).
Proof.
  intros H. unfold slice_from. destruct (n <? 0)%Z eqn:A; [lia|]. destruct (lenZ d <? n)%Z eqn:B; [lia|]. reflexivity.
Qed.
Lemma slice_to_ok d n s : (0 <= n <= lenZ d)%Z -> slice_to d n s = Ok (firstn (Z.to_nat n) d).
Proof.
  intros H. unfold slice_to. destruct (n <? 0)%Z eqn:A; [lia|]. destruct (lenZ d <? n)%Z eqn:B; [lia|]. reflexivity.
Qed.

(* table facts (recomputed from the generated tables) *)
Lemma start_idx_lt i m : nth_error start_matches i = Some m -> (i < 4)%nat.
Proof. intros H. assert (i < length start_matches)%nat by (apply nth_error_Some; congruence). exact H0. Qed.

Lemma start_len_le2 j m : nth_error start_matches j = Some m -> (1 <= length m <= 2)%nat.
Proof.
  intros H. do 4 (destruct j as [|j]; [cbn in H; inversion H; cbn; lia|]). destruct j; discriminate.
Qed.

Lemma marker_lens i : (i < 4)%nat ->
  nth_error start_matches i = Some (mk_sm i) /\ (1 <= length (mk_sm i) <= 2)%nat /\ (1 <= length (mk_em i) <= 2)%nat.
Proof.
  intros H. do 4 (destruct i as [|i]; [cbn; repeat split; lia|]). lia.
Qed.

Lemma start_hd j m : nth_error start_matches j = Some m ->
  exists c, hd_error m = Some c /\ (c = quote \/ c = apos \/ c = slash).
Proof.
  intros H. do 4 (destruct j as [|j]; [cbn in H; inversion H; eexists; split; [reflexivity|cbv; auto]|]).
  destruct j; discriminate.
Qed.

Lemma start_nonempty : Forall (fun m : bytes => m <> []) start_matches.
Proof. repeat constructor; discriminate. Qed.
Lemma fm_correct d : is_fm d start_matches (first_match d start_matches).
Proof. apply first_match_correct, start_nonempty. Qed.
Lemma fm_is d r : is_fm d start_matches r -> first_match d start_matches = r.
Proof. apply first_match_is, start_nonempty. Qed.

(* the found marker determines everything the split function does *)
Lemma fm_some_facts d pos i :
  first_match d start_matches = Some (pos, i) ->
  (i < 4)%nat /\ index (mk_sm i) d = Some pos /\ (N.to_nat pos + length (mk_sm i) <= length d)%nat /\ d <> [].
Proof.
  intros H. pose proof (fm_correct d) as C. rewrite H in C.
  destruct C as [(m & Hn & Hi) _]. pose proof (start_idx_lt _ _ Hn) as Hlt.
  destruct (marker_lens i Hlt) as (Hs & L1 & L2). rewrite Hs in Hn. inversion Hn; subst m.
  pose proof (index_bound _ _ _ Hi). repeat split; auto. intros ->. cbn in *. lia.
Qed.

Lemma split_some d e pos i :
  first_match d start_matches = Some (pos, i) ->
  split d e =
    match index_end (skipn (N.to_nat pos + length (mk_sm i)) d) (mk_em i) (negb (mk_isc i)) with
    | Some k =>
        Ok (Tok (Z.of_N pos + lenZ (mk_sm i) + Z.of_N k + lenZ (mk_em i))%Z
                (firstn (if mk_isc i then N.to_nat pos
                         else (N.to_nat pos + length (mk_sm i) + N.to_nat k + length (mk_em i))%nat) d))
    | None =>
        if e then if mk_req i then Err E_NOTMATCH
                  else Ok (Tok (lenZ d) (firstn (if mk_isc i then N.to_nat pos else length d) d))
        else Ok More
    end.
Proof.
  intros Hfm. destruct (fm_some_facts _ _ _ Hfm) as (Hlt & Hi & Hb & Hne).
  unfold split. rewrite Hfm. destruct d as [|d0 d']; [congruence|]. rewrite andb_false_r.
  set (d := d0 :: d') in *.
  assert (Hsl : forall s, slice_from d (Z.of_N pos + lenZ (mk_sm i))%Z s
                = Ok (skipn (N.to_nat pos + length (mk_sm i)) d)).
  { intros s. rewrite slice_from_ok by (rewrite !lenZ_spec; lia). f_equal. f_equal. rewrite lenZ_spec. lia. }
  assert (Hll : lenZ (skipn (N.to_nat pos + length (mk_sm i)) d)
                = (lenZ d - Z.of_N pos - lenZ (mk_sm i))%Z).
  { rewrite !lenZ_spec, skipn_length. lia. }
  assert (Hi4 : i = 0%nat \/ i = 1%nat \/ i = 2%nat \/ i = 3%nat) by lia.
  destruct Hi4 as [-> | [-> | [-> | ->]]].
  all: unfold tbl;
       cbv [mk_sm mk_em mk_isc mk_req nth nth_error start_matches end_matches is_comments required_matches
            json_NewJsonPlusReader__startMatches json_NewJsonPlusReader__endMatches
            json_NewJsonPlusReader__isComments json_NewJsonPlusReader__requiredMatches bind] in *;
       rewrite Hsl; cbv [negb];
       match goal with |- context [index_end ?l ?m ?b] => destruct (index_end l m b) as [k|] eqn:Ek end.
  all: try (pose proof (index_end_bound _ _ _ _ Ek) as Hk; rewrite skipn_length in Hk).
  all: try (destruct e; [|reflexivity]); try reflexivity.
  all: rewrite slice_to_ok by (rewrite ?Hll; rewrite !lenZ_spec in *; cbn [length] in *; lia).
  all: f_equal; f_equal; try (rewrite ?Hll; rewrite !lenZ_spec; cbn [length]; lia).
  all: f_equal; rewrite ?lenZ_spec; cbn [length]; lia.
Qed.

Lemma split_none d e :
  first_match d start_matches = None ->
  split d e = if e then (match d with [] => Ok More | _ => Ok (Tok (lenZ d) d) end) else Ok More.
Proof.
  intros H. unfold split. rewrite H. destruct e; cbn; [|reflexivity]. destruct d; reflexivity.
Qed.

(* ---- consequences ---- *)
Lemma split_no_panic d e s : split d e <> Panic s.
Proof.
  destruct (first_match d start_matches) as [[pos i]|] eqn:F.
  - rewrite (split_some _ e _ _ F). destruct (index_end _ _ _); [discriminate|].
    destruct e; [destruct (mk_req i)|]; discriminate.
  - rewrite (split_none _ e F). destruct e; [destruct d|]; discriminate.
Qed.

Lemma split_false_no_err d c : split d false <> Err c.
Proof.
  destruct (first_match d start_matches) as [[pos i]|] eqn:F.
  - rewrite (split_some _ false _ _ F). destruct (index_end _ _ _); discriminate.
  - rewrite (split_none _ false F). discriminate.
Qed.

Lemma split_err_code d e c : split d e = Err c -> c = E_NOTMATCH.
Proof.
  destruct (first_match d start_matches) as [[pos i]|] eqn:F.
  - rewrite (split_some _ e _ _ F). destruct (index_end _ _ _); [discriminate|].
    destruct e; [destruct (mk_req i)|]; intros H; inversion H; reflexivity.
  - rewrite (split_none _ e F). destruct e; [destruct d|]; discriminate.
Qed.

(* a token always consumes at least one byte, never more than there is, and is a prefix of the data *)
Lemma split_tok_facts d e adv tok :
  split d e = Ok (Tok adv tok) ->
  (0 < adv <= lenZ d)%Z /\ exists n, (n <= Z.to_nat adv)%nat /\ tok = firstn n d.
Proof.
  destruct (first_match d start_matches) as [[pos i]|] eqn:F.
  - destruct (fm_some_facts _ _ _ F) as (Hlt & Hi & Hb & Hne).
    destruct (marker_lens i Hlt) as (_ & L1 & L2).
    rewrite (split_some _ e _ _ F).
    destruct (index_end _ _ _) as [k|] eqn:Ek.
    + pose proof (index_end_bound _ _ _ _ Ek) as Hk. rewrite skipn_length in Hk.
      intros H. inversion H; subst. rewrite !lenZ_spec. split; [lia|].
      eexists. split; [|reflexivity]. destruct (mk_isc i); lia.
    + destruct e; [destruct (mk_req i)|]; try discriminate.
      intros H. inversion H; subst. rewrite !lenZ_spec. split; [destruct d; [congruence|cbn [length]; lia]|].
      eexists. split; [|reflexivity]. destruct (mk_isc i); lia.
  - rewrite (split_none _ e F). destruct e; [|discriminate]. destruct d as [|x d]; [discriminate|].
    intros H. inversion H; subst. rewrite !lenZ_spec. cbn [length]. split; [lia|].
    exists (length (x :: d)). split; [cbn [length]; lia|]. now rewrite firstn_all.
Qed.

(* [core] a token returned on a prefix, not at EOF, is returned unchanged on every extension,
   whether or not the extension is the end of the input *)
Lemma split_stable d x e adv tok :
  split d false = Ok (Tok adv tok) -> split (d ++ x) e = Ok (Tok adv tok).
Proof.
  destruct (first_match d start_matches) as [[pos i]|] eqn:F.
  2:{ rewrite (split_none _ false F). discriminate. }
  destruct (fm_some_facts _ _ _ F) as (Hlt & Hi & Hb & Hne).
  destruct (marker_lens i Hlt) as (Hnth & L1 & L2).
  rewrite (split_some _ false _ _ F).
  destruct (index_end _ _ _) as [k|] eqn:Ek; [|discriminate].
  pose proof (index_end_bound _ _ _ _ Ek) as Hk. rewrite skipn_length in Hk.
  intros H. inversion H; subst adv tok. clear H.
  assert (F' : first_match (d ++ x) start_matches = Some (pos, i)).
  { apply fm_is. split.
    - exists (mk_sm i). split; [auto|]. now apply index_app_some.
    - intros j m q Hn Hq. destruct (index m d) as [q'|] eqn:Eq.
      + rewrite (index_app_some _ _ x _ Eq) in Hq. inversion Hq; subst q'.
        pose proof (fm_correct d) as C. rewrite F in C. destruct C as [_ M].
        exact (M _ _ _ Hn Eq).
      + pose proof (index_app_none _ _ _ _ Eq Hq) as Hs. pose proof (start_len_le2 _ _ Hn). left. lia. }
  rewrite (split_some _ e _ _ F').
  assert (Hsk : skipn (N.to_nat pos + length (mk_sm i)) (d ++ x) = skipn (N.to_nat pos + length (mk_sm i)) d ++ x).
  { rewrite skipn_app. replace (N.to_nat pos + length (mk_sm i) - length d)%nat with 0%nat by lia. reflexivity. }
  rewrite Hsk, (index_end_app_some _ _ _ x _ Ek). f_equal. f_equal.
  rewrite firstn_app.
  match goal with |- firstn ?n d ++ firstn ?m x = _ => replace m with 0%nat by (destruct (mk_isc i); lia) end.
  cbn [firstn]. now rewrite app_nil_r.
Qed.
