(* C06: the library's AMF0 codec (Model/Amf0.v enc/dec) against the independent codec written
   from amf0_spec_121207 section 2 (Model/Amf0.v spec_enc/spec_dec).  Both decoders are related
   to the same wire relation of Proofs/Amf0.v; on values without a non-empty strict array they
   accept exactly the same byte strings with the same meaning. *)
From Verif Require Import Lib.Base Lib.Sx Model.Amf0 Proofs.Amf0 Proofs.Amf0Hist.
From Verif Require Import Gen.Gen_amf0.
Open Scope N_scope.
Ltac Zify.zify_post_hook ::= Z.div_mod_to_equations.

(* ------------------------------------------------------------------ equations *)
Lemma spec_dec_S f m r : spec_dec (S f) (m :: r) =
  if m =? 0 then
    match r with
    | a :: b :: c :: d :: e :: f' :: g :: h :: r' => Some (ANum (ube8 a b c d e f' g h), r')
    | _ => None
    end
  else if m =? 1 then
    match r with b :: r' => Some (ABool (negb (b =? 0)), r') | _ => None end
  else if m =? 2 then
    match spec_rd_str r with Some (s, r') => Some (AStr s, r') | None => None end
  else if m =? 3 then
    match spec_pairs f r [] with Some (ps, r') => Some (AObj ps, r') | None => None end
  else if m =? 5 then Some (ANull, r)
  else if m =? 6 then Some (AUndef, r)
  else if m =? 8 then
    match r with
    | a :: b :: c :: d :: r1 =>
        match spec_pairs f r1 [] with
        | Some (ps, r') => Some (AEcma (ube4 a b c d) ps, r')
        | None => None
        end
    | _ => None
    end
  else if m =? 10 then
    match r with
    | a :: b :: c :: d :: r1 =>
        match spec_vals f (ube4 a b c d) r1 [] with
        | Some (ps, r') => Some (AStrict ps, r')
        | None => None
        end
    | _ => None
    end
  else None.
Proof. reflexivity. Qed.

Lemma spec_pairs_S f p racc : spec_pairs (S f) p racc =
  if spec_is_end p then Some (rev racc, spec_after_end p)
  else
    match spec_rd_str p with
    | Some (k, p1) =>
        match spec_dec f p1 with
        | Some (v, p2) => spec_pairs f p2 ((k, v) :: racc)
        | None => None
        end
    | None => None
    end.
Proof. reflexivity. Qed.

Lemma spec_vals_S f n p racc : spec_vals (S f) n p racc =
  if n =? 0 then Some (rev racc, p)
  else match spec_dec f p with
       | Some (v, p2) => spec_vals f (N.pred n) p2 (([], v) :: racc)
       | None => None
       end.
Proof. reflexivity. Qed.

Lemma spec_rd_str_app h l k rest : lenN k = ube2 h l -> spec_rd_str (h :: l :: k ++ rest) = Some (k, rest).
Proof. intros H. unfold spec_rd_str. apply takeN_app. rewrite H. reflexivity. Qed.

Lemma spec_rd_str_some p k p1 : spec_rd_str p = Some (k, p1) ->
  exists h l, p = h :: l :: k ++ p1 /\ lenN k = ube2 h l.
Proof.
  unfold spec_rd_str. destruct p as [|h [|l r]]; try discriminate.
  intros H. apply takeN_some in H. destruct H as [-> H]. exists h, l. split; [reflexivity|exact H].
Qed.

Lemma no_strict_obj ps : no_strictb (AObj ps) = no_strict_propsb ps.
Proof. reflexivity. Qed.
Lemma no_strict_ecma c ps : no_strictb (AEcma c ps) = no_strict_propsb ps.
Proof. reflexivity. Qed.
Lemma no_strict_strict ps : no_strictb (AStrict ps) = true -> ps = [].
Proof. destruct ps; [reflexivity|discriminate]. Qed.

(* a property that starts a pair is never mistaken for the end of the list *)
Lemma pair_not_end h l k w v tl :
  lenN k = ube2 h l -> wire w v -> spec_is_end (h :: l :: k ++ w ++ tl) = false.
Proof.
  intros Hk Hw. destruct (wire_head _ _ Hw) as (m & r & -> & Hm).
  destruct k as [|x k'].
  - rewrite lenN_nil in Hk. unfold ube2 in Hk. assert (h = 0 /\ l = 0) as [-> ->] by lia.
    cbn [app spec_is_end]. change (m =? 9) with (m =? mObjectEnd). rewrite Hm. reflexivity.
  - rewrite lenN_cons in Hk. unfold ube2 in Hk. cbn [app spec_is_end].
    destruct (h =? 0) eqn:Eh; [|reflexivity]. destruct (l =? 0) eqn:El; [|reflexivity]. lia.
Qed.

(* ------------------------------------------------------------------ library -> specification *)
Lemma wire_spec_both :
  (forall w v, wire w v -> no_strictb v = true ->
     forall f rest, (length w < f)%nat -> spec_dec f (w ++ rest) = Some (v, rest)) /\
  (forall wps ps, wire_props wps ps -> no_strict_propsb ps = true ->
     forall f rest racc, (length wps + 3 <= f)%nat ->
       spec_pairs f (wps ++ eof_bytes ++ rest) racc = Some (rev racc ++ ps, rest)).
Proof.
  apply wire_mutind.
  - intros a b c d e f0 g h _ f rest Hf. destruct f as [|f]; [lia|]. reflexivity.
  - intros b _ f rest Hf. destruct f as [|f]; [lia|]. reflexivity.
  - intros h l s Hs _ f rest Hf. destruct f as [|f]; [lia|].
    cbn [app]. rewrite spec_dec_S. change (mString =? 0) with false. change (mString =? 1) with false.
    change (mString =? 2) with true. cbv iota. rewrite spec_rd_str_app by exact Hs. reflexivity.
  - intros wps ps _ IH Hns f rest Hf. destruct f as [|f]; [cbn [length] in Hf; lia|].
    cbn [app]. rewrite spec_dec_S. change (mObject =? 0) with false. change (mObject =? 1) with false.
    change (mObject =? 2) with false. change (mObject =? 3) with true. cbv iota.
    rewrite <- app_assoc. cbn [length] in Hf. rewrite app_length in Hf. cbn [length eof_bytes] in Hf.
    rewrite no_strict_obj in Hns. rewrite (IH Hns f rest []) by lia. reflexivity.
  - intros _ f rest Hf. destruct f as [|f]; [lia|]. reflexivity.
  - intros _ f rest Hf. destruct f as [|f]; [lia|]. reflexivity.
  - intros a b c d wps ps _ IH Hns f rest Hf. destruct f as [|f]; [cbn [length] in Hf; lia|].
    cbn [app]. rewrite spec_dec_S. change (mEcmaArray =? 0) with false. change (mEcmaArray =? 1) with false.
    change (mEcmaArray =? 2) with false. change (mEcmaArray =? 3) with false.
    change (mEcmaArray =? 5) with false. change (mEcmaArray =? 6) with false.
    change (mEcmaArray =? 8) with true. cbv iota.
    rewrite <- app_assoc. cbn [length] in Hf. rewrite app_length in Hf. cbn [length eof_bytes] in Hf.
    rewrite no_strict_ecma in Hns. rewrite (IH Hns f rest []) by lia. reflexivity.
  - intros a b c d wps ps Hw _ Hc Hns f rest Hf. destruct f as [|f]; [cbn [length] in Hf; lia|].
    apply no_strict_strict in Hns. subst ps. inversion Hw; subst.
    unfold plen in Hc. cbn [length] in Hc. cbn [app]. rewrite spec_dec_S.
    change (mStrictArray =? 0) with false. change (mStrictArray =? 1) with false.
    change (mStrictArray =? 2) with false. change (mStrictArray =? 3) with false.
    change (mStrictArray =? 5) with false. change (mStrictArray =? 6) with false.
    change (mStrictArray =? 8) with false. change (mStrictArray =? 10) with true. cbv iota.
    change (N.of_nat 0) with 0 in Hc. rewrite Hc.
    cbn [length] in Hf. destruct f as [|f]; [lia|]. reflexivity.
  - intros _ f rest racc Hf. destruct f as [|f]; [lia|]. rewrite app_nil_r. reflexivity.
  - intros h l k w v wps ps Hk Hw IHw _ IHp Hns f rest racc Hf.
    cbn [no_strict_propsb] in Hns. apply andb_true_iff in Hns. destruct Hns as [Hnv Hnp].
    destruct f as [|f]; [lia|]. rewrite spec_pairs_S. cbn [app]. rewrite <- !app_assoc.
    rewrite (pair_not_end h l k w v _ Hk Hw). rewrite spec_rd_str_app by exact Hk.
    cbn [length] in Hf. rewrite !app_length in Hf.
    rewrite (IHw Hnv) by lia. rewrite (IHp Hnp) by lia.
    cbn [rev]. rewrite <- app_assoc. reflexivity.
Qed.

(* ------------------------------------------------------------------ specification -> library *)
Lemma spec_vals_len : forall f n p racc ps r,
  spec_vals f n p racc = Some (ps, r) -> (length racc <= length ps)%nat.
Proof.
  induction f as [|f IH]; intros n p racc ps r H; [discriminate|].
  rewrite spec_vals_S in H. destruct (n =? 0).
  - inversion H; subst. rewrite rev_length. lia.
  - destruct (spec_dec f p) as [[v p2]|]; [|discriminate]. apply IH in H. cbn [length] in H. lia.
Qed.

Lemma spec_is_end_true p : spec_is_end p = true -> p = eof_bytes ++ spec_after_end p.
Proof.
  unfold spec_is_end. destruct p as [|a [|b [|c r]]]; try discriminate.
  intros H. apply andb_true_iff in H. destruct H as [H Hc]. apply andb_true_iff in H. destruct H as [Ha Hb].
  apply N.eqb_eq in Ha, Hb, Hc. subst. reflexivity.
Qed.

Lemma spec_wire_both : forall f,
  (forall p v rest, spec_dec f p = Some (v, rest) -> no_strictb v = true ->
     exists w, p = w ++ rest /\ wire w v) /\
  (forall p racc ps' rest, spec_pairs f p racc = Some (ps', rest) ->
     exists ps, ps' = rev racc ++ ps /\
       (no_strict_propsb ps = true -> exists wps, wire_props wps ps /\ p = wps ++ eof_bytes ++ rest)).
Proof.
  induction f as [|f [IHd IHp]]; [split; intros; discriminate|]. split.
  - intros p v rest. destruct p as [|m r]; [discriminate|]. rewrite spec_dec_S.
    destruct (N.eqb_spec m 0) as [->|_].
    { destruct r as [|a [|b [|c [|d [|e [|f' [|g [|h r']]]]]]]]; try discriminate.
      intros H _. inversion H; subst. exists [mNumber; a; b; c; d; e; f'; g; h]. split; [reflexivity|constructor]. }
    destruct (N.eqb_spec m 1) as [->|_].
    { destruct r as [|b r']; [discriminate|]. intros H _. inversion H; subst.
      exists [mBoolean; b]. split; [reflexivity|constructor]. }
    destruct (N.eqb_spec m 2) as [->|_].
    { destruct (spec_rd_str r) as [[s r']|] eqn:E; [|discriminate]. intros H _. inversion H; subst.
      apply spec_rd_str_some in E. destruct E as (h & l & -> & Hs).
      match goal with |- exists w, _ = w ++ _ /\ wire w (AStr ?s0) => exists (mString :: h :: l :: s0) end.
      split; [reflexivity|]. constructor. exact Hs. }
    destruct (N.eqb_spec m 3) as [->|_].
    { destruct (spec_pairs f r []) as [[ps r']|] eqn:E; [|discriminate]. intros H Hns. inversion H; subst.
      apply IHp in E. destruct E as (ps0 & -> & Hw). cbn [rev app] in *.
      destruct (Hw Hns) as (wps & Hwps & ->).
      exists (mObject :: wps ++ eof_bytes). split; [cbn [app]; now rewrite <- app_assoc|constructor; exact Hwps]. }
    destruct (N.eqb_spec m 5) as [->|_].
    { intros H _. inversion H; subst. exists [mNull]. split; [reflexivity|constructor]. }
    destruct (N.eqb_spec m 6) as [->|_].
    { intros H _. inversion H; subst. exists [mUndefined]. split; [reflexivity|constructor]. }
    destruct (N.eqb_spec m 8) as [->|_].
    { destruct r as [|a [|b [|c [|d r1]]]]; try discriminate.
      destruct (spec_pairs f r1 []) as [[ps r']|] eqn:E; [|discriminate]. intros H Hns. inversion H; subst.
      apply IHp in E. destruct E as (ps0 & -> & Hw). cbn [rev app] in *.
      destruct (Hw Hns) as (wps & Hwps & ->).
      exists (mEcmaArray :: a :: b :: c :: d :: wps ++ eof_bytes).
      split; [cbn [app]; now rewrite <- app_assoc|constructor; exact Hwps]. }
    destruct (N.eqb_spec m 10) as [->|_]; [|discriminate].
    { destruct r as [|a [|b [|c [|d r1]]]]; try discriminate.
      destruct (spec_vals f (ube4 a b c d) r1 []) as [[ps r']|] eqn:E; [|discriminate].
      intros H Hns. inversion H; subst. apply no_strict_strict in Hns. subst ps.
      destruct f as [|f]; [discriminate|]. rewrite spec_vals_S in E.
      destruct (ube4 a b c d =? 0) eqn:Ec.
      - inversion E; subst. apply N.eqb_eq in Ec.
        exists [mStrictArray; a; b; c; d]. split; [reflexivity|].
        apply (W_strict a b c d [] []); [constructor|]. rewrite Ec. reflexivity.
      - destruct (spec_dec f r1) as [[v p2]|]; [|discriminate].
        apply spec_vals_len in E. cbn [length] in E. lia. }
  - intros p racc ps' rest. rewrite spec_pairs_S.
    destruct (spec_is_end p) eqn:Eend.
    { intros H. inversion H; subst. exists []. rewrite app_nil_r. split; [reflexivity|].
      intros _. exists []. split; [constructor|]. cbn [app]. apply spec_is_end_true. exact Eend. }
    destruct (spec_rd_str p) as [[k p1]|] eqn:Ek; [|discriminate].
    destruct (spec_dec f p1) as [[v p2]|] eqn:Ed; [|discriminate].
    intros H. apply IHp in H. destruct H as (ps & -> & Hw).
    exists ((k, v) :: ps). split; [cbn [rev]; now rewrite <- app_assoc|].
    intros Hns. cbn [no_strict_propsb] in Hns. apply andb_true_iff in Hns. destruct Hns as [Hnv Hnp].
    destruct (Hw Hnp) as (wps & Hwps & ->).
    apply (IHd _ _ _) in Ed; [|exact Hnv]. destruct Ed as (w & -> & Hwv).
    apply spec_rd_str_some in Ek. destruct Ek as (h & l & -> & Hk).
    exists (h :: l :: k ++ w ++ wps). split; [constructor; assumption|].
    cbn [app]. now rewrite <- !app_assoc.
Qed.

(* ------------------------------------------------------------------ the C06 statements *)
(* canonical encodings coincide on representable values without a non-empty strict array *)
Lemma spec_str_eq s : wf_strb s = true -> spec_str s = utf8_enc s.
Proof.
  intros H. apply wf_strb_spec in H. destruct H as [H _]. rewrite utf8_enc_wf by exact H. reflexivity.
Qed.

Lemma spec_enc_props_eq ps :
  Forall (fun kv => wf_amfb (snd kv) = true -> no_strictb (snd kv) = true -> spec_enc (snd kv) = enc (snd kv)) ps ->
  wf_propsb ps = true -> no_strict_propsb ps = true -> spec_enc_props ps = enc_props ps.
Proof.
  induction 1 as [|[k x] t Hx _ IH]; intros Hwf Hns; [reflexivity|].
  cbn [wf_propsb no_strict_propsb snd] in *.
  apply andb_true_iff in Hwf. destruct Hwf as [Hwf Ht]. apply andb_true_iff in Hwf. destruct Hwf as [Hk Hwx].
  apply andb_true_iff in Hns. destruct Hns as [Hnx Hnt].
  cbn [spec_enc_props enc_props]. rewrite spec_str_eq, Hx, IH by assumption. reflexivity.
Qed.

Lemma spec_enc_obj ps : spec_enc (AObj ps) = 3 :: spec_enc_props ps ++ [0; 0; 9].
Proof. reflexivity. Qed.
Lemma spec_enc_ecma c ps : spec_enc (AEcma c ps) = 8 :: be4 c ++ spec_enc_props ps ++ [0; 0; 9].
Proof. reflexivity. Qed.

Theorem spec_enc_eq v : wf_amf v -> no_strictb v = true -> spec_enc v = enc v.
Proof.
  unfold wf_amf.
  induction v as [b|b|s|ps IH| | |c ps IH|ps IH] using amf_ind'; intros Hwf Hns; try reflexivity.
  - cbn [spec_enc enc wf_amfb] in *. rewrite spec_str_eq by exact Hwf. reflexivity.
  - rewrite wf_obj in Hwf. rewrite no_strict_obj in Hns.
    rewrite spec_enc_obj, enc_obj, (spec_enc_props_eq ps IH Hwf Hns). reflexivity.
  - rewrite wf_ecma in Hwf. apply andb_true_iff in Hwf. destruct Hwf as [_ Hwf]. rewrite no_strict_ecma in Hns.
    rewrite spec_enc_ecma, enc_ecma, (spec_enc_props_eq ps IH Hwf Hns). reflexivity.
  - apply no_strict_strict in Hns. subst ps. reflexivity.
Qed.

Theorem lib_to_spec v rest : wf_amf v -> no_strictb v = true ->
  spec_decode (enc v ++ rest) = Some (v, rest).
Proof.
  intros Hwf Hns. unfold spec_decode.
  apply (proj1 wire_spec_both (enc v) v (enc_wire v Hwf) Hns). rewrite app_length. lia.
Qed.

Theorem spec_to_lib v rest : wf_amf v -> no_strictb v = true ->
  decode (spec_enc v ++ rest) = Ok (v, size v).
Proof.
  intros Hwf Hns. rewrite spec_enc_eq by assumption. unfold decode, dec_fuel.
  apply amf0_dec_enc; [exact Hwf|]. rewrite app_length. lia.
Qed.

(* ANY byte string the specification reads as a value (without a non-empty strict array), e.g.
   with non-canonical booleans or an ECMA count that differs from the number of pairs, is read
   by the library as the same value, and Size() is the number of bytes the value occupies *)
Theorem spec_to_lib_bytes fuel p v rest : spec_dec fuel p = Some (v, rest) -> no_strictb v = true ->
  decode p = Ok (v, size v) /\ lenN p = size v + lenN rest.
Proof.
  intros H Hns. apply (proj1 (spec_wire_both fuel)) in H; [|exact Hns]. destruct H as (w & -> & Hw).
  split.
  - unfold decode, dec_fuel. apply wire_dec; [exact Hw|]. rewrite app_length. lia.
  - rewrite lenN_app, (wire_len _ _ Hw). reflexivity.
Qed.

(* and conversely: whatever the library accepts as such a value, the specification reads the same *)
Theorem lib_to_spec_bytes fuel p v n : dec fuel p = Ok (v, n) -> no_strictb v = true ->
  exists rest, spec_decode p = Some (v, rest) /\ lenN p = n + lenN rest.
Proof.
  intros H Hns. apply dec_wire in H. destruct H as (w & rest & -> & Hw & ->). exists rest. split.
  - unfold spec_decode. apply (proj1 wire_spec_both w v Hw Hns). rewrite app_length. lia.
  - rewrite lenN_app, (wire_len _ _ Hw). reflexivity.
Qed.

(* ------------------------------------------------------------------ markers *)
Definition supportedb (m : N) : bool :=
  (m =? mNumber) || (m =? mBoolean) || (m =? mString) || (m =? mObject) || (m =? mNull)
  || (m =? mUndefined) || (m =? mEcmaArray) || (m =? mStrictArray).

(* the supported set of the specification, by number *)
Definition spec_supportedb (m : N) : bool :=
  (m =? 0) || (m =? 1) || (m =? 2) || (m =? 3) || (m =? 5) || (m =? 6) || (m =? 8) || (m =? 10).

Lemma supported_same m : supportedb m = spec_supportedb m.
Proof. reflexivity. Qed.

Theorem unsupported_marker_is_error fuel m r :
  supportedb m = false -> exists e, dec fuel (m :: r) = Err e.
Proof.
  intros H. destruct fuel as [|f]; [eexists; reflexivity|]. rewrite dec_S.
  unfold supportedb in H. repeat (apply orb_false_iff in H; destruct H as [H ?]).
  repeat match goal with E : (m =? _) = false |- _ => rewrite E; clear E end.
  destruct (m =? mReference); [eexists; reflexivity|].
  destruct (m =? mObjectEnd); [destruct r as [|? [|? ?]]; eexists; reflexivity|].
  destruct (is_unsup m); eexists; reflexivity.
Qed.

(* the spec decoder rejects them too *)
Lemma spec_unsupported fuel m r : spec_supportedb m = false -> spec_dec fuel (m :: r) = None.
Proof.
  intros H. destruct fuel as [|f]; [reflexivity|]. rewrite spec_dec_S.
  unfold spec_supportedb in H. repeat (apply orb_false_iff in H; destruct H as [H ?]).
  repeat match goal with E : (m =? _) = false |- _ => rewrite E; clear E end. reflexivity.
Qed.

(* ------------------------------------------------------------------ sweep over all 256 first bytes *)
Definition all_bytes : list N := map N.of_nat (seq 0 256).

Lemma in_all_bytes m : m < 256 -> In m all_bytes.
Proof.
  intros H. unfold all_bytes. rewrite <- (N2Nat.id m). apply in_map. apply in_seq. lia.
Qed.

(* the model's dispatch on the first byte fails with a marker error (as opposed to a length error) *)
Definition model_marker_err (m : N) : bool :=
  match dec 1 [m] with Err e => (e =? E_UNSUP) || (e =? E_INVALID) | _ => false end.
(* the Discovery function generated from the source by tools/repo2coq: (constructor, is-error) *)
Definition gen_marker_err (m : N) : bool :=
  match amf0_Discovery [Z.of_N m] with Ok (_, iserr) => iserr | _ => true end.
Definition marker_row_ok (m : N) : bool :=
  Bool.eqb (gen_marker_err m) (model_marker_err m) &&
  Bool.eqb (gen_marker_err m) (negb (spec_supportedb m || (m =? 9))).

Lemma marker_sweep : forallb marker_row_ok all_bytes = true.
Proof. vm_compute. reflexivity. Qed.

Theorem markers_generated m : m < 256 ->
  gen_marker_err m = model_marker_err m /\
  gen_marker_err m = negb (spec_supportedb m || (m =? 9)).
Proof.
  intros H. pose proof marker_sweep as S. rewrite forallb_forall in S.
  specialize (S m (in_all_bytes m H)). unfold marker_row_ok in S.
  apply andb_true_iff in S. destruct S as [S1 S2].
  split; apply eqb_prop; assumption.
Qed.

(* ------------------------------------------------------------------ histories *)
(* after ANY history of API calls (including rejected decodes into objects of the graph), what any
   object of the graph marshals to is read by the specification's decoder as that object's current
   value, when the value has no non-empty strict array *)
Theorem history_lib_to_spec ops path sub rest :
  forallb op_wf ops = true ->
  g_at path (h_run g0 ops) = Some sub -> gsmall sub = true -> no_strictb (g_view sub) = true ->
  spec_decode (fst (g_marshal sub) ++ rest) = Some (g_view sub, rest).
Proof.
  intros Hops Hat Hsm Hns.
  assert (Hg : gwfc (h_run g0 ops) = true) by (apply h_run_wfc; [reflexivity|exact Hops]).
  pose proof (g_at_wfc path _ sub Hg Hat) as Hsub.
  destruct (marshal_spec sub Hsub) as (M1 & _). rewrite M1.
  apply lib_to_spec; [apply gwf_view; assumption|exact Hns].
Qed.
