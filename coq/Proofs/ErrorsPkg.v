(* Lemmas about the errors-package model (Lib/Err.v, Model/ErrorsPkg.v). *)
From Verif Require Import Lib.Base Lib.Sx Lib.Err Model.ErrorsPkg.

(* ---- Cause ---- *)
Lemma cause_is_root e : is_root (cause e) = true.
Proof. induction e; cbn; auto. Qed.

Lemma cause_idem e : cause (cause e) = cause e.
Proof. induction e; cbn; auto. Qed.

Lemma cause_root_fix e : is_root e = true -> cause e = e.
Proof. destruct e; cbn; congruence. Qed.

(* ---- Error() is the chain joined by ": " ---- *)
Lemma chain_nonempty e : chain e <> [].
Proof. induction e; cbn; congruence. Qed.

Lemma join_cons sep x l : l <> [] -> join sep (x :: l) = x ++ sep ++ join sep l.
Proof. destruct l; [congruence|reflexivity]. Qed.

Lemma message_chain e : message e = join msg_sep (chain e).
Proof.
  induction e as [id m|id m k i|id m i IHi|m e IH|e IH]; cbn [message chain].
  - reflexivity.
  - reflexivity.
  - reflexivity.
  - rewrite join_cons by apply chain_nonempty. now rewrite IH.
  - exact IH.
Qed.

(* ---- one wrapping call ---- *)
Lemma apply_op_nil o : apply_op None o = None.
Proof. destruct o; reflexivity. Qed.

Lemma apply_op_some x o :
  exists y, apply_op (Some x) o = Some y /\ cause y = cause x /\ chain y = op_msg o ++ chain x.
Proof. destruct o; cbn; eexists; (split; [reflexivity|]); cbn; auto. Qed.

Lemma apply_op_nil_iff e o : apply_op e o = None <-> e = None.
Proof.
  destruct e as [x|].
  - destruct (apply_op_some x o) as (y & H & _). rewrite H. split; discriminate.
  - rewrite apply_op_nil. tauto.
Qed.

(* ---- nestings of any depth ---- *)
Definition op_msgs (ops : list wrap_op) : list bytes := flat_map op_msg (rev ops).

Lemma nest_nil_start ops : nest None ops = None.
Proof. unfold nest. induction ops as [|o ops IH]; cbn; auto. rewrite apply_op_nil. exact IH. Qed.

Lemma nest_app s a b : nest s (a ++ b) = nest (nest s a) b.
Proof. unfold nest. apply fold_left_app. Qed.

Lemma nest_some x ops :
  exists y, nest (Some x) ops = Some y /\ cause y = cause x /\ chain y = op_msgs ops ++ chain x.
Proof.
  induction ops as [|o ops IH] using rev_ind.
  - exists x. cbn. auto.
  - destruct IH as (y & Hn & Hc & Hl).
    rewrite nest_app, Hn. cbn [nest fold_left].
    destruct (apply_op_some y o) as (z & Hz & Hzc & Hzl).
    exists z. split; [exact Hz|]. split; [congruence|].
    unfold op_msgs in *. rewrite rev_app_distr. cbn [rev app flat_map].
    rewrite Hzl, Hl, app_assoc. reflexivity.
Qed.

Lemma nest_nil_iff s ops : nest s ops = None <-> s = None.
Proof.
  destruct s as [x|].
  - destruct (nest_some x ops) as (y & H & _). rewrite H. split; discriminate.
  - rewrite nest_nil_start. tauto.
Qed.

(* a root that has Unwrap but no Cause is the root cause itself; a foreign causer is unwound *)
Lemma nest_rootU_cause id m k i ops :
  e_Cause (nest (Some (RootU id m k i)) ops) = Some (RootU id m k i).
Proof. destruct (nest_some (RootU id m k i) ops) as (y & H & Hc & _). rewrite H. cbn. now rewrite Hc. Qed.

Lemma nest_rootC_cause id m i ops :
  e_Cause (nest (Some (RootC id m i)) ops) = Some (cause i).
Proof. destruct (nest_some (RootC id m i) ops) as (y & H & Hc & _). rewrite H. cbn. now rewrite Hc. Qed.

Lemma is_root_cause e : is_root e = true -> cause e = e.
Proof. destruct e; cbn; congruence. Qed.

(* the three statements of the property, for every nesting over a root *)
Lemma nest_root_cause id m ops :
  e_Cause (nest (Some (Root id m)) ops) = Some (Root id m).
Proof. destruct (nest_some (Root id m) ops) as (y & H & Hc & _). rewrite H. cbn. now rewrite Hc. Qed.

Lemma nest_root_message id m ops :
  option_map e_Error (nest (Some (Root id m)) ops) = Some (join msg_sep (op_msgs ops ++ [m])).
Proof.
  destruct (nest_some (Root id m) ops) as (y & H & _ & Hl). rewrite H. cbn.
  unfold e_Error. now rewrite message_chain, Hl.
Qed.

(* wrapping an already wrapped error: cause and inner text are kept, whatever is inside *)
Lemma nest_any_cause x ops : e_Cause (nest (Some x) ops) = Some (cause x).
Proof. destruct (nest_some x ops) as (y & H & Hc & _). rewrite H. cbn. now rewrite Hc. Qed.

Lemma nest_any_message x ops :
  option_map e_Error (nest (Some x) ops) = Some (join msg_sep (op_msgs ops ++ chain x)).
Proof.
  destruct (nest_some x ops) as (y & H & _ & Hl). rewrite H. cbn.
  unfold e_Error. now rewrite message_chain, Hl.
Qed.

(* the text of the wrapped error is a suffix of the wrapper's text *)
Lemma join_app_nonempty sep a b : b <> [] ->
  join sep (a ++ b) = match a with [] => join sep b | _ => join sep a ++ sep ++ join sep b end.
Proof.
  intros Hb. induction a as [|x a IH]; [reflexivity|].
  destruct a as [|y a].
  - cbn [app]. rewrite join_cons by exact Hb. reflexivity.
  - change ((x :: y :: a) ++ b) with (x :: ((y :: a) ++ b)).
    rewrite join_cons by (cbn; congruence). rewrite IH.
    rewrite (join_cons sep x (y :: a)) by congruence. now rewrite <- !app_assoc.
Qed.

Lemma nest_message_suffix x ops y :
  nest (Some x) ops = Some y -> exists pre, message y = pre ++ message x.
Proof.
  intros H. destruct (nest_some x ops) as (y' & H' & _ & Hl). rewrite H in H'. injection H' as <-.
  rewrite !message_chain, Hl, join_app_nonempty by apply chain_nonempty.
  destruct (op_msgs ops).
  - exists []. reflexivity.
  - eexists. rewrite app_assoc. reflexivity.
Qed.

(* Cause of the cause, Cause(nil) *)
Lemma e_Cause_idem e : e_Cause (e_Cause e) = e_Cause e.
Proof. destruct e; cbn; [now rewrite cause_idem|reflexivity]. Qed.

(* ---- Sprintf pieces: decimal text ---- *)
Example dec_examples :
  dec_Z 0 = [48]%N /\ dec_Z 1536 = [49; 53; 51; 54]%N /\ dec_Z (-70) = [45; 55; 48]%N /\
  dec_Z 18446744073709551615 = [49;56;52;52;54;55;52;52;48;55;51;55;48;57;53;53;49;54;49;53]%N.
Proof. vm_compute. auto. Qed.
