(* Lemmas about Lib/Bitfield.v (shared by the C11 and C12 proofs): checked slicing, the
   big-endian byte representation, and N.lor of disjoint bit ranges. *)
From Verif Require Import Lib.Base Lib.Bitfield.
Open Scope N_scope.

Ltac Zify.zify_post_hook ::= Z.div_mod_to_equations.

(* ---- lengths ---- *)
Lemma lenN_acc_length b : forall acc, lenN_acc acc b = acc + N.of_nat (length b).
Proof.
  induction b as [|x t IH]; intros acc; cbn [lenN_acc length].
  - lia.
  - rewrite IH. lia.
Qed.

Lemma lenN_length b : lenN b = N.of_nat (length b).
Proof. unfold lenN. rewrite lenN_acc_length. lia. Qed.

Lemma lenN_app a b : lenN (a ++ b) = lenN a + lenN b.
Proof. rewrite !lenN_length, app_length. lia. Qed.

Lemma lenN_cons x b : lenN (x :: b) = 1 + lenN b.
Proof. rewrite !lenN_length. cbn [length]. lia. Qed.

Lemma len_gt_spec b : forall n, len_gt b n = (n <? length b)%nat.
Proof.
  induction b as [|x t IH]; intros n; destruct n; cbn [len_gt length]; try reflexivity.
  rewrite IH. reflexivity.
Qed.

Lemma len_gt_true b n : (n < length b)%nat -> len_gt b n = true.
Proof. intros H. rewrite len_gt_spec. apply Nat.ltb_lt. exact H. Qed.

Lemma len_gt_false b n : (length b <= n)%nat -> len_gt b n = false.
Proof. intros H. rewrite len_gt_spec. apply Nat.ltb_ge. exact H. Qed.

Lemma len_ltN_spec b : forall n, len_ltN b n = (lenN b <? n).
Proof.
  induction b as [|x t IH]; intros n; cbn [len_ltN].
  - change (lenN []) with 0. destruct (N.eqb_spec n 0) as [->|Hn]; cbn [negb].
    + reflexivity.
    + symmetry. apply N.ltb_lt. lia.
  - rewrite lenN_cons. destruct (N.eqb_spec n 0) as [->|Hn].
    + symmetry. apply N.ltb_ge. lia.
    + rewrite IH. destruct (N.ltb_spec (lenN t) (N.pred n)), (N.ltb_spec (1 + lenN t) n); try reflexivity; lia.
Qed.

(* ---- splitN ---- *)
Lemma splitN_app a : forall r n, lenN a = n -> splitN (a ++ r) n = Some (a, r).
Proof.
  induction a as [|x t IH]; intros r n Hn.
  - change (lenN []) with 0 in Hn. subst n. cbn [app]. destruct r; reflexivity.
  - rewrite lenN_cons in Hn. cbn [app splitN].
    destruct (N.eqb_spec n 0) as [H0|H0]; [lia|].
    rewrite (IH r (N.pred n)) by lia. reflexivity.
Qed.

Lemma splitN_some b : forall n a r, splitN b n = Some (a, r) -> b = a ++ r /\ lenN a = n.
Proof.
  induction b as [|x t IH]; intros n a r H; cbn [splitN] in H.
  - destruct (N.eqb_spec n 0) as [->|Hn]; [|discriminate]. inversion H. split; reflexivity.
  - destruct (N.eqb_spec n 0) as [->|Hn].
    + inversion H. split; reflexivity.
    + destruct (splitN t (N.pred n)) as [[a' r']|] eqn:E; [|discriminate].
      inversion H; subst. destruct (IH _ _ _ E) as [-> Hl]. split; [reflexivity|].
      rewrite lenN_cons. lia.
Qed.

Lemma splitN_total b : forall n, len_ltN b n = false -> splitN b n <> None.
Proof.
  induction b as [|x t IH]; intros n H; cbn [len_ltN splitN] in *.
  - destruct (n =? 0); [discriminate|]. cbn in H. discriminate.
  - destruct (n =? 0); [discriminate|].
    specialize (IH _ H). destruct (splitN t (N.pred n)) as [[? ?]|]; [discriminate|]. congruence.
Qed.

Lemma splitN_length b n a r : splitN b n = Some (a, r) -> length b = (length a + length r)%nat.
Proof. intros H. destruct (splitN_some _ _ _ _ H) as [-> _]. apply app_length. Qed.

(* ---- take / drop_chk / idx on explicit prefixes ---- *)
Lemma take_app a : forall r, take (length a) (a ++ r) = Some (a, r).
Proof.
  induction a as [|x t IH]; intros r; cbn [length take app].
  - reflexivity.
  - rewrite IH. reflexivity.
Qed.

Lemma take_some n : forall b a r, take n b = Some (a, r) -> b = a ++ r /\ length a = n.
Proof.
  induction n as [|n IH]; intros b a r H; cbn [take] in H.
  - inversion H. split; reflexivity.
  - destruct b as [|x t]; [discriminate|].
    destruct (take n t) as [[a' r']|] eqn:E; [|discriminate].
    inversion H; subst. destruct (IH _ _ _ E) as [-> Hl]. split; [reflexivity|]. cbn [length]. lia.
Qed.

Lemma take_total n : forall b, (n <= length b)%nat -> take n b <> None.
Proof.
  induction n as [|n IH]; intros b H; cbn [take].
  - discriminate.
  - destruct b as [|x t]; cbn [length] in H; [lia|].
    specialize (IH t ltac:(lia)). destruct (take n t) as [[? ?]|]; [discriminate|congruence].
Qed.

Lemma drop_chk_total n b s : (n <= length b)%nat -> exists r, drop_chk n b s = Ok r /\ length b = (n + length r)%nat.
Proof.
  intros H. unfold drop_chk. pose proof (take_total n b H) as T.
  destruct (take n b) as [[a r]|] eqn:E; [|congruence].
  exists r. split; [reflexivity|]. destruct (take_some _ _ _ _ E) as [-> Hl]. rewrite app_length. lia.
Qed.

Lemma idx_total b i s : (i < length b)%nat -> exists x, idx b i s = Ok x.
Proof.
  intros H. unfold idx. destruct (nth_error b i) eqn:E.
  - eexists. reflexivity.
  - apply nth_error_None in E. lia.
Qed.

(* ---- big-endian bytes ---- *)
Lemma pow256_pos k : 0 < 256 ^ N.of_nat k.
Proof. apply N.neq_0_lt_0. apply N.pow_nonzero. discriminate. Qed.

Lemma pow256_succ k : 256 ^ N.of_nat (S k) = 256 * 256 ^ N.of_nat k.
Proof. rewrite Nat2N.inj_succ, N.pow_succ_r'. reflexivity. Qed.

Lemma be_bytes_add_high k : forall a r, be_bytes k (a * 256 ^ N.of_nat k + r) = be_bytes k r.
Proof.
  induction k as [|k IH]; intros a r; cbn [be_bytes].
  - reflexivity.
  - f_equal.
    + rewrite pow256_succ.
      replace (a * (256 * 256 ^ N.of_nat k) + r) with (r + (a * 256) * 256 ^ N.of_nat k) by lia.
      rewrite N.div_add by (pose proof (pow256_pos k); lia).
      rewrite N.add_mod by discriminate. rewrite N.mod_mul by discriminate.
      rewrite N.add_0_r. apply N.mod_mod. discriminate.
    + rewrite pow256_succ.
      replace (a * (256 * 256 ^ N.of_nat k) + r) with ((a * 256) * 256 ^ N.of_nat k + r) by lia.
      apply IH.
Qed.

Lemma be_bytes_cons k a r : a < 256 -> r < 256 ^ N.of_nat k ->
  be_bytes (S k) (a * 256 ^ N.of_nat k + r) = a :: be_bytes k r.
Proof.
  intros Ha Hr. cbn [be_bytes]. f_equal.
  - replace (a * 256 ^ N.of_nat k + r) with (r + a * 256 ^ N.of_nat k) by lia.
    rewrite N.div_add by (pose proof (pow256_pos k); lia).
    rewrite (N.div_small r) by exact Hr. rewrite N.add_0_l. apply N.mod_small. exact Ha.
  - apply be_bytes_add_high.
Qed.

Lemma be_bytes_app j : forall k x y, y < 256 ^ N.of_nat k ->
  be_bytes (j + k) (x * 256 ^ N.of_nat k + y) = be_bytes j x ++ be_bytes k y.
Proof.
  induction j as [|j IH]; intros k x y Hy.
  - cbn [Nat.add be_bytes app]. apply be_bytes_add_high.
  - cbn [Nat.add be_bytes app]. f_equal.
    + rewrite Nat2N.inj_add, N.pow_add_r, (N.mul_comm (256 ^ N.of_nat j)).
      replace (x * 256 ^ N.of_nat k + y) with (y + x * 256 ^ N.of_nat k) by lia.
      rewrite <- N.div_div by (try (pose proof (pow256_pos k); lia); pose proof (pow256_pos j); lia).
      rewrite N.div_add by (pose proof (pow256_pos k); lia).
      rewrite (N.div_small y) by exact Hy. reflexivity.
    + apply IH. exact Hy.
Qed.

Lemma be_bytes_length k v : length (be_bytes k v) = k.
Proof. induction k; cbn [be_bytes length]; congruence. Qed.

Lemma be_bytes_wf k v : wf_bytes (be_bytes k v).
Proof.
  induction k as [|k IH]; cbn [be_bytes]; constructor.
  - unfold wf_byte. apply N.mod_lt. discriminate.
  - exact IH.
Qed.

(* ---- N.lor of disjoint ranges is addition ---- *)
Lemma lor_disjoint_add x y k : x mod 2 ^ k = 0 -> y < 2 ^ k -> N.lor x y = x + y.
Proof.
  intros Hx Hy.
  assert (L : N.land x y = 0).
  { apply N.bits_inj_0. intros n. rewrite N.land_spec.
    destruct (N.lt_ge_cases n k) as [Hn|Hn].
    - assert (E : x = (x / 2 ^ k) * 2 ^ k).
      { pose proof (N.div_mod x (2 ^ k) ltac:(apply N.pow_nonzero; discriminate)). lia. }
      rewrite E. rewrite N.mul_pow2_bits_low by exact Hn. reflexivity.
    - rewrite <- (N.mod_small y (2 ^ k)) by exact Hy.
      rewrite N.mod_pow2_bits_high by exact Hn. apply andb_false_r. }
  rewrite N.add_nocarry_lxor by exact L. symmetry. apply N.lxor_lor. exact L.
Qed.

(* ---- forallb sweeps over 0..n-1 ---- *)
Fixpoint n_range (lo : N) (n : nat) : list N :=
  match n with O => [] | S n' => lo :: n_range (lo + 1) n' end.

Lemma n_range_in n : forall lo x, lo <= x -> x < lo + N.of_nat n -> In x (n_range lo n).
Proof.
  induction n as [|n IH]; intros lo x H1 H2; cbn [n_range].
  - lia.
  - destruct (N.eq_dec lo x) as [->|Hne]; [left; reflexivity|].
    right. apply IH; lia.
Qed.

Lemma sweep256 (P : N -> bool) : forallb P (n_range 0 256) = true -> forall x, x < 256 -> P x = true.
Proof.
  intros H x Hx. rewrite forallb_forall in H. apply H. apply n_range_in; lia.
Qed.

Lemma sweep_range (P : N -> bool) lo n :
  forallb P (n_range lo n) = true -> forall x, lo <= x -> x < lo + N.of_nat n -> P x = true.
Proof.
  intros H x H1 H2. rewrite forallb_forall in H. apply H. apply n_range_in; assumption.
Qed.

(* explicit small powers, for normalising goals *)
Lemma pow256_nat_1 : 256 ^ N.of_nat 1 = 256. Proof. reflexivity. Qed.
Lemma pow256_nat_0 : 256 ^ N.of_nat 0 = 1. Proof. reflexivity. Qed.

Lemma be_bytes_1 v : v < 256 -> be_bytes 1 v = [v].
Proof.
  intros H. cbn [be_bytes]. rewrite pow256_nat_0, N.div_1_r, N.mod_small by exact H. reflexivity.
Qed.

Lemma be_bytes_2 v : be_bytes 2 v = [(v / 256) mod 256; v mod 256].
Proof. cbn [be_bytes]. rewrite pow256_nat_1, pow256_nat_0, N.div_1_r. reflexivity. Qed.

Lemma be_bytes_mod k v : be_bytes k (v mod 256 ^ N.of_nat k) = be_bytes k v.
Proof.
  rewrite (N.div_mod v (256 ^ N.of_nat k)) at 2 by (apply N.pow_nonzero; discriminate).
  rewrite (N.mul_comm (256 ^ N.of_nat k)). symmetry. apply be_bytes_add_high.
Qed.

Lemma fold_width_add (l : list field) : forall a,
  fold_left (fun acc f => acc + snd f) l a = a + fold_left (fun acc f => acc + snd f) l 0.
Proof.
  induction l as [|x t IH]; intros a; cbn [fold_left]; [lia|]. rewrite IH, (IH (0 + snd x)). lia.
Qed.

Lemma fields_width_app l1 l2 : fields_width (l1 ++ l2) = fields_width l1 + fields_width l2.
Proof. unfold fields_width. rewrite fold_left_app. apply fold_width_add. Qed.
