(* C17 proofs, part 5: totality of the reader model -- for every list of read segments (empty
   reads included), every way the underlying stream ends, and every scanner state: no Go
   run-time panic, and the model's fuel is adequate (the loop terminates). *)
From Verif Require Import Lib.Base Lib.Sx Gen.Gen_json Model.JsonPlus.
From Verif Require Import Proofs.JsonPlusIndex Proofs.JsonPlusSplit Proofs.JsonPlusScan.
Open Scope N_scope.

Lemma read_more_gen space dt : forall segs loop fin got segs' serr',
  read_more space loop segs fin dt = (got, segs', serr') ->
  (got = [] /\ (serr' = Some fin \/ serr' = Some E_NOPROGRESS)) \/
  (got <> [] /\ (serr' = None \/ serr' = Some fin) /\ got ++ concat segs' = concat segs).
Proof.
  induction segs as [|seg rest IH]; intros loop fin got segs' serr' H.
  - cbn in H. inversion H; subst. left. auto.
  - cbn [read_more] in H. destruct seg as [|c seg].
    + destruct (max_empty_reads <? loop + 1); [inversion H; subst; left; auto|].
      destruct (IH _ _ _ _ _ H) as [A|(A & B & C)]; [left; exact A|right]. repeat split; auto.
    + destruct (space =? 0) eqn:E0; [inversion H; subst; left; auto|]. apply N.eqb_neq in E0.
      right. unfold takeN in H. destruct (take (N.to_nat space) (c :: seg)) as [[a r]|] eqn:Et.
      * destruct (take_some _ _ _ _ Et) as [Hb Hl].
        assert (a <> []) by (intros ->; cbn in Hl; lia).
        destruct r as [|r0 r].
        -- rewrite app_nil_r in Hb. destruct rest as [|s2 rest]; [destruct dt|]; inversion H; subst got segs' serr'; clear H;
             cbn [concat]; rewrite ?app_nil_r; repeat split; auto; now rewrite Hb.
        -- inversion H; subst got segs' serr'; clear H. repeat split; auto. cbn [concat]. rewrite Hb. now rewrite app_assoc.
      * destruct rest as [|s2 rest]; [destruct dt|]; inversion H; subst got segs' serr'; clear H;
          cbn [concat]; rewrite ?app_nil_r; repeat split; auto; discriminate.
Qed.

Definition good (r : list bytes * res unit) : Prop := (forall s, snd r <> Panic s) /\ snd r <> Err E_FUEL.
Definition serr_ok (serr : option N) : Prop := match serr with Some e => e <> E_FUEL | None => True end.

Lemma set_err_ok serr e : serr_ok serr -> e <> E_FUEL -> set_err serr e <> E_FUEL.
Proof. unfold set_err. destruct serr as [c|]; cbn; intros; auto. destruct (c =? 0); auto. Qed.

Lemma err_neq (a b : N) : a <> b -> @Err unit a <> Err b.
Proof. congruence. Qed.

Lemma drain_total dt : forall fuel st segs fin serr out,
  fin <> E_FUEL -> serr_ok serr ->
  (N.to_nat (plen st) + match serr with None => S (2 * length (concat segs)) | Some _ => 0 end < fuel)%nat ->
  good (drain fuel st segs fin dt serr out).
Proof.
  induction fuel as [|fuel IH]; intros st segs fin serr out Hfin Hs Hm; [lia|].
  cbn [drain].
  set (sp := if (0 <? plen st) || match serr with Some _ => true | None => false end
             then split (pend st) match serr with Some _ => true | None => false end else Ok More).
  assert (Hsp : (forall s, sp <> Panic s) /\ (forall e, sp = Err e -> e = E_NOTMATCH)).
  { unfold sp. destruct ((0 <? plen st) || _).
    - split; [intros s; apply split_no_panic|intros e; apply split_err_code].
    - split; intros; discriminate. }
  destruct Hsp as [Hnp Herr]. destruct sp as [[|adv tok]|e|s] eqn:Esp.
  - (* More *)
    destruct serr as [e|].
    + split; cbn; [intros s; destruct (e =? 0); discriminate|]. destruct (e =? 0); [discriminate|]. cbn in Hs. congruence.
    + match goal with |- good (if ?c then _ else _) => destruct c end.
      * split; cbn; [discriminate|unfold E_TOOLONG, E_FUEL; congruence].
      * match goal with |- context [read_more ?sp 0 segs fin dt] => destruct (read_more sp 0 segs fin dt) as [[got segs'] serr'] eqn:R end.
        apply read_more_gen in R. apply IH; auto.
        -- destruct R as [(_ & [-> | ->]) | (_ & [-> | ->] & _)]; cbn; auto. unfold E_NOPROGRESS, E_FUEL. lia.
        -- cbn [plen].
           match goal with |- context [plen ?s] => assert (Hp : plen s = plen st) end.
           { repeat match goal with |- context [if ?c then _ else _] => destruct c end; reflexivity. }
           rewrite Hp. destruct R as [(-> & [-> | ->]) | (Hg & [-> | ->] & Hc)].
           ++ change (lenN []) with 0. lia.
           ++ change (lenN []) with 0. lia.
           ++ rewrite <- Hc, app_length in Hm. rewrite lenN_spec.
              assert (length got <> 0)%nat by (destruct got; [congruence|cbn; lia]). lia.
           ++ rewrite <- Hc, app_length in Hm. rewrite lenN_spec. lia.
  - (* Tok *)
    destruct ((adv <? 0)%Z || (Z.of_N (plen st) <? adv)%Z) eqn:C1.
    + split; cbn; [discriminate|]. apply err_neq, set_err_ok; auto. unfold E_ADVANCE, E_FUEL. lia.
    + apply orb_false_iff in C1 as [A B]. destruct (adv =? 0)%Z eqn:C2.
      * split; cbn; [discriminate|unfold E_STUCK, E_FUEL; congruence].
      * assert (Hgo : forall so, good (drain fuel {| pend := skipn (N.to_nat (Z.to_N adv)) (pend st); plen := plen st - Z.to_N adv;
                          start := start st + Z.to_N adv; cap := cap st |} segs fin dt serr so)).
        { intros so. apply IH; auto. cbn [plen]. lia. }
        destruct serr as [e|]; [|destruct tok; apply Hgo].
        destruct tok; [apply Hgo|]. destruct (e =? 0); [apply Hgo|].
        split; cbn; [discriminate|]. cbn in Hs. congruence.
  - split; cbn; [discriminate|]. apply err_neq, set_err_ok; auto. rewrite (Herr e eq_refl). unfold E_NOTMATCH, E_FUEL. lia.
  - exfalso. exact (Hnp s eq_refl).
Qed.

(* [jsonplus_total] the comment-aware reader never panics and always terminates *)
Lemma jsonplus_total segs fin dt :
  fin <> E_FUEL ->
  (forall s, snd (reader_dt segs fin dt) <> Panic s) /\ snd (reader_dt segs fin dt) <> Err E_FUEL.
Proof.
  intros Hfin. unfold reader_dt.
  pose proof (drain_total dt (drain_fuel segs) sc0 segs fin None [] Hfin I) as D.
  cbn [plen sc0] in D. specialize (D ltac:(unfold drain_fuel; lia)).
  destruct (drain _ sc0 segs fin dt None []) as [o r]. exact D.
Qed.

Lemma strip_total d : (forall s, snd (strip d) <> Panic s) /\ snd (strip d) <> Err E_FUEL.
Proof.
  destruct (strip_Strip d) as (o & r & HS & ->). cbn [snd].
  assert (G : forall d out p, Strip d out p -> (forall s, snd p <> Panic s) /\ snd p <> Err E_FUEL).
  { induction 1; cbn; auto; split; try discriminate. apply split_err_code in H. subst. discriminate. }
  exact (G _ _ _ HS).
Qed.
