(* C05, histories on one value: sequences of API calls (new container, Set, MarshalBinary,
   typed UnmarshalBinary into a fresh container, Get) on one object graph whose containers carry
   their separately stored count field (Model/Amf0.v gval, h_step).  After ANY sequence,
   marshalling any object of the graph yields exactly enc of its current value (the property lists
   in order), with the strict-array count equal to the number of properties, and those bytes
   decode back to the current value. *)
From Verif Require Import Lib.Base Lib.Sx Model.Amf0 Proofs.Amf0 Proofs.Amf0Recv.
Open Scope N_scope.
Ltac Zify.zify_post_hook ::= Z.div_mod_to_equations.

Section gval_induction.
  Variable P : gval -> Prop.
  Hypothesis Hleaf : forall v, P (GLeaf v).
  Hypothesis Hcont : forall k c ps, Forall (fun kv => P (snd kv)) ps -> P (GCont k c ps).
  Fixpoint gval_ind' (g : gval) : P g :=
    match g with
    | GLeaf v => Hleaf v
    | GCont k c ps =>
        Hcont k c ps
          ((fix go (ps : gprops) : Forall (fun kv => P (snd kv)) ps :=
              match ps with
              | [] => Forall_nil _
              | kv :: t => Forall_cons kv (gval_ind' (snd kv)) (go t)
              end) ps)
    end.
End gval_induction.

(* ---- well-formedness of an object graph ---- *)
Fixpoint gwfc (g : gval) : bool :=
  match g with
  | GLeaf v => wf_amfb v
  | GCont k c ps =>
      is_cont_kind k && (c <? 4294967296) &&
      (fix go (ps : gprops) : bool :=
         match ps with [] => true | (key, x) :: t => wf_strb key && gwfc x && go t end) ps
  end.
Fixpoint gwfc_props (ps : gprops) : bool :=
  match ps with [] => true | (key, x) :: t => wf_strb key && gwfc x && gwfc_props t end.

(* no container has 2^32 or more properties (uint32(len(properties)) does not wrap) *)
Fixpoint gsmall (g : gval) : bool :=
  match g with
  | GLeaf _ => true
  | GCont _ _ ps =>
      (gplen ps <? 4294967296) &&
      (fix go (ps : gprops) : bool :=
         match ps with [] => true | (_, x) :: t => gsmall x && go t end) ps
  end.
Fixpoint gsmall_props (ps : gprops) : bool :=
  match ps with [] => true | (_, x) :: t => gsmall x && gsmall_props t end.

(* every strict array's stored count is the number of its properties *)
Fixpoint gsynced (g : gval) : bool :=
  match g with
  | GLeaf _ => true
  | GCont k c ps =>
      (if k =? mStrictArray then c =? u32 (gplen ps) else true) &&
      (fix go (ps : gprops) : bool :=
         match ps with [] => true | (_, x) :: t => gsynced x && go t end) ps
  end.
Fixpoint gsynced_props (ps : gprops) : bool :=
  match ps with [] => true | (_, x) :: t => gsynced x && gsynced_props t end.

Lemma gwfc_cont k c ps :
  gwfc (GCont k c ps) = is_cont_kind k && (c <? 4294967296) && gwfc_props ps.
Proof. reflexivity. Qed.
Lemma gsmall_cont k c ps : gsmall (GCont k c ps) = (gplen ps <? 4294967296) && gsmall_props ps.
Proof. reflexivity. Qed.
Lemma gsynced_cont k c ps :
  gsynced (GCont k c ps) = (if k =? mStrictArray then c =? u32 (gplen ps) else true) && gsynced_props ps.
Proof. reflexivity. Qed.
Lemma g_view_cont k c ps : g_view (GCont k c ps) = mk_cont k c (g_view_props ps).
Proof. reflexivity. Qed.
Lemma g_marshal_cont k c ps : g_marshal (GCont k c ps) =
  let c' := if k =? mStrictArray then u32 (gplen ps) else c in
  let '(body, ps') := g_marshal_props ps in
  (k :: (if k =? mObject then [] else be4 c') ++ body ++ (if k =? mStrictArray then [] else eof_bytes),
   GCont k c' ps').
Proof. reflexivity. Qed.

Lemma view_props_len ps : plen (g_view_props ps) = gplen ps.
Proof. unfold plen, gplen. f_equal. induction ps as [|[k x] t IH]; cbn [g_view_props length]; [reflexivity|now rewrite IH]. Qed.

Lemma cont_kind_cases k : is_cont_kind k = true -> k = mObject \/ k = mEcmaArray \/ k = mStrictArray.
Proof.
  unfold is_cont_kind. intros H. apply orb_true_iff in H. destruct H as [H|H].
  - apply orb_true_iff in H. destruct H as [H|H]; apply N.eqb_eq in H; auto.
  - apply N.eqb_eq in H. auto.
Qed.

(* ---- MarshalBinary on the object graph ---- *)
Lemma marshal_props_len ps : gplen (snd (g_marshal_props ps)) = gplen ps.
Proof.
  unfold gplen. f_equal. induction ps as [|[k x] t IH]; [reflexivity|].
  cbn [g_marshal_props]. destruct (g_marshal x) as [bx x']. destruct (g_marshal_props t) as [bt t'].
  cbn [snd length] in *. now rewrite IH.
Qed.

Lemma marshal_spec g : gwfc g = true ->
  fst (g_marshal g) = enc (g_view g) /\
  g_view (snd (g_marshal g)) = g_view g /\
  gwfc (snd (g_marshal g)) = true /\
  gsmall (snd (g_marshal g)) = gsmall g /\
  gsynced (snd (g_marshal g)) = true /\
  g_marshal (snd (g_marshal g)) = g_marshal g.
Proof.
  induction g as [v|k c ps IH] using gval_ind'; intros Hwf.
  - cbn [g_marshal g_view fst snd gwfc gsmall gsynced] in *. repeat split; assumption.
  - rewrite gwfc_cont in Hwf. apply andb_true_iff in Hwf. destruct Hwf as [Hwf Hps].
    apply andb_true_iff in Hwf. destruct Hwf as [Hk Hc].
    assert (Hprops :
      fst (g_marshal_props ps) = enc_props (g_view_props ps) /\
      g_view_props (snd (g_marshal_props ps)) = g_view_props ps /\
      gwfc_props (snd (g_marshal_props ps)) = true /\
      gsmall_props (snd (g_marshal_props ps)) = gsmall_props ps /\
      gsynced_props (snd (g_marshal_props ps)) = true /\
      g_marshal_props (snd (g_marshal_props ps)) = g_marshal_props ps).
    { clear Hk Hc. induction IH as [|[key x] t Hx _ IHt]; [repeat split; reflexivity|].
      cbn [gwfc_props] in Hps. apply andb_true_iff in Hps. destruct Hps as [Hps Ht].
      apply andb_true_iff in Hps. destruct Hps as [Hkey Hxw].
      cbn [snd] in Hx. destruct (Hx Hxw) as (X1 & X2 & X3 & X4 & X5 & X6).
      destruct (IHt Ht) as (T1 & T2 & T3 & T4 & T5 & T6).
      cbn [g_marshal_props]. destruct (g_marshal x) as [bx x'] eqn:Ex.
      destruct (g_marshal_props t) as [bt t'] eqn:Et. cbn [fst snd] in *.
      cbn [g_view_props enc_props gwfc_props gsmall_props gsynced_props g_marshal_props].
      rewrite X1, T1, X2, T2, X3, T3, X4, T4, X5, T5, X6, T6, Hkey. repeat split. rewrite X1, T1. reflexivity. }
    destruct Hprops as (P1 & P2 & P3 & P4 & P5 & P6).
    pose proof (marshal_props_len ps) as Hlen.
    rewrite g_marshal_cont. cbv zeta. destruct (g_marshal_props ps) as [body ps'] eqn:Ep.
    cbn [fst snd] in *.
    assert (Hc' : ((if k =? mStrictArray then u32 (gplen ps) else c) <? 4294967296) = true).
    { destruct (k =? mStrictArray); [unfold u32; lia|exact Hc]. }
    repeat split.
    + rewrite g_view_cont, P1. unfold mk_cont.
      destruct (cont_kind_cases k Hk) as [->|[->| ->]].
      * change (mObject =? mObject) with true. change (mObject =? mStrictArray) with false. cbv iota.
        rewrite enc_obj. reflexivity.
      * change (mEcmaArray =? mObject) with false. change (mEcmaArray =? mEcmaArray) with true.
        change (mEcmaArray =? mStrictArray) with false. cbv iota. rewrite enc_ecma. reflexivity.
      * change (mStrictArray =? mObject) with false. change (mStrictArray =? mEcmaArray) with false.
        change (mStrictArray =? mStrictArray) with true. cbv iota.
        rewrite enc_strict, view_props_len, app_nil_r. reflexivity.
    + rewrite !g_view_cont, P2. unfold mk_cont.
      destruct (cont_kind_cases k Hk) as [->|[->| ->]]; reflexivity.
    + rewrite gwfc_cont, Hk, Hc', P3. reflexivity.
    + rewrite !gsmall_cont, P4, Hlen. reflexivity.
    + rewrite gsynced_cont, P5, Hlen. destruct (k =? mStrictArray); [rewrite N.eqb_refl|]; reflexivity.
    + rewrite g_marshal_cont. cbv zeta. rewrite P6, Hlen.
      destruct (k =? mStrictArray); reflexivity.
Qed.

(* a well-formed graph without over-long containers has a representable value *)
Lemma gwf_view g : gwfc g = true -> gsmall g = true -> wf_amf (g_view g).
Proof.
  unfold wf_amf. induction g as [v|k c ps IH] using gval_ind'; intros Hwf Hsm; [exact Hwf|].
  rewrite gwfc_cont in Hwf. apply andb_true_iff in Hwf. destruct Hwf as [Hwf Hps].
  apply andb_true_iff in Hwf. destruct Hwf as [Hk Hc].
  rewrite gsmall_cont in Hsm. apply andb_true_iff in Hsm. destruct Hsm as [Hlen Hsp].
  assert (Hp : wf_propsb (g_view_props ps) = true).
  { clear Hlen Hk Hc. induction IH as [|[key x] t Hx _ IHt]; [reflexivity|].
    cbn [gwfc_props gsmall_props] in *. apply andb_true_iff in Hps. destruct Hps as [Hps Ht].
    apply andb_true_iff in Hps. destruct Hps as [Hkey Hxw].
    apply andb_true_iff in Hsp. destruct Hsp as [Hxs Hts].
    cbn [g_view_props wf_propsb snd] in *. rewrite Hkey, (Hx Hxw Hxs), (IHt Ht Hts). reflexivity. }
  rewrite g_view_cont. unfold mk_cont.
  destruct (k =? mObject); [rewrite wf_obj; exact Hp|].
  destruct (k =? mEcmaArray); [rewrite wf_ecma, Hc, Hp; reflexivity|].
  rewrite wf_strict, view_props_len, Hlen, Hp. reflexivity.
Qed.

(* ---- Set / Get on child objects commute with the view ---- *)
Lemma view_ghas ps k : has_key (g_view_props ps) k = ghas_key ps k.
Proof.
  unfold has_key, ghas_key. induction ps as [|[k' x] t IH]; [reflexivity|].
  cbn [g_view_props existsb fst]. now rewrite IH.
Qed.

Lemma view_gset ps k x : g_view_props (gset_prop ps k x) = set_prop (g_view_props ps) k (g_view x).
Proof.
  unfold gset_prop, set_prop. rewrite view_ghas. destruct (ghas_key ps k).
  - induction ps as [|[k' y] t IH]; [reflexivity|]. cbn [map g_view_props fst].
    destruct (bytes_eqb k' k); cbn [g_view_props]; now rewrite IH.
  - induction ps as [|[k' y] t IH]; [reflexivity|]. cbn [app g_view_props]. now rewrite IH.
Qed.

Lemma view_gget ps k : get_prop (g_view_props ps) k = option_map g_view (gget_prop ps k).
Proof.
  induction ps as [|[k' y] t IH]; [reflexivity|]. cbn [g_view_props get_prop gget_prop].
  destruct (bytes_eqb k' k); [reflexivity|exact IH].
Qed.

Lemma gwfc_gset ps k x : gwfc_props ps = true -> wf_strb k = true -> gwfc x = true ->
  gwfc_props (gset_prop ps k x) = true.
Proof.
  intros Hps Hk Hx. unfold gset_prop. destruct (ghas_key ps k).
  - induction ps as [|[k' y] t IH]; [reflexivity|]. cbn [gwfc_props] in Hps.
    apply andb_true_iff in Hps. destruct Hps as [Hps Ht]. cbn [map fst].
    destruct (bytes_eqb k' k); cbn [gwfc_props]; rewrite (IH Ht); [rewrite Hk, Hx|rewrite Hps]; reflexivity.
  - induction ps as [|[k' y] t IH]; cbn [app gwfc_props].
    + rewrite Hk, Hx. reflexivity.
    + cbn [gwfc_props] in Hps. apply andb_true_iff in Hps. destruct Hps as [Hps Ht].
      rewrite Hps, (IH Ht). reflexivity.
Qed.

(* ---- paths ---- *)
Lemma gget_wfc ps k x : gwfc_props ps = true -> gget_prop ps k = Some x -> gwfc x = true.
Proof.
  induction ps as [|[k' y] t IH]; [discriminate|]. cbn [gwfc_props gget_prop]. intros Hps H.
  apply andb_true_iff in Hps. destruct Hps as [Hps Ht]. apply andb_true_iff in Hps. destruct Hps as [_ Hy].
  destruct (bytes_eqb k' k); [inversion H; subst; exact Hy|exact (IH Ht H)].
Qed.

Lemma g_at_wfc : forall path g sub, gwfc g = true -> g_at path g = Some sub -> gwfc sub = true.
Proof.
  induction path as [|key rest IH]; intros g sub Hwf H; cbn [g_at] in H.
  - inversion H; subst. exact Hwf.
  - destruct g as [v|k c ps]; [discriminate|].
    destruct (gget_prop ps key) as [x|] eqn:E; [|discriminate].
    rewrite gwfc_cont in Hwf. apply andb_true_iff in Hwf. destruct Hwf as [_ Hps].
    exact (IH x sub (gget_wfc ps key x Hps E) H).
Qed.

Lemma g_update_wfc : forall path f g g',
  (forall h h', f h = Some h' -> gwfc h = true -> gwfc h' = true) ->
  gwfc g = true -> g_update path f g = Some g' -> gwfc g' = true.
Proof.
  induction path as [|key rest IH]; intros f g g' Hf Hwf H; cbn [g_update] in H.
  - exact (Hf g g' H Hwf).
  - destruct g as [v|k c ps]; [discriminate|].
    rewrite gwfc_cont in Hwf. apply andb_true_iff in Hwf. destruct Hwf as [Hkc Hps].
    match type of H with match ?X with _ => _ end = _ => destruct X as [ps'|] eqn:E; [|discriminate] end.
    inversion H; subst. rewrite gwfc_cont, Hkc. cbn [andb].
    clear H. revert ps' E. induction ps as [|[k' x] t IHt]; intros ps' E; [discriminate|].
    cbn [gwfc_props] in Hps. apply andb_true_iff in Hps. destruct Hps as [Hps Ht].
    apply andb_true_iff in Hps. destruct Hps as [Hk' Hx].
    destruct (bytes_eqb k' key).
    + destruct (g_update rest f x) as [x'|] eqn:Ex; [|discriminate]. inversion E; subst.
      cbn [gwfc_props]. rewrite Hk', (IH f x x' Hf Hx Ex), Ht. reflexivity.
    + match type of E with match ?X with _ => _ end = _ => destruct X as [t'|] eqn:Et; [|discriminate] end.
      inversion E; subst. cbn [gwfc_props]. rewrite Hk', Hx, (IHt Ht t' eq_refl). reflexivity.
Qed.

(* ---- values entering the graph ---- *)
Lemma g_of_amf_cont_obj d ps : g_of_amf d (AObj ps) = GCont mObject 0 (g_of_props d ps).
Proof. cbn [g_of_amf]. f_equal. induction ps as [|[k x] t IH]; cbn [g_of_props]; [reflexivity|now rewrite IH]. Qed.
Lemma g_of_amf_cont_ecma d c ps : g_of_amf d (AEcma c ps) = GCont mEcmaArray c (g_of_props d ps).
Proof. cbn [g_of_amf]. f_equal. induction ps as [|[k x] t IH]; cbn [g_of_props]; [reflexivity|now rewrite IH]. Qed.
Lemma g_of_amf_cont_strict d ps :
  g_of_amf d (AStrict ps) = GCont mStrictArray (if d then plen ps else 0) (g_of_props d ps).
Proof. cbn [g_of_amf]. f_equal. induction ps as [|[k x] t IH]; cbn [g_of_props]; [reflexivity|now rewrite IH]. Qed.

Lemma g_of_props_spec d ps :
  Forall (fun kv => wf_amfb (snd kv) = true ->
            gwfc (g_of_amf d (snd kv)) = true /\ g_view (g_of_amf d (snd kv)) = snd kv) ps ->
  wf_propsb ps = true ->
  gwfc_props (g_of_props d ps) = true /\ g_view_props (g_of_props d ps) = ps.
Proof.
  induction 1 as [|[k x] t Hx _ IH]; intros Hwf; [split; reflexivity|].
  cbn [wf_propsb] in Hwf. apply andb_true_iff in Hwf. destruct Hwf as [Hwf Ht].
  apply andb_true_iff in Hwf. destruct Hwf as [Hk Hxw]. cbn [snd] in Hx.
  destruct (Hx Hxw) as [X1 X2]. destruct (IH Ht) as [T1 T2].
  cbn [g_of_props gwfc_props g_view_props]. rewrite Hk, X1, T1, X2, T2. split; reflexivity.
Qed.

Lemma g_of_amf_spec d v : wf_amf v -> gwfc (g_of_amf d v) = true /\ g_view (g_of_amf d v) = v.
Proof.
  unfold wf_amf.
  induction v as [b|b|s|ps IH| | |c ps IH|ps IH] using amf_ind'; intros Hwf;
    try (split; [exact Hwf|reflexivity]).
  - rewrite wf_obj in Hwf. destruct (g_of_props_spec d ps IH Hwf) as [P1 P2].
    rewrite g_of_amf_cont_obj, gwfc_cont, g_view_cont, P1, P2. split; reflexivity.
  - rewrite wf_ecma in Hwf. apply andb_true_iff in Hwf. destruct Hwf as [Hc Hps].
    destruct (g_of_props_spec d ps IH Hps) as [P1 P2].
    rewrite g_of_amf_cont_ecma, gwfc_cont, g_view_cont, P1, P2, Hc. split; reflexivity.
  - rewrite wf_strict in Hwf. apply andb_true_iff in Hwf. destruct Hwf as [Hc Hps].
    destruct (g_of_props_spec d ps IH Hps) as [P1 P2].
    rewrite g_of_amf_cont_strict, gwfc_cont, g_view_cont, P1, P2. split; [|reflexivity].
    destruct d; [rewrite Hc|]; reflexivity.
Qed.

(* ---- what a (possibly rejected) UnmarshalBinary leaves in the receiver ---- *)
Lemma wf_propsb_app a b : wf_propsb (a ++ b) = wf_propsb a && wf_propsb b.
Proof.
  induction a as [|[k x] t IH]; [reflexivity|]. cbn [app wf_propsb]. rewrite IH.
  now rewrite !andb_assoc.
Qed.

Lemma wf_propsb_rev ps : wf_propsb ps = true -> wf_propsb (rev ps) = true.
Proof.
  induction ps as [|[k x] t IH]; [reflexivity|]. cbn [wf_propsb rev]. intros H.
  apply andb_true_iff in H. destruct H as [H Ht]. rewrite wf_propsb_app, (IH Ht). cbn [wf_propsb].
  rewrite H. reflexivity.
Qed.

Lemma g_of_props_wfc d ps : wf_propsb ps = true -> gwfc_props (g_of_props d ps) = true.
Proof.
  induction ps as [|[k x] t IH]; [reflexivity|]. cbn [wf_propsb g_of_props gwfc_props]. intros H.
  apply andb_true_iff in H. destruct H as [H Ht]. apply andb_true_iff in H. destruct H as [Hk Hx].
  destruct (g_of_amf_spec d x Hx) as [A _]. rewrite Hk, A, (IH Ht). reflexivity.
Qed.

(* every exit of objectBase.unmarshal -- success or any rejection point -- leaves well-formed
   completed pairs in the receiver *)
Lemma dec_props_st_wf : forall f eof maxn p racc n sz,
  wf_bytes p -> wf_propsb racc = true ->
  wf_propsb (fst (dec_props_st f eof maxn p racc n sz)) = true.
Proof.
  induction f as [|f IH]; intros eof maxn p racc n sz Hp Hr; cbn [dec_props_st].
  - apply wf_propsb_rev. exact Hr.
  - destruct (negb eof && (maxn <=? n)); [apply wf_propsb_rev; exact Hr|].
    destruct (um_utf8 p) as [[k p1]|e|s] eqn:Eu; try (apply wf_propsb_rev; exact Hr).
    apply um_utf8_ok in Eu. destruct Eu as (h & l & -> & Hk).
    apply wf_bytes_cons in Hp. destruct Hp as [Hh Hp]. apply wf_bytes_cons in Hp. destruct Hp as [Hl Hp].
    apply wf_bytes_app in Hp. destruct Hp as [Hkb Hp1].
    destruct (eof && is_eof k p1); [apply wf_propsb_rev; exact Hr|].
    destruct (dec f p1) as [[v vs]|e|s] eqn:Ed; try (apply wf_propsb_rev; exact Hr).
    pose proof (amf0_dec_wf _ _ _ _ Hp1 Ed) as Hv.
    destruct (takeN vs p1) as [[a p2]|] eqn:Et; [|apply wf_propsb_rev; exact Hr].
    apply takeN_some in Et. destruct Et as [-> _]. apply wf_bytes_app in Hp1. destruct Hp1 as [_ Hp2].
    apply IH; [exact Hp2|]. cbn [wf_propsb]. rewrite Hr, Hv, wf_strb_intro; [reflexivity| |exact Hkb].
    pose proof (ube2_bound h l Hh Hl). lia.
Qed.

Lemma g_unmarshal_cont_wfc k c ps f p :
  gwfc (GCont k c ps) = true -> wf_bytes p -> gwfc (fst (g_unmarshal_cont k c ps f p)) = true.
Proof.
  intros Hg Hp. pose proof Hg as Hg0. rewrite gwfc_cont in Hg.
  apply andb_true_iff in Hg. destruct Hg as [Hg _]. apply andb_true_iff in Hg. destruct Hg as [Hk Hc].
  unfold g_unmarshal_cont. destruct (k =? mObject).
  { destruct p as [|m r]; [exact Hg0|]. destruct (negb (m =? mObject)); [exact Hg0|].
    apply wf_bytes_cons in Hp. destruct Hp as [_ Hr].
    pose proof (dec_props_st_wf (f) true 0 r [] 0 0 Hr eq_refl) as Hw.
    destruct (dec_props_st f true 0 r [] 0 0) as [ps' st]. cbn [fst] in *.
    rewrite gwfc_cont, Hk, Hc, (g_of_props_wfc true ps' Hw). reflexivity. }
  destruct (k =? mEcmaArray).
  { destruct p as [|m [|a [|b [|c0 [|d r]]]]]; try exact Hg0.
    destruct (negb (m =? mEcmaArray)); [exact Hg0|].
    repeat (apply wf_bytes_cons in Hp; destruct Hp as [? Hp]).
    pose proof (dec_props_st_wf f true 0 r [] 0 0 Hp eq_refl) as Hw.
    destruct (dec_props_st f true 0 r [] 0 0) as [ps' st]. cbn [fst] in *.
    rewrite gwfc_cont, Hk, (g_of_props_wfc true ps' Hw).
    pose proof (ube4_bound a b c0 d). replace (ube4 a b c0 d <? 4294967296) with true by lia. reflexivity. }
  destruct p as [|m [|a [|b [|c0 [|d r]]]]]; try exact Hg0.
  destruct (negb (m =? mStrictArray)); [exact Hg0|].
  repeat (apply wf_bytes_cons in Hp; destruct Hp as [? Hp]).
  pose proof (ube4_bound a b c0 d) as Hb. cbv zeta.
  destruct (ube4 a b c0 d =? 0) eqn:E0.
  { cbn [fst]. rewrite gwfc_cont, Hk. cbn [gwfc_props]. replace (ube4 a b c0 d <? 4294967296) with true by lia. reflexivity. }
  pose proof (dec_props_st_wf f false (ube4 a b c0 d) r [] 0 0 Hp eq_refl) as Hw.
  destruct (dec_props_st f false (ube4 a b c0 d) r [] 0 0) as [ps' st]. cbn [fst] in *.
  rewrite gwfc_cont, Hk, (g_of_props_wfc true ps' Hw).
  replace (ube4 a b c0 d <? 4294967296) with true by lia. reflexivity.
Qed.

Lemma g_unmarshal_wfc g f p : gwfc g = true -> wf_bytes p -> gwfc (fst (g_unmarshal g f p)) = true.
Proof.
  intros Hg Hp. destruct g as [v|k c ps]; cbn [g_unmarshal]; [|apply g_unmarshal_cont_wfc; assumption].
  cbn [gwfc] in Hg. destruct (g_of_amf_spec false v Hg) as [A _].
  destruct (g_of_amf false v) as [v0|k c ps]; [|apply g_unmarshal_cont_wfc; assumption].
  destruct (um_into v f p) as [[v' n]|e|s] eqn:E; cbn [fst gwfc]; try exact Hg.
  apply um_into_dec in E. exact (amf0_dec_wf _ _ _ _ Hp E).
Qed.

(* [dec_props_st] is [dec_props] that also reports the receiver's property list on rejection *)
Lemma dec_props_st_spec : forall f eof maxn p racc n sz,
  match dec_props f eof maxn p racc n sz with
  | Ok (ps, sz') => dec_props_st f eof maxn p racc n sz = (ps, Ok sz')
  | Err e => snd (dec_props_st f eof maxn p racc n sz) = Err e
  | Panic s => snd (dec_props_st f eof maxn p racc n sz) = Panic s
  end.
Proof.
  induction f as [|f IH]; intros eof maxn p racc n sz; [reflexivity|].
  rewrite dec_props_S. cbn [dec_props_st].
  destruct (negb eof && (maxn <=? n)); [reflexivity|].
  destruct (um_utf8 p) as [[k p1]|e|s]; try reflexivity.
  destruct (eof && is_eof k p1); [reflexivity|].
  destruct (dec f p1) as [[v vs]|e|s]; try reflexivity.
  destruct (takeN vs p1) as [[a p2]|]; [apply IH|reflexivity].
Qed.

Lemma dec_props_st_ok f eof maxn p racc n sz ps sz' :
  dec_props_st f eof maxn p racc n sz = (ps, Ok sz') -> dec_props f eof maxn p racc n sz = Ok (ps, sz').
Proof.
  intros H. pose proof (dec_props_st_spec f eof maxn p racc n sz) as S.
  destruct (dec_props f eof maxn p racc n sz) as [[ps0 sz0]|e|s].
  - rewrite S in H. inversion H. reflexivity.
  - rewrite H in S. discriminate.
  - rewrite H in S. discriminate.
Qed.

Lemma g_view_of_props d ps :
  Forall (fun kv => g_view (g_of_amf d (snd kv)) = snd kv) ps -> g_view_props (g_of_props d ps) = ps.
Proof.
  induction 1 as [|[k x] t Hx _ IH]; [reflexivity|]. cbn [g_of_props g_view_props snd] in *.
  now rewrite Hx, IH.
Qed.

Lemma g_view_of_amf d v : g_view (g_of_amf d v) = v.
Proof.
  induction v as [b|b|s|ps IH| | |c ps IH|ps IH] using amf_ind'; try reflexivity.
  - rewrite g_of_amf_cont_obj, g_view_cont, (g_view_of_props d ps IH). reflexivity.
  - rewrite g_of_amf_cont_ecma, g_view_cont, (g_view_of_props d ps IH). reflexivity.
  - rewrite g_of_amf_cont_strict, g_view_cont, (g_view_of_props d ps IH). reflexivity.
Qed.

Lemma g_view_props_of d ps : g_view_props (g_of_props d ps) = ps.
Proof. apply g_view_of_props. apply Forall_forall. intros kv _. apply g_view_of_amf. Qed.

(* a successful UnmarshalBinary ON an object of the graph -- whatever the object held, including
   the state left by an earlier rejected call -- replaces its value by exactly what
   Discovery + UnmarshalBinary on a fresh value yields *)
Lemma g_unmarshal_cont_ok k c ps f p g' n : is_cont_kind k = true ->
  g_unmarshal_cont k c ps f p = (g', Ok n) -> dec (S f) p = Ok (g_view g', n).
Proof.
  intros Hk. unfold g_unmarshal_cont.
  destruct (cont_kind_cases k Hk) as [->|[->| ->]].
  - change (mObject =? mObject) with true. cbv iota.
    destruct p as [|m r]; [discriminate|]. destruct (N.eqb_spec m mObject) as [->|]; cbn [negb]; [|discriminate].
    destruct (dec_props_st f true 0 r [] 0 0) as [ps' st] eqn:E. destruct st as [sz|e|s]; cbn [res_add]; try discriminate.
    intros H. inversion H; subst. apply dec_props_st_ok in E.
    rewrite dec_obj, um_object_eq, E. cbv beta iota delta [bind].
    rewrite g_view_cont, g_view_props_of. reflexivity.
  - change (mEcmaArray =? mObject) with false. change (mEcmaArray =? mEcmaArray) with true. cbv iota.
    destruct p as [|m [|a [|b [|c0 [|d r]]]]]; try discriminate.
    destruct (N.eqb_spec m mEcmaArray) as [->|]; cbn [negb]; [|discriminate].
    destruct (dec_props_st f true 0 r [] 0 0) as [ps' st] eqn:E. destruct st as [sz|e|s]; cbn [res_add]; try discriminate.
    intros H. inversion H; subst. apply dec_props_st_ok in E.
    rewrite dec_ecma, um_ecma_eq, E. cbv beta iota delta [bind].
    rewrite g_view_cont, g_view_props_of. reflexivity.
  - change (mStrictArray =? mObject) with false. change (mStrictArray =? mEcmaArray) with false. cbv iota.
    destruct p as [|m [|a [|b [|c0 [|d r]]]]]; try discriminate.
    destruct (N.eqb_spec m mStrictArray) as [->|]; cbn [negb]; [|discriminate].
    rewrite dec_strict, um_strict_eq. cbv zeta. destruct (ube4 a b c0 d =? 0).
    { intros H. inversion H; subst. reflexivity. }
    destruct (dec_props_st f false (ube4 a b c0 d) r [] 0 0) as [ps' st] eqn:E.
    destruct st as [sz|e|s]; cbn [res_add]; try discriminate.
    intros H. inversion H; subst. apply dec_props_st_ok in E.
    rewrite E. cbv beta iota delta [bind]. rewrite g_view_cont, g_view_props_of. reflexivity.
Qed.

Theorem decode_into_ok g f p g' n : gwfc g = true ->
  g_unmarshal g f p = (g', Ok n) -> dec (S f) p = Ok (g_view g', n).
Proof.
  intros Hg. destruct g as [v|k c ps]; cbn [g_unmarshal].
  - cbn [gwfc] in Hg. destruct (g_of_amf_spec false v Hg) as [A _].
    destruct (g_of_amf false v) as [v0|k c ps].
    + destruct (um_into v f p) as [[v' n']|e|s] eqn:E; try discriminate.
      intros H. inversion H; subst. exact (um_into_dec _ _ _ _ _ E).
    + rewrite gwfc_cont in A. apply andb_true_iff in A. destruct A as [A _].
      apply andb_true_iff in A. destruct A as [Hk _]. apply g_unmarshal_cont_ok. exact Hk.
  - rewrite gwfc_cont in Hg. apply andb_true_iff in Hg. destruct Hg as [Hg _].
    apply andb_true_iff in Hg. destruct Hg as [Hk _]. apply g_unmarshal_cont_ok. exact Hk.
Qed.

(* the receiver after a rejection: scalars untouched; a container whose header was rejected
   untouched; otherwise the header count is stored and the completed pairs are kept *)
Theorem decode_into_rejected_scalar v f p e :
  g_of_amf false v = GLeaf v -> g_unmarshal (GLeaf v) f p = (fst (g_unmarshal (GLeaf v) f p), Err e) ->
  fst (g_unmarshal (GLeaf v) f p) = GLeaf v.
Proof.
  intros Hs. cbn [g_unmarshal]. rewrite Hs.
  destruct (um_into v f p) as [[v' n]|e'|s]; cbn [fst]; [discriminate|reflexivity|reflexivity].
Qed.

(* ---- one operation, then any sequence ---- *)
Definition op_wf (op : hop) : bool :=
  match op with
  | HSet _ key x => wf_strb key && gwfc x
  | HUnmarshal _ b => wf_bytesb b
  | HDecodeInto _ b => wf_bytesb b
  | _ => true
  end.

Lemma wf_bytesb_spec b : wf_bytesb b = true -> wf_bytes b.
Proof.
  unfold wf_bytesb, wf_bytes. rewrite forallb_forall, Forall_forall. intros H x Hx.
  apply H in Hx. unfold wf_byteb, wf_byte in *. lia.
Qed.

Lemma um_kind_wf k b v n : wf_bytes b -> um_kind k b = Ok (v, n) -> wf_amf v.
Proof.
  unfold um_kind. intros Hb. destruct (k =? mObject); [apply um_object_wf; exact Hb|].
  destruct (k =? mEcmaArray); [apply um_ecma_wf; exact Hb|apply um_strict_wf; exact Hb].
Qed.

Lemma h_step_wfc g op : gwfc g = true -> op_wf op = true -> gwfc (fst (h_step g op)) = true.
Proof.
  intros Hg Hop. destruct op as [k|path key x|path|k b|path key|path|path b]; cbn [h_step].
  - destruct (is_cont_kind k) eqn:Ek; cbn [fst]; [|exact Hg]. rewrite gwfc_cont, Ek. reflexivity.
  - cbn [op_wf] in Hop. apply andb_true_iff in Hop. destruct Hop as [Hkey Hx].
    destruct (g_update path (set_at key x) g) as [g'|] eqn:E; cbn [fst]; [|exact Hg].
    apply (g_update_wfc path (set_at key x) g g'); [|exact Hg|exact E].
    intros h h' Hset Hh. destruct h as [v|k c ps]; [discriminate|]. inversion Hset; subst.
    rewrite gwfc_cont in *. apply andb_true_iff in Hh. destruct Hh as [Hkc Hps].
    rewrite Hkc, (gwfc_gset ps key x Hps Hkey Hx). reflexivity.
  - destruct (g_at path g) as [sub|] eqn:Ea; cbn [fst]; [|exact Hg].
    pose proof (g_at_wfc path g sub Hg Ea) as Hsub.
    destruct (marshal_spec sub Hsub) as (_ & _ & Hw' & _).
    destruct (g_marshal sub) as [b sub'] eqn:Em. cbn [snd] in Hw'.
    destruct (g_update path (fun _ => Some sub') g) as [g'|] eqn:E; cbn [fst]; [|exact Hg].
    apply (g_update_wfc path (fun _ => Some sub') g g'); [|exact Hg|exact E].
    intros h h' Hh _. inversion Hh; subst. exact Hw'.
  - cbn [op_wf] in Hop. destruct (is_cont_kind k); cbn [fst]; [|exact Hg].
    destruct (um_kind k b) as [[v n]|e|s] eqn:E; cbn [fst]; try exact Hg.
    apply g_of_amf_spec. exact (um_kind_wf k b v n (wf_bytesb_spec b Hop) E).
  - destruct (g_at path g) as [[v|k c ps]|]; try exact Hg.
    destruct (gget_prop ps key); exact Hg.
  - destruct (g_at path g) as [[v|k c ps]|]; exact Hg.
  - cbn [op_wf] in Hop. destruct (g_at path g) as [sub|] eqn:Ea; cbn [fst]; [|exact Hg].
    pose proof (g_at_wfc path g sub Hg Ea) as Hsub.
    pose proof (g_unmarshal_wfc sub (dec_fuel b) b Hsub (wf_bytesb_spec b Hop)) as Hw'.
    destruct (g_unmarshal sub (dec_fuel b) b) as [sub' r]. cbn [fst] in Hw'.
    destruct (g_update path (fun _ => Some sub') g) as [g'|] eqn:E; cbn [fst]; [|exact Hg].
    apply (g_update_wfc path (fun _ => Some sub') g g'); [|exact Hg|exact E].
    intros h h' Hh _. inversion Hh; subst. exact Hw'.
Qed.

Theorem h_run_wfc ops : forall g, gwfc g = true -> forallb op_wf ops = true -> gwfc (h_run g ops) = true.
Proof.
  induction ops as [|op t IH]; intros g Hg Hops; [exact Hg|].
  cbn [forallb] in Hops. apply andb_true_iff in Hops. destruct Hops as [Hop Ht].
  cbn [h_run]. apply IH; [apply h_step_wfc; assumption|exact Ht].
Qed.

(* The history theorem.  After ANY sequence of operations (arguments well-formed: keys <= 65535
   bytes, inserted values representable, unmarshalled inputs are bytes), for EVERY object sub of
   the graph (top level or nested, whatever its stored count is at that moment) that has fewer
   than 2^32 properties per container:  MarshalBinary yields exactly enc of its current value --
   Size() bytes, a strict array's count on the wire equal to its number of properties --, those
   bytes followed by anything decode to the current value (property lists in order) with
   Size() = bytes consumed, marshalling does not change the value, leaves every strict count
   equal to the number of properties, and marshalling again reproduces the bytes. *)
Theorem history_marshal ops path sub :
  forallb op_wf ops = true ->
  g_at path (h_run g0 ops) = Some sub -> gsmall sub = true ->
  let b := fst (g_marshal sub) in
  let sub' := snd (g_marshal sub) in
  b = enc (g_view sub) /\
  lenN b = size (g_view sub) /\
  (forall rest, decode (b ++ rest) = Ok (g_view sub, size (g_view sub))) /\
  (forall c ps, sub = GCont mStrictArray c ps ->
     b = mStrictArray :: be4 (gplen ps) ++ enc_props (g_view_props ps)) /\
  g_view sub' = g_view sub /\ gsynced sub' = true /\ fst (g_marshal sub') = b.
Proof.
  intros Hops Hat Hsm b sub'.
  assert (Hg : gwfc (h_run g0 ops) = true) by (apply h_run_wfc; [reflexivity|exact Hops]).
  pose proof (g_at_wfc path _ sub Hg Hat) as Hsub.
  destruct (marshal_spec sub Hsub) as (M1 & M2 & _ & _ & M5 & M6).
  pose proof (gwf_view sub Hsub Hsm) as Hwf.
  subst b sub'. split; [exact M1|]. split; [rewrite M1; apply amf0_size_enc|].
  split.
  { intros rest. rewrite M1. unfold decode, dec_fuel. apply amf0_dec_enc; [exact Hwf|].
    rewrite app_length. lia. }
  split.
  { intros c ps ->. rewrite M1, g_view_cont. unfold mk_cont.
    change (mStrictArray =? mObject) with false. change (mStrictArray =? mEcmaArray) with false. cbv iota.
    rewrite enc_strict, view_props_len. rewrite gsmall_cont in Hsm.
    apply andb_true_iff in Hsm. destruct Hsm as [Hlen _]. unfold u32.
    replace (gplen ps mod 4294967296) with (gplen ps) by lia. reflexivity. }
  split; [exact M2|]. split; [exact M5|]. rewrite M6. reflexivity.
Qed.

(* what Set does to the current value: objectBase.Set on the views (so c05_set_keys applies) *)
Theorem history_set k c ps key x :
  g_view (GCont k c (gset_prop ps key x)) = mk_cont k c (set_prop (g_view_props ps) key (g_view x)).
Proof. rewrite g_view_cont, view_gset. reflexivity. Qed.

(* a freshly unmarshalled value enters the graph unchanged, with synced strict counts *)
Theorem history_unmarshal k b v n : wf_bytes b -> um_kind k b = Ok (v, n) ->
  g_view (g_of_amf true v) = v /\ gwfc (g_of_amf true v) = true.
Proof. intros Hb H. destruct (g_of_amf_spec true v (um_kind_wf k b v n Hb H)) as [A B]. split; assumption. Qed.

(* non-vacuity: StrictArray: Set, Marshal, Set a new key, Set replacing a key, Marshal again *)
Example history_example :
  let ops := [HNew mStrictArray; HSet [] [97] (GLeaf ANull); HMarshal [];
              HSet [] [98] (GCont mStrictArray 0 []); HSet [[98]] [120] (GLeaf (ABool true));
              HSet [] [97] (GLeaf AUndef); HMarshal []] in
  forallb op_wf ops = true /\
  fst (g_marshal (h_run g0 ops)) =
    [10; 0;0;0;2; 0;1;97; 6; 0;1;98; 10; 0;0;0;1; 0;1;120; 1;1] /\
  h_run g0 ops = GCont mStrictArray 2 [([97], GLeaf AUndef); ([98], GCont mStrictArray 1 [([120], GLeaf (ABool true))])].
Proof. vm_compute. repeat split; reflexivity. Qed.

(* the error state and its use: a StrictArray receives header count 4 with one complete element
   and a second one cut short: it keeps count 4 and the one element (rejected, class 1).  Two Sets
   later it has 3 properties and still count 4; MarshalBinary writes 3, inside a parent too. *)
Example history_error_state :
  let bad := [10; 0;0;0;4; 0;1;120; 5; 0;1;121; 2;0] in
  let ops := [HNew mObject; HSet [] [115] (GCont mStrictArray 0 []); HSet [] [122] (GLeaf (ABool true));
              HDecodeInto [[115]] bad] in
  let g := h_run g0 ops in
  forallb op_wf ops = true /\
  snd (g_unmarshal (GCont mStrictArray 0 []) (dec_fuel bad) bad) = Err E_SHORT /\
  g_at [[115]] g = Some (GCont mStrictArray 4 [([120], GLeaf ANull)]) /\
  let g2 := h_run g [HSet [[115]] [98] (GLeaf AUndef); HSet [[115]] [99] (GLeaf ANull)] in
  g_at [[115]] g2 = Some (GCont mStrictArray 4 [([120], GLeaf ANull); ([98], GLeaf AUndef); ([99], GLeaf ANull)]) /\
  fst (g_marshal g2) =
    [3; 0;1;115; 10; 0;0;0;3; 0;1;120; 5; 0;1;98; 6; 0;1;99; 5; 0;1;122; 1;1; 0;0;9].
Proof. vm_compute. repeat split; reflexivity. Qed.
