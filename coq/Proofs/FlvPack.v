(* Proofs for the FLV audio/video packager model (C10). *)
From Verif Require Import Lib.Base Lib.Sx Model.Flv Proofs.Flv.
From Verif Require Import Gen.Gen_flv.
Open Scope N_scope.
Ltac Zify.zify_post_hook ::= Z.div_mod_to_equations.

(* ---------- finite sweeps ---------- *)
Definition rangeN (n : nat) : list N := map N.of_nat (seq 0 n).

Lemma In_rangeN x n : x < N.of_nat n -> In x (rangeN n).
Proof.
  intros H. unfold rangeN. apply in_map_iff. exists (N.to_nat x). split; [lia|].
  apply in_seq. lia.
Qed.

Lemma sweep1 (P : N -> bool) n : forallb P (rangeN n) = true -> forall x, x < N.of_nat n -> P x = true.
Proof. intros H x Hx. rewrite forallb_forall in H. apply H. now apply In_rangeN. Qed.

(* ---------- audio: first byte ---------- *)
Definition afirst (fmt rate size typ : N) : N := audio_first (mk_aframe fmt rate size typ 0 0 []).

Lemma audio_first_afirst f : audio_first f = afirst (a_fmt f) (a_rate f) (a_size f) (a_type f).
Proof. reflexivity. Qed.

(* every format x every uint8 rate x size x channels: the first byte is a byte, its four
   fields read back as the frame's (the rate field as rate mod 4, and as 0 for Opus) *)
Definition afirst_ok (fmt rate size typ : N) : bool :=
  let b := afirst fmt rate size typ in
  (b <? 256) && ((b / 16) mod 16 =? fmt)
  && ((b / 4) mod 4 =? (if fmt =? aOpus then 0 else rate mod 4))
  && ((b / 2) mod 2 =? size) && (b mod 2 =? typ).

Lemma afirst_sweep :
  forallb (fun fmt => forallb (fun rate => forallb (fun size => forallb (fun typ =>
    afirst_ok fmt rate size typ) (rangeN 2)) (rangeN 2)) (rangeN 256)) (rangeN 16) = true.
Proof. vm_compute. reflexivity. Qed.

Lemma afirst_spec fmt rate size typ :
  fmt < 16 -> rate < 256 -> size < 2 -> typ < 2 ->
  let b := afirst fmt rate size typ in
  b < 256 /\ (b / 16) mod 16 = fmt /\ (b / 4) mod 4 = (if fmt =? aOpus then 0 else rate mod 4)
  /\ (b / 2) mod 2 = size /\ b mod 2 = typ.
Proof.
  intros Hf Hr Hs Ht b.
  pose proof (sweep1 _ _ (sweep1 _ _ (sweep1 _ _ (sweep1 _ _ afirst_sweep fmt Hf) rate Hr) size Hs) typ Ht) as H.
  unfold afirst_ok in H. fold b in H.
  repeat (apply andb_prop in H; destruct H as [H ?]).
  repeat match goal with H : (_ =? _) = true |- _ => apply N.eqb_eq in H
                    | H : (_ <? _) = true |- _ => apply N.ltb_lt in H end.
  auto.
Qed.

(* every byte is the first byte of the frame made of its own fields (for Opus: of any rate,
   provided the byte's unused rate bits are zero) *)
Definition abyte_ok (b0 r : N) : bool :=
  let fmt := (b0 / 16) mod 16 in
  if fmt =? aOpus
  then implb ((b0 / 4) mod 4 =? 0) (afirst fmt r ((b0 / 2) mod 2) (b0 mod 2) =? b0)
  else afirst fmt ((b0 / 4) mod 4) ((b0 / 2) mod 2) (b0 mod 2) =? b0.

Lemma abyte_sweep : forallb (fun b0 => forallb (fun r => abyte_ok b0 r) (rangeN 256)) (rangeN 256) = true.
Proof. vm_compute. reflexivity. Qed.

Lemma abyte_spec b0 r : b0 < 256 -> r < 256 -> abyte_ok b0 r = true.
Proof. intros Hb Hr. exact (sweep1 _ _ (sweep1 _ _ abyte_sweep b0 Hb) r Hr). Qed.

(* ---------- audio: frames the round trip is stated for ---------- *)
(* Fields inside their bit widths.  The trait byte exists only for AAC and Opus.  An Opus frame
   carries its sampling rate only in the optional rate byte (SR flag; any uint8 code), its
   audio level only with the AL flag (any uint16).  All other formats have a 2-bit rate and
   need one payload byte, because the decoder refuses bodies shorter than 2 bytes. *)
Definition wf_aframe (f : aframe) : Prop :=
  a_fmt f < 16 /\ a_size f < 2 /\ a_type f < 2 /\
  (if a_fmt f =? aAAC then a_rate f < 4 /\ a_level f = 0
   else if a_fmt f =? aOpus then
     (if has_flag (a_trait f) tSR then a_rate f < 256 else a_rate f = 0) /\
     (if has_flag (a_trait f) tAL then a_level f < 65536 else a_level f = 0)
   else a_rate f < 4 /\ a_trait f = 0 /\ a_level f = 0 /\ a_raw f <> []).

Lemma lenN_cons2 (x y : N) t : (lenN (x :: y :: t) <? 2) = false.
Proof. rewrite lenN_length. cbn [length]. apply N.ltb_ge. lia. Qed.

Lemma lenN_cons1 (x : N) t : (lenN (x :: t) <? 1) = false.
Proof. rewrite lenN_length. cbn [length]. apply N.ltb_ge. lia. Qed.

Lemma ube2_be2 n : n < 65536 -> ube2 (u8 (n / 256)) (u8 n) = n.
Proof. intros H. unfold ube2, u8. lia. Qed.

(* the two formats with a trait byte are different codes (re-checked against the source) *)
Lemma aac_not_opus : (aAAC =? aOpus) = false.
Proof. reflexivity. Qed.

Theorem audio_dec_enc f : wf_aframe f -> audio_dec (audio_enc f) = Ok f.
Proof.
  destruct f as [fmt rate size typ tr lv raw]. unfold wf_aframe. cbn [a_fmt a_rate a_size a_type a_trait a_level a_raw].
  intros (Hf & Hs & Ht & Hc).
  assert (Hrate : rate < 256).
  { destruct (fmt =? aAAC); [lia|]. destruct (fmt =? aOpus); [|lia].
    destruct Hc as [Hc _]. destruct (has_flag tr tSR); lia. }
  destruct (afirst_spec fmt rate size typ Hf Hrate Hs Ht) as (Hb & F1 & F2 & F3 & F4).
  unfold audio_enc, audio_dec. rewrite audio_first_afirst.
  cbn [a_fmt a_rate a_size a_type a_trait a_level a_raw].
  set (h := afirst fmt rate size typ) in *. clearbody h.
  destruct (fmt =? aAAC) eqn:EA.
  - assert (EO : (fmt =? aOpus) = false).
    { apply N.eqb_eq in EA. rewrite EA. exact aac_not_opus. }
    rewrite EO in F2.
    rewrite lenN_cons2. cbn [idx nth_error bind slice_from drop]. rewrite F1, F2, F3, F4, EA.
    cbn [bind]. destruct Hc as [Hr ->].
    replace (rate mod 4) with rate by lia. reflexivity.
  - destruct (fmt =? aOpus) eqn:EO.
    + rewrite lenN_cons2. cbn [idx nth_error bind slice_from drop]. rewrite F1, F2, F3, F4, EA, EO.
      cbn [bind]. destruct Hc as [Hr Hl].
      destruct (has_flag tr tSR) eqn:ESR; destruct (has_flag tr tAL) eqn:EAL; cbn [app];
        rewrite ?lenN_cons1, ?lenN_cons2; cbn [idx nth_error bind slice_from drop];
        rewrite ?lenN_cons2; cbn [idx nth_error bind slice_from drop];
        rewrite ?ube2_be2 by assumption; subst; reflexivity.
    + destruct Hc as (Hr & -> & -> & Hraw). destruct raw as [|x raw]; [congruence|].
      rewrite lenN_cons2. cbn [idx nth_error bind slice_from drop]. rewrite F1, F2, F3, F4, EA, EO.
      cbn [bind]. replace (rate mod 4) with rate by lia. reflexivity.
Qed.

(* the sound format and the other header fields are readable in the first byte *)
Theorem audio_first_byte f : a_fmt f < 16 -> a_rate f < 256 -> a_size f < 2 -> a_type f < 2 ->
  exists b rest, audio_enc f = b :: rest /\ b < 256 /\
    (b / 16) mod 16 = a_fmt f /\ (b / 2) mod 2 = a_size f /\ b mod 2 = a_type f /\
    (b / 4) mod 4 = (if a_fmt f =? aOpus then 0 else a_rate f mod 4).
Proof.
  intros Hf Hr Hs Ht.
  destruct (afirst_spec _ _ _ _ Hf Hr Hs Ht) as (Hb & F1 & F2 & F3 & F4).
  rewrite <- audio_first_afirst in *.
  unfold audio_enc. destruct (a_fmt f =? aAAC); [|destruct (a_fmt f =? aOpus)]; eexists; eexists;
    (split; [reflexivity|]); auto.
Qed.

(* ---------- audio: canonical bodies re-encode to themselves ---------- *)
(* canonical: an Opus body keeps the two rate bits of the first byte, which the packager does
   not use for Opus, zero; every other accepted body is canonical *)
Definition canonical_abody (b : bytes) : Prop :=
  match b with
  | b0 :: _ => ((b0 / 16) mod 16 =? aOpus) = true -> (b0 / 4) mod 4 = 0
  | [] => True
  end.

Lemma wf_cons x t : wf_bytes (x :: t) -> x < 256 /\ wf_bytes t.
Proof. intros H. inversion H; subst. auto. Qed.

Theorem audio_enc_dec b f : wf_bytes b -> canonical_abody b -> audio_dec b = Ok f -> audio_enc f = b.
Proof.
  intros Hw Hc Hd. unfold audio_dec in Hd.
  destruct b as [|b0 [|b1 p]]; [discriminate Hd|discriminate Hd|].
  rewrite lenN_cons2 in Hd. cbn [idx nth_error bind] in Hd.
  apply wf_cons in Hw. destruct Hw as [H0 Hw]. apply wf_cons in Hw. destruct Hw as [H1 Hw].
  cbn [canonical_abody] in Hc.
  set (fmt := (b0 / 16) mod 16) in *.
  destruct (fmt =? aAAC) eqn:EA.
  - cbn [slice_from drop bind] in Hd. inversion Hd; subst f. clear Hd.
    unfold audio_enc. cbn [a_fmt a_trait a_raw]. rewrite EA. rewrite audio_first_afirst.
    cbn [a_fmt a_rate a_size a_type].
    pose proof (abyte_spec b0 0 H0 ltac:(lia)) as Hb. unfold abyte_ok in Hb. fold fmt in Hb.
    destruct (fmt =? aOpus) eqn:EO.
    + (* a generated constant change could make AAC = Opus; the statement still holds *)
      apply N.eqb_eq in EA, EO. rewrite (Hc eq_refl) in *.
      rewrite N.eqb_refl in Hb. cbn [implb] in Hb. apply N.eqb_eq in Hb. now rewrite Hb.
    + apply N.eqb_eq in Hb. now rewrite Hb.
  - destruct (fmt =? aOpus) eqn:EO.
    + specialize (Hc eq_refl).
      cbn [slice_from drop bind] in Hd.
      assert (Hfirst : forall r, r < 256 -> afirst fmt r ((b0 / 2) mod 2) (b0 mod 2) = b0).
      { intros r Hr. pose proof (abyte_spec b0 r H0 Hr) as Hb. unfold abyte_ok in Hb. fold fmt in Hb.
        rewrite EO, Hc, N.eqb_refl in Hb. cbn [implb] in Hb. now apply N.eqb_eq in Hb. }
      destruct (has_flag b1 tSR) eqn:ESR.
      * destruct p as [|r q]; [discriminate Hd|]. rewrite lenN_cons1 in Hd.
        cbn [idx nth_error slice_from drop bind] in Hd.
        apply wf_cons in Hw. destruct Hw as [Hr Hw].
        destruct (has_flag b1 tAL) eqn:EAL.
        -- destruct q as [|l0 [|l1 q']]; [discriminate Hd|discriminate Hd|].
           rewrite lenN_cons2 in Hd. cbn [idx nth_error slice_from drop bind] in Hd.
           inversion Hd; subst f. clear Hd.
           apply wf_cons in Hw. destruct Hw as [Hl0 Hw]. apply wf_cons in Hw. destruct Hw as [Hl1 Hw].
           unfold audio_enc. cbn [a_fmt a_rate a_trait a_level a_raw]. rewrite EA, EO, ESR, EAL.
           rewrite audio_first_afirst. cbn [a_fmt a_rate a_size a_type]. rewrite (Hfirst r Hr).
           cbn [app]. unfold ube2, u8.
           replace ((l0 * 256 + l1) / 256 mod 256) with l0 by lia.
           replace ((l0 * 256 + l1) mod 256) with l1 by lia. reflexivity.
        -- cbn [bind] in Hd. inversion Hd; subst f. clear Hd.
           unfold audio_enc. cbn [a_fmt a_rate a_trait a_level a_raw]. rewrite EA, EO, ESR, EAL.
           rewrite audio_first_afirst. cbn [a_fmt a_rate a_size a_type]. rewrite (Hfirst r Hr).
           reflexivity.
      * cbn [bind] in Hd.
        destruct (has_flag b1 tAL) eqn:EAL.
        -- destruct p as [|l0 [|l1 q']]; [discriminate Hd|discriminate Hd|].
           rewrite lenN_cons2 in Hd. cbn [idx nth_error slice_from drop bind] in Hd.
           inversion Hd; subst f. clear Hd.
           apply wf_cons in Hw. destruct Hw as [Hl0 Hw]. apply wf_cons in Hw. destruct Hw as [Hl1 Hw].
           unfold audio_enc. cbn [a_fmt a_rate a_trait a_level a_raw]. rewrite EA, EO, ESR, EAL.
           rewrite audio_first_afirst. cbn [a_fmt a_rate a_size a_type].
           rewrite (Hfirst ((b0 / 4) mod 4) ltac:(lia)).
           cbn [app]. unfold ube2, u8.
           replace ((l0 * 256 + l1) / 256 mod 256) with l0 by lia.
           replace ((l0 * 256 + l1) mod 256) with l1 by lia. reflexivity.
        -- cbn [bind] in Hd. inversion Hd; subst f. clear Hd.
           unfold audio_enc. cbn [a_fmt a_rate a_trait a_level a_raw]. rewrite EA, EO, ESR, EAL.
           rewrite audio_first_afirst. cbn [a_fmt a_rate a_size a_type].
           rewrite (Hfirst ((b0 / 4) mod 4) ltac:(lia)). reflexivity.
    + cbn [slice_from drop bind] in Hd. inversion Hd; subst f. clear Hd.
      unfold audio_enc. cbn [a_fmt a_trait a_raw]. rewrite EA, EO. rewrite audio_first_afirst.
      cbn [a_fmt a_rate a_size a_type].
      pose proof (abyte_spec b0 0 H0 ltac:(lia)) as Hb. unfold abyte_ok in Hb. fold fmt in Hb.
      rewrite EO in Hb. apply N.eqb_eq in Hb. now rewrite Hb.
Qed.

(* ---------- video ---------- *)
Definition vfirst (ft codec : N) : N := video_first (mk_vframe codec ft 0 0%Z []).

Lemma video_first_vfirst f : video_first f = vfirst (v_ftype f) (v_codec f).
Proof. reflexivity. Qed.

Definition vfirst_ok (ft codec : N) : bool :=
  let b := vfirst ft codec in (b <? 256) && ((b / 16) mod 16 =? ft) && (b mod 16 =? codec).

Lemma vfirst_sweep : forallb (fun ft => forallb (fun cd => vfirst_ok ft cd) (rangeN 16)) (rangeN 16) = true.
Proof. vm_compute. reflexivity. Qed.

Lemma vfirst_spec ft cd : ft < 16 -> cd < 16 ->
  let b := vfirst ft cd in b < 256 /\ (b / 16) mod 16 = ft /\ b mod 16 = cd.
Proof.
  intros Hf Hc b. pose proof (sweep1 _ _ (sweep1 _ _ vfirst_sweep ft Hf) cd Hc) as H.
  unfold vfirst_ok in H. fold b in H.
  repeat (apply andb_prop in H; destruct H as [H ?]).
  repeat match goal with H : (_ =? _) = true |- _ => apply N.eqb_eq in H
                    | H : (_ <? _) = true |- _ => apply N.ltb_lt in H end.
  auto.
Qed.

Lemma vbyte_sweep : forallb (fun b0 => vfirst ((b0 / 16) mod 16) (b0 mod 16) =? b0) (rangeN 256) = true.
Proof. vm_compute. reflexivity. Qed.

Lemma vbyte_spec b0 : b0 < 256 -> vfirst ((b0 / 16) mod 16) (b0 mod 16) = b0.
Proof. intros H. apply N.eqb_eq. exact (sweep1 _ _ vbyte_sweep b0 H). Qed.

(* what the decoder makes of the three composition-time bytes the encoder wrote:
   the int32 value reduced modulo 2^24 -- negative composition times are not preserved *)
Lemma cts_bytes (c : Z) :
  zi32 (Z.of_N (u32 (ube3 (zbyte (c / 65536)) (zbyte (c / 256)) (zbyte c)))) = (c mod 16777216)%Z.
Proof. unfold zi32, u32, ube3, zbyte. lia. Qed.

Definition wf_vframe (f : vframe) : Prop :=
  v_ftype f < 16 /\ v_codec f < 16 /\
  (if is_avc_hevc (v_codec f) then (0 <= v_cts f < 16777216)%Z
   else v_trait f = 0 /\ v_cts f = 0%Z /\ 4 <= lenN (v_raw f)).

Lemma lenN_ge5 (a b c d e : N) t : (lenN (a :: b :: c :: d :: e :: t) <? 5) = false.
Proof. rewrite lenN_length. cbn [length]. apply N.ltb_ge. lia. Qed.

Theorem video_dec_enc f : wf_vframe f -> video_dec (video_enc f) = Ok f.
Proof.
  destruct f as [cd ft tr cts raw]. unfold wf_vframe. cbn [v_codec v_ftype v_trait v_cts v_raw].
  intros (Hf & Hc & Hg).
  destruct (vfirst_spec ft cd Hf Hc) as (Hb & F1 & F2).
  unfold video_enc, video_dec. rewrite video_first_vfirst. cbn [v_codec v_ftype v_trait v_cts v_raw].
  set (h := vfirst ft cd) in *. clearbody h.
  destruct (is_avc_hevc cd) eqn:EV.
  - rewrite lenN_ge5. cbn [idx nth_error bind slice_from drop]. rewrite F1, F2, EV.
    cbn [bind]. rewrite cts_bytes. rewrite Z.mod_small by lia. reflexivity.
  - destruct Hg as (-> & -> & Hl).
    destruct raw as [|r1 [|r2 [|r3 [|r4 raw]]]]; try (rewrite lenN_length in Hl; cbn [length] in Hl; lia).
    rewrite lenN_ge5. cbn [idx nth_error bind slice_from drop]. rewrite F1, F2, EV. reflexivity.
Qed.

Theorem video_first_byte f : v_ftype f < 16 -> v_codec f < 16 ->
  exists b rest, video_enc f = b :: rest /\ b < 256 /\ (b / 16) mod 16 = v_ftype f /\ b mod 16 = v_codec f.
Proof.
  intros Hf Hc. destruct (vfirst_spec _ _ Hf Hc) as (Hb & F1 & F2). rewrite <- video_first_vfirst in *.
  unfold video_enc. destruct (is_avc_hevc (v_codec f)); eexists; eexists; (split; [reflexivity|]); auto.
Qed.

(* every body the video decoder accepts re-encodes to itself *)
Theorem video_enc_dec b f : wf_bytes b -> video_dec b = Ok f -> video_enc f = b.
Proof.
  intros Hw Hd. unfold video_dec in Hd.
  destruct b as [|p0 [|p1 [|p2 [|p3 [|p4 rest]]]]]; try discriminate Hd.
  rewrite lenN_ge5 in Hd. cbn [idx nth_error bind] in Hd.
  apply wf_cons in Hw. destruct Hw as [H0 Hw]. apply wf_cons in Hw. destruct Hw as [H1 Hw].
  apply wf_cons in Hw. destruct Hw as [H2 Hw]. apply wf_cons in Hw. destruct Hw as [H3 Hw].
  apply wf_cons in Hw. destruct Hw as [H4 Hw].
  destruct (is_avc_hevc (p0 mod 16)) eqn:EV; cbn [slice_from drop bind] in Hd; inversion Hd; subst f; clear Hd;
    unfold video_enc; cbn [v_codec v_ftype v_trait v_cts v_raw]; rewrite EV, video_first_vfirst;
    cbn [v_codec v_ftype]; rewrite (vbyte_spec p0 H0); [|reflexivity].
  unfold zi32, u32, ube3, zbyte.
  repeat f_equal; lia.
Qed.

(* ---------- totality ---------- *)
Theorem audio_dec_total b x : audio_dec b <> Panic x.
Proof.
  unfold audio_dec. destruct b as [|b0 [|b1 p]]; try discriminate.
  rewrite lenN_cons2. cbn [idx nth_error bind].
  destruct (_ =? aAAC); [cbn [slice_from drop bind]; discriminate|].
  destruct (_ =? aOpus); [|cbn [slice_from drop bind]; discriminate].
  cbn [slice_from drop bind].
  destruct (has_flag b1 tSR).
  - destruct p as [|r q]; [discriminate|]. rewrite lenN_cons1. cbn [idx nth_error slice_from drop bind].
    destruct (has_flag b1 tAL); [|discriminate].
    destruct q as [|l0 [|l1 q']]; try discriminate.
    rewrite lenN_cons2. cbn [idx nth_error slice_from drop bind]. discriminate.
  - cbn [bind]. destruct (has_flag b1 tAL); [|discriminate].
    destruct p as [|l0 [|l1 q']]; try discriminate.
    rewrite lenN_cons2. cbn [idx nth_error slice_from drop bind]. discriminate.
Qed.

Theorem video_dec_total b x : video_dec b <> Panic x.
Proof.
  unfold video_dec. destruct b as [|p0 [|p1 [|p2 [|p3 [|p4 rest]]]]]; try discriminate.
  rewrite lenN_ge5. cbn [idx nth_error bind].
  destruct (is_avc_hevc _); cbn [slice_from drop bind]; discriminate.
Qed.

(* the decoders accept every body of at least 5 bytes (audio: 5 covers trait + rate + level) *)
Theorem video_dec_accepts b : 5 <= lenN b -> exists f, video_dec b = Ok f.
Proof.
  intros Hl. unfold video_dec.
  destruct b as [|p0 [|p1 [|p2 [|p3 [|p4 rest]]]]]; try (rewrite lenN_length in Hl; cbn [length] in Hl; lia).
  rewrite lenN_ge5. cbn [idx nth_error bind].
  destruct (is_avc_hevc _); cbn [slice_from drop bind]; eauto.
Qed.

(* ---------- rate tables (translator-generated bodies) ---------- *)
Definition is_some {A} (o : option A) : bool := match o with Some _ => true | None => false end.

Lemma helpers_sweep :
  forallb (fun v => is_some (to_hz v) && is_some (opus_to_hz v) && is_some (rate_from v)
                    && is_some (rate_opus_from v) && is_some (channels_from v)) (rangeN 256) = true.
Proof. vm_compute. reflexivity. Qed.

Theorem helpers_total v : v < 256 ->
  to_hz v <> None /\ opus_to_hz v <> None /\ rate_from v <> None /\ rate_opus_from v <> None
  /\ channels_from v <> None.
Proof.
  intros Hv. pose proof (sweep1 _ _ helpers_sweep v Hv) as H.
  repeat (apply andb_prop in H; destruct H as [H ?]).
  repeat split; intros E; rewrite E in *; discriminate.
Qed.

Theorem rates_flv :
  to_hz (cN flv_AudioSamplingRate5kHz) = Some 5512%Z /\
  to_hz (cN flv_AudioSamplingRate11kHz) = Some 11025%Z /\
  to_hz (cN flv_AudioSamplingRate22kHz) = Some 22050%Z /\
  to_hz (cN flv_AudioSamplingRate44kHz) = Some 44100%Z.
Proof. vm_compute. auto. Qed.

Theorem rates_opus :
  opus_to_hz (cN flv_AudioSamplingRateNB8kHz) = Some 8000%Z /\
  opus_to_hz (cN flv_AudioSamplingRateMB12kHz) = Some 12000%Z /\
  opus_to_hz (cN flv_AudioSamplingRateWB16kHz) = Some 16000%Z /\
  opus_to_hz (cN flv_AudioSamplingRateSWB24kHz) = Some 24000%Z /\
  opus_to_hz (cN flv_AudioSamplingRateFB48kHz) = Some 48000%Z.
Proof. vm_compute. auto 6. Qed.

(* the codes are the ones the definitions name *)
Theorem rate_codes :
  (flv_AudioSamplingRate5kHz, flv_AudioSamplingRate11kHz, flv_AudioSamplingRate22kHz, flv_AudioSamplingRate44kHz)
    = (0, 1, 2, 3)%Z /\
  (flv_AudioSamplingRateNB8kHz, flv_AudioSamplingRateMB12kHz, flv_AudioSamplingRateWB16kHz,
   flv_AudioSamplingRateSWB24kHz, flv_AudioSamplingRateFB48kHz) = (8, 12, 16, 24, 48)%Z.
Proof. split; reflexivity. Qed.

(* for an AVC/HEVC frame with any int32 composition time the round trip yields the time
   reduced modulo 2^24 (the encoder writes the low three bytes, the decoder does not
   sign-extend): exactly the frames with 0 <= CTS < 2^24 come back unchanged *)
Theorem video_dec_enc_cts cd ft tr cts raw : ft < 16 -> cd < 16 -> is_avc_hevc cd = true ->
  video_dec (video_enc (mk_vframe cd ft tr cts raw)) = Ok (mk_vframe cd ft tr (cts mod 16777216)%Z raw).
Proof.
  intros Hf Hc EV. destruct (vfirst_spec ft cd Hf Hc) as (Hb & F1 & F2).
  unfold video_enc, video_dec. rewrite video_first_vfirst. cbn [v_codec v_ftype v_trait v_cts v_raw].
  set (h := vfirst ft cd) in *. clearbody h. rewrite EV.
  rewrite lenN_ge5. cbn [idx nth_error bind slice_from drop]. rewrite F1, F2, EV.
  cbn [bind]. rewrite cts_bytes. reflexivity.
Qed.

(* names under which the C07 kit imports the totality results *)
Theorem flv_audio_dec_total bs x : wf_bytes bs -> audio_dec bs <> Panic x.
Proof. intros _. apply audio_dec_total. Qed.
Theorem flv_video_dec_total bs x : wf_bytes bs -> video_dec bs <> Panic x.
Proof. intros _. apply video_dec_total. Qed.

(* ---------- histories on one packager pair ---------- *)
(* every result is a function of its own call: the packagers have no state *)
Theorem prun_map st ops : prun st ops = map (fun o => snd (pstep tt o)) ops.
Proof.
  revert st. induction ops as [|o r IH]; intros st; [reflexivity|].
  cbn [prun map]. destruct st. cbn [pstep snd]. now rewrite IH.
Qed.

Theorem prun_app st a b : prun st (a ++ b) = prun st a ++ prun st b.
Proof. rewrite !prun_map. apply map_app. Qed.

(* results of earlier calls are unaffected by later calls *)
Theorem prun_prefix st ops later : firstn (length ops) (prun st (ops ++ later)) = prun st ops.
Proof.
  rewrite prun_app.
  assert (Hl : length ops = length (prun st ops)) by (rewrite prun_map; now rewrite map_length).
  rewrite Hl, firstn_app, Nat.sub_diag, firstn_all. cbn [firstn]. apply app_nil_r.
Qed.

(* the sharing Decode has today, stated exactly: the decoded Raw is the tail of the tag *)
Lemma prefix_before_app pre raw : prefix_before (pre ++ raw) raw = pre.
Proof.
  unfold prefix_before. rewrite lenN_app.
  replace (N.to_nat (lenN pre + lenN raw - lenN raw)) with (length pre) by (rewrite !lenN_length; lia).
  now rewrite take_exact.
Qed.

Theorem audio_dec_raw_suffix b f : audio_dec b = Ok f -> b = prefix_before b (a_raw f) ++ a_raw f.
Proof.
  intros Hd.
  assert (H : exists pre, b = pre ++ a_raw f).
  { unfold audio_dec in Hd. destruct b as [|b0 [|b1 p]]; try discriminate Hd.
    rewrite lenN_cons2 in Hd. cbn [idx nth_error bind] in Hd.
    destruct (_ =? aAAC).
    { cbn [slice_from drop bind] in Hd. inversion Hd. exists [b0; b1]. reflexivity. }
    destruct (_ =? aOpus).
    2:{ cbn [slice_from drop bind] in Hd. inversion Hd. exists [b0]. reflexivity. }
    cbn [slice_from drop bind] in Hd.
    destruct (has_flag b1 tSR).
    - destruct p as [|r q]; [discriminate Hd|]. rewrite lenN_cons1 in Hd.
      cbn [idx nth_error slice_from drop bind] in Hd.
      destruct (has_flag b1 tAL).
      + destruct q as [|l0 [|l1 q']]; try discriminate Hd.
        rewrite lenN_cons2 in Hd. cbn [idx nth_error slice_from drop bind] in Hd.
        inversion Hd. exists [b0; b1; r; l0; l1]. reflexivity.
      + cbn [bind] in Hd. inversion Hd. exists [b0; b1; r]. reflexivity.
    - cbn [bind] in Hd. destruct (has_flag b1 tAL).
      + destruct p as [|l0 [|l1 q']]; try discriminate Hd.
        rewrite lenN_cons2 in Hd. cbn [idx nth_error slice_from drop bind] in Hd.
        inversion Hd. exists [b0; b1; l0; l1]. reflexivity.
      + cbn [bind] in Hd. inversion Hd. exists [b0; b1]. reflexivity. }
  destruct H as (pre & ->). now rewrite prefix_before_app.
Qed.

Theorem video_dec_raw_suffix b f : video_dec b = Ok f -> b = prefix_before b (v_raw f) ++ v_raw f.
Proof.
  intros Hd.
  assert (H : exists pre, b = pre ++ v_raw f).
  { unfold video_dec in Hd. destruct b as [|p0 [|p1 [|p2 [|p3 [|p4 rest]]]]]; try discriminate Hd.
    rewrite lenN_ge5 in Hd. cbn [idx nth_error bind] in Hd.
    destruct (is_avc_hevc _); cbn [slice_from drop bind] in Hd; inversion Hd.
    - exists [p0; p1; p2; p3; p4]. reflexivity.
    - exists [p0]. reflexivity. }
  destruct H as (pre & ->). now rewrite prefix_before_app.
Qed.
