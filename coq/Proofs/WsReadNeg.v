(* C14 proofs, part 8: the reader on a connection with permessage-deflate negotiated -- the
   reserved bits.  neg = false is the reader all other theorems are about. *)
From Verif Require Import Lib.Base Lib.Sx Lib.Utf8 Model.WsRead Proofs.WsReadUtf8 Proofs.WsRead Proofs.WsReadProps.
From Verif Require Import Gen.Gen_websocket.
Open Scope Z_scope.

Lemma af_head_gen_false c : af_head_gen false c = af_head c.
Proof. reflexivity. Qed.

Lemma advance_frame_gen_false fixed c : advance_frame_gen false fixed c = advance_frame fixed c.
Proof. reflexivity. Qed.

Lemma next_reader_loop_gen_false fixed fuel : forall c, next_reader_loop_gen fuel false fixed c = next_reader_loop fuel fixed c.
Proof.
  induction fuel as [|f IH]; intros c; cbn [next_reader_loop_gen next_reader_loop]; [reflexivity|].
  rewrite advance_frame_gen_false. destruct (c_err c); [reflexivity|].
  destruct (advance_frame fixed c) as [c1 t|c1 e|s]; try reflexivity. destruct (is_data t); [reflexivity|apply IH].
Qed.

Lemma read_all_gen_false fixed fuel : forall c acc, read_all_gen fuel false fixed c acc = read_all fuel fixed c acc.
Proof.
  induction fuel as [|f IH]; intros c acc; cbn [read_all_gen read_all]; [reflexivity|].
  rewrite advance_frame_gen_false. destruct (c_err c); [reflexivity|].
  destruct (0 <? c_rem c). { destruct (split_at _ _ _) as [[p rest]|]; [apply IH|reflexivity]. }
  destruct (c_final c); [reflexivity|].
  destruct (advance_frame fixed c) as [c1 t|c1 e|s]; try reflexivity; [destruct (is_data t)|]; apply IH.
Qed.

Lemma read_message_gen_false fixed c : read_message_gen false fixed c = read_message fixed c.
Proof.
  unfold read_message_gen, read_message. rewrite next_reader_loop_gen_false.
  destruct (next_reader_loop _ fixed _) as [[c1 [t|]]| |]; cbn [bind]; try reflexivity.
  rewrite read_all_gen_false. reflexivity.
Qed.

Lemma read_loop_gen_false fixed fuel : forall c acc, read_loop_gen fuel false fixed c acc = read_loop fuel 0 fixed c acc.
Proof.
  induction fuel as [|f IH]; intros c acc; cbn [read_loop_gen read_loop]; [reflexivity|].
  rewrite read_message_gen_false. destruct (read_message fixed c) as [[c1 [t p|e]]| |]; cbn [bind read_extra]; try reflexivity.
  apply IH.
Qed.

(* without the extension the general reader is the reader of c14_refines_rfc *)
Theorem lib_session_gen_false fixed server limit inp :
  lib_session_gen false fixed server limit inp = lib_session fixed server limit 0 inp.
Proof. unfold lib_session_gen, lib_session. rewrite read_loop_gen_false. reflexivity. Qed.

(* the reserved bits step 2 goes on to check, against RFC 7692: zero exactly when the frame's RSV
   bits are zero, or (negotiated) RSV1 alone on a text / binary frame *)
Definition head_rsv_ok (p0 : N) : bool :=
  let rsv := ((p0 / 16) mod 8)%N in let op := (p0 mod 16)%N in
  Bool.eqb (head_rsv true p0 =? 0)%N ((rsv =? 0) || ((rsv =? 4) && ((op =? 1) || (op =? 2))))%N
  && Bool.eqb (head_rsv false p0 =? 0)%N (rsv =? 0)%N.

Lemma head_rsv_spec p0 : wf_byte p0 ->
  let rsv := ((p0 / 16) mod 8)%N in let op := (p0 mod 16)%N in
  (head_rsv true p0 =? 0)%N = ((rsv =? 0) || ((rsv =? 4) && ((op =? 1) || (op =? 2))))%N /\
  (head_rsv false p0 =? 0)%N = (rsv =? 0)%N.
Proof.
  intros H. assert (E : head_rsv_ok p0 = true) by (apply byte_sweep; [vm_compute; reflexivity|exact H]).
  unfold head_rsv_ok in E. apply andb_true_iff in E as [E1 E2]. apply Bool.eqb_prop in E1, E2. auto.
Qed.

(* Negotiated or not, from every reader state at a frame boundary: a frame whose reserved bits are
   not zero -- other than RSV1 alone on a text / binary frame of a negotiated connection -- is
   refused with a protocol error: RSV1 together with RSV2 / RSV3 on a data frame, RSV2 / RSV3 anywhere,
   RSV1 (alone or combined) on continuation, ping, pong and close frames. *)
Theorem reserved_bits_rejected neg fixed c p0 p1 r :
  c_rem c <= 0 -> c_in c = p0 :: p1 :: r -> wf_byte p0 ->
  let rsv := ((p0 / 16) mod 8)%N in let op := (p0 mod 16)%N in
  rsv <> 0%N -> ~ (neg = true /\ rsv = 4%N /\ (op = 1%N \/ op = 2%N)) ->
  exists c' m, advance_frame_gen neg fixed c = MErr c' (EProto m).
Proof.
  intros Hrem Hin H0 rsv op Hr Hx.
  unfold advance_frame_gen, af_skip. replace (0 <? c_rem c) with false by (symmetry; apply Z.ltb_ge; lia). cbn [mbind].
  unfold af_head_gen, c_readn. rewrite Hin. cbn [take mbind].
  destruct (head_rsv_spec p0 H0) as [S1 S2]. fold rsv op in S1, S2.
  assert (Hz : (head_rsv neg p0 =? 0)%N = false).
  { destruct neg.
    - rewrite S1. apply orb_false_iff. split; [apply N.eqb_neq; exact Hr|].
      destruct (N.eqb_spec rsv 4) as [E4|E4]; [|reflexivity]. cbn [andb]. apply orb_false_iff.
      split; apply N.eqb_neq; intros E; apply Hx; auto.
    - rewrite S2. apply N.eqb_neq. exact Hr. }
  rewrite Hz. cbn [negb].
  destruct (@hpe_is_err (bool * Z * bool) (msg_rsv (head_rsv neg p0)) (set_rem (set_in c r) (Z.of_N (N.land p1 127)))) as (c' & E).
  rewrite E. cbn [mbind]. eauto.
Qed.

(* the RFC side says the same: rfc_violation_neg flags exactly those frames for their reserved bits *)
Lemma rfc_violation_neg_false server is_open h : rfc_violation_neg false server is_open h = rfc_violation server is_open h.
Proof. destruct h. reflexivity. Qed.

Theorem rfc_reserved_bits_violation neg server is_open h :
  (f_rsv h < 8)%N -> f_rsv h <> 0%N ->
  ~ (neg = true /\ f_rsv h = 4%N /\ (f_op h = 1%N \/ f_op h = 2%N)) ->
  rfc_violation_neg neg server is_open h = true.
Proof.
  intros Hlt Hr Hx. unfold rfc_violation_neg, rfc_violation. cbn [f_rsv f_masked f_op f_fin f_len f_ext].
  assert (E : (rfc_effective_rsv neg h =? 0)%N = false).
  { unfold rfc_effective_rsv. destruct neg; cbn [andb]; [|apply N.eqb_neq; exact Hr].
    destruct ((f_op h =? 1) || (f_op h =? 2))%N eqn:Eop; cbn [andb]; [|apply N.eqb_neq; exact Hr].
    destruct (N.leb_spec 4 (f_rsv h)) as [H4|H4]; [|apply N.eqb_neq; exact Hr].
    apply N.eqb_neq. intros E0. apply Hx. split; [reflexivity|]. split; [lia|].
    apply orb_true_iff in Eop as [E|E]; apply N.eqb_eq in E; auto. }
  rewrite E. reflexivity.
Qed.

(* non-vacuity: negotiated client connection; binary frame with RSV1|RSV3 (0x52), ping with RSV1
   (0xc9) and continuation with RSV1 are refused; the pinned reader's step 2 on the same bytes *)
Example reserved_bits_examples :
  (exists c' m, advance_frame_gen true true (new_conn false 0 [82; 0]%N) = MErr c' (EProto m)) /\
  (exists c' m, advance_frame_gen true true (new_conn false 0 [201; 0]%N) = MErr c' (EProto m)) /\
  head_rsv true 193 = 0%N /\ head_rsv true 209 = 16%N /\ head_rsv false 193 = 64%N.
Proof. vm_compute. repeat split; eauto. Qed.
