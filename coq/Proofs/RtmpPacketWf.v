(* Every successfully decoded packet is well-formed, re-marshals to at most the input's length
   and is a fixed point of marshal / unmarshal (Model/RtmpPacket.v, C03). *)
From Verif Require Import Lib.Base Lib.Sx Model.Amf0 Proofs.Amf0 Model.RtmpPacket.
From Verif Require Import Proofs.RtmpPacket Proofs.RtmpPacketTx.
Open Scope N_scope.

Lemma bind_ok_inv {A B} (r : res A) (f : A -> res B) b :
  bind r f = Ok b -> exists a, r = Ok a /\ f a = Ok b.
Proof. destruct r; cbn [bind]; intros H; try discriminate. eauto. Qed.

Lemma um_string_wf p v n : wf_bytes p -> um_string p = Ok (v, n) ->
  exists s, v = AStr s /\ wf_strb s = true.
Proof.
  intros Hp H. destruct (um_string_shape _ _ _ H) as (s & ->). exists s. split; [reflexivity|].
  assert (Hd : dec 1 p = Ok (AStr s, n)).
  { destruct p as [|m r]; [discriminate|]. unfold um_string in H.
    destruct (m =? mString) eqn:E; cbn [negb] in H; [|discriminate].
    apply N.eqb_eq in E. subst m. rewrite dec_str. exact H. }
  exact (amf0_dec_wf _ _ _ _ Hp Hd).
Qed.

Lemma um_number_wf p v n : wf_bytes p -> um_number p = Ok (v, n) ->
  exists b, v = ANum b /\ b < 18446744073709551616.
Proof.
  intros Hp H. destruct (um_number_shape _ _ _ H) as (b & ->). exists b. split; [reflexivity|].
  assert (Hd : dec 1 p = Ok (ANum b, n)).
  { destruct p as [|m r]; [discriminate|]. unfold um_number in H.
    destruct r as [|a1 [|a2 [|a3 [|a4 [|a5 [|a6 [|a7 [|a8 r']]]]]]]]; try discriminate.
    destruct (m =? mNumber) eqn:E; cbn [negb] in H; [|discriminate].
    apply N.eqb_eq in E. subst m. rewrite dec_num. unfold um_number. rewrite N.eqb_refl. exact H. }
  pose proof (amf0_dec_wf _ _ _ _ Hp Hd) as W. unfold wf_amf in W. cbn [wf_amfb] in W.
  apply N.ltb_lt in W. exact W.
Qed.

Lemma wf_bytes_suffix (w rest : bytes) : wf_bytes (w ++ rest) -> wf_bytes rest.
Proof. intros H. apply wf_bytes_app in H. tauto. Qed.

Lemma um_hdr_wf p name tid p2 : wf_bytes p -> um_hdr p = Ok (name, tid, p2) ->
  wf_strb name = true /\ tid < 18446744073709551616 /\ wf_bytes p2 /\
  exists w, p = w ++ p2 /\ lenN w = hsize name.
Proof.
  intros Hp H. destruct (um_hdr_ok _ _ _ _ H) as (w & E & Hl).
  assert (Hp2 : wf_bytes p2) by (subst p; exact (wf_bytes_suffix _ _ Hp)).
  unfold um_hdr in H.
  apply bind_ok_inv in H. destruct H as ([v n] & Es & H). apply step_ok_inv in Es.
  destruct (um_string_consumed _ _ _ Es) as (Hn & w1 & rest1 & E1 & Hl1).
  rewrite E1 in H. rewrite drop_app in H by (symmetry; exact Hl1). cbn [bind] in H.
  apply bind_ok_inv in H. destruct H as ([tv n2] & En & H). apply step_ok_inv in En.
  destruct (um_number_consumed _ _ _ En) as (Hn2 & w2 & rest2 & E2 & Hl2).
  rewrite E2 in H. rewrite drop_app in H by (symmetry; exact Hl2). cbn [bind] in H.
  inversion H; subst name tid p2.
  destruct (um_string_wf _ _ _ Hp Es) as (s & -> & Hs).
  assert (Hr1 : wf_bytes rest1) by (rewrite E1 in Hp; exact (wf_bytes_suffix _ _ Hp)).
  destruct (um_number_wf _ _ _ Hr1 En) as (b & -> & Hb).
  cbn [amf_str amf_num]. repeat split; try assumption. exists w. split; assumption.
Qed.

Lemma decode_wf p v n : wf_bytes p -> decode p = Ok (v, n) -> wf_amf v.
Proof. intros Hp H. exact (amf0_dec_wf _ _ _ _ Hp H). Qed.

Lemma um_variant_wf data name tid o : wf_bytes data -> um_variant data = Ok (name, tid, o) ->
  wf_strb name = true /\ tid < 18446744073709551616 /\ wf_opt o = true /\
  exists w rest, data = w ++ rest /\ lenN w = vsize name o /\ (o = None -> rest = []) /\ wf_bytes rest.
Proof.
  intros Hd H. unfold um_variant in H.
  apply bind_ok_inv in H. destruct H as ([[nm t] p2] & Eh & H).
  destruct (um_hdr_wf _ _ _ _ Hd Eh) as (Hn & Ht & Hp2 & w & -> & Hl).
  destruct (is_nil p2) eqn:En.
  - inversion H; subst. apply is_nil_true in En. subst p2.
    repeat split; try assumption. exists w, []. repeat split; try assumption.
    unfold vsize. cbn [size_opt]. lia.
  - apply bind_ok_inv in H. destruct H as ([ov n] & Ed & H). apply step_ok_inv in Ed.
    destruct (amf0_dec_consumed _ _ _ _ Ed) as (Hsz & w2 & rest2 & E2 & Hl2).
    rewrite E2 in H. rewrite drop_app in H by (symmetry; exact Hl2). cbn [bind] in H.
    inversion H; subst. repeat split; try assumption.
    + exact (decode_wf _ _ _ Hp2 Ed).
    + exists (w ++ w2), rest2. repeat split.
      * rewrite app_assoc. reflexivity.
      * unfold vsize. cbn [size_opt]. rewrite lenN_app, Hl, Hl2. reflexivity.
      * discriminate.
      * exact (wf_bytes_suffix _ _ Hp2).
Qed.

Lemma after_variant_wf data name tid o p : wf_bytes data -> after_variant data = Ok (name, tid, o, p) ->
  wf_strb name = true /\ tid < 18446744073709551616 /\ wf_opt o = true /\ wf_bytes p /\
  lenN data = vsize name o + lenN p /\ (o = None -> p = []).
Proof.
  intros Hd H. unfold after_variant in H.
  apply bind_ok_inv in H. destruct H as ([[nm t] ov] & Ev & H).
  destruct (um_variant_wf _ _ _ _ Hd Ev) as (Hn & Ht & Ho & w & rest & -> & Hl & Hnone & Hr).
  rewrite drop_app in H by (symmetry; exact Hl). cbn [bind] in H. inversion H; subst.
  repeat split; try assumption. rewrite lenN_app, Hl. reflexivity.
Qed.

Lemma f_eq_one t : f_eq t f_one = true -> t = f_one.
Proof.
  unfold f_eq. intros H. apply andb_true_iff in H. destruct H as [_ H].
  apply orb_true_iff in H. destruct H as [H|H]; [apply N.eqb_eq; exact H|].
  apply andb_true_iff in H. destruct H as [_ H]. discriminate.
Qed.

Lemma um_objcall_wf data name tid o a : wf_bytes data -> um_objcall data = Ok (name, tid, o, a) ->
  wf_strb name = true /\ tid < 18446744073709551616 /\ wf_propsb o = true /\ wf_oprops a = true /\
  hsize name + size (AObj o) + size_oprops a <= lenN data.
Proof.
  intros Hd H. unfold um_objcall in H.
  apply bind_ok_inv in H. destruct H as ([[nm t] p2] & Eh & H).
  destruct (um_hdr_wf _ _ _ _ Hd Eh) as (Hn & Ht & Hp2 & w & -> & Hl).
  apply bind_ok_inv in H. destruct H as ([ov n] & Eo & H). apply step_ok_inv in Eo.
  destruct (um_object_consumed _ _ _ _ Eo) as (Hsz & w2 & rest2 & E2 & Hl2).
  pose proof (um_object_wf _ _ _ _ Hp2 Eo) as Wo.
  assert (So : exists ps, ov = AObj ps).
  { unfold um_object in Eo. destruct p2 as [|m r]; [discriminate|].
    destruct (negb (m =? mObject)); [discriminate|].
    apply bind_ok_inv in Eo. destruct Eo as ([ps sz] & _ & Eo). inversion Eo. eauto. }
  destruct So as (ps & ->). cbn [amf_props] in H.
  rewrite E2 in H. rewrite drop_app in H by (symmetry; exact Hl2). cbn [bind] in H.
  assert (Hr2 : wf_bytes rest2) by (rewrite E2 in Hp2; exact (wf_bytes_suffix _ _ Hp2)).
  unfold wf_amf in Wo. rewrite wf_obj in Wo.
  destruct (is_nil rest2) eqn:En.
  - inversion H; subst. repeat split; try assumption.
    cbn [size_oprops]. rewrite !lenN_app, Hl, Hl2. lia.
  - apply bind_ok_inv in H. destruct H as ([av n3] & Ea & H). apply step_ok_inv in Ea.
    pose proof (um_object_wf _ _ _ _ Hr2 Ea) as Wa.
    destruct (um_object_consumed _ _ _ _ Ea) as (Hsz3 & w3 & rest3 & E3 & Hl3).
    assert (Sa : exists ps', av = AObj ps').
    { unfold um_object in Ea. destruct rest2 as [|m r]; [discriminate|].
      destruct (negb (m =? mObject)); [discriminate|].
      apply bind_ok_inv in Ea. destruct Ea as ([ps' sz] & _ & Ea). inversion Ea. eauto. }
    destruct Sa as (ps' & ->). inversion H; subst. cbn [amf_props wf_oprops size_oprops].
    unfold wf_amf in Wa. rewrite wf_obj in Wa. repeat split; try assumption.
    rewrite !lenN_app, Hl, Hl2, Hl3. lia.
Qed.

Lemma gen_sizes : gen_size (Gen_rtmp.rtmp_SetChunkSize_Size tt) = 4 /\
  gen_size (Gen_rtmp.rtmp_WindowAcknowledgementSize_Size tt) = 4 /\
  gen_size (Gen_rtmp.rtmp_SetPeerBandwidth_Size tt) = 5.
Proof. repeat split. Qed.

Lemma wf_bytes_inv x (b : bytes) : wf_bytes (x :: b) -> x < 256 /\ wf_bytes b.
Proof. apply wf_bytes_cons. Qed.

(* every successfully decoded packet: well-formed, same type as the receiver, Size() <= input *)
Theorem unmarshal_decoded r data p :
  wf_bytes data -> unmarshal r data = Ok p ->
  wf_pkt p = true /\ kind_of p = kind_of r /\ psize p <= lenN data.
Proof.
  intros Hd H. destruct r; cbn [unmarshal] in H; cbn [kind_of].
  - (* connect *)
    apply bind_ok_inv in H. destruct H as ([[[nm t] o] a] & Eo & H).
    destruct (um_objcall_wf _ _ _ _ _ Hd Eo) as (Hn & Ht & Ho & Ha & Hsz).
    destruct (bytes_eqb nm cConnect) eqn:En; cbn [negb] in H; [|discriminate].
    destruct (f_eq t f_one) eqn:Et; cbn [negb] in H; [|discriminate].
    inversion H; subst. apply f_eq_one in Et. subst t.
    cbn [wf_pkt kind_of psize]. rewrite En, Ho, Ha. repeat split; try reflexivity; exact Hsz.
  -     apply bind_ok_inv in H. destruct H as ([[[nm t] o] a] & Eo & H).
    destruct (um_objcall_wf _ _ _ _ _ Hd Eo) as (Hn & Ht & Ho & Ha & Hsz).
    destruct (bytes_eqb nm cResult) eqn:En; cbn [negb] in H; [|discriminate].
    inversion H; subst. apply N.ltb_lt in Ht.
    cbn [wf_pkt kind_of psize]. unfold wf_f64. rewrite En, Ht, Ho, Ha. repeat split; try reflexivity; exact Hsz.
  - (* call *)
    apply bind_ok_inv in H. destruct H as ([[[nm t] o] q] & Ev & H).
    destruct (after_variant_wf _ _ _ _ _ Hd Ev) as (Hn & Ht & Ho & Hq & Hlen & Hnone).
    apply N.ltb_lt in Ht.
    destruct (is_nil q) eqn:En.
    + inversion H; subst. cbn [wf_pkt kind_of psize size_opt]. unfold wf_f64.
      rewrite Hn, Ht, Ho. cbn [wf_opt is_some negb andb]. rewrite orb_true_r.
      repeat split; try reflexivity; lia.
    + apply bind_ok_inv in H. destruct H as ([av n] & Ea & H). apply step_ok_inv in Ea.
      inversion H; subst. pose proof (decode_wf _ _ _ Hq Ea) as Wa.
      destruct (amf0_dec_consumed _ _ _ _ Ea) as (Hsz & _).
      pose proof (amf0_dec_size_le _ _ _ _ Ea) as Hle.
      cbn [wf_pkt kind_of psize size_opt]. unfold wf_f64. rewrite Hn, Ht, Ho. cbn [wf_opt]. rewrite Wa.
      destruct o as [ov|]; [|rewrite (Hnone eq_refl) in En; discriminate].
      cbn [is_some orb andb]. repeat split; try reflexivity; subst n; lia.
  - (* createStream *)
    apply bind_ok_inv in H. destruct H as ([[nm t] o] & Ev & H). inversion H; subst.
    destruct (um_variant_wf _ _ _ _ Hd Ev) as (Hn & Ht & Ho & w & rest & -> & Hl & _ & _).
    apply N.ltb_lt in Ht. cbn [wf_pkt kind_of psize]. unfold wf_f64. rewrite Hn, Ht, Ho.
    repeat split; try reflexivity; rewrite lenN_app; lia.
  - (* createStream response *)
    apply bind_ok_inv in H. destruct H as ([[[nm t] o] q] & Ev & H).
    destruct (after_variant_wf _ _ _ _ _ Hd Ev) as (Hn & Ht & Ho & Hq & Hlen & Hnone).
    apply bind_ok_inv in H. destruct H as ([sv n] & Es & H). apply step_ok_inv in Es.
    inversion H; subst. destruct (um_number_wf _ _ _ Hq Es) as (b & -> & Hb).
    destruct (um_number_consumed _ _ _ Es) as (Hsz & w & rest & E & Hl).
    apply N.ltb_lt in Ht. apply N.ltb_lt in Hb.
    destruct o as [ov|]; [|rewrite (Hnone eq_refl) in Es; discriminate].
    cbn [wf_pkt kind_of psize amf_num]. unfold wf_f64. rewrite Hn, Ht, Ho, Hb.
    repeat split; try reflexivity. rewrite E, lenN_app in Hlen. cbn [size] in *. lia.
  - (* publish *)
    apply bind_ok_inv in H. destruct H as ([[[nm t] o] q] & Ev & H).
    destruct (after_variant_wf _ _ _ _ _ Hd Ev) as (Hn & Ht & Ho & Hq & Hlen & Hnone).
    apply bind_ok_inv in H. destruct H as ([sn n] & Es & H). apply step_ok_inv in Es.
    destruct (um_string_wf _ _ _ Hq Es) as (s1 & -> & Hs1).
    destruct (um_string_consumed _ _ _ Es) as (Hsz & w & rest & E & Hl).
    rewrite E in H. rewrite drop_app in H by (symmetry; exact Hl). cbn [bind] in H.
    apply bind_ok_inv in H. destruct H as ([st n2] & Es2 & H). apply step_ok_inv in Es2.
    assert (Hr : wf_bytes rest) by (rewrite E in Hq; exact (wf_bytes_suffix _ _ Hq)).
    destruct (um_string_wf _ _ _ Hr Es2) as (s2 & -> & Hs2).
    destruct (um_string_consumed _ _ _ Es2) as (Hsz2 & w2 & rest2 & E2 & Hl2).
    inversion H; subst. apply N.ltb_lt in Ht.
    destruct o as [ov|]; [|rewrite (Hnone eq_refl) in Es; discriminate].
    cbn [wf_pkt kind_of psize amf_str]. unfold wf_f64. rewrite Hn, Ht, Ho, Hs1, Hs2.
    repeat split; try reflexivity. rewrite !lenN_app in Hlen. lia.
  - (* play *)
    apply bind_ok_inv in H. destruct H as ([[[nm t] o] q] & Ev & H).
    destruct (after_variant_wf _ _ _ _ _ Hd Ev) as (Hn & Ht & Ho & Hq & Hlen & Hnone).
    apply bind_ok_inv in H. destruct H as ([sn n] & Es & H). apply step_ok_inv in Es.
    destruct (um_string_wf _ _ _ Hq Es) as (s1 & -> & Hs1).
    destruct (um_string_consumed _ _ _ Es) as (Hsz & w & rest & E & Hl).
    rewrite E in H. rewrite drop_app in H by (symmetry; exact Hl). cbn [bind] in H.
    inversion H; subst. apply N.ltb_lt in Ht.
    destruct o as [ov|]; [|rewrite (Hnone eq_refl) in Es; discriminate].
    cbn [wf_pkt kind_of psize amf_str]. unfold wf_f64. rewrite Hn, Ht, Ho, Hs1.
    repeat split; try reflexivity. rewrite !lenN_app in Hlen. lia.
  - (* set chunk size *)
    unfold um_control4 in H. destruct data as [|a [|b [|c [|d rest]]]]; try discriminate.
    cbn [bind] in H. inversion H; subst.
    apply wf_bytes_inv in Hd. destruct Hd as [Ha Hd]. apply wf_bytes_inv in Hd. destruct Hd as [Hb Hd].
    apply wf_bytes_inv in Hd. destruct Hd as [Hc' Hd]. apply wf_bytes_inv in Hd. destruct Hd as [Hd' Hd].
    pose proof (ube4_bound a b c d Ha Hb Hc' Hd') as B.
    cbn [wf_pkt kind_of psize]. unfold wf_u32. repeat split; [apply N.ltb_lt; exact B|].
    rewrite !lenN_cons. change (gen_size (Gen_rtmp.rtmp_SetChunkSize_Size tt)) with 4. lia.
  - unfold um_control4 in H. destruct data as [|a [|b [|c [|d rest]]]]; try discriminate.
    cbn [bind] in H. inversion H; subst.
    apply wf_bytes_inv in Hd. destruct Hd as [Ha Hd]. apply wf_bytes_inv in Hd. destruct Hd as [Hb Hd].
    apply wf_bytes_inv in Hd. destruct Hd as [Hc' Hd]. apply wf_bytes_inv in Hd. destruct Hd as [Hd' Hd].
    pose proof (ube4_bound a b c d Ha Hb Hc' Hd') as B.
    cbn [wf_pkt kind_of psize]. unfold wf_u32. repeat split; [apply N.ltb_lt; exact B|].
    rewrite !lenN_cons. change (gen_size (Gen_rtmp.rtmp_WindowAcknowledgementSize_Size tt)) with 4. lia.
  - destruct data as [|a [|b [|c [|d [|e rest]]]]]; try discriminate.
    inversion H; subst.
    apply wf_bytes_inv in Hd. destruct Hd as [Ha Hd]. apply wf_bytes_inv in Hd. destruct Hd as [Hb Hd].
    apply wf_bytes_inv in Hd. destruct Hd as [Hc' Hd]. apply wf_bytes_inv in Hd. destruct Hd as [Hd' Hd].
    apply wf_bytes_inv in Hd. destruct Hd as [He Hd].
    pose proof (ube4_bound a b c d Ha Hb Hc' Hd') as B.
    cbn [wf_pkt kind_of psize]. unfold wf_u32.
    repeat split; [apply andb_true_iff; split; apply N.ltb_lt; assumption|].
    rewrite !lenN_cons. change (gen_size (Gen_rtmp.rtmp_SetPeerBandwidth_Size tt)) with 5. lia.
  - (* user control *)
    destruct data as [|a [|b body]]; try discriminate.
    destruct (is_nil body) eqn:Eb; [discriminate|].
    destruct (lenN (a :: b :: body) <? uc_size (ube2 a b)) eqn:El; [discriminate|].
    apply N.ltb_ge in El.
    apply wf_bytes_inv in Hd. destruct Hd as [Ha Hd]. apply wf_bytes_inv in Hd. destruct Hd as [Hb Hd].
    pose proof (ube2_bound a b Ha Hb) as Bet.
    assert (Hfin : forall dd xx, (if ube2 a b =? etFmsEvent0 then dd < 256 else dd < 4294967296) ->
                               (if ube2 a b =? etSetBufferLength then xx < 4294967296 else xx = 0) ->
             wf_pkt (PUserControl (ube2 a b) dd xx) = true).
    { intros dd xx Hd' Hx. cbn [wf_pkt]. apply andb_true_iff; split; [apply andb_true_iff; split|].
      - apply N.ltb_lt; exact Bet.
      - destruct (ube2 a b =? etFmsEvent0); [apply N.ltb_lt|unfold wf_u32; apply N.ltb_lt]; exact Hd'.
      - destruct (ube2 a b =? etSetBufferLength); [unfold wf_u32; apply N.ltb_lt|apply N.eqb_eq]; exact Hx. }
    apply bind_ok_inv in H. destruct H as (dd & Ed & H).
    apply bind_ok_inv in H. destruct H as (xx & Ex & H). inversion H; subst p.
    cbn [kind_of psize]. split; [|split; [reflexivity|exact El]].
    apply Hfin.
    + destruct (ube2 a b =? etFmsEvent0).
      * destruct body as [|c r]; [discriminate|]. inversion Ed; subst.
        apply wf_bytes_inv in Hd. tauto.
      * destruct body as [|c1 [|c2 [|c3 [|c4 r]]]]; try discriminate. inversion Ed; subst.
        apply wf_bytes_inv in Hd. destruct Hd as [H1 Hd]. apply wf_bytes_inv in Hd. destruct Hd as [H2 Hd].
        apply wf_bytes_inv in Hd. destruct Hd as [H3 Hd]. apply wf_bytes_inv in Hd. destruct Hd as [H4 Hd].
        exact (ube4_bound _ _ _ _ H1 H2 H3 H4).
    + destruct (ube2 a b =? etSetBufferLength).
      * destruct body as [|c1 [|c2 [|c3 [|c4 [|c5 [|c6 [|c7 [|c8 r]]]]]]]]; try discriminate. inversion Ex; subst.
        repeat (apply wf_bytes_inv in Hd; let Hx := fresh "Hx" in destruct Hd as [Hx Hd]).
        apply ube4_bound; assumption.
      * inversion Ex. reflexivity.
Qed.

(* UnmarshalBinary overwrites: the result depends on the receiver's TYPE only, never on the value
   it already holds (any earlier decode, any constructed packet) *)
Theorem unmarshal_overwrites old old' data :
  kind_of old = kind_of old' -> unmarshal old data = unmarshal old' data.
Proof.
  destruct old, old'; cbn [kind_of]; intros Hk; try discriminate; reflexivity.
Qed.

Lemma unmarshal_receiver_irrelevant r p data :
  kind_of p = kind_of r -> unmarshal (receiver_for p) data = unmarshal r data.
Proof.
  intros Hk. apply unmarshal_overwrites. rewrite <- Hk. destruct p; reflexivity.
Qed.

(* ... and a fixed point: its bytes decode, on any receiver of its type, to itself *)
Theorem unmarshal_fixed_point r data p :
  wf_bytes data -> unmarshal r data = Ok p ->
  unmarshal r (marshal p) = Ok p /\ psize p <= lenN data.
Proof.
  intros Hd H. destruct (unmarshal_decoded r data p Hd H) as (Hwf & Hk & Hsz).
  split; [|exact Hsz]. rewrite <- (unmarshal_receiver_irrelevant r p _ Hk).
  exact (unmarshal_marshal p Hwf).
Qed.

(* whatever DecodeMessage returns is a well-formed packet that re-marshals to no more than the
   payload and whose bytes decode to the same packet again *)
Theorem decode_message_decoded t mt payload p t' :
  wf_bytes payload -> decode_message t mt payload = (Ok p, t') ->
  wf_pkt p = true /\ psize p <= lenN payload /\ unmarshal (receiver_for p) (marshal p) = Ok p.
Proof.
  intros Hp H. unfold decode_message in H. destruct payload as [|x tl]; [discriminate|].
  set (q := if (mt =? mtAMF3Command) || (mt =? mtAMF3Data) then tl else x :: tl) in *.
  assert (Hq : wf_bytes q).
  { unfold q. destruct ((mt =? mtAMF3Command) || (mt =? mtAMF3Data)); [|exact Hp].
    apply wf_bytes_inv in Hp. tauto. }
  assert (Hlen : lenN q <= lenN (x :: tl)).
  { unfold q. destruct ((mt =? mtAMF3Command) || (mt =? mtAMF3Data)); rewrite ?lenN_cons; lia. }
  assert (Hfin : forall r, unmarshal r q = Ok p ->
            wf_pkt p = true /\ psize p <= lenN (x :: tl) /\ unmarshal (receiver_for p) (marshal p) = Ok p).
  { intros r Hu. destruct (unmarshal_decoded r q p Hq Hu) as (Hwf & Hk & Hsz).
    repeat split; [exact Hwf|lia|exact (unmarshal_marshal p Hwf)]. }
  destruct (mt =? mtSetChunkSize); [injection H as H1 H2; apply (Hfin new_set_chunk_size); exact H1|].
  destruct (mt =? mtWinAck); [injection H as H1 H2; apply (Hfin new_win_ack); exact H1|].
  destruct (mt =? mtSetPeerBw); [injection H as H1 H2; apply (Hfin new_set_peer_bw); exact H1|].
  destruct (is_amf_type mt).
  - destruct (parse_amf_object t q) as [[r|e|s] t1] eqn:Ep; try discriminate.
    injection H as H1 H2. apply (Hfin r); exact H1.
  - destruct (mt =? mtUserControl); [|discriminate]. injection H as H1 H2. apply (Hfin new_user_control); exact H1.
Qed.

(* k payloads in sequence into ONE packet object (the caller stops at the first failure): every
   step yields what a fresh packet of that type yields for the same bytes *)
Fixpoint decode_seq (r : pkt) (ds : list bytes) : list (res pkt) :=
  match ds with
  | [] => []
  | d :: t => match unmarshal_into r d with
              | Ok p => Ok p :: decode_seq p t
              | other => [other]
              end
  end.

Fixpoint until_fail (l : list (res pkt)) : list (res pkt) :=
  match l with
  | [] => []
  | Ok p :: t => Ok p :: until_fail t
  | other :: _ => [other]
  end.

Theorem reuse_is_fresh r0 ds : Forall wf_bytes ds ->
  forall r, kind_of r = kind_of r0 -> decode_seq r ds = until_fail (map (unmarshal r0) ds).
Proof.
  induction 1 as [|d ds Hd Hds IH]; intros r Hk; [reflexivity|].
  cbn [decode_seq map until_fail]. unfold unmarshal_into.
  rewrite (unmarshal_overwrites r r0 d Hk).
  destruct (unmarshal r0 d) as [p|e|s] eqn:E; try reflexivity.
  f_equal. apply IH. destruct (unmarshal_decoded r0 d p Hd E) as (_ & Hkp & _). exact Hkp.
Qed.
