(* Proofs for Model/RtmpTx.v (C04): with the request registered before its bytes are handed to the
   transport, every response is matched to its request under every schedule. *)
From Coq Require Import String.
From Verif Require Import Gen.Gen_rtmp.
From Verif Require Import Lib.Base Lib.Sx Lib.Sched Model.RtmpTx.
Import List ListNotations.
Open Scope Z_scope.

(* ------------------------------------------------------------------ the code under the discipline *)
Definition code_nf (k : nat) : list tinstr :=
  [XMarshal; XLock; XEnter; XExit (MStore k); XUnlock; XWrite k; XEnd].
Definition code_f (k : nat) : list tinstr :=
  [XMarshal; XLock; XEnter; XExit (MStore k); XUnlock; XWrite k; XLock; XEnter; XExit (MDelete k); XUnlock; XEnd].
Definition code_nn (k : nat) : list tinstr := [XMarshal; XWrite k; XEnd].
Definition code_rd : list tinstr := [XRead; XLock; XEnter; XExit MLoad; XEnter; XExit MDeleteHeld; XUnlock].

Lemma tx_safeb_spec sk : tx_safeb sk = true ->
  k_wm sk = [WChunk; WChunk; WFlush; WHook] /\
  k_wp sk = [TMarshal; TRegister; TWrite; TUnregFail] /\ k_reg sk = [ALock; AStore; AUnlock] /\
  k_unreg sk = [ALock; ADelete; AUnlock] /\ k_look sk = [ALock; ALoad; ADelete; AUnlock].
Proof.
  unfold tx_safeb. intros H. apply andb_true_iff in H. destruct H as (_ & H).
  destruct (k_wm sk) as [|[] [|[] [|[] [|[] [|]]]]]; try discriminate.
  destruct (k_wp sk) as [|[] [|[] [|[] [|[] [|]]]]]; try discriminate.
  destruct (k_reg sk) as [|[] [|[] [|[] [|]]]]; try discriminate.
  destruct (k_unreg sk) as [|[] [|[] [|[] [|]]]]; try discriminate.
  destruct (k_look sk) as [|[] [|[] [|[] [|[] [|]]]]]; try discriminate.
  auto.
Qed.

Lemma req_code_safe sk k q : tx_safeb sk = true ->
  req_code sk k q = if needs q then (if q_fail q then code_f k else code_nf k) else code_nn k.
Proof.
  intros H. apply tx_safeb_spec in H. destruct H as (H0 & H1 & H2 & H3 & _).
  unfold req_code. rewrite H1. cbn [flat_map tev_code]. rewrite H0, H2, H3. cbn [wm_code].
  destruct (needs q), (q_fail q); reflexivity.
Qed.

Lemma reader_code_safe sk : tx_safeb sk = true -> reader_code sk = code_rd.
Proof.
  intros H. apply tx_safeb_spec in H. destruct H as (_ & _ & _ & _ & H4). unfold reader_code. now rewrite H4.
Qed.

(* ------------------------------------------------------------------ table lemmas *)
Lemma tab_get_del_same tid m : tab_get tid (tab_del tid m) = None.
Proof.
  induction m as [|[k v] m IH]; cbn; [reflexivity|].
  destruct (k =? tid) eqn:E; [exact IH|]. cbn. now rewrite E.
Qed.
Lemma tab_get_del_other tid tid' m : tid <> tid' -> tab_get tid' (tab_del tid m) = tab_get tid' m.
Proof.
  intros Hne. induction m as [|[k v] m IH]; cbn; [reflexivity|].
  destruct (k =? tid) eqn:E.
  - apply Z.eqb_eq in E. subst k. destruct (tid =? tid') eqn:E'; [apply Z.eqb_eq in E'; contradiction|exact IH].
  - cbn. destruct (k =? tid'); [reflexivity|exact IH].
Qed.
Lemma tab_get_set_same tid v m : tab_get tid (tab_set tid v m) = Some v.
Proof. unfold tab_set. cbn. now rewrite Z.eqb_refl. Qed.
Lemma tab_get_set_other tid tid' v m : tid <> tid' -> tab_get tid' (tab_set tid v m) = tab_get tid' m.
Proof.
  intros Hne. unfold tab_set. cbn. destruct (tid =? tid') eqn:E; [apply Z.eqb_eq in E; contradiction|].
  now apply tab_get_del_other.
Qed.

Lemma mem_In k l : mem k l = true <-> In k l.
Proof.
  unfold mem. rewrite existsb_exists. split.
  - intros (x & Hx & E). apply Nat.eqb_eq in E. now subst.
  - intros H. exists k. split; [exact H|apply Nat.eqb_refl].
Qed.

Lemma NoDup_app_snoc {A} (l : list A) x : NoDup l -> ~ In x l -> NoDup (l ++ [x]).
Proof.
  intros Hl Hx. induction Hl as [|y l Hy Hl IH]; cbn; [constructor; [intros []|constructor]|].
  constructor.
  - rewrite in_app_iff. cbn. intros [H|[H|[]]]; [contradiction|subst; apply Hx; now left].
  - apply IH. intros H; apply Hx; now right.
Qed.

Section Safe.
  Variables (sk : tskel) (reqs : list req).
  Hypothesis Hsafe : tx_safeb sk = true.
  (* requests that expect a response carry pairwise different transaction ids *)
  Hypothesis Hdist : forall k k', needs (rq reqs k) = true -> needs (rq reqs k') = true ->
                                  q_tid (rq reqs k) = q_tid (rq reqs k') -> k = k'.
  Notation Rq k := (rq reqs k).
  Notation keys s := (map fst (t_log s)).

  (* where the writer is in WritePacket(k) *)
  Definition wdoneb (k pc : nat) : bool := if needs (Rq k) then (6 <=? pc)%nat else (2 <=? pc)%nat.
  Definition WF (s : tstate) (cur : option nat) (pc : nat) (todo : list nat) : Prop :=
    match cur with
    | None => todo = []
    | Some k =>
        (In k (t_reg s) <-> needs (Rq k) && (4 <=? pc)%nat = true) /\
        (In k (t_sent s) <-> negb (q_fail (Rq k)) && wdoneb k pc = true) /\
        (In k (t_failed s) <-> q_fail (Rq k) && wdoneb k pc = true) /\
        (In k (t_clean s) <-> needs (Rq k) && q_fail (Rq k) && (9 <=? pc)%nat = true) /\
        ~ In k todo
    end /\
    NoDup todo /\
    (forall k', In k' todo -> ~ In k' (t_reg s) /\ ~ In k' (t_sent s) /\ ~ In k' (t_failed s) /\ ~ In k' (t_clean s)).

  (* 1 while the reader holds a response it has not looked up yet *)
  Definition hand (rpc : nat) : nat := if ((1 <=? rpc) && (rpc <=? 3))%nat then 1%nat else 0%nat.
  Definition RF (s : tstate) (rpc : nat) (held : option nat) (found : option Z) : Prop :=
    (rpc <= 6)%nat /\
    ((1 <= rpc <= 3)%nat -> exists k, held = Some k /\ In k (t_answered s) /\ ~ In k (t_queue s) /\ ~ In k (keys s)) /\
    ((4 <= rpc <= 5)%nat -> exists k, held = Some k /\ found = Some (q_name (Rq k)) /\ In k (keys s) /\ ~ In k (t_del s)).

  Record Inv2 (s : tstate) : Prop := {
    i_w : exists cur pc todo, nth_error (t_ths s) 0 = Some (TWriter cur pc todo) /\ WF s cur pc todo;
    i_r : exists rpc held found, nth_error (t_ths s) 1 = Some (TReader rpc held found) /\ RF s rpc held found;
    i_p : forall i t, (2 <= i)%nat -> nth_error (t_ths s) i = Some t -> exists k d, t = TPeer k d;
    i_sent : forall k, In k (t_sent s) -> q_fail (Rq k) = false /\ (needs (Rq k) = true -> In k (t_reg s));
    i_clean : forall k, In k (t_clean s) -> q_fail (Rq k) = true;
    i_ans : forall k, In k (t_answered s) -> In k (t_sent s) /\ needs (Rq k) = true;
    i_q : NoDup (t_queue s);
    i_l : NoDup (keys s);
    i_qa : forall k, In k (t_queue s) -> In k (t_answered s) /\ ~ In k (keys s);
    i_la : forall k, In k (keys s) -> In k (t_answered s);
    i_del : forall k, In k (t_del s) -> In k (keys s);
    i_tab : forall tid v, tab_get tid (t_tab s) = Some v <->
              exists k, needs (Rq k) = true /\ q_tid (Rq k) = tid /\ q_name (Rq k) = v /\
                        In k (t_reg s) /\ ~ In k (t_clean s) /\ ~ In k (t_del s);
    i_log : forall k o, In (k, o) (t_log s) -> o = Some (q_name (Rq k));
    (* conservation: every answered response is in flight, in the reader's hand, or looked up *)
    i_cnt : forall rpc held found, nth_error (t_ths s) 1 = Some (TReader rpc held found) ->
              length (t_answered s) = (length (t_queue s) + length (t_log s) + hand rpc)%nat }.

  Ltac tfields := cbn [t_lk t_inuse t_raced t_tab t_ths t_sent t_failed t_queue t_answered t_reg t_clean t_del t_log].

  (* a step that changes nothing but the lock, the map-access marker and thread [j] *)
  Lemma frame s s' j t' :
    Inv2 s ->
    t_tab s' = t_tab s -> t_sent s' = t_sent s -> t_failed s' = t_failed s -> t_queue s' = t_queue s ->
    t_answered s' = t_answered s -> t_reg s' = t_reg s -> t_clean s' = t_clean s -> t_del s' = t_del s ->
    t_log s' = t_log s -> t_ths s' = upd j t' (t_ths s) ->
    (exists t, nth_error (t_ths s) j = Some t) ->
    (j = 0%nat -> exists cur pc todo, t' = TWriter cur pc todo /\ WF s' cur pc todo) ->
    (j = 1%nat -> exists rpc held found, t' = TReader rpc held found /\ RF s' rpc held found) ->
    ((2 <= j)%nat -> exists k d, t' = TPeer k d) ->
    (j = 1%nat -> forall rpc h f rpc' h' f', nth_error (t_ths s) 1 = Some (TReader rpc h f) ->
                  t' = TReader rpc' h' f' -> hand rpc' = hand rpc) ->
    Inv2 s'.
  Proof.
    intros HI Et Es Ef Eq Ea Er Ec Ed El Eths (t0 & Ej) Hw Hr Hp Hh.
    destruct (i_w _ HI) as (cur & pc & todo & E0 & HW). destruct (i_r _ HI) as (rpc & held & found & E1 & HR).
    constructor; rewrite ?Et, ?Es, ?Ef, ?Eq, ?Ea, ?Er, ?Ec, ?Ed, ?El, ?Eths.
    - destruct (Nat.eq_dec j 0) as [->|Hne].
      + destruct (Hw eq_refl) as (c' & p' & t'' & -> & HW'). exists c', p', t''. split; [eapply nth_upd_same; eauto|exact HW'].
      + exists cur, pc, todo. split; [now rewrite nth_upd_other|].
        unfold WF in *. now rewrite Es, Ef, Er, Ec.
    - destruct (Nat.eq_dec j 1) as [->|Hne].
      + destruct (Hr eq_refl) as (r' & h' & f' & -> & HR'). exists r', h', f'. split; [eapply nth_upd_same; eauto|exact HR'].
      + exists rpc, held, found. split; [now rewrite nth_upd_other|].
        unfold RF in *. now rewrite Ea, Eq, El, Ed.
    - intros i t Hi Hn. apply nth_upd_cases in Hn. destruct Hn as [(<- & -> & _)|(Hne & Hn)]; [now apply Hp|].
      eapply (i_p _ HI); eauto.
    - apply (i_sent _ HI). - apply (i_clean _ HI). - apply (i_ans _ HI). - apply (i_q _ HI). - apply (i_l _ HI).
    - apply (i_qa _ HI). - apply (i_la _ HI).
    - apply (i_del _ HI). - apply (i_tab _ HI). - apply (i_log _ HI).
    - intros r' h' f' Hn. destruct (Nat.eq_dec j 1) as [->|Hne].
      + rewrite (nth_upd_same _ _ _ _ E1) in Hn. injection Hn as ->.
        rewrite (Hh eq_refl rpc held found r' h' f' E1 eq_refl). apply (i_cnt _ HI _ _ _ E1).
      + rewrite nth_upd_other in Hn by exact Hne. apply (i_cnt _ HI _ _ _ Hn).
  Qed.

  Lemma cnt_kept s j t' : Inv2 s -> j <> 1%nat ->
    forall rpc h f, nth_error (upd j t' (t_ths s)) 1 = Some (TReader rpc h f) ->
      length (t_answered s) = (length (t_queue s) + length (t_log s) + hand rpc)%nat.
  Proof.
    intros HI Hne rpc h f Hn. rewrite nth_upd_other in Hn by exact Hne. apply (i_cnt _ HI _ _ _ Hn).
  Qed.

  Ltac wf_solve := unfold WF, wdoneb, set_ths in *; tfields; cbn [In];
    try match goal with E : needs (rq reqs _) = _ |- _ => rewrite E in * end;
    try match goal with E : q_fail (rq reqs _) = _ |- _ => rewrite E in * end;
    cbn [andb negb Nat.leb] in *;
    assert (Htt : true = true) by reflexivity;
    repeat match goal with H : _ /\ _ |- _ => destruct H end;
    repeat split; intros;
    try match goal with H : forall k', In k' ?todo -> _, Hin : In _ ?todo |- _ => destruct (H _ Hin) as (? & ? & ? & ?) end;
    try tauto; try congruence; try (intuition congruence; fail).

  Ltac wframe HI E0 :=
    eapply (frame _ _ 0%nat); [exact HI|reflexivity|reflexivity|reflexivity|reflexivity|reflexivity|reflexivity|reflexivity|reflexivity|reflexivity|reflexivity|eauto| |intros; discriminate|intros; lia|intros; discriminate];
    intros _; do 3 eexists; split; [reflexivity|].

  (* the facts of the other clauses that a writer step leaves alone *)
  Ltac keep HI := first [ apply (i_sent _ HI) | apply (i_clean _ HI) | apply (i_ans _ HI) | apply (i_q _ HI)
                        | apply (i_l _ HI) | apply (i_qa _ HI) | apply (i_la _ HI) | apply (i_del _ HI)
                        | apply (i_tab _ HI) | apply (i_log _ HI)
                        | apply (cnt_kept _ 0%nat); [exact HI|lia] ].

  Lemma reader_kept s s' t' : Inv2 s ->
    t_ths s' = upd 0 t' (t_ths s) -> t_answered s' = t_answered s -> t_queue s' = t_queue s ->
    t_log s' = t_log s -> t_del s' = t_del s ->
    exists rpc held found, nth_error (t_ths s') 1 = Some (TReader rpc held found) /\ RF s' rpc held found.
  Proof.
    intros HI Eths Ea Eq El Ed. destruct (i_r _ HI) as (rpc & held & found & E1 & HR).
    exists rpc, held, found. rewrite Eths. split; [now rewrite nth_upd_other|].
    unfold RF in *. now rewrite Ea, Eq, El, Ed.
  Qed.

  Lemma peers_kept s s' j t' : Inv2 s -> (j < 2)%nat -> t_ths s' = upd j t' (t_ths s) ->
    forall i t, (2 <= i)%nat -> nth_error (t_ths s') i = Some t -> exists k d, t = TPeer k d.
  Proof.
    intros HI Hj Eths i t Hi Hn. rewrite Eths in Hn. rewrite nth_upd_other in Hn by lia. eapply (i_p _ HI); eauto.
  Qed.

  Ltac wcons HI :=
    constructor;
    [ idtac
    | eapply reader_kept; [exact HI|reflexivity|reflexivity|reflexivity|reflexivity|reflexivity]
    | eapply peers_kept; [exact HI| |reflexivity]; lia
    | idtac .. ];
    tfields; try (keep HI).

  (* the table after the writer stored / somebody deleted the entry of request k *)
  Lemma tab_after_store s k (HI : Inv2 s) :
    needs (Rq k) = true -> ~ In k (t_clean s) -> ~ In k (t_sent s) ->
    forall tid v, tab_get tid (tab_set (q_tid (Rq k)) (q_name (Rq k)) (t_tab s)) = Some v <->
      exists k0, needs (Rq k0) = true /\ q_tid (Rq k0) = tid /\ q_name (Rq k0) = v /\
                 In k0 (k :: t_reg s) /\ ~ In k0 (t_clean s) /\ ~ In k0 (t_del s).
  Proof.
    intros Hn Hc Hs tid v.
    assert (Hd : ~ In k (t_del s)).
    { intros H. apply (i_del _ HI) in H. apply (i_la _ HI) in H. apply (i_ans _ HI) in H. tauto. }
    destruct (Z.eq_dec (q_tid (Rq k)) tid) as [<-|Hne].
    - rewrite tab_get_set_same. split.
      + intros H. injection H as <-. exists k. cbn. tauto.
      + intros (k0 & Hn0 & Ht & Hv & _). assert (k0 = k) by (apply Hdist; auto). subst k0. now rewrite Hv.
    - rewrite tab_get_set_other by exact Hne. rewrite (i_tab _ HI). split.
      + intros (k0 & H1 & H2 & H3 & H4 & H5). exists k0. cbn. tauto.
      + intros (k0 & H1 & H2 & H3 & [->|H4] & H5); [contradiction|]. exists k0. tauto.
  Qed.

  Lemma tab_after_del s k (HI : Inv2 s) :
    needs (Rq k) = true ->
    forall cl dl, ((cl = k :: t_clean s /\ dl = t_del s) \/ (cl = t_clean s /\ dl = k :: t_del s)) ->
    forall tid v, tab_get tid (tab_del (q_tid (Rq k)) (t_tab s)) = Some v <->
      exists k0, needs (Rq k0) = true /\ q_tid (Rq k0) = tid /\ q_name (Rq k0) = v /\
                 In k0 (t_reg s) /\ ~ In k0 cl /\ ~ In k0 dl.
  Proof.
    intros Hn cl dl Hcd tid v.
    destruct (Z.eq_dec (q_tid (Rq k)) tid) as [<-|Hne].
    - rewrite tab_get_del_same. split; [discriminate|].
      intros (k0 & Hn0 & Ht & _ & _ & Hc & Hd). assert (k0 = k) by (apply Hdist; auto). subst k0.
      exfalso. destruct Hcd as [(-> & ->)|(-> & ->)]; cbn in *; tauto.
    - rewrite tab_get_del_other by exact Hne. rewrite (i_tab _ HI). split.
      + intros (k0 & H1 & H2 & H3 & H4 & H5 & H6). exists k0. repeat (split; [assumption|]).
        assert (k0 <> k) by (intros ->; contradiction).
        destruct Hcd as [(-> & ->)|(-> & ->)]; cbn; intuition congruence.
      + intros (k0 & H1 & H2 & H3 & H4 & H5 & H6). exists k0. repeat (split; [assumption|]).
        destruct Hcd as [(-> & ->)|(-> & ->)]; cbn in *; intuition congruence.
  Qed.

  Lemma writer_step s : Inv2 s -> Inv2 (tstep sk reqs s 0).
  Proof.
    intros HI. destruct (i_w _ HI) as (cur & pc & todo & E0 & HW).
    unfold tstep. rewrite E0. cbn [fetch]. destruct cur as [k|]; [|exact HI]. rewrite req_code_safe by assumption.
    assert (Hstore : needs (Rq k) = true -> pc = 3%nat ->
      Inv2 {| t_lk := t_lk s;
              t_inuse := match t_inuse s with Some h => if Nat.eqb h 0 then None else Some h | None => None end;
              t_raced := t_raced s; t_tab := tab_set (q_tid (Rq k)) (q_name (Rq k)) (t_tab s);
              t_ths := upd 0 (advance sk (TWriter (Some k) pc todo)) (t_ths s);
              t_sent := t_sent s; t_failed := t_failed s; t_queue := t_queue s; t_answered := t_answered s;
              t_reg := k :: t_reg s; t_clean := t_clean s; t_del := t_del s; t_log := t_log s |}).
    { intros En ->. wcons HI.
      - do 3 eexists. split; [eapply nth_upd_same; eauto|]. cbn [advance].
        assert (forall k', In k' todo -> k' <> k) by (intros k' H ->; unfold WF in HW; tauto).
        wf_solve; try (apply H in H5; tauto). 
      - intros k0 Hk0. destruct (i_sent _ HI k0 Hk0). cbn. tauto.
      - apply tab_after_store; auto; unfold WF, wdoneb in HW; rewrite En in HW; cbn in HW;
          destruct (q_fail (Rq k)); cbn in HW; intuition congruence. }
    assert (Hwrite : (if needs (Rq k) then pc = 5%nat else pc = 1%nat) ->
      Inv2 (if q_fail (Rq k) then
              {| t_lk := t_lk s; t_inuse := t_inuse s; t_raced := t_raced s; t_tab := t_tab s;
                 t_ths := upd 0 (advance sk (TWriter (Some k) pc todo)) (t_ths s);
                 t_sent := t_sent s; t_failed := k :: t_failed s; t_queue := t_queue s; t_answered := t_answered s;
                 t_reg := t_reg s; t_clean := t_clean s; t_del := t_del s; t_log := t_log s |}
            else
              {| t_lk := t_lk s; t_inuse := t_inuse s; t_raced := t_raced s; t_tab := t_tab s;
                 t_ths := upd 0 (advance sk (TWriter (Some k) pc todo)) (t_ths s);
                 t_sent := k :: t_sent s; t_failed := t_failed s; t_queue := t_queue s; t_answered := t_answered s;
                 t_reg := t_reg s; t_clean := t_clean s; t_del := t_del s; t_log := t_log s |})).
    { intros Hpc.
      assert (Hk' : forall k', In k' todo -> k' <> k) by (intros k' H ->; unfold WF in HW; tauto).
      destruct (q_fail (Rq k)) eqn:Efl; wcons HI.
      - do 3 eexists. split; [eapply nth_upd_same; eauto|]. cbn [advance].
        destruct (needs (Rq k)) eqn:En; subst pc; wf_solve; try (apply Hk' in H5; tauto).
      - do 3 eexists. split; [eapply nth_upd_same; eauto|]. cbn [advance].
        destruct (needs (Rq k)) eqn:En; subst pc; wf_solve; try (apply Hk' in H5; tauto).
      - intros k0 [<-|Hk0]; [|apply (i_sent _ HI k0 Hk0)]. split; [exact Efl|].
        intros En. rewrite En in Hpc. subst pc. unfold WF in HW. rewrite En in HW. cbn in HW. tauto.
      - intros k0 Hk0. destruct (i_ans _ HI k0 Hk0). cbn. tauto. }
    destruct (needs (Rq k)) eqn:En; [destruct (q_fail (Rq k)) eqn:Efl|].
    - (* expects a response, the transport fails: register, write, clean up *)
      rewrite ?En, ?Efl in Hwrite. unfold code_f. destruct pc as [|[|[|[|[|[|[|[|[|[|[|pc]]]]]]]]]]]; cbn [nth_error]; try exact HI; try (destruct pc; exact HI).
      + wframe HI E0. cbn [advance]. wf_solve.
      + destruct (t_lk s); [exact HI|]. wframe HI E0. cbn [advance]. wf_solve.
      + wframe HI E0. cbn [advance]. wf_solve.
      + apply Hstore; reflexivity.
      + wframe HI E0. cbn [advance]. wf_solve.
      + rewrite ?Efl. apply Hwrite; reflexivity.
      + destruct (t_lk s); [exact HI|]. wframe HI E0. cbn [advance]. wf_solve.
      + wframe HI E0. cbn [advance]. wf_solve.
      + (* clean up: delete the entry again *)
        wcons HI.
        * do 3 eexists. split; [eapply nth_upd_same; eauto|]. cbn [advance].
          assert (Hk' : forall k', In k' todo -> k' <> k) by (intros k' H ->; unfold WF in HW; tauto).
          wf_solve; try (apply Hk' in H5; tauto).
        * intros k0 [<-|Hk0]; [exact Efl|apply (i_clean _ HI k0 Hk0)].
        * apply tab_after_del; auto.
      + wframe HI E0. cbn [advance]. wf_solve.
      + destruct todo as [|k' rest]; cbn [next_request]; wframe HI E0; wf_solve.
        all: try (inversion H0; subst; tauto). all: try (apply H1; now right).
        all: try (destruct (H1 k' (or_introl eq_refl)) as (? & ? & ? & ?); destruct (needs (Rq k')), (q_fail (Rq k')); cbn in *; try discriminate; try tauto; intuition congruence).
    - (* expects a response, the write succeeds *)
      rewrite ?En, ?Efl in Hwrite. unfold code_nf. destruct pc as [|[|[|[|[|[|[|pc]]]]]]]; cbn [nth_error]; try exact HI; try (destruct pc; exact HI).
      + wframe HI E0. cbn [advance]. wf_solve.
      + destruct (t_lk s); [exact HI|]. wframe HI E0. cbn [advance]. wf_solve.
      + wframe HI E0. cbn [advance]. wf_solve.
      + apply Hstore; reflexivity.
      + wframe HI E0. cbn [advance]. wf_solve.
      + rewrite ?Efl. apply Hwrite; reflexivity.
      + destruct todo as [|k' rest]; cbn [next_request]; wframe HI E0; wf_solve.
        all: try (inversion H0; subst; tauto). all: try (apply H1; now right).
        all: try (destruct (H1 k' (or_introl eq_refl)) as (? & ? & ? & ?); destruct (needs (Rq k')), (q_fail (Rq k')); cbn in *; try discriminate; try tauto; intuition congruence).
    - (* expects no response *)
      rewrite ?En in Hwrite. unfold code_nn. destruct pc as [|[|[|pc]]]; cbn [nth_error]; try exact HI; try (destruct pc; exact HI).
      + wframe HI E0. cbn [advance]. wf_solve.
      + rewrite ?Efl. apply Hwrite; reflexivity.
      + destruct todo as [|k' rest]; cbn [next_request]; wframe HI E0; wf_solve.
        all: try (inversion H0; subst; tauto). all: try (apply H1; now right).
        all: try (destruct (H1 k' (or_introl eq_refl)) as (? & ? & ? & ?); destruct (needs (Rq k')), (q_fail (Rq k')); cbn in *; try discriminate; try tauto; intuition congruence).
  Qed.

  Lemma writer_kept s s' t' : Inv2 s ->
    t_ths s' = upd 1 t' (t_ths s) -> t_reg s' = t_reg s -> t_sent s' = t_sent s ->
    t_failed s' = t_failed s -> t_clean s' = t_clean s ->
    exists cur pc todo, nth_error (t_ths s') 0 = Some (TWriter cur pc todo) /\ WF s' cur pc todo.
  Proof.
    intros HI Eths Er Es Ef Ec. destruct (i_w _ HI) as (cur & pc & todo & E0 & HW).
    exists cur, pc, todo. rewrite Eths. split; [now rewrite nth_upd_other|].
    unfold WF in *. now rewrite Er, Es, Ef, Ec.
  Qed.

  Ltac rframe HI E1 :=
    eapply (frame _ _ 1%nat); [exact HI|reflexivity|reflexivity|reflexivity|reflexivity|reflexivity|reflexivity|reflexivity|reflexivity|reflexivity|reflexivity|eauto|intros; discriminate| |intros; lia
      |let E := fresh in let E' := fresh in intros _ ? ? ? ? ? ? E E'; rewrite E1 in E; injection E as <- <- <-; injection E' as <- <- <-; reflexivity];
    intros _; do 3 eexists; split; [reflexivity|].

  Ltac rcons HI :=
    constructor;
    [ eapply writer_kept; [exact HI|reflexivity|reflexivity|reflexivity|reflexivity|reflexivity]
    | idtac
    | eapply peers_kept; [exact HI| |reflexivity]; lia
    | idtac .. ];
    tfields; try (keep HI).

  Lemma reader_step s : Inv2 s -> Inv2 (tstep sk reqs s 1).
  Proof.
    intros HI. destruct (i_r _ HI) as (rpc & held & found & E1 & HR).
    unfold tstep. rewrite E1. cbn [fetch]. rewrite reader_code_safe by assumption.
    destruct HR as (Hle & H13 & H45).
    unfold code_rd. destruct rpc as [|[|[|[|[|[|[|rpc]]]]]]]; cbn [nth_error]; try lia;
      cbn [advance]; rewrite ?(reader_code_safe sk Hsafe); cbn [code_rd length Nat.eqb].
    - (* ReadMessage *)
      destruct (t_queue s) as [|k rest] eqn:Eq; [exact HI|].
      pose proof (i_q _ HI) as Hq. rewrite Eq in Hq. inversion Hq as [|? ? Hnk Hnd]; subst.
      destruct (i_qa _ HI k) as (Hka & Hkl); [rewrite Eq; now left|].
      rcons HI.
      + do 3 eexists. split; [eapply nth_upd_same; eauto|]. unfold RF. tfields. split; [lia|split; [|intros; lia]]. intros _. exists k. auto.
      + exact Hnd.
      + intros k0 Hk0. apply (i_qa _ HI). rewrite Eq. now right.
      + intros r h f Hn. rewrite (nth_upd_same _ _ _ _ E1) in Hn. injection Hn as <- <- <-.
        pose proof (i_cnt _ HI _ _ _ E1) as Hc. rewrite Eq in Hc. cbn in *. lia.
    - destruct (t_lk s); [exact HI|]. rframe HI E1. unfold RF in *. tfields. split; [lia|split; [intros _; apply H13; lia|intros; lia]].
    - rframe HI E1. unfold RF in *. tfields. split; [lia|split; [intros _; apply H13; lia|intros; lia]].
    - (* the lookup: the entry of the request is there *)
      destruct H13 as (k & -> & Hka & Hkq & Hkl); [lia|].
      destruct (i_ans _ HI k Hka) as (Hks & Hkn). destruct (i_sent _ HI k Hks) as (Hkf & Hkr).
      assert (Hget : tab_get (q_tid (Rq k)) (t_tab s) = Some (q_name (Rq k))).
      { apply (i_tab _ HI). exists k. split; [exact Hkn|]. split; [reflexivity|]. split; [reflexivity|]. split; [auto|]. split.
        - intros Hc. apply (i_clean _ HI) in Hc. congruence.
        - intros Hd. apply (i_del _ HI) in Hd. contradiction. }
      rewrite Hget. rcons HI.
      + do 3 eexists. split; [eapply nth_upd_same; eauto|]. unfold RF. tfields. split; [lia|split; [intros; lia|]]. intros _. exists k. cbn.
        split; [reflexivity|split; [reflexivity|split; [now left|]]].
        intros Hd. apply (i_del _ HI) in Hd. contradiction.
      + cbn. constructor; [exact Hkl|apply (i_l _ HI)].
      + intros k0 Hk0. destruct (i_qa _ HI k0 Hk0) as (H1 & H2). split; [exact H1|]. cbn. intros [<-|H]; contradiction.
      + intros k0 [<-|Hk0]; [exact Hka|now apply (i_la _ HI)].
      + intros k0 Hk0. right. now apply (i_del _ HI).
      + intros k0 o [H|H]; [injection H as <- <-; reflexivity|now apply (i_log _ HI)].
      + intros r h f Hn. rewrite (nth_upd_same _ _ _ _ E1) in Hn. injection Hn as <- <- <-.
        pose proof (i_cnt _ HI _ _ _ E1) as Hc. cbn in *. lia.
    - rframe HI E1. unfold RF in *. tfields. split; [lia|split; [intros; lia|intros _; apply H45; lia]].
    - (* delete the matched entry *)
      destruct H45 as (k & -> & -> & Hkl & Hkd); [lia|]. cbn [held_of found_of].
      assert (Hkn : needs (Rq k) = true) by (apply (i_ans _ HI), (i_la _ HI); exact Hkl).
      rcons HI.
      + do 3 eexists. split; [eapply nth_upd_same; eauto|]. unfold RF. tfields. split; [lia|split; intros; lia].
      + intros k0 [<-|Hk0]; [exact Hkl|now apply (i_del _ HI)].
      + apply tab_after_del; auto.
      + intros r h f Hn. rewrite (nth_upd_same _ _ _ _ E1) in Hn. injection Hn as <- <- <-.
        pose proof (i_cnt _ HI _ _ _ E1) as Hc. cbn in *. lia.
    - (* unlock, back to ReadMessage *)
      rframe HI E1. unfold RF. tfields. split; [lia|split; intros; lia].
  Qed.

  Lemma peer_step s i : (2 <= i)%nat -> Inv2 s -> Inv2 (tstep sk reqs s i).
  Proof.
    intros Hi HI. unfold tstep. destruct (nth_error (t_ths s) i) as [t|] eqn:Ei; [|exact HI].
    destruct (i_p _ HI i t Hi Ei) as (k & d & ->). cbn [fetch]. destruct d; [exact HI|].
    destruct (mem k (t_sent s) && needs (Rq k) && negb (mem k (t_answered s))) eqn:Ec; [|exact HI].
    apply andb_true_iff in Ec. destruct Ec as (Ec & Hna). apply andb_true_iff in Ec. destruct Ec as (Hs & Hn).
    apply mem_In in Hs. apply negb_true_iff in Hna.
    assert (Hna' : ~ In k (t_answered s)) by (intros H; apply mem_In in H; congruence).
    destruct (i_w _ HI) as (cur & pc & todo & E0 & HW). destruct (i_r _ HI) as (rpc & held & found & E1 & HR).
    constructor; tfields; try (keep HI).
    - exists cur, pc, todo. split; [rewrite nth_upd_other by lia; exact E0|exact HW].
    - exists rpc, held, found. split; [rewrite nth_upd_other by lia; exact E1|].
      unfold RF in *. tfields. destruct HR as (H0 & H13 & H45). split; [exact H0|split; [|exact H45]].
      intros Hr. destruct (H13 Hr) as (k0 & -> & Hka & Hkq & Hkl). exists k0. split; [reflexivity|].
      split; [now right|split; [|exact Hkl]]. rewrite in_app_iff. cbn. intros [H|[<-|[]]]; contradiction.
    - intros j t Hj Hnj. apply nth_upd_cases in Hnj. destruct Hnj as [(<- & -> & _)|(Hne & Hnj)]; [do 2 eexists; reflexivity|].
      eapply (i_p _ HI); eauto.
    - intros k0 [<-|Hk0]; [auto|now apply (i_ans _ HI)].
    - apply NoDup_app_snoc; [apply (i_q _ HI)|]. intros H. apply (i_qa _ HI) in H. tauto.
    - intros k0 Hk0. rewrite in_app_iff in Hk0. cbn in Hk0. destruct Hk0 as [H|[<-|[]]].
      + destruct (i_qa _ HI k0 H). split; [now right|assumption].
      + split; [now left|]. intros H. apply (i_la _ HI) in H. contradiction.
    - intros k0 Hk0. right. now apply (i_la _ HI).
    - intros r h f Hnr. rewrite nth_upd_other in Hnr by lia. pose proof (i_cnt _ HI _ _ _ Hnr) as Hc.
      rewrite app_length. cbn. lia.
  Qed.

  Theorem tstep_inv2 s i : Inv2 s -> Inv2 (tstep sk reqs s i).
  Proof.
    intros HI. destruct i as [|[|i]]; [now apply writer_step|now apply reader_step|apply peer_step; [lia|exact HI]].
  Qed.

  (* ---- reachable states *)
  Lemma tinit_inv2 order : NoDup order -> Inv2 (tinit reqs [order] 1).
  Proof.
    intros Hnd. unfold tinit. cbn [map repeat app].
    constructor; tfields; cbn [map].
    - unfold writer_of. destruct order as [|k rest]; cbn [next_request nth_error].
      + do 3 eexists. split; [reflexivity|]. unfold WF. tfields. split; [reflexivity|split; [constructor|intros ? []]].
      + do 3 eexists. split; [reflexivity|]. inversion Hnd; subst. unfold WF, wdoneb. tfields. cbn [In].
        rewrite !andb_false_r. destruct (needs (Rq k)), (q_fail (Rq k)); cbn; repeat split; try tauto; try discriminate; auto.
    - do 3 eexists. split; [reflexivity|]. unfold RF. repeat split; intros; lia.
    - intros i t Hi Hn. destruct i as [|[|i]]; try lia. cbn in Hn. apply nth_error_In in Hn.
      apply in_map_iff in Hn. destruct Hn as (k & <- & _). eauto.
    - intros ? []. - intros ? []. - intros ? []. - constructor. - constructor. - intros ? []. - intros ? [].
    - intros ? [].
    - intros tid v. cbn. split; [discriminate|]. intros (k & _ & _ & _ & [] & _).
    - intros ? ? [].
    - intros r h f Hn. cbn in Hn. injection Hn as <- <- <-. reflexivity.
  Qed.

  Lemma trun_inv2 order sched : NoDup order -> Inv2 (trun sk reqs (tinit reqs [order] 1) sched).
  Proof.
    intros Hnd. unfold trun. apply srun_invariant; [intros; now apply tstep_inv2|now apply tinit_inv2].
  Qed.
End Safe.

(* ------------------------------------------------------------------ witness search *)
Lemma no_match_sound s : no_match s = true -> exists k, In (k, None) (t_log s).
Proof.
  unfold no_match. intros H. apply existsb_exists in H. destruct H as ([k o] & Hin & Ho).
  destruct o; [discriminate|]. eauto.
Qed.

Lemma find_cex_sound sk sched : find_cex sk = Some sched ->
  exists k, In (k, None) (t_log (trun sk cex_reqs (tinit cex_reqs [[0%nat]] 1) sched)).
Proof. unfold find_cex. intros H. apply find_first_sound in H. now apply no_match_sound. Qed.

(* ------------------------------------------------------------------ mutual exclusion on the table *)
Section Race.
  Variables (sk : tskel) (reqs : list req).
  Hypothesis Hsafe : tx_safeb sk = true.
  Notation Rq k := (rq reqs k).

  (* by its program counter: the thread is between Lock and Unlock / between the two halves of a map access *)
  Definition inside (t : tthread) : bool :=
    match t with
    | TWriter (Some k) pc _ =>
        needs (Rq k) && (((2 <=? pc) && (pc <=? 4)) || (q_fail (Rq k) && (7 <=? pc) && (pc <=? 9)))%nat
    | TReader rpc _ _ => ((2 <=? rpc) && (rpc <=? 6))%nat
    | _ => false
    end.
  Definition inmap (t : tthread) : bool :=
    match t with
    | TWriter (Some k) pc _ => needs (Rq k) && ((pc =? 3) || (q_fail (Rq k) && (pc =? 8)))%nat
    | TReader rpc _ _ => ((rpc =? 3) || (rpc =? 5))%nat
    | _ => false
    end.

  Lemma inmap_inside t : inmap t = true -> inside t = true.
  Proof.
    destruct t as [[k|] pc todo|rpc h f|k d]; cbn; try discriminate.
    - destruct (needs (Rq k)), (q_fail (Rq k)); cbn; try discriminate;
        destruct pc as [|[|[|[|[|[|[|[|[|pc]]]]]]]]]; cbn; intros H; try discriminate H; auto.
    - destruct rpc as [|[|[|[|[|[|[|rpc]]]]]]]; cbn; intros H; try discriminate H; auto.
  Qed.

  Definition ok_thr (s : tstate) (i : nat) (t : tthread) : Prop :=
    (inside t = true <-> t_lk s = Some i) /\ (inmap t = true <-> t_inuse s = Some i).

  Record Inv1 (s : tstate) : Prop := {
    r_raced : t_raced s = false;
    r_thr : forall i t, nth_error (t_ths s) i = Some t -> ok_thr s i t;
    r_use : forall h, t_inuse s = Some h -> exists t, nth_error (t_ths s) h = Some t }.

  (* the moving thread i changes the lock / the marker only from or to itself *)
  Lemma others s s' i t' :
    Inv1 s -> t_ths s' = upd i t' (t_ths s) ->
    (t_lk s' = t_lk s \/ (t_lk s = None /\ t_lk s' = Some i) \/ (t_lk s = Some i /\ t_lk s' = None)) ->
    (t_inuse s' = t_inuse s \/ (t_inuse s = None /\ t_inuse s' = Some i) \/ (t_inuse s = Some i /\ t_inuse s' = None)) ->
    forall j tj, j <> i -> nth_error (t_ths s') j = Some tj -> ok_thr s' j tj.
  Proof.
    intros HI Eths Hl Hu j tj Hne Hj. rewrite Eths, nth_upd_other in Hj by congruence.
    destruct (r_thr _ HI j tj Hj) as (H1 & H2). split.
    - destruct Hl as [->|[(E & ->)|(E & ->)]]; [exact H1| |]; rewrite E in H1;
        (split; [intros H; apply H1 in H; congruence|intros H; congruence]).
    - destruct Hu as [->|[(E & ->)|(E & ->)]]; [exact H2| |]; rewrite E in H2;
        (split; [intros H; apply H2 in H; congruence|intros H; congruence]).
  Qed.

  Lemma finish s s' i t t' :
    Inv1 s -> nth_error (t_ths s) i = Some t -> t_ths s' = upd i t' (t_ths s) -> t_raced s' = false ->
    (t_lk s' = t_lk s \/ (t_lk s = None /\ t_lk s' = Some i) \/ (t_lk s = Some i /\ t_lk s' = None)) ->
    (t_inuse s' = t_inuse s \/ (t_inuse s = None /\ t_inuse s' = Some i) \/ (t_inuse s = Some i /\ t_inuse s' = None)) ->
    ok_thr s' i t' -> Inv1 s'.
  Proof.
    intros HI Ei Eths Hr Hl Hu Hi. constructor.
    - exact Hr.
    - intros j tj Hj. destruct (Nat.eq_dec j i) as [->|Hne].
      + rewrite Eths, (nth_upd_same _ _ _ _ Ei) in Hj. injection Hj as <-. exact Hi.
      + eapply others; eauto.
    - intros h Hh. rewrite Eths.
      assert (Hex : exists t0, nth_error (t_ths s) h = Some t0).
      { destruct Hu as [E|[(_ & E)|(_ & E)]]; rewrite E in Hh.
        - now apply (r_use _ HI).
        - injection Hh as <-. eauto.
        - discriminate. }
      destruct Hex as (t0 & E0). destruct (Nat.eq_dec i h) as [->|Hne].
      + eexists. eapply nth_upd_same; eauto.
      + exists t0. now rewrite nth_upd_other.
  Qed.

  (* the five kinds of steps *)
  Lemma step_neutral s s' i t t' :
    Inv1 s -> nth_error (t_ths s) i = Some t -> t_ths s' = upd i t' (t_ths s) ->
    t_raced s' = t_raced s -> t_lk s' = t_lk s -> t_inuse s' = t_inuse s ->
    inside t' = inside t -> inmap t' = inmap t -> Inv1 s'.
  Proof.
    intros HI Ei Eths Er El Eu Hin Hmap. eapply finish; eauto.
    - rewrite Er. apply (r_raced _ HI).
    - destruct (r_thr _ HI i t Ei) as (H1 & H2). unfold ok_thr. now rewrite Hin, Hmap, El, Eu.
  Qed.

  Lemma step_lock s s' i t t' :
    Inv1 s -> nth_error (t_ths s) i = Some t -> t_ths s' = upd i t' (t_ths s) ->
    t_raced s' = t_raced s -> t_lk s = None -> t_lk s' = Some i -> t_inuse s' = t_inuse s ->
    inside t' = true -> inmap t' = false -> inmap t = false -> Inv1 s'.
  Proof.
    intros HI Ei Eths Er El El' Eu Hin Hmap Hmap0. eapply finish; eauto.
    - rewrite Er. apply (r_raced _ HI).
    - destruct (r_thr _ HI i t Ei) as (H1 & H2). unfold ok_thr. rewrite Hin, Hmap, El', Eu. rewrite Hmap0 in H2.
      split; [tauto|exact H2].
  Qed.

  Lemma step_unlock s s' i t t' :
    Inv1 s -> nth_error (t_ths s) i = Some t -> t_ths s' = upd i t' (t_ths s) ->
    t_raced s' = t_raced s ->
    t_lk s' = (match t_lk s with Some h => if Nat.eqb h i then None else Some h | None => None end) ->
    t_inuse s' = t_inuse s ->
    inside t = true -> inside t' = false -> inmap t' = false -> inmap t = false -> Inv1 s'.
  Proof.
    intros HI Ei Eths Er El' Eu Hin0 Hin Hmap Hmap0.
    destruct (r_thr _ HI i t Ei) as (H1 & H2). assert (El : t_lk s = Some i) by tauto.
    rewrite El, Nat.eqb_refl in El'. eapply finish; eauto.
    - rewrite Er. apply (r_raced _ HI).
    - unfold ok_thr. rewrite Hin, Hmap, El', Eu. rewrite Hmap0 in H2. split; [split; discriminate|exact H2].
  Qed.

  Lemma step_enter s s' i t t' :
    Inv1 s -> nth_error (t_ths s) i = Some t -> t_ths s' = upd i t' (t_ths s) ->
    t_raced s' = (match t_inuse s with Some _ => true | None => t_raced s end) ->
    t_lk s' = t_lk s -> t_inuse s' = Some i ->
    inside t = true -> inside t' = true -> inmap t = false -> inmap t' = true -> Inv1 s'.
  Proof.
    intros HI Ei Eths Er El Eu' Hin0 Hin Hmap0 Hmap.
    destruct (r_thr _ HI i t Ei) as (H1 & H2). assert (Elk : t_lk s = Some i) by tauto.
    (* nobody is inside a map access: it would have to hold the lock *)
    assert (Eu : t_inuse s = None).
    { destruct (t_inuse s) as [h|] eqn:E; [|reflexivity]. exfalso.
      destruct (r_use _ HI h E) as (th & Eh). destruct (r_thr _ HI h th Eh) as (H3 & H4).
      assert (Hm : inmap th = true) by tauto. apply inmap_inside in Hm. apply H3 in Hm.
      rewrite Elk in Hm. injection Hm as ->. rewrite Ei in Eh. injection Eh as <-.
      rewrite Hmap0 in H4. assert (false = true) by tauto. discriminate. }
    rewrite Eu in Er. eapply finish; eauto.
    - rewrite Er. apply (r_raced _ HI).
    - unfold ok_thr. rewrite Hin, Hmap, El, Eu'. tauto.
  Qed.

  Lemma step_exit s s' i t t' :
    Inv1 s -> nth_error (t_ths s) i = Some t -> t_ths s' = upd i t' (t_ths s) ->
    t_raced s' = t_raced s -> t_lk s' = t_lk s ->
    t_inuse s' = (match t_inuse s with Some h => if Nat.eqb h i then None else Some h | None => None end) ->
    inside t' = inside t -> inmap t = true -> inmap t' = false -> Inv1 s'.
  Proof.
    intros HI Ei Eths Er El Eu' Hin Hmap0 Hmap.
    destruct (r_thr _ HI i t Ei) as (H1 & H2). assert (Eu : t_inuse s = Some i) by tauto.
    rewrite Eu, Nat.eqb_refl in Eu'. eapply finish; eauto.
    - rewrite Er. apply (r_raced _ HI).
    - unfold ok_thr. rewrite Hin, Hmap, El, Eu'. split; [exact H1|split; discriminate].
  Qed.

  Ltac tfields := cbn [t_lk t_inuse t_raced t_tab t_ths t_sent t_failed t_queue t_answered t_reg t_clean t_del t_log].
  Ltac side := unfold set_ths; tfields; cbn [advance next_request];
               rewrite ?(reader_code_safe sk Hsafe); cbn [code_rd length Nat.eqb];
               unfold inside, inmap; lazy beta iota;
               try match goal with E : needs (rq reqs _) = _ |- _ => rewrite ?E end;
               try match goal with E : q_fail (rq reqs _) = _ |- _ => rewrite ?E end;
               cbn; try reflexivity; try eassumption.
  Ltac ths_goal := unfold set_ths; tfields; cbn [advance next_request];
               rewrite ?(reader_code_safe sk Hsafe); cbn [code_rd length Nat.eqb]; reflexivity.
  Ltac neutral HI Ei := eapply (step_neutral _ _ _ _ _ HI Ei); [ths_goal|..]; side.
  Ltac lock HI Ei := eapply (step_lock _ _ _ _ _ HI Ei); [ths_goal|..]; side.
  Ltac unlock HI Ei := eapply (step_unlock _ _ _ _ _ HI Ei); [ths_goal|..]; side.
  Ltac enter HI Ei := eapply (step_enter _ _ _ _ _ HI Ei); [ths_goal|..]; side.
  Ltac exit HI Ei := eapply (step_exit _ _ _ _ _ HI Ei); [ths_goal|..]; side.

  Lemma tstep_inv1 s i : Inv1 s -> Inv1 (tstep sk reqs s i).
  Proof.
    intros HI. unfold tstep. destruct (nth_error (t_ths s) i) as [t|] eqn:Ei; [|exact HI].
    destruct t as [[k|] pc todo|rpc held found|k d]; cbn [fetch]; try exact HI.
    - (* writer *)
      rewrite req_code_safe by assumption.
      destruct (needs (Rq k)) eqn:En; [destruct (q_fail (Rq k)) eqn:Efl|].
      + unfold code_f. destruct pc as [|[|[|[|[|[|[|[|[|[|[|pc]]]]]]]]]]]; cbn [nth_error]; try exact HI; try (destruct pc; exact HI).
        * neutral HI Ei.
        * destruct (t_lk s) eqn:El; [exact HI|]. lock HI Ei.
        * enter HI Ei.
        * exit HI Ei.
        * unlock HI Ei.
        * rewrite Efl. neutral HI Ei.
        * destruct (t_lk s) eqn:El; [exact HI|]. lock HI Ei.
        * enter HI Ei.
        * exit HI Ei.
        * unlock HI Ei.
        * destruct todo as [|k' rest]; neutral HI Ei; rewrite ?andb_false_r; reflexivity.
      + unfold code_nf. destruct pc as [|[|[|[|[|[|[|pc]]]]]]]; cbn [nth_error]; try exact HI; try (destruct pc; exact HI).
        * neutral HI Ei.
        * destruct (t_lk s) eqn:El; [exact HI|]. lock HI Ei.
        * enter HI Ei.
        * exit HI Ei.
        * unlock HI Ei.
        * rewrite Efl. neutral HI Ei.
        * destruct todo as [|k' rest]; neutral HI Ei; rewrite ?andb_false_r; reflexivity.
      + unfold code_nn. destruct pc as [|[|[|pc]]]; cbn [nth_error]; try exact HI; try (destruct pc; exact HI).
        * neutral HI Ei.
        * destruct (q_fail (Rq k)); neutral HI Ei.
        * destruct todo as [|k' rest]; neutral HI Ei; rewrite ?andb_false_r; reflexivity.
    - (* reader *)
      rewrite reader_code_safe by assumption. unfold code_rd.
      destruct rpc as [|[|[|[|[|[|[|rpc]]]]]]]; cbn [nth_error]; try exact HI; try (destruct rpc; exact HI).
      + destruct (t_queue s); [exact HI|]. neutral HI Ei.
      + destruct (t_lk s) eqn:El; [exact HI|]. lock HI Ei.
      + enter HI Ei.
      + destruct held as [k|]; exit HI Ei.
      + enter HI Ei.
      + cbn [held_of found_of]. destruct held as [k|]; [destruct found|]; exit HI Ei.
      + unlock HI Ei.
    - (* peer *)
      destruct d; [exact HI|].
      destruct (mem k (t_sent s) && needs (Rq k) && negb (mem k (t_answered s))); [|exact HI].
      neutral HI Ei.
  Qed.

  Lemma tinit_inv1 writers nr : Inv1 (tinit reqs writers nr).
  Proof.
    unfold tinit. constructor; tfields; [reflexivity| |discriminate].
    intros i t Hi. apply nth_error_In in Hi. unfold ok_thr. tfields.
    assert (inside t = false /\ inmap t = false) as (-> & ->).
    { rewrite !in_app_iff in Hi. destruct Hi as [Hi|[Hi|Hi]].
      - apply in_map_iff in Hi. destruct Hi as (l & <- & _). unfold writer_of. destruct l; cbn; [auto|].
        rewrite !andb_false_r. auto.
      - apply repeat_spec in Hi. subst. auto.
      - apply in_map_iff in Hi. destruct Hi as (k & <- & _). auto. }
    split; split; discriminate.
  Qed.

  (* no two threads are ever inside accesses to the transaction table at the same time *)
  Theorem no_race writers nr sched : t_raced (trun sk reqs (tinit reqs writers nr) sched) = false.
  Proof.
    apply r_raced. unfold trun. apply srun_invariant; [intros; now apply tstep_inv1|apply tinit_inv1].
  Qed.
End Race.
