(* Proofs for Model/RtmpTx.v (C04): with the request registered before its bytes are handed to the
   transport, every response is matched to its request under every schedule. *)
From Coq Require Import String.
From Verif Require Import Gen.Gen_rtmp.
From Verif Require Import Lib.Base Lib.Sx Lib.Sched Model.RtmpTx.
Import List ListNotations.
Open Scope Z_scope.

(* ------------------------------------------------------------------ the code under the discipline *)
Definition code_nf (k : nat) : list tinstr :=
  [XMarshal; XLock; XEnter; XExit (MStore k); XUnlock; XWrite k; XEnd].
Definition code_f (k : nat) : list tinstr :=
  [XMarshal; XLock; XEnter; XExit (MStore k); XUnlock; XWrite k; XLock; XEnter; XExit (MDelete k); XUnlock; XEnd].
Definition code_nn (k : nat) : list tinstr := [XMarshal; XWrite k; XEnd].
Definition code_rd : list tinstr := [XRead; XLock; XEnter; XExit MLoad; XEnter; XExit MDeleteHeld; XUnlock].

Lemma tx_safeb_spec sk : tx_safeb sk = true ->
  k_wp sk = [TMarshal; TRegister; TWrite; TUnregFail] /\ k_reg sk = [ALock; AStore; AUnlock] /\
  k_unreg sk = [ALock; ADelete; AUnlock] /\ k_look sk = [ALock; ALoad; ADelete; AUnlock].
Proof.
  unfold tx_safeb. intros H.
  destruct (k_wp sk) as [|[] [|[] [|[] [|[] [|]]]]]; try discriminate.
  destruct (k_reg sk) as [|[] [|[] [|[] [|]]]]; try discriminate.
  destruct (k_unreg sk) as [|[] [|[] [|[] [|]]]]; try discriminate.
  destruct (k_look sk) as [|[] [|[] [|[] [|[] [|]]]]]; try discriminate.
  auto.
Qed.

Lemma req_code_safe sk k q : tx_safeb sk = true ->
  req_code sk k q = if needs q then (if q_fail q then code_f k else code_nf k) else code_nn k.
Proof.
  intros H. apply tx_safeb_spec in H. destruct H as (H1 & H2 & H3 & _).
  unfold req_code. rewrite H1. cbn [flat_map tev_code]. rewrite H2, H3.
  destruct (needs q), (q_fail q); reflexivity.
Qed.

Lemma reader_code_safe sk : tx_safeb sk = true -> reader_code sk = code_rd.
Proof.
  intros H. apply tx_safeb_spec in H. destruct H as (_ & _ & _ & H4). unfold reader_code. now rewrite H4.
Qed.

(* ------------------------------------------------------------------ table lemmas *)
Lemma tab_get_del_same tid m : tab_get tid (tab_del tid m) = None.
Proof.
  induction m as [|[k v] m IH]; cbn; [reflexivity|].
  destruct (k =? tid) eqn:E; [exact IH|]. cbn. now rewrite E.
Qed.
Lemma tab_get_del_other tid tid' m : tid <> tid' -> tab_get tid' (tab_del tid m) = tab_get tid' m.
Proof.
  intros Hne. induction m as [|[k v] m IH]; cbn; [reflexivity|].
  destruct (k =? tid) eqn:E.
  - apply Z.eqb_eq in E. subst k. destruct (tid =? tid') eqn:E'; [apply Z.eqb_eq in E'; contradiction|exact IH].
  - cbn. destruct (k =? tid'); [reflexivity|exact IH].
Qed.
Lemma tab_get_set_same tid v m : tab_get tid (tab_set tid v m) = Some v.
Proof. unfold tab_set. cbn. now rewrite Z.eqb_refl. Qed.
Lemma tab_get_set_other tid tid' v m : tid <> tid' -> tab_get tid' (tab_set tid v m) = tab_get tid' m.
Proof.
  intros Hne. unfold tab_set. cbn. destruct (tid =? tid') eqn:E; [apply Z.eqb_eq in E; contradiction|].
  now apply tab_get_del_other.
Qed.

Lemma mem_In k l : mem k l = true <-> In k l.
Proof.
  unfold mem. rewrite existsb_exists. split.
  - intros (x & Hx & E). apply Nat.eqb_eq in E. now subst.
  - intros H. exists k. split; [exact H|apply Nat.eqb_refl].
Qed.
