(* C13 proofs (part 4): per-message compression, structurally.  compress/flate is an oracle:
   a compressed message is described by the chunks the flate writer handed to the truncWriter. *)
From Verif Require Import Lib.Base Lib.Sx Model.WsWrite Proofs.WsWrite Proofs.WsWriteFrame Proofs.WsWriteSession.
Open Scope N_scope.
Ltac Zify.zify_post_hook ::= Z.div_mod_to_equations.

Definition flate_tail : bytes := [0; 0; 255; 255].

Inductive zitem :=
| ZMsg (t : N) (ws : list (bytes * list bytes)) (cch : list bytes)
    (* NextWriter t; Write p_i (flate emitted chunks_i); Close (flate.Flush emitted cch) *)
| ZCtl (t : N) (p : bytes).

Fixpoint run_zwrites (c : cfg) (s : cst) (ws : list (bytes * list bytes)) : res (cst * N) :=
  match ws with
  | [] => Ok (s, eOK)
  | (p, ch) :: r => let* y := do_write c s p ch in if snd y =? 0 then run_zwrites c (fst y) r else Ok y
  end.
Definition run_zitem (c : cfg) (s : cst) (it : zitem) : res (cst * N) :=
  match it with
  | ZMsg t ws cch =>
      let* a := do_next c s t [] in
      if snd a =? 0 then
        let* b := run_zwrites c (fst a) ws in
        if snd b =? 0 then do_close c (fst b) cch else Ok b
      else Ok a
  | ZCtl t p => Ok (do_control c s t p)
  end.
Fixpoint run_zitems (c : cfg) (s : cst) (its : list zitem) : res (cst * N) :=
  match its with
  | [] => Ok (s, eOK)
  | x :: r => let* y := run_zitem c s x in if snd y =? 0 then run_zitems c (fst y) r else Ok y
  end.

Definition zstream (ws : list (bytes * list bytes)) (cch : list bytes) : bytes :=
  concat (concat (map snd ws)) ++ concat cch.
(* the flate stream of a message ends with the empty stored block of a sync flush *)
Definition zitem_ok (it : zitem) : Prop :=
  match it with
  | ZMsg t ws cch => data_type t /\ lenN (zstream ws cch) < big /\
                     exists body, zstream ws cch = body ++ flate_tail
  | ZCtl t p => ping_pong t /\ lenN p <= 125
  end.
Definition zbody (s : bytes) : bytes := firstn (length s - 4) s.
Definition zitem_msgs (it : zitem) : list (N * bool * bytes) :=
  match it with
  | ZMsg t ws cch => [(t, true, zbody (zstream ws cch))]
  | ZCtl _ _ => []
  end.

Lemma ztrue : true = true -> true = true. Proof. auto. Qed.

Lemma in_concat_length {A} (x : list A) l : In x l -> (length x <= length (concat l))%nat.
Proof.
  induction l as [|y l IH]; intros H; [destruct H|]. cbn [concat]. rewrite app_length.
  destruct H as [-> | H]; [lia|]. specialize (IH H). lia.
Qed.

Lemma zbody_app body : zbody (body ++ flate_tail) = body.
Proof.
  unfold zbody. rewrite app_length. cbn [length flate_tail].
  replace (length body + 4 - 4)%nat with (length body) by lia.
  rewrite firstn_app, Nat.sub_diag, firstn_all. cbn. apply app_nil_r.
Qed.

Section Compressed.
Variable c : cfg.
Hypothesis Hblen : 15 <= blen c < big.

Definition ZSInv (s : cst) (ds : list fd) (dn : list (N * bool * bytes)) : Prop :=
  CInv c true (mw s) ds false None dn /\ wopen s = false /\ comp s = true /\ ewc s = true.
Definition ZInv (t : N) (s : cst) (g : ghost) (dn : list (N * bool * bytes)) (D S : bytes) : Prop :=
  MInv c true t true (mw s) g dn D /\ wopen s = true /\ comp s = true /\ ewc s = true /\ hkind s = 2
  /\ zopen s = true /\ mwclosed s = false /\ tw_inv (tws_ s) S D.

Lemma feed_ok t (Ht : data_type t) : forall ws w g dn D,
  MInv c true t true w g dn D -> Forall (fun p => lenN p < big) ws ->
  exists w' g', feed_writes c w ws = Ok (w', eOK) /\ MInv c true t true w' g' dn (D ++ concat ws).
Proof.
  induction ws as [|p ws IH]; intros w g dn D H Hws.
  - exists w, g. cbn. rewrite app_nil_r. auto.
  - inversion Hws as [|? ? Hp Hws']; subst.
    destruct (mw_write_ok c true Hblen t true Ht ztrue w g dn D p H Hp) as (w1 & g1 & Hrun & H1).
    destruct (IH w1 g1 dn _ H1 Hws') as (w' & g' & Hrun' & H').
    exists w', g'. unfold feed_writes in *. cbn [fold_left bind N.eqb negb]. rewrite Hrun.
    split; [exact Hrun'|]. cbn [concat]. rewrite app_assoc. exact H'.
Qed.

Lemma tw_pieces_bound w S D chunks : tw_inv w S D -> lenN (S ++ concat chunks) < big ->
  Forall (fun p => lenN p < big) (snd (tw_run w chunks)).
Proof.
  intros Hinv Hlen. pose proof (tw_run_inv chunks w S D Hinv) as (r & pad & Hs & _).
  apply Forall_forall. intros x Hx. pose proof (in_concat_length x _ Hx) as Hl.
  apply (f_equal (@length N)) in Hs. rewrite !app_length in Hs. rewrite !lenN_spec in *. rewrite app_length in Hlen. lia.
Qed.

Lemma do_next_z s ds dn t : ZSInv s ds dn -> data_type t ->
  exists s', do_next c s t [] = Ok (s', eOK) /\ ZInv t s' (mkG ds false []) dn [] [].
Proof.
  intros (HC & Ho & Hcp & Hew) Ht.
  unfold do_next, prep_write, implicit_close. rewrite Ho. cbn [negb bind].
  assert (Hd : is_data t = true) by (destruct Ht as [-> | ->]; reflexivity).
  assert (Hnc : is_control t = false) by (destruct Ht as [-> | ->]; reflexivity).
  rewrite Hnc, Hd. cbn [negb andb].
  destruct HC as (Hh & He & Hrest). rewrite He. cbn [bind]. cbn [N.eqb negb]. rewrite Hcp, Hew. cbn [andb].
  eexists. split; [reflexivity|].
  unfold ZInv, MInv. cbn [mw st_h st_mw wopen comp ewc hkind mwclosed zopen tws_ g_ds g_started g_acc].
  split; [|rewrite ?Hcp, ?Hew; repeat split; auto; exact tw_inv0].
  split; [exact (conj Hh (conj He Hrest))|].
  cbn. split; [reflexivity|]. split; [change maxHdr with 14; unfold big in *; lia|]. auto.
Qed.

Lemma do_write_z t s g dn D S p ch : ZInv t s g dn D S -> data_type t -> lenN (S ++ concat ch) < big ->
  exists s' g' D', do_write c s p ch = Ok (s', eOK) /\ ZInv t s' g' dn D' (S ++ concat ch).
Proof.
  intros (HM & Ho & Hcp & Hew & Hk & Hz & Hm & Htw) Ht Hlen.
  unfold do_write. rewrite Hk, Hz. cbn [N.eqb Pos.eqb negb].
  pose proof (tw_run_inv ch (tws_ s) S D Htw) as Htw'.
  pose proof (tw_pieces_bound _ _ _ ch Htw Hlen) as Hb.
  destruct (tw_run (tws_ s) ch) as [t1 ws] eqn:Er. cbn [fst snd] in *.
  destruct (feed_ok t Ht ws (mw s) g dn D HM Hb) as (w' & g' & Hrun & H').
  cbn [mw st_h]. rewrite Hrun. cbn [lift_mw bind fst snd].
  eexists _, g', _. split; [reflexivity|].
  unfold ZInv. cbn [mw st_h st_mw wopen comp ewc hkind mwclosed zopen tws_].
  split; [exact H'|]. repeat (split; [solve [auto]|]). exact Htw'.
Qed.

Lemma run_zwrites_ok t : forall ws s g dn D S, ZInv t s g dn D S -> data_type t ->
  lenN (S ++ concat (concat (map snd ws))) < big ->
  exists s' g' D', run_zwrites c s ws = Ok (s', eOK) /\ ZInv t s' g' dn D' (S ++ concat (concat (map snd ws))).
Proof.
  induction ws as [|[p ch] ws IH]; intros s g dn D S H Ht Hlen.
  - exists s, g, D. cbn. rewrite app_nil_r. auto.
  - cbn [map snd concat] in *. rewrite concat_app in *. rewrite app_assoc in Hlen.
    destruct (do_write_z t s g dn D S p ch H Ht) as (s1 & g1 & D1 & Hrun & H1).
    { rewrite !lenN_app in *. lia. }
    destruct (IH s1 g1 dn D1 _ H1 Ht Hlen) as (s' & g' & D' & Hrun' & H').
    exists s', g', D'. cbn [run_zwrites]. rewrite Hrun. cbn [bind fst snd N.eqb]. rewrite Hrun'.
    rewrite app_assoc. auto.
Qed.

Lemma app_tail_inj (e r b tl : bytes) : e ++ r = b ++ tl -> length r = length tl -> e = b /\ r = tl.
Proof.
  intros H Hl.
  assert (He : length e = length b).
  { apply (f_equal (@length N)) in H. rewrite !app_length in H. lia. }
  split.
  - apply (f_equal (firstn (length e))) in H. rewrite firstn_app, Nat.sub_diag, firstn_all in H.
    cbn [firstn] in H. rewrite app_nil_r in H. rewrite H, He, firstn_app, Nat.sub_diag, firstn_all. cbn. apply app_nil_r.
  - apply (f_equal (skipn (length e))) in H. rewrite skipn_app, Nat.sub_diag, skipn_all in H.
    cbn [skipn app] in H. rewrite H, He, skipn_app, Nat.sub_diag, skipn_all. reflexivity.
Qed.

Lemma do_close_z t s g dn D S cch body : ZInv t s g dn D S -> data_type t ->
  lenN (S ++ concat cch) < big -> S ++ concat cch = body ++ flate_tail ->
  exists s' ds', do_close c s cch = Ok (s', eOK) /\ ZSInv s' ds' (dn ++ [(t, true, body)]).
Proof.
  intros (HM & Ho & Hcp & Hew & Hk & Hz & Hm & Htw) Ht Hlen Hbody.
  unfold do_close, do_z_close. rewrite Hk, Hz. cbn [N.eqb Pos.eqb negb].
  pose proof (tw_run_inv cch (tws_ s) S D Htw) as Htw'.
  pose proof (tw_pieces_bound _ _ _ cch Htw Hlen) as Hb.
  destruct (tw_run (tws_ s) cch) as [t1 ws] eqn:Er. cbn [fst snd] in *.
  destruct (feed_ok t Ht ws (mw s) g dn D HM Hb) as (w' & g' & Hrun & H').
  rewrite Hrun. cbn [bind].
  (* the retained four bytes are the sync-flush marker, everything before them reached the frames *)
  destruct Htw' as (r & pad & Hs & Htp & Hl & Htn & Hr4 & He).
  assert (Hr : length r = 4%nat).
  { destruct (Nat.lt_ge_cases (length r) 4) as [Hlt|Hge]; [|lia].
    specialize (He Hlt). rewrite Hbody in Hs. apply (f_equal (@length N)) in Hs.
    destruct (D ++ concat ws); [|discriminate He]. rewrite !app_length in Hs. cbn in Hs. lia. }
  rewrite Hbody in Hs. symmetry in Hs.
  destruct (app_tail_inj _ _ _ _ Hs Hr) as [HD Hrt].
  assert (Hpad : pad = []) by (rewrite Htp, app_length in Hl; destruct pad; [reflexivity|cbn in Hl; lia]).
  assert (Htail : flate_tail_ok t1 = true).
  { unfold flate_tail_ok. rewrite Htp, Hpad, app_nil_r, Hrt. reflexivity. }
  rewrite Htail. cbn [negb].
  unfold do_mw_close. cbn [mwclosed st_h st_mw mw]. rewrite Hm.
  pose proof (buffered_bound c true Hblen t true _ _ _ _ H') as Hbb.
  destruct (flush_step c true Hblen t true w' g' dn _ true [] Ht ztrue H' (fun _ => eq_refl)) as (w2 & Hrun2 & HC).
  { rewrite app_nil_r. unfold two63, big in *. lia. }
  rewrite Hrun2. cbn [bind N.eqb negb]. rewrite !app_nil_r in HC. rewrite HD in HC.
  eexists _, _. split; [reflexivity|]. unfold ZSInv. cbn [mw st_h st_mw wopen comp ewc].
  split; [exact HC|auto].
Qed.

Lemma run_zitem_ok s ds dn it : ZSInv s ds dn -> zitem_ok it ->
  exists s' ds', run_zitem c s it = Ok (s', eOK) /\ ZSInv s' ds' (dn ++ zitem_msgs it).
Proof.
  intros HS Hit. destruct it as [t ws cch|t p]; cbn [zitem_ok zitem_msgs run_zitem] in *.
  - destruct Hit as (Ht & Hlen & body & Hbody). unfold zstream in *.
    destruct (do_next_z s ds dn t HS Ht) as (s1 & Hrun1 & H1).
    destruct (run_zwrites_ok t ws s1 _ dn [] [] H1 Ht) as (s2 & g2 & D2 & Hrun2 & H2).
    { cbn [app]. rewrite lenN_app in Hlen. eapply N.le_lt_trans; [|exact Hlen]. apply N.le_add_r. }
    cbn [app] in H2.
    destruct (do_close_z t s2 g2 dn D2 _ cch body H2 Ht Hlen Hbody) as (s3 & ds3 & Hrun3 & H3).
    exists s3, ds3. rewrite Hrun1. cbn [bind fst snd N.eqb]. rewrite Hrun2. cbn [bind fst snd N.eqb].
    rewrite Hrun3. rewrite Hbody, zbody_app. auto.
  - destruct Hit as [Ht Hl]. destruct HS as (HC & Ho & Hcp & Hew).
    destruct (control_ok c true s _ _ _ _ t p HC Ht Hl) as (m' & Hrun & HC' & _).
    rewrite Hrun. eexists _, _. split; [reflexivity|]. rewrite app_nil_r.
    unfold ZSInv. cbn [mw st_mw wopen comp ewc]. split; [exact HC'|auto].
Qed.

Lemma run_zitems_ok : forall its s ds dn, ZSInv s ds dn -> Forall zitem_ok its ->
  exists s' ds', run_zitems c s its = Ok (s', eOK) /\ ZSInv s' ds' (dn ++ concat (map zitem_msgs its)).
Proof.
  induction its as [|it its IH]; intros s ds dn HS Hits.
  - exists s, ds. cbn. rewrite app_nil_r. auto.
  - inversion Hits as [|? ? Hit Hits']; subst.
    destruct (run_zitem_ok s ds dn it HS Hit) as (s1 & ds1 & Hrun & H1).
    destruct (IH s1 ds1 _ H1 Hits') as (s' & ds' & Hrun' & H').
    exists s', ds'. cbn [run_zitems map concat]. rewrite Hrun. cbn [bind fst snd N.eqb]. rewrite Hrun'.
    rewrite app_assoc. auto.
Qed.
End Compressed.

Lemma ZSInv_init c ks : Forall (fun k : bytes => length k = 4%nat) ks -> ZSInv c (init_cst true ks) [] [].
Proof.
  intros Hk. unfold ZSInv, init_cst, cst0, CInv. cbn [mw wopen comp ewc mws0 hdr werrc keys].
  split; [|auto]. split; [reflexivity|]. split; [reflexivity|]. split; [exact Hk|].
  split; [reflexivity|]. split; [constructor|]. split; [constructor|]. exact tail_ok_nil.
Qed.

Lemma ZSInv_final c s ds dn : ZSInv c s ds dn ->
  exists fs, rfc_parse (wire_of s) = Some fs /\ rfc_valid (srv c) true fs = true /\ messages fs = Some dn.
Proof.
  intros ((Hh & He & Hk & Hw & Hok & Hsh & Htl) & _ & _).
  exists (map (abs_fd (srv c)) ds).
  rewrite wire_of_spec, Hw.
  split; [apply rfc_parse_enc; exact Hok|].
  destruct (Htl []) as [A B]. rewrite app_nil_r in A, B.
  split.
  - unfold rfc_valid. rewrite A. cbn [seq_ok negb]. rewrite andb_true_r.
    apply forallb_forall. intros f Hf. apply in_map_iff in Hf. destruct Hf as (d & <- & Hd).
    rewrite Forall_forall in Hok, Hsh. apply frame_ok_abs; auto.
  - unfold messages. rewrite B. cbn. rewrite app_nil_r. reflexivity.
Qed.

(* compressed connections: the wire is valid (RSV1 exactly on the first frame of each data
   message) and each message's reassembled payload is its flate stream minus the last four bytes *)
Theorem wire_valid_compressed c ks its :
  15 <= blen c < big -> Forall (fun k : bytes => length k = 4%nat) ks -> Forall zitem_ok its ->
  exists s', run_zitems c (init_cst true ks) its = Ok (s', eOK) /\
  exists fs, rfc_parse (wire_of s') = Some fs /\ rfc_valid (srv c) true fs = true /\
             messages fs = Some (concat (map zitem_msgs its)).
Proof.
  intros Hb Hk Hits.
  destruct (run_zitems_ok c Hb its _ [] [] (ZSInv_init c ks Hk) Hits) as (s' & ds' & Hrun & HS).
  exists s'. split; [exact Hrun|]. cbn [app] in HS. exact (ZSInv_final c s' ds' _ HS).
Qed.

(* with the inflate oracle: what the receiver inflates (RFC 7692 7.2.2: payload ++ 00 00 ff ff) *)
Section Inflate.
Variable inflate : bytes -> option bytes.
Variable deflate_of : bytes -> bytes -> Prop.   (* [deflate_of data stream]: a sync-flushed flate stream of data *)
Hypothesis inflate_deflate : forall data stream, deflate_of data stream ->
  exists body, stream = body ++ flate_tail /\ inflate (body ++ flate_tail) = Some data.

Theorem compressed_roundtrip data stream :
  deflate_of data stream -> inflate (zbody stream ++ flate_tail) = Some data.
Proof.
  intros H. destruct (inflate_deflate data stream H) as (body & -> & Hi). rewrite zbody_app. exact Hi.
Qed.
End Inflate.
