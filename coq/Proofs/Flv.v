(* Proofs for the FLV muxer/demuxer model (C09). *)
From Verif Require Import Lib.Base Lib.Sx Model.Flv.
Open Scope N_scope.
Ltac Zify.zify_post_hook ::= Z.div_mod_to_equations.

(* ---------- lists ---------- *)
Lemma frev_rev {A} (l : list A) : frev l = rev l.
Proof. unfold frev. symmetry. apply rev_alt. Qed.

Lemma lenN_acc_spec b : forall a, lenN_acc a b = a + N.of_nat (length b).
Proof.
  induction b as [|x t IH]; intros a; cbn [lenN_acc length].
  - lia.
  - rewrite IH. lia.
Qed.

Lemma lenN_length b : lenN b = N.of_nat (length b).
Proof. unfold lenN. rewrite lenN_acc_spec. lia. Qed.

Lemma lenN_nil : lenN [] = 0.
Proof. reflexivity. Qed.

Lemma lenN_app a b : lenN (a ++ b) = lenN a + lenN b.
Proof. rewrite !lenN_length, app_length. lia. Qed.

Lemma take_firstn n : forall b, (n <= length b)%nat -> take n b = Some (firstn n b, skipn n b).
Proof.
  induction n as [|n IH]; intros b Hb; cbn [take firstn skipn].
  - reflexivity.
  - destruct b as [|x t]; cbn [length] in Hb; [lia|].
    rewrite IH by lia. reflexivity.
Qed.

Lemma take_short n : forall b, (length b < n)%nat -> take n b = None.
Proof.
  induction n as [|n IH]; intros b Hb; [lia|].
  destruct b as [|x t]; cbn [take]; [reflexivity|].
  cbn [length] in Hb. rewrite IH by lia. reflexivity.
Qed.

Lemma firstn_exact {A} (a r : list A) : firstn (length a) (a ++ r) = a.
Proof. rewrite firstn_app, Nat.sub_diag, firstn_all. cbn [firstn]. apply app_nil_r. Qed.

Lemma skipn_exact {A} (a r : list A) : skipn (length a) (a ++ r) = r.
Proof. rewrite skipn_app, Nat.sub_diag, skipn_all. reflexivity. Qed.

Lemma take_exact a r : take (length a) (a ++ r) = Some (a, r).
Proof.
  rewrite take_firstn by (rewrite app_length; lia).
  now rewrite firstn_exact, skipn_exact.
Qed.

(* ---------- io.CopyN over a segmented stream ---------- *)
(* what copy_n returns is determined by the flattened stream: the first n bytes and a stream
   delivering the rest, or the way the stream ends when it is shorter *)
Lemma copy_n_flat s : forall n acc d t, flat s = (d, t) ->
  (n <= lenN d -> exists s', copy_n n s acc = Ok (concat (rev acc) ++ firstn (N.to_nat n) d, s')
                             /\ flat s' = (skipn (N.to_nat n) d, t))
  /\ (lenN d < n -> copy_n n s acc = Err t).
Proof.
  induction s as [|sg s IH]; intros n acc d t Hf.
  - cbn [flat] in Hf. inversion Hf; subst d t. cbn [copy_n]. split.
    + intros Hn. rewrite lenN_nil in Hn. assert (n = 0) by lia. subst n. cbn [N.eqb].
      exists []. rewrite frev_rev. cbn. now rewrite app_nil_r.
    + intros Hn. destruct (N.eqb_spec n 0) as [->|_]; [rewrite lenN_nil in Hn; lia|reflexivity].
  - destruct sg as [b|e].
    + cbn [flat] in Hf. destruct (flat s) as [d' t'] eqn:Hs. inversion Hf; subst d t. clear Hf.
      cbn [copy_n]. destruct (N.eqb_spec n 0) as [->|Hn0].
      * split; [intros _|intros H; lia].
        exists (Data b :: s). rewrite frev_rev. cbn [N.to_nat firstn skipn flat]. rewrite Hs.
        now rewrite app_nil_r.
      * destruct (N.ltb_spec (lenN b) n) as [Hlt|Hge].
        -- (* the whole segment is consumed *)
           destruct (IH (n - lenN b) (b :: acc) d' t' eq_refl) as [IHok IHshort].
           rewrite lenN_app. rewrite !lenN_length in *. split.
           ++ intros Hn. destruct IHok as (s' & Hc & Hfl); [lia|].
              exists s'. rewrite Hc, Hfl. cbn [rev]. rewrite concat_app. cbn [concat].
              rewrite app_nil_r, <- app_assoc.
              replace (N.to_nat (n - N.of_nat (length b))) with (N.to_nat n - length b)%nat by lia.
              rewrite firstn_app, skipn_app.
              rewrite (@firstn_all2 _ (N.to_nat n) b) by lia. rewrite (@skipn_all2 _ (N.to_nat n) b) by lia. cbn [app]. split; reflexivity.
           ++ intros Hn. apply IHshort. lia.
        -- (* the demand ends inside this segment *)
           unfold takeN. rewrite lenN_length in Hge.
           rewrite take_firstn by lia. rewrite lenN_app. split; [intros _|intros H; rewrite lenN_length in H; lia].
           exists (Data (skipn (N.to_nat n) b) :: s). rewrite frev_rev. cbn [rev flat]. rewrite Hs.
           rewrite concat_app. cbn [concat]. rewrite app_nil_r.
           rewrite firstn_app, skipn_app.
           replace (N.to_nat n - length b)%nat with 0%nat by lia. cbn [firstn skipn].
           rewrite app_nil_r. split; reflexivity.
    + cbn [flat] in Hf. inversion Hf; subst d t. cbn [copy_n]. split.
      * intros Hn. rewrite lenN_nil in Hn. assert (n = 0) by lia. subst n. cbn [N.eqb].
        exists (Fault e :: s). rewrite frev_rev. cbn. now rewrite app_nil_r.
      * intros Hn. destruct (N.eqb_spec n 0) as [->|_]; [rewrite lenN_nil in Hn; lia|reflexivity].
Qed.

Lemma copy_n_ok s n a r t :
  flat s = (a ++ r, t) -> lenN a = n ->
  exists s', copy_n n s [] = Ok (a, s') /\ flat s' = (r, t).
Proof.
  intros Hf Hn. destruct (copy_n_flat s n [] _ _ Hf) as [Hok _].
  destruct Hok as (s' & Hc & Hfl); [rewrite lenN_app; lia|].
  exists s'. rewrite Hc, Hfl. subst n. rewrite lenN_length, Nat2N.id.
  now rewrite firstn_exact, skipn_exact.
Qed.

Lemma copy_n_short s n d t : flat s = (d, t) -> lenN d < n -> copy_n n s [] = Err t.
Proof. intros Hf Hn. now apply (copy_n_flat s n [] d t Hf). Qed.

(* the result is always Ok with exactly n bytes taken from the flattened data, or an error *)
Lemma copy_n_cases s n d t : flat s = (d, t) ->
  (exists s', copy_n n s [] = Ok (firstn (N.to_nat n) d, s') /\ flat s' = (skipn (N.to_nat n) d, t)
              /\ n <= lenN d)
  \/ (copy_n n s [] = Err t /\ lenN d < n).
Proof.
  intros Hf. destruct (copy_n_flat s n [] d t Hf) as [Hok Hshort].
  destruct (N.le_gt_cases n (lenN d)) as [Hle|Hgt].
  - left. destruct (Hok Hle) as (s' & Hc & Hfl). exists s'. cbn [rev concat app] in Hc. auto.
  - right. auto.
Qed.

(* ---------- read_via ---------- *)
Lemma read_via_ok {A} (parse : bytes -> res A) s n a r t v :
  flat s = (a ++ r, t) -> lenN a = n -> parse a = Ok v ->
  exists s', read_via n parse s = Ok (v, s') /\ flat s' = (r, t).
Proof.
  intros Hf Hn Hp. destruct (copy_n_ok s n a r t Hf Hn) as (s' & Hc & Hfl).
  exists s'. unfold read_via. rewrite Hc. cbn [bind]. rewrite Hp. cbn [bind]. auto.
Qed.

Lemma read_via_short {A} (parse : bytes -> res A) s n d t :
  flat s = (d, t) -> lenN d < n -> read_via n parse s = Err t.
Proof. intros Hf Hn. unfold read_via. rewrite (copy_n_short s n d t Hf Hn). reflexivity. Qed.

(* segmentation independence of one call: results agree, the remaining streams flatten alike *)
Definition same_read {A} (r1 r2 : res (A * stream)) : Prop :=
  match r1, r2 with
  | Ok (a1, s1), Ok (a2, s2) => a1 = a2 /\ flat s1 = flat s2
  | Err e1, Err e2 => e1 = e2
  | Panic x, Panic y => x = y
  | _, _ => False
  end.

Lemma read_via_seg {A} (parse : bytes -> res A) n s1 s2 :
  flat s1 = flat s2 -> same_read (read_via n parse s1) (read_via n parse s2).
Proof.
  intros Hf. destruct (flat s2) as [d t] eqn:H2.
  unfold read_via.
  destruct (copy_n_cases s1 n d t Hf) as [(a1 & C1 & F1 & L1)|[C1 L1]];
  destruct (copy_n_cases s2 n d t H2) as [(a2 & C2 & F2 & L2)|[C2 L2]]; try lia;
  rewrite C1, C2; cbn [bind same_read]; [|reflexivity].
  destruct (parse (firstn (N.to_nat n) d)); cbn [bind same_read]; auto.
  split; [reflexivity|congruence].
Qed.

(* ---------- the read loop does not depend on the segmentation ---------- *)
Lemma read_tags_seg fuel : forall s1 s2 acc,
  flat s1 = flat s2 -> read_tags fuel s1 acc = read_tags fuel s2 acc.
Proof.
  induction fuel as [|f IH]; intros s1 s2 acc Hf; [reflexivity|].
  cbn [read_tags].
  pose proof (read_via_seg parse_tag_header 11 s1 s2 Hf) as H1.
  fold read_tag_header in H1.
  destruct (read_tag_header s1) as [[[[ty sz] ts] s1']|e1|x1];
  destruct (read_tag_header s2) as [[[[ty2 sz2] ts2] s2']|e2|x2]; cbn [same_read] in H1; try contradiction;
  try (subst; reflexivity).
  destruct H1 as [Heq Hf']. inversion Heq; subst ty2 sz2 ts2.
  pose proof (read_via_seg strip_pts (u32 (sz + 4)) s1' s2' Hf') as H2.
  fold (read_tag sz) in H2.
  destruct (read_tag sz s1') as [[b1 t1]|e1|x1];
  destruct (read_tag sz s2') as [[b2 t2]|e2|x2]; cbn [same_read] in H2; try contradiction;
  try (subst; reflexivity).
  destruct H2 as [-> Hf2]. now apply IH.
Qed.

Theorem demux_seg fuel s1 s2 : flat s1 = flat s2 -> demux fuel s1 = demux fuel s2.
Proof.
  intros Hf. unfold demux.
  pose proof (read_via_seg parse_header 13 s1 s2 Hf) as H1. fold read_header in H1.
  destruct (read_header s1) as [[h1 t1]|e1|x1];
  destruct (read_header s2) as [[h2 t2]|e2|x2]; cbn [same_read] in H1; try contradiction;
  try (subst; reflexivity).
  destruct H1 as [-> Hf']. cbn [bind]. now rewrite (read_tags_seg fuel t1 t2 [] Hf').
Qed.

(* the segmenter used by the harness delivers exactly the bytes it was given *)
Lemma flat_app_data s : forall s' , (forall e, ~ In (Fault e) s) ->
  flat (s ++ s') = (fst (flat s) ++ fst (flat s'), snd (flat s')).
Proof.
  induction s as [|sg s IH]; intros s' Hnf.
  - cbn. now destruct (flat s').
  - destruct sg as [b|e]; [|exfalso; apply (Hnf e); now left].
    cbn [app flat]. rewrite IH by (intros e He; apply (Hnf e); now right).
    destruct (flat s) as [d t]. cbn [fst snd]. now rewrite app_assoc.
Qed.

(* ---------- wire format helpers ---------- *)
Definition wf_tag (t : tag) : Prop :=
  t_type t < 256 /\ t_ts t < 4294967296 /\ lenN (t_body t) < 16777216.

Definition tag_bytes (t : tag) : bytes := mux_tag_header t ++ t_body t ++ mux_tag_trailer t.

Lemma mux_tag_writes_concat t : concat (mux_tag_writes t) = tag_bytes t.
Proof.
  unfold mux_tag_writes, tag_bytes. destruct (t_body t) as [|x b]; cbn [concat app]; now rewrite ?app_nil_r.
Qed.

Lemma mux_concat hv ha tags :
  mux hv ha tags = mux_header hv ha ++ concat (map tag_bytes tags).
Proof.
  unfold mux, mux_writes. cbn [concat]. f_equal.
  induction tags as [|t ts IH]; [reflexivity|].
  cbn [map concat]. rewrite concat_app, mux_tag_writes_concat, IH. reflexivity.
Qed.

Lemma ube3_be3 n : n < 16777216 -> ube3 (u8 (n / 65536)) (u8 (n / 256)) (u8 n) = n.
Proof. intros H. unfold ube3, u8. lia. Qed.

Lemma ube4_be4 n : n < 4294967296 ->
  ube4 (u8 (n / 16777216)) (u8 (n / 65536)) (u8 (n / 256)) (u8 n) = n.
Proof. intros H. unfold ube4, u8. lia. Qed.

Lemma parse_mux_tag_header t : wf_tag t ->
  parse_tag_header (mux_tag_header t) = Ok (t_type t, lenN (t_body t), t_ts t).
Proof.
  intros (Hty & Hts & Hsz). unfold parse_tag_header, mux_tag_header, mux_tag_header_n.
  cbn [idx nth_error bind].
  replace (u32 (lenN (t_body t))) with (lenN (t_body t)) by (unfold u32; lia).
  rewrite ube3_be3 by assumption. rewrite ube4_be4 by assumption.
  replace (u8 (t_type t)) with (t_type t) by (unfold u8; lia). reflexivity.
Qed.

Lemma strip_pts_ok body tr : lenN tr = 4 -> strip_pts (body ++ tr) = Ok body.
Proof.
  intros Htr. unfold strip_pts. rewrite lenN_app, Htr.
  destruct (N.ltb_spec (lenN body + 4) 4) as [H|_]; [lia|].
  replace (lenN body + 4 - 4) with (lenN body) by lia.
  unfold takeN. rewrite lenN_length, Nat2N.id, take_exact. reflexivity.
Qed.

Lemma lenN_mux_tag_header t : lenN (mux_tag_header t) = 11.
Proof. reflexivity. Qed.
Lemma lenN_be4 n : lenN (be4 n) = 4.
Proof. reflexivity. Qed.

(* one tag written by the muxer is read back, whatever follows it *)
Lemma read_one_tag t s rest tm : wf_tag t ->
  flat s = (tag_bytes t ++ rest, tm) ->
  exists s1, read_tag_header s = Ok ((t_type t, lenN (t_body t), t_ts t), s1) /\
  exists s2, read_tag (lenN (t_body t)) s1 = Ok (t_body t, s2) /\ flat s2 = (rest, tm).
Proof.
  intros Hwf Hf. unfold tag_bytes in Hf. rewrite <- app_assoc in Hf.
  destruct (read_via_ok parse_tag_header s 11 _ _ tm _ Hf (lenN_mux_tag_header t)
              (parse_mux_tag_header t Hwf)) as (s1 & H1 & F1).
  exists s1. split; [exact H1|].
  destruct Hwf as (_ & _ & Hsz).
  replace (t_body t ++ mux_tag_trailer t) with ((t_body t ++ mux_tag_trailer t) ++ []) in F1
    by apply app_nil_r.
  rewrite <- !app_assoc in F1. rewrite app_nil_l in F1. rewrite app_assoc in F1.
  assert (Hm : lenN (t_body t ++ mux_tag_trailer t) = u32 (lenN (t_body t) + 4)).
  { rewrite lenN_app. unfold mux_tag_trailer, mux_tag_trailer_n. rewrite lenN_be4. unfold u32. lia. }
  destruct (read_via_ok strip_pts s1 _ _ _ tm _ F1 Hm (strip_pts_ok _ _ (lenN_be4 _)))
    as (s2 & H2 & F2).
  exists s2. split; [exact H2|exact F2].
Qed.

Lemma read_tags_mux tags : forall fuel s acc rest tm,
  Forall wf_tag tags -> flat s = (concat (map tag_bytes tags) ++ rest, tm) ->
  exists s', flat s' = (rest, tm) /\
    read_tags (length tags + fuel) s acc = read_tags fuel s' (rev tags ++ acc).
Proof.
  induction tags as [|t ts IH]; intros fuel s acc rest tm Hwf Hf.
  - exists s. cbn in *. auto.
  - inversion Hwf as [|? ? Hwt Hwts]; subst.
    cbn [map concat] in Hf. rewrite <- app_assoc in Hf.
    destruct (read_one_tag t s _ tm Hwt Hf) as (s1 & H1 & s2 & H2 & F2).
    destruct (IH fuel s2 (t :: acc) rest tm Hwts F2) as (s' & F' & Hr).
    exists s'. split; [exact F'|].
    cbn [length Nat.add read_tags]. rewrite H1, H2.
    destruct t as [ty tss b]. cbn [t_type t_ts t_body] in *. rewrite Hr.
    cbn [rev]. now rewrite <- app_assoc.
Qed.

Lemma parse_mux_header hv ha : parse_header (mux_header hv ha) = Ok (1, hv, ha).
Proof. destruct hv, ha; reflexivity. Qed.

(* ---------- C09 round trip ---------- *)
(* every stream that delivers the muxer's bytes and then ends with [tm] (EOF or a fault) *)
Theorem demux_mux hv ha tags fuel s tm :
  Forall wf_tag tags -> (length tags < fuel)%nat ->
  flat s = (mux hv ha tags, tm) ->
  demux fuel s = Ok ((1, hv, ha), tags, (0, tm)).
Proof.
  intros Hwf Hfuel Hf. rewrite mux_concat in Hf.
  unfold demux.
  destruct (read_via_ok parse_header s 13 _ _ tm _ Hf eq_refl (parse_mux_header hv ha))
    as (s1 & H1 & F1).
  fold read_header in H1. rewrite H1. cbn [bind].
  replace (concat (map tag_bytes tags)) with (concat (map tag_bytes tags) ++ []) in F1
    by apply app_nil_r.
  replace fuel with (length tags + (fuel - length tags))%nat by lia.
  destruct (read_tags_mux tags (fuel - length tags)%nat s1 [] [] tm Hwf F1) as (s' & F' & Hr).
  rewrite Hr. destruct (fuel - length tags)%nat as [|f] eqn:Hfl; [lia|].
  cbn [read_tags]. unfold read_tag_header.
  rewrite (read_via_short parse_tag_header s' 11 [] tm F') by (cbn; lia).
  rewrite frev_rev, app_nil_r, rev_involutive. reflexivity.
Qed.

(* ---------- layout ---------- *)
Lemma spec_header_eq hv ha : mux_header hv ha = spec_header hv ha.
Proof. destruct hv, ha; reflexivity. Qed.

Lemma spec_tag_eq t : wf_tag t -> tag_bytes t = spec_tag t.
Proof.
  intros (Hty & Hts & Hsz).
  unfold tag_bytes, spec_tag, mux_tag_header, mux_tag_header_n, mux_tag_trailer, mux_tag_trailer_n, be3, be4.
  set (n := lenN (t_body t)) in *. set (ts := t_ts t) in *.
  replace (u32 n) with n by (unfold u32; lia).
  replace (u32 (11 + n)) with (11 + n) by (unfold u32; lia).
  cbn [app]. unfold u8.
  replace (t_type t mod 256) with (t_type t) by lia.
  replace (ts / 65536 mod 256) with (ts mod 16777216 / 65536 mod 256) by lia.
  replace (ts / 256 mod 256) with (ts mod 16777216 / 256 mod 256) by lia.
  replace (ts mod 256) with (ts mod 16777216 mod 256) by lia.
  replace (ts / 16777216 mod 256) with (ts / 16777216) by lia.
  reflexivity.
Qed.

Theorem mux_is_spec hv ha tags : Forall wf_tag tags -> mux hv ha tags = flv_v1_spec hv ha tags.
Proof.
  intros Hwf. rewrite mux_concat. unfold flv_v1_spec. rewrite spec_header_eq. f_equal.
  induction Hwf as [|t ts Ht _ IH]; [reflexivity|].
  cbn [map concat]. now rewrite IH, spec_tag_eq.
Qed.

Theorem demux_spec hv ha tags fuel s tm :
  Forall wf_tag tags -> (length tags < fuel)%nat ->
  flat s = (flv_v1_spec hv ha tags, tm) ->
  demux fuel s = Ok ((1, hv, ha), tags, (0, tm)).
Proof. intros Hwf Hfuel Hf. rewrite <- mux_is_spec in Hf by assumption. now apply demux_mux. Qed.

(* the muxer emits bytes *)
Lemma mux_wf hv ha tags : Forall (fun t => wf_bytes (t_body t)) tags -> wf_bytes (mux hv ha tags).
Proof.
  intros Hb. rewrite mux_concat. unfold wf_bytes in *. apply Forall_app. split.
  - destruct hv, ha; repeat constructor.
  - induction Hb as [|t ts Ht _ IH]; [constructor|].
    cbn [map concat]. apply Forall_app. split; [|exact IH].
    unfold tag_bytes. apply Forall_app. split; [|apply Forall_app; split; [exact Ht|]].
    + unfold mux_tag_header, mux_tag_header_n, u8. repeat constructor; unfold wf_byte; lia.
    + unfold mux_tag_trailer, mux_tag_trailer_n, be4. repeat constructor; unfold wf_byte; lia.
Qed.

(* ---------- the segmented readers used by the harness ---------- *)
Definition all_data (s : stream) : Prop := forall e, ~ In (Fault e) s.

Lemma all_data_flat s : all_data s -> snd (flat s) = eEOF.
Proof.
  induction s as [|sg s IH]; intros H; [reflexivity|].
  destruct sg as [b|e]; [|exfalso; apply (H e); now left].
  cbn [flat]. destruct (flat s) as [d t] eqn:E. cbn [snd] in *. apply IH.
  intros e He. apply (H e). now right.
Qed.

Lemma all_data_rev s : all_data s -> all_data (rev s).
Proof. intros H e He. apply in_rev in He. now apply (H e). Qed.

Lemma all_data_cons b s : all_data s -> all_data (Data b :: s).
Proof. intros H e [He|He]; [discriminate|now apply (H e)]. Qed.

Lemma data_snoc s b : all_data s -> fst (flat (s ++ [Data b])) = fst (flat s) ++ b.
Proof. intros H. rewrite flat_app_data by exact H. cbn. now rewrite app_nil_r. Qed.

Lemma rev_cons_ {A} (x : A) l : rev (x :: l) = rev l ++ [x].
Proof. reflexivity. Qed.

Lemma split_go_flat b : forall k rest all cur acc, all_data acc ->
  flat (split_go b k rest all cur acc) = (fst (flat (rev acc)) ++ rev cur ++ b, eEOF).
Proof.
  induction b as [|x t IH]; intros k rest all cur acc Ha.
  - cbn [split_go]. rewrite frev_rev, app_nil_r. destruct cur as [|c cur].
    + cbn [rev]. rewrite app_nil_r. rewrite (surjective_pairing (flat (rev acc))).
      now rewrite (all_data_flat _ (all_data_rev _ Ha)).
    + rewrite frev_rev. rewrite (rev_cons_ (Data (rev (c :: cur))) acc).
      rewrite (surjective_pairing (flat _)). rewrite data_snoc by now apply all_data_rev.
      rewrite all_data_flat; [reflexivity|].
      intros e He. apply in_app_or in He. destruct He as [He|[He|[]]]; [|discriminate].
      now apply (all_data_rev _ Ha e).
  - cbn [split_go]. destruct (k <=? 1).
    + destruct (next_size rest all) as [k' rest'].
      rewrite IH by now apply all_data_cons.
      rewrite frev_rev. rewrite (rev_cons_ (Data (rev (x :: cur))) acc).
      rewrite data_snoc by now apply all_data_rev.
      cbn [rev app]. now rewrite <- !app_assoc.
    + rewrite IH by exact Ha. cbn [rev]. now rewrite <- !app_assoc.
Qed.

Lemma split_segs_flat sizes b : flat (split_segs sizes b) = (b, eEOF) /\ all_data (split_segs sizes b).
Proof.
  assert (Hf : flat (split_segs sizes b) = (b, eEOF)).
  { unfold split_segs. destruct sizes as [|k0 r].
    - destruct b; cbn; now rewrite ?app_nil_r.
    - destruct (next_size (k0 :: r) (k0 :: r)) as [k rest].
      rewrite split_go_flat by (intros e []). reflexivity. }
  split; [exact Hf|].
  (* a Fault segment would show in [flat]: prove all_data through the construction instead *)
  unfold split_segs. destruct sizes as [|k0 r].
  - destruct b; intros e He; cbn in He; intuition discriminate.
  - destruct (next_size (k0 :: r) (k0 :: r)) as [k rest].
    assert (G : forall b k rest all cur acc, all_data acc -> all_data (split_go b k rest all cur acc)).
    { clear. induction b as [|x t IH]; intros k rest all cur acc Ha.
      - cbn [split_go]. rewrite frev_rev. apply all_data_rev. destruct cur; [exact Ha|now apply all_data_cons].
      - cbn [split_go]. destruct (k <=? 1).
        + destruct (next_size rest all). apply IH. now apply all_data_cons.
        + now apply IH. }
    apply G. intros e [].
Qed.

(* the reader the harness builds from (wire, segment sizes, no cut, fault): it delivers
   exactly [wire], in whatever segment sizes, and ends with EOF or the injected fault *)
Theorem mk_stream_flat wire sizes cut fault : (cut < 0)%Z ->
  flat (mk_stream wire sizes cut fault) =
  (wire, if (fault <? 0)%Z then eEOF else 10 + Z.to_N fault).
Proof.
  intros Hc. unfold mk_stream. apply Z.ltb_lt in Hc. rewrite Hc.
  destruct (split_segs_flat sizes wire) as [Hf Ha].
  rewrite flat_app_data by exact Ha. rewrite Hf. cbn [fst].
  destruct (fault <? 0)%Z; cbn; now rewrite app_nil_r.
Qed.

Theorem demux_mux_harness hv ha tags sizes fault :
  Forall wf_tag tags ->
  demux (S (length tags)) (mk_stream (mux hv ha tags) sizes (-1) fault) =
  Ok ((1, hv, ha), tags, (0, if (fault <? 0)%Z then eEOF else 10 + Z.to_N fault)).
Proof.
  intros Hwf. apply demux_mux; [exact Hwf|lia|]. now apply mk_stream_flat.
Qed.

(* ---------- the size field holds the body length modulo 2^24 (why the bound is 2^24) ---------- *)
Lemma parse_mux_tag_header_any t : t_type t < 256 -> t_ts t < 4294967296 -> lenN (t_body t) < 4294967296 ->
  parse_tag_header (mux_tag_header t) = Ok (t_type t, lenN (t_body t) mod 16777216, t_ts t).
Proof.
  intros Hty Hts Hsz. unfold parse_tag_header, mux_tag_header, mux_tag_header_n.
  cbn [idx nth_error bind].
  replace (u32 (lenN (t_body t))) with (lenN (t_body t)) by (unfold u32; lia).
  rewrite ube4_be4 by assumption.
  replace (u8 (t_type t)) with (t_type t) by (unfold u8; lia).
  do 2 f_equal. f_equal. unfold ube3, u8. lia.
Qed.

(* ---------- truncated files: the tags read are a prefix of the tags written ---------- *)
Lemma firstn_app_ge {A} c (a r : list A) : (length a <= c)%nat ->
  firstn c (a ++ r) = a ++ firstn (c - length a) r.
Proof. intros H. rewrite firstn_app. now rewrite firstn_all2 by exact H. Qed.

Lemma firstn_app_lt {A} c (a r : list A) : (c <= length a)%nat -> firstn c (a ++ r) = firstn c a.
Proof.
  intros H. rewrite firstn_app. replace (c - length a)%nat with 0%nat by lia.
  cbn [firstn]. apply app_nil_r.
Qed.

Lemma length_tag_bytes t : length (tag_bytes t) = (15 + length (t_body t))%nat.
Proof. unfold tag_bytes. rewrite !app_length. cbn. lia. Qed.

Lemma read_tags_truncated tags : forall c fuel s acc tm,
  Forall wf_tag tags -> (length tags < fuel)%nat ->
  flat s = (firstn c (concat (map tag_bytes tags)), tm) ->
  exists k w, read_tags fuel s acc = Ok (rev acc ++ firstn k tags, (w, tm)).
Proof.
  induction tags as [|t ts IH]; intros c fuel s acc tm Hwf Hfuel Hf.
  - destruct fuel as [|f]; [lia|]. cbn [map concat] in Hf. rewrite firstn_nil in Hf.
    exists 0%nat, 0. cbn [read_tags]. unfold read_tag_header.
    rewrite (read_via_short parse_tag_header s 11 [] tm Hf) by (rewrite lenN_nil; lia).
    now rewrite frev_rev, app_nil_r.
  - destruct fuel as [|f]; [lia|]. cbn [length] in Hfuel.
    inversion Hwf as [|? ? Hwt Hwts]; subst. cbn [map concat] in Hf.
    destruct (Nat.le_gt_cases (length (tag_bytes t)) c) as [Hge|Hlt].
    + (* the whole tag is there *)
      rewrite firstn_app_ge in Hf by exact Hge.
      destruct (read_one_tag t s _ tm Hwt Hf) as (s1 & H1 & s2 & H2 & F2).
      destruct (IH _ f s2 (t :: acc) tm Hwts ltac:(lia) F2) as (k & w & Hr).
      exists (S k), w. cbn [read_tags]. rewrite H1, H2.
      destruct t as [ty tss b]. cbn [t_type t_ts t_body] in *. rewrite Hr.
      cbn [rev firstn]. now rewrite <- app_assoc.
    + rewrite firstn_app_lt in Hf by lia.
      destruct (Nat.le_gt_cases 11 c) as [H11|H11].
      * (* the tag header is there, the body or its trailer is cut *)
        unfold tag_bytes in Hf. rewrite (firstn_app_ge c) in Hf by (cbn; lia).
        destruct (read_via_ok parse_tag_header s 11 _ _ tm _ Hf (lenN_mux_tag_header t)
                    (parse_mux_tag_header t Hwt)) as (s1 & H1 & F1).
        fold read_tag_header in H1.
        exists 0%nat, 1. cbn [read_tags]. rewrite H1. unfold read_tag.
        rewrite (read_via_short strip_pts s1 _ _ tm F1).
        -- now rewrite frev_rev, app_nil_r.
        -- destruct Hwt as (_ & _ & Hsz). rewrite length_tag_bytes in Hlt.
           rewrite lenN_length, firstn_length. rewrite lenN_length in Hsz.
           change (length (mux_tag_header t)) with 11%nat. unfold u32. rewrite lenN_length. lia.
      * (* not even the tag header *)
        exists 0%nat, 0. cbn [read_tags]. unfold read_tag_header.
        rewrite (read_via_short parse_tag_header s 11 _ tm Hf).
        -- now rewrite frev_rev, app_nil_r.
        -- rewrite lenN_length, firstn_length. lia.
Qed.

Theorem demux_truncated hv ha tags c fuel s tm :
  Forall wf_tag tags -> (length tags < fuel)%nat ->
  flat s = (firstn c (mux hv ha tags), tm) ->
  ((c < 13)%nat -> demux fuel s = Err tm) /\
  ((13 <= c)%nat -> exists k w, demux fuel s = Ok ((1, hv, ha), firstn k tags, (w, tm))).
Proof.
  intros Hwf Hfuel Hf. rewrite mux_concat in Hf. unfold demux. split; intros Hc.
  - rewrite firstn_app_lt in Hf by (destruct hv, ha; cbn; lia).
    unfold read_header. rewrite (read_via_short parse_header s 13 _ tm Hf); [reflexivity|].
    rewrite lenN_length, firstn_length. lia.
  - rewrite firstn_app_ge in Hf by (destruct hv, ha; cbn; lia).
    destruct (read_via_ok parse_header s 13 _ _ tm _ Hf eq_refl (parse_mux_header hv ha))
      as (s1 & H1 & F1).
    fold read_header in H1. rewrite H1. cbn [bind].
    destruct (read_tags_truncated tags _ fuel s1 [] tm Hwf Hfuel F1) as (k & w & Hr).
    exists k, w. rewrite Hr. reflexivity.
Qed.

(* ---------- a one-tag file: everything around the body is a function of the body's length ---------- *)
Theorem mux_single hv ha t :
  mux hv ha [t] = mux_header hv ha ++ mux_tag_header_n (t_type t) (t_ts t) (lenN (t_body t))
                  ++ t_body t ++ mux_tag_trailer_n (lenN (t_body t)).
Proof. rewrite mux_concat. cbn [map concat]. rewrite app_nil_r. reflexivity. Qed.

(* ... and for every length below 2^32-11 the trailer is the 4-byte big-endian 11 + length,
   the size field the low 24 bits of the length *)
Lemma trailer_n_spec len : len + 11 < 4294967296 -> mux_tag_trailer_n len = be4 (11 + len).
Proof. intros H. unfold mux_tag_trailer_n. f_equal. unfold u32. lia. Qed.

(* ---------- histories on one muxer / one demuxer ---------- *)
Lemma write_tags_spec tags : forall st,
  fold_left write_tag tags st = st ++ concat (map mux_tag_writes tags).
Proof.
  induction tags as [|t ts IH]; intros st; cbn [fold_left map concat].
  - now rewrite app_nil_r.
  - rewrite IH. unfold write_tag. now rewrite app_assoc.
Qed.

(* the state-passing muxer issues exactly the Write calls of [mux_writes] *)
Theorem write_history_mux hv ha tags :
  fold_left write_tag tags (write_header [] hv ha) = mux_writes hv ha tags.
Proof. rewrite write_tags_spec. reflexivity. Qed.

(* what earlier calls wrote is a prefix of the final state: later WriteTag calls (and whatever
   the caller does with its buffers in between) do not change it *)
Theorem write_history_prefix tags1 tags2 st :
  fold_left write_tag (tags1 ++ tags2) st
  = fold_left write_tag tags1 st ++ concat (map mux_tag_writes tags2).
Proof. rewrite fold_left_app. apply write_tags_spec. Qed.

(* tags already returned by the read loop stay as they were: the final list extends them *)
Lemma read_tags_acc_prefix fuel : forall s acc r e,
  read_tags fuel s acc = Ok (r, e) -> exists l, r = rev acc ++ l.
Proof.
  induction fuel as [|f IH]; intros s acc r e H; [discriminate|].
  cbn [read_tags] in H.
  destruct (read_tag_header s) as [[[[ty sz] ts] s1]|e1|x1].
  - destruct (read_tag sz s1) as [[b s2]|e2|x2].
    + destruct (IH _ _ _ _ H) as (l & ->). cbn [rev]. rewrite <- app_assoc. eauto.
    + inversion H; subst. exists []. now rewrite frev_rev, app_nil_r.
    + discriminate.
  - inversion H; subst. exists []. now rewrite frev_rev, app_nil_r.
  - discriminate.
Qed.
