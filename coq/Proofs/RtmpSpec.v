(* C02: the reader against the reference chunker of RTMP 1.0 section 5.3 (spec_step / spec_run in
   Model/RtmpChunk.v): simulation between the sender's per-chunk-stream memory and the reader's
   cache, over arbitrary plans (all header types, interleaved chunk streams, Set Chunk Size),
   guarded by "no extended timestamp delta" (the recorded finding ext-ts-delta); the three
   rejection lemmas; the refutation witness. *)
From Verif Require Import Lib.Base Lib.Sx Model.RtmpChunk Proofs.RtmpChunk Proofs.RtmpChunkRT.
Open Scope N_scope.
Ltac Zify.zify_post_hook ::= Z.div_mod_to_equations.

(* ---------- the read loop, chunk by chunk ---------- *)
Fixpoint rall (fuel : nat) (s : rstate) (i : inp) (acc : list msg) : list msg * N :=
  match fuel with
  | O => (frev acc, E_FUEL)
  | S f =>
      match read_chunk s i with
      | Ok (Some m, s1, i1) => rall f s1 i1 (m :: acc)
      | Ok (None, s1, i1) => rall f s1 i1 acc
      | Err e => (frev acc, e)
      | Panic p => (frev acc, 1000 + p)
      end
  end.

(* ReadMessage against the chunk loop *)
Lemma rall_read_message f : forall s i acc r e fuel,
  rall f s i acc = (r, e) -> e <> E_FUEL -> (f <= fuel)%nat ->
  match read_message fuel s i with
  | Ok (m, s1, i1) => exists f', (f' < f)%nat /\ rall f' s1 i1 (m :: acc) = (r, e)
  | Err e' => e' = e /\ r = frev acc
  | Panic p => e = 1000 + p /\ r = frev acc
  end.
Proof.
  induction f as [|f IH]; intros s i acc r e fuel H He Hf.
  - cbn in H. inversion H; subst. congruence.
  - destruct fuel as [|fuel]; [lia|]. cbn [rall] in H. cbn [read_message].
    destruct (read_chunk s i) as [[[om s1] i1]|e'|p]; cbn [bind].
    + destruct om as [m|].
      * exists f. split; [lia|exact H].
      * specialize (IH s1 i1 acc r e fuel H He ltac:(lia)).
        destruct (read_message fuel s1 i1) as [[[m s2] i2]|e'|p]; auto.
        destruct IH as (f' & Hf' & Hr). exists f'. split; [lia|exact Hr].
    + inversion H; subst. auto.
    + inversion H; subst. auto.
Qed.

Lemma rall_read_all : forall f s i acc r e fuel,
  rall f s i acc = (r, e) -> e <> E_FUEL -> (f <= fuel)%nat -> read_all fuel s i acc = (r, e).
Proof.
  induction f as [f IH] using lt_wf_ind. intros s i acc r e fuel H He Hf.
  destruct fuel as [|fuel].
  - assert (f = 0%nat) by lia. subst. cbn in H. inversion H; subst. congruence.
  - cbn [read_all]. pose proof (rall_read_message f s i acc r e (S fuel) H He Hf) as R.
    destruct (read_message (S fuel) s i) as [[[m s1] i1]|e'|p].
    + destruct R as (f' & Hf' & Hr). apply (IH f'); auto. lia.
    + destruct R as [-> ->]. reflexivity.
    + destruct R as [-> ->]. reflexivity.
Qed.

(* ---------- association lists ---------- *)
Lemma alookup_aset_same {A} (l : list (N * A)) k v : alookup (aset l k v) k = Some v.
Proof.
  induction l as [|[k' w] t IH]; cbn [aset alookup].
  - now rewrite N.eqb_refl.
  - destruct (N.eqb_spec k' k) as [->|Hk]; cbn [alookup].
    + now rewrite N.eqb_refl.
    + apply N.eqb_neq in Hk. now rewrite Hk.
Qed.
Lemma alookup_aset_other {A} (l : list (N * A)) k v k2 : k2 <> k -> alookup (aset l k v) k2 = alookup l k2.
Proof.
  intros Hk. induction l as [|[k' w] t IH]; cbn [aset alookup].
  - assert ((k =? k2) = false) as -> by (apply N.eqb_neq; congruence). reflexivity.
  - destruct (N.eqb_spec k' k) as [->|Hk']; cbn [alookup].
    + assert ((k =? k2) = false) as -> by (apply N.eqb_neq; congruence). reflexivity.
    + destruct (k' =? k2); auto.
Qed.
(* keys are unique in the maps built by aset from the empty list *)
Fixpoint keys_nodup {A} (l : list (N * A)) : Prop :=
  match l with [] => True | (k, _) :: t => alookup t k = None /\ keys_nodup t end.
Lemma alookup_adel_other {A} (l : list (N * A)) k k2 : k2 <> k -> alookup (adel l k) k2 = alookup l k2.
Proof.
  intros Hk. induction l as [|[k' w] t IH]; cbn [adel alookup]; auto.
  destruct (N.eqb_spec k' k) as [->|Hk']; cbn [alookup].
  - assert ((k =? k2) = false) as -> by (apply N.eqb_neq; congruence). reflexivity.
  - destruct (k' =? k2); auto.
Qed.
Lemma alookup_adel_same {A} (l : list (N * A)) k : keys_nodup l -> alookup (adel l k) k = None.
Proof.
  induction l as [|[k' w] t IH]; cbn [adel alookup keys_nodup]; auto.
  intros [H1 H2]. destruct (N.eqb_spec k' k) as [->|Hk']; cbn [alookup]; auto.
  apply N.eqb_neq in Hk'. rewrite Hk'. auto.
Qed.
Lemma keys_nodup_aset {A} (l : list (N * A)) k v : keys_nodup l -> keys_nodup (aset l k v).
Proof.
  induction l as [|[k' w] t IH]; cbn [aset keys_nodup]; auto.
  intros [H1 H2]. destruct (N.eqb_spec k' k) as [->|Hk']; cbn [keys_nodup]; auto.
  split; auto. rewrite alookup_aset_other by congruence. exact H1.
Qed.
Lemma keys_nodup_adel {A} (l : list (N * A)) k : keys_nodup l -> keys_nodup (adel l k).
Proof.
  induction l as [|[k' w] t IH]; cbn [adel keys_nodup]; auto.
  intros [H1 H2]. destruct (N.eqb_spec k' k) as [->|Hk']; cbn [keys_nodup]; auto.
  split; auto. rewrite alookup_adel_other by congruence. exact H1.
Qed.

Lemma pick_cid cid l m l' : pick cid l = Some (m, l') -> m_cid m = cid.
Proof.
  revert l'. induction l as [|a t IH]; intros l'; cbn [pick]; [discriminate|].
  destruct (N.eqb_spec (m_cid a) cid) as [E|E].
  - intros H. injection H as <- <-. exact E.
  - destruct (pick cid t) as [[y t']|]; [|discriminate]. intros H. injection H as <- <-. eapply IH. reflexivity.
Qed.

(* ---------- the simulation relation ---------- *)
(* the reader's cache of a chunk stream agrees with the sender's memory p of it *)
Definition Hdr_ok (p : sprev) (st : cstate) : Prop :=
  c_count st <> 0 /\
  h_ts (c_hdr st) = sp_ts p mod T31 /\ h_len (c_hdr st) = sp_len p /\ h_type (c_hdr st) = sp_type p /\
  h_sid (c_hdr st) = sp_sid p /\ c_ext st = sp_ext p /\
  (sp_ext p = false -> h_delta (c_hdr st) = sp_delta p /\ sp_delta p < 16777215) /\
  (sp_ext p = true -> sp_extv p = sp_ts p) /\
  sp_ts p < 4294967296.
(* the sender's memory p was last written for message m of chunk stream cid *)
Definition Msg_np (p : sprev) (m : msg) (cid : N) : Prop :=
  m_cid m = cid /\ sp_ts p = m_ts m /\ sp_len p = lenN (m_payload m) /\ sp_type p = m_type m /\
  sp_sid p = m_sid m /\ msg_ok m = true.

Definition Rc (cid : N) (prev : option sprev) (fly : option (msg * bytes)) (st : cstate) : Prop :=
  match prev with
  | None => fly = None /\ c_count st = 0 /\ c_part st = None
  | Some p =>
      Hdr_ok p st /\
      match fly with
      | None => c_part st = None
      | Some (m, rem) =>
          Msg_np p m cid /\ rem <> [] /\
          exists gr got, c_part st = Some (gr, lenN got) /\ concat (rev gr) = got /\ m_payload m = got ++ rem
      end
  end.

Definition R (sd : sender) (s : rstate) : Prop :=
  in_chunk s = sd_size sd /\ 0 < sd_size sd /\ keys_nodup (sd_fly sd) /\
  forall cid, Rc cid (alookup (sd_prev sd) cid) (alookup (sd_fly sd) cid) (get_chunk (chunks s) cid).

Lemma R_init msgs : R (sd0 msgs) rs0.
Proof.
  unfold R, sd0, rs0. cbn. repeat split; try lia. Qed.

(* the recorded finding, as a guard on one step: no extended timestamp DELTA, i.e. a message
   started with type 1/2 has delta < 0xFFFFFF and one started with type 3 follows a header
   without extended timestamp *)
Definition guard_step (sd : sender) (st : step) : bool :=
  match alookup (sd_fly sd) (st_cid st) with
  | Some _ => true
  | None =>
      match pick (st_cid st) (sd_pend sd), alookup (sd_prev sd) (st_cid st) with
      | Some (m, _), Some p =>
          if st_fmt st =? 0 then true
          else if st_fmt st =? 3 then negb (sp_ext p)
          else (m_ts m - sp_ts p) <? 16777215
      | _, _ => true
      end
  end.
Fixpoint guard_run (sd : sender) (plan : list step) : bool :=
  match plan with
  | [] => true
  | st :: t => guard_step sd st && guard_run (snd (spec_step sd st)) t
  end.
Definition no_ext_delta (plan : list step) (msgs : list msg) : bool := guard_run (sd0 msgs) plan.

(* ---------- reader steps against specification bytes ---------- *)
Lemma spec_basic_rt fmt cid form (x : bytes) (rest : inp) : fmt < 4 -> form_legal cid form = true ->
  read_basic_header ((spec_basic fmt cid form ++ x) :: rest) = Ok (fmt, cid, x :: rest).
Proof.
  intros Hf. unfold form_legal, spec_basic.
  destruct (N.eqb_spec form 1) as [E1|E1].
  - intros H. apply andb_true_iff in H. destruct H as [H1 H2].
    cbn [app]. unfold read_basic_header. rewrite stake1_cons. cbn [bind].
    assert ((fmt * 64 + cid mod 64) mod 64 = cid) as -> by lia.
    assert ((fmt * 64 + cid mod 64) / 64 mod 4 = fmt) as -> by lia.
    assert ((1 <? cid) = true) as -> by lia. reflexivity.
  - destruct (N.eqb_spec form 2) as [E2|E2].
    + intros H. apply andb_true_iff in H. destruct H as [H1 H2].
      cbn [app]. unfold read_basic_header. rewrite stake1_cons. cbn [bind].
      assert ((fmt * 64) mod 64 = 0) as -> by lia.
      assert ((fmt * 64) / 64 mod 4 = fmt) as -> by lia.
      change (1 <? 0) with false. cbv iota. rewrite stake1_cons. cbn [bind].
      change (0 =? 1) with false. cbv iota. unfold u32.
      assert ((64 + (cid - 64) mod 256) mod 4294967296 = cid) as -> by lia. reflexivity.
    + destruct (N.eqb_spec form 3) as [E3|E3]; [|discriminate].
      intros H. apply andb_true_iff in H. destruct H as [H1 H2].
      cbn [app]. unfold read_basic_header. rewrite stake1_cons. cbn [bind].
      assert ((fmt * 64 + 1) mod 64 = 1) as -> by lia.
      assert ((fmt * 64 + 1) / 64 mod 4 = fmt) as -> by lia.
      change (1 <? 1) with false. cbv iota. rewrite stake1_cons. cbn [bind].
      change (1 =? 1) with true. cbv iota. rewrite stake1_cons. cbn [bind]. unfold u32.
      assert (((64 + (cid - 64) mod 256) mod 4294967296 + ((cid - 64) / 256 mod 256 * 256) mod 4294967296)
              mod 4294967296 = cid) as -> by lia.
      reflexivity.
Qed.

Lemma payload_gen c cid st (pay got q x : bytes) (rest : inp) :
  0 < c -> h_len (c_hdr st) = lenN pay -> part_is (c_part st) got -> pay = got ++ q -> q <> [] ->
  read_payload c cid st ((firstn (N.to_nat c) q ++ x) :: rest) =
    if lenN q <=? c
    then Ok (Some (mkmsg cid (h_ts (c_hdr st)) (h_type (c_hdr st)) (h_sid (c_hdr st)) pay), set_part st None, x :: rest)
    else Ok (None, set_part st (Some (firstn (N.to_nat c) q :: gr_of (c_part st), lenN got + c)), x :: rest).
Proof.
  intros Hc Hh Hp Hpay Hq. unfold read_payload. rewrite Hh.
  assert (Hlen : lenN pay = lenN got + lenN q) by (now rewrite Hpay, lenN_app).
  assert (Hql : 0 < lenN q) by (destruct q; [congruence|rewrite lenN_length; cbn; lia]).
  assert (Hpart : match c_part st with None => ([], 0) | Some g => g end = (gr_of (c_part st), lenN got)
                  /\ concat (rev (gr_of (c_part st))) = got).
  { unfold part_is in Hp. destruct (c_part st) as [[gr gl]|]; cbn.
    - destruct Hp as [H1 ->]. auto.
    - subst got. auto. }
  destruct Hpart as [-> Hgr].
  assert ((lenN pay =? 0) = false) as -> by lia.
  assert ((lenN pay <? lenN got) = false) as -> by lia.
  replace (lenN pay - lenN got) with (lenN q) by lia.
  destruct (N.leb_spec (lenN q) c) as [Hle|Hgt].
  - rewrite N.min_l by lia. rewrite firstn_all2 by (rewrite lenN_length in Hle; lia).
    rewrite stake_app. cbn [bind].
    assert ((lenN got + lenN q =? lenN pay) = true) as -> by lia.
    rewrite frev_rev. cbn [rev]. rewrite concat_app, Hgr. cbn [concat]. rewrite app_nil_r, <- Hpay.
    reflexivity.
  - rewrite N.min_r by lia.
    rewrite <- (firstn_lenN c q Hgt) at 2. rewrite stake_app. cbn [bind].
    assert ((lenN got + c =? lenN pay) = false) as -> by lia.
    reflexivity.
Qed.

Lemma has_len_spec p n : has_len p n = (n <=? lenN p).
Proof.
  unfold has_len. pose proof (stake_flat [p] n) as S. cbn [flat concat] in S. rewrite app_nil_r in S.
  destruct (stake [p] n) as [[a i']|e|q].
  - destruct S as (S & _). symmetry. now apply N.leb_le.
  - destruct S as (S & _). symmetry. apply N.leb_gt. exact S.
  - contradiction.
Qed.

Lemma arrived_spec c m : body_ok m = true -> 0 < c ->
  on_message_arrived c (red m) = Ok (after_done c m) /\ 0 < after_done c m.
Proof.
  unfold body_ok, on_message_arrived, after_done, red. cbn [m_type m_payload]. consts. intros H Hc.
  destruct (m_type m =? 1) eqn:E1.
  - destruct (m_payload m) as [|a [|b [|c' [|d l]]]]; try discriminate.
    apply andb_true_iff in H. split; [reflexivity|lia].
  - destruct (m_type m =? 2) eqn:E2; [discriminate|].
    destruct (m_type m =? 5) eqn:E5.
    + destruct (m_payload m) as [|a [|b [|c' [|d l]]]]; try discriminate. auto.
    + destruct (m_type m =? 4) eqn:E4; [|auto].
      destruct (m_payload m) as [|a [|b l]] eqn:Ep; try discriminate.
      destruct l as [|c' l].
      * exfalso. unfold lenN in H. cbn in H. destruct (ube2 a b =? 26); destruct (ube2 a b =? 3); cbn in H; discriminate.
      * rewrite has_len_spec. rewrite H. auto.
Qed.

(* message header, type 0, against specification bytes *)
Lemma spec_mhdr0_rt m cid st (x : bytes) (rest : inp) :
  msg_ok m = true -> c_part st = None ->
  read_message_header cid st 0
    ((spec_field (m_ts m) ++ be3 (lenN (m_payload m) + 0) ++ [m_type m] ++ le4 (m_sid m) ++ spec_ext (m_ts m) ++ x) :: rest)
  = Ok (mkcs (mkhdr (if m_ts m <? 16777215 then m_ts m else 16777215) (lenN (m_payload m)) (m_type m) (m_sid m)
                (m_ts m mod T31))
             (16777215 <=? m_ts m) (c_count st + 1) None, x :: rest).
Proof.
  intros Hok Hp. unfold msg_ok in Hok. repeat (apply andb_true_iff in Hok; destruct Hok as [Hok ?]).
  unfold read_message_header. rewrite Hp. consts. change (0 =? 0) with true.
  rewrite andb_false_r. cbn [negb andb]. rewrite hdr_size_0, N.add_0_r.
  unfold spec_field. set (tf := if m_ts m <? 16777215 then m_ts m else 16777215).
  assert (Htf : tf < 16777216) by (unfold tf; destruct (m_ts m <? 16777215) eqn:E; lia).
  unfold be3, le4. cbn [app].
  match goal with |- context [stake ((?a :: ?b :: ?c :: ?d :: ?e :: ?f :: ?g :: ?h :: ?i :: ?j :: ?k :: ?r) :: rest) 11] =>
    change (stake ((a :: b :: c :: d :: e :: f :: g :: h :: i :: j :: k :: r) :: rest) 11)
      with (stake (([a; b; c; d; e; f; g; h; i; j; k] ++ r) :: rest) (lenN [a; b; c; d; e; f; g; h; i; j; k])) end.
  rewrite stake_app. cbn [bind].
  change (0 <=? 2) with true. change (0 <=? 1) with true. cbv iota.
  rewrite (ube3_be3 tf Htf), (ube3_be3 (lenN (m_payload m))) by lia.
  rewrite ule4_le4 by lia. cbn [negb andb bind].
  assert (He : (16777215 <=? tf) = (16777215 <=? m_ts m)).
  { unfold tf. destruct (N.ltb_spec (m_ts m) 16777215); lia. }
  rewrite He. unfold spec_ext.
  destruct (N.ltb_spec (m_ts m) 16777215) as [Hl|Hl].
  - assert ((16777215 <=? m_ts m) = false) as -> by lia. cbn [app bind h_ts]. unfold set_ts. cbn.
    subst tf. reflexivity.
  - assert ((16777215 <=? m_ts m) = true) as -> by lia. unfold be4.
    change 4 with (lenN [m_ts m / 16777216 mod 256; m_ts m / 65536 mod 256; m_ts m / 256 mod 256; m_ts m mod 256]).
    rewrite <- !app_comm_cons. cbn [app].
    match goal with |- context [stake ((?a :: ?b :: ?c :: ?d :: ?r) :: rest) _] =>
      change (a :: b :: c :: d :: r) with ([a; b; c; d] ++ r) end.
    rewrite stake_app. cbn [bind]. rewrite ube4_be4 by lia. unfold set_ts. cbn.
    rewrite N.mod_mod by (unfold T31; lia). reflexivity.
Qed.

Lemma eta_hdr h : mkhdr (h_delta h) (h_len h) (h_type h) (h_sid h) (h_ts h) = h.
Proof. destruct h; reflexivity. Qed.

Lemma spec_mhdr1_rt cid st d len ty (x : bytes) (rest : inp) :
  c_count st <> 0 -> c_part st = None -> d < 16777215 -> len < 16777216 ->
  read_message_header cid st 1 ((be3 d ++ be3 len ++ [ty] ++ x) :: rest)
  = Ok (mkcs (mkhdr d len ty (h_sid (c_hdr st)) (u64 (h_ts (c_hdr st) + d) mod T31)) false (c_count st + 1) None,
        x :: rest).
Proof.
  intros Hc Hp Hd Hl. unfold read_message_header. rewrite Hp. consts.
  assert ((c_count st =? 0) = false) as -> by (now apply N.eqb_neq).
  change (1 =? 0) with false. cbn [negb andb]. rewrite hdr_size_1.
  unfold be3. cbn [app].
  match goal with |- context [stake ((?a :: ?b :: ?c :: ?d :: ?e :: ?f :: ?g :: ?r) :: rest) 7] =>
    change (stake ((a :: b :: c :: d :: e :: f :: g :: r) :: rest) 7)
      with (stake (([a; b; c; d; e; f; g] ++ r) :: rest) (lenN [a; b; c; d; e; f; g])) end.
  rewrite stake_app. cbn [bind].
  change (1 <=? 2) with true. change (1 <=? 1) with true. cbv iota.
  rewrite (ube3_be3 d), (ube3_be3 len) by lia. cbn [negb andb bind].
  assert ((16777215 <=? d) = false) as -> by lia. cbn [bind h_ts]. unfold set_ts. cbn.
  reflexivity.
Qed.

Lemma spec_mhdr2_rt cid st d (x : bytes) (rest : inp) :
  c_count st <> 0 -> c_part st = None -> d < 16777215 ->
  read_message_header cid st 2 ((be3 d ++ x) :: rest)
  = Ok (mkcs (mkhdr d (h_len (c_hdr st)) (h_type (c_hdr st)) (h_sid (c_hdr st)) (u64 (h_ts (c_hdr st) + d) mod T31))
             false (c_count st + 1) None, x :: rest).
Proof.
  intros Hc Hp Hd. unfold read_message_header. rewrite Hp. consts.
  assert ((c_count st =? 0) = false) as -> by (now apply N.eqb_neq).
  change (2 =? 0) with false. cbn [negb andb]. rewrite hdr_size_2.
  unfold be3. cbn [app].
  match goal with |- context [stake ((?a :: ?b :: ?c :: ?r) :: rest) 3] =>
    change (stake ((a :: b :: c :: r) :: rest) 3)
      with (stake (([a; b; c] ++ r) :: rest) (lenN [a; b; c])) end.
  rewrite stake_app. cbn [bind].
  change (2 <=? 2) with true. change (2 <=? 1) with false. cbv iota.
  rewrite (ube3_be3 d) by lia. cbn [bind].
  assert ((16777215 <=? d) = false) as -> by lia. cbn [bind h_ts]. unfold set_ts. cbn.
  reflexivity.
Qed.

Lemma spec_mhdr3new_rt cid st (x : bytes) (rest : inp) :
  c_count st <> 0 -> c_part st = None -> c_ext st = false ->
  read_message_header cid st 3 (x :: rest)
  = Ok (mkcs (set_ts (c_hdr st) (u64 (h_ts (c_hdr st) + h_delta (c_hdr st)) mod T31)) false (c_count st + 1) None,
        x :: rest).
Proof.
  intros Hc Hp He. unfold read_message_header. rewrite Hp, He. consts.
  assert ((c_count st =? 0) = false) as -> by (now apply N.eqb_neq).
  change (3 =? 0) with false. cbn [negb andb]. rewrite hdr_size_3, stake_zero. cbn [bind].
  change (3 <=? 2) with false. cbv iota. cbn [negb andb bind]. unfold set_ts. cbn. reflexivity.
Qed.

Lemma spec_mhdr3cont_rt cid st g v (x : bytes) (rest : inp) :
  c_count st <> 0 -> c_part st = Some g -> h_ts (c_hdr st) = v mod T31 -> v < 4294967296 ->
  read_message_header cid st 3 (((if c_ext st then be4 v else []) ++ x) :: rest)
  = Ok (mkcs (c_hdr st) (c_ext st) (c_count st + 1) (Some g), x :: rest).
Proof.
  intros Hc Hp Hv Hv2. unfold read_message_header. rewrite Hp. consts.
  assert ((c_count st =? 0) = false) as -> by (now apply N.eqb_neq).
  change (3 =? 0) with false. cbn [negb andb]. rewrite hdr_size_3, stake_zero. cbn [bind].
  change (3 <=? 2) with false. cbv iota. cbn [negb andb bind].
  assert (Hset : set_ts (c_hdr st) (v mod T31 mod T31) = c_hdr st).
  { unfold set_ts. rewrite N.mod_mod by (unfold T31; lia). rewrite <- Hv. apply eta_hdr. }
  destruct (c_ext st).
  - unfold be4. cbn [app].
    match goal with |- context [stake ((?a :: ?b :: ?c :: ?d :: ?r) :: rest) 4] =>
      change (stake ((a :: b :: c :: d :: r) :: rest) 4)
        with (stake (([a; b; c; d] ++ r) :: rest) (lenN [a; b; c; d])) end.
    rewrite stake_app. cbn [bind]. rewrite ube4_be4 by lia. rewrite Hset. reflexivity.
  - cbn [app bind]. rewrite Hv, Hset. reflexivity.
Qed.

(* ---------- one chunk of the reference chunker against one ReadMessage iteration ---------- *)
Definition emit_of (sd : sender) (st : step) (hb : bytes) (np : sprev) (m : msg) (rem : bytes) (ok : bool)
  (pend : list msg) : bytes * option msg * bool * sender :=
  let cid := st_cid st in
  let '(a, r, _) := upto rem (sd_size sd) in
  let w := spec_basic (st_fmt st) cid (st_form st) ++ hb ++ a in
  let prev' := aset (sd_prev sd) cid np in
  match r with
  | [] => (w, Some (red m), ok, mksd (after_done (sd_size sd) m) prev' (adel (sd_fly sd) cid) pend)
  | _ :: _ => (w, None, ok, mksd (sd_size sd) prev' (aset (sd_fly sd) cid (m, r)) pend)
  end.

Lemma spec_step_eq sd st :
  spec_step sd st =
  let cid := st_cid st in
  let fl := form_legal cid (st_form st) && (st_fmt st <? 4) in
  match alookup (sd_fly sd) cid with
  | Some (m, rem) =>
      let p := match alookup (sd_prev sd) cid with Some p => p | None => sp0 end in
      if st_fmt st =? 3 then
        emit_of sd st (if sp_ext p then be4 (sp_extv p) else []) p m rem (fl && (st_adj st =? 0)) (sd_pend sd)
      else
        let '(hb, np, _) := spec_mhdr (st_fmt st) (Some p) m (st_adj st) in
        emit_of sd st hb np m rem false (sd_pend sd)
  | None =>
      match pick cid (sd_pend sd) with
      | None => ([], None, false, sd)
      | Some (m, pend') =>
          let '(hb, np, ok) := spec_mhdr (st_fmt st) (alookup (sd_prev sd) cid) m (st_adj st) in
          emit_of sd st hb np m (m_payload m) (fl && ok && msg_ok m) pend'
      end
  end.
Proof. reflexivity. Qed.

Lemma emit_ok_false sd st hb np m rem pend w om sd' : emit_of sd st hb np m rem false pend <> (w, om, true, sd').
Proof.
  unfold emit_of. destruct (upto rem (sd_size sd)) as [[a r] k]. destruct r; intros H; inversion H.
Qed.

Lemma emit_sim sd st s hb np m rem pend st1 got w om sd' (x : bytes) (rest : inp) :
  R sd s -> st_fmt st < 4 -> form_legal (st_cid st) (st_form st) = true ->
  (forall y : bytes, read_message_header (st_cid st) (get_chunk (chunks s) (st_cid st)) (st_fmt st) ((hb ++ y) :: rest)
             = Ok (st1, y :: rest)) ->
  Hdr_ok np st1 -> Msg_np np m (st_cid st) ->
  part_is (c_part st1) got -> m_payload m = got ++ rem -> rem <> [] ->
  emit_of sd st hb np m rem true pend = (w, om, true, sd') ->
  exists s', read_chunk s ((w ++ x) :: rest) = Ok (om, s', x :: rest) /\ R sd' s'.
Proof.
  intros (Rin & Rpos & Rnd & Rall) Hf Hform Hh Hok Hm Hpart Hpay Hrem He.
  unfold emit_of in He. rewrite upto_spec in He. set (cid := st_cid st) in *.
  destruct Hok as (Hcnt & Hts & Hlen & Hty & Hsid & Hext & Hd & Hxv & Hts32).
  destruct Hm as (Hcid & Mts & Mlen & Mty & Msid & Mok).
  pose proof Mok as Mok'. unfold msg_ok in Mok'. repeat (apply andb_true_iff in Mok'; destruct Mok' as [Mok' ?]).
  assert (Hpl : h_len (c_hdr st1) = lenN (m_payload m)) by congruence.
  assert (Hstep : read_chunk s ((spec_basic (st_fmt st) cid (st_form st) ++ hb ++ firstn (N.to_nat (sd_size sd)) rem ++ x) :: rest)
     = let* (om, st2, i3) := read_payload (in_chunk s) cid st1 ((firstn (N.to_nat (sd_size sd)) rem ++ x) :: rest) in
       let ch := set_chunk (chunks s) cid st2 in
       match om with
       | None => Ok (None, mkrs (in_chunk s) ch, i3)
       | Some m' => let* c := on_message_arrived (in_chunk s) m' in Ok (Some m', mkrs c ch, i3)
       end).
  { unfold read_chunk. rewrite spec_basic_rt by auto. cbn [bind]. rewrite Hh. cbn [bind]. reflexivity. }
  rewrite Rin in Hstep.
  rewrite (payload_gen (sd_size sd) cid st1 (m_payload m) got rem x rest Rpos Hpl Hpart Hpay Hrem) in Hstep.
  destruct (skipn (N.to_nat (sd_size sd)) rem) as [|r0 r'] eqn:Esk.
  - (* last chunk of the message *)
    inversion He; subst w om sd'; clear He.
    assert (Hle : lenN rem <= sd_size sd).
    { apply (f_equal (@length N)) in Esk. rewrite skipn_length in Esk. cbn in Esk. rewrite lenN_length. lia. }
    assert ((lenN rem <=? sd_size sd) = true) as Hb by lia. rewrite Hb in Hstep. cbn [bind] in Hstep.
    assert (Hred : mkmsg cid (h_ts (c_hdr st1)) (h_type (c_hdr st1)) (h_sid (c_hdr st1)) (m_payload m) = red m).
    { unfold red. rewrite Hts, Hty, Hsid, Mts, Mty, Msid, Hcid. reflexivity. }
    rewrite Hred in Hstep.
    destruct (arrived_spec (sd_size sd) m) as [Harr Hpos']; auto.
    rewrite Harr in Hstep. cbn [bind] in Hstep.
    eexists. split.
    + rewrite <- !app_assoc. exact Hstep.
    + unfold R. cbn [in_chunk chunks sd_size sd_prev sd_fly]. split; [reflexivity|]. split; [exact Hpos'|].
      split; [now apply keys_nodup_adel|].
      intros k. destruct (N.eq_dec k cid) as [->|Hk].
      * rewrite alookup_aset_same, alookup_adel_same, get_set_same by auto.
        unfold Rc, Hdr_ok. cbn. repeat split; auto; try (apply Hd; assumption).
      * rewrite alookup_aset_other, alookup_adel_other, get_set_other by auto. apply Rall.
  - (* more chunks to come *)
    inversion He; subst w om sd'; clear He.
    assert (Hgt : sd_size sd < lenN rem).
    { apply (f_equal (@length N)) in Esk. rewrite skipn_length in Esk. cbn in Esk. rewrite lenN_length. lia. }
    assert ((lenN rem <=? sd_size sd) = false) as Hb by lia. rewrite Hb in Hstep. cbn [bind] in Hstep.
    eexists. split.
    + rewrite <- !app_assoc. exact Hstep.
    + unfold R. cbn [in_chunk chunks sd_size sd_prev sd_fly]. split; [reflexivity|]. split; [exact Rpos|].
      split; [now apply keys_nodup_aset|].
      intros k. destruct (N.eq_dec k cid) as [->|Hk].
      * rewrite !alookup_aset_same, get_set_same.
        unfold Rc, Hdr_ok, Msg_np. cbn. repeat split; auto; try (apply Hd; assumption).
        -- rewrite <- Esk. intro E. rewrite E in Esk. discriminate.
        -- exists (firstn (N.to_nat (sd_size sd)) rem :: gr_of (c_part st1)), (got ++ firstn (N.to_nat (sd_size sd)) rem).
           split; [|split].
           ++ rewrite lenN_app, firstn_lenN by lia. reflexivity.
           ++ cbn [rev]. rewrite concat_app. cbn [concat]. rewrite app_nil_r. f_equal.
              unfold part_is in Hpart. destruct (c_part st1) as [[gr gl]|]; cbn; [apply Hpart|now subst got].
           ++ rewrite <- Esk, <- app_assoc, firstn_skipn. exact Hpay.
      * rewrite !alookup_aset_other, get_set_other by auto. apply Rall.
Qed.

Lemma emit_ok sd st hb np m rem ok pend w om b sd' :
  emit_of sd st hb np m rem ok pend = (w, om, b, sd') -> ok = b.
Proof.
  unfold emit_of. destruct (upto rem (sd_size sd)) as [[a r] k]. destruct r; intros H; inversion H; reflexivity.
Qed.

Lemma ts_add a d : u64 (a mod T31 + d) mod T31 = (a + d) mod T31.
Proof. unfold u64, T31. lia. Qed.

Ltac hdr_fin :=
  unfold Hdr_ok, set_ts; cbn; repeat split; try lia; auto;
  try (match goal with Hts : h_ts _ = _ |- _ => rewrite Hts end; rewrite ?ts_add;
       try match goal with Hdel : h_delta _ = _ |- _ => rewrite Hdel; rewrite ?ts_add end; f_equal; lia);
  try (match goal with Hx : h_len _ = _ |- _ => rewrite Hx end; lia);
  try (match goal with Hx : h_type _ = _ |- _ => rewrite Hx end; lia);
  try (match goal with Hx : h_sid _ = _ |- _ => rewrite Hx end; lia);
  try (intros; lia);
  try (intros He; match goal with Hg : sp_ext _ = false |- _ => rewrite He in Hg; discriminate end).

Lemma sim_step sd st s w om sd' (x : bytes) (rest : inp) :
  R sd s -> spec_step sd st = (w, om, true, sd') -> guard_step sd st = true ->
  exists s', read_chunk s ((w ++ x) :: rest) = Ok (om, s', x :: rest) /\ R sd' s'.
Proof.
  intros HR H Hg. rewrite spec_step_eq in H. cbv zeta in H. unfold guard_step in Hg.
  pose proof HR as (Rin & Rpos & Rnd & Rall). pose proof (Rall (st_cid st)) as Rcid.
  set (cid := st_cid st) in *. set (st0 := get_chunk (chunks s) cid) in *.
  destruct (alookup (sd_fly sd) cid) as [[m rem]|] eqn:Efly.
  - (* a further chunk of an unfinished message *)
    unfold Rc in Rcid. destruct (alookup (sd_prev sd) cid) as [p|]; [|destruct Rcid; discriminate].
    destruct Rcid as (Hok & Hmn & Hrem & gr & got & Hp & Hgr & Hpay).
    destruct (st_fmt st =? 3) eqn:E3.
    + apply N.eqb_eq in E3. pose proof (emit_ok _ _ _ _ _ _ _ _ _ _ _ _ H) as Hfl. rewrite Hfl in H.
      apply andb_true_iff in Hfl. destruct Hfl as [Hfl _]. apply andb_true_iff in Hfl. destruct Hfl as [Hform Hf4].
      pose proof Hok as (Hcnt & Hts & Hlen & Hty & Hsid & Hext & Hd & Hxv & Hts32).
      refine (emit_sim sd st s _ p m rem (sd_pend sd)
                (mkcs (c_hdr st0) (c_ext st0) (c_count st0 + 1) (Some (gr, lenN got))) got
                w om sd' x rest HR _ Hform _ _ Hmn _ Hpay Hrem H).
      * lia.
      * intros y. fold cid. fold st0. rewrite E3.
        assert (Hb : (if sp_ext p then be4 (sp_extv p) else []) = (if c_ext st0 then be4 (sp_ts p) else [])).
        { rewrite Hext. destruct (sp_ext p) eqn:Ee; [|reflexivity]. now rewrite Hxv. }
        rewrite Hb. now apply spec_mhdr3cont_rt.
      * unfold Hdr_ok. cbn. repeat split; auto; try (apply Hd; assumption). lia.
      * cbn. auto.
    + destruct (spec_mhdr (st_fmt st) (Some p) m (st_adj st)) as [[hb np] ok].
      exfalso. eapply emit_ok_false. exact H.
  - (* the first chunk of the next message of this chunk stream *)
    destruct (pick cid (sd_pend sd)) as [[m pend']|] eqn:Epick; [|discriminate].
    pose proof (pick_cid _ _ _ _ Epick) as Hcid.
    destruct (spec_mhdr (st_fmt st) (alookup (sd_prev sd) cid) m (st_adj st)) as [[hb np] ok] eqn:Emh.
    pose proof (emit_ok _ _ _ _ _ _ _ _ _ _ _ _ H) as Hfl. rewrite Hfl in H.
    apply andb_true_iff in Hfl. destruct Hfl as [Hfl Mok]. apply andb_true_iff in Hfl. destruct Hfl as [Hfl Hmok].
    apply andb_true_iff in Hfl. destruct Hfl as [Hform Hf4]. subst ok.
    pose proof Mok as Mok'. unfold msg_ok in Mok'. repeat (apply andb_true_iff in Mok'; destruct Mok' as [Mok' ?]).
    assert (Hrem : m_payload m <> []).
    { destruct (m_payload m); [unfold lenN in Mok'; cbn in Mok'; discriminate|congruence]. }
    assert (Hpart0 : c_part st0 = None).
    { unfold Rc in Rcid. destruct (alookup (sd_prev sd) cid); [apply Rcid|apply Rcid]. }
    unfold spec_mhdr in Emh.
    destruct (N.eqb_spec (st_fmt st) 0) as [E0|E0].
    + (* type 0 *)
      injection Emh as <- <- Hadj. apply N.eqb_eq in Hadj.
      refine (emit_sim sd st s _ _ m (m_payload m) pend' _ [] w om sd' x rest HR _ Hform _ _ _ _ eq_refl Hrem H).
      * lia.
      * intros y. fold cid. fold st0. rewrite E0, Hadj. now apply spec_mhdr0_rt.
      * unfold Hdr_ok. cbn. repeat split; try lia.
        destruct (N.ltb_spec (m_ts m) 16777215); lia.
      * unfold Msg_np. cbn. repeat split; auto.
      * reflexivity.
    + unfold Rc in Rcid.
      destruct (alookup (sd_prev sd) cid) as [p|] eqn:Eprev.
      2:{ (* no previous header on this chunk stream: only type 0 is legal *)
          exfalso. assert ((st_fmt st =? 0) = false) as E0' by (now apply N.eqb_neq). rewrite ?E0' in Emh.
          destruct (st_fmt st =? 1); [|destruct (st_fmt st =? 2)]; injection Emh as _ _ Hf; subst; discriminate. }
      destruct Rcid as (Hok & _).
      pose proof Hok as (Hcnt & Hts & Hlen & Hty & Hsid & Hext & Hd & Hxv & Hts32).
      assert ((st_fmt st =? 0) = false) as E0' by (now apply N.eqb_neq). rewrite ?E0' in Emh. rewrite ?E0' in Hg.
      destruct (N.eqb_spec (st_fmt st) 1) as [E1|E1].
      * (* type 1 *)
        assert ((st_fmt st =? 3) = false) as E3' by (rewrite E1; reflexivity). rewrite ?E3' in Hg.
        injection Emh as <- <- Hflag. symmetry in Hflag.
        repeat (apply andb_true_iff in Hflag; destruct Hflag as [Hflag ?]).
        assert (Hadj : st_adj st = 0) by lia.
        refine (emit_sim sd st s _ _ m (m_payload m) pend' _ [] w om sd' x rest HR _ Hform _ _ _ _ eq_refl Hrem H).
        -- lia.
        -- intros y. fold cid. fold st0. rewrite E1, Hadj, N.add_0_r. unfold spec_field, spec_ext.
           assert ((m_ts m - sp_ts p <? 16777215) = true) as -> by exact Hg.
           cbn [app]. rewrite <- ?app_assoc. apply spec_mhdr1_rt; auto; lia.
        -- hdr_fin.
        -- unfold Msg_np. cbn. repeat split; auto.
        -- reflexivity.
      * destruct (N.eqb_spec (st_fmt st) 2) as [E2|E2].
        -- (* type 2 *)
           assert ((st_fmt st =? 3) = false) as E3' by (rewrite E2; reflexivity). rewrite ?E3' in Hg.
           injection Emh as <- <- Hflag. symmetry in Hflag.
           repeat (apply andb_true_iff in Hflag; destruct Hflag as [Hflag ?]).
           refine (emit_sim sd st s _ _ m (m_payload m) pend' _ [] w om sd' x rest HR _ Hform _ _ _ _ eq_refl Hrem H).
           ++ lia.
           ++ intros y. fold cid. fold st0. rewrite E2. unfold spec_field, spec_ext.
              assert ((m_ts m - sp_ts p <? 16777215) = true) as -> by exact Hg.
              cbn [app]. rewrite <- ?app_assoc. apply spec_mhdr2_rt; auto; lia.
           ++ hdr_fin.
           ++ unfold Msg_np. cbn. repeat split; auto.
           ++ reflexivity.
        -- (* type 3 starting a message *)
           assert (E3 : st_fmt st = 3) by lia.
           assert ((st_fmt st =? 3) = true) as E3' by (rewrite E3; reflexivity). rewrite ?E3' in Hg.
           apply negb_true_iff in Hg.
           injection Emh as <- <- Hflag. symmetry in Hflag.
           repeat (apply andb_true_iff in Hflag; destruct Hflag as [Hflag ?]).
           destruct (Hd Hg) as [Hdel Hdlt].
           refine (emit_sim sd st s _ _ m (m_payload m) pend' _ [] w om sd' x rest HR _ Hform _ _ _ _ eq_refl Hrem H).
           ++ lia.
           ++ intros y. fold cid. fold st0. rewrite E3, Hg. cbn [app].
              apply spec_mhdr3new_rt; auto. congruence.
           ++ hdr_fin.
           ++ unfold Msg_np. cbn. repeat split; auto.
           ++ reflexivity.
Qed.

(* ---------- a whole plan ---------- *)
Lemma spec_run_cons sd st t :
  spec_run sd (st :: t) =
  let '(w, om, ok, sd1) := spec_step sd st in
  let '(w2, ms, ok2, sd2) := spec_run sd1 t in
  (w ++ w2, (match om with Some m => m :: ms | None => ms end), ok && ok2, sd2).
Proof. reflexivity. Qed.

Lemma sim_run plan : forall sd s w ms sd' (x : bytes) (rest : inp),
  R sd s -> spec_run sd plan = (w, ms, true, sd') -> guard_run sd plan = true ->
  exists s', R sd' s' /\
    forall acc f, rall (length plan + f) s ((w ++ x) :: rest) acc = rall f s' (x :: rest) (rev ms ++ acc).
Proof.
  induction plan as [|st t IH]; intros sd s w ms sd' x rest HR H Hg.
  - cbn in H. inversion H; subst. exists s. split; [exact HR|]. intros. reflexivity.
  - rewrite spec_run_cons in H. cbn [guard_run] in Hg. apply andb_true_iff in Hg. destruct Hg as [Hg1 Hg2].
    destruct (spec_step sd st) as [[[w1 om] ok1] sd1] eqn:E1. cbn [snd] in Hg2.
    destruct (spec_run sd1 t) as [[[w2 ms2] ok2] sd2] eqn:E2.
    assert (Hoks : ok1 = true /\ ok2 = true).
    { injection H as _ _ Hok _. now apply andb_true_iff in Hok. }
    destruct Hoks as [-> ->].
    inversion H; subst w ms sd'; clear H.
    destruct (sim_step sd st s w1 om sd1 (w2 ++ x) rest HR E1 Hg1) as (s1 & Hrc & HR1).
    destruct (IH sd1 s1 w2 ms2 sd2 x rest HR1 E2 Hg2) as (s' & HR' & Hrall).
    exists s'. split; [exact HR'|]. intros acc f.
    cbn [length plus rall]. rewrite <- app_assoc, Hrc.
    destruct om as [m|].
    + rewrite Hrall. cbn [rev]. now rewrite <- app_assoc.
    + apply Hrall.
Qed.

(* the messages, as the peer's read loop reports them, for any segmentation of the bytes *)
Theorem decode_partial plan msgs segs fuel :
  legal plan msgs = true -> no_ext_delta plan msgs = true ->
  flat segs = ref_chunk plan msgs -> (length plan < fuel)%nat ->
  read_all fuel rs0 segs [] = (completion_order plan msgs, E_EOF).
Proof.
  unfold legal, no_ext_delta, ref_chunk, completion_order. intros Hl Hg Hs Hf.
  destruct (spec_run (sd0 msgs) plan) as [[[w ms] ok] sd'] eqn:E.
  apply andb_true_iff in Hl. destruct Hl as [Hl Hpend]. apply andb_true_iff in Hl. destruct Hl as [Hok Hfly]. subst ok.
  destruct (sim_run plan (sd0 msgs) rs0 w ms sd' [] [] (R_init msgs) E Hg) as (s' & HR' & Hrall).
  transitivity (read_all fuel rs0 [w ++ []] []).
  { apply read_all_same. cbn [flat concat]. now rewrite Hs, !app_nil_r. }
  apply (rall_read_all (length plan + 1)); [|unfold E_EOF, E_FUEL; lia|lia].
  rewrite Hrall. cbn [rall]. unfold read_chunk, read_basic_header, stake1. cbn.
  now rewrite frev_rev, app_nil_r, rev_involutive.
Qed.

(* ---------- rejection: three rules the reader relies on, over arbitrary prior state ---------- *)
(* a type-0 header on a chunk stream whose message is unfinished *)
Lemma reject_type0_inside s i cid i1 fuel :
  read_basic_header i = Ok (0, cid, i1) -> c_part (get_chunk (chunks s) cid) <> None ->
  read_message (S fuel) s i = Err E_EXISTS.
Proof.
  intros Hb Hp. cbn [read_message]. unfold read_chunk. rewrite Hb. cbn [bind].
  unfold read_message_header. consts. change (0 =? 0) with true. rewrite andb_false_r. cbn [negb andb].
  destruct (c_part (get_chunk (chunks s) cid)); [reflexivity|congruence].
Qed.

(* a type-1 header inside an unfinished message announcing another length *)
Lemma reject_length_change s i cid i1 i2 d0 d1 d2 l0 l1 l2 ty fuel :
  read_basic_header i = Ok (1, cid, i1) ->
  stake i1 7 = Ok ([d0; d1; d2; l0; l1; l2; ty], i2) ->
  c_part (get_chunk (chunks s) cid) <> None -> c_count (get_chunk (chunks s) cid) <> 0 ->
  ube3 l0 l1 l2 <> h_len (c_hdr (get_chunk (chunks s) cid)) ->
  read_message (S fuel) s i = Err E_SIZE.
Proof.
  intros Hb Hst Hp Hc Hl. cbn [read_message]. unfold read_chunk. rewrite Hb. cbn [bind].
  unfold read_message_header. consts.
  assert ((c_count (get_chunk (chunks s) cid) =? 0) = false) as -> by (now apply N.eqb_neq).
  change (1 =? 0) with false. cbn [negb andb].
  destruct (c_part (get_chunk (chunks s) cid)) as [g|]; [|congruence]. cbn [negb andb].
  rewrite hdr_size_1, Hst. cbn [bind]. change (1 <=? 2) with true. change (1 <=? 1) with true. cbv iota.
  assert ((h_len (c_hdr (get_chunk (chunks s) cid)) =? ube3 l0 l1 l2) = false) as ->.
  { apply N.eqb_neq. congruence. }
  reflexivity.
Qed.

(* a chunk stream never seen before that does not start with type 0 (other than the librtmp
   form: chunk stream 2, type 1) *)
Lemma reject_fresh_not_type0 s i fmt cid i1 fuel :
  read_basic_header i = Ok (fmt, cid, i1) -> c_count (get_chunk (chunks s) cid) = 0 ->
  fmt <> 0 -> ~ (cid = 2 /\ fmt = 1) ->
  read_message (S fuel) s i = Err E_FRESH.
Proof.
  intros Hb Hc Hf Hx. cbn [read_message]. unfold read_chunk. rewrite Hb. cbn [bind].
  unfold read_message_header. consts. rewrite Hc. change (0 =? 0) with true.
  assert ((fmt =? 0) = false) as -> by (now apply N.eqb_neq). cbn [negb andb].
  destruct (N.eqb_spec cid 2) as [E2|E2]; destruct (N.eqb_spec fmt 1) as [E1|E1]; cbn [negb andb]; try reflexivity.
  exfalso. apply Hx. auto.
Qed.

(* ---------- the recorded finding ---------- *)
(* type 0 at 1000 ms, then type 1 with delta 0x1000000: the specification says 16778216 ms,
   the reader reports the delta as the absolute time *)
Lemma ext_delta_refuted :
  exists plan msgs,
    legal plan msgs = true /\
    fst (read_all 10 rs0 [ref_chunk plan msgs] []) <> completion_order plan msgs /\
    no_ext_delta plan msgs = false.
Proof.
  exists [mkstep 3 1 0 0; mkstep 3 1 1 0], [mkmsg 3 1000 9 1 [1; 2; 3]; mkmsg 3 16778216 9 1 [4; 5; 6]].
  vm_compute. repeat split; congruence.
Qed.
