(* Proofs for Model/WsConc.v (C15): the lock discipline serialises frame writes under every
   schedule. *)
From Coq Require Import String.
From Verif Require Import Gen.Gen_websocket.
From Verif Require Import Lib.Base Lib.Sx Lib.Sched Model.WsConc.
Import List ListNotations.
Open Scope Z_scope.

(* ------------------------------------------------------------------ code shapes *)
(* remaining code of a thread all of whose frame writes follow the safe skeleton:
   top      between lock regions
   in_test  the acquire instruction is behind it, the test of the sticky error is next
   in_wr    f d r: frame f, chunks d done (as far as the code is concerned), chunks r to go
   in_rel   the latch is behind it, the release is next *)
Inductive top : list winstr -> Prop :=
| top_nil : top []
| top_prep c : top c -> top (WPrep :: c)
| top_end c : top c -> top (WEnd :: c)
| top_closet c : top c -> top (WCloseT :: c)
| top_recv c : top c -> top (WRecv :: c)
| top_acq b f c : in_test f c -> top (WAcq b :: c)
with in_test : frame -> list winstr -> Prop :=
| it_test f c : in_wr f [] (chunks_of f) c -> in_test f (WTest :: c)
with in_wr : frame -> list chunk -> list chunk -> list winstr -> Prop :=
| iw_write f d x r c : in_wr f (d ++ [x]) r c -> in_wr f d (x :: r) (WWrite true x :: c)
| iw_latch f d c : in_rel f c -> in_wr f d [] (WLatch (is_close f) :: c)
with in_rel : frame -> list winstr -> Prop :=
| ir_rel f c : top c -> in_rel f (WRel :: c).

Inductive cs : list winstr -> Prop :=
| cs_test f c : in_test f c -> cs c
| cs_wr f d r c : in_wr f d r c -> cs c
| cs_rel f c : in_rel f c -> cs c.

Lemma ws_safeb_spec sk : ws_safeb sk = true -> exists t, sk = [SAcq t; STest; SWrite true; SLatch; SRel].
Proof.
  unfold ws_safeb. intros H.
  destruct sk as [|e1 sk]; [discriminate|]. destruct e1 as [t| | | | | | |]; try discriminate.
  destruct sk as [|e2 sk]; [discriminate|]. destruct e2; try discriminate.
  destruct sk as [|e3 sk]; [discriminate|]. destruct e3 as [|  |[|]| | | | |]; try discriminate.
  destruct sk as [|e4 sk]; [discriminate|]. destruct e4; try discriminate.
  destruct sk as [|e5 sk]; [discriminate|]. destruct e5; try discriminate.
  destruct sk; [|discriminate]. now exists t.
Qed.

Lemma in_wr_code f c r : top c -> forall d, in_wr f d r (map (WWrite true) r ++ WLatch (is_close f) :: WRel :: c).
Proof.
  intros Hc. induction r as [|x r IH]; intros d; cbn.
  - apply iw_latch. now apply ir_rel.
  - apply iw_write. apply IH.
Qed.

Lemma top_frame_code sk tmo f c : ws_safeb sk = true -> top c -> top (frame_code sk tmo f ++ c).
Proof.
  intros Hs Hc. apply ws_safeb_spec in Hs. destruct Hs as (t & ->).
  unfold frame_code. cbn [flat_map sev_code app existsb is_early orb]. rewrite app_nil_r.
  change (top (WAcq (t && tmo) :: WTest :: (map (WWrite true) (chunks_of f) ++ [WLatch (is_close f); WRel]) ++ c)).
  rewrite <- app_assoc. cbn [app]. apply top_acq with (f := f). apply it_test. now apply in_wr_code.
Qed.

Lemma top_frames_code sk fs c : ws_safeb sk = true -> top c -> top (flat_map (frame_code sk false) fs ++ c).
Proof.
  intros Hs Hc. induction fs as [|f fs IH]; cbn; [exact Hc|].
  rewrite <- app_assoc. now apply top_frame_code.
Qed.

Lemma top_prog_code wsk csk ops : ws_safeb wsk = true -> ws_safeb csk = true -> top (prog_code wsk csk ops).
Proof.
  intros Hw Hc. unfold prog_code. induction ops as [|o ops IH]; cbn; [constructor|].
  destruct o as [tmo f|fs| |f]; cbn [op_code].
  - rewrite <- app_assoc. apply top_frame_code; [exact Hc|]. cbn. now apply top_end.
  - cbn [app]. apply top_prep. rewrite <- app_assoc. apply top_frames_code; [exact Hw|]. cbn. now apply top_end.
  - cbn. apply top_closet. now apply top_end.
  - cbn [app]. apply top_recv. rewrite <- app_assoc. apply top_frame_code; [exact Hc|]. cbn. now apply top_end.
Qed.

(* ------------------------------------------------------------------ the invariant *)
Definition pprefix {A} (a l : list A) : Prop := exists x r, l = a ++ x :: r.
Definition is_prefix {A} (a l : list A) : Prop := exists r, l = a ++ r.

Definition flat_block (b : nat * list chunk) : list (nat * chunk) := map (pair (fst b)) (snd b).
Definition flat (cl : list (nat * list chunk)) : list (nat * chunk) := concat (map flat_block (rev cl)).

Lemma flat_cons b cl : flat (b :: cl) = flat cl ++ flat_block b.
Proof. unfold flat. cbn [rev]. rewrite map_app, concat_app. cbn. now rewrite app_nil_r. Qed.

(* a finished lock region wrote a whole frame, or -- only once the transport has failed and the
   failure has been made sticky -- a proper prefix of one *)
Definition block_ok (s : wstate) (b : nat * list chunk) : Prop :=
  (exists f, snd b = chunks_of f) \/
  (wtc s = true /\ werr s <> None /\ exists f, pprefix (snd b) (chunks_of f)).

Definition okhold (s : wstate) (c : list winstr) : Prop :=
  (exists f, in_test f c /\ wopen s = [])
  \/ (exists f d r, in_wr f d r c /\ d ++ r = chunks_of f /\ rev (wopen s) = d /\ werr s = None)
  \/ (exists f, in_rel f c /\ rev (wopen s) = chunks_of f /\ (is_close f = true -> werr s <> None)).

Definition failhold (s : wstate) (c : list winstr) : Prop :=
  cs c /\ werr s <> None /\
  (wopen s = [] \/ (wtc s = true /\ exists f, pprefix (rev (wopen s)) (chunks_of f))).

Definition thr_ok (s : wstate) (i : nat) (t : wthread) : Prop :=
  (wlk s <> Some i /\ (top (wcode t) \/ (cs (wcode t) /\ wfail t <> None)))
  \/ (wlk s = Some i /\ ((wfail t = None /\ okhold s (wcode t)) \/ (wfail t <> None /\ failhold s (wcode t)))).

Record Inv (s : wstate) : Prop := {
  inv_thr : forall i t, nth_error (wths s) i = Some t -> thr_ok s i t;
  inv_holder : forall h, wlk s = Some h -> exists t, nth_error (wths s) h = Some t;
  inv_open : wlk s = None -> wopen s = [];
  inv_wire : rev (wwire s) = flat (wclosed s) ++
             match wlk s with Some h => map (pair h) (rev (wopen s)) | None => [] end;
  inv_blocks : Forall (block_ok s) (wclosed s);
  inv_close : forall t f, In (t, chunks_of f) (wclosed s) -> is_close f = true -> chunks_of f <> [] ->
              werr s <> None /\ wopen s = [] /\ exists rest, wclosed s = (t, chunks_of f) :: rest }.

(* ---- small facts *)
Lemma chunks_of_inj f f' : chunks_of f = chunks_of f' -> chunks_of f <> [] -> f = f'.
Proof.
  unfold chunks_of. destruct (f_nch f) as [|n]; [intros _ H; now contradiction H|].
  destruct (f_nch f') as [|n']; [discriminate|]. cbn. intros H _. now inversion H.
Qed.

Lemma chunks_of_head f x r : chunks_of f = x :: r -> x = (f, 0%nat).
Proof. unfold chunks_of. destruct (f_nch f); cbn; [discriminate|]. intros H. now inversion H. Qed.

Lemma pprefix_not_whole b f f' : pprefix b (chunks_of f) -> b = chunks_of f' -> b <> [] -> False.
Proof.
  intros (x & r & Hp) Hb Hne. subst b.
  destruct (chunks_of f') as [|y l] eqn:E; [now apply Hne|].
  pose proof (chunks_of_head _ _ _ E) as Hy. subst y.
  rewrite <- app_comm_cons in Hp. pose proof (chunks_of_head _ _ _ Hp) as Hy. inversion Hy; subst f'.
  rewrite E in Hp. inversion Hp as [Hl]. apply (f_equal (@length _)) in Hl.
  rewrite app_length in Hl. cbn in Hl. lia.
Qed.

Lemma cs_step_skip ins c : cs (ins :: c) -> ins <> WRel -> cs c.
Proof.
  intros H Hne. inversion H as [f c0 Ht|f d r c0 Hw|f c0 Hr]; subst.
  - inversion Ht; subst. eapply cs_wr; eauto.
  - inversion Hw; subst; [eapply cs_wr; eauto|eapply cs_rel; eauto].
  - inversion Hr; subst. now contradiction Hne.
Qed.

Lemma cs_rel_top c : cs (WRel :: c) -> top c.
Proof.
  intros H. inversion H as [f c0 Ht|f d r c0 Hw|f c0 Hr]; subst.
  - inversion Ht. - inversion Hw. - now inversion Hr.
Qed.

Lemma cs_not_top_head ins c : cs (ins :: c) ->
  ins = WTest \/ (exists x, ins = WWrite true x) \/ (exists b, ins = WLatch b) \/ ins = WRel.
Proof.
  intros H. inversion H as [f c0 Ht|f d r c0 Hw|f c0 Hr]; subst.
  - inversion Ht; auto.
  - inversion Hw; subst; eauto.
  - inversion Hr; auto.
Qed.

Lemma rev_nil_inv {A} (l : list A) : rev l = [] -> l = [].
Proof. destruct l as [|x l]; [auto|]. cbn. intros H. destruct (rev l); discriminate. Qed.

(* a thread other than the one that moved keeps its status *)
Lemma thr_ok_other s s' j t :
  thr_ok s j t ->
  (wlk s <> Some j -> wlk s' <> Some j) ->
  (wlk s = Some j -> wlk s' = Some j /\ wopen s' = wopen s /\ werr s' = werr s /\ (wtc s = true -> wtc s' = true)) ->
  thr_ok s' j t.
Proof.
  intros [(Hn & H)|(Hh & H)] Hnot Hsame.
  - left. split; [now apply Hnot|exact H].
  - right. destruct (Hsame Hh) as (Hl & Ho & He & Hc). split; [exact Hl|].
    destruct H as [(Hf & Hok)|(Hf & Hfail)]; [left|right]; (split; [exact Hf|]).
    + unfold okhold in *. rewrite Ho, He. exact Hok.
    + unfold failhold in *. rewrite Ho, He. destruct Hfail as (Hcs & Hne & Hw). split; [exact Hcs|split; [exact Hne|]].
      destruct Hw as [Hw|(Htc & Hw)]; [now left|right; split; [now apply Hc|exact Hw]].
Qed.

Lemma block_ok_mono s s' b :
  block_ok s b -> (wtc s = true -> wtc s' = true) -> (werr s <> None -> werr s' <> None) -> block_ok s' b.
Proof.
  intros [H|(Hc & He & H)] Htc Herr; [now left|right]. split; [now apply Htc|split; [now apply Herr|exact H]].
Qed.

Lemma Forall_block_ok_mono s s' l :
  Forall (block_ok s) l -> (wtc s = true -> wtc s' = true) -> (werr s <> None -> werr s' <> None) ->
  Forall (block_ok s') l.
Proof. intros H Htc Herr. eapply Forall_impl; [|exact H]. intros b Hb. eapply block_ok_mono; eauto. Qed.

Lemma first_wins_some cur e : first_wins cur e <> None.
Proof. destruct cur; cbn; discriminate. Qed.

(* ------------------------------------------------------------------ preservation *)
(* a step that only advances thread i and possibly raises the error / closes the transport *)
Lemma inv_frame s s' i tn :
  Inv s -> (exists t, nth_error (wths s) i = Some t) ->
  wths s' = upd i tn (wths s) -> wlk s' = wlk s -> wopen s' = wopen s -> wclosed s' = wclosed s ->
  wwire s' = wwire s ->
  (wtc s = true -> wtc s' = true) -> (werr s <> None -> werr s' <> None) ->
  (forall j, j <> i -> wlk s = Some j -> werr s' = werr s) ->
  thr_ok s' i tn -> Inv s'.
Proof.
  intros HI (t & Ei) Hths Hlk Hop Hcl Hwi Htc Herr Herr' Hi.
  constructor.
  - intros j tj Hj. rewrite Hths in Hj. apply nth_upd_cases in Hj.
    destruct Hj as [(<- & -> & _)|(Hne & Hj)]; [exact Hi|].
    eapply thr_ok_other; [apply (inv_thr s HI j tj Hj)|rewrite Hlk; auto|].
    intros Hh. rewrite Hlk. split; [exact Hh|split; [exact Hop|split; [|exact Htc]]].
    apply (Herr' j); congruence.
  - intros h Hh. rewrite Hlk in Hh. destruct (inv_holder s HI h Hh) as (th & Eh). rewrite Hths.
    destruct (Nat.eq_dec i h) as [->|Hne].
    + exists tn. eapply nth_upd_same; eauto.
    + exists th. now rewrite nth_upd_other.
  - rewrite Hlk, Hop. apply (inv_open s HI).
  - rewrite Hwi, Hcl, Hlk, Hop. apply (inv_wire s HI).
  - rewrite Hcl. eapply Forall_block_ok_mono; [apply (inv_blocks s HI)|exact Htc|exact Herr].
  - intros t0 f Hin Hc Hne. rewrite Hcl in Hin. destruct (inv_close s HI t0 f Hin Hc Hne) as (He & Ho & Hr).
    split; [now apply Herr|split; [now rewrite Hop|now rewrite Hcl]].
Qed.

Ltac fields := cbn [wlk werr wtc wths wwire wclosed wopen wres wmsg wcut wcode wfail].

Lemma okhold_inv s ins rest : okhold s (ins :: rest) ->
  (ins = WTest /\ wopen s = [] /\ exists f, in_wr f [] (chunks_of f) rest)
  \/ (exists f d x r, ins = WWrite true x /\ in_wr f (d ++ [x]) r rest /\ d ++ x :: r = chunks_of f /\
                      rev (wopen s) = d /\ werr s = None)
  \/ (exists f, ins = WLatch (is_close f) /\ in_rel f rest /\ rev (wopen s) = chunks_of f /\ werr s = None)
  \/ (exists f, ins = WRel /\ top rest /\ rev (wopen s) = chunks_of f /\ (is_close f = true -> werr s <> None)).
Proof.
  intros [(f & H & Ho)|[(f & d & r & H & Hd & Ho & He)|(f & H & Ho & Hc)]].
  - inversion H; subst. left. eauto.
  - inversion H; subst.
    + right; left. exists f, (rev (wopen s)), x, r0. auto.
    + right; right; left. exists f. rewrite app_nil_r in Hd. subst. auto.
  - inversion H; subst. right; right; right. exists f. auto.
Qed.

Lemma cs_head ins rest : cs (ins :: rest) ->
  match ins with WTest | WWrite true _ | WLatch _ | WRel => True | _ => False end.
Proof.
  intros H. apply cs_not_top_head in H. destruct H as [ -> |[(x & ->)|[(b & ->)| ->]]]; exact I.
Qed.

Lemma top_head ins rest : top (ins :: rest) ->
  match ins with WPrep | WEnd | WCloseT | WAcq _ | WRecv => True | _ => False end.
Proof. intros H. inversion H; exact I. Qed.

Lemma okhold_head s ins rest : okhold s (ins :: rest) ->
  match ins with WTest | WWrite true _ | WLatch _ | WRel => True | _ => False end.
Proof.
  intros H. apply okhold_inv in H.
  destruct H as [(-> & _)|[(f & d & x & r & -> & _)|[(f & -> & _)|(f & -> & _)]]]; exact I.
Qed.

(* the four possible statuses of the moving thread, with the impossible ones removed by the
   head instruction *)
Ltac absurd_status :=
  match goal with
  | H : top (_ :: _) |- _ => apply top_head in H; cbn in H; contradiction
  | H : cs (_ :: _) |- _ => apply cs_head in H; cbn in H; contradiction
  | H : okhold _ (_ :: _) |- _ => apply okhold_head in H; cbn in H; contradiction
  end.

Lemma wstep_inv s i : Inv s -> Inv (wstep s i).
Proof.
  intros HI. unfold wstep.
  destruct (nth_error (wths s) i) as [t|] eqn:Ei; [|exact HI].
  destruct (wcode t) as [|ins rest] eqn:Ec; [exact HI|].
  pose proof (inv_thr s HI i t Ei) as Hst. unfold thr_ok in Hst. rewrite Ec in Hst.
  assert (Hex : exists t, nth_error (wths s) i = Some t) by eauto.
  destruct ins as [|tmo| |fatal x|b| | | | | |].
  - (* WPrep: only at top *)
    destruct Hst as [(Hn & [Htop|(Hcs & _)])|(Hh & [(_ & Hok)|(_ & Hcs & _)])]; try absurd_status.
    inversion Htop; subst.
    eapply inv_frame; try eassumption; fields; try reflexivity; auto.
    left. fields. split; [exact Hn|now left].
  - (* WAcq: only at top *)
    destruct Hst as [(Hn & [Htop|(Hcs & _)])|(Hh & [(_ & Hok)|(_ & Hcs & _)])]; try absurd_status.
    inversion Htop as [| | | | |b0 f c0 Hit]; subst.
    destruct (wfail t) as [e|] eqn:Ef.
    + eapply inv_frame; try eassumption; fields; try reflexivity; auto.
      left. fields. split; [exact Hn|right]. split; [eapply cs_test; eauto|discriminate].
    + destruct (wlk s) as [h|] eqn:El.
      * destruct tmo; [|exact HI].
        eapply inv_frame; try eassumption; fields; try reflexivity; auto.
        left. fields. split; [exact Hn|right]. split; [eapply cs_test; eauto|discriminate].
      * (* acquire *)
        constructor; fields.
        -- intros j tj Hj. apply nth_upd_cases in Hj. destruct Hj as [(<- & -> & _)|(Hne & Hj)].
           ++ right. fields. split; [reflexivity|left]. split; [reflexivity|]. left. exists f. auto.
           ++ pose proof (inv_thr s HI j tj Hj) as [(Hnj & H)|(Hhj & _)]; [|congruence].
              left. fields. split; [congruence|exact H].
        -- intros h Hh. inversion Hh; subst h. eexists. eapply nth_upd_same; eauto.
        -- discriminate.
        -- cbn. rewrite app_nil_r. pose proof (inv_wire s HI) as Hw. rewrite El, app_nil_r in Hw. exact Hw.
        -- eapply Forall_block_ok_mono; [apply (inv_blocks s HI)|fields; try congruence; auto|fields; auto].
        -- intros t0 f0 Hin Hc Hne. destruct (inv_close s HI t0 f0 Hin Hc Hne) as (He & _ & Hr). auto.
  - (* WTest *)
    destruct Hst as [(Hn & [Htop|(Hcs & Hf)])|(Hh & [(Hf & Hok)|(Hf & Hcs & Hne & Hw)])]; try absurd_status.
    + (* skipped acquire: skip *)
      destruct (wfail t) as [e|] eqn:Ef; [|now contradiction Hf].
      eapply inv_frame; try eassumption; fields; try reflexivity; auto.
      left. fields. split; [exact Hn|right]. split; [eapply cs_step_skip; eauto; discriminate|discriminate].
    + (* holder, no failure so far: the test *)
      rewrite Hf. apply okhold_inv in Hok.
      destruct Hok as [(_ & Ho & f & Hwr)|[(f & d & x & r & Hx & _)|[(f & Hx & _)|(f & Hx & _)]]]; try discriminate.
      eapply inv_frame; try eassumption; fields; try reflexivity; auto.
      right. fields. split; [exact Hh|]. destruct (werr s) as [e|] eqn:Ee.
      * right. split; [discriminate|]. split; [eapply cs_wr; eauto|]. fields. split; [discriminate|now left].
      * left. split; [reflexivity|]. right; left. exists f, [], (chunks_of f). fields. rewrite Ho. auto.
    + (* holder that has failed: skip *)
      destruct (wfail t) as [e|] eqn:Ef; [|now contradiction Hf].
      eapply inv_frame; try eassumption; fields; try reflexivity; auto.
      right. fields. split; [exact Hh|right]. split; [discriminate|].
      split; [eapply cs_step_skip; eauto; discriminate|]. fields. auto.
  - (* WWrite *)
    destruct Hst as [(Hn & [Htop|(Hcs & Hf)])|(Hh & [(Hf & Hok)|(Hf & Hcs & Hne & Hw)])]; try absurd_status.
    + destruct (wfail t) as [e|] eqn:Ef; [|now contradiction Hf].
      eapply inv_frame; try eassumption; fields; try reflexivity; auto.
      left. fields. split; [exact Hn|right]. split; [eapply cs_step_skip; eauto; discriminate|discriminate].
    + rewrite Hf. apply okhold_inv in Hok.
      destruct Hok as [(Hx & _)|[(f & d & x0 & r & Hx & Hwr & Hd & Ho & He)|[(f & Hx & _)|(f & Hx & _)]]]; try discriminate.
      injection Hx as -> <-.
      destruct (wtc s) eqn:Etc.
      * (* the transport is closed: the failure becomes sticky *)
        eapply inv_frame; try eassumption; fields; try reflexivity; auto;
          try (intros ? ? ?; congruence); try (intros _; apply first_wins_some); [idtac].
        right. fields. split; [exact Hh|right]. split; [discriminate|].
        split; [eapply cs_wr; eauto|]. fields. split; [apply first_wins_some|right].
        split; [reflexivity|]. exists f, x, r. rewrite Ho. auto.
      * (* the chunk reaches the wire *)
        pose proof (inv_wire s HI) as Hwire. rewrite Hh in Hwire.
        rewrite Hh, Nat.eqb_refl.
        constructor; fields.
        -- intros j tj Hj. apply nth_upd_cases in Hj. destruct Hj as [(<- & -> & _)|(Hne' & Hj)].
           ++ right. fields. split; [reflexivity|left]. split; [reflexivity|]. right; left.
              exists f, (d ++ [x]), r. fields. cbn [rev]. rewrite Ho, <- app_assoc. cbn. auto.
           ++ pose proof (inv_thr s HI j tj Hj) as [(Hnj & H)|(Hhj & _)]; [|congruence].
              left. fields. split; [congruence|exact H].
        -- intros h Hh'. injection Hh' as <-. eexists. eapply nth_upd_same; eauto.
        -- discriminate.
        -- cbn [rev]. rewrite Hwire, map_app, app_assoc. reflexivity.
        -- eapply Forall_block_ok_mono; [apply (inv_blocks s HI)|fields; try congruence; auto|fields; auto].
        -- intros t0 f0 Hin Hc Hne0. destruct (inv_close s HI t0 f0 Hin Hc Hne0) as (He' & _). congruence.
    + destruct (wfail t) as [e|] eqn:Ef; [|now contradiction Hf].
      eapply inv_frame; try eassumption; fields; try reflexivity; auto.
      right. fields. split; [exact Hh|right]. split; [discriminate|].
      split; [eapply cs_step_skip; eauto; discriminate|]. fields. auto.
  - (* WLatch *)
    destruct Hst as [(Hn & [Htop|(Hcs & Hf)])|(Hh & [(Hf & Hok)|(Hf & Hcs & Hne & Hw)])]; try absurd_status.
    + destruct (wfail t) as [e|] eqn:Ef; [|now contradiction Hf].
      eapply inv_frame; try eassumption; fields; try reflexivity; auto.
      left. fields. split; [exact Hn|right]. split; [eapply cs_step_skip; eauto; discriminate|discriminate].
    + rewrite Hf. apply okhold_inv in Hok.
      destruct Hok as [(Hx & _)|[(f & d & x0 & r & Hx & _)|[(f & Hx & Hr & Ho & He)|(f & Hx & _)]]]; try discriminate.
      injection Hx as ->.
      eapply inv_frame; try eassumption; fields; try reflexivity; auto;
        try (intros ? ? ?; congruence); try (intros Hne; destruct (is_close f); [apply first_wins_some|exact Hne]); [idtac].
      right. fields. split; [exact Hh|left]. split; [reflexivity|]. right; right.
      exists f. fields. split; [exact Hr|split; [exact Ho|]]. intros Hc. rewrite Hc. apply first_wins_some.
    + destruct (wfail t) as [e|] eqn:Ef; [|now contradiction Hf].
      eapply inv_frame; try eassumption; fields; try reflexivity; auto.
      right. fields. split; [exact Hh|right]. split; [discriminate|].
      split; [eapply cs_step_skip; eauto; discriminate|]. fields. auto.
  - (* WRel *)
    destruct Hst as [(Hn & [Htop|(Hcs & Hf)])|(Hh & Hhold)]; try absurd_status.
    + (* not the holder, and this path did not take the token: no send *)
      destruct (wfail t) as [e|] eqn:Ef; [|now contradiction Hf].
      assert (Hskip : Inv {| wlk := wlk s; werr := werr s; wtc := wtc s;
                             wths := upd i {| wcode := rest; wfail := Some e |} (wths s);
                             wwire := wwire s; wclosed := wclosed s; wopen := wopen s; wres := wres s; wmsg := wmsg s; wcut := wcut s |}).
      { eapply inv_frame; try eassumption; fields; try reflexivity; auto.
        left. fields. split; [exact Hn|left]. now apply cs_rel_top. }
      destruct (wlk s) as [h|] eqn:El; [|exact Hskip].
      destruct (Nat.eqb h i) eqn:Eh; [apply Nat.eqb_eq in Eh; congruence|exact Hskip].
    + (* the holder releases; what it wrote becomes a finished block *)
      rewrite Hh, Nat.eqb_refl.
      assert (Htop : top rest).
      { destruct Hhold as [(_ & Hok)|(_ & Hcs & _)]; [|now apply cs_rel_top].
        apply okhold_inv in Hok.
        destruct Hok as [(Hx & _)|[(f & d & x0 & r & Hx & _)|[(f & Hx & _)|(f & _ & Ht & _)]]]; try discriminate. exact Ht. }
      assert (Hblk : wopen s <> [] -> block_ok s (i, rev (wopen s)) /\ (forall f, rev (wopen s) = chunks_of f -> is_close f = true -> werr s <> None)).
      { intros Hne. destruct Hhold as [(_ & Hok)|(_ & Hcs & Herr & Hw)].
        - apply okhold_inv in Hok.
          destruct Hok as [(Hx & _)|[(f & d & x0 & r & Hx & _)|[(f & Hx & _)|(f & _ & _ & Ho & Hc)]]]; try discriminate.
          split; [left; exists f; exact Ho|]. intros f' Hf' Hc'. apply Hc.
          assert (f' = f); [|subst; exact Hc'].
          apply chunks_of_inj; [congruence|]. rewrite <- Hf'. intros H0. apply rev_nil_inv in H0. contradiction.
        - destruct Hw as [Hw|(Htc & f & Hp)]; [contradiction|].
          split; [right; cbn [snd]; eauto|]. intros f' Hf' _. exfalso.
          eapply pprefix_not_whole; [exact Hp|exact Hf'|]. intros H0. apply rev_nil_inv in H0. contradiction. }
      constructor; fields.
      -- intros j tj Hj. apply nth_upd_cases in Hj. destruct Hj as [(<- & -> & _)|(Hne' & Hj)].
         ++ left. fields. split; [discriminate|now left].
         ++ pose proof (inv_thr s HI j tj Hj) as [(Hnj & H)|(Hhj & _)]; [|congruence].
            left. fields. split; [discriminate|exact H].
      -- discriminate.
      -- reflexivity.
      -- rewrite app_nil_r. rewrite (inv_wire s HI), Hh.
         destruct (wopen s) as [|c0 o] eqn:Eo; [cbn; now rewrite app_nil_r|].
         rewrite flat_cons. reflexivity.
      -- destruct (wopen s) as [|c0 o] eqn:Eo; [apply (inv_blocks s HI)|].
         constructor; [|apply (inv_blocks s HI)].
         destruct Hblk as [Hb _]; [discriminate|]. exact Hb.
      -- intros t0 f0 Hin Hc Hne0.
         destruct (wopen s) as [|c0 o] eqn:Eo.
         ++ destruct (inv_close s HI t0 f0 Hin Hc Hne0) as (He' & _ & Hr). auto.
         ++ destruct Hblk as [_ Hb]; [discriminate|].
            destruct Hin as [Hin|Hin].
            ** inversion Hin; subst t0. split; [eapply Hb; eauto|]. split; [reflexivity|]. eexists. reflexivity.
            ** destruct (inv_close s HI t0 f0 Hin Hc Hne0) as (_ & Ho & _). rewrite Eo in Ho. discriminate Ho.
  - (* WRelU: in no safe shape *)
    destruct Hst as [(Hn & [Htop|(Hcs & _)])|(Hh & [(_ & Hok)|(_ & Hcs & _)])]; absurd_status.
  - (* WEnd: only at top *)
    destruct Hst as [(Hn & [Htop|(Hcs & _)])|(Hh & [(_ & Hok)|(_ & Hcs & _)])]; try absurd_status.
    inversion Htop; subst.
    eapply inv_frame; try eassumption; fields; try reflexivity; auto.
    left. fields. split; [exact Hn|now left].
  - (* WCloseT: only at top *)
    destruct Hst as [(Hn & [Htop|(Hcs & _)])|(Hh & [(_ & Hok)|(_ & Hcs & _)])]; try absurd_status.
    inversion Htop; subst.
    eapply inv_frame; try eassumption; fields; try reflexivity; auto.
    left. fields. split; [exact Hn|now left].
  - (* WBad: in no shape *)
    destruct Hst as [(Hn & [Htop|(Hcs & _)])|(Hh & [(_ & Hok)|(_ & Hcs & _)])]; absurd_status.
  - (* WRecv: only at top *)
    destruct Hst as [(Hn & [Htop|(Hcs & _)])|(Hh & [(_ & Hok)|(_ & Hcs & _)])]; try absurd_status.
    inversion Htop; subst.
    eapply inv_frame; try eassumption; fields; try reflexivity; auto.
    left. fields. split; [exact Hn|now left].
Qed.

(* ------------------------------------------------------------------ reachable states *)
Lemma winit_inv codes : Forall top codes -> Inv (winit codes).
Proof.
  intros Hc. unfold winit. constructor; fields.
  - intros i t Hi. apply nth_error_In in Hi. apply in_map_iff in Hi. destruct Hi as (c & <- & Hin).
    left. fields. split; [discriminate|left]. eapply Forall_forall in Hc; eauto.
  - discriminate.
  - reflexivity.
  - reflexivity.
  - constructor.
  - intros t f [].
Qed.

Lemma winit_ops_inv wsk csk progs :
  ws_safeb wsk = true -> ws_safeb csk = true -> Inv (winit_ops wsk csk progs).
Proof.
  intros Hw Hc. apply winit_inv. apply Forall_forall. intros c Hin. apply in_map_iff in Hin.
  destruct Hin as (ops & <- & _). now apply top_prog_code.
Qed.

Lemma wrun_inv s sched : Inv s -> Inv (wrun s sched).
Proof. unfold wrun. apply srun_invariant. intros; now apply wstep_inv. Qed.

(* (A) serialisation: the wire is a sequence of finished blocks -- each the whole frame of one
   thread, or (only after a transport failure) a truncated one -- followed by what the current
   holder of the lock has written of its frame so far *)
Theorem serialised s : Inv s ->
  exists blocks tail,
    rev (wwire s) = concat (map flat_block blocks) ++ tail /\
    Forall (block_ok s) blocks /\
    (tail = [] \/ exists h f p, wlk s = Some h /\ tail = map (pair h) p /\ is_prefix p (chunks_of f)).
Proof.
  intros HI. exists (rev (wclosed s)).
  exists (match wlk s with Some h => map (pair h) (rev (wopen s)) | None => [] end).
  split; [apply (inv_wire s HI)|]. split; [apply Forall_rev, (inv_blocks s HI)|].
  destruct (wlk s) as [h|] eqn:El; [|now left].
  destruct (inv_holder s HI h El) as (t & Eh).
  pose proof (inv_thr s HI h t Eh) as [(Hn & _)|(_ & [(_ & Hok)|(_ & _ & _ & Hw)])]; [congruence| |].
  - destruct Hok as [(f & _ & Ho)|[(f & d & r & _ & Hd & Ho & _)|(f & _ & Ho & _)]].
    + left. now rewrite Ho.
    + right. exists h, f, d. rewrite Ho. split; [reflexivity|split; [reflexivity|]]. exists r. now rewrite Hd.
    + right. exists h, f, (chunks_of f). rewrite Ho. split; [reflexivity|split; [reflexivity|]]. exists []. now rewrite app_nil_r.
  - destruct Hw as [Ho|(_ & f & x & r & Hp)].
    + left. now rewrite Ho.
    + right. exists h, f, (rev (wopen s)). split; [reflexivity|split; [reflexivity|]]. exists (x :: r). exact Hp.
Qed.

(* with the lock free and the transport open: whole frames, nothing else *)
Theorem quiescent_whole s : Inv s -> wlk s = None -> wtc s = false ->
  exists blocks, rev (wwire s) = concat (map flat_block blocks) /\
                 Forall (fun b => exists f, snd b = chunks_of f) blocks.
Proof.
  intros HI Hl Htc. exists (rev (wclosed s)). split.
  - rewrite (inv_wire s HI), Hl. apply app_nil_r.
  - apply Forall_rev. eapply Forall_impl; [|apply (inv_blocks s HI)].
    intros b [H|(Hc & _)]; [exact H|congruence].
Qed.

(* (C) once the sticky error is set -- by a sent Close frame or by a transport failure -- no step
   of any thread adds anything to the wire, and the error stays *)
Lemma sticky_step s i : Inv s -> werr s <> None -> wwire (wstep s i) = wwire s /\ werr (wstep s i) = werr s.
Proof.
  intros HI He. unfold wstep.
  destruct (nth_error (wths s) i) as [t|] eqn:Ei; [|auto].
  destruct (wcode t) as [|ins rest] eqn:Ec; [auto|].
  destruct (werr s) as [e|] eqn:Ee; [|now contradiction He].
  destruct ins as [|tmo| |fatal x|b| | | | | |]; fields; auto.
  - destruct (wfail t); fields; auto. destruct (wlk s); fields; auto. destruct tmo; fields; auto.
  - destruct (wfail t); fields; auto.
  - destruct (wfail t) eqn:Ef; fields; auto.
    (* a real write needs the lock and a passed test, and then the error is not set *)
    exfalso. pose proof (inv_thr s HI i t Ei) as Hst. unfold thr_ok in Hst. rewrite Ec in Hst.
    destruct Hst as [(_ & [Htop|(_ & Hf)])|(_ & [(_ & Hok)|(Hf & _)])]; try absurd_status; try congruence.
    apply okhold_inv in Hok.
    destruct Hok as [(Hx & _)|[(f & d & x0 & r & _ & _ & _ & _ & He')|[(f & Hx & _)|(f & Hx & _)]]]; try discriminate.
    congruence.
  - destruct (wfail t); fields; auto. destruct b; auto.
  - destruct (wlk s) as [h|]; fields; auto; [destruct (Nat.eqb h i); fields; auto|]; destruct (wfail t); fields; auto.
  - destruct (wlk s); fields; auto.
Qed.

Theorem sticky s sched : Inv s -> werr s <> None ->
  wwire (wrun s sched) = wwire s /\ werr (wrun s sched) = werr s.
Proof.
  revert s. induction sched as [|i sched IH]; intros s HI He; [auto|].
  unfold wrun in *. rewrite srun_cons.
  destruct (sticky_step s i HI He) as (Hw & Hr).
  destruct (IH (wstep s i)) as (Hw' & Hr'); [now apply wstep_inv|congruence|].
  split; congruence.
Qed.

(* (D) a whole Close frame among the finished blocks is the newest one, nothing is in progress
   behind it, the error is set -- hence (C) nothing is ever written after it *)
Theorem close_is_last s t f : Inv s -> In (t, chunks_of f) (wclosed s) -> is_close f = true -> chunks_of f <> [] ->
  (exists rest, wclosed s = (t, chunks_of f) :: rest) /\ wopen s = [] /\ werr s <> None /\
  forall sched, wwire (wrun s sched) = wwire s.
Proof.
  intros HI Hin Hc Hne. destruct (inv_close s HI t f Hin Hc Hne) as (He & Ho & Hr).
  split; [exact Hr|split; [exact Ho|split; [exact He|]]]. intros sched. now apply sticky.
Qed.

(* (E) later writes fail: with the error set, a thread that tests it (prepWrite, or the test
   under the lock) fails with exactly that error, and the result it reports is the failure *)
Lemma test_fails_after_error s i t e rest ins :
  nth_error (wths s) i = Some t -> wcode t = ins :: rest -> ins = WPrep \/ ins = WTest ->
  wfail t = None -> werr s = Some e ->
  nth_error (wths (wstep s i)) i = Some {| wcode := rest; wfail := Some e |}.
Proof.
  intros Ei Ec Hins Hf He. unfold wstep. rewrite Ei, Ec.
  destruct Hins as [-> | ->]; rewrite Hf; fields; rewrite He; eapply nth_upd_same; eauto.
Qed.

Lemma end_reports_failure s i t rest :
  nth_error (wths s) i = Some t -> wcode t = WEnd :: rest -> wres (wstep s i) = (i, wfail t) :: wres s.
Proof. intros Ei Ec. unfold wstep. rewrite Ei, Ec. reflexivity. Qed.

(* ------------------------------------------------------------------ (B) per-thread order *)
Inductive subseq {A} : list A -> list A -> Prop :=
| ss_nil l : subseq [] l
| ss_keep x a l : subseq a l -> subseq (x :: a) (x :: l)
| ss_skip x a l : subseq a l -> subseq a (x :: l).

Lemma subseq_refl {A} (l : list A) : subseq l l.
Proof. induction l; constructor; auto. Qed.

Lemma subseq_drop {A} (l : list A) : forall a x b, subseq (a ++ x :: b) l -> subseq (a ++ b) l.
Proof.
  induction l as [|y l IH]; intros a x b H.
  - destruct a; inversion H.
  - inversion H as [l0 E|y0 a' l0 H' E|y0 a' l0 H' E]; subst.
    + destruct a; discriminate.
    + destruct a as [|z a0]; cbn in *.
      * injection E as -> ->. now apply ss_skip.
      * injection E as -> ->. apply ss_keep. now apply IH with (x := x).
    + apply ss_skip. now apply IH with (x := x).
Qed.

Definition instr_chunks (ins : winstr) : list chunk := match ins with WWrite _ x => [x] | _ => [] end.
Definition code_chunks (c : list winstr) : list chunk := flat_map instr_chunks c.
Definition written_by (i : nat) (w : list (nat * chunk)) : list chunk :=
  map snd (filter (fun e => Nat.eqb (fst e) i) w).

Lemma written_by_app i a b : written_by i (a ++ b) = written_by i a ++ written_by i b.
Proof. unfold written_by. now rewrite filter_app, map_app. Qed.

(* what one step does to the code of the moving thread and to the wire *)
Lemma wstep_shape s j :
  wstep s j = s \/
  exists t ins rest tf, nth_error (wths s) j = Some t /\ wcode t = ins :: rest /\
    wths (wstep s j) = upd j {| wcode := rest; wfail := tf |} (wths s) /\
    (wwire (wstep s j) = wwire s \/ exists fl x, ins = WWrite fl x /\ wwire (wstep s j) = (j, x) :: wwire s).
Proof.
  unfold wstep.
  destruct (nth_error (wths s) j) as [t|] eqn:Ej; [|now left].
  destruct (wcode t) as [|ins rest] eqn:Ec; [now left|].
  remember (wfail t) as tf0 eqn:Etf0.
  destruct ins as [|tmo| |fatal x|b| | | | | |];
    repeat match goal with
           | |- context [match ?x with _ => _ end] => destruct x eqn:?
           end;
    first [ now left
          | right; exists t; eexists; exists rest; eexists; split; [first [exact Ej|reflexivity]|split; [first [exact Ec|reflexivity]|split; [reflexivity|]]];
            first [ now left | right; eexists; eexists; split; reflexivity ] ].
Qed.

Definition InvB (codes : list (list winstr)) (s : wstate) : Prop :=
  forall i t c0, nth_error (wths s) i = Some t -> nth_error codes i = Some c0 ->
    subseq (written_by i (rev (wwire s)) ++ code_chunks (wcode t)) (code_chunks c0).

Lemma wstep_InvB codes s j : InvB codes s -> InvB codes (wstep s j).
Proof.
  intros H. destruct (wstep_shape s j) as [->|(t & ins & rest & tf & Ej & Ec & Hths & Hw)]; [exact H|].
  intros i ti c0 Hi Hc. rewrite Hths in Hi. apply nth_upd_cases in Hi.
  destruct Hi as [(<- & -> & _)|(Hne & Hi)].
  - specialize (H j t c0 Ej Hc). rewrite Ec in H. cbn [wcode].
    change (code_chunks (ins :: rest)) with (instr_chunks ins ++ code_chunks rest) in H.
    destruct Hw as [-> |(fl & x & -> & ->)].
    + destruct ins; cbn [instr_chunks app] in H; try exact H.
      now apply subseq_drop in H.
    + cbn [rev]. rewrite written_by_app. unfold written_by at 2. cbn [filter fst]. rewrite Nat.eqb_refl.
      cbn [map snd instr_chunks app] in *. now rewrite <- app_assoc.
  - specialize (H i ti c0 Hi Hc).
    destruct Hw as [-> |(fl & x & -> & ->)]; [exact H|].
    cbn [rev]. rewrite written_by_app. unfold written_by at 2. cbn [filter fst].
    apply Nat.eqb_neq in Hne. rewrite Hne. cbn [map]. now rewrite app_nil_r.
Qed.

Theorem order_kept codes sched i c0 :
  nth_error codes i = Some c0 ->
  subseq (written_by i (rev (wwire (wrun (winit codes) sched)))) (code_chunks c0).
Proof.
  intros Hc.
  assert (H : InvB codes (wrun (winit codes) sched)).
  { unfold wrun. apply srun_invariant; [intros; now apply wstep_InvB|].
    intros k t c1 Hk Hc1. cbn [winit wths wwire rev] in *. rewrite nth_error_map in Hk.
    rewrite Hc1 in Hk. injection Hk as <-. cbn. apply subseq_refl. }
  set (s := wrun (winit codes) sched) in *.
  destruct (nth_error (wths s) i) as [t|] eqn:Ei.
  - specialize (H i t c0 Ei Hc).
    clear -H. remember (written_by i (rev (wwire s))) as W. clear HeqW.
    induction (code_chunks (wcode t)) as [|x l IH] using rev_ind; [now rewrite app_nil_r in H|].
    apply IH. rewrite app_assoc in H. replace (W ++ l) with ((W ++ l) ++ []) by apply app_nil_r.
    eapply subseq_drop. rewrite <- app_assoc in *. exact H.
  - (* the thread list never changes length *)
    exfalso.
    assert (Hlen : length (wths s) = length codes).
    { unfold s, wrun. apply srun_invariant with (Inv := fun s => length (wths s) = length codes).
      - intros s0 k Hl. destruct (wstep_shape s0 k) as [->|(t & ins & rest & tf & _ & _ & -> & _)]; [exact Hl|].
        now rewrite upd_length.
      - cbn. apply map_length. }
    apply nth_error_None in Ei. assert (i < length codes)%nat by (apply nth_error_Some; congruence). lia.
Qed.

(* ------------------------------------------------------------------ whole frames, as a predicate
   on the chronological wire, and the greedy checker that decides it *)
Inductive frames_wire : list (nat * chunk) -> Prop :=
| fw_block t f rest : frames_wire rest -> frames_wire (map (pair t) (chunks_of f) ++ rest)
| fw_tail t f p : is_prefix p (chunks_of f) -> frames_wire (map (pair t) p).

Lemma frame_eqb_refl f : frame_eqb f f = true.
Proof. unfold frame_eqb. now rewrite !Z.eqb_refl, Bool.eqb_reflx, Nat.eqb_refl. Qed.

Lemma expect_block t f rest n k :
  expect t f k n (map (pair t) (map (fun k : nat => (f, k)) (seq k n)) ++ rest) = Some rest.
Proof.
  revert k. induction n as [|n IH]; intros k; cbn; [reflexivity|].
  unfold chunk_eqb. cbn [fst snd]. now rewrite !Nat.eqb_refl, frame_eqb_refl, IH.
Qed.

Lemma expect_prefix t f n : forall k p, is_prefix p (map (fun k : nat => (f, k)) (seq k n)) ->
  expect t f k n (map (pair t) p) = Some [].
Proof.
  induction n as [|n IH]; intros k p (r & Hr); cbn.
  - destruct p; [reflexivity|discriminate].
  - destruct p as [|c p]; [reflexivity|]. cbn in Hr. injection Hr as <- Hr. cbn [map].
    unfold chunk_eqb. cbn [fst snd]. rewrite !Nat.eqb_refl, frame_eqb_refl. cbn.
    apply IH. now exists r.
Qed.

Lemma wholeb_fuel_sound w : frames_wire w -> forall fuel, (length w < fuel)%nat -> wholeb_fuel fuel w = true.
Proof.
  induction 1 as [t f rest Hr IH|t f p Hp]; intros fuel Hlt.
  - unfold chunks_of in *. destruct (f_nch f) as [|n] eqn:En; [cbn; now apply IH|].
    destruct fuel as [|fu]; [lia|]. cbn [seq map app]. cbn [wholeb_fuel]. rewrite En.
    change ((t, (f, 0%nat)) :: map (pair t) (map (fun k : nat => (f, k)) (seq 1 n)) ++ rest)
      with (map (pair t) (map (fun k : nat => (f, k)) (seq 0 (S n))) ++ rest).
    rewrite expect_block. apply IH. rewrite app_length, !map_length, seq_length in Hlt. cbn in Hlt. lia.
  - destruct fuel as [|fu]; [lia|]. unfold chunks_of in Hp.
    destruct p as [|c p]; [reflexivity|].
    destruct Hp as (r & Hr). destruct (f_nch f) as [|n] eqn:En; [discriminate|].
    cbn in Hr. injection Hr as <- Hr. cbn [map wholeb_fuel]. rewrite En.
    change ((t, (f, 0%nat)) :: map (pair t) p) with (map (pair t) ((f, 0%nat) :: p)).
    rewrite (expect_prefix t f (S n) 0 ((f, 0%nat) :: p)); [|exists r; cbn; now rewrite Hr].
    destruct fu; [cbn in Hlt; lia|reflexivity].
Qed.

Lemma wholeb_sound w : frames_wire w -> wholeb w = true.
Proof. intros H. apply wholeb_fuel_sound; [exact H|]. unfold lt. apply le_n. Qed.

(* with the transport open, every reachable wire is whole frames plus the holder's frame so far *)
Lemma frames_wire_blocks blocks t f p :
  Forall (fun b => exists f, snd b = chunks_of f) blocks -> is_prefix p (chunks_of f) ->
  frames_wire (concat (map flat_block blocks) ++ map (pair t) p).
Proof.
  intros Hb Hp. induction Hb as [|[t0 b] l (f0 & Hf0) _ IH]; cbn.
  - now apply fw_tail with (f := f).
  - cbn in Hf0. subst b. rewrite <- app_assoc. unfold flat_block at 1. cbn [fst snd]. now apply fw_block.
Qed.

Theorem frames_wire_open s : Inv s -> wtc s = false -> frames_wire (rev (wwire s)).
Proof.
  intros HI Htc. destruct (serialised s HI) as (blocks & tail & Hw & Hb & Ht). rewrite Hw.
  assert (Hb' : Forall (fun b => exists f, snd b = chunks_of f) blocks).
  { eapply Forall_impl; [|exact Hb]. intros b [H|(Hc & _)]; [exact H|congruence]. }
  destruct Ht as [-> |(h & f & p & _ & -> & Hp)].
  - change (@nil (nat * chunk)) with (map (pair 0%nat) (@nil chunk)).
    apply frames_wire_blocks with (f := {| f_op := 0; f_fin := true; f_len := 0; f_nch := 0 |}); [exact Hb'|].
    now exists (chunks_of {| f_op := 0; f_fin := true; f_len := 0; f_nch := 0 |}).
  - now apply frames_wire_blocks with (f := f).
Qed.

Lemma corrupt_after_sound wsk csk sched :
  corrupt_after wsk csk sched = true -> ~ frames_wire (rev (wwire (wrun (cex_state wsk csk) sched))).
Proof.
  unfold corrupt_after. intros H Hf. apply wholeb_sound in Hf. rewrite Hf in H. discriminate.
Qed.

Lemma find_cex_sound wsk csk sched :
  find_cex wsk csk = Some sched -> ~ frames_wire (rev (wwire (wrun (cex_state wsk csk) sched))).
Proof.
  unfold find_cex. destruct (wths (cex_state wsk csk)) as [|a [|b [|]]]; try discriminate.
  intros H. apply find_first_sound in H. now apply corrupt_after_sound.
Qed.

(* ------------------------------------------------------------------ the lock as a token channel *)
(* in every reachable state of a SAFE skeleton no thread ever blocks on a release: a thread whose
   next instruction is the release completes it (it is the holder and hands the token back, or the
   path did not take the token and there is no send) *)
Theorem release_never_blocks s i t rest :
  Inv s -> nth_error (wths s) i = Some t -> wcode t = WRel :: rest ->
  nth_error (wths (wstep s i)) i = Some {| wcode := rest; wfail := wfail t |}.
Proof.
  intros HI Ei Ec. pose proof (inv_thr s HI i t Ei) as Hst. unfold thr_ok in Hst. rewrite Ec in Hst.
  unfold wstep. rewrite Ei, Ec.
  destruct Hst as [(Hn & [Htop|(Hcs & Hf)])|(Hh & _)]; try absurd_status.
  - destruct (wfail t) as [e|] eqn:Ef; [|now contradiction Hf].
    destruct (wlk s) as [h|] eqn:El; fields; [|eapply nth_upd_same; eauto].
    destruct (Nat.eqb h i) eqn:Eh; [apply Nat.eqb_eq in Eh; congruence|]. fields. eapply nth_upd_same; eauto.
  - rewrite Hh, Nat.eqb_refl. fields. eapply nth_upd_same; eauto.
Qed.

(* and the unconditional release never occurs in safe code *)
Theorem no_unconditional_release s i t rest :
  Inv s -> nth_error (wths s) i = Some t -> wcode t <> WRelU :: rest.
Proof.
  intros HI Ei Ec. pose proof (inv_thr s HI i t Ei) as Hst. unfold thr_ok in Hst. rewrite Ec in Hst.
  destruct Hst as [(Hn & [Htop|(Hcs & _)])|(Hh & [(_ & Hok)|(_ & Hcs & _)])]; absurd_status.
Qed.

Lemma leaked_after_sound wsk csk sched :
  leaked_after wsk csk sched = true ->
  let s := wrun (cex3_state wsk csk) sched in
  ~ frames_wire (rev (wwire s)) /\ rel_blocked s 2 = true.
Proof.
  unfold leaked_after. cbv zeta. intros H. apply andb_true_iff in H. destruct H as (H1 & H2). split; [|exact H2].
  intros Hf. apply wholeb_sound in Hf. rewrite Hf in H1. discriminate.
Qed.

Lemma find_cex3_sound wsk csk sched :
  find_cex3 wsk csk = Some sched ->
  let s := wrun (cex3_state wsk csk) sched in
  ~ frames_wire (rev (wwire s)) /\ rel_blocked s 2 = true.
Proof. unfold find_cex3. intros H. apply find_first_sound in H. now apply leaked_after_sound. Qed.

(* a thread that sits at a blocked release stays there whatever it tries *)
Lemma rel_blocked_stuck s i : rel_blocked s i = true -> wstep s i = s.
Proof.
  unfold rel_blocked, wstep. destruct (nth_error (wths s) i) as [t|]; [|discriminate].
  destruct (wcode t) as [|[] rest]; try discriminate.
  - destruct (wfail t); [discriminate|]. destruct (wlk s); [discriminate|]. reflexivity.
  - destruct (wfail t); destruct (wlk s); try discriminate; reflexivity.
Qed.

(* ------------------------------------------------------------------ the single-writer message path *)
(* if only thread d ever executes prepWrite (no other thread's code contains WPrep: control senders,
   the reader's handlers on the control path, closers), an open message is never cut *)
Definition no_prep (c : list winstr) : Prop := ~ In WPrep c.

Definition InvS (d : nat) (s : wstate) : Prop :=
  wcut s = false /\
  (forall j, wmsg s = Some j -> j = d) /\
  (forall i t, i <> d -> nth_error (wths s) i = Some t -> no_prep (wcode t)).

Lemma wstep_InvS d s i : InvS d s -> InvS d (wstep s i).
Proof.
  intros (Hc & Hm & Hn).
  destruct (wstep_shape s i) as [->|(t & ins & rest & tf & Ei & Ec & Hths & _)]; [now repeat split|].
  assert (Hn' : forall j tj, j <> d -> nth_error (wths (wstep s i)) j = Some tj -> no_prep (wcode tj)).
  { intros j tj Hj Hnj. rewrite Hths in Hnj. apply nth_upd_cases in Hnj.
    destruct Hnj as [(<- & -> & _)|(_ & Hnj)]; [|eapply Hn; eauto].
    cbn. intros Hin. apply (Hn i t Hj Ei). rewrite Ec. now right. }
  unfold InvS. split; [|split; [|exact Hn']].
  - (* the cut flag: only WPrep can raise it, and only thread d runs WPrep *)
    revert Hn'. unfold wstep. rewrite Ei, Ec. intros _.
    destruct ins; repeat match goal with |- context [match ?x with _ => _ end] => destruct x eqn:? end;
      fields; try exact Hc.
    all: destruct (Nat.eq_dec i d) as [->|Hne]; [|exfalso; apply (Hn i t Hne Ei); rewrite Ec; now left].
    all: match goal with Hm' : forall j, Some ?n = Some j -> j = _ |- _ => pose proof (Hm' n eq_refl) end.
    all: subst; rewrite Nat.eqb_refl in *; discriminate.
  - revert Hn'. unfold wstep. rewrite Ei, Ec. intros _.
    destruct ins; repeat match goal with |- context [match ?x with _ => _ end] => destruct x eqn:? end;
      fields; try exact Hm; intros j Hj; try discriminate; try (apply Hm; congruence).
    all: try (injection Hj as <-; destruct (Nat.eq_dec i d) as [->|Hne]; [reflexivity|
              exfalso; apply (Hn i t Hne Ei); rewrite Ec; now left]).
Qed.

Theorem single_writer_never_cut d codes sched :
  (forall i c, i <> d -> nth_error codes i = Some c -> no_prep c) ->
  wcut (wrun (winit codes) sched) = false.
Proof.
  intros H. assert (HI : InvS d (wrun (winit codes) sched)).
  { unfold wrun. apply srun_invariant; [intros; now apply wstep_InvS|].
    unfold InvS, winit; fields. split; [reflexivity|split; [discriminate|]].
    intros i t Hi Hn. rewrite nth_error_map in Hn. destruct (nth_error codes i) as [c|] eqn:E; [|discriminate].
    injection Hn as <-. cbn. eapply H; eauto. }
  apply HI.
Qed.

(* the code of control senders, of the reader's handler on the control path and of closers has no prepWrite *)
Lemma no_prep_frame_code sk tmo f : ws_safeb sk = true -> no_prep (frame_code sk tmo f).
Proof.
  intros Hs. apply ws_safeb_spec in Hs. destruct Hs as (t & ->).
  unfold no_prep, frame_code. cbn [flat_map sev_code app existsb is_early orb]. rewrite app_nil_r.
  intros Hin. cbn in Hin. destruct Hin as [H|[H|Hin]]; try discriminate.
  apply in_app_iff in Hin. destruct Hin as [Hin|[H|[H|[]]]]; try discriminate.
  apply in_map_iff in Hin. destruct Hin as (x & H & _). discriminate.
Qed.

Definition control_only (o : wop) : Prop := match o with OMsg _ => False | _ => True end.

Lemma no_prep_prog wsk csk ops : ws_safeb csk = true -> Forall control_only ops -> no_prep (prog_code wsk csk ops).
Proof.
  intros Hc Hall. unfold prog_code, no_prep. induction Hall as [|o ops Ho _ IH]; cbn; [tauto|].
  intros Hin. apply in_app_iff in Hin. destruct Hin as [Hin|Hin]; [|now apply IH].
  destruct o as [tmo f|fs| |f]; cbn [op_code control_only] in *; try contradiction.
  - apply in_app_iff in Hin. destruct Hin as [Hin|[H|[]]]; [|discriminate]. exact (no_prep_frame_code csk tmo f Hc Hin).
  - destruct Hin as [H|[H|[]]]; discriminate.
  - destruct Hin as [H|Hin]; [discriminate|]. apply in_app_iff in Hin. destruct Hin as [Hin|[H|[]]]; [|discriminate]. exact (no_prep_frame_code csk false f Hc Hin).
Qed.

Lemma find_cex4_sound wsk csk b sched :
  find_cex4 wsk csk b = Some sched -> wcut (wrun (cex4_state wsk csk b) sched) = true.
Proof.
  unfold find_cex4. destruct (wths (cex4_state wsk csk b)) as [|x [|y [|]]]; try discriminate.
  intros H. now apply find_first_sound in H.
Qed.
