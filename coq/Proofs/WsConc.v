(* Proofs for Model/WsConc.v (C15): the lock discipline serialises frame writes under every
   schedule. *)
From Coq Require Import String.
From Verif Require Import Gen.Gen_websocket.
From Verif Require Import Lib.Base Lib.Sx Lib.Sched Model.WsConc.
Import List ListNotations.
Open Scope Z_scope.

(* ------------------------------------------------------------------ code shapes *)
(* remaining code of a thread all of whose frame writes follow the safe skeleton:
   top      between lock regions
   in_test  the acquire instruction is behind it, the test of the sticky error is next
   in_wr    f d r: frame f, chunks d done (as far as the code is concerned), chunks r to go
   in_rel   the latch is behind it, the release is next *)
Inductive top : list winstr -> Prop :=
| top_nil : top []
| top_prep c : top c -> top (WPrep :: c)
| top_end c : top c -> top (WEnd :: c)
| top_closet c : top c -> top (WCloseT :: c)
| top_acq b f c : in_test f c -> top (WAcq b :: c)
with in_test : frame -> list winstr -> Prop :=
| it_test f c : in_wr f [] (chunks_of f) c -> in_test f (WTest :: c)
with in_wr : frame -> list chunk -> list chunk -> list winstr -> Prop :=
| iw_write f d x r c : in_wr f (d ++ [x]) r c -> in_wr f d (x :: r) (WWrite true x :: c)
| iw_latch f d c : in_rel f c -> in_wr f d [] (WLatch (is_close f) :: c)
with in_rel : frame -> list winstr -> Prop :=
| ir_rel f c : top c -> in_rel f (WRel :: c).

Inductive cs : list winstr -> Prop :=
| cs_test f c : in_test f c -> cs c
| cs_wr f d r c : in_wr f d r c -> cs c
| cs_rel f c : in_rel f c -> cs c.

Lemma ws_safeb_spec sk : ws_safeb sk = true -> exists t, sk = [SAcq t; STest; SWrite true; SLatch; SRel].
Proof.
  destruct sk as [|[t| |[|]| | | |] [|[| |[|]| | | |] [|[| |[|]| | | |] [|[| |[|]| | | |] [|[| |[|]| | | |] [|]]]]]];
    cbn; intros H; try discriminate. now exists t.
Qed.

Lemma in_wr_code f c r : top c -> forall d, in_wr f d r (map (WWrite true) r ++ WLatch (is_close f) :: WRel :: c).
Proof.
  intros Hc. induction r as [|x r IH]; intros d; cbn.
  - apply iw_latch. now apply ir_rel.
  - apply iw_write. apply IH.
Qed.

Lemma top_frame_code sk tmo f c : ws_safeb sk = true -> top c -> top (frame_code sk tmo f ++ c).
Proof.
  intros Hs Hc. apply ws_safeb_spec in Hs. destruct Hs as (t & ->).
  unfold frame_code. cbn [flat_map sev_code app].
  change (top (WAcq (t && tmo) :: WTest :: (map (WWrite true) (chunks_of f) ++ [WLatch (is_close f); WRel]) ++ c)).
  rewrite <- app_assoc. cbn [app]. apply top_acq with (f := f). apply it_test. now apply in_wr_code.
Qed.

Lemma top_frames_code sk fs c : ws_safeb sk = true -> top c -> top (flat_map (frame_code sk false) fs ++ c).
Proof.
  intros Hs Hc. induction fs as [|f fs IH]; cbn; [exact Hc|].
  rewrite <- app_assoc. now apply top_frame_code.
Qed.

Lemma top_prog_code wsk csk ops : ws_safeb wsk = true -> ws_safeb csk = true -> top (prog_code wsk csk ops).
Proof.
  intros Hw Hc. unfold prog_code. induction ops as [|o ops IH]; cbn; [constructor|].
  destruct o as [tmo f|fs|]; cbn [op_code].
  - rewrite <- app_assoc. apply top_frame_code; [exact Hc|]. cbn. now apply top_end.
  - cbn [app]. apply top_prep. rewrite <- app_assoc. apply top_frames_code; [exact Hw|]. cbn. now apply top_end.
  - cbn. apply top_closet. now apply top_end.
Qed.

(* ------------------------------------------------------------------ the invariant *)
Definition pprefix {A} (a l : list A) : Prop := exists x r, l = a ++ x :: r.
Definition is_prefix {A} (a l : list A) : Prop := exists r, l = a ++ r.

Definition flat_block (b : nat * list chunk) : list (nat * chunk) := map (pair (fst b)) (snd b).
Definition flat (cl : list (nat * list chunk)) : list (nat * chunk) := concat (map flat_block (rev cl)).

Lemma flat_cons b cl : flat (b :: cl) = flat cl ++ flat_block b.
Proof. unfold flat. cbn [rev]. rewrite map_app, concat_app. cbn. now rewrite app_nil_r. Qed.

(* a finished lock region wrote a whole frame, or -- only once the transport has failed and the
   failure has been made sticky -- a proper prefix of one *)
Definition block_ok (s : wstate) (b : nat * list chunk) : Prop :=
  (exists f, snd b = chunks_of f) \/
  (wtc s = true /\ werr s <> None /\ exists f, pprefix (snd b) (chunks_of f)).

Definition okhold (s : wstate) (c : list winstr) : Prop :=
  (exists f, in_test f c /\ wopen s = [])
  \/ (exists f d r, in_wr f d r c /\ d ++ r = chunks_of f /\ rev (wopen s) = d /\ werr s = None)
  \/ (exists f, in_rel f c /\ rev (wopen s) = chunks_of f /\ (is_close f = true -> werr s <> None)).

Definition failhold (s : wstate) (c : list winstr) : Prop :=
  cs c /\ werr s <> None /\
  (wopen s = [] \/ (wtc s = true /\ exists f, pprefix (rev (wopen s)) (chunks_of f))).

Definition thr_ok (s : wstate) (i : nat) (t : wthread) : Prop :=
  (wlk s <> Some i /\ (top (wcode t) \/ (cs (wcode t) /\ wfail t <> None)))
  \/ (wlk s = Some i /\ ((wfail t = None /\ okhold s (wcode t)) \/ (wfail t <> None /\ failhold s (wcode t)))).

Record Inv (s : wstate) : Prop := {
  inv_thr : forall i t, nth_error (wths s) i = Some t -> thr_ok s i t;
  inv_holder : forall h, wlk s = Some h -> exists t, nth_error (wths s) h = Some t;
  inv_open : wlk s = None -> wopen s = [];
  inv_wire : rev (wwire s) = flat (wclosed s) ++
             match wlk s with Some h => map (pair h) (rev (wopen s)) | None => [] end;
  inv_blocks : Forall (block_ok s) (wclosed s);
  inv_close : forall t f, In (t, chunks_of f) (wclosed s) -> is_close f = true -> chunks_of f <> [] ->
              werr s <> None /\ wopen s = [] /\ exists rest, wclosed s = (t, chunks_of f) :: rest }.

(* ---- small facts *)
Lemma chunks_of_inj f f' : chunks_of f = chunks_of f' -> chunks_of f <> [] -> f = f'.
Proof.
  unfold chunks_of. destruct (f_nch f) as [|n]; [intros _ H; now contradiction H|].
  destruct (f_nch f') as [|n']; [discriminate|]. cbn. intros H _. now inversion H.
Qed.

Lemma chunks_of_head f x r : chunks_of f = x :: r -> x = (f, 0%nat).
Proof. unfold chunks_of. destruct (f_nch f); cbn; [discriminate|]. intros H. now inversion H. Qed.

Lemma pprefix_not_whole b f f' : pprefix b (chunks_of f) -> b = chunks_of f' -> b <> [] -> False.
Proof.
  intros (x & r & Hp) Hb Hne. subst b.
  destruct (chunks_of f') as [|y l] eqn:E; [now apply Hne|].
  pose proof (chunks_of_head _ _ _ E) as Hy. subst y.
  rewrite <- app_comm_cons in Hp. pose proof (chunks_of_head _ _ _ Hp) as Hy. inversion Hy; subst f'.
  rewrite E in Hp. inversion Hp as [Hl]. apply (f_equal (@length _)) in Hl.
  rewrite app_length in Hl. cbn in Hl. lia.
Qed.

Lemma cs_step_skip ins c : cs (ins :: c) -> ins <> WRel -> cs c.
Proof.
  intros H Hne. inversion H as [f c0 Ht|f d r c0 Hw|f c0 Hr]; subst.
  - inversion Ht; subst. eapply cs_wr; eauto.
  - inversion Hw; subst; [eapply cs_wr; eauto|eapply cs_rel; eauto].
  - inversion Hr; subst. now contradiction Hne.
Qed.

Lemma cs_rel_top c : cs (WRel :: c) -> top c.
Proof.
  intros H. inversion H as [f c0 Ht|f d r c0 Hw|f c0 Hr]; subst.
  - inversion Ht. - inversion Hw. - now inversion Hr.
Qed.

Lemma cs_not_top_head ins c : cs (ins :: c) ->
  ins = WTest \/ (exists x, ins = WWrite true x) \/ (exists b, ins = WLatch b) \/ ins = WRel.
Proof.
  intros H. inversion H as [f c0 Ht|f d r c0 Hw|f c0 Hr]; subst.
  - inversion Ht; auto.
  - inversion Hw; subst; eauto.
  - inversion Hr; auto.
Qed.

Lemma rev_nil_inv {A} (l : list A) : rev l = [] -> l = [].
Proof. destruct l as [|x l]; [auto|]. cbn. intros H. destruct (rev l); discriminate. Qed.

(* a thread other than the one that moved keeps its status *)
Lemma thr_ok_other s s' j t :
  thr_ok s j t ->
  (wlk s <> Some j -> wlk s' <> Some j) ->
  (wlk s = Some j -> wlk s' = Some j /\ wopen s' = wopen s /\ werr s' = werr s /\ (wtc s = true -> wtc s' = true)) ->
  thr_ok s' j t.
Proof.
  intros [(Hn & H)|(Hh & H)] Hnot Hsame.
  - left. split; [now apply Hnot|exact H].
  - right. destruct (Hsame Hh) as (Hl & Ho & He & Hc). split; [exact Hl|].
    destruct H as [(Hf & Hok)|(Hf & Hfail)]; [left|right]; (split; [exact Hf|]).
    + unfold okhold in *. rewrite Ho, He. exact Hok.
    + unfold failhold in *. rewrite Ho, He. destruct Hfail as (Hcs & Hne & Hw). split; [exact Hcs|split; [exact Hne|]].
      destruct Hw as [Hw|(Htc & Hw)]; [now left|right; split; [now apply Hc|exact Hw]].
Qed.

Lemma block_ok_mono s s' b :
  block_ok s b -> (wtc s = true -> wtc s' = true) -> (werr s <> None -> werr s' <> None) -> block_ok s' b.
Proof.
  intros [H|(Hc & He & H)] Htc Herr; [now left|right]. split; [now apply Htc|split; [now apply Herr|exact H]].
Qed.

Lemma Forall_block_ok_mono s s' l :
  Forall (block_ok s) l -> (wtc s = true -> wtc s' = true) -> (werr s <> None -> werr s' <> None) ->
  Forall (block_ok s') l.
Proof. intros H Htc Herr. eapply Forall_impl; [|exact H]. intros b Hb. eapply block_ok_mono; eauto. Qed.

Lemma first_wins_some cur e : first_wins cur e <> None.
Proof. destruct cur; cbn; discriminate. Qed.
