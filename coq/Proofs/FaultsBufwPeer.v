(* C08 write side, part 3: WHICH operation fails as a function of the write-call index i.
   The run over the transport that fails at call i is compared with the run over the transport that
   never fails: they are in lock step until the fault-free run issues its call number i; the
   operation during which that happens is the one that fails. *)
From Verif Require Import Lib.Base Lib.Sx Lib.Err Lib.IO Model.Faults Proofs.FaultsIO Proofs.FaultsWrite Proofs.FaultsBufw.
Open Scope N_scope.

(* lock step: same history, fault still ahead (or due now) *)
Definition sim (i : N) (wf w0 : wtr) : Prop :=
  wt_failed wf = false /\ wt_peer wf = wt_peer w0 /\ wt_calls wf = wt_calls w0 /\ wt_calls wf <= i /\
  wt_failat wf = Some i /\ N.of_nat (length (wt_peer wf)) = wt_calls wf /\ (intact w0 /\ wt_sticky wf = true /\ wt_sticky w0 = true).
(* the fault has hit: the faulty transport is broken, the fault-free run is past call i *)
(* ... and the peer holds the first i writes of the fault-free run and the accepted part of write i *)
Definition hit_peer (i : N) (wf w0 : wtr) : Prop :=
  exists pre p post, rev (wt_peer w0) = pre ++ p :: post /\ N.of_nat (length pre) = i /\
    rev (wt_peer wf) = pre ++ [firstn (N.to_nat (accepted (wt_m wf) (wt_term wf) p)) p].
Definition broken (i : N) (wf w0 : wtr) : Prop :=
  wt_failed wf = true /\ i < wt_calls w0 /\ hit_peer i wf w0 /\ intact w0.

Lemma wt_write_sim i p wf w0 : sim i wf w0 ->
  let '(mf, ef, wf') := wt_write p wf in
  let '(m0, e0, w0') := wt_write p w0 in
  (sim i wf' w0' /\ mf = m0 /\ ef = e0 /\ ef = None /\ mf = lenN p) \/ broken i wf' w0'.
Proof.
  unfold sim, broken, intact. intros (Hf & Hp & Hc & Hle & Ha & Hlen & (Ha0 & Hf0) & Hst & Hst0). unfold wt_write. rewrite Hf, Hf0, Ha, Ha0, Hst, Hst0.
  destruct (N.eqb_spec i (wt_calls wf)) as [E|E].
  - rewrite split_at_spec. cbn beta iota zeta. right. cbn [wt_failed wt_calls wt_failat]. split; [reflexivity|].
    split; [lia|]. split; [|split; reflexivity].
    exists (rev (wt_peer w0)), p, []. cbn [wt_peer wt_m wt_term rev]. rewrite rev_length, <- Hp. split; [reflexivity|].
    split; [lia|]. fold (accepted (wt_m wf) (wt_term wf) p). reflexivity.
  - cbn beta iota zeta. left. cbn. repeat split; try reflexivity; try congruence; try lia.
Qed.

Lemma wt_write_frozen p w : wt_failed w = true -> snd (wt_write p w) = w.
Proof. intros H. now rewrite wt_write_failed. Qed.

(* the fault-free side only moves forward: more calls, the peer's list of writes only grows *)
Definition fwd (w w' : wtr) : Prop :=
  intact w' /\ wt_calls w <= wt_calls w' /\ exists more, rev (wt_peer w') = rev (wt_peer w) ++ more.
Lemma fwd_refl w : intact w -> fwd w w.
Proof. intros H. split; [exact H|]. split; [lia|]. exists []. now rewrite app_nil_r. Qed.
Lemma fwd_trans a b c : fwd a b -> fwd b c -> fwd a c.
Proof.
  intros (_ & H1 & m1 & E1) (H2 & H3 & m2 & E2). split; [exact H2|]. split; [lia|].
  exists (m1 ++ m2). now rewrite E2, E1, app_assoc.
Qed.

Lemma wt_write_fwd p w : intact w -> fwd w (snd (wt_write p w)).
Proof.
  intros H. destruct (wt_write_intact p w H) as (w' & E & H'). rewrite E. cbn [snd].
  unfold wt_write in E. destruct H as [Ha Hf]. rewrite Hf, Ha in E. injection E as <-.
  split; [exact H'|]. split; [cbn; lia|]. exists [p]. reflexivity.
Qed.

(* ---------- monotonicity of the two sides once they have diverged ---------- *)
(* a writer over a broken transport never touches it again *)
Lemma bw_flush_frozen b : wt_failed (bw_under b) = true -> bw_under (snd (bw_flush b)) = bw_under b.
Proof.
  intros H. unfold bw_flush. destruct (bw_err b); [reflexivity|]. destruct (bw_n b =? 0); [reflexivity|].
  rewrite wt_write_failed by exact H. cbn beta iota zeta. rewrite split_at_spec. reflexivity.
Qed.

Lemma bw_write_go_frozen fuel : forall p b, wt_failed (bw_under b) = true ->
  bw_under (snd (bw_write_go fuel p b)) = bw_under b.
Proof.
  induction fuel as [|f IH]; intros p b H; cbn [bw_write_go]; [reflexivity|].
  destruct (bw_err b); [reflexivity|]. destruct (bw_avail b <? lenN p); [|reflexivity].
  destruct (bw_n b =? 0).
  - rewrite wt_write_failed by exact H. rewrite split_at_spec. rewrite IH; [reflexivity|exact H].
  - rewrite split_at_spec. set (b1 := mk_bufw _ _ _ _).
    pose proof (bw_flush_frozen b1 H) as H1. destruct (bw_flush b1) as [o b2]. cbn [snd] in H1.
    rewrite IH; [exact H1|]. rewrite H1. exact H.
Qed.

Lemma bw_copies_frozen ps : forall b, wt_failed (bw_under b) = true ->
  bw_under (snd (bw_copies ps b)) = bw_under b.
Proof.
  induction ps as [|p ps IH]; intros b H; cbn [bw_copies]; [reflexivity|].
  assert (H1 : bw_under (snd (bw_copy_bytes p b)) = bw_under b).
  { unfold bw_copy_bytes. destruct p; [reflexivity|]. apply bw_write_go_frozen. exact H. }
  destruct (bw_copy_bytes p b) as [[e|] b1]; [exact H1|]. cbn [snd] in *.
  rewrite IH; [exact H1|]. rewrite H1. exact H.
Qed.

Lemma message_frozen o b : wt_failed (bw_under b) = true ->
  bw_under (snd (rtmp_write_message o b)) = bw_under b.
Proof.
  intros H. unfold rtmp_write_message. pose proof (bw_copies_frozen o b H) as Hc.
  destruct (bw_copies o b) as [[e|] b1]; [exact Hc|]. cbn [snd] in *.
  rewrite bw_flush_frozen; [exact Hc|]. rewrite Hc. exact H.
Qed.

Lemma bw_flush_fwd b : intact (bw_under b) -> fwd (bw_under b) (bw_under (snd (bw_flush b))).
Proof.
  intros H. unfold bw_flush. destruct (bw_err b); [now apply fwd_refl|]. destruct (bw_n b =? 0); [now apply fwd_refl|].
  pose proof (wt_write_fwd (bw_buf b) (bw_under b) H) as H1.
  destruct (wt_write (bw_buf b) (bw_under b)) as [[m oe] u']. cbn [snd] in *.
  destruct oe; [|destruct (m <? bw_n b)]; try rewrite split_at_spec; exact H1.
Qed.

Lemma bw_write_go_fwd fuel : forall p b, intact (bw_under b) ->
  fwd (bw_under b) (bw_under (snd (bw_write_go fuel p b))).
Proof.
  induction fuel as [|f IH]; intros p b H; cbn [bw_write_go]; [now apply fwd_refl|].
  destruct (bw_err b); [now apply fwd_refl|]. destruct (bw_avail b <? lenN p); [|now apply fwd_refl].
  destruct (bw_n b =? 0).
  - pose proof (wt_write_fwd p (bw_under b) H) as H1.
    destruct (wt_write p (bw_under b)) as [[m oe] u']. cbn [snd] in *. rewrite split_at_spec.
    eapply fwd_trans; [exact H1|]. apply (IH _ (mk_bufw (bw_rev b) (bw_n b) oe u')). apply H1.
  - rewrite split_at_spec. set (b1 := mk_bufw _ _ _ _).
    pose proof (bw_flush_fwd b1 H) as H1. destruct (bw_flush b1) as [o b2]. cbn [snd] in H1.
    eapply fwd_trans; [exact H1|]. apply IH. apply H1.
Qed.

Lemma bw_copies_fwd ps : forall b, intact (bw_under b) -> fwd (bw_under b) (bw_under (snd (bw_copies ps b))).
Proof.
  induction ps as [|p ps IH]; intros b H; cbn [bw_copies]; [now apply fwd_refl|].
  assert (H1 : fwd (bw_under b) (bw_under (snd (bw_copy_bytes p b)))).
  { unfold bw_copy_bytes. destruct p; [now apply fwd_refl|]. apply bw_write_go_fwd. exact H. }
  destruct (bw_copy_bytes p b) as [[e|] b1]; [exact H1|]. cbn [snd] in H1.
  eapply fwd_trans; [exact H1|]. apply IH. apply H1.
Qed.

Lemma message_fwd o b : intact (bw_under b) -> fwd (bw_under b) (bw_under (snd (rtmp_write_message o b))).
Proof.
  intros H. unfold rtmp_write_message. pose proof (bw_copies_fwd o b H) as Hc.
  destruct (bw_copies o b) as [[e|] b1]; [exact Hc|]. cbn [snd] in Hc.
  eapply fwd_trans; [exact Hc|]. apply bw_flush_fwd. apply Hc.
Qed.

(* ---------- lock step of the two buffered writers ---------- *)
Definition simb (i : N) (bf b0 : bufw) : Prop :=
  bw_rev bf = bw_rev b0 /\ bw_n bf = bw_n b0 /\ bw_err bf = bw_err b0 /\ sim i (bw_under bf) (bw_under b0).
Definition rb (i : N) (bf b0 : bufw) : Prop :=
  simb i bf b0 \/ broken i (bw_under bf) (bw_under b0).

Lemma sim_intact i wf w0 : sim i wf w0 -> intact w0.
Proof. intros H. apply H. Qed.
Lemma simb_not_broken i bf b0 : simb i bf b0 -> wt_failed (bw_under bf) = false.
Proof. intros (_ & _ & _ & H). apply H. Qed.

Lemma broken_step i wf w0 w0' : broken i wf w0 -> fwd w0 w0' -> broken i wf w0'.
Proof.
  intros (Hf & Hc & (pre & p & post & E1 & E2 & E3) & _) (Hi & Hle & more & Em).
  split; [exact Hf|]. split; [lia|]. split; [|exact Hi].
  exists pre, p, (post ++ more). rewrite Em, E1, <- app_assoc. auto.
Qed.

Lemma flush_rb i bf b0 : rb i bf b0 ->
  rb i (snd (bw_flush bf)) (snd (bw_flush b0)) /\
  (simb i (snd (bw_flush bf)) (snd (bw_flush b0)) -> fst (bw_flush bf) = fst (bw_flush b0)).
Proof.
  intros [Hs|Hb].
  - destruct Hs as (Hr & Hn & He & Hsim). unfold bw_flush, bw_buf. rewrite Hr, Hn, He.
    destruct (bw_err b0) as [e|] eqn:E0.
    { cbn [snd fst]. split; [left; split; [exact Hr|split; [exact Hn|split; [congruence|exact Hsim]]]|reflexivity]. }
    destruct (bw_n b0 =? 0).
    { cbn [snd fst]. split; [left; split; [exact Hr|split; [exact Hn|split; [congruence|exact Hsim]]]|reflexivity]. }
    pose proof (wt_write_sim i (concat (frev (bw_rev b0))) _ _ Hsim) as Hw.
    destruct (wt_write (concat (frev (bw_rev b0))) (bw_under bf)) as [[mf ef] wf'].
    destruct (wt_write (concat (frev (bw_rev b0))) (bw_under b0)) as [[m0 e0] w0'].
    destruct Hw as [(Hs' & -> & -> & -> & ->)|Hbr].
    + destruct (lenN (concat (frev (bw_rev b0))) <? bw_n b0).
      * rewrite split_at_spec. cbn [snd fst]. split; [left; split; [reflexivity|split; [reflexivity|split; [reflexivity|exact Hs']]]|reflexivity].
      * cbn [snd fst]. split; [left; split; [reflexivity|split; [reflexivity|split; [reflexivity|exact Hs']]]|reflexivity].
    + assert (Hbr' : forall x y, bw_under x = wf' -> bw_under y = w0' -> rb i x y)
        by (intros x y Hx Hy; right; rewrite Hx, Hy; exact Hbr).
      split.
      * destruct ef as [e1|], e0 as [e2|]; try destruct (mf <? bw_n b0); try destruct (m0 <? bw_n b0);
          rewrite ?split_at_spec; cbn [snd]; apply Hbr'; reflexivity.
      * intros Hsb. apply simb_not_broken in Hsb. exfalso.
        destruct Hbr as (Hf' & _).
        destruct ef as [e1|]; try destruct (mf <? bw_n b0); rewrite ?split_at_spec in Hsb; cbn [snd bw_under] in Hsb; congruence.
  - split.
    + right. rewrite (bw_flush_frozen bf) by apply Hb. apply (broken_step i _ _ _ Hb). apply bw_flush_fwd, Hb.
    + intros Hsb. apply simb_not_broken in Hsb. rewrite bw_flush_frozen in Hsb by apply Hb. destruct Hb; congruence.
Qed.

Definition agree (i : N) (rf r0 : option N * bufw) : Prop :=
  rb i (snd rf) (snd r0) /\ (simb i (snd rf) (snd r0) -> fst rf = fst r0).

Lemma agree_broken i (rf r0 : option N * bufw) bf b0 :
  broken i (bw_under bf) (bw_under b0) ->
  bw_under (snd rf) = bw_under bf -> fwd (bw_under b0) (bw_under (snd r0)) -> agree i rf r0.
Proof.
  intros Hb Hf Hw. split.
  - right. rewrite Hf. apply (broken_step i _ _ _ Hb Hw).
  - intros Hs. apply simb_not_broken in Hs. rewrite Hf in Hs. destruct Hb; congruence.
Qed.

Lemma write_go_rb i fuel : forall p bf b0, rb i bf b0 ->
  agree i (bw_write_go fuel p bf) (bw_write_go fuel p b0).
Proof.
  induction fuel as [|f IH]; intros p bf b0 [Hs|Hb].
  - cbn [bw_write_go]. split; [now left|reflexivity].
  - cbn [bw_write_go]. split; [now right|]. intros Hsb. apply simb_not_broken in Hsb. cbn [snd] in Hsb. destruct Hb; congruence.
  - pose proof Hs as (Hr & Hn & He & Hsim). cbn [bw_write_go]. unfold bw_avail. rewrite Hr, Hn, He.
    destruct (bw_err b0) as [e|] eqn:E0.
    { cbn [snd fst]. split; [left; exact Hs|reflexivity]. }
    destruct (bufio_size - bw_n b0 <? lenN p).
    + destruct (bw_n b0 =? 0).
      * pose proof (wt_write_sim i p _ _ Hsim) as Hw.
        destruct (wt_write p (bw_under bf)) as [[mf ef] wf'].
        destruct (wt_write p (bw_under b0)) as [[m0 e0] w0'].
        rewrite !split_at_spec.
        destruct Hw as [(Hs' & -> & -> & -> & ->)|Hbr].
        -- apply IH. left. split; [reflexivity|]. split; [reflexivity|]. split; [reflexivity|exact Hs'].
        -- apply (agree_broken i _ _ (mk_bufw (bw_rev b0) (bw_n b0) ef wf') (mk_bufw (bw_rev b0) (bw_n b0) e0 w0') Hbr).
           ++ apply bw_write_go_frozen. apply Hbr.
           ++ apply bw_write_go_fwd. apply Hbr.
      * rewrite !split_at_spec. cbn beta iota zeta.
        set (b1f := mk_bufw _ bufio_size None (bw_under bf)). set (b10 := mk_bufw _ bufio_size None (bw_under b0)).
        assert (H1 : rb i b1f b10) by (left; split; [reflexivity|split; [reflexivity|split; [reflexivity|exact Hsim]]]).
        destruct (flush_rb i b1f b10 H1) as [H2 _].
        destruct (bw_flush b1f) as [of b2f]. destruct (bw_flush b10) as [o0 b20]. apply IH. exact H2.
    + cbn [snd fst]. split; [left|reflexivity]. split; [reflexivity|]. split; [reflexivity|]. split; [reflexivity|exact Hsim].
  - apply (agree_broken i _ _ bf b0 Hb).
    + apply bw_write_go_frozen. apply Hb.
    + apply bw_write_go_fwd. apply Hb.
Qed.

Lemma copy_rb i p bf b0 : rb i bf b0 -> agree i (bw_copy_bytes p bf) (bw_copy_bytes p b0).
Proof.
  intros H. unfold bw_copy_bytes. destruct p as [|x p].
  - split; [exact H|reflexivity].
  - apply write_go_rb. exact H.
Qed.

Lemma copies_rb i ps : forall bf b0, rb i bf b0 -> agree i (bw_copies ps bf) (bw_copies ps b0).
Proof.
  induction ps as [|p ps IH]; intros bf b0 H; cbn [bw_copies].
  - split; [exact H|reflexivity].
  - destruct (copy_rb i p bf b0 H) as [H1 H2].
    destruct H1 as [Hs|Hb].
    + specialize (H2 Hs). destruct (bw_copy_bytes p bf) as [of b1f]. destruct (bw_copy_bytes p b0) as [o0 b10].
      cbn [fst snd] in *. subst o0. destruct of as [e|].
      * split; [left; exact Hs|reflexivity].
      * apply IH. left. exact Hs.
    + (* diverged inside this piece *)
      assert (Hff : bw_under (snd (bw_copies (p :: ps) bf)) = bw_under (snd (bw_copy_bytes p bf))).
      { cbn [bw_copies]. destruct (bw_copy_bytes p bf) as [[e|] b1f]; cbn [snd] in *; [reflexivity|].
        apply bw_copies_frozen. apply Hb. }
      assert (Hfw : fwd (bw_under (snd (bw_copy_bytes p b0))) (bw_under (snd (bw_copies (p :: ps) b0)))).
      { cbn [bw_copies]. destruct (bw_copy_bytes p b0) as [[e|] b10]; cbn [snd] in *; [apply fwd_refl, Hb|].
        apply bw_copies_fwd. apply Hb. }
      cbn [bw_copies] in Hff, Hfw.
      apply (agree_broken i _ _ _ _ Hb Hff Hfw).
Qed.

Lemma message_rb i o bf b0 : rb i bf b0 -> agree i (rtmp_write_message o bf) (rtmp_write_message o b0).
Proof.
  intros H. unfold rtmp_write_message. destruct (copies_rb i o bf b0 H) as [H1 H2].
  destruct H1 as [Hs|Hb].
  - specialize (H2 Hs). destruct (bw_copies o bf) as [of b1f]. destruct (bw_copies o b0) as [o0 b10].
    cbn [fst snd] in *. subst o0. destruct of as [e|].
    + split; [left; exact Hs|reflexivity].
    + apply flush_rb. left. exact Hs.
  - assert (Hff : bw_under (snd (rtmp_write_message o bf)) = bw_under (snd (bw_copies o bf))).
    { unfold rtmp_write_message. destruct (bw_copies o bf) as [[e|] b1f]; cbn [snd] in *; [reflexivity|].
      apply bw_flush_frozen. apply Hb. }
    assert (Hfw : fwd (bw_under (snd (bw_copies o b0))) (bw_under (snd (rtmp_write_message o b0)))).
    { unfold rtmp_write_message. destruct (bw_copies o b0) as [[e|] b10]; cbn [snd] in *; [apply fwd_refl, Hb|].
      apply bw_flush_fwd. apply Hb. }
    unfold rtmp_write_message in Hff, Hfw.
    apply (agree_broken i _ _ _ _ Hb Hff Hfw).
Qed.

(* ---------- operations: how many complete before call i, read off the fault-free run ---------- *)
Fixpoint done_before (i : N) (ops : list (list bytes)) (b0 : bufw) (n : N) : N :=
  match ops with
  | [] => n
  | o :: r => let b0' := snd (rtmp_write_message o b0) in
              if wt_calls (bw_under b0') <=? i then done_before i r b0' (N.succ n) else n
  end.

Lemma ops_fwd ops : forall b n, intact (bw_under b) -> fwd (bw_under b) (bw_under (snd (rtmp_write_ops ops b n))).
Proof.
  induction ops as [|o ops IH]; intros b n H; cbn [rtmp_write_ops]; [now apply fwd_refl|].
  pose proof (message_fwd o b H) as H1.
  destruct (rtmp_write_message o b) as [[e|] b1]; [exact H1|]. cbn [snd] in H1.
  eapply fwd_trans; [exact H1|]. apply IH. apply H1.
Qed.

Lemma simb_clean i bf b0 : simb i bf b0 -> clean bf -> bw_buf bf = [] -> clean b0 /\ bw_buf b0 = [].
Proof.
  intros (Hr & Hn & He & Hs) (C1 & C2 & C3) Hb. split.
  - split; [congruence|]. split; [congruence|]. split; apply Hs.
  - unfold bw_buf in *. now rewrite <- Hr.
Qed.

Theorem ops_sim i ops : forall bf b0 n, simb i bf b0 -> clean bf -> bw_buf bf = [] ->
  let '(nf, oef, bf') := rtmp_write_ops ops bf n in
  nf = done_before i ops b0 n /\
  match oef with
  | None => simb i bf' (snd (rtmp_write_ops ops b0 n))
  | Some _ => broken i (bw_under bf') (bw_under (snd (rtmp_write_ops ops b0 n)))
  end.
Proof.
  induction ops as [|o ops IH]; intros bf b0 n Hs Hc Hb; cbn [rtmp_write_ops done_before].
  - split; [reflexivity|exact Hs].
  - destruct (simb_clean i bf b0 Hs Hc Hb) as [Hc0 Hb0].
    pose proof (message_rb i o bf b0 (or_introl Hs)) as [Hrb Hfst].
    pose proof (rtmp_write_message_spec o bf Hc Hb) as Sf. cbn zeta in Sf.
    pose proof (rtmp_write_message_spec o b0 Hc0 Hb0) as S0. cbn zeta in S0.
    pose proof (message_fwd o b0 (sim_intact _ _ _ (proj2 (proj2 (proj2 Hs))))) as F0.
    destruct (rtmp_write_message o bf) as [oef bf1]. destruct (rtmp_write_message o b0) as [oe0 b01].
    cbn [fst snd] in *.
    assert (Hoe0 : oe0 = None).
    { destruct oe0 as [e|]; [|reflexivity]. destruct S0 as (_ & _ & Hf & _). destruct F0 as [[_ Hi] _]. congruence. }
    subst oe0. destruct S0 as (_ & Hc01 & Hb01 & _).
    destruct Hrb as [Hs1|Hbr].
    + specialize (Hfst Hs1). subst oef. destruct Sf as (_ & Hc1 & Hb1 & _).
      assert (Hle : wt_calls (bw_under b01) <= i).
      { destruct Hs1 as (_ & _ & _ & (_ & _ & E & L & _)). lia. }
      destruct (N.leb_spec (wt_calls (bw_under b01)) i) as [_|H]; [|lia].
      apply (IH bf1 b01 (N.succ n) Hs1 Hc1 Hb1).
    + destruct oef as [e|].
      * destruct (N.leb_spec (wt_calls (bw_under b01)) i) as [H|_]; [destruct Hbr as (_ & L & _); lia|].
        split; [reflexivity|].
        apply (broken_step i _ _ _ Hbr). apply ops_fwd. apply Hbr.
      * destruct Sf as (_ & (_ & _ & Hnf & _) & _). destruct Hbr as (Hf & _). congruence.
Qed.

(* ---------- the handshake writes on the raw transport ---------- *)
Lemma copy_bytes_sim i p wf w0 : sim i wf w0 ->
  let '(ef, wf') := copy_bytes p wf in
  let '(e0, w0') := copy_bytes p w0 in
  e0 = None /\ ((sim i wf' w0' /\ ef = None) \/ (broken i wf' w0' /\ ef <> None)).
Proof.
  intros Hs. pose proof (sim_intact _ _ _ Hs) as Hi0.
  assert (Hstf : wt_sticky wf = true) by apply Hs. assert (Hst0 : wt_sticky w0 = true) by apply Hs.
  pose proof (copy_bytes_cases p wf (proj1 Hs) Hstf) as Cf. pose proof (copy_bytes_cases p w0 (proj2 Hi0) Hst0) as C0.
  pose proof (copy_bytes_intact p w0 Hi0) as I0.
  unfold copy_bytes in *. destruct p as [|x p].
  - split; [reflexivity|]. left. auto.
  - pose proof (wt_write_sim i (x :: p) wf w0 Hs) as Hw.
    destruct (wt_write (x :: p) wf) as [[mf ef] wf']. destruct (wt_write (x :: p) w0) as [[m0 e0] w0'].
    cbn beta iota zeta in Hw, Cf, C0, I0.
    destruct Hw as [(Hs' & -> & -> & -> & ->)|Hbr].
    + rewrite N.eqb_refl. cbn beta iota zeta. split; [reflexivity|]. left. auto.
    + destruct ef as [e1|]; [|destruct (mf =? lenN (x :: p))];
        (destruct e0 as [e2|]; [|destruct (m0 =? lenN (x :: p))]);
        cbn beta iota zeta in *; cbn [snd] in *;
        try (exfalso; destruct C0 as (_ & _ & Hf & _); destruct I0 as [_ I0]; congruence);
        try (exfalso; destruct Cf as (_ & Hf & _); destruct Hbr as (Hf' & _); congruence);
        (split; [reflexivity|right; split; [exact Hbr|discriminate]]).
Qed.

Fixpoint done_raw (i : N) (sizes : list N) (w0 : wtr) (n : N) : N :=
  match sizes with
  | [] => n
  | k :: r => let w0' := snd (copy_bytes (repeat 0 (N.to_nat k)) w0) in
              if wt_calls w0' <=? i then done_raw i r w0' (N.succ n) else n
  end.

Lemma copy_bytes_fwd p w : intact w -> fwd w (snd (copy_bytes p w)).
Proof.
  intros H. unfold copy_bytes. destruct p as [|x p]; [now apply fwd_refl|].
  pose proof (wt_write_fwd (x :: p) w H) as H1.
  destruct (wt_write (x :: p) w) as [[m oe] w']. cbn [snd] in *.
  destruct oe; [|destruct (m =? lenN (x :: p))]; exact H1.
Qed.

Lemma raw_fwd sizes : forall w n, intact w -> fwd w (snd (raw_copies sizes w n)).
Proof.
  induction sizes as [|k r IH]; intros w n H; cbn [raw_copies]; [now apply fwd_refl|].
  pose proof (copy_bytes_fwd (repeat 0 (N.to_nat k)) w H) as H1.
  destruct (copy_bytes (repeat 0 (N.to_nat k)) w) as [[e|] w1]; [exact H1|]. cbn [snd] in H1.
  eapply fwd_trans; [exact H1|]. apply IH. apply H1.
Qed.

Lemma raw_copies_frozen sizes : forall w n, wt_failed w = true -> snd (raw_copies sizes w n) = w.
Proof.
  induction sizes as [|k r IH]; intros w n H; cbn [raw_copies]; [reflexivity|].
  unfold copy_bytes. destruct (repeat 0 (N.to_nat k)) as [|x l]; [now apply IH|].
  rewrite wt_write_failed by exact H. reflexivity.
Qed.

Lemma copy_bytes_intact_none p w : intact w -> fst (copy_bytes p w) = None.
Proof.
  intros H. unfold copy_bytes. destruct p as [|x p]; [reflexivity|].
  destruct (wt_write_intact (x :: p) w H) as (w' & -> & _). now rewrite N.eqb_refl.
Qed.

Theorem raw_sim i sizes : forall wf w0 n, sim i wf w0 ->
  let '(nf, ef, wf') := raw_copies sizes wf n in
  nf = done_raw i sizes w0 n /\
  fst (fst (raw_copies sizes w0 n)) = n + N.of_nat (length sizes) /\ snd (fst (raw_copies sizes w0 n)) = None /\
  match ef with
  | None => sim i wf' (snd (raw_copies sizes w0 n)) /\ nf = n + N.of_nat (length sizes)
  | Some _ => broken i wf' (snd (raw_copies sizes w0 n))
  end.
Proof.
  induction sizes as [|k r IH]; intros wf w0 n Hs; cbn [raw_copies done_raw length].
  - rewrite N.add_0_r. auto.
  - pose proof (copy_bytes_sim i (repeat 0 (N.to_nat k)) wf w0 Hs) as Hc.
    destruct (copy_bytes (repeat 0 (N.to_nat k)) wf) as [ef wf1].
    destruct (copy_bytes (repeat 0 (N.to_nat k)) w0) as [e0 w01]. cbn [snd].
    destruct Hc as (-> & [(Hs1 & ->)|(Hbr & Hne)]).
    + assert (Hle : wt_calls w01 <= i) by (destruct Hs1 as (_ & _ & E & L & _); lia).
      destruct (N.leb_spec (wt_calls w01) i) as [_|H]; [|lia].
      specialize (IH wf1 w01 (N.succ n) Hs1).
      destruct (raw_copies r wf1 (N.succ n)) as [[nf ef] wf']. destruct IH as (H1 & H2 & H3 & H4).
      split; [exact H1|]. split; [rewrite H2; lia|]. split; [exact H3|].
      destruct ef; [exact H4|]. destruct H4 as [H4 H5]. split; [exact H4|lia].
    + destruct ef as [e|]; [|congruence].
      destruct (N.leb_spec (wt_calls w01) i) as [H|_]; [destruct Hbr as (_ & L & _); lia|].
      split; [reflexivity|].
      assert (Hi01 : intact w01) by apply Hbr.
      pose proof (raw_fwd r w01 (N.succ n) Hi01) as Hfw.
      assert (Hfree : fst (fst (raw_copies r w01 (N.succ n))) = N.succ n + N.of_nat (length r) /\ snd (fst (raw_copies r w01 (N.succ n))) = None).
      { clear -Hi01. revert w01 n Hi01. induction r as [|k r IH]; intros w n Hi; cbn [raw_copies length].
        - cbn. split; [lia|reflexivity].
        - pose proof (copy_bytes_intact (repeat 0 (N.to_nat k)) w Hi) as H1.
          pose proof (copy_bytes_intact_none (repeat 0 (N.to_nat k)) w Hi) as C.
          destruct (copy_bytes (repeat 0 (N.to_nat k)) w) as [[e|] w1]; cbn [snd fst] in H1, C.
          + discriminate.
          + destruct (IH w1 (N.succ n) H1) as [A B]. split; [rewrite A; lia|exact B]. }
      destruct Hfree as [A B]. split; [rewrite A; lia|]. split; [exact B|].
      apply (broken_step i _ _ _ Hbr Hfw).
Qed.

(* ================================ the session ================================ *)
(* operations (handshake writes, then messages) completed before transport call number i, read
   off the run over the transport that never fails *)
Definition free_done (i : N) (hs : bool) (ms : list rmsg) (m : N) (term : option N) : N :=
  let w0 := wtr_new None m term in
  if hs then
    let w1 := snd (raw_copies [1; 1536; 1536] w0 0) in
    if wt_calls w1 <=? i then done_before i (msgs_write_ops DEFCHUNK ms) (bufw_new w1) 3
    else done_raw i [1; 1536; 1536] w0 0
  else done_before i (msgs_write_ops DEFCHUNK ms) (bufw_new w0) 0.

(* transport calls of the whole fault-free session *)
Definition free_calls (hs : bool) (ms : list rmsg) (m : N) (term : option N) : N :=
  wt_calls (snd (rtmp_write_session hs ms (wtr_new None m term))).

Lemma sim_new i m term : sim i (wtr_new (Some i) m term) (wtr_new None m term).
Proof. unfold sim, intact, wtr_new, wtr_new_s. cbn. repeat split; try reflexivity; lia. Qed.

Lemma hit_peer_received i wf w0 : hit_peer i wf w0 ->
  wt_received wf = received_at (wt_m wf) (wt_term wf) (rev (wt_peer w0)) i.
Proof.
  intros (pre & p & post & E1 & E2 & E3). rewrite received_rev, E3, E1. unfold received_at.
  replace (N.to_nat i) with (length pre) by lia.
  rewrite firstn_app_exact, app_nth2, Nat.sub_diag by lia. cbn [nth].
  rewrite concat_app. cbn [concat]. now rewrite app_nil_r.
Qed.

(* the session: n, error or not, and what the peer holds, all read off the fault-free run *)
Theorem rtmp_write_session_peer hs ms i m term :
  let '(n, oe, w) := rtmp_write_session hs ms (wtr_new (Some i) m term) in
  let w0 := snd (rtmp_write_session hs ms (wtr_new None m term)) in
  n = free_done i hs ms m term /\
  (oe = None <-> wt_calls w0 <= i) /\
  (oe <> None ->
   wt_received w = received_at (wt_m w) (wt_term w) (rev (wt_peer w0)) i /\ i < wt_calls w0).
Proof.
  unfold free_done, rtmp_write_session.
  pose proof (sim_new i m term) as Hs0.
  set (wf0 := wtr_new (Some i) m term) in *. set (w00 := wtr_new None m term) in *.
  assert (P2 : forall wf1 w01 n1, sim i wf1 w01 ->
     let '(n2, e2, b) := rtmp_write_ops (msgs_write_ops DEFCHUNK ms) (bufw_new wf1) n1 in
     let wz := bw_under (snd (rtmp_write_ops (msgs_write_ops DEFCHUNK ms) (bufw_new w01) n1)) in
     n2 = done_before i (msgs_write_ops DEFCHUNK ms) (bufw_new w01) n1 /\
     (e2 = None <-> wt_calls wz <= i) /\
     (e2 <> None -> broken i (bw_under b) wz)).
  { intros wf1 w01 n1 Hs.
    assert (Hsb : simb i (bufw_new wf1) (bufw_new w01)) by (split; [reflexivity|split; [reflexivity|split; [reflexivity|exact Hs]]]).
    assert (Hc : clean (bufw_new wf1)) by (split; [reflexivity|split; [reflexivity|split; apply Hs]]).
    pose proof (ops_sim i (msgs_write_ops DEFCHUNK ms) _ _ n1 Hsb Hc eq_refl) as O.
    destruct (rtmp_write_ops (msgs_write_ops DEFCHUNK ms) (bufw_new wf1) n1) as [[n2 e2] b]. destruct O as (On & Oe).
    cbn zeta. split; [exact On|]. destruct e2 as [e|].
    - split; [split; [discriminate|destruct Oe as (_ & L & _); lia]|intros _; exact Oe].
    - split; [|congruence]. split; [intros _|reflexivity]. destruct Oe as (_ & _ & _ & (_ & _ & E & L & _)). lia. }
  assert (Fin : forall (w wz : wtr), broken i w wz ->
     wt_received w = received_at (wt_m w) (wt_term w) (rev (wt_peer wz)) i /\ i < wt_calls wz).
  { intros w wz (_ & L & Hp & _). split; [now apply hit_peer_received|exact L]. }
  destruct hs.
  - pose proof (raw_sim i [1; 1536; 1536] wf0 w00 0 Hs0) as R.
    destruct (raw_copies [1; 1536; 1536] wf0 0) as [[n1 e1] wf1]. destruct R as (Rn & R0n & R0e & Re).
    destruct (raw_copies [1; 1536; 1536] w00 0) as [[n01 e01] w01] eqn:E0. cbn [fst snd] in *. subst e01.
    assert (Hi01 : intact w01).
    { pose proof (raw_fwd [1; 1536; 1536] w00 0 (sim_intact _ _ _ Hs0)) as [Hi _]. rewrite E0 in Hi. exact Hi. }
    destruct e1 as [e|].
    + destruct (N.leb_spec (wt_calls w01) i) as [H|_]; [destruct Re as (_ & L & _); lia|]. split; [exact Rn|].
      pose proof (ops_fwd (msgs_write_ops DEFCHUNK ms) (bufw_new w01) n01 Hi01) as F.
      destruct (rtmp_write_ops (msgs_write_ops DEFCHUNK ms) (bufw_new w01) n01) as [[n2 e2] b]. cbn [snd bufw_new bw_under] in *.
      pose proof (broken_step i _ _ _ Re F) as Hbr.
      split; [split; [discriminate|destruct Hbr as (_ & L & _); lia]|]. intros _. now apply Fin.
    + destruct Re as [Hs1 Hn1]. cbn [length] in Hn1, R0n.
      assert (Hle : wt_calls w01 <= i) by (destruct Hs1 as (_ & _ & E & L & _); lia).
      destruct (N.leb_spec (wt_calls w01) i) as [_|H]; [|lia].
      assert (E1 : n01 = n1) by lia. subst n01.
      specialize (P2 wf1 w01 n1 Hs1).
      destruct (rtmp_write_ops (msgs_write_ops DEFCHUNK ms) (bufw_new wf1) n1) as [[n2 e2] b].
      cbn zeta in P2. destruct P2 as (A & B & C).
      assert (E3 : n1 = 3) by (rewrite Hn1; reflexivity). rewrite E3 in A, B, C.
      destruct (rtmp_write_ops (msgs_write_ops DEFCHUNK ms) (bufw_new w01) 3) as [[n3 e3] b3] eqn:E4.
      change (0 + N.of_nat 3) with 3. rewrite E4. cbn [snd] in *. split; [exact A|]. split; [exact B|]. intros Hne. apply Fin, C, Hne.
  - specialize (P2 wf0 w00 0 Hs0).
    destruct (rtmp_write_ops (msgs_write_ops DEFCHUNK ms) (bufw_new wf0) 0) as [[n2 e2] b].
    cbn zeta in P2. destruct P2 as (A & B & C).
    destruct (rtmp_write_ops (msgs_write_ops DEFCHUNK ms) (bufw_new w00) 0) as [[n3 e3] b3]. cbn [snd] in *.
    split; [exact A|]. split; [exact B|]. intros Hne. apply Fin, C, Hne.
Qed.

Corollary rtmp_write_session_which hs ms i m term :
  let '(n, oe, w) := rtmp_write_session hs ms (wtr_new (Some i) m term) in
  n = free_done i hs ms m term /\
  (oe = None <-> free_calls hs ms m term <= i).
Proof.
  pose proof (rtmp_write_session_peer hs ms i m term) as H. unfold free_calls.
  destruct (rtmp_write_session hs ms (wtr_new (Some i) m term)) as [[n oe] w]. cbn zeta in H.
  destruct H as (A & B & _). auto.
Qed.
