(* C07, linear-time clause: step-counting cost functions.  DEFINITIONS ONLY (the bounds are proved
   in Proofs/TotalCost.v; this file is also what the cost-vs-CPU-time comparison extracts).

   Every cost function mirrors the control structure of the decoder model it belongs to (the
   Model files of the owning properties, imported read-only): the same case analysis on the same
   intermediate results, one step per loop iteration / method call plus one step per byte the
   code examines or copies in that iteration.  Where Go only re-slices (b[:n] is O(1)) the bytes
   are still counted: the costs are upper bounds on the work of the code and exact counts of the
   bytes the model walks. *)
From Coq Require Import String.
From Verif Require Import Lib.Base Lib.Sx Lib.Bitfield Lib.GoSem.
From Verif Require Model.Avc Model.Aac Model.Flv Model.Amf0 Model.JsonPlus Model.RtmpChunk.
Open Scope N_scope.

(* ================================================================== AVC *)
Module CAvc.
Import Verif.Model.Avc.

(* AVCSample.UnmarshalBinary: per NAL unit 1 (iteration) + sizeOfNALU (length bytes read one by
   one) + length (b[:length], handed to NALU.UnmarshalBinary which reads 1 byte and keeps the rest) *)
Fixpoint cost_sample_loop (fuel : nat) (size : N) (b : bytes) : N :=
  match b with
  | [] => 1
  | _ :: _ =>
      match fuel with
      | O => 0
      | S f =>
          if len_ltN b size then 1 else
          match splitN b size with
          | None => 1
          | Some (lb, b1) =>
              let length := read_len size lb 0 0 in
              if len_ltN b1 length then 1 + size else
              match splitN b1 length with
              | None => 1 + size
              | Some (nb, b2) =>
                  match nalu_unmarshal nb with
                  | Ok _ => 1 + size + length + cost_sample_loop f size b2
                  | _ => 1 + size + length
                  end
              end
          end
      end
  end.
Definition cost_sample (lsm1 : N) (data : bytes) : N :=
  cost_sample_loop (S (length data)) (u8 lsm1 + 1) data.

(* one parameter-set loop of AVCDecoderConfigurationRecord.UnmarshalBinary: per set
   1 + 2 (length) + l (the set) *)
Fixpoint cost_read_sets (cnt : nat) (b : bytes) : N :=
  match cnt with
  | O => 0
  | S c =>
      if negb (len_gt b 1) then 1 else
      match idx b 0 5, idx b 1 6, drop_chk 2 b 7 with
      | Ok b0, Ok b1, Ok b' =>
          let l := b0 * 256 + b1 in
          if len_ltN b' l then 3 else
          match splitN b' l with
          | None => 3
          | Some (nb, b'') =>
              match nalu_unmarshal nb with
              | Ok _ => 3 + l + cost_read_sets c b''
              | _ => 3 + l
              end
          end
      | _, _, _ => 1
      end
  end.

(* the whole record: 6 fixed bytes, the SPS loop, the PPS count byte, the PPS loop *)
Definition cost_record (data : bytes) : N :=
  if negb (len_gt data 5) then 1 else
  match idx data 4 14, drop_chk 5 data 15 with
  | Ok _, Ok b =>
      match idx b 0 16, drop_chk 1 b 17 with
      | Ok n0, Ok b1 =>
          let nsps := n0 mod 32 in
          6 + cost_read_sets (N.to_nat nsps) b1 +
          match read_sets (N.to_nat nsps) b1 [] 3 with
          | (_, Ok b2) =>
              if negb (len_gt b2 0) then 1 else
              match idx b2 0 18, drop_chk 1 b2 19 with
              | Ok npps, Ok b3 => 1 + cost_read_sets (N.to_nat npps) b3
              | _, _ => 1
              end
          | _ => 0
          end
      | _, _ => 6
      end
  | _, _ => 1
  end.
End CAvc.

(* ================================================================== AAC *)
Module CAac.
Import Verif.Model.Aac.

(* the loop a user of ADTS.Decode's `left` result runs: per frame 1 + at most 9 header bytes
   (7, or 9 with CRC) + the raw data block *)
Fixpoint cost_adts_stream (fuel : nat) (st : asc) (data : bytes) : N :=
  match data with
  | [] => 1
  | _ :: _ =>
      match fuel with
      | O => 0
      | S f =>
          match adts_decode st data with
          | (st', Ok (raw, rest)) => 10 + lenN raw + cost_adts_stream f st' rest
          | _ => 10
          end
      end
  end.
Definition cost_adts (data : bytes) : N := cost_adts_stream (S (length data)) asc0 data.
End CAac.

(* ================================================================== FLV *)
Module CFlv.
Import Verif.Model.Flv.

(* io.CopyN(h, r, n): one step per transport segment touched, one per byte copied, one for the call *)
Fixpoint cost_copy_n (n : N) (s : stream) : N :=
  if n =? 0 then 1 else
  match s with
  | [] => 1
  | Fault _ :: _ => 1
  | Data b :: s' =>
      let l := lenN b in
      if l <? n then 1 + l + cost_copy_n (n - l) s' else 1 + n
  end.

(* header, body, header, body ... : per tag 1 + the two CopyN calls *)
Fixpoint cost_read_tags (fuel : nat) (s : stream) : N :=
  match fuel with
  | O => 0
  | S f =>
      match read_tag_header s with
      | Ok ((ty, sz, ts), s1) =>
          1 + cost_copy_n 11 s +
          match read_tag sz s1 with
          | Ok (b, s2) => cost_copy_n (u32 (sz + 4)) s1 + cost_read_tags f s2
          | _ => cost_copy_n (u32 (sz + 4)) s1
          end
      | _ => 1 + cost_copy_n 11 s
      end
  end.

Definition cost_demux (fuel : nat) (s : stream) : N :=
  cost_copy_n 13 s +
  match read_header s with
  | Ok (_, s1) => cost_read_tags fuel s1
  | _ => 0
  end.

(* what a stream holds: all data bytes, and the number of segments *)
Fixpoint sbytes (s : stream) : N :=
  match s with [] => 0 | Data b :: s' => lenN b + sbytes s' | Fault _ :: s' => sbytes s' end.
Definition ssegs (s : stream) : N := N.of_nat (length s).
End CFlv.

(* ================================================================== AMF0 *)
Module CAmf0.
Import Verif.Model.Amf0.

(* one v.Size() call: containers walk their whole subtree, scalars answer at once *)
Fixpoint size_walk (v : amf) : N :=
  match v with
  | AObj ps | AEcma _ ps | AStrict ps =>
      1 + (fix go (ps : props) : N := match ps with [] => 0 | (_, x) :: t => 1 + size_walk x + go t end) ps
  | _ => 1
  end.

(* decoding the bytes of v: one step per byte of the value's own framing and scalars, one per
   property (readOne / pushOne), the child's decoding, and the child's Size() walk that
   `p = p[a.Size():]` performs after every decoded child *)
Fixpoint cost_tree (v : amf) : N :=
  match v with
  | AObj ps =>
      1 + 4 + (fix go (ps : props) : N :=
                 match ps with [] => 0 | (k, x) :: t => 1 + utf8_size k + cost_tree x + size_walk x + go t end) ps
  | AEcma _ ps =>
      1 + 8 + (fix go (ps : props) : N :=
                 match ps with [] => 0 | (k, x) :: t => 1 + utf8_size k + cost_tree x + size_walk x + go t end) ps
  | AStrict ps =>
      1 + 5 + (fix go (ps : props) : N :=
                 match ps with [] => 0 | (k, x) :: t => 1 + utf8_size k + cost_tree x + size_walk x + go t end) ps
  | _ => 1 + size v
  end.

Definition is_scalar (v : amf) : bool :=
  match v with AObj _ | AEcma _ _ | AStrict _ => false | _ => true end.
(* nesting depth <= 1: a scalar, or a container of scalars *)
Definition flat (v : amf) : bool :=
  match v with
  | AObj ps | AEcma _ ps | AStrict ps => forallb (fun kv => is_scalar (snd kv)) ps
  | _ => true
  end.

(* cost of decoding a byte string (0 when it is rejected: the bound below is about accepted input) *)
Definition cost_amf0 (bs : bytes) : N :=
  match decode_fast bs with Ok (v, _) => cost_tree v | _ => 0 end.
End CAmf0.

(* ================================================================== RTMP chunk reader *)
Module CRtmp.
Import Verif.Model.RtmpChunk.

Definition ibytes (i : inp) : N := lenN (concat i).

(* Protocol.ReadMessage: per chunk 1 (loop iteration, chunk-stream lookup) + 3 per byte taken from
   the transport (header bytes are read and parsed; a payload byte is allocated by make, filled by
   io.ReadFull and appended to the message -- append's reallocation is amortised constant per
   byte by Go's geometric growth and is counted in the 3).  A chunk that fails may already have
   allocated its payload buffer: make(min(remaining length, chunk size)), at most the chunk size.
   The chunk size is fixed during one ReadMessage call: it only changes when a message completes. *)
Fixpoint cost_read_message (fuel : nat) (s : rstate) (i : inp) : N :=
  match fuel with
  | O => 0
  | S f =>
      match read_chunk s i with
      | Ok (om, s1, i1) =>
          1 + 3 * (ibytes i - ibytes i1) +
          match om with Some _ => 0 | None => cost_read_message f s1 i1 end
      | _ => 1 + 3 * ibytes i + in_chunk s
      end
  end.

(* the session loop of the harness (ReadMessage until the first error): used for the cost-vs-CPU
   comparison only, no bound is claimed for it here (the chunk size may change between messages) *)
Fixpoint cost_read_all (fuel : nat) (s : rstate) (i : inp) : N :=
  match fuel with
  | O => 0
  | S f =>
      cost_read_message (S (length (concat i))) s i +
      match read_message (S (length (concat i))) s i with
      | Ok (_, s1, i1) => cost_read_all f s1 i1
      | _ => 0
      end
  end.
End CRtmp.

(* ================================================================== JSON+ *)
Module CJson.
Import Verif.Model.JsonPlus.

(* bytes.Index(d, pat): one step per position tried (each compares at most len(pat) <= 2 bytes) *)
Fixpoint cost_index (pat d : bytes) {struct d} : N :=
  if is_prefix pat d then 1
  else match d with [] => 1 | _ :: d' => 1 + cost_index pat d' end.
(* indexEnd with escapes: one step per position *)
Fixpoint cost_index_esc (e d : bytes) {struct d} : N :=
  match d with
  | [] => 1
  | c :: t =>
      if c =? backslash then match t with [] => 1 | _ :: t' => 1 + cost_index_esc e t' end
      else if is_prefix e d then 1
      else 1 + cost_index_esc e t
  end.
Definition cost_index_end (d e : bytes) (escape : bool) : N :=
  if escape then cost_index_esc e d else cost_index e d.

(* firstMatch (after fix 73a5c57): ONE walk over the window that stops at the first position where
   some start marker is a prefix; every position visited tests each marker (first byte, then
   HasPrefix): len(flags) steps per position, 1 for running off the end *)
Fixpoint cost_fm_at (d : bytes) (flags : list bytes) : N :=
  match d with
  | [] => 1
  | _ :: t =>
      N.of_nat (length flags) +
      match find_flag d flags O with
      | Some _ => 0
      | None => cost_fm_at t flags
      end
  end.

(* one call of the split function on the scanner's window [data] *)
Definition cost_split (data : bytes) (atEOF : bool) : N :=
  if atEOF && is_nil data then 1
  else
    1 + cost_fm_at data start_matches +
    match first_match data start_matches with
    | None => 0
    | Some (pos, i) =>
        match tbl start_matches i 1, tbl end_matches i 3, tbl is_comments i 4 with
        | Ok sm, Ok em, Ok isc =>
            match slice_from data (Z.of_N pos + lenZ sm)%Z 2 with
            | Ok lft => cost_index_end lft em (negb isc)
            | _ => 0
            end
        | _, _, _ => 0
        end
    end.

(* the whole document in one window (what the scanner holds once the document fits its buffer):
   one split call per token, each on what is left of the window *)
Fixpoint cost_strip_go (fuel : nat) (d : bytes) : N :=
  match fuel with
  | O => 0
  | S fuel' =>
      cost_split d true +
      match split d true with
      | Ok (Tok adv tok) =>
          if (adv <=? 0)%Z || (lenZ d <? adv)%Z then 0
          else cost_strip_go fuel' (skipn (Z.to_nat adv) d)
      | _ => 0
      end
  end.
Definition cost_strip (d : bytes) : N := cost_strip_go (S (S (length d))) d.
End CJson.

(* ================================================================== cost-vs-CPU-time comparison
   case (5 x<decoder> x<input>) -> (0 steps): the model cost of the harness's decoder entry on
   that input (supporting evidence only; see harness/C07 runFam) *)
Definition cost_table : list (list N * (bytes -> N)) :=
  map (fun nf => (string_bytes (fst nf), snd nf)) [
    ("avc.sample4", fun b => CAvc.cost_sample 3 b);
    ("avc.record", CAvc.cost_record);
    ("aac.adts", CAac.cost_adts);
    ("flv.demux", fun b => CFlv.cost_demux (S (length b)) [Verif.Model.Flv.Data b]);
    ("amf0.any", CAmf0.cost_amf0);
    ("rtmp.read", fun b => CRtmp.cost_read_all (S (length b)) Verif.Model.RtmpChunk.rs0 [b])
  ]%string.

Fixpoint find_cost (name : list N) (l : list (list N * (bytes -> N))) : option (bytes -> N) :=
  match l with
  | [] => None
  | (n, f) :: t => if bytes_eqb name n then Some f else find_cost name t
  end.

Definition cost_case (c : sx) : option sx :=
  match c with
  | SL [SZ 5%Z; SB name; SB b] =>
      Some (match find_cost name cost_table with Some f => s_ok [sN (f b)] | None => bad_case end)
  | _ => None
  end.
