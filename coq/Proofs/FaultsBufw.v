(* C08 write side, part 2: bufio.Writer + Flush (RTMP WriteMessage) over a failing transport. *)
From Verif Require Import Lib.Base Lib.Sx Lib.Err Lib.IO Model.Faults Proofs.FaultsIO Proofs.FaultsWrite.
Open Scope N_scope.

(* ---------- one transport Write, whatever the state of the transport ---------- *)
Lemma wt_write_cases p w : p <> [] -> wt_sticky w = true ->
  exists m oe w', wt_write p w = (m, oe, w') /\ (wt_err w' = wt_err w /\ wt_sticky w' = true) /\ m <= lenN p /\
    wt_received w' = wt_received w ++ firstn (N.to_nat m) p /\
    ((oe = None /\ m = lenN p /\ wt_failed w' = false)
     \/ (wt_failed w' = true /\ (oe = Some (wt_err w) \/ (oe = None /\ m < lenN p /\ wt_err w = id_ShortWrite)))).
Proof.
  intros Hp Hst. destruct (wt_failed w) eqn:Hf.
  - exists 0, (Some (wt_err w)), w. rewrite wt_write_failed by exact Hf. cbn [N.to_nat firstn].
    rewrite app_nil_r. split; [reflexivity|]. split; [auto|]. split; [lia|]. split; [reflexivity|]. auto.
  - destruct (wt_failat w) as [i|] eqn:Hfa.
    + destruct (N.eqb_spec i (wt_calls w)) as [->|Hne].
      * destruct (wt_write_hit p w Hf Hfa) as (w' & Hw & Hf' & Hr & Ht & Hs').
        exists (accepted (wt_m w) (wt_term w) p), (wt_term w), w'.
        split; [exact Hw|]. split; [split; [unfold wt_err; now rewrite Ht|congruence]|].
        split; [apply accepted_le|]. split; [exact Hr|]. right. split; [congruence|].
        unfold wt_err. destruct (wt_term w) as [e|]; [now left|]. right.
        split; [reflexivity|]. split; [now apply accepted_short|reflexivity].
      * destruct (wt_write_ok p w Hf) as (w' & Hw & Hf' & Hr & _ & _ & _ & Ht & Hs'); [rewrite Hfa; congruence|].
        exists (lenN p), None, w'. split; [exact Hw|]. split; [split; [unfold wt_err; now rewrite Ht|congruence]|].
        split; [lia|]. rewrite lenN_length, Nat2N.id, firstn_all. split; [exact Hr|]. left. auto.
    + destruct (wt_write_ok p w Hf) as (w' & Hw & Hf' & Hr & _ & _ & _ & Ht & Hs'); [rewrite Hfa; discriminate|].
      exists (lenN p), None, w'. split; [exact Hw|]. split; [split; [unfold wt_err; now rewrite Ht|congruence]|].
      split; [lia|]. rewrite lenN_length, Nat2N.id, firstn_all. split; [exact Hr|]. left. auto.
Qed.

(* ---------- the buffered writer: what was handed to it so far is either received or buffered --- *)
(* [base]: what the peer had when we started looking; [sent]: the bytes handed to Write since *)
Definition binv0 (base sent : bytes) (b : bufw) : Prop :=
  (wt_sticky (bw_under b) = true /\ exists pre, wt_received (bw_under b) = base ++ pre) /\
  match bw_err b with
  | None => wt_received (bw_under b) ++ bw_buf b = base ++ sent /\
            bw_n b = lenN (bw_buf b) /\ bw_n b <= bufio_size
  | Some e => e = wt_err (bw_under b) /\ wt_failed (bw_under b) = true /\
              exists rest, base ++ sent = wt_received (bw_under b) ++ rest
  end.
(* a broken transport under a writer that has not seen the error yet: something is still buffered,
   so the coming Flush will see it *)
Definition guard (b : bufw) : Prop :=
  wt_failed (bw_under b) = true -> bw_err b = None -> 0 < bw_n b.

Lemma bw_buf_cons p r n e u : bw_buf (mk_bufw (p :: r) n e u) = concat (rev r) ++ p.
Proof. unfold bw_buf. cbn [bw_rev]. rewrite frev_rev. cbn [rev]. rewrite concat_app. cbn. now rewrite app_nil_r. Qed.
Lemma bw_buf_rev b : bw_buf b = concat (rev (bw_rev b)).
Proof. unfold bw_buf. now rewrite frev_rev. Qed.

Lemma binv0_extend base sent x b e : bw_err b = Some e -> binv0 base sent b -> binv0 base (sent ++ x) b.
Proof.
  intros He [Hpre H]. split; [exact Hpre|]. rewrite He in *. destruct H as (H1 & H2 & rest & H3).
  split; [exact H1|]. split; [exact H2|]. exists (rest ++ x). now rewrite !app_assoc, H3.
Qed.

Lemma bw_flush_inv base sent b : binv0 base sent b -> guard b ->
  let '(oe, b') := bw_flush b in
  binv0 base sent b' /\ wt_err (bw_under b') = wt_err (bw_under b) /\
  match oe with
  | None => bw_err b' = None /\ bw_n b' = 0 /\ wt_failed (bw_under b') = false
  | Some e => bw_err b' = Some e
  end.
Proof.
  intros [Hpre H] Hg. unfold bw_flush. destruct (bw_err b) as [e|] eqn:He.
  - split; [split; [exact Hpre|now rewrite He]|]. auto.
  - destruct H as (Hs & Hn & Hsz). destruct (N.eqb_spec (bw_n b) 0) as [H0|H0].
    + split; [split; [exact Hpre|now rewrite He]|]. split; [reflexivity|]. split; [exact He|]. split; [exact H0|].
      destruct (wt_failed (bw_under b)) eqn:Hf; [|reflexivity]. specialize (Hg Hf He). lia.
    + assert (Hne : bw_buf b <> []) by (intros E; rewrite E in Hn; cbn in Hn; lia).
      destruct Hpre as (Hst & pre & Hpre).
      destruct (wt_write_cases (bw_buf b) (bw_under b) Hne Hst) as (m & oe & u' & -> & (Herr & Hst') & Hm & Hr & Hc).
      assert (Hpre' : wt_sticky u' = true /\ exists pre', wt_received u' = base ++ pre')
        by (split; [exact Hst'|]; exists (pre ++ firstn (N.to_nat m) (bw_buf b)); now rewrite Hr, Hpre, app_assoc).
      destruct Hc as [(-> & -> & Hf')|(Hf' & [->|(-> & Hlt & Hsw)])].
      * (* everything written *)
        destruct (N.ltb_spec (lenN (bw_buf b)) (bw_n b)) as [H|_]; [lia|].
        split; [|auto]. split; [exact Hpre'|]. cbn [bw_err bw_under bw_buf bw_rev bw_n].
        unfold bw_buf at 1. cbn [bw_rev frev rev_append concat]. rewrite app_nil_r.
        rewrite Hr, lenN_length, Nat2N.id, firstn_all. split; [exact Hs|]. cbn. split; [reflexivity|].
        unfold bufio_size. lia.
      * (* the transport reported its error *)
        rewrite split_at_spec. split; [|auto]. split; [exact Hpre'|]. cbn [bw_err bw_under].
        split; [now rewrite Herr|]. split; [exact Hf'|].
        exists (skipn (N.to_nat m) (bw_buf b)). now rewrite Hr, <- app_assoc, firstn_skipn.
      * (* short write without error: io.ErrShortWrite *)
        destruct (N.ltb_spec m (bw_n b)) as [_|H]; [|lia].
        rewrite split_at_spec. split; [|auto]. split; [exact Hpre'|]. cbn [bw_err bw_under].
        split; [now rewrite Herr, Hsw|]. split; [exact Hf'|].
        exists (skipn (N.to_nat m) (bw_buf b)). now rewrite Hr, <- app_assoc, firstn_skipn.
Qed.

(* ---------- Write ---------- *)
(* loop iterations bw_write_go still needs *)
Definition rank (b : bufw) (p : bytes) : nat :=
  match bw_err b with
  | Some _ => 1%nat
  | None => if bw_avail b <? lenN p then
              if bw_n b =? 0 then (if wt_failed (bw_under b) then 2%nat else 3%nat) else 4%nat
            else 1%nat
  end.

Lemma skipn_lenN (p : bytes) m : m <= lenN p -> lenN (skipn (N.to_nat m) p) = lenN p - m.
Proof. intros H. rewrite !lenN_length, skipn_length. lia. Qed.

Lemma bw_write_go_inv base : forall fuel p sent b,
  (rank b p <= fuel)%nat -> binv0 base sent b ->
  (wt_failed (bw_under b) = true -> bw_err b = None -> 0 < bw_n b \/ p <> []) ->
  let '(oe, b') := bw_write_go fuel p b in
  binv0 base (sent ++ p) b' /\ guard b' /\ wt_err (bw_under b') = wt_err (bw_under b) /\
  match oe with None => bw_err b' = None | Some e => bw_err b' = Some e end.
Proof.
  induction fuel as [|fuel IH]; intros p sent b Hrank Hinv Hg.
  { unfold rank in Hrank. destruct (bw_err b); [lia|].
    destruct (bw_avail b <? lenN p); [|lia]. destruct (bw_n b =? 0); [|lia].
    destruct (wt_failed (bw_under b)); lia. }
  cbn [bw_write_go]. unfold rank in Hrank. destruct (bw_err b) as [e|] eqn:He.
  - (* sticky error *)
    split; [exact (binv0_extend base sent p b e He Hinv)|]. split; [intros _ H; congruence|]. auto.
  - destruct Hinv as [Hpre Hinv]. rewrite He in Hinv. destruct Hinv as (Hs & Hn & Hsz).
    destruct (N.ltb_spec (bw_avail b) (lenN p)) as [Hbig|Hfit].
    + assert (Hp : p <> []) by (intros ->; cbn in Hbig; lia).
      destruct (N.eqb_spec (bw_n b) 0) as [Hn0|Hn0].
      * (* empty buffer, large write: straight to the transport *)
        assert (Hbuf : bw_buf b = []) by (apply lenN_zero; lia). rewrite Hbuf, app_nil_r in Hs.
        destruct (wt_write_cases p (bw_under b) Hp (proj1 Hpre)) as (m & oe & u' & Hw & (Herr & Hst') & Hm & Hr & Hc).
        rewrite Hw, split_at_spec.
        set (b1 := mk_bufw (bw_rev b) (bw_n b) oe u').
        assert (Hb1 : bw_buf b1 = []) by exact Hbuf.
        assert (Hpre1 : wt_sticky u' = true /\ exists pre', wt_received u' = base ++ pre')
          by (destruct Hpre as (_ & pre & Hpre); split; [exact Hst'|]; exists (pre ++ firstn (N.to_nat m) p); now rewrite Hr, Hpre, app_assoc).
        assert (Hinv1 : binv0 base (sent ++ firstn (N.to_nat m) p) b1).
        { split; [exact Hpre1|]. cbn [bw_err bw_under b1].
          destruct Hc as [(-> & -> & Hf')|(Hf' & [->|(-> & Hlt & Hsw)])].
          - rewrite Hb1, app_nil_r, Hr, Hs, app_assoc. change (bw_n b1) with (bw_n b). rewrite Hn0. split; [reflexivity|].
            split; [reflexivity|]. unfold bufio_size. lia.
          - split; [now rewrite Herr|]. split; [exact Hf'|]. exists []. now rewrite app_nil_r, Hr, Hs, app_assoc.
          - rewrite Hb1, app_nil_r, Hr, Hs, app_assoc. change (bw_n b1) with (bw_n b). rewrite Hn0. split; [reflexivity|].
            split; [reflexivity|]. unfold bufio_size. lia. }
        assert (Hrank1 : (rank b1 (skipn (N.to_nat m) p) <= fuel)%nat).
        { unfold rank. cbn [bw_err bw_under bw_n b1]. change (bw_avail b1) with (bw_avail b).
          destruct Hc as [(-> & -> & Hf')|(Hf' & [->|(-> & Hlt & Hsw)])].
          - replace (skipn (N.to_nat (lenN p)) p) with (@nil N) by (rewrite lenN_length, Nat2N.id, skipn_all; reflexivity).
            change (lenN []) with 0.
            destruct (N.ltb_spec (bw_avail b) 0) as [H|_]; [lia|].
            destruct (wt_failed (bw_under b)); lia.
          - destruct (wt_failed (bw_under b)); lia.
          - rewrite Hf'. destruct (wt_failed (bw_under b)) eqn:Hfb.
            + rewrite wt_write_failed in Hw by exact Hfb. discriminate.
            + rewrite (proj2 (N.eqb_eq _ _) Hn0).
              destruct (bw_avail b <? lenN (skipn (N.to_nat m) p)); lia. }
        specialize (IH (skipn (N.to_nat m) p) (sent ++ firstn (N.to_nat m) p) b1 Hrank1 Hinv1).
        destruct (bw_write_go fuel (skipn (N.to_nat m) p) b1) as [oe' b'].
        rewrite <- app_assoc, firstn_skipn in IH.
        destruct IH as (Hi' & Hg' & Herr' & Ho').
        { intros Hfb1 Hee. cbn [bw_under bw_err b1] in Hfb1, Hee.
          destruct Hc as [(-> & -> & Hf')|(Hf' & [->|(-> & Hlt & Hsw)])]; [congruence|discriminate|].
          right. intros E. apply (f_equal lenN) in E. rewrite skipn_lenN in E by exact Hm. change (lenN []) with 0 in E. lia. }
        split; [exact Hi'|]. split; [exact Hg'|]. split; [cbn [bw_under b1] in Herr'; congruence|exact Ho'].
      * (* fill the buffer and flush it *)
        rewrite split_at_spec. cbn beta iota zeta.
        set (a := firstn (N.to_nat (bw_avail b)) p). set (p' := skipn (N.to_nat (bw_avail b)) p).
        assert (Hav : bw_avail b = bufio_size - bw_n b) by reflexivity.
        assert (Hla : lenN a = bw_avail b) by (unfold a; rewrite lenN_length, firstn_length; rewrite lenN_length in Hbig; lia).
        set (b1 := mk_bufw (@cons bytes a (bw_rev b)) bufio_size None (bw_under b)).
        assert (Hb1 : bw_buf b1 = bw_buf b ++ a) by (unfold b1; rewrite bw_buf_cons, <- bw_buf_rev; reflexivity).
        assert (Hinv1 : binv0 base (sent ++ a) b1).
        { split; [exact Hpre|]. cbn [bw_err bw_under b1 bw_n]. rewrite Hb1, app_assoc, Hs, <- app_assoc.
          split; [reflexivity|]. rewrite lenN_app, Hla, <- Hn. split; [lia|lia]. }
        assert (Hg1 : guard b1) by (intros _ _; cbn; unfold bufio_size; lia).
        pose proof (bw_flush_inv base (sent ++ a) b1 Hinv1 Hg1) as Hfl.
        destruct (bw_flush b1) as [oe1 b2]. destruct Hfl as (Hinv2 & Herr2 & Ho2).
        assert (Hp' : p' <> []).
        { intros E. apply (f_equal lenN) in E. unfold p' in E. rewrite skipn_lenN in E by lia. change (lenN []) with 0 in E. lia. }
        assert (Hrank2 : (rank b2 p' <= fuel)%nat).
        { unfold rank. destruct oe1 as [e1|].
          - rewrite Ho2. lia.
          - destruct Ho2 as (-> & Hn2 & Hf2). rewrite Hf2, Hn2.
            destruct (bw_avail b2 <? lenN p'); cbn; lia. }
        specialize (IH p' (sent ++ a) b2 Hrank2 Hinv2 (fun _ _ => or_intror Hp')).
        destruct (bw_write_go fuel p' b2) as [oe' b'].
        unfold a, p' in IH. rewrite <- app_assoc, firstn_skipn in IH.
        destruct IH as (Hi' & Hg' & Herr' & Ho'). cbn beta iota.
        split; [exact Hi'|]. split; [exact Hg'|]. split; [cbn [bw_under b1] in Herr2; congruence|exact Ho'].
    + (* fits into the buffer *)
      split.
      { split; [exact Hpre|]. cbn [bw_err bw_under bw_n]. rewrite bw_buf_cons, <- bw_buf_rev, app_assoc, Hs, <- app_assoc.
        split; [reflexivity|]. rewrite lenN_app, <- Hn. split; [reflexivity|]. unfold bw_avail in Hfit. lia. }
      split; [|auto].
      intros Hf _. cbn [bw_under bw_n] in *. destruct (Hg Hf eq_refl) as [H|H]; [lia|].
      pose proof (lenN_pos p H). lia.
Qed.

Lemma rank_le_4 b p : (rank b p <= 6)%nat.
Proof.
  unfold rank. destruct (bw_err b); [lia|]. destruct (bw_avail b <? lenN p); [|lia].
  destruct (bw_n b =? 0); [|lia]. destruct (wt_failed (bw_under b)); lia.
Qed.

(* io.Copy(bufio.Writer, bytes.Reader) of one piece, on a writer that carries no error yet *)
Lemma bw_copy_bytes_inv base sent p b : binv0 base sent b -> guard b -> bw_err b = None ->
  let '(oe, b') := bw_copy_bytes p b in
  binv0 base (sent ++ p) b' /\ guard b' /\ wt_err (bw_under b') = wt_err (bw_under b) /\
  match oe with None => bw_err b' = None | Some e => bw_err b' = Some e end.
Proof.
  intros Hi Hg He. unfold bw_copy_bytes. destruct p as [|x p].
  - rewrite app_nil_r. auto.
  - unfold bw_write. apply (bw_write_go_inv base 6 (x :: p) sent b (rank_le_4 b _) Hi).
    intros _ _. right. discriminate.
Qed.

Lemma bw_copies_inv base pieces : forall sent b, binv0 base sent b -> guard b -> bw_err b = None ->
  let '(oe, b') := bw_copies pieces b in
  binv0 base (sent ++ concat pieces) b' /\ guard b' /\ wt_err (bw_under b') = wt_err (bw_under b) /\
  match oe with None => bw_err b' = None | Some e => bw_err b' = Some e end.
Proof.
  induction pieces as [|p ps IH]; intros sent b Hi Hg He; cbn [bw_copies concat].
  - rewrite app_nil_r. auto.
  - pose proof (bw_copy_bytes_inv base sent p b Hi Hg He) as Hc.
    destruct (bw_copy_bytes p b) as [[e|] b1]; destruct Hc as (Hi1 & Hg1 & Herr1 & Ho1).
    + split; [rewrite app_assoc; exact (binv0_extend base (sent ++ p) (concat ps) b1 e Ho1 Hi1)|]. auto.
    + specialize (IH (sent ++ p) b1 Hi1 Hg1 Ho1). destruct (bw_copies ps b1) as [oe b'].
      rewrite <- app_assoc in IH. destruct IH as (H1 & H2 & H3 & H4).
      split; [exact H1|]. split; [exact H2|]. split; [congruence|exact H4].
Qed.

(* a writer between two WriteMessage calls: nothing buffered, no error, transport healthy *)
Definition clean (b : bufw) : Prop :=
  bw_err b = None /\ bw_n b = 0 /\ wt_failed (bw_under b) = false /\ wt_sticky (bw_under b) = true.

Lemma clean_binv0 b : clean b -> bw_buf b = [] -> binv0 (wt_received (bw_under b)) [] b /\ guard b.
Proof.
  intros (He & Hn & Hf & Hst) Hb. split.
  - split; [split; [exact Hst|]; exists []; now rewrite app_nil_r|]. rewrite He, Hb, !app_nil_r, Hn. split; [reflexivity|].
    split; [reflexivity|]. unfold bufio_size. lia.
  - intros H. congruence.
Qed.

(* WriteMessage: all pieces, then Flush *)
Lemma rtmp_write_message_spec pieces b : clean b -> bw_buf b = [] ->
  let R := wt_received (bw_under b) in
  let '(oe, b') := rtmp_write_message pieces b in
  wt_err (bw_under b') = wt_err (bw_under b) /\
  match oe with
  | None => clean b' /\ bw_buf b' = [] /\ wt_received (bw_under b') = R ++ concat pieces
  | Some e => e = wt_err (bw_under b) /\ wt_failed (bw_under b') = true /\
              exists pre rest, wt_received (bw_under b') = R ++ pre /\
                               R ++ concat pieces = wt_received (bw_under b') ++ rest
  end.
Proof.
  intros Hc Hb R. destruct (clean_binv0 b Hc Hb) as [Hi Hg]. fold R in Hi.
  unfold rtmp_write_message.
  pose proof (bw_copies_inv R pieces [] b Hi Hg (proj1 Hc)) as Hcp. cbn [app] in Hcp.
  destruct (bw_copies pieces b) as [[e|] b1]; destruct Hcp as (Hi1 & Hg1 & Herr1 & Ho1).
  - split; [exact Herr1|]. destruct Hi1 as [Hpre H]. rewrite Ho1 in H. destruct H as (H1 & H2 & rest & H3).
    split; [congruence|]. split; [exact H2|]. destruct Hpre as (_ & pre & Hpre). exists pre, rest. auto.
  - pose proof (bw_flush_inv R (concat pieces) b1 Hi1 Hg1) as Hfl.
    destruct (bw_flush b1) as [[e|] b2]; destruct Hfl as (Hi2 & Herr2 & Ho2).
    + split; [congruence|]. destruct Hi2 as [Hpre H]. rewrite Ho2 in H. destruct H as (H1 & H2 & rest & H3).
      split; [congruence|]. split; [exact H2|]. destruct Hpre as (_ & pre & Hpre). exists pre, rest. auto.
    + split; [congruence|]. destruct Ho2 as (He2 & Hn2 & Hf2). destruct Hi2 as [Hpre H]. rewrite He2 in H.
      destruct H as (H1 & H2 & _).
      assert (Hb2 : bw_buf b2 = []) by (apply lenN_zero; lia).
      split; [split; [exact He2|split; [exact Hn2|split; [exact Hf2|apply Hpre]]]|]. split; [exact Hb2|].
      now rewrite Hb2, app_nil_r in H1.
Qed.

(* messages until the first error *)
Theorem rtmp_write_ops_spec ops : forall b n, clean b -> bw_buf b = [] ->
  let R := wt_received (bw_under b) in
  let '(n', oe, b') := rtmp_write_ops ops b n in
  match oe with
  | None => n' = n + N.of_nat (length ops) /\ wt_failed (bw_under b') = false /\
            wt_received (bw_under b') = R ++ concat (concat ops)
  | Some e => e = wt_err (bw_under b) /\ wt_failed (bw_under b') = true /\
              exists k, n' = n + N.of_nat k /\ (k < length ops)%nat /\
              exists pre rest,
                wt_received (bw_under b') = R ++ concat (concat (firstn k ops)) ++ pre /\
                R ++ concat (concat (firstn (Datatypes.S k) ops)) = wt_received (bw_under b') ++ rest
  end.
Proof.
  induction ops as [|o ops IH]; intros b n Hc Hb R; cbn [rtmp_write_ops].
  - cbn. rewrite app_nil_r, N.add_0_r. split; [reflexivity|]. split; [apply Hc|reflexivity].
  - pose proof (rtmp_write_message_spec o b Hc Hb) as Hm. cbn zeta in Hm. fold R in Hm.
    destruct (rtmp_write_message o b) as [[e|] b1]; destruct Hm as (Herr1 & Hm).
    + destruct Hm as (He & Hf & pre & rest & H1 & H2).
      split; [exact He|]. split; [exact Hf|]. exists 0%nat. rewrite N.add_0_r. split; [reflexivity|].
      split; [cbn; lia|]. exists pre, rest. cbn [firstn concat app]. rewrite app_nil_r. auto.
    + destruct Hm as (Hc1 & Hb1 & Hr1).
      specialize (IH b1 (N.succ n) Hc1 Hb1). cbn zeta in IH.
      destruct (rtmp_write_ops ops b1 (N.succ n)) as [[n' [e|]] b'].
      * destruct IH as (He & Hf & k & Hn & Hk & pre & rest & H1 & H2).
        split; [congruence|]. split; [exact Hf|]. exists (Datatypes.S k).
        split; [lia|]. split; [cbn; lia|]. exists pre, rest.
        cbn [firstn concat]. rewrite !concat_app, <- !app_assoc. rewrite Hr1, <- !app_assoc in H1, H2. auto.
      * destruct IH as (Hn & Hf & Hr). split; [cbn [length]; lia|]. split; [exact Hf|].
        cbn [concat]. rewrite concat_app, app_assoc, <- Hr1. exact Hr.
Qed.

(* ---------- the same shape for io.Copy sequences on the raw transport ---------- *)
Lemma copy_bytes_cases p w : wt_failed w = false -> wt_sticky w = true ->
  let '(oe, w') := copy_bytes p w in
  (wt_err w' = wt_err w /\ wt_sticky w' = true) /\
  match oe with
  | None => wt_failed w' = false /\ wt_received w' = wt_received w ++ p
  | Some e => e = wt_err w /\ wt_failed w' = true /\
              exists pre rest, wt_received w' = wt_received w ++ pre /\
                               wt_received w ++ p = wt_received w' ++ rest
  end.
Proof.
  intros Hf Hst. unfold copy_bytes. destruct p as [|x p].
  - rewrite app_nil_r. auto.
  - destruct (wt_write_cases (x :: p) w ltac:(congruence) Hst) as (m & oe & w' & -> & Herr & Hm & Hr & Hc).
    assert (Hsplit : wt_received w ++ x :: p = wt_received w' ++ skipn (N.to_nat m) (x :: p))
      by now rewrite Hr, <- app_assoc, firstn_skipn.
    destruct Hc as [(-> & -> & Hf')|(Hf' & [->|(-> & Hlt & Hsw)])].
    + rewrite N.eqb_refl. split; [exact Herr|]. split; [exact Hf'|].
      now rewrite Hr, lenN_length, Nat2N.id, firstn_all.
    + split; [exact Herr|]. split; [reflexivity|]. split; [exact Hf'|]. eauto.
    + destruct (N.eqb_spec m (lenN (x :: p))) as [E|_]; [lia|].
      split; [exact Herr|]. split; [now rewrite Hsw|]. split; [exact Hf'|]. eauto.
Qed.

Lemma copy_all_cases ps : forall w, wt_failed w = false -> wt_sticky w = true ->
  let '(oe, w') := copy_all ps w in
  (wt_err w' = wt_err w /\ wt_sticky w' = true) /\
  match oe with
  | None => wt_failed w' = false /\ wt_received w' = wt_received w ++ concat ps
  | Some e => e = wt_err w /\ wt_failed w' = true /\
              exists pre rest, wt_received w' = wt_received w ++ pre /\
                               wt_received w ++ concat ps = wt_received w' ++ rest
  end.
Proof.
  induction ps as [|p ps IH]; intros w Hf Hst; cbn [copy_all concat].
  - rewrite app_nil_r. auto.
  - pose proof (copy_bytes_cases p w Hf Hst) as Hc.
    destruct (copy_bytes p w) as [[e|] w1]; destruct Hc as (Herr1 & Hc).
    + destruct Hc as (He & Hf1 & pre & rest & H1 & H2). split; [exact Herr1|]. split; [exact He|].
      split; [exact Hf1|]. exists pre, (rest ++ concat ps). split; [exact H1|].
      now rewrite !app_assoc, H2.
    + destruct Hc as (Hf1 & Hr1). destruct Herr1 as (Herr1 & Hst1). specialize (IH w1 Hf1 Hst1).
      destruct (copy_all ps w1) as [[e|] w2]; destruct IH as ((Herr2 & Hst2) & IH).
      * destruct IH as (He & Hf2 & pre & rest & H1 & H2). split; [split; congruence|]. split; [congruence|].
        split; [exact Hf2|]. exists (p ++ pre), rest. rewrite Hr1, <- !app_assoc in H1, H2. auto.
      * destruct IH as (Hf2 & Hr2). split; [split; congruence|]. split; [exact Hf2|].
        now rewrite Hr2, Hr1, <- app_assoc.
Qed.

(* outcome of a session of operations, R being what the peer had before *)
Definition session_ok (R : bytes) (ops : list (list bytes)) (n0 n : N) (oe : option N) (err : N) (w : wtr) : Prop :=
  match oe with
  | None => n = n0 + N.of_nat (length ops) /\ wt_failed w = false /\
            wt_received w = R ++ concat (concat ops)
  | Some e => e = err /\ wt_failed w = true /\
              exists k, n = n0 + N.of_nat k /\ (k < length ops)%nat /\
              exists pre rest,
                wt_received w = R ++ concat (concat (firstn k ops)) ++ pre /\
                R ++ concat (concat (firstn (Datatypes.S k) ops)) = wt_received w ++ rest
  end.

Lemma run_wops_cases ops : forall w n, wt_failed w = false -> wt_sticky w = true ->
  let '(n', oe, w') := run_wops ops w n in
  (wt_err w' = wt_err w /\ wt_sticky w' = true) /\ session_ok (wt_received w) ops n n' oe (wt_err w) w'.
Proof.
  induction ops as [|o ops IH]; intros w n Hf Hst; cbn [run_wops].
  - unfold session_ok. cbn. rewrite app_nil_r, N.add_0_r. auto.
  - pose proof (copy_all_cases o w Hf Hst) as Hc.
    destruct (copy_all o w) as [[e|] w1]; destruct Hc as (Herr1 & Hc).
    + destruct Hc as (He & Hf1 & pre & rest & H1 & H2). split; [exact Herr1|].
      split; [exact He|]. split; [exact Hf1|]. exists 0%nat. rewrite N.add_0_r. split; [reflexivity|].
      split; [cbn; lia|]. exists pre, rest. cbn [firstn concat app]. rewrite app_nil_r. auto.
    + destruct Hc as (Hf1 & Hr1). destruct Herr1 as (Herr1 & Hst1). specialize (IH w1 (N.succ n) Hf1 Hst1).
      destruct (run_wops ops w1 (N.succ n)) as [[n' oe] w']. destruct IH as ((Herr2 & Hst2) & IH).
      split; [split; congruence|]. unfold session_ok in *. destruct oe as [e|].
      * destruct IH as (He & Hf2 & k & Hn & Hk & pre & rest & H1 & H2).
        split; [congruence|]. split; [exact Hf2|]. exists (Datatypes.S k).
        split; [lia|]. split; [cbn; lia|]. exists pre, rest.
        cbn [firstn concat]. rewrite !concat_app, <- !app_assoc. rewrite Hr1, <- !app_assoc in H1, H2. auto.
      * destruct IH as (Hn & Hf2 & Hr). split; [cbn [length]; lia|]. split; [exact Hf2|].
        cbn [concat]. rewrite concat_app, app_assoc, <- Hr1. exact Hr.
Qed.

Lemma rtmp_write_ops_cases ops b n : clean b -> bw_buf b = [] ->
  let '(n', oe, b') := rtmp_write_ops ops b n in
  session_ok (wt_received (bw_under b)) ops n n' oe (wt_err (bw_under b)) (bw_under b').
Proof.
  intros Hc Hb. pose proof (rtmp_write_ops_spec ops b n Hc Hb) as H. cbn zeta in H.
  destruct (rtmp_write_ops ops b n) as [[n' oe] b']. exact H.
Qed.

(* two phases in a row *)
Lemma session_ok_app R a b n0 n1 n oe err w1 w :
  session_ok R a n0 n1 None err w1 ->
  session_ok (wt_received w1) b n1 n oe err w ->
  session_ok R (a ++ b) n0 n oe err w.
Proof.
  intros (Hn1 & Hf1 & Hr1) H. unfold session_ok in *. destruct oe as [e|].
  - destruct H as (He & Hf & k & Hn & Hk & pre & rest & H1 & H2).
    split; [exact He|]. split; [exact Hf|]. exists (length a + k)%nat.
    split; [lia|]. split; [rewrite app_length; lia|]. exists pre, rest.
    replace (Datatypes.S (length a + k)) with (length a + Datatypes.S k)%nat by lia.
    rewrite !firstn_app_2, !concat_app, <- !app_assoc. rewrite Hr1, <- !app_assoc in H1, H2. auto.
  - destruct H as (Hn & Hf & Hr). split; [rewrite app_length; lia|]. split; [exact Hf|].
    now rewrite Hr, Hr1, !concat_app, <- app_assoc.
Qed.

Lemma session_ok_app_l R a b n0 n e err w :
  session_ok R a n0 n (Some e) err w -> session_ok R (a ++ b) n0 n (Some e) err w.
Proof.
  intros (He & Hf & k & Hn & Hk & pre & rest & H1 & H2).
  split; [exact He|]. split; [exact Hf|]. exists k. split; [exact Hn|]. split; [rewrite app_length; lia|].
  exists pre, rest. rewrite !firstn_app. replace (k - length a)%nat with 0%nat by lia.
  replace (Datatypes.S k - length a)%nat with 0%nat by lia. cbn [firstn]. rewrite !app_nil_r. auto.
Qed.

(* ================================ RTMP write session ================================ *)
Definition hs_wops : list (list bytes) := [[zeros 1]; [zeros 1536]; [zeros 1536]].
Definition rtmp_wops (hs : bool) (ms : list rmsg) : list (list bytes) :=
  (if hs then hs_wops else []) ++ msgs_write_ops DEFCHUNK ms.

Lemma raw_copies_wops sizes : forall w n,
  raw_copies sizes w n = run_wops (map (fun k => [zeros k]) sizes) w n.
Proof.
  induction sizes as [|k r IH]; intros w n; cbn [raw_copies map run_wops copy_all]; [reflexivity|].
  fold (zeros k). destruct (copy_bytes (zeros k) w) as [[e|] w1]; [reflexivity|]. apply IH.
Qed.

Theorem rtmp_write_session_spec hs ms fa m term :
  let w0 := wtr_new fa m term in
  let '(n, oe, w) := rtmp_write_session hs ms w0 in
  session_ok [] (rtmp_wops hs ms) 0 n oe (wt_err w0) w.
Proof.
  intros w0. unfold rtmp_write_session, rtmp_wops.
  assert (Hf0 : wt_failed w0 = false) by reflexivity.
  assert (P2 : forall w1 n1, wt_failed w1 = false -> (wt_err w1 = wt_err w0 /\ wt_sticky w1 = true) ->
    let '(n2, e2, b) := rtmp_write_ops (msgs_write_ops DEFCHUNK ms) (bufw_new w1) n1 in
    session_ok (wt_received w1) (msgs_write_ops DEFCHUNK ms) n1 n2 e2 (wt_err w0) (bw_under b)).
  { intros w1 n1 Hf1 (He1 & Hst1).
    pose proof (rtmp_write_ops_cases (msgs_write_ops DEFCHUNK ms) (bufw_new w1) n1) as H.
    cbn [bufw_new bw_under] in H. rewrite He1 in H. apply H; [split; [reflexivity|split; [reflexivity|split; [exact Hf1|exact Hst1]]]|reflexivity]. }
  destruct hs.
  - rewrite raw_copies_wops. change (map (fun k => [zeros k]) [1; 1536; 1536]) with hs_wops.
    pose proof (run_wops_cases hs_wops w0 0 Hf0 eq_refl) as H1.
    destruct (run_wops hs_wops w0 0) as [[n1 e1] w1]. destruct H1 as (Herr1 & H1).
    change (wt_received w0) with (@nil N) in H1.
    destruct e1 as [e|].
    + apply session_ok_app_l. exact H1.
    + specialize (P2 w1 n1 (proj1 (proj2 H1)) Herr1).
      destruct (rtmp_write_ops (msgs_write_ops DEFCHUNK ms) (bufw_new w1) n1) as [[n2 e2] b].
      exact (session_ok_app [] hs_wops _ 0 n1 n2 e2 (wt_err w0) w1 (bw_under b) H1 P2).
  - cbn [app]. specialize (P2 w0 0 Hf0 (conj eq_refl eq_refl)).
    destruct (rtmp_write_ops (msgs_write_ops DEFCHUNK ms) (bufw_new w0) 0) as [[n2 e2] b]. exact P2.
Qed.

(* ---------- no spurious failures: a transport without a fault stays intact, so nothing fails ---- *)
Definition intact (w : wtr) : Prop := wt_failat w = None /\ wt_failed w = false.

Lemma wt_write_intact p w : intact w ->
  exists w', wt_write p w = (lenN p, None, w') /\ intact w'.
Proof.
  intros [Ha Hf]. unfold wt_write. rewrite Hf, Ha. eexists. split; [reflexivity|]. split; reflexivity.
Qed.

Lemma copy_bytes_intact p w : intact w -> intact (snd (copy_bytes p w)).
Proof.
  intros H. unfold copy_bytes. destruct p as [|x p]; [exact H|].
  destruct (wt_write_intact (x :: p) w H) as (w' & -> & H'). rewrite N.eqb_refl. exact H'.
Qed.

Lemma raw_copies_intact sizes : forall w n, intact w -> intact (snd (raw_copies sizes w n)).
Proof.
  induction sizes as [|k r IH]; intros w n H; cbn [raw_copies]; [exact H|].
  pose proof (copy_bytes_intact (repeat 0 (N.to_nat k)) w H) as H1.
  destruct (copy_bytes (repeat 0 (N.to_nat k)) w) as [[e|] w1]; [exact H1|]. now apply IH.
Qed.

Lemma bw_flush_intact b : intact (bw_under b) -> intact (bw_under (snd (bw_flush b))).
Proof.
  intros H. unfold bw_flush. destruct (bw_err b); [exact H|]. destruct (bw_n b =? 0); [exact H|].
  destruct (wt_write_intact (bw_buf b) (bw_under b) H) as (w' & -> & H').
  destruct (lenN (bw_buf b) <? bw_n b); [rewrite split_at_spec|]; exact H'.
Qed.

Lemma bw_write_go_intact fuel : forall p b, intact (bw_under b) -> intact (bw_under (snd (bw_write_go fuel p b))).
Proof.
  induction fuel as [|f IH]; intros p b H; cbn [bw_write_go]; [exact H|].
  destruct (bw_err b); [exact H|]. destruct (bw_avail b <? lenN p); [|exact H].
  destruct (bw_n b =? 0).
  - destruct (wt_write_intact p (bw_under b) H) as (w' & -> & H'). rewrite split_at_spec. apply IH. exact H'.
  - rewrite split_at_spec.
    set (b1 := mk_bufw _ _ _ _). pose proof (bw_flush_intact b1 H) as H1.
    destruct (bw_flush b1) as [o b2]. apply IH. exact H1.
Qed.

Lemma bw_copies_intact ps : forall b, intact (bw_under b) -> intact (bw_under (snd (bw_copies ps b))).
Proof.
  induction ps as [|p ps IH]; intros b H; cbn [bw_copies]; [exact H|].
  assert (H1 : intact (bw_under (snd (bw_copy_bytes p b)))).
  { unfold bw_copy_bytes. destruct p; [exact H|]. apply bw_write_go_intact. exact H. }
  destruct (bw_copy_bytes p b) as [[e|] b1]; [exact H1|]. now apply IH.
Qed.

Lemma rtmp_write_ops_intact ops : forall b n, intact (bw_under b) ->
  intact (bw_under (snd (rtmp_write_ops ops b n))).
Proof.
  induction ops as [|o ops IH]; intros b n H; cbn [rtmp_write_ops]; [exact H|].
  assert (H1 : intact (bw_under (snd (rtmp_write_message o b)))).
  { unfold rtmp_write_message. pose proof (bw_copies_intact o b H) as Hc.
    destruct (bw_copies o b) as [[e|] b1]; [exact Hc|]. apply bw_flush_intact. exact Hc. }
  destruct (rtmp_write_message o b) as [[e|] b1]; [exact H1|]. now apply IH.
Qed.

Theorem rtmp_write_session_no_fault hs ms m term :
  let '(n, oe, w) := rtmp_write_session hs ms (wtr_new None m term) in
  oe = None /\ n = N.of_nat (length (rtmp_wops hs ms)) /\
  wt_received w = concat (concat (rtmp_wops hs ms)).
Proof.
  pose proof (rtmp_write_session_spec hs ms None m term) as S. cbn zeta in S.
  assert (Hi : intact (snd (rtmp_write_session hs ms (wtr_new None m term)))).
  { unfold rtmp_write_session.
    assert (H0 : intact (wtr_new None m term)) by (split; reflexivity).
    destruct hs.
    - pose proof (raw_copies_intact [1; 1536; 1536] (wtr_new None m term) 0 H0) as H1.
      destruct (raw_copies [1; 1536; 1536] (wtr_new None m term) 0) as [[n1 [e|]] w1]; [exact H1|].
      pose proof (rtmp_write_ops_intact (msgs_write_ops DEFCHUNK ms) (bufw_new w1) n1 H1) as H2.
      destruct (rtmp_write_ops (msgs_write_ops DEFCHUNK ms) (bufw_new w1) n1) as [[n2 e2] b]. exact H2.
    - pose proof (rtmp_write_ops_intact (msgs_write_ops DEFCHUNK ms) (bufw_new (wtr_new None m term)) 0 H0) as H2.
      destruct (rtmp_write_ops (msgs_write_ops DEFCHUNK ms) (bufw_new (wtr_new None m term)) 0) as [[n2 e2] b]. exact H2. }
  destruct (rtmp_write_session hs ms (wtr_new None m term)) as [[n oe] w]. cbn [snd] in Hi.
  unfold session_ok in S. destruct oe as [e|].
  - destruct S as (_ & Hf & _). destruct Hi as [_ Hf']. congruence.
  - destruct S as (Hn & _ & Hr). cbn [app] in Hr. rewrite N.add_0_l in Hn. auto.
Qed.
