(* Proofs for C12 (avc/avc.go): Model/Avc.v against the independent ISO writers. *)
From Verif Require Import Lib.Base Lib.Sx Lib.Bitfield Lib.GoSem Model.Avc Proofs.AacBits Gen.Gen_avc.
Open Scope N_scope.
Ltac Zify.zify_post_hook ::= Z.div_mod_to_equations.

(* ---- NAL unit ---- *)
Definition nalu_ok (n : nalu) : Prop := nref n < 4 /\ ntype n < 32.

Definition hdr_byte (r t : N) : N := N.lor (u8 (u8 r * 32)) (u8 t).

Lemma nalu_marshal_eq n : nalu_marshal n = hdr_byte (nref n) (ntype n) :: ndata n.
Proof. reflexivity. Qed.

Lemma hdr_byte_sweep :
  forallb (fun r => forallb (fun t => hdr_byte r t =? r * 32 + t) (n_range 0 32)) (n_range 0 4) = true.
Proof. vm_compute. reflexivity. Qed.

Lemma hdr_byte_ok r t : r < 4 -> t < 32 -> hdr_byte r t = r * 32 + t.
Proof.
  intros Hr Ht. pose proof (sweep_range _ 0 4 hdr_byte_sweep r ltac:(lia) ltac:(lia)) as A. cbv beta in A.
  pose proof (sweep_range _ 0 32 A t ltac:(lia) ltac:(lia)) as B. cbv beta in B.
  apply N.eqb_eq. exact B.
Qed.

(* all 256 header bytes: re-encoding clears exactly the forbidden_zero_bit *)
Lemma reenc_sweep :
  forallb (fun b => hdr_byte ((b / 32) mod 4) (b mod 32) =? b mod 128) (n_range 0 256) = true.
Proof. vm_compute. reflexivity. Qed.

Lemma reenc_byte b : b < 256 -> hdr_byte ((b / 32) mod 4) (b mod 32) = b mod 128.
Proof. intros H. apply N.eqb_eq. exact (sweep256 _ reenc_sweep b H). Qed.

Lemma nalu_unmarshal_cons b d : nalu_unmarshal (b :: d) = Ok (mk_nalu ((b / 32) mod 4) (b mod 32) d).
Proof. reflexivity. Qed.

Lemma nalu_unmarshal_nil : nalu_unmarshal [] = Err 1.
Proof. reflexivity. Qed.

Lemma nalu_unmarshal_split nb : nb <> [] -> nalu_unmarshal nb = Ok (split_nalu nb).
Proof. destruct nb as [|x t]; [congruence|]. intros _. reflexivity. Qed.

Lemma nalu_rt n : nalu_ok n -> nalu_unmarshal (nalu_marshal n) = Ok n.
Proof.
  intros [Hr Ht]. rewrite nalu_marshal_eq, nalu_unmarshal_cons, hdr_byte_ok by assumption.
  destruct n as [r t d]. cbn [nref ntype ndata] in *.
  replace (((r * 32 + t) / 32) mod 4) with r by lia. replace ((r * 32 + t) mod 32) with t by lia. reflexivity.
Qed.

Lemma nalu_total data s : nalu_unmarshal data <> Panic s.
Proof. destruct data; discriminate. Qed.

Lemma spec_nalu_is_marshal n : nalu_ok n -> spec_nalu_bytes n = nalu_marshal n.
Proof.
  intros [Hr Ht]. rewrite nalu_marshal_eq, hdr_byte_ok by assumption.
  unfold spec_nalu_bytes, pack_fields.
  match goal with |- be_bytes (N.to_nat (fields_width ?l / 8)) _ ++ _ = _ =>
    change (N.to_nat (fields_width l / 8)) with 1%nat end.
  unfold fields_val. cbn [fold_left fst snd].
  change (2 ^ 1) with 2; change (2 ^ 2) with 4; change (2 ^ 5) with 32.
  rewrite (N.mod_small (nref n)), (N.mod_small (ntype n)) by lia.
  rewrite be_bytes_1 by lia. cbn [app]. f_equal; try lia.
Qed.

Lemma split_marshal n : nalu_ok n -> split_nalu (nalu_marshal n) = n.
Proof.
  intros H. pose proof (nalu_rt n H) as R. rewrite nalu_marshal_eq in *. rewrite nalu_unmarshal_cons in R.
  cbn [split_nalu]. congruence.
Qed.

Lemma split_ok nb : nalu_ok (split_nalu nb).
Proof. destruct nb as [|x t]; unfold nalu_ok; cbn [split_nalu nref ntype]; lia. Qed.

Lemma marshal_split x t : x < 128 -> nalu_marshal (split_nalu (x :: t)) = x :: t.
Proof.
  intros H. rewrite nalu_marshal_eq. cbn [split_nalu nref ntype ndata]. rewrite reenc_byte by lia.
  f_equal. apply N.mod_small. exact H.
Qed.

(* ---- sample: the length prefix ---- *)
Definition size_ok (k : N) : Prop := k = 1 \/ k = 2 \/ k = 3 \/ k = 4.

Lemma len_prefix_be k L : size_ok k -> len_prefix k L 0 (N.to_nat k) = be_bytes (N.to_nat k) L.
Proof.
  intros [->|[->|[->| ->]]]; cbv [N.to_nat Pos.to_nat Pos.iter_op Nat.add len_prefix be_bytes];
  unfold sh_amt, shr64, u8; cbn [N.add N.sub N.mul N.modulo N.leb N.compare Pos.compare Pos.compare_cont N.of_nat Pos.of_succ_nat Pos.succ];
  repeat f_equal.
Qed.

Lemma shl64_small b a : a < 64 -> b * 2 ^ a < 18446744073709551616 -> shl64 b a = b * 2 ^ a.
Proof.
  intros Ha Hb. unfold shl64, u64. destruct (N.leb_spec 64 a); [lia|]. apply N.mod_small. exact Hb.
Qed.

Lemma read_len_be k L : size_ok k -> L < 256 ^ k -> read_len k (be_bytes (N.to_nat k) L) 0 0 = L.
Proof.
  intros [->|[->|[->| ->]]] HL; cbv [N.to_nat Pos.to_nat Pos.iter_op Nat.add be_bytes read_len].
  - change (sh_amt 1 0) with 0.
    change (256 ^ N.of_nat 0) with 1. rewrite N.div_1_r. rewrite shl64_small by (change (2 ^ 0) with 1; lia).
    change (2 ^ 0) with 1. rewrite N.mul_1_r, N.lor_0_l. apply N.mod_small. exact HL.
  - change (sh_amt 2 0) with 8. change (sh_amt 2 (0 + 1)) with 0.
    change (256 ^ N.of_nat 1) with 256 in *. change (256 ^ N.of_nat 0) with 1. change (256 ^ 2) with 65536 in HL. rewrite N.div_1_r.
    rewrite !shl64_small by (try lia; change (2 ^ 8) with 256; change (2 ^ 0) with 1; lia).
    change (2 ^ 8) with 256; change (2 ^ 0) with 1. rewrite N.lor_0_l, N.mul_1_r.
    rewrite (lor_disjoint_add _ _ 8) by (change (2 ^ 8) with 256; lia). lia.
  - change (sh_amt 3 0) with 16. change (sh_amt 3 (0 + 1)) with 8. change (sh_amt 3 (0 + 1 + 1)) with 0.
    change (256 ^ N.of_nat 2) with 65536. change (256 ^ N.of_nat 1) with 256. change (256 ^ N.of_nat 0) with 1. change (256 ^ 3) with 16777216 in HL.
    rewrite N.div_1_r.
    rewrite !shl64_small by (try lia; change (2 ^ 16) with 65536; change (2 ^ 8) with 256; change (2 ^ 0) with 1; lia).
    change (2 ^ 16) with 65536; change (2 ^ 8) with 256; change (2 ^ 0) with 1. rewrite N.lor_0_l, N.mul_1_r.
    rewrite (lor_disjoint_add ((L / 65536) mod 256 * 65536) _ 16) by (change (2 ^ 16) with 65536; lia).
    rewrite (lor_disjoint_add _ _ 8) by (change (2 ^ 8) with 256; lia). lia.
  - change (sh_amt 4 0) with 24. change (sh_amt 4 (0 + 1)) with 16. change (sh_amt 4 (0 + 1 + 1)) with 8. change (sh_amt 4 (0 + 1 + 1 + 1)) with 0.
    change (256 ^ N.of_nat 3) with 16777216. change (256 ^ N.of_nat 2) with 65536. change (256 ^ N.of_nat 1) with 256. change (256 ^ N.of_nat 0) with 1.
    change (256 ^ 4) with 4294967296 in HL. rewrite N.div_1_r.
    rewrite !shl64_small by (try lia; change (2 ^ 24) with 16777216; change (2 ^ 16) with 65536; change (2 ^ 8) with 256; change (2 ^ 0) with 1; lia).
    change (2 ^ 24) with 16777216; change (2 ^ 16) with 65536; change (2 ^ 8) with 256; change (2 ^ 0) with 1.
    rewrite N.lor_0_l, N.mul_1_r.
    rewrite (lor_disjoint_add ((L / 16777216) mod 256 * 16777216) _ 24) by (change (2 ^ 24) with 16777216; lia).
    rewrite (lor_disjoint_add ((L / 16777216) mod 256 * 16777216 + (L / 65536) mod 256 * 65536) _ 16) by (change (2 ^ 16) with 65536; lia).
    rewrite (lor_disjoint_add _ _ 8) by (change (2 ^ 8) with 256; lia). lia.
Qed.

Lemma size_ok_of_lsm1 l : l < 4 -> size_ok (l + 1).
Proof. intros H. unfold size_ok. lia. Qed.

Lemma size_ok_nat k : size_ok k -> exists m, N.to_nat k = S m.
Proof. intros [->|[->|[->| ->]]]; eexists; reflexivity. Qed.

Lemma sample_step f k L nb rest acc :
  size_ok k -> L < 256 ^ k -> lenN nb = L ->
  sample_loop (S f) k (be_bytes (N.to_nat k) L ++ nb ++ rest) acc =
  match nalu_unmarshal nb with
  | Ok n => sample_loop f k rest (n :: acc)
  | Err e => (rev acc, Err e)
  | Panic s => (rev acc, Panic s)
  end.
Proof.
  intros Hk HL Hnb.
  assert (Lp : lenN (be_bytes (N.to_nat k) L) = k) by (rewrite lenN_length, be_bytes_length; lia).
  pose proof (read_len_be k L Hk HL) as R.
  destruct (size_ok_nat k Hk) as [m Em].
  destruct (be_bytes (N.to_nat k) L) as [|x pre] eqn:Epre.
  { pose proof (be_bytes_length (N.to_nat k) L) as B. rewrite Epre, Em in B. discriminate. }
  cbn [app sample_loop].
  change (x :: pre ++ nb ++ rest) with ((x :: pre) ++ (nb ++ rest)).
  rewrite len_ltN_spec, lenN_app, Lp.
  replace (k + lenN (nb ++ rest) <? k) with false by (symmetry; apply N.ltb_ge; lia).
  rewrite splitN_app by exact Lp. rewrite R.
  rewrite len_ltN_spec, lenN_app, Hnb.
  replace (L + lenN rest <? L) with false by (symmetry; apply N.ltb_ge; lia).
  rewrite splitN_app by exact Hnb. reflexivity.
Qed.

Lemma pack_len k L : size_ok k -> L < 256 ^ k -> pack_fields [ (L, 8 * k) ] = be_bytes (N.to_nat k) L.
Proof.
  intros [->|[->|[->| ->]]] HL; unfold pack_fields, fields_width, fields_val; cbn [fold_left fst snd].
  - change (N.to_nat ((0 + 8 * 1) / 8)) with 1%nat. change (2 ^ (8 * 1)) with (256 ^ 1). rewrite N.mod_small by exact HL. reflexivity.
  - change (N.to_nat ((0 + 8 * 2) / 8)) with 2%nat. change (2 ^ (8 * 2)) with (256 ^ 2). rewrite N.mod_small by exact HL. reflexivity.
  - change (N.to_nat ((0 + 8 * 3) / 8)) with 3%nat. change (2 ^ (8 * 3)) with (256 ^ 3). rewrite N.mod_small by exact HL. reflexivity.
  - change (N.to_nat ((0 + 8 * 4) / 8)) with 4%nat. change (2 ^ (8 * 4)) with (256 ^ 4). rewrite N.mod_small by exact HL. reflexivity.
Qed.

Definition unit_ok (k : N) (nb : bytes) : Prop := nb <> [] /\ lenN nb < 256 ^ k.

Lemma spec_sample_cons l nb nbs :
  spec_sample l (nb :: nbs) = pack_fields [ (lenN nb, 8 * (l + 1)) ] ++ nb ++ spec_sample l nbs.
Proof. unfold spec_sample. cbn [flat_map]. rewrite <- app_assoc. reflexivity. Qed.

Lemma sample_read_spec l nbs : l < 4 -> Forall (unit_ok (l + 1)) nbs -> forall fuel acc,
  (length (spec_sample l nbs) < fuel)%nat ->
  sample_loop fuel (l + 1) (spec_sample l nbs) acc = (rev acc ++ map split_nalu nbs, Ok tt).
Proof.
  intros Hl. induction 1 as [|nb nbs [Hne Hlen] Hrest IH]; intros fuel acc Hfuel.
  - destruct fuel; cbn [spec_sample flat_map sample_loop map]; rewrite app_nil_r; reflexivity.
  - rewrite spec_sample_cons in *. rewrite pack_len in * by (try apply size_ok_of_lsm1; assumption).
    destruct fuel as [|fuel]; [lia|].
    rewrite sample_step by (try apply size_ok_of_lsm1; try assumption; reflexivity).
    rewrite nalu_unmarshal_split by exact Hne.
    rewrite !app_length, be_bytes_length in Hfuel.
    rewrite IH by lia. cbn [rev map]. rewrite <- app_assoc. reflexivity.
Qed.

Definition nalu_fits (k : N) (n : nalu) : Prop := nalu_ok n /\ 1 + lenN (ndata n) < 256 ^ k.

Lemma nalu_fits_unit k n : nalu_fits k n -> unit_ok k (nalu_marshal n).
Proof.
  intros [Hok Hl]. rewrite nalu_marshal_eq. split; [discriminate|]. rewrite lenN_cons. exact Hl.
Qed.

Lemma sample_marshal_spec l ns : l < 4 -> Forall (nalu_fits (l + 1)) ns ->
  sample_marshal l ns = spec_sample l (map spec_nalu_bytes ns).
Proof.
  intros Hl. induction 1 as [|n ns Hn Hrest IH].
  - reflexivity.
  - cbn [map]. rewrite spec_sample_cons, <- IH. unfold sample_marshal. cbn [flat_map].
    replace (u8 l) with l by (unfold u8; lia).
    pose proof (nalu_fits_unit _ _ Hn) as [_ Hu].
    destruct Hn as [Hok Hlen]. rewrite (spec_nalu_is_marshal n Hok).
    rewrite pack_len by (try apply size_ok_of_lsm1; assumption).
    rewrite len_prefix_be by (apply size_ok_of_lsm1; exact Hl).
    replace (u64 (lenN (nalu_marshal n))) with (lenN (nalu_marshal n)).
    2:{ unfold u64. symmetry. apply N.mod_small.
        assert (256 ^ (l + 1) <= 256 ^ 4) by (apply N.pow_le_mono_r; lia). change (256 ^ 4) with 4294967296 in *. lia. }
    rewrite <- app_assoc. reflexivity.
Qed.

Lemma map_split_spec ns : Forall nalu_ok ns -> map split_nalu (map spec_nalu_bytes ns) = ns.
Proof.
  induction 1 as [|n ns Hn Hrest IH]; [reflexivity|].
  cbn [map]. rewrite IH, (spec_nalu_is_marshal n Hn), (split_marshal n Hn). reflexivity.
Qed.

Lemma sample_rt l ns have : l < 4 -> Forall (nalu_fits (l + 1)) ns ->
  sample_unmarshal l have (sample_marshal l ns) = (have ++ ns, Ok tt).
Proof.
  intros Hl Hns. rewrite (sample_marshal_spec l ns Hl Hns). unfold sample_unmarshal.
  replace (u8 l) with l by (unfold u8; lia).
  rewrite sample_read_spec; try assumption; try lia.
  - rewrite rev_involutive, map_split_spec; [reflexivity|].
    eapply Forall_impl; [|exact Hns]. intros n [H _]. exact H.
  - rewrite Forall_map. eapply Forall_impl; [|exact Hns]. intros n Hn.
    destruct Hn as [Hok Hlen]. rewrite (spec_nalu_is_marshal n Hok). apply nalu_fits_unit. split; assumption.
Qed.

(* totality and progress of the sample reader: any length size 1..256, any bytes *)
Lemma sample_loop_total fuel : forall k b acc s, snd (sample_loop fuel k b acc) <> Panic s.
Proof.
  induction fuel as [|fuel IH]; intros k b acc s; destruct b as [|x t]; cbn [sample_loop snd]; try discriminate.
  destruct (len_ltN (x :: t) k) eqn:L1; cbn [snd]; [discriminate|].
  pose proof (splitN_total _ _ L1) as S1.
  destruct (splitN (x :: t) k) as [[lb b1]|]; [|congruence].
  destruct (len_ltN b1 _) eqn:L2; cbn [snd]; [discriminate|].
  pose proof (splitN_total _ _ L2) as S2.
  destruct (splitN b1 _) as [[nb b2]|]; [|congruence].
  pose proof (nalu_total nb) as T.
  destruct (nalu_unmarshal nb) as [n|e|s']; cbn [snd]; [apply IH|discriminate|exfalso; exact (T s' eq_refl)].
Qed.

Lemma sample_loop_fuel fuel : forall k b acc, 1 <= k -> (length b < fuel)%nat -> snd (sample_loop fuel k b acc) <> Err 100.
Proof.
  induction fuel as [|fuel IH]; intros k b acc Hk Hf; [lia|].
  destruct b as [|x t]; cbn [sample_loop snd]; [discriminate|].
  destruct (len_ltN (x :: t) k) eqn:L1; cbn [snd]; [discriminate|].
  destruct (splitN (x :: t) k) as [[lb b1]|] eqn:S1; cbn [snd]; [|discriminate].
  destruct (len_ltN b1 _) eqn:L2; cbn [snd]; [discriminate|].
  destruct (splitN b1 _) as [[nb b2]|] eqn:S2; cbn [snd]; [|discriminate].
  destruct (nalu_unmarshal nb) as [n|e|s'] eqn:U; cbn [snd]; [|destruct nb; [inversion U; discriminate|discriminate]|discriminate].
  apply IH; [exact Hk|].
  pose proof (splitN_length _ _ _ _ S1) as E1. pose proof (splitN_length _ _ _ _ S2) as E2.
  destruct (splitN_some _ _ _ _ S1) as [_ Hlb]. rewrite lenN_length in Hlb.
  cbn [length] in *. lia.
Qed.

(* ---- configuration record ---- *)
Definition set_ok (nb : bytes) : Prop := nb <> [] /\ lenN nb <= 65535.

Lemma spec_sets_cons nb nbs : spec_sets (nb :: nbs) = be_bytes 2 (lenN nb) ++ nb ++ spec_sets nbs.
Proof.
  unfold spec_sets. cbn [flat_map]. rewrite <- app_assoc. f_equal.
  unfold pack_fields, fields_width, fields_val. cbn [fold_left fst snd].
  change (N.to_nat ((0 + 16) / 8)) with 2%nat. change (0 * 2 ^ 16) with 0. rewrite N.add_0_l.
  change (2 ^ 16) with (256 ^ N.of_nat 2). apply be_bytes_mod.
Qed.

Lemma read_sets_spec nbs : Forall set_ok nbs -> forall rest acc e,
  read_sets (length nbs) (spec_sets nbs ++ rest) acc e = (rev acc ++ map split_nalu nbs, Ok rest).
Proof.
  induction 1 as [|nb nbs [Hne Hlen] Hrest IH]; intros rest acc e.
  - cbn [length read_sets spec_sets flat_map app map]. rewrite app_nil_r. reflexivity.
  - rewrite spec_sets_cons, be_bytes_2. cbn [length read_sets app len_gt negb idx nth_error drop_chk take].
    replace ((lenN nb / 256) mod 256 * 256 + lenN nb mod 256) with (lenN nb) by lia.
    rewrite <- app_assoc.
    rewrite len_ltN_spec, lenN_app.
    replace (lenN nb + lenN (spec_sets nbs ++ rest) <? lenN nb) with false by (symmetry; apply N.ltb_ge; lia).
    rewrite splitN_app by reflexivity.
    rewrite nalu_unmarshal_split by exact Hne.
    rewrite IH. cbn [rev map]. rewrite <- app_assoc. reflexivity.
Qed.

Lemma be6_digits b0 b1 b2 b3 b4 b5 :
  b0 < 256 -> b1 < 256 -> b2 < 256 -> b3 < 256 -> b4 < 256 -> b5 < 256 ->
  be_bytes 6 (b0 * 1099511627776 + b1 * 4294967296 + b2 * 16777216 + b3 * 65536 + b4 * 256 + b5)
  = [b0; b1; b2; b3; b4; b5].
Proof.
  intros.
  replace (b0 * 1099511627776 + b1 * 4294967296 + b2 * 16777216 + b3 * 65536 + b4 * 256 + b5)
    with (b0 * 256 ^ N.of_nat 5 + (b1 * 256 ^ N.of_nat 4 + (b2 * 256 ^ N.of_nat 3 +
          (b3 * 256 ^ N.of_nat 2 + (b4 * 256 ^ N.of_nat 1 + (b5 * 256 ^ N.of_nat 0 + 0))))))
    by (change (256 ^ N.of_nat 5) with 1099511627776;
        change (256 ^ N.of_nat 4) with 4294967296; change (256 ^ N.of_nat 3) with 16777216; change (256 ^ N.of_nat 2) with 65536;
        change (256 ^ N.of_nat 1) with 256; change (256 ^ N.of_nat 0) with 1; lia).
  repeat (rewrite be_bytes_cons; [f_equal| assumption |
     change (256 ^ N.of_nat 5) with 1099511627776;
        change (256 ^ N.of_nat 4) with 4294967296; change (256 ^ N.of_nat 3) with 16777216; change (256 ^ N.of_nat 2) with 65536;
        change (256 ^ N.of_nat 1) with 256; change (256 ^ N.of_nat 0) with 1; lia]).
Qed.

Lemma spec_record_bytes ver prof compat level lsm1 sps pps :
  ver < 256 -> prof < 256 -> compat < 256 -> level < 256 -> lsm1 < 4 -> countN sps < 32 -> countN pps < 256 ->
  spec_record ver prof compat level lsm1 sps pps =
  [ver; prof; compat; level; 252 + lsm1; 224 + countN sps] ++ spec_sets sps ++ [countN pps] ++ spec_sets pps.
Proof.
  intros. unfold spec_record. f_equal.
  - unfold pack_fields.
    match goal with |- be_bytes (N.to_nat (fields_width ?l / 8)) _ = _ =>
      change (N.to_nat (fields_width l / 8)) with 6%nat end.
    unfold fields_val. cbn [fold_left fst snd].
    change (2 ^ 8) with 256; change (2 ^ 6) with 64; change (2 ^ 2) with 4; change (2 ^ 3) with 8; change (2 ^ 5) with 32.
    rewrite !N.mod_small by lia.
    rewrite <- be6_digits by lia. f_equal. lia.
  - f_equal. f_equal. unfold pack_fields.
    match goal with |- be_bytes (N.to_nat (fields_width ?l / 8)) _ = _ =>
      change (N.to_nat (fields_width l / 8)) with 1%nat end.
    unfold fields_val. cbn [fold_left fst snd]. change (2 ^ 8) with 256.
    rewrite N.mod_small by lia. apply be_bytes_1. lia.
Qed.

Lemma countN_length {A} (l : list A) : N.to_nat (countN l) = length l.
Proof. unfold countN. lia. Qed.

(* reading what the ISO writer wrote (plus any trailing bytes), on any receiver state *)
Lemma rec_read_spec st ver prof compat level lsm1 sps pps ext :
  ver < 256 -> prof < 256 -> compat < 256 -> level < 256 -> lsm1 < 4 -> countN sps < 32 -> countN pps < 256 ->
  Forall set_ok sps -> Forall set_ok pps ->
  rec_unmarshal st (spec_record ver prof compat level lsm1 sps pps ++ ext) =
  (mk_rec ver prof compat level lsm1 (r_sps st ++ map split_nalu sps) (r_pps st ++ map split_nalu pps), Ok tt).
Proof.
  intros Hv Hp Hc Hl Hs Hns Hnp Fs Fp.
  rewrite spec_record_bytes by assumption.
  unfold rec_unmarshal. cbn [app len_gt negb idx nth_error drop_chk take].
  replace ((252 + lsm1) mod 4) with lsm1 by lia.
  replace ((224 + countN sps) mod 32) with (countN sps) by lia.
  rewrite countN_length. rewrite <- !app_assoc.
  rewrite read_sets_spec by exact Fs. rewrite rev_involutive.
  cbn [app len_gt negb idx nth_error drop_chk take].
  rewrite countN_length. rewrite read_sets_spec by exact Fp. rewrite rev_involutive. reflexivity.
Qed.

(* the library's writer produces the ISO layout *)
Definition nalu_set_ok (n : nalu) : Prop := nalu_ok n /\ 1 + lenN (ndata n) <= 65535.

Lemma sets_marshal_spec ns : Forall nalu_set_ok ns -> sets_marshal ns = spec_sets (map spec_nalu_bytes ns).
Proof.
  induction 1 as [|n ns [Hok Hlen] Hrest IH]; [reflexivity|].
  cbn [map]. rewrite spec_sets_cons, <- IH. unfold sets_marshal. cbn [flat_map].
  rewrite (spec_nalu_is_marshal n Hok), be_bytes_2.
  assert (E : lenN (nalu_marshal n) = 1 + lenN (ndata n)) by (rewrite nalu_marshal_eq, lenN_cons; reflexivity).
  replace (u16 (lenN (nalu_marshal n))) with (lenN (nalu_marshal n)) by (unfold u16; lia).
  reflexivity.
Qed.

Lemma set_ok_of_nalu n : nalu_set_ok n -> set_ok (spec_nalu_bytes n).
Proof.
  intros [Hok Hlen]. rewrite (spec_nalu_is_marshal n Hok), nalu_marshal_eq. split; [discriminate|].
  rewrite lenN_cons. exact Hlen.
Qed.

Lemma countN_map {A B} (f : A -> B) l : countN (map f l) = countN l.
Proof. unfold countN. rewrite map_length. reflexivity. Qed.

Lemma rec_marshal_spec r :
  r_ver r < 256 -> r_prof r < 256 -> r_compat r < 256 -> r_level r < 256 -> r_lsm1 r < 4 ->
  countN (r_sps r) < 32 -> countN (r_pps r) < 256 -> Forall nalu_set_ok (r_sps r) -> Forall nalu_set_ok (r_pps r) ->
  rec_marshal r = spec_record (r_ver r) (r_prof r) (r_compat r) (r_level r) (r_lsm1 r)
                              (map spec_nalu_bytes (r_sps r)) (map spec_nalu_bytes (r_pps r)).
Proof.
  intros Hv Hp Hc Hl Hs Hns Hnp Fs Fp.
  rewrite spec_record_bytes by (rewrite ?countN_map; assumption).
  rewrite !countN_map. unfold rec_marshal, u8.
  rewrite (sets_marshal_spec _ Fs), (sets_marshal_spec _ Fp).
  rewrite !N.mod_small by lia. reflexivity.
Qed.

Lemma rec_rt st r ext :
  r_ver r < 256 -> r_prof r < 256 -> r_compat r < 256 -> r_level r < 256 -> r_lsm1 r < 4 ->
  countN (r_sps r) < 32 -> countN (r_pps r) < 256 -> Forall nalu_set_ok (r_sps r) -> Forall nalu_set_ok (r_pps r) ->
  rec_unmarshal st (rec_marshal r ++ ext) =
  (mk_rec (r_ver r) (r_prof r) (r_compat r) (r_level r) (r_lsm1 r) (r_sps st ++ r_sps r) (r_pps st ++ r_pps r), Ok tt).
Proof.
  intros Hv Hp Hc Hl Hs Hns Hnp Fs Fp.
  rewrite rec_marshal_spec by assumption.
  rewrite rec_read_spec; try assumption; rewrite ?countN_map; try assumption.
  - rewrite !map_split_spec; [reflexivity| |]; (eapply Forall_impl; [|eassumption]); intros n [H _]; exact H.
  - rewrite Forall_map. eapply Forall_impl; [|exact Fs]. intros n. apply set_ok_of_nalu.
  - rewrite Forall_map. eapply Forall_impl; [|exact Fp]. intros n. apply set_ok_of_nalu.
Qed.

(* canonical re-encoding: NAL units with forbidden_zero_bit 0 are reproduced *)
Definition set_canon (nb : bytes) : Prop := exists x t, nb = x :: t /\ x < 128 /\ lenN nb <= 65535.

Lemma set_canon_ok nb : set_canon nb -> set_ok nb.
Proof. intros (x & t & -> & _ & H). split; [discriminate|exact H]. Qed.

Lemma map_marshal_split nbs : Forall set_canon nbs -> map spec_nalu_bytes (map split_nalu nbs) = nbs.
Proof.
  induction 1 as [|nb nbs (x & t & -> & Hx & Hl) Hrest IH]; [reflexivity|].
  cbn [map]. rewrite IH. rewrite (spec_nalu_is_marshal _ (split_ok (x :: t))), marshal_split by exact Hx. reflexivity.
Qed.

Lemma split_set_ok nb : set_ok nb -> nalu_set_ok (split_nalu nb).
Proof.
  intros [Hne Hl]. split; [apply split_ok|]. destruct nb as [|x t]; [congruence|].
  cbn [split_nalu ndata]. rewrite lenN_cons in Hl. exact Hl.
Qed.

Lemma rec_canonical_reenc ver prof compat level lsm1 sps pps ext r :
  ver < 256 -> prof < 256 -> compat < 256 -> level < 256 -> lsm1 < 4 -> countN sps < 32 -> countN pps < 256 ->
  Forall set_canon sps -> Forall set_canon pps ->
  rec_unmarshal rec0 (spec_record ver prof compat level lsm1 sps pps ++ ext) = (r, Ok tt) ->
  rec_marshal r = spec_record ver prof compat level lsm1 sps pps.
Proof.
  intros Hv Hp Hc Hl Hs Hns Hnp Fs Fp.
  assert (Fs' : Forall set_ok sps) by (eapply Forall_impl; [|exact Fs]; apply set_canon_ok).
  assert (Fp' : Forall set_ok pps) by (eapply Forall_impl; [|exact Fp]; apply set_canon_ok).
  rewrite rec_read_spec by assumption. cbn [rec0 r_sps r_pps app]. intros E. inversion E; subst r. clear E.
  rewrite rec_marshal_spec; cbn [r_ver r_prof r_compat r_level r_lsm1 r_sps r_pps]; rewrite ?countN_map; try assumption.
  - rewrite !map_marshal_split by assumption. reflexivity.
  - rewrite Forall_map. eapply Forall_impl; [|exact Fs']. apply split_set_ok.
  - rewrite Forall_map. eapply Forall_impl; [|exact Fp']. apply split_set_ok.
Qed.

(* totality of the record reader *)
Lemma read_sets_total cnt : forall b acc e s, snd (read_sets cnt b acc e) <> Panic s.
Proof.
  induction cnt as [|cnt IH]; intros b acc e s; cbn [read_sets snd]; [discriminate|].
  destruct b as [|b0 [|b1 t]]; cbn [len_gt negb snd idx nth_error drop_chk take]; try discriminate.
  destruct (len_ltN t _) eqn:L; cbn [snd]; [discriminate|].
  pose proof (splitN_total _ _ L) as S.
  destruct (splitN t _) as [[nb b2]|]; [|congruence].
  pose proof (nalu_total nb) as T.
  destruct (nalu_unmarshal nb) as [n|e'|s']; cbn [snd]; [apply IH|discriminate|exfalso; exact (T s' eq_refl)].
Qed.

Lemma rec_unmarshal_total st data s : snd (rec_unmarshal st data) <> Panic s.
Proof.
  unfold rec_unmarshal.
  destruct data as [|d0 [|d1 [|d2 [|d3 [|d4 [|d5 t]]]]]]; cbn [len_gt negb snd idx nth_error drop_chk take]; try discriminate.
  pose proof (read_sets_total (N.to_nat (d5 mod 32)) t (rev (r_sps st)) 3) as T1.
  destruct (read_sets (N.to_nat (d5 mod 32)) t (rev (r_sps st)) 3) as [sps [b2|e|s']]; cbn [snd] in *;
    [|discriminate|exfalso; exact (T1 s' eq_refl)].
  destruct b2 as [|n t2]; cbn [len_gt negb snd idx nth_error drop_chk take]; [discriminate|].
  pose proof (read_sets_total (N.to_nat n) t2 (rev (r_pps st)) 6) as T2.
  destruct (read_sets (N.to_nat n) t2 (rev (r_pps st)) 6) as [pps [b3|e|s']]; cbn [snd] in *;
    [discriminate|discriminate|exfalso; exact (T2 s' eq_refl)].
Qed.

(* ---- the generated enum String helpers never panic (any integer) ---- *)
Ltac string_total :=
  repeat match goal with |- exists s, (if ?c then _ else _) = Ok s => destruct c end; eexists; reflexivity.
Lemma nalutype_string_total v : exists s, avc_NALUType_String v = Ok s.
Proof. unfold avc_NALUType_String. string_total. Qed.
Lemma avcprofile_string_total v : exists s, avc_AVCProfile_String v = Ok s.
Proof. unfold avc_AVCProfile_String. string_total. Qed.
Lemma avclevel_string_total v : exists s, avc_AVCLevel_String v = Ok s.
Proof. unfold avc_AVCLevel_String. string_total. Qed.

(* ---- additions: Size, canonical re-encoding of samples, sharpness of the bounds ---- *)
Lemma nalu_size_marshal n : lenN (nalu_marshal n) = nalu_size n.
Proof. rewrite nalu_marshal_eq, lenN_cons. reflexivity. Qed.

Definition unit_canon (k : N) (nb : bytes) : Prop := exists x t, nb = x :: t /\ x < 128 /\ lenN nb < 256 ^ k.

Lemma map_marshal_split_k k nbs : Forall (unit_canon k) nbs -> map spec_nalu_bytes (map split_nalu nbs) = nbs.
Proof.
  induction 1 as [|nb nbs (x & t & -> & Hx & Hl) Hrest IH]; [reflexivity|].
  cbn [map]. rewrite IH. rewrite (spec_nalu_is_marshal _ (split_ok (x :: t))), marshal_split by exact Hx. reflexivity.
Qed.

Lemma sample_canonical_reenc l nbs : l < 4 -> Forall (unit_canon (l + 1)) nbs ->
  sample_marshal l (map split_nalu nbs) = spec_sample l nbs.
Proof.
  intros Hl F. rewrite sample_marshal_spec; [rewrite (map_marshal_split_k _ _ F); reflexivity|exact Hl|].
  rewrite Forall_map. eapply Forall_impl; [|exact F]. intros nb (x & t & -> & Hx & Hlen).
  split; [apply split_ok|]. cbn [split_nalu ndata]. rewrite lenN_cons in Hlen. exact Hlen.
Qed.

(* names looked up by the C07 kit *)
Lemma sample_unmarshal_total lsm1 have data s : snd (sample_unmarshal lsm1 have data) <> Panic s.
Proof. unfold sample_unmarshal. apply sample_loop_total. Qed.

(* ---- inversion: what the record reader accepts is the ISO layout (reserved and forbidden bits free) ---- *)
Lemma read_sets_inv cnt : forall b acc e l b', wf_bytes b ->
  read_sets cnt b acc e = (l, Ok b') ->
  exists nbs, length nbs = cnt /\ Forall set_ok nbs /\ b = spec_sets nbs ++ b' /\ l = rev acc ++ map split_nalu nbs.
Proof.
  induction cnt as [|cnt IH]; intros b acc e l b' Hwf H; cbn [read_sets] in H.
  - inversion H; subst. exists []. repeat split; [constructor|rewrite app_nil_r; reflexivity].
  - destruct b as [|b0 [|b1 t]]; cbn [len_gt negb idx nth_error drop_chk take] in H; try discriminate.
    destruct (len_ltN t (b0 * 256 + b1)) eqn:L; [discriminate|].
    destruct (splitN t (b0 * 256 + b1)) as [[nb b2]|] eqn:S; [|discriminate].
    destruct (splitN_some _ _ _ _ S) as [Et Hlen].
    destruct (nalu_unmarshal nb) as [n|e'|s'] eqn:U; try discriminate.
    assert (Hne : nb <> []) by (intros ->; cbn in U; discriminate).
    rewrite (nalu_unmarshal_split nb Hne) in U. inversion U; subst n. clear U.
    inversion Hwf as [|? ? Hb0 Hwf1]; subst. inversion Hwf1 as [|? ? Hb1 Hwf2]; subst.
    unfold wf_byte in Hb0, Hb1.
    assert (Hwf3 : wf_bytes b2) by (apply Forall_app in Hwf2; apply Hwf2).
    destruct (IH b2 (split_nalu nb :: acc) e l b' Hwf3 H) as (nbs & Hn & Hok & Eb & El).
    exists (nb :: nbs). split; [cbn [length]; congruence|]. split; [constructor; [split; [exact Hne|lia]|exact Hok]|].
    split.
    + rewrite spec_sets_cons, be_bytes_2, Hlen. rewrite <- !app_assoc. cbn [app].
      replace (((b0 * 256 + b1) / 256) mod 256) with b0 by lia.
      replace ((b0 * 256 + b1) mod 256) with b1 by lia. rewrite Eb. reflexivity.
    + rewrite El. cbn [rev map]. rewrite <- app_assoc. reflexivity.
Qed.

Lemma rec_unmarshal_inv data r : wf_bytes data -> rec_unmarshal rec0 data = (r, Ok tt) ->
  exists d4 d5 sps pps ext,
    data = [r_ver r; r_prof r; r_compat r; r_level r; d4; d5] ++ spec_sets sps ++ [countN pps] ++ spec_sets pps ++ ext /\
    d4 < 256 /\ d5 < 256 /\ r_lsm1 r = d4 mod 4 /\ countN sps = d5 mod 32 /\ countN pps < 256 /\
    Forall set_ok sps /\ Forall set_ok pps /\
    r_sps r = map split_nalu sps /\ r_pps r = map split_nalu pps /\
    r_ver r < 256 /\ r_prof r < 256 /\ r_compat r < 256 /\ r_level r < 256.
Proof.
  intros Hwf H. unfold rec_unmarshal in H.
  destruct data as [|d0 [|d1 [|d2 [|d3 [|d4 [|d5 t]]]]]]; cbn [len_gt negb idx nth_error drop_chk take] in H; try discriminate.
  repeat match goal with W : wf_bytes (_ :: _) |- _ => inversion W; subst; clear W end.
  repeat match goal with W : Forall wf_byte (_ :: _) |- _ => inversion W; subst; clear W end.
  match goal with W : Forall wf_byte t |- _ => rename W into Wt end.
  unfold wf_byte in *.
  cbn [rec0 r_sps r_pps rev] in H.
  destruct (read_sets (N.to_nat (d5 mod 32)) t [] 3) as [sps1 [b2|e|s]] eqn:R1; try discriminate.
  destruct (read_sets_inv _ _ _ _ _ _ Wt R1) as (sps & Hns & Fs & Et & Es). cbn [rev app] in Es.
  destruct b2 as [|npps t2]; cbn [len_gt negb idx nth_error drop_chk take] in H; [discriminate|].
  assert (W2 : wf_bytes (npps :: t2)) by (rewrite Et in Wt; apply Forall_app in Wt; apply Wt).
  inversion W2 as [|? ? Hnp W3]; subst. unfold wf_byte in Hnp.
  destruct (read_sets (N.to_nat npps) t2 [] 6) as [pps1 [b3|e|s]] eqn:R2; try discriminate.
  destruct (read_sets_inv _ _ _ _ _ _ W3 R2) as (pps & Hnpp & Fp & Et2 & Ep). cbn [rev app] in Ep.
  inversion H; subst r. clear H. cbn [r_ver r_prof r_compat r_level r_lsm1 r_sps r_pps].
  exists d4, d5, sps, pps, b3.
  assert (Cs : countN sps = d5 mod 32) by (unfold countN; lia).
  assert (Cp : countN pps = npps) by (unfold countN; lia).
  rewrite Cp. repeat split; try assumption; try lia.
  cbn [app]. rewrite Et2. reflexivity.
Qed.

(* consequence: marshalling whatever was unmarshalled writes the canonical form of the input --
   reserved bits set, forbidden_zero_bits cleared, trailing bytes dropped; a canonical input is
   reproduced *)
Definition clear_forbidden (nb : bytes) : bytes :=
  match nb with [] => [] | x :: t => x mod 128 :: t end.

Lemma spec_split_clear nb : nb <> [] -> wf_bytes nb -> spec_nalu_bytes (split_nalu nb) = clear_forbidden nb.
Proof.
  destruct nb as [|x t]; [congruence|]. intros _ W. inversion W; subst. unfold wf_byte in *.
  rewrite (spec_nalu_is_marshal _ (split_ok (x :: t))), nalu_marshal_eq.
  cbn [split_nalu nref ntype ndata clear_forbidden]. rewrite reenc_byte by assumption. reflexivity.
Qed.

Lemma wf_spec_sets nbs rest : wf_bytes (spec_sets nbs ++ rest) -> Forall wf_bytes nbs /\ wf_bytes rest.
Proof.
  induction nbs as [|nb nbs IH]; intros W.
  - split; [constructor|exact W].
  - rewrite spec_sets_cons, <- !app_assoc in W. apply Forall_app in W. destruct W as [_ W].
    apply Forall_app in W. destruct W as [W1 W2]. destruct (IH W2) as [A B]. split; [constructor; assumption|exact B].
Qed.

Lemma map_spec_split_clear nbs : Forall set_ok nbs -> Forall wf_bytes nbs ->
  map spec_nalu_bytes (map split_nalu nbs) = map clear_forbidden nbs.
Proof.
  induction 1 as [|nb nbs [Hne _] Hrest IH]; intros W; [reflexivity|].
  inversion W; subst. cbn [map]. rewrite IH by assumption. rewrite spec_split_clear by assumption. reflexivity.
Qed.

Lemma clear_forbidden_len nb : lenN (clear_forbidden nb) = lenN nb.
Proof. destruct nb; [reflexivity|]. cbn [clear_forbidden]. rewrite !lenN_cons. reflexivity. Qed.

Lemma rec_reenc_canonicalises data r : wf_bytes data -> rec_unmarshal rec0 data = (r, Ok tt) ->
  exists d4 d5 sps pps ext,
    data = [r_ver r; r_prof r; r_compat r; r_level r; d4; d5] ++ spec_sets sps ++ [countN pps] ++ spec_sets pps ++ ext /\
    rec_marshal r = [r_ver r; r_prof r; r_compat r; r_level r; 252 + d4 mod 4; 224 + d5 mod 32]
                    ++ spec_sets (map clear_forbidden sps) ++ [countN pps] ++ spec_sets (map clear_forbidden pps).
Proof.
  intros W H.
  destruct (rec_unmarshal_inv data r W H) as (d4 & d5 & sps & pps & ext & E & H4 & H5 & El & Cs & Cp & Fs & Fp & Es & Ep & Hv & Hp & Hc & Hl).
  exists d4, d5, sps, pps, ext. split; [exact E|].
  assert (Ws : Forall wf_bytes sps /\ Forall wf_bytes pps).
  { rewrite E in W. apply Forall_app in W. destruct W as [_ W].
    destruct (wf_spec_sets _ _ W) as [A W1]. inversion W1; subst.
    match goal with X : Forall wf_byte (spec_sets pps ++ ext) |- _ => destruct (wf_spec_sets _ _ X) as [B _] end.
    split; assumption. }
  destruct Ws as [Ws Wp].
  rewrite rec_marshal_spec; rewrite ?Es, ?Ep, ?countN_map, ?El; try assumption; try lia.
  - rewrite spec_record_bytes; rewrite ?countN_map; try assumption; try lia.
    rewrite !map_spec_split_clear by assumption. rewrite Cs. reflexivity.
  - rewrite Forall_map. eapply Forall_impl; [|exact Fs]. apply split_set_ok.
  - rewrite Forall_map. eapply Forall_impl; [|exact Fp]. apply split_set_ok.
Qed.

(* ---- inversion for the NAL unit and the sample reader ---- *)
Lemma nalu_unmarshal_inv data n : nalu_unmarshal data = Ok n ->
  exists x, data = x :: ndata n /\ nref n = (x / 32) mod 4 /\ ntype n = x mod 32.
Proof.
  destruct data as [|x t]; [discriminate|]. rewrite nalu_unmarshal_cons. intros E. inversion E; subst n.
  exists x. repeat split.
Qed.

Lemma nalu_reenc data n : wf_bytes data -> nalu_unmarshal data = Ok n -> nalu_marshal n = clear_forbidden data.
Proof.
  intros W E. destruct data as [|x t]; [discriminate|]. rewrite nalu_unmarshal_cons in E. inversion E; subst n.
  inversion W; subst. unfold wf_byte in *. rewrite nalu_marshal_eq. cbn [nref ntype ndata clear_forbidden].
  rewrite reenc_byte by assumption. reflexivity.
Qed.

Lemma read_len_inv k lb : size_ok k -> wf_bytes lb -> lenN lb = k ->
  read_len k lb 0 0 < 256 ^ k /\ be_bytes (N.to_nat k) (read_len k lb 0 0) = lb.
Proof.
  intros Hk W Hl. rewrite lenN_length in Hl.
  destruct Hk as [->|[->|[->| ->]]].
  - destruct lb as [|a [|? ?]]; try (cbn [length] in Hl; lia).
    inversion W; subst. unfold wf_byte in *. cbv [read_len]. change (sh_amt 1 0) with 0.
    rewrite shl64_small by (change (2 ^ 0) with 1; lia). change (2 ^ 0) with 1. rewrite N.mul_1_r, N.lor_0_l.
    change (256 ^ 1) with 256. split; [assumption|]. apply be_bytes_1. assumption.
  - destruct lb as [|a [|b [|? ?]]]; try (cbn [length] in Hl; lia).
    inversion W as [|? ? Ha W1]; subst. inversion W1 as [|? ? Hb W2]; subst. unfold wf_byte in *. cbv [read_len].
    change (sh_amt 2 0) with 8. change (sh_amt 2 (0 + 1)) with 0.
    rewrite !shl64_small by (try lia; change (2 ^ 8) with 256; change (2 ^ 0) with 1; lia).
    change (2 ^ 8) with 256; change (2 ^ 0) with 1. rewrite N.lor_0_l, N.mul_1_r.
    rewrite (lor_disjoint_add _ _ 8) by (change (2 ^ 8) with 256; lia).
    change (256 ^ 2) with 65536. split; [lia|]. rewrite be_bytes_2. f_equal; [lia|]. f_equal. lia.
  - destruct lb as [|a [|b [|c [|? ?]]]]; try (cbn [length] in Hl; lia).
    inversion W as [|? ? Ha W1]; subst. inversion W1 as [|? ? Hb W2]; subst. inversion W2 as [|? ? Hc W3]; subst.
    unfold wf_byte in *. cbv [read_len].
    change (sh_amt 3 0) with 16. change (sh_amt 3 (0 + 1)) with 8. change (sh_amt 3 (0 + 1 + 1)) with 0.
    rewrite !shl64_small by (try lia; change (2 ^ 16) with 65536; change (2 ^ 8) with 256; change (2 ^ 0) with 1; lia).
    change (2 ^ 16) with 65536; change (2 ^ 8) with 256; change (2 ^ 0) with 1. rewrite N.lor_0_l, N.mul_1_r.
    rewrite (lor_disjoint_add (a * 65536) _ 16) by (change (2 ^ 16) with 65536; lia).
    rewrite (lor_disjoint_add _ _ 8) by (change (2 ^ 8) with 256; lia).
    change (256 ^ 3) with 16777216. split; [lia|].
    change (N.to_nat 3) with 3%nat.
    replace (a * 65536 + b * 256 + c) with (a * 256 ^ N.of_nat 2 + (b * 256 ^ N.of_nat 1 + (c * 256 ^ N.of_nat 0 + 0)))
      by (change (256 ^ N.of_nat 2) with 65536; change (256 ^ N.of_nat 1) with 256; change (256 ^ N.of_nat 0) with 1; lia).
    repeat (rewrite be_bytes_cons; [f_equal|assumption|
      change (256 ^ N.of_nat 2) with 65536; change (256 ^ N.of_nat 1) with 256; change (256 ^ N.of_nat 0) with 1; lia]).
  - destruct lb as [|a [|b [|c [|d [|? ?]]]]]; try (cbn [length] in Hl; lia).
    inversion W as [|? ? Ha W1]; subst. inversion W1 as [|? ? Hb W2]; subst. inversion W2 as [|? ? Hc W3]; subst.
    inversion W3 as [|? ? Hd W4]; subst. unfold wf_byte in *. cbv [read_len].
    change (sh_amt 4 0) with 24. change (sh_amt 4 (0 + 1)) with 16. change (sh_amt 4 (0 + 1 + 1)) with 8. change (sh_amt 4 (0 + 1 + 1 + 1)) with 0.
    rewrite !shl64_small by (try lia; change (2 ^ 24) with 16777216; change (2 ^ 16) with 65536; change (2 ^ 8) with 256; change (2 ^ 0) with 1; lia).
    change (2 ^ 24) with 16777216; change (2 ^ 16) with 65536; change (2 ^ 8) with 256; change (2 ^ 0) with 1.
    rewrite N.lor_0_l, N.mul_1_r.
    rewrite (lor_disjoint_add (a * 16777216) _ 24) by (change (2 ^ 24) with 16777216; lia).
    rewrite (lor_disjoint_add (a * 16777216 + b * 65536) _ 16) by (change (2 ^ 16) with 65536; lia).
    rewrite (lor_disjoint_add _ _ 8) by (change (2 ^ 8) with 256; lia).
    change (256 ^ 4) with 4294967296. split; [lia|].
    change (N.to_nat 4) with 4%nat.
    replace (a * 16777216 + b * 65536 + c * 256 + d)
      with (a * 256 ^ N.of_nat 3 + (b * 256 ^ N.of_nat 2 + (c * 256 ^ N.of_nat 1 + (d * 256 ^ N.of_nat 0 + 0))))
      by (change (256 ^ N.of_nat 3) with 16777216; change (256 ^ N.of_nat 2) with 65536; change (256 ^ N.of_nat 1) with 256; change (256 ^ N.of_nat 0) with 1; lia).
    repeat (rewrite be_bytes_cons; [f_equal|assumption|
      change (256 ^ N.of_nat 3) with 16777216; change (256 ^ N.of_nat 2) with 65536; change (256 ^ N.of_nat 1) with 256; change (256 ^ N.of_nat 0) with 1; lia]).
Qed.

Lemma sample_loop_inv l fuel : l < 4 -> forall b acc ns, wf_bytes b ->
  sample_loop fuel (l + 1) b acc = (ns, Ok tt) ->
  exists nbs, b = spec_sample l nbs /\ Forall (unit_ok (l + 1)) nbs /\ ns = rev acc ++ map split_nalu nbs.
Proof.
  intros Hl. pose proof (size_ok_of_lsm1 l Hl) as Hk.
  induction fuel as [|fuel IH]; intros b acc ns W H; destruct b as [|x t]; cbn [sample_loop] in H.
  - inversion H; subst. exists []. repeat split; [constructor|rewrite app_nil_r; reflexivity].
  - discriminate.
  - inversion H; subst. exists []. repeat split; [constructor|rewrite app_nil_r; reflexivity].
  - destruct (len_ltN (x :: t) (l + 1)) eqn:L1; [discriminate|].
    destruct (splitN (x :: t) (l + 1)) as [[lb b1]|] eqn:S1; [|discriminate].
    destruct (splitN_some _ _ _ _ S1) as [E1 Hlb].
    destruct (len_ltN b1 _) eqn:L2; [discriminate|].
    destruct (splitN b1 _) as [[nb b2]|] eqn:S2; [|discriminate].
    destruct (splitN_some _ _ _ _ S2) as [E2 Hnb].
    destruct (nalu_unmarshal nb) as [n|e|s] eqn:U; try discriminate.
    assert (Hne : nb <> []) by (intros ->; cbn in U; discriminate).
    rewrite (nalu_unmarshal_split nb Hne) in U. inversion U; subst n. clear U.
    rewrite E1 in W. apply Forall_app in W. destruct W as [Wlb Wb1].
    rewrite E2 in Wb1. apply Forall_app in Wb1. destruct Wb1 as [Wnb Wb2].
    destruct (read_len_inv (l + 1) lb Hk Wlb Hlb) as [Hlt Ebe].
    destruct (IH b2 (split_nalu nb :: acc) ns Wb2 H) as (nbs & Eb & Fn & En).
    exists (nb :: nbs). split; [|split].
    + rewrite spec_sample_cons, pack_len by (rewrite ?Hnb; assumption).
      rewrite Hnb, Ebe, <- Eb, <- E2. exact E1.
    + constructor; [split; [exact Hne|rewrite Hnb; exact Hlt]|exact Fn].
    + rewrite En. cbn [rev map]. rewrite <- app_assoc. reflexivity.
Qed.

Lemma map_spec_split_clear_ne nbs : Forall (fun nb => nb <> []) nbs -> Forall wf_bytes nbs ->
  map spec_nalu_bytes (map split_nalu nbs) = map clear_forbidden nbs.
Proof.
  induction 1 as [|nb nbs Hne Hrest IH]; intros W; [reflexivity|].
  inversion W; subst. cbn [map]. rewrite IH by assumption. rewrite spec_split_clear by assumption. reflexivity.
Qed.

Lemma wf_spec_sample l nbs : l < 4 -> Forall (unit_ok (l + 1)) nbs -> wf_bytes (spec_sample l nbs) -> Forall wf_bytes nbs.
Proof.
  intros Hl. induction 1 as [|nb nbs [Hne Hlen] Hrest IH]; intros W; [constructor|].
  rewrite spec_sample_cons in W. apply Forall_app in W. destruct W as [_ W].
  apply Forall_app in W. destruct W as [W1 W2]. constructor; [exact W1|exact (IH W2)].
Qed.

Lemma sample_reenc_canonicalises l data ns : l < 4 -> wf_bytes data ->
  sample_unmarshal l [] data = (ns, Ok tt) ->
  exists nbs, data = spec_sample l nbs /\ Forall (unit_ok (l + 1)) nbs /\ ns = map split_nalu nbs /\
              sample_marshal l ns = spec_sample l (map clear_forbidden nbs).
Proof.
  intros Hl W H. unfold sample_unmarshal in H. replace (u8 l) with l in H by (unfold u8; lia).
  destruct (sample_loop_inv l _ Hl _ _ _ W H) as (nbs & E & F & En). cbn [rev app] in En.
  exists nbs. repeat split; try assumption. subst ns data.
  rewrite sample_marshal_spec; [|exact Hl|].
  - rewrite map_spec_split_clear_ne; [reflexivity| |exact (wf_spec_sample l nbs Hl F W)].
    eapply Forall_impl; [|exact F]. intros nb [H1 _]. exact H1.
  - rewrite Forall_map. eapply Forall_impl; [|exact F]. intros nb [Hne Hlen].
    split; [apply split_ok|]. destruct nb as [|y t]; [congruence|]. cbn [split_nalu ndata].
    rewrite lenN_cons in Hlen. exact Hlen.
Qed.

(* ---- histories on several AVC objects ---- *)
Lemma slot_get_set_same s k v : slot_get (slot_set s k v) k = Some v.
Proof.
  induction s as [|[k' v'] t IH]; cbn [slot_set slot_get].
  - rewrite N.eqb_refl. reflexivity.
  - destruct (N.eqb_spec k' k) as [->|Hne]; cbn [slot_get].
    + rewrite N.eqb_refl. reflexivity.
    + destruct (N.eqb_spec k' k); [contradiction|]. exact IH.
Qed.

Lemma slot_get_set_other s k v k' : k' <> k -> slot_get (slot_set s k v) k' = slot_get s k'.
Proof.
  intros Hne. induction s as [|[k0 v0] t IH]; cbn [slot_set slot_get].
  - destruct (N.eqb_spec k k'); [congruence|reflexivity].
  - destruct (N.eqb_spec k0 k) as [->|H0]; cbn [slot_get].
    + destruct (N.eqb_spec k k'); [congruence|reflexivity].
    + destruct (N.eqb_spec k0 k'); [reflexivity|exact IH].
Qed.

Lemma avc_run_app s ops1 ops2 :
  avc_run s (ops1 ++ ops2) =
  (fst (avc_run (fst (avc_run s ops1)) ops2), snd (avc_run s ops1) ++ snd (avc_run (fst (avc_run s ops1)) ops2)).
Proof.
  revert s. induction ops1 as [|op ops1 IH]; intros s; cbn [app avc_run fst snd].
  - destruct (avc_run s ops2); reflexivity.
  - destruct (avc_step s op) as [s1 o]. rewrite IH.
    destruct (avc_run s1 ops1) as [s2 os]. cbn [fst snd]. destruct (avc_run s2 ops2); reflexivity.
Qed.

(* MarshalBinary after ANY history returns the marshalling of the object's current value and
   changes no object *)
Lemma avc_history_marshal s ops k v :
  slot_get (fst (avc_run s ops)) k = Some v ->
  avc_run s (ops ++ [AMarshal k]) = (fst (avc_run s ops), snd (avc_run s ops) ++ [SL [SZ 0; SB (obj_marshal v)]]).
Proof. intros H. rewrite avc_run_app. cbn [avc_run avc_step fst snd]. rewrite H. reflexivity. Qed.

Lemma avc_history_marshal2 s ops k1 k2 v1 v2 :
  slot_get (fst (avc_run s ops)) k1 = Some v1 -> slot_get (fst (avc_run s ops)) k2 = Some v2 ->
  avc_run s (ops ++ [AMarshal2 k1 k2]) =
  (fst (avc_run s ops), snd (avc_run s ops) ++ [SL [SZ 0; SB (obj_marshal v1); SB (obj_marshal v2)]]).
Proof. intros H1 H2. rewrite avc_run_app. cbn [avc_run avc_step fst snd]. rewrite H1, H2. reflexivity. Qed.

(* an operation touches only its own object *)
Lemma avc_step_other s op k' : k' <> op_slot op -> slot_get (fst (avc_step s op)) k' = slot_get s k'.
Proof.
  intros Hne. destruct op; cbn [avc_step op_slot] in *;
  repeat match goal with
         | |- context [match slot_get ?s ?k with _ => _ end] => destruct (slot_get s k) as [[?|?|? ?]|]
         | |- context [match nalu_unmarshal ?d with _ => _ end] => destruct (nalu_unmarshal d)
         | |- context [let (_, _) := ?x in _] => destruct x
         | |- context [match obj_update ?v ?o with _ => _ end] => destruct (obj_update v o)
         end; cbn [fst]; try reflexivity; apply slot_get_set_other; exact Hne.
Qed.

(* a field assignment replaces the object's value by the pure update of it *)
Definition is_update (op : avc_op) : bool :=
  match op with ASetNalu _ _ | ASetElem _ _ _ _ | AAppend _ _ _ | AClear _ _ | ASetScalars _ _ _ _ _ _ => true | _ => false end.

Lemma avc_step_update s op v v' :
  is_update op = true -> slot_get s (op_slot op) = Some v -> obj_update v op = Some v' ->
  avc_step s op = (slot_set s (op_slot op) v', SL [SZ 0]).
Proof.
  intros Hu Hg Hup. destruct op; try discriminate; cbn [avc_step op_slot] in *; rewrite Hg, Hup; reflexivity.
Qed.

(* the ISO layout of an object's current field values *)
Definition obj_in_range (v : avc_obj) : Prop :=
  match v with
  | ONalu n => nalu_ok n
  | ORec r => r_ver r < 256 /\ r_prof r < 256 /\ r_compat r < 256 /\ r_level r < 256 /\ r_lsm1 r < 4 /\
              countN (r_sps r) < 32 /\ countN (r_pps r) < 256 /\ Forall nalu_set_ok (r_sps r) /\ Forall nalu_set_ok (r_pps r)
  | OSample l ns => l < 4 /\ Forall (nalu_fits (l + 1)) ns
  end.

Definition obj_spec (v : avc_obj) : bytes :=
  match v with
  | ONalu n => spec_nalu_bytes n
  | ORec r => spec_record (r_ver r) (r_prof r) (r_compat r) (r_level r) (r_lsm1 r)
                          (map spec_nalu_bytes (r_sps r)) (map spec_nalu_bytes (r_pps r))
  | OSample l ns => spec_sample l (map spec_nalu_bytes ns)
  end.

Lemma obj_marshal_spec v : obj_in_range v -> obj_marshal v = obj_spec v.
Proof.
  destruct v as [n|r|l ns]; cbn [obj_in_range obj_marshal obj_spec].
  - intros H. symmetry. apply spec_nalu_is_marshal. exact H.
  - intros (Hv & Hp & Hc & Hl & Hs & Hns & Hnp & Fs & Fp). apply rec_marshal_spec; assumption.
  - intros [Hl F]. apply sample_marshal_spec; assumption.
Qed.
