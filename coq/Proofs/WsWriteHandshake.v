(* C13 proofs (part 5): the opening handshake -- accept key, the server's decision table, the
   client's checks -- against a transcription of RFC 6455 section 4.2 and RFC 7692 section 5/7. *)
From Verif Require Import Lib.Base Lib.Sx Lib.WsSha1 Gen.Gen_websocket Model.WsWrite.
Open Scope N_scope.

(* RFC 6455 section 1.3 / 4.2.2 item 5.4: the GUID, and the accept value *)
Definition rfc_guid : bytes :=
  [50;53;56;69;65;70;65;53;45;69;57;49;52;45;52;55;68;65;45;57;53;67;65;45;67;53;65;66;48;68;67;56;53;66;49;49].
Definition rfc_accept (key : bytes) : bytes := base64 (sha1 (key ++ rfc_guid)).

Lemma guid_is_rfc : websocket_keyGUID = rfc_guid.
Proof. reflexivity. Qed.

Lemma accept_is_rfc key : compute_accept_key key = rfc_accept key.
Proof. unfold compute_accept_key, rfc_accept. rewrite guid_is_rfc. reflexivity. Qed.

(* "dGhlIHNhbXBsZSBub25jZQ==" -> "s3pPLMBiTxaQ9kYGzzhZRbK+xOo=" *)
Example accept_rfc_example :
  compute_accept_key [100;71;104;108;73;72;78;104;98;88;66;115;90;83;66;117;98;50;53;106;90;81;61;61]
  = [115;51;112;80;76;77;66;105;84;120;97;81;57;107;89;71;122;122;104;90;82;98;75;43;120;79;111;61].
Proof. vm_compute. reflexivity. Qed.

Lemma bytes_eqb_refl a : bytes_eqb a a = true.
Proof. induction a as [|x a IH]; cbn; [reflexivity|]. rewrite N.eqb_refl, IH. reflexivity. Qed.
Lemma bytes_eqb_true a : forall b, bytes_eqb a b = true -> a = b.
Proof.
  induction a as [|x a IH]; intros [|y b] H; cbn in H; try discriminate; [reflexivity|].
  apply andb_prop in H. destruct H as [H1 H2]. apply N.eqb_eq in H1. rewrite H1, (IH b H2). reflexivity.
Qed.

(* the client accepts a well-formed 101 response exactly when it carries the server's value *)
Lemma client_accepts_iff key r : rs_101 r = true -> rs_upg r = true -> rs_conn r = true ->
  (fst (client_decide key r) <> 1 <-> rs_accept r = compute_accept_key key).
Proof.
  intros A B C0. unfold client_decide. rewrite A, B, C0. cbn [negb orb].
  destruct (bytes_eqb (rs_accept r) (compute_accept_key key)) eqn:E; cbn [negb].
  - apply bytes_eqb_true in E. split; [intros _; exact E|intros _].
    destruct (rs_pmd r); [destruct (negb (rs_snct r) || negb (rs_cnct r))|]; cbn; discriminate.
  - split; [intros H; exfalso; apply H; reflexivity|intros H; rewrite H, bytes_eqb_refl in E; discriminate].
Qed.

(* what Upgrade answers, as the client sees it: 101, Upgrade: websocket, Connection: Upgrade,
   the accept key, and "permessage-deflate; server_no_context_takeover;
   client_no_context_takeover" iff compression was agreed *)
Definition response_of (d : hdec) : option hresp :=
  match d with
  | HAccept acc _ z => Some (mkResp true true true acc z z z)
  | HReject _ => None
  end.

(* the two ends of the library agree: whatever key the client sent, if the server accepts, the
   client accepts the answer, and both sides switch compression on or off together *)
Theorem handshake_agrees u q r :
  response_of (upgrade_decide u q) = Some r ->
  client_decide (rq_key q) r = (0, uc_comp u && mem_bytes pmd_name (rq_exts q)).
Proof.
  unfold upgrade_decide.
  destruct (negb (rq_get q)); [discriminate|]. destruct (rq_resp_ext q); [discriminate|].
  destruct (negb (rq_conn q)); [discriminate|]. destruct (negb (rq_upg q)); [discriminate|].
  destruct (negb (rq_v13 q)); [discriminate|]. destruct (negb (rq_origin q)); [discriminate|].
  destruct (is_nil (rq_key q)); [discriminate|]. cbn [response_of]. intros H. inversion H; subst r.
  unfold client_decide. cbn [rs_101 rs_upg rs_conn rs_accept rs_pmd rs_snct rs_cnct negb orb].
  rewrite bytes_eqb_refl. cbn [negb]. destruct (uc_comp u && mem_bytes pmd_name (rq_exts q)); reflexivity.
Qed.

(* ---- the server's decision table against RFC 6455 section 4.2.1 / 4.2.2 ---- *)
Lemma first_common_spec sp cl :
  first_common sp cl = [] \/ (mem_bytes (first_common sp cl) cl = true /\ mem_bytes (first_common sp cl) sp = true).
Proof.
  induction sp as [|s sp IH]; cbn [first_common]; [left; reflexivity|].
  destruct (mem_bytes s cl) eqn:E.
  - right. split; [exact E|]. cbn [mem_bytes existsb]. rewrite bytes_eqb_refl. reflexivity.
  - destruct IH as [IH|[A B]]; [left; exact IH|right]. split; [exact A|].
    cbn [mem_bytes existsb]. unfold mem_bytes in B. rewrite B. apply orb_true_r.
Qed.

(* soundness: an accepted request has everything section 4.2.1 lists that the code looks at --
   GET, an Upgrade header containing "websocket", a Connection header containing "Upgrade",
   version 13, a key, an acceptable origin -- and the answer is section 4.2.2's: the accept
   value of the key, a subprotocol out of the client's list (or none), the extension only if the
   client offered it and the server enables it *)
Theorem upgrade_sound u q acc proto z : upgrade_decide u q = HAccept acc proto z ->
  rq_get q = true /\ rq_conn q = true /\ rq_upg q = true /\ rq_v13 q = true /\ rq_origin q = true /\
  rq_resp_ext q = false /\ rq_key q <> [] /\
  acc = rfc_accept (rq_key q) /\
  (forall sp, uc_protos u = Some sp ->
     proto = [] \/ (mem_bytes proto (rq_protos q) = true /\ mem_bytes proto sp = true)) /\
  (z = true <-> uc_comp u = true /\ mem_bytes pmd_name (rq_exts q) = true).
Proof.
  unfold upgrade_decide.
  destruct (rq_get q); cbn [negb]; [|discriminate]. destruct (rq_resp_ext q); [discriminate|].
  destruct (rq_conn q); cbn [negb]; [|discriminate]. destruct (rq_upg q); cbn [negb]; [|discriminate].
  destruct (rq_v13 q); cbn [negb]; [|discriminate]. destruct (rq_origin q); cbn [negb]; [|discriminate].
  destruct (rq_key q) as [|k0 kr] eqn:Ek; cbn [is_nil]; [discriminate|].
  intros H. inversion H; subst acc proto z.
  do 6 (split; [reflexivity|]). split; [discriminate|].
  split; [apply accept_is_rfc|]. split.
  - intros sp Hsp. unfold select_subprotocol. rewrite Hsp. apply first_common_spec.
  - split.
    + intros Hz. apply andb_prop in Hz. exact Hz.
    + intros [A B]. rewrite A, B. reflexivity.
Qed.

(* completeness: a request that has all of it is accepted *)
Theorem upgrade_complete u q :
  rq_get q = true -> rq_conn q = true -> rq_upg q = true -> rq_v13 q = true -> rq_origin q = true ->
  rq_resp_ext q = false -> rq_key q <> [] ->
  upgrade_decide u q = HAccept (rfc_accept (rq_key q)) (select_subprotocol u q)
                               (uc_comp u && mem_bytes pmd_name (rq_exts q)).
Proof.
  intros A B C0 D E F G. unfold upgrade_decide. rewrite A, B, C0, D, E, F. cbn [negb].
  destruct (rq_key q); [congruence|]. cbn [is_nil]. rewrite accept_is_rfc. reflexivity.
Qed.

(* the status of a refusal *)
Theorem upgrade_reject_status u q st : upgrade_decide u q = HReject st ->
  (st = 405 /\ rq_get q = false) \/ (st = 500 /\ rq_resp_ext q = true) \/ (st = 403 /\ rq_origin q = false) \/
  (st = 400 /\ (rq_conn q = false \/ rq_upg q = false \/ rq_v13 q = false \/ rq_key q = [])).
Proof.
  unfold upgrade_decide.
  destruct (rq_get q); cbn [negb]; [|intros H; inversion H; auto].
  destruct (rq_resp_ext q); [intros H; inversion H; auto|].
  destruct (rq_conn q); cbn [negb]; [|intros H; inversion H; auto 10].
  destruct (rq_upg q); cbn [negb]; [|intros H; inversion H; auto 10].
  destruct (rq_v13 q); cbn [negb]; [|intros H; inversion H; auto 10].
  destruct (rq_origin q); cbn [negb]; [|intros H; inversion H; auto 10].
  destruct (rq_key q); cbn [is_nil]; [intros H; inversion H; auto 10|discriminate].
Qed.

(* what does NOT hold (inherited from upstream; outside the property, which is about sessions
   between the library's own endpoints): section 4.2.1 item 5 wants a key that decodes to 16
   bytes, the code takes any non-empty value; RFC 7692 7.1.2.1 wants an offer with
   server_max_window_bits answered with that parameter or declined, the code looks at the
   extension name only. *)
Example upgrade_lax_key :
  exists q, rq_key q = [120] /\
  upgrade_decide (mkCfg None [] false) q = HAccept (compute_accept_key [120]) [] false.
Proof. exists (mkReq true false true true true true [120] [] []). split; reflexivity. Qed.
