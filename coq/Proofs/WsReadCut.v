(* C14 proofs, part 4: a stream cut anywhere delivers a prefix of the whole stream's messages
   (never a shortened message) and ends in an error. *)
From Verif Require Import Lib.Base Lib.Sx Lib.Utf8 Model.WsRead Proofs.WsReadUtf8 Proofs.WsRead Proofs.WsReadRefine.
From Verif Require Import Gen.Gen_websocket.
Open Scope Z_scope.

Lemma take_app_tail n : forall b p r tail, take n b = Some (p, r) -> take n (b ++ tail) = Some (p, r ++ tail).
Proof.
  induction n as [|k IH]; intros b p r tail H; cbn [take] in *.
  - inversion H; subst. reflexivity.
  - destruct b as [|x t]; [discriminate|]. cbn [app]. destruct (take k t) as [[a r']|] eqn:E; [|discriminate].
    inversion H; subst. rewrite (IH _ _ _ tail E). reflexivity.
Qed.

Lemma hdr_parse_app fin rsv op masked l7 r tail :
  match hdr_parse fin rsv op masked l7 r with
  | HOk h rest => hdr_parse fin rsv op masked l7 (r ++ tail) = HOk h (rest ++ tail)
  | HBadLen => hdr_parse fin rsv op masked l7 (r ++ tail) = HBadLen
  | _ => True
  end.
Proof.
  unfold hdr_parse.
  assert (K : forall ext len r1,
    match (if masked then match take 4 r1 with Some (k, r') => HOk (mkHdr fin rsv op masked ext len k) r' | None => HCut end
           else HOk (mkHdr fin rsv op masked ext len []) r1) with
    | HOk h rest => (if masked then match take 4 (r1 ++ tail) with Some (k, r') => HOk (mkHdr fin rsv op masked ext len k) r' | None => HCut end
                     else HOk (mkHdr fin rsv op masked ext len []) (r1 ++ tail)) = HOk h (rest ++ tail)
    | HBadLen => False
    | _ => True
    end).
  { intros ext len r1. destruct masked; [|reflexivity].
    destruct (take 4 r1) as [[k r']|] eqn:E; [|exact I]. rewrite (take_app_tail _ _ _ _ tail E). reflexivity. }
  destruct (l7 <? 126)%N.
  { specialize (K false l7 r). destruct (if masked then _ else _) as [| | |h rest]; auto. contradiction. }
  destruct (l7 =? 126)%N.
  - destruct (take 2 r) as [[l r1]|] eqn:E; [|exact I]. rewrite (take_app_tail _ _ _ _ tail E).
    specialize (K true (be_val l) r1). destruct (if masked then _ else _) as [| | |h rest]; auto. contradiction.
  - destruct (take 8 r) as [[l r1]|] eqn:E; [|exact I]. rewrite (take_app_tail _ _ _ _ tail E).
    destruct (two63 <=? be_val l)%N; [reflexivity|].
    specialize (K true (be_val l) r1). destruct (if masked then _ else _) as [| | |h rest]; auto. contradiction.
Qed.

Lemma rfc_header_app bs tail :
  match rfc_header bs with
  | HOk h rest => rfc_header (bs ++ tail) = HOk h (rest ++ tail)
  | HBadLen => rfc_header (bs ++ tail) = HBadLen
  | _ => True
  end.
Proof.
  destruct bs as [|p0 [|p1 r]]; try exact I. cbn [app]. rewrite !rfc_header_cons. apply hdr_parse_app.
Qed.

Lemma rfc_header_shorter bs h rest : rfc_header bs = HOk h rest -> (length rest + 2 <= length bs)%nat.
Proof.
  destruct bs as [|p0 [|p1 r]]; try discriminate. rewrite rfc_header_cons. unfold hdr_parse. cbn [length].
  assert (K : forall ext len r1 h rest, (length r1 <= length r)%nat ->
    (if (p1 / 128 =? 1)%N then match take 4 r1 with Some (k, r') => HOk (mkHdr (p0 / 128 =? 1)%N ((p0 / 16) mod 8)%N (p0 mod 16)%N (p1 / 128 =? 1)%N ext len k) r' | None => HCut end
     else HOk (mkHdr (p0 / 128 =? 1)%N ((p0 / 16) mod 8)%N (p0 mod 16)%N (p1 / 128 =? 1)%N ext len []) r1) = HOk h rest ->
    (length rest <= length r)%nat).
  { intros ext len r1 h0 rest0 L. destruct (p1 / 128 =? 1)%N.
    - destruct (take 4 r1) as [[k r']|] eqn:E; [|discriminate]. intros H; inversion H; subst.
      apply take_app in E as [-> _]. rewrite app_length in L. lia.
    - intros H; inversion H; subst. exact L. }
  destruct (p1 mod 128 <? 126)%N; [intros H; apply K in H; lia|].
  destruct (p1 mod 128 =? 126)%N.
  - destruct (take 2 r) as [[l r1]|] eqn:E; [|discriminate]. apply take_app in E as [-> _].
    intros H; apply K in H; rewrite app_length in *; lia.
  - destruct (take 8 r) as [[l r1]|] eqn:E; [|discriminate]. apply take_app in E as [-> _].
    destruct (two63 <=? be_val l)%N; [discriminate|]. intros H; apply K in H; rewrite app_length in *; lia.
Qed.

Lemma split_at_app_tail n : forall b acc p r tail,
  split_at n b acc = Some (p, r) -> split_at n (b ++ tail) acc = Some (p, r ++ tail).
Proof.
  intros b. revert n. induction b as [|x t IH]; intros n acc p r tail H; cbn [split_at app] in *.
  - destruct (n =? 0)%N eqn:E; [|discriminate]. inversion H; subst. destruct tail; cbn [split_at]; rewrite E; reflexivity.
  - destruct (n =? 0)%N eqn:E; [inversion H; subst; reflexivity|]. apply IH. exact H.
Qed.

Lemma rfc_payload_app h rest p rest' tail :
  rfc_payload h rest = Some (p, rest') ->
  rfc_payload h (rest ++ tail) = Some (p, rest' ++ tail) /\ (length rest' <= length rest)%nat.
Proof.
  unfold rfc_payload. destruct (split_at (f_len h) rest []) as [[q r]|] eqn:E; [|discriminate].
  intros H; inversion H; subst. rewrite (split_at_app_tail _ _ _ _ _ tail E). split; [reflexivity|].
  apply split_at_nil in E as [-> _]. rewrite app_length. lia.
Qed.

(* the receiver on a prefix of a stream: either it ran out of bytes, having delivered a prefix
   of what the whole stream delivers, or it has the same verdict *)
Lemma rfc_recv_prefix server cap fuel : forall open bs tail evs f2,
  (length bs < fuel)%nat -> (length (bs ++ tail) < f2)%nat ->
  (exists hdr E', snd (rfc_recv fuel server cap open bs evs) = OCut hdr /\
                  fst (rfc_recv f2 server cap open (bs ++ tail) evs) = fst (rfc_recv fuel server cap open bs evs) ++ E')
  \/ rfc_recv fuel server cap open bs evs = rfc_recv f2 server cap open (bs ++ tail) evs.
Proof.
  induction fuel as [|f IH]; intros open bs tail evs f2 H1 H2; [lia|].
  destruct f2 as [|f2]; [lia|].
  remember (rfc_recv (S f2) server cap open (bs ++ tail) evs) as r2 eqn:R2.
  assert (ACC : exists E', fst r2 = rev evs ++ E') by (rewrite R2, rfc_recv_acc; cbn [fst]; eauto).
  assert (CUT : forall hdr, exists hdr0 E', snd (rev' evs, OCut hdr) = OCut hdr0 /\ fst r2 = fst (rev' evs, OCut hdr) ++ E').
  { intros hdr. destruct ACC as (E' & A). exists hdr, E'. cbn [fst snd]. rewrite rev'_rev. auto. }
  clear ACC. rewrite rfc_recv_step in R2. rewrite rfc_recv_step. unfold spec_step in *.
  pose proof (rfc_header_app bs tail) as HA.
  destruct (rfc_header bs) as [| | |h rest] eqn:Eh.
  - left. apply (CUT false).
  - left. apply (CUT true).
  - right. rewrite HA in R2. subst r2. reflexivity.
  - rewrite HA in R2. apply rfc_header_shorter in Eh.
    destruct (rfc_violation _ _ h); [right; subst r2; reflexivity|].
    destruct (8 <=? f_op h)%N.
    + destruct (rfc_payload h rest) as [[p rest']|] eqn:Ep; [|left; apply (CUT false)].
      destruct (rfc_payload_app _ _ _ _ tail Ep) as [Ep' Lr]. rewrite Ep' in R2.
      destruct (f_op h =? 9)%N; [subst r2; apply IH; rewrite ?app_length in *; lia|].
      destruct (f_op h =? 10)%N; [subst r2; apply IH; rewrite ?app_length in *; lia|]. right; subst r2; reflexivity.
    + destruct (cap <? snd (open_parts open h) + f_len h)%N; [right; subst r2; reflexivity|].
      unfold spec_payload in *. destruct (open_parts open h) as [[t fr] n].
      destruct (rfc_payload h rest) as [[p rest']|] eqn:Ep; [|left; apply (CUT false)].
      destruct (rfc_payload_app _ _ _ _ tail Ep) as [Ep' Lr]. rewrite Ep' in R2.
      subst r2. destruct (f_fin h); apply IH; rewrite ?app_length in *; lia.
Qed.

Lemma msgs_of_app E1 E2 : msgs_of (E1 ++ E2) = msgs_of E1 ++ msgs_of E2.
Proof. unfold msgs_of. apply flat_map_app. Qed.

(* the messages of a result list *)
Definition delivered (rs : list rresult) : list rresult :=
  filter (fun r => match r with RMsg _ _ => true | RErr _ => false end) rs.

Lemma delivered_msgs E e n : delivered (msgs_of E ++ repeat (RErr e) n) = msgs_of E.
Proof.
  unfold delivered. rewrite filter_app.
  assert (A : filter (fun r => match r with RMsg _ _ => true | RErr _ => false end) (repeat (RErr e) n) = []).
  { induction n as [|n IH]; [reflexivity|]. cbn. exact IH. }
  rewrite A, app_nil_r. unfold msgs_of. induction E as [|[t p|p] E IH]; cbn; [reflexivity| |exact IH].
  rewrite IH. reflexivity.
Qed.

(* For every stream s and every cut offset k: reading the first k bytes of s returns a prefix of the
   messages that reading all of s returns -- each one whole -- and then fails (with a non-nil error
   on the cut stream as on every stream: the result list always ends with RErr). *)
Theorem cut_delivers_prefix server limit s k :
  wf_bytes s -> limit < 9223372036854775808 ->
  exists rs1 ws1 rs2 ws2 more e,
    lib_session true server limit 0 (firstn k s) = Ok (rs1, ws1) /\
    lib_session true server limit 0 s = Ok (rs2, ws2) /\
    delivered rs2 = delivered rs1 ++ more /\
    rs1 = delivered rs1 ++ [RErr e].
Proof.
  intros Hwf Hl.
  assert (Hwf1 : wf_bytes (firstn k s)).
  { rewrite <- (firstn_skipn k s) in Hwf. apply wf_app in Hwf. tauto. }
  destruct (lib_refines_rfc server limit 0 (firstn k s) Hwf1 Hl ltac:(lia)) as (e1 & cf1 & _ & E1 & _).
  destruct (lib_refines_rfc server limit 0 s Hwf Hl ltac:(lia)) as (e2 & cf2 & _ & E2 & _).
  unfold rfc_receive in *.
  pose proof (rfc_recv_prefix server (rfc_cap limit) (S (length (firstn k s))) None (firstn k s) (skipn k s) []
                (S (length s)) ltac:(lia) ltac:(rewrite firstn_skipn; lia)) as P.
  rewrite firstn_skipn in P.
  destruct P as [(hdr & E' & _ & P)|P].
  - eexists _, _, _, _, (msgs_of E'), e1. split; [exact E1|]. split; [exact E2|].
    rewrite !delivered_msgs. split; [|reflexivity]. rewrite P, msgs_of_app. reflexivity.
  - eexists _, _, _, _, [], e1. split; [exact E1|]. split; [exact E2|].
    rewrite !delivered_msgs. split; [|reflexivity]. rewrite P. rewrite app_nil_r. reflexivity.
Qed.
