(* C07, linear-time clause: the step-counting costs of Proofs/TotalCostDef.v are bounded by
   a * (input length) + b with explicit small constants. *)
From Verif Require Import Lib.Base Lib.Sx Lib.Bitfield Proofs.AacBits Proofs.TotalCostDef.
From Verif Require Model.Avc Model.Aac Model.Flv Model.Amf0 Model.RtmpChunk Model.JsonPlus Proofs.Aac Proofs.Avc Proofs.Amf0 Proofs.Amf0Fast Proofs.RtmpChunk Proofs.JsonPlusSplit Proofs.JsonPlusStrip.
Open Scope N_scope.

(* ================================================================== AVC *)
Module PAvc.
Import Verif.Model.Avc CAvc.

Lemma cost_sample_loop_linear fuel : forall size b, 1 <= size ->
  cost_sample_loop fuel size b <= 2 * lenN b + 1.
Proof.
  induction fuel as [|f IH]; intros size b Hs.
  - destruct b; [vm_compute; discriminate|cbn [cost_sample_loop]; lia].
  - destruct b as [|x t]; [vm_compute; discriminate|].
    cbn [cost_sample_loop]. remember (x :: t) as b eqn:Eb. clear Eb x t.
    destruct (len_ltN b size); [lia|].
    destruct (splitN b size) as [[lb b1]|] eqn:S1; [|lia].
    apply splitN_some in S1. destruct S1 as [E1 L1].
    assert (LB : lenN b = size + lenN b1) by (rewrite E1, lenN_app; lia).
    destruct (len_ltN b1 _); [lia|].
    destruct (splitN b1 _) as [[nb b2]|] eqn:S2; [|lia].
    apply splitN_some in S2. destruct S2 as [E2 L2].
    assert (LB1 : lenN b1 = read_len size lb 0 0 + lenN b2) by (rewrite E2 at 1; rewrite lenN_app; lia).
    specialize (IH size b2 Hs).
    destruct (nalu_unmarshal nb); lia.
Qed.

Theorem cost_sample_linear lsm1 data : cost_sample lsm1 data <= 2 * lenN data + 1.
Proof. unfold cost_sample. apply cost_sample_loop_linear. unfold u8. lia. Qed.

(* one parameter-set loop: what it costs is paid for by the bytes it consumes *)
Lemma cost_read_sets_bound cnt : forall b acc e,
  match read_sets cnt b acc e with
  | (_, Ok b2) => cost_read_sets cnt b + 2 * lenN b2 <= 2 * lenN b
  | _ => cost_read_sets cnt b <= 2 * lenN b + 1
  end.
Proof.
  induction cnt as [|c IH]; intros b acc e.
  - cbn [read_sets cost_read_sets]. lia.
  - cbn [read_sets cost_read_sets].
    destruct b as [|b0 [|b1 b']]; cbn [len_gt negb]; try lia.
    cbn [idx nth_error drop_chk take].
    rewrite !lenN_cons.
    destruct (len_ltN b' _); [lia|].
    destruct (splitN b' _) as [[nb b'']|] eqn:S; [|lia].
    apply splitN_some in S. destruct S as [E L].
    assert (LB : lenN b' = (b0 * 256 + b1) + lenN b'') by (rewrite E at 1; rewrite lenN_app; lia).
    destruct (nalu_unmarshal nb) as [n|e'|s']; try lia.
    specialize (IH b'' (n :: acc) e).
    destruct (read_sets c b'' (n :: acc) e) as [l [b2|e2|s2]]; lia.
Qed.

Theorem cost_record_linear data : cost_record data <= 2 * lenN data + 1.
Proof.
  unfold cost_record.
  destruct data as [|d0 [|d1 [|d2 [|d3 [|d4 [|n0 b1]]]]]]; cbn [len_gt negb]; try lia.
  cbn [idx nth_error drop_chk take]. rewrite !lenN_cons.
  pose proof (cost_read_sets_bound (N.to_nat (n0 mod 32)) b1 [] 3) as H1.
  destruct (read_sets (N.to_nat (n0 mod 32)) b1 [] 3) as [l [b2|e2|s2]]; try lia.
  destruct b2 as [|npps b3]; cbn [len_gt negb]; [lia|].
  cbn [idx nth_error drop_chk take]. rewrite lenN_cons in H1.
  pose proof (cost_read_sets_bound (N.to_nat npps) b3 [] 6) as H2.
  destruct (read_sets (N.to_nat npps) b3 [] 6) as [l' [b4|e4|s4]]; lia.
Qed.
End PAvc.

(* ================================================================== AAC *)
Module PAac.
Import Verif.Model.Aac CAac.

Lemma cost_adts_stream_linear fuel : forall st data, cost_adts_stream fuel st data <= 2 * lenN data + 10.
Proof.
  induction fuel as [|f IH]; intros st data.
  - destruct data; cbn [cost_adts_stream]; lia.
  - destruct data as [|x t]; [cbn [cost_adts_stream]; lia|].
    cbn [cost_adts_stream]. remember (x :: t) as d eqn:Ed. clear Ed x t.
    destruct (adts_decode st d) as [st' [[raw rest]|e|s]] eqn:D; try lia.
    apply Verif.Proofs.Aac.adts_decode_ok_shape in D. destruct D as (hdr & E & HL).
    assert (L : lenN d = lenN hdr + lenN raw + lenN rest) by (rewrite E, !lenN_app; lia).
    assert (7 <= lenN hdr) by (rewrite lenN_length; lia).
    specialize (IH st' rest). lia.
Qed.

Theorem cost_adts_linear data : cost_adts data <= 2 * lenN data + 10.
Proof. apply cost_adts_stream_linear. Qed.
End PAac.

(* ================================================================== FLV *)
Module PFlv.
Import Verif.Model.Flv CFlv.

Lemma takeN_split n (b a r : bytes) : takeN n b = Some (a, r) -> lenN b = n + lenN r.
Proof.
  unfold takeN. intros H. apply take_some in H. destruct H as [E L].
  rewrite E, lenN_app, (lenN_length a), L, N2Nat.id. reflexivity.
Qed.

(* io.CopyN: on success the call costs exactly (segments consumed) + n + 1 and removes n bytes;
   on failure it costs at most everything that was there *)
Lemma copy_n_cost s : forall n acc,
  match copy_n n s acc with
  | Ok (p, s') => cost_copy_n n s + sbytes s' + ssegs s' = sbytes s + ssegs s + 1 /\ sbytes s = n + sbytes s'
  | _ => cost_copy_n n s <= sbytes s + ssegs s + 1
  end.
Proof.
  induction s as [|[b|e] s' IH]; intros n acc.
  - cbn [copy_n cost_copy_n]. destruct (N.eqb_spec n 0) as [->|Hn]; cbn; lia.
  - cbn [copy_n cost_copy_n]. destruct (N.eqb_spec n 0) as [->|Hn]; [split; lia|].
    unfold ssegs in *. cbn [sbytes length]. rewrite Nat2N.inj_succ.
    destruct (N.ltb_spec (lenN b) n) as [Hl|Hl].
    + specialize (IH (n - lenN b) (b :: acc)).
      destruct (copy_n (n - lenN b) s' (b :: acc)) as [[p s'']|e|x]; lia.
    + destruct (takeN n b) as [[a r]|] eqn:T.
      * apply takeN_split in T. cbn [sbytes length]. rewrite Nat2N.inj_succ. lia.
      * lia.
  - cbn [copy_n cost_copy_n]. destruct (N.eqb_spec n 0) as [->|Hn]; [split; lia|].
    unfold ssegs. cbn [sbytes length]. lia.
Qed.

Lemma read_via_cost {A} n (parse : bytes -> res A) s :
  match read_via n parse s with
  | Ok (v, s') => cost_copy_n n s + sbytes s' + ssegs s' = sbytes s + ssegs s + 1 /\ sbytes s = n + sbytes s'
  | _ => cost_copy_n n s <= sbytes s + ssegs s + 1
  end.
Proof.
  unfold read_via. pose proof (copy_n_cost s n []) as H.
  destruct (copy_n n s []) as [[p s']|e|x]; cbn [bind]; try exact H.
  destruct (parse p) as [v|e|x]; cbn [bind]; lia.
Qed.

(* the tag loop: the 11 header bytes every iteration consumes pay for its constant overhead *)
Lemma cost_read_tags_linear fuel : forall s, cost_read_tags fuel s <= 2 * sbytes s + ssegs s + 2.
Proof.
  induction fuel as [|f IH]; intros s; cbn [cost_read_tags]; [lia|].
  pose proof (read_via_cost 11 parse_tag_header s) as H1. fold read_tag_header in H1.
  destruct (read_tag_header s) as [[[[ty sz] ts] s1]|e|x]; try lia.
  pose proof (read_via_cost (u32 (sz + 4)) strip_pts s1) as H2. fold (read_tag sz) in H2.
  destruct (read_tag sz s1) as [[b s2]|e|x]; try lia.
  specialize (IH s2). lia.
Qed.

Theorem cost_demux_linear fuel s : cost_demux fuel s <= 2 * sbytes s + ssegs s + 3.
Proof.
  unfold cost_demux. pose proof (read_via_cost 13 parse_header s) as H. fold read_header in H.
  destruct (read_header s) as [[h s1]|e|x]; try lia.
  pose proof (cost_read_tags_linear fuel s1). lia.
Qed.

(* a byte string handed over in one piece *)
Corollary cost_demux_linear_bytes fuel bs : cost_demux fuel [Data bs] <= 2 * lenN bs + 4.
Proof. pose proof (cost_demux_linear fuel [Data bs]) as H. unfold ssegs in H. cbn [sbytes length] in H. lia. Qed.
End PFlv.

(* ================================================================== AMF0 *)
Module PAmf0.
Import Verif.Model.Amf0 CAmf0.

Lemma scalar_cost x : is_scalar x = true -> cost_tree x = 1 + size x /\ size_walk x = 1 /\ 1 <= size x.
Proof. destruct x; cbn [is_scalar]; try discriminate; intros _; cbn [cost_tree size_walk size]; unfold utf8_size; lia. Qed.

Lemma flat_props_cost ps : forallb (fun kv => is_scalar (snd kv)) ps = true ->
  (fix go (ps : props) : N :=
     match ps with [] => 0 | (k, x) :: t => 1 + utf8_size k + cost_tree x + size_walk x + go t end) ps
  <= 2 * size_props ps.
Proof.
  induction ps as [|[k x] t IH]; intros H; [cbn; lia|].
  cbn [forallb snd] in H. apply andb_prop in H. destruct H as [Hx Ht].
  destruct (scalar_cost x Hx) as (C & W & S1). specialize (IH Ht).
  cbn [size_props]. rewrite C, W. unfold utf8_size in *. lia.
Qed.

Lemma size_props_fix ps :
  (fix go (ps : props) : N := match ps with [] => 0 | (k, x) :: t => utf8_size k + size x + go t end) ps = size_props ps.
Proof. induction ps as [|[k x] t IH]; [reflexivity|]. cbn [size_props]. rewrite IH. reflexivity. Qed.

(* nesting depth <= 1: the cost is at most twice the encoded size *)
Lemma cost_tree_flat v : flat v = true -> cost_tree v <= 2 * size v.
Proof.
  destruct v; cbn [flat]; intros H; try (cbn [cost_tree size]; unfold utf8_size; lia).
  - pose proof (flat_props_cost ps H). cbn [cost_tree size]. rewrite size_props_fix. lia.
  - pose proof (flat_props_cost ps H). cbn [cost_tree size]. rewrite size_props_fix. lia.
  - pose proof (flat_props_cost ps H). cbn [cost_tree size]. rewrite size_props_fix. lia.
Qed.

(* every accepted byte string whose value has nesting depth <= 1 *)
Theorem cost_amf0_flat_linear bs v n : decode_fast bs = Ok (v, n) -> flat v = true ->
  cost_amf0 bs <= 2 * lenN bs.
Proof.
  intros D F. unfold cost_amf0. rewrite D.
  rewrite Verif.Proofs.Amf0Fast.decf_eq in D. unfold decode in D.
  destruct (Verif.Proofs.Amf0.dec_wire _ _ _ _ D) as (w & rest & E & W & Hn).
  pose proof (Verif.Proofs.Amf0.wire_len _ _ W) as L.
  pose proof (cost_tree_flat v F). rewrite E, Verif.Proofs.Amf0.lenN_app. lia.
Qed.

(* the bound is about real inputs: a flat object of three properties *)
Example cost_amf0_flat_example :
  let bs := enc (AObj [([97], ANull); ([98], ANum 0); ([99], AStr [1; 2; 3])]) in
  lenN bs = 29 /\ cost_amf0 bs = 39.
Proof. vm_compute. auto. Qed.
End PAmf0.

(* ================================================================== RTMP chunk reader *)
Module PRtmp.
Import Verif.Model.RtmpChunk CRtmp.

Lemma lenN_skipn_le (b : bytes) n : n <= lenN b -> lenN b = n + lenN (skipn (N.to_nat n) b).
Proof.
  intros H. rewrite <- (firstn_skipn (N.to_nat n) b) at 1. rewrite lenN_app.
  rewrite (lenN_length (firstn _ _)), firstn_length_le by (rewrite lenN_length in H; lia). lia.
Qed.

Lemma stake_bytes i n a i' : stake i n = Ok (a, i') -> ibytes i = n + ibytes i'.
Proof.
  intros H. pose proof (Verif.Proofs.RtmpChunk.stake_flat i n) as F. rewrite H in F.
  destruct F as (L & _ & E). unfold ibytes. unfold Verif.Proofs.RtmpChunk.flat in *.
  rewrite E. apply lenN_skipn_le. exact L.
Qed.

Lemma stake1_bytes i t i1 : stake1 i = Ok (t, i1) -> ibytes i = 1 + ibytes i1.
Proof.
  unfold stake1. destruct (stake i 1) as [[b i']|e|p] eqn:S; cbn [bind]; try discriminate.
  destruct b as [|x [|y b]]; try discriminate. intros H. inversion H; subst. exact (stake_bytes _ _ _ _ S).
Qed.

Lemma basic_header_bytes i fmt cid i1 : read_basic_header i = Ok (fmt, cid, i1) -> ibytes i1 + 1 <= ibytes i.
Proof.
  unfold read_basic_header.
  destruct (stake1 i) as [[t ia]|e|p] eqn:S1; cbn [bind]; try discriminate.
  apply stake1_bytes in S1.
  destruct (1 <? t mod 64); [intros H; inversion H; subst; lia|].
  destruct (stake1 ia) as [[t2 ib]|e|p] eqn:S2; cbn [bind]; try discriminate.
  apply stake1_bytes in S2.
  destruct (t mod 64 =? 1); [|intros H; inversion H; subst; lia].
  destruct (stake1 ib) as [[t3 ic]|e|p] eqn:S3; cbn [bind]; try discriminate.
  apply stake1_bytes in S3. intros H; inversion H; subst; lia.
Qed.

Lemma message_header_bytes cid st fmt i st1 i2 : read_message_header cid st fmt i = Ok (st1, i2) -> ibytes i2 <= ibytes i.
Proof.
  unfold read_message_header.
  destruct (_ && _ && _); [discriminate|]. destruct (_ && _); [discriminate|].
  destruct (stake i (hdr_size fmt)) as [[p ia]|e|x] eqn:S1; cbn [bind]; try discriminate.
  apply stake_bytes in S1.
  match goal with |- context [bind ?X _] => destruct X as [[h1 e1]|e|x]; cbn [bind]; try discriminate end.
  destruct e1.
  - destruct (stake ia 4) as [[t ib]|e|x] eqn:S2; cbn [bind]; try discriminate.
    apply stake_bytes in S2.
    destruct t as [|a [|b [|c [|d [|z t]]]]]; cbn [bind]; try discriminate.
    intros H; inversion H; subst; lia.
  - cbn [bind]. intros H; inversion H; subst; lia.
Qed.

Lemma payload_bytes inchunk cid st i om st2 i3 : read_payload inchunk cid st i = Ok (om, st2, i3) -> ibytes i3 <= ibytes i.
Proof.
  unfold read_payload. destruct (c_part st) as [[got gl]|].
  - destruct (h_len (c_hdr st) =? 0); [intros H; inversion H; subst; lia|].
    destruct (h_len (c_hdr st) <? gl); [discriminate|].
    destruct (stake i _) as [[d i1]|e|x] eqn:S; cbn [bind]; try discriminate. apply stake_bytes in S.
    destruct (_ =? _); intros H; inversion H; subst; lia.
  - destruct (h_len (c_hdr st) =? 0); [intros H; inversion H; subst; lia|].
    destruct (h_len (c_hdr st) <? 0); [discriminate|].
    destruct (stake i _) as [[d i1]|e|x] eqn:S; cbn [bind]; try discriminate. apply stake_bytes in S.
    destruct (_ =? _); intros H; inversion H; subst; lia.
Qed.

(* every chunk takes at least its basic-header byte; the chunk size changes only on completion *)
Lemma read_chunk_consumes s i om s1 i1 : read_chunk s i = Ok (om, s1, i1) ->
  ibytes i1 + 1 <= ibytes i /\ (om = None -> in_chunk s1 = in_chunk s).
Proof.
  unfold read_chunk.
  destruct (read_basic_header i) as [[[fmt cid] ia]|e|x] eqn:B; cbn [bind]; try discriminate.
  apply basic_header_bytes in B.
  destruct (read_message_header _ _ _ _) as [[st1 ib]|e|x] eqn:M; cbn [bind]; try discriminate.
  apply message_header_bytes in M.
  destruct (read_payload _ _ _ _) as [[[o st2] ic]|e|x] eqn:P; cbn [bind]; try discriminate.
  apply payload_bytes in P.
  destruct o as [m|].
  - destruct (on_message_arrived _ _) as [c|e|x]; cbn [bind]; try discriminate.
    intros H; inversion H; subst. split; [lia|discriminate].
  - intros H; inversion H; subst. cbn [in_chunk]. split; [lia|reflexivity].
Qed.

(* ReadMessage, for the chunk size in force when it is called *)
Theorem cost_read_message_linear fuel : forall s i, cost_read_message fuel s i <= 4 * ibytes i + in_chunk s + 1.
Proof.
  induction fuel as [|f IH]; intros s i; cbn [cost_read_message]; [lia|].
  destruct (read_chunk s i) as [[[om s1] i1]|e|x] eqn:R; try lia.
  destruct (read_chunk_consumes _ _ _ _ _ R) as [C K].
  destruct om as [m|]; [lia|].
  specialize (IH s1 i1). rewrite (K eq_refl) in IH. lia.
Qed.
End PRtmp.

(* ================================================================== JSON+ *)
Module PJson.
Import Verif.Model.JsonPlus CJson.

Lemma cost_index_le pat d : cost_index pat d <= lenN d + 1.
Proof.
  induction d as [|x d IH]; cbn [cost_index].
  - destruct (is_prefix pat []); cbn; lia.
  - rewrite lenN_cons. destruct (is_prefix pat (x :: d)); lia.
Qed.

Lemma cost_index_esc_le e : forall d, cost_index_esc e d <= lenN d + 1.
Proof.
  intros d. remember (length d) as n eqn:Hn. revert d Hn.
  induction n as [n IH] using lt_wf_ind. intros d Hn.
  destruct d as [|c t]; cbn [cost_index_esc]; [cbn; lia|].
  rewrite lenN_cons. destruct (c =? backslash).
  - destruct t as [|c2 t']; [lia|]. rewrite lenN_cons.
    specialize (IH (length t') ltac:(subst; cbn; lia) t' eq_refl). lia.
  - destruct (is_prefix e (c :: t)); [lia|].
    specialize (IH (length t) ltac:(subst; cbn; lia) t eq_refl). lia.
Qed.

Lemma cost_fm_le data flags : cost_fm data flags <= N.of_nat (length flags) * (lenN data + 1).
Proof.
  induction flags as [|f r IH]; cbn [cost_fm length]; [lia|].
  pose proof (cost_index_le f data). rewrite Nat2N.inj_succ. lia.
Qed.

Lemma lenN_skipn_le (b : bytes) n : lenN (skipn n b) <= lenN b.
Proof.
  rewrite <- (firstn_skipn n b) at 2. rewrite lenN_app. lia.
Qed.

(* ONE split call is linear in the window it is given: at most 5 passes over it *)
Theorem cost_split_linear data e : cost_split data e <= 5 * lenN data + 6.
Proof.
  unfold cost_split. destruct (e && is_nil data); [lia|].
  pose proof (cost_fm_le data start_matches) as F.
  change (N.of_nat (length start_matches)) with 4 in F.
  destruct (first_match data start_matches) as [[pos i]|]; [|lia].
  destruct (tbl start_matches i 1) as [sm|?|?]; try lia.
  destruct (tbl end_matches i 3) as [em|?|?]; try lia.
  destruct (tbl is_comments i 4) as [isc|?|?]; try lia.
  unfold slice_from. destruct (_ || _); [lia|].
  pose proof (lenN_skipn_le data (Z.to_nat (Z.of_N pos + lenZ sm))) as K.
  unfold cost_index_end. destruct (negb isc).
  - pose proof (cost_index_esc_le em (skipn (Z.to_nat (Z.of_N pos + lenZ sm)) data)). lia.
  - pose proof (cost_index_le em (skipn (Z.to_nat (Z.of_N pos + lenZ sm)) data)). lia.
Qed.

(* the per-token rescan: every Scan costs one pass over the WINDOW, so a document held in one
   window costs at most (number of tokens + 1) * (5 * window + 6) *)
Lemma cost_strip_go_bound fuel : forall d, cost_strip_go fuel d <= N.of_nat fuel * (5 * lenN d + 6).
Proof.
  induction fuel as [|f IH]; intros d; cbn [cost_strip_go]; [lia|].
  pose proof (cost_split_linear d true) as S. rewrite Nat2N.inj_succ.
  destruct (split d true) as [[|adv tok]|?|?]; try lia.
  destruct (_ || _); [lia|].
  specialize (IH (skipn (Z.to_nat adv) d)).
  pose proof (lenN_skipn_le d (Z.to_nat adv)). nia.
Qed.

Theorem cost_strip_bound d : cost_strip d <= (lenN d + 2) * (5 * lenN d + 6).
Proof.
  unfold cost_strip. pose proof (cost_strip_go_bound (S (S (length d))) d) as H.
  rewrite !Nat2N.inj_succ, <- lenN_length in H. lia.
Qed.

(* ---- the per-token rescan is real: with the whole document as the window the cost is quadratic.
   Witness family: m line comments "//\n" -- the apostrophe marker never occurs, so every token
   searches it through all that is left of the window. ---- *)
Fixpoint dm (m : nat) : bytes := match m with O => [] | S m' => 47 :: 47 :: 10 :: dm m' end.

Lemma dm_len m : lenN (dm m) = 3 * N.of_nat m.
Proof. induction m as [|m IH]; [reflexivity|]. cbn [dm]. rewrite !lenN_cons, IH. lia. Qed.

Lemma dm_no_apos m : forall x, In x (dm m) -> x <> 39.
Proof.
  induction m as [|m IH]; intros x H; [destruct H|].
  cbn [dm In] in H. destruct H as [<-|[<-|[<-|H]]]; try discriminate. exact (IH x H).
Qed.

Lemma cost_index_absent c d : (forall x, In x d -> x <> c) -> cost_index [c] d = lenN d + 1.
Proof.
  induction d as [|x d IH]; intros H; [reflexivity|].
  cbn [cost_index is_prefix]. assert (E : (c =? x) = false) by (apply N.eqb_neq; intros ->; exact (H x (or_introl eq_refl) eq_refl)).
  rewrite E. cbn [andb]. rewrite lenN_cons, IH by (intros y Hy; apply H; right; exact Hy). lia.
Qed.

Lemma cost_fm_ge data f flags : In f flags -> cost_index f data <= cost_fm data flags.
Proof.
  induction flags as [|g r IH]; intros H; [destruct H|]. cbn [cost_fm].
  destruct H as [->|H]; [lia|]. specialize (IH H). lia.
Qed.

Lemma cost_split_dm m : lenN (dm (S m)) + 1 <= cost_split (dm (S m)) true.
Proof.
  unfold cost_split. cbn [dm is_nil andb].
  assert (I : In [39] start_matches) by (vm_compute; auto).
  pose proof (cost_fm_ge (dm (S m)) [39] start_matches I) as G.
  rewrite (cost_index_absent 39 (dm (S m)) (dm_no_apos (S m))) in G. cbn [dm] in G. lia.
Qed.

Lemma split_dm m e : split (dm (S m)) e = Ok (Tok 3 []).
Proof.
  pose proof (Verif.Proofs.JsonPlusStrip.split_marker [] 2 [] (dm m) e eq_refl ltac:(lia)) as H.
  cbn [dm]. change (47 :: 47 :: 10 :: dm m) with ([] ++ Verif.Proofs.JsonPlusSplit.mk_sm 2 ++ [] ++ Verif.Proofs.JsonPlusSplit.mk_em 2 ++ dm m).
  rewrite H; [reflexivity| |reflexivity].
  intros j mm Hj Hp. destruct j as [|[|j]]; [| |lia]; vm_compute in Hj; inversion Hj; subst mm; cbn in Hp; discriminate.
Qed.

Lemma cost_strip_go_dm : forall m fuel, (m <= fuel)%nat ->
  3 * N.of_nat m * (N.of_nat m + 1) <= 2 * cost_strip_go fuel (dm m).
Proof.
  induction m as [|m IH]; intros fuel Hf; [cbn; lia|].
  destruct fuel as [|f]; [lia|]. cbn [cost_strip_go]. rewrite split_dm.
  pose proof (cost_split_dm m) as C. rewrite dm_len in C.
  assert (L : lenZ (dm (S m)) = (3 * Z.of_nat (S m))%Z) by (unfold lenZ; rewrite dm_len; lia).
  rewrite L. replace ((3 <=? 0)%Z || (3 * Z.of_nat (S m) <? 3)%Z) with false
    by (symmetry; apply orb_false_intro; [reflexivity|apply Z.ltb_ge; lia]).
  change (skipn (Z.to_nat 3) (dm (S m))) with (dm m).
  specialize (IH f ltac:(lia)). rewrite Nat2N.inj_succ in *. nia.
Qed.

(* no linear bound for the whole-window scan *)
Theorem cost_strip_quadratic_refuted : forall k : N, exists d, wf_bytes d /\ cost_strip d > k * lenN d.
Proof.
  intros k. exists (dm (N.to_nat (2 * k + 1))). split.
  - unfold wf_bytes. generalize (N.to_nat (2 * k + 1)). induction n as [|n IH]; [constructor|].
    cbn [dm]. repeat constructor; try (unfold wf_byte; lia). exact IH.
  - unfold cost_strip. rewrite dm_len, N2Nat.id.
    pose proof (cost_strip_go_dm (N.to_nat (2 * k + 1)) (S (S (length (dm (N.to_nat (2 * k + 1))))))) as H.
    assert (Hl : (N.to_nat (2 * k + 1) <= S (S (length (dm (N.to_nat (2 * k + 1))))))%nat).
    { pose proof (dm_len (N.to_nat (2 * k + 1))) as D. rewrite lenN_length in D. lia. }
    specialize (H Hl). rewrite N2Nat.id in H. nia.
Qed.
End PJson.
