(* C07, linear-time clause: the step-counting costs of Proofs/TotalCostDef.v are bounded by
   a * (input length) + b with explicit small constants. *)
From Verif Require Import Lib.Base Lib.Sx Lib.Bitfield Proofs.AacBits Proofs.TotalCostDef.
From Verif Require Model.Avc Model.Aac Model.Flv Model.Amf0 Model.RtmpChunk Model.JsonPlus Proofs.Aac Proofs.Avc Proofs.Amf0 Proofs.Amf0Fast Proofs.RtmpChunk Proofs.JsonPlusSplit Proofs.JsonPlusStrip.
Open Scope N_scope.

(* ================================================================== AVC *)
Module PAvc.
Import Verif.Model.Avc CAvc.

Lemma cost_sample_loop_linear fuel : forall size b, 1 <= size ->
  cost_sample_loop fuel size b <= 2 * lenN b + 1.
Proof.
  induction fuel as [|f IH]; intros size b Hs.
  - destruct b; [vm_compute; discriminate|cbn [cost_sample_loop]; lia].
  - destruct b as [|x t]; [vm_compute; discriminate|].
    cbn [cost_sample_loop]. remember (x :: t) as b eqn:Eb. clear Eb x t.
    destruct (len_ltN b size); [lia|].
    destruct (splitN b size) as [[lb b1]|] eqn:S1; [|lia].
    apply splitN_some in S1. destruct S1 as [E1 L1].
    assert (LB : lenN b = size + lenN b1) by (rewrite E1, lenN_app; lia).
    destruct (len_ltN b1 _); [lia|].
    destruct (splitN b1 _) as [[nb b2]|] eqn:S2; [|lia].
    apply splitN_some in S2. destruct S2 as [E2 L2].
    assert (LB1 : lenN b1 = read_len size lb 0 0 + lenN b2) by (rewrite E2 at 1; rewrite lenN_app; lia).
    specialize (IH size b2 Hs).
    destruct (nalu_unmarshal nb); lia.
Qed.

Theorem cost_sample_linear lsm1 data : cost_sample lsm1 data <= 2 * lenN data + 1.
Proof. unfold cost_sample. apply cost_sample_loop_linear. unfold u8. lia. Qed.

(* one parameter-set loop: what it costs is paid for by the bytes it consumes *)
Lemma cost_read_sets_bound cnt : forall b acc e,
  match read_sets cnt b acc e with
  | (_, Ok b2) => cost_read_sets cnt b + 2 * lenN b2 <= 2 * lenN b
  | _ => cost_read_sets cnt b <= 2 * lenN b + 1
  end.
Proof.
  induction cnt as [|c IH]; intros b acc e.
  - cbn [read_sets cost_read_sets]. lia.
  - cbn [read_sets cost_read_sets].
    destruct b as [|b0 [|b1 b']]; cbn [len_gt negb]; try lia.
    cbn [idx nth_error drop_chk take].
    rewrite !lenN_cons.
    destruct (len_ltN b' _); [lia|].
    destruct (splitN b' _) as [[nb b'']|] eqn:S; [|lia].
    apply splitN_some in S. destruct S as [E L].
    assert (LB : lenN b' = (b0 * 256 + b1) + lenN b'') by (rewrite E at 1; rewrite lenN_app; lia).
    destruct (nalu_unmarshal nb) as [n|e'|s']; try lia.
    specialize (IH b'' (n :: acc) e).
    destruct (read_sets c b'' (n :: acc) e) as [l [b2|e2|s2]]; lia.
Qed.

Theorem cost_record_linear data : cost_record data <= 2 * lenN data + 1.
Proof.
  unfold cost_record.
  destruct data as [|d0 [|d1 [|d2 [|d3 [|d4 [|n0 b1]]]]]]; cbn [len_gt negb]; try lia.
  cbn [idx nth_error drop_chk take]. rewrite !lenN_cons.
  pose proof (cost_read_sets_bound (N.to_nat (n0 mod 32)) b1 [] 3) as H1.
  destruct (read_sets (N.to_nat (n0 mod 32)) b1 [] 3) as [l [b2|e2|s2]]; try lia.
  destruct b2 as [|npps b3]; cbn [len_gt negb]; [lia|].
  cbn [idx nth_error drop_chk take]. rewrite lenN_cons in H1.
  pose proof (cost_read_sets_bound (N.to_nat npps) b3 [] 6) as H2.
  destruct (read_sets (N.to_nat npps) b3 [] 6) as [l' [b4|e4|s4]]; lia.
Qed.
End PAvc.

(* ================================================================== AAC *)
Module PAac.
Import Verif.Model.Aac CAac.

Lemma cost_adts_stream_linear fuel : forall st data, cost_adts_stream fuel st data <= 2 * lenN data + 10.
Proof.
  induction fuel as [|f IH]; intros st data.
  - destruct data; cbn [cost_adts_stream]; lia.
  - destruct data as [|x t]; [cbn [cost_adts_stream]; lia|].
    cbn [cost_adts_stream]. remember (x :: t) as d eqn:Ed. clear Ed x t.
    destruct (adts_decode st d) as [st' [[raw rest]|e|s]] eqn:D; try lia.
    apply Verif.Proofs.Aac.adts_decode_ok_shape in D. destruct D as (hdr & E & HL).
    assert (L : lenN d = lenN hdr + lenN raw + lenN rest) by (rewrite E, !lenN_app; lia).
    assert (7 <= lenN hdr) by (rewrite lenN_length; lia).
    specialize (IH st' rest). lia.
Qed.

Theorem cost_adts_linear data : cost_adts data <= 2 * lenN data + 10.
Proof. apply cost_adts_stream_linear. Qed.
End PAac.

(* ================================================================== FLV *)
Module PFlv.
Import Verif.Model.Flv CFlv.

Lemma takeN_split n (b a r : bytes) : takeN n b = Some (a, r) -> lenN b = n + lenN r.
Proof.
  unfold takeN. intros H. apply take_some in H. destruct H as [E L].
  rewrite E, lenN_app, (lenN_length a), L, N2Nat.id. reflexivity.
Qed.

(* io.CopyN: on success the call costs exactly (segments consumed) + n + 1 and removes n bytes;
   on failure it costs at most everything that was there *)
Lemma copy_n_cost s : forall n acc,
  match copy_n n s acc with
  | Ok (p, s') => cost_copy_n n s + sbytes s' + ssegs s' = sbytes s + ssegs s + 1 /\ sbytes s = n + sbytes s'
  | _ => cost_copy_n n s <= sbytes s + ssegs s + 1
  end.
Proof.
  induction s as [|[b|e] s' IH]; intros n acc.
  - cbn [copy_n cost_copy_n]. destruct (N.eqb_spec n 0) as [->|Hn]; cbn; lia.
  - cbn [copy_n cost_copy_n]. destruct (N.eqb_spec n 0) as [->|Hn]; [split; lia|].
    unfold ssegs in *. cbn [sbytes length]. rewrite Nat2N.inj_succ.
    destruct (N.ltb_spec (lenN b) n) as [Hl|Hl].
    + specialize (IH (n - lenN b) (b :: acc)).
      destruct (copy_n (n - lenN b) s' (b :: acc)) as [[p s'']|e|x]; lia.
    + destruct (takeN n b) as [[a r]|] eqn:T.
      * apply takeN_split in T. cbn [sbytes length]. rewrite Nat2N.inj_succ. lia.
      * lia.
  - cbn [copy_n cost_copy_n]. destruct (N.eqb_spec n 0) as [->|Hn]; [split; lia|].
    unfold ssegs. cbn [sbytes length]. lia.
Qed.

Lemma read_via_cost {A} n (parse : bytes -> res A) s :
  match read_via n parse s with
  | Ok (v, s') => cost_copy_n n s + sbytes s' + ssegs s' = sbytes s + ssegs s + 1 /\ sbytes s = n + sbytes s'
  | _ => cost_copy_n n s <= sbytes s + ssegs s + 1
  end.
Proof.
  unfold read_via. pose proof (copy_n_cost s n []) as H.
  destruct (copy_n n s []) as [[p s']|e|x]; cbn [bind]; try exact H.
  destruct (parse p) as [v|e|x]; cbn [bind]; lia.
Qed.

(* the tag loop: the 11 header bytes every iteration consumes pay for its constant overhead *)
Lemma cost_read_tags_linear fuel : forall s, cost_read_tags fuel s <= 2 * sbytes s + ssegs s + 2.
Proof.
  induction fuel as [|f IH]; intros s; cbn [cost_read_tags]; [lia|].
  pose proof (read_via_cost 11 parse_tag_header s) as H1. fold read_tag_header in H1.
  destruct (read_tag_header s) as [[[[ty sz] ts] s1]|e|x]; try lia.
  pose proof (read_via_cost (u32 (sz + 4)) strip_pts s1) as H2. fold (read_tag sz) in H2.
  destruct (read_tag sz s1) as [[b s2]|e|x]; try lia.
  specialize (IH s2). lia.
Qed.

Theorem cost_demux_linear fuel s : cost_demux fuel s <= 2 * sbytes s + ssegs s + 3.
Proof.
  unfold cost_demux. pose proof (read_via_cost 13 parse_header s) as H. fold read_header in H.
  destruct (read_header s) as [[h s1]|e|x]; try lia.
  pose proof (cost_read_tags_linear fuel s1). lia.
Qed.

(* a byte string handed over in one piece *)
Corollary cost_demux_linear_bytes fuel bs : cost_demux fuel [Data bs] <= 2 * lenN bs + 4.
Proof. pose proof (cost_demux_linear fuel [Data bs]) as H. unfold ssegs in H. cbn [sbytes length] in H. lia. Qed.
End PFlv.

(* ================================================================== AMF0 *)
Module PAmf0.
Import Verif.Model.Amf0 CAmf0.

Lemma scalar_cost x : is_scalar x = true -> cost_tree x = 1 + size x /\ size_walk x = 1 /\ 1 <= size x.
Proof. destruct x; cbn [is_scalar]; try discriminate; intros _; cbn [cost_tree size_walk size]; unfold utf8_size; lia. Qed.

Lemma flat_props_cost ps : forallb (fun kv => is_scalar (snd kv)) ps = true ->
  (fix go (ps : props) : N :=
     match ps with [] => 0 | (k, x) :: t => 1 + utf8_size k + cost_tree x + size_walk x + go t end) ps
  <= 2 * size_props ps.
Proof.
  induction ps as [|[k x] t IH]; intros H; [cbn; lia|].
  cbn [forallb snd] in H. apply andb_prop in H. destruct H as [Hx Ht].
  destruct (scalar_cost x Hx) as (C & W & S1). specialize (IH Ht).
  cbn [size_props]. rewrite C, W. unfold utf8_size in *. lia.
Qed.

Lemma size_props_fix ps :
  (fix go (ps : props) : N := match ps with [] => 0 | (k, x) :: t => utf8_size k + size x + go t end) ps = size_props ps.
Proof. induction ps as [|[k x] t IH]; [reflexivity|]. cbn [size_props]. rewrite IH. reflexivity. Qed.

(* nesting depth <= 1: the cost is at most twice the encoded size *)
Lemma cost_tree_flat v : flat v = true -> cost_tree v <= 2 * size v.
Proof.
  destruct v; cbn [flat]; intros H; try (cbn [cost_tree size]; unfold utf8_size; lia).
  - pose proof (flat_props_cost ps H). cbn [cost_tree size]. rewrite size_props_fix. lia.
  - pose proof (flat_props_cost ps H). cbn [cost_tree size]. rewrite size_props_fix. lia.
  - pose proof (flat_props_cost ps H). cbn [cost_tree size]. rewrite size_props_fix. lia.
Qed.

(* every accepted byte string whose value has nesting depth <= 1 *)
Theorem cost_amf0_flat_linear bs v n : decode_fast bs = Ok (v, n) -> flat v = true ->
  cost_amf0 bs <= 2 * lenN bs.
Proof.
  intros D F. unfold cost_amf0. rewrite D.
  rewrite Verif.Proofs.Amf0Fast.decf_eq in D. unfold decode in D.
  destruct (Verif.Proofs.Amf0.dec_wire _ _ _ _ D) as (w & rest & E & W & Hn).
  pose proof (Verif.Proofs.Amf0.wire_len _ _ W) as L.
  pose proof (cost_tree_flat v F). rewrite E, Verif.Proofs.Amf0.lenN_app. lia.
Qed.

(* the bound is about real inputs: a flat object of three properties *)
Example cost_amf0_flat_example :
  let bs := enc (AObj [([97], ANull); ([98], ANum 0); ([99], AStr [1; 2; 3])]) in
  lenN bs = 29 /\ cost_amf0 bs = 39.
Proof. vm_compute. auto. Qed.
End PAmf0.

(* ================================================================== RTMP chunk reader *)
Module PRtmp.
Import Verif.Model.RtmpChunk CRtmp.

Lemma lenN_skipn_le (b : bytes) n : n <= lenN b -> lenN b = n + lenN (skipn (N.to_nat n) b).
Proof.
  intros H. rewrite <- (firstn_skipn (N.to_nat n) b) at 1. rewrite lenN_app.
  rewrite (lenN_length (firstn _ _)), firstn_length_le by (rewrite lenN_length in H; lia). lia.
Qed.

Lemma stake_bytes i n a i' : stake i n = Ok (a, i') -> ibytes i = n + ibytes i'.
Proof.
  intros H. pose proof (Verif.Proofs.RtmpChunk.stake_flat i n) as F. rewrite H in F.
  destruct F as (L & _ & E). unfold ibytes. unfold Verif.Proofs.RtmpChunk.flat in *.
  rewrite E. apply lenN_skipn_le. exact L.
Qed.

Lemma stake1_bytes i t i1 : stake1 i = Ok (t, i1) -> ibytes i = 1 + ibytes i1.
Proof.
  unfold stake1. destruct (stake i 1) as [[b i']|e|p] eqn:S; cbn [bind]; try discriminate.
  destruct b as [|x [|y b]]; try discriminate. intros H. inversion H; subst. exact (stake_bytes _ _ _ _ S).
Qed.

Lemma basic_header_bytes i fmt cid i1 : read_basic_header i = Ok (fmt, cid, i1) -> ibytes i1 + 1 <= ibytes i.
Proof.
  unfold read_basic_header.
  destruct (stake1 i) as [[t ia]|e|p] eqn:S1; cbn [bind]; try discriminate.
  apply stake1_bytes in S1.
  destruct (1 <? t mod 64); [intros H; inversion H; subst; lia|].
  destruct (stake1 ia) as [[t2 ib]|e|p] eqn:S2; cbn [bind]; try discriminate.
  apply stake1_bytes in S2.
  destruct (t mod 64 =? 1); [|intros H; inversion H; subst; lia].
  destruct (stake1 ib) as [[t3 ic]|e|p] eqn:S3; cbn [bind]; try discriminate.
  apply stake1_bytes in S3. intros H; inversion H; subst; lia.
Qed.

Lemma message_header_bytes cid st fmt i st1 i2 : read_message_header cid st fmt i = Ok (st1, i2) -> ibytes i2 <= ibytes i.
Proof.
  unfold read_message_header.
  destruct (_ && _ && _); [discriminate|]. destruct (_ && _); [discriminate|].
  destruct (stake i (hdr_size fmt)) as [[p ia]|e|x] eqn:S1; cbn [bind]; try discriminate.
  apply stake_bytes in S1.
  match goal with |- context [bind ?X _] => destruct X as [[h1 e1]|e|x]; cbn [bind]; try discriminate end.
  destruct e1.
  - destruct (stake ia 4) as [[t ib]|e|x] eqn:S2; cbn [bind]; try discriminate.
    apply stake_bytes in S2.
    destruct t as [|a [|b [|c [|d [|z t]]]]]; cbn [bind]; try discriminate.
    intros H; inversion H; subst; lia.
  - cbn [bind]. intros H; inversion H; subst; lia.
Qed.

Lemma payload_bytes inchunk cid st i om st2 i3 : read_payload inchunk cid st i = Ok (om, st2, i3) -> ibytes i3 <= ibytes i.
Proof.
  unfold read_payload. destruct (c_part st) as [[got gl]|].
  - destruct (h_len (c_hdr st) =? 0); [intros H; inversion H; subst; lia|].
    destruct (h_len (c_hdr st) <? gl); [discriminate|].
    destruct (stake i _) as [[d i1]|e|x] eqn:S; cbn [bind]; try discriminate. apply stake_bytes in S.
    destruct (_ =? _); intros H; inversion H; subst; lia.
  - destruct (h_len (c_hdr st) =? 0); [intros H; inversion H; subst; lia|].
    destruct (h_len (c_hdr st) <? 0); [discriminate|].
    destruct (stake i _) as [[d i1]|e|x] eqn:S; cbn [bind]; try discriminate. apply stake_bytes in S.
    destruct (_ =? _); intros H; inversion H; subst; lia.
Qed.

(* every chunk takes at least its basic-header byte; the chunk size changes only on completion *)
Lemma read_chunk_consumes s i om s1 i1 : read_chunk s i = Ok (om, s1, i1) ->
  ibytes i1 + 1 <= ibytes i /\ (om = None -> in_chunk s1 = in_chunk s).
Proof.
  unfold read_chunk.
  destruct (read_basic_header i) as [[[fmt cid] ia]|e|x] eqn:B; cbn [bind]; try discriminate.
  apply basic_header_bytes in B.
  destruct (read_message_header _ _ _ _) as [[st1 ib]|e|x] eqn:M; cbn [bind]; try discriminate.
  apply message_header_bytes in M.
  destruct (read_payload _ _ _ _) as [[[o st2] ic]|e|x] eqn:P; cbn [bind]; try discriminate.
  apply payload_bytes in P.
  destruct o as [m|].
  - destruct (on_message_arrived _ _) as [c|e|x]; cbn [bind]; try discriminate.
    intros H; inversion H; subst. split; [lia|discriminate].
  - intros H; inversion H; subst. cbn [in_chunk]. split; [lia|reflexivity].
Qed.

(* ReadMessage, for the chunk size in force when it is called *)
Theorem cost_read_message_linear fuel : forall s i, cost_read_message fuel s i <= 4 * ibytes i + in_chunk s + 1.
Proof.
  induction fuel as [|f IH]; intros s i; cbn [cost_read_message]; [lia|].
  destruct (read_chunk s i) as [[[om s1] i1]|e|x] eqn:R; try lia.
  destruct (read_chunk_consumes _ _ _ _ _ R) as [C K].
  destruct om as [m|]; [lia|].
  specialize (IH s1 i1). rewrite (K eq_refl) in IH. lia.
Qed.
End PRtmp.

(* ================================================================== JSON+ *)
Module PJson.
Import Verif.Model.JsonPlus CJson Verif.Proofs.JsonPlusSplit.

Lemma cost_index_le pat d : cost_index pat d <= lenN d + 1.
Proof.
  induction d as [|x d IH]; cbn [cost_index].
  - destruct (is_prefix pat []); cbn; lia.
  - rewrite lenN_cons. destruct (is_prefix pat (x :: d)); lia.
Qed.

Lemma cost_index_esc_le e : forall d, cost_index_esc e d <= lenN d + 1.
Proof.
  intros d. remember (length d) as n eqn:Hn. revert d Hn.
  induction n as [n IH] using lt_wf_ind. intros d Hn.
  destruct d as [|c t]; cbn [cost_index_esc]; [cbn; lia|].
  rewrite lenN_cons. destruct (c =? backslash).
  - destruct t as [|c2 t']; [lia|]. rewrite lenN_cons.
    specialize (IH (length t') ltac:(subst; cbn; lia) t' eq_refl). lia.
  - destruct (is_prefix e (c :: t)); [lia|].
    specialize (IH (length t) ltac:(subst; cbn; lia) t eq_refl). lia.
Qed.

(* a search that succeeds at position x costs x + 1 *)
Lemma cost_index_some pat : forall d x, index pat d = Some x -> cost_index pat d = x + 1.
Proof.
  induction d as [|y d IH]; intros x H; cbn [index cost_index] in *.
  - destruct (is_prefix pat []); [inversion H; reflexivity|discriminate].
  - destruct (is_prefix pat (y :: d)); [inversion H; reflexivity|].
    destruct (index pat d) as [x'|]; [|discriminate]. cbn [option_map] in H.
    assert (Hx : x = N.succ x') by (inversion H; reflexivity). rewrite (IH x' eq_refl). lia.
Qed.

Lemma cost_index_esc_some e : forall d x, index_esc e d = Some x -> cost_index_esc e d <= x + 1.
Proof.
  intros d. remember (length d) as n eqn:Hn. revert d Hn.
  induction n as [n IH] using lt_wf_ind. intros d Hn x H.
  destruct d as [|c t]; cbn [index_esc cost_index_esc] in *; [discriminate|].
  destruct (c =? backslash).
  - destruct t as [|c2 t']; [discriminate|].
    destruct (index_esc e t') as [x'|] eqn:E; [|discriminate]. cbn [option_map] in H.
    assert (Hx : x = 2 + x') by (inversion H; reflexivity).
    specialize (IH (length t') ltac:(subst n; cbn; lia) t' eq_refl x' E). lia.
  - destruct (is_prefix e (c :: t)); [inversion H; lia|].
    destruct (index_esc e t) as [x'|] eqn:E; [|discriminate]. cbn [option_map] in H.
    assert (Hx : x = N.succ x') by (inversion H; reflexivity).
    specialize (IH (length t) ltac:(subst n; cbn; lia) t eq_refl x' E). lia.
Qed.

Lemma cost_index_end_some d e b x : index_end d e b = Some x -> cost_index_end d e b <= x + 1.
Proof.
  unfold index_end, cost_index_end. destruct b; intros H.
  - exact (cost_index_esc_some e d x H).
  - rewrite (cost_index_some e d x H). lia.
Qed.
Lemma cost_index_end_le d e b : cost_index_end d e b <= lenN d + 1.
Proof. unfold cost_index_end. destruct b; [apply cost_index_esc_le|apply cost_index_le]. Qed.

(* firstMatch: found at position pos -> len(flags) * (pos + 1); not found -> len(flags) * window + 1 *)
Lemma cost_fm_at_spec flags : forall d p,
  match fm_at d flags p with
  | Some (pos, _) => p <= pos /\ cost_fm_at d flags = N.of_nat (length flags) * (pos - p + 1)
  | None => cost_fm_at d flags = N.of_nat (length flags) * lenN d + 1
  end.
Proof.
  induction d as [|y d IH]; intros p; cbn [fm_at cost_fm_at]; [cbn; lia|].
  destruct (find_flag (y :: d) flags 0) as [i|].
  - split; [lia|]. replace (p - p + 1) with 1 by lia. lia.
  - specialize (IH (N.succ p)). destruct (fm_at d flags (N.succ p)) as [[pos i]|].
    + destruct IH as [L E]. split; [lia|]. rewrite E. nia.
    + rewrite IH, lenN_cons. lia.
Qed.

Lemma lenN_skipn_le (b : bytes) n : lenN (skipn n b) <= lenN b.
Proof. rewrite <- (firstn_skipn n b) at 2. rewrite lenN_app. lia. Qed.

Lemma lenN_skipn_eq (b : bytes) n : (n <= length b)%nat -> lenN (skipn n b) = lenN b - N.of_nat n.
Proof. intros H. rewrite !lenN_length, skipn_length. lia. Qed.

(* the cost of a split call in the terms of the owner's characterisation of split *)
Lemma cost_split_some d e pos i : first_match d start_matches = Some (pos, i) ->
  cost_split d e = 1 + 4 * (pos + 1) +
                   cost_index_end (skipn (N.to_nat pos + length (mk_sm i)) d) (mk_em i) (negb (mk_isc i)).
Proof.
  intros Hfm. destruct (fm_some_facts _ _ _ Hfm) as (Hlt & Hi & Hb & Hne).
  unfold cost_split. rewrite Hfm. destruct d as [|d0 d']; [congruence|]. rewrite andb_false_r.
  set (d := d0 :: d') in *.
  pose proof (cost_fm_at_spec start_matches d 0) as F. unfold first_match in Hfm. rewrite Hfm in F.
  destruct F as [_ F]. rewrite F. change (N.of_nat (length start_matches)) with 4. rewrite N.sub_0_r.
  assert (Hsl : forall s, slice_from d (Z.of_N pos + lenZ (mk_sm i))%Z s
                = Ok (skipn (N.to_nat pos + length (mk_sm i)) d)).
  { intros s. rewrite slice_from_ok by (unfold lenZ; rewrite !lenN_length; lia). f_equal. f_equal.
    unfold lenZ. rewrite lenN_length. lia. }
  assert (Hi4 : i = 0%nat \/ i = 1%nat \/ i = 2%nat \/ i = 3%nat) by lia.
  destruct Hi4 as [-> | [-> | [-> | ->]]];
    unfold tbl;
    cbv [mk_sm mk_em mk_isc nth nth_error start_matches end_matches is_comments
         Verif.Gen.Gen_json.json_NewJsonPlusReader__startMatches Verif.Gen.Gen_json.json_NewJsonPlusReader__endMatches
         Verif.Gen.Gen_json.json_NewJsonPlusReader__isComments] in *;
    rewrite Hsl; reflexivity.
Qed.

Lemma cost_split_none d e : first_match d start_matches = None ->
  cost_split d e <= 4 * lenN d + 2.
Proof.
  intros Hfm. unfold cost_split. destruct (e && is_nil d); [lia|]. rewrite Hfm.
  pose proof (cost_fm_at_spec start_matches d 0) as F. unfold first_match in Hfm. rewrite Hfm in F.
  rewrite F. change (N.of_nat (length start_matches)) with 4. lia.
Qed.

(* ONE split call is linear in the window it is given *)
Theorem cost_split_linear data e : cost_split data e <= 5 * lenN data + 6.
Proof.
  destruct (first_match data start_matches) as [[pos i]|] eqn:Hfm.
  - rewrite (cost_split_some _ e _ _ Hfm).
    destruct (fm_some_facts _ _ _ Hfm) as (Hlt & Hi & Hb & Hne).
    destruct (marker_lens i Hlt) as (_ & L1 & L2).
    pose proof (cost_index_end_le (skipn (N.to_nat pos + length (mk_sm i)) data) (mk_em i) (negb (mk_isc i))) as C.
    rewrite lenN_skipn_eq in C by lia. rewrite lenN_length in *. lia.
  - pose proof (cost_split_none data e Hfm). lia.
Qed.

(* a split call that delivers a token costs at most 4 steps per byte it advances over (+2):
   the search for the start marker stops at the marker, the search for the end marker at the end *)
Lemma split_tok_cost d adv tok : split d true = Ok (Tok adv tok) ->
  (Z.of_N (cost_split d true) <= 4 * adv + 2)%Z.
Proof.
  destruct (first_match d start_matches) as [[pos i]|] eqn:Hfm.
  - rewrite (split_some _ true _ _ Hfm), (cost_split_some _ true _ _ Hfm).
    destruct (fm_some_facts _ _ _ Hfm) as (Hlt & Hi & Hb & Hne).
    destruct (marker_lens i Hlt) as (_ & L1 & L2).
    destruct (index_end _ _ _) as [k|] eqn:Ek.
    + intros H. inversion H; subst. pose proof (cost_index_end_some _ _ _ _ Ek).
      unfold lenZ. rewrite !lenN_length. lia.
    + destruct (mk_req i); [discriminate|]. intros H. inversion H; subst.
      pose proof (cost_index_end_le (skipn (N.to_nat pos + length (mk_sm i)) d) (mk_em i) (negb (mk_isc i))) as C.
      rewrite lenN_skipn_eq in C by lia. unfold lenZ. rewrite lenN_length in *. lia.
  - rewrite (split_none _ true Hfm). pose proof (cost_split_none d true Hfm) as C.
    destruct d; [discriminate|]. intros H. inversion H; subst. unfold lenZ. lia.
Qed.

(* the whole document in one window: LINEAR (6 steps per byte) *)
Lemma cost_strip_go_linear fuel : forall d, cost_strip_go fuel d <= 6 * lenN d + 6.
Proof.
  induction fuel as [|f IH]; intros d; cbn [cost_strip_go]; [lia|].
  pose proof (cost_split_linear d true) as S.
  destruct (split d true) as [[|adv tok]|?|?] eqn:Sp; try lia.
  pose proof (split_tok_cost d adv tok Sp) as T.
  destruct ((adv <=? 0)%Z || (lenZ d <? adv)%Z) eqn:B; [lia|].
  apply orb_false_elim in B. destruct B as [B1 B2]. apply Z.leb_gt in B1. apply Z.ltb_ge in B2.
  specialize (IH (skipn (Z.to_nat adv) d)).
  unfold lenZ in B2. rewrite lenN_skipn_eq in IH by (rewrite lenN_length in B2; lia).
  lia.
Qed.

Theorem cost_strip_linear d : cost_strip d <= 6 * lenN d + 6.
Proof. apply cost_strip_go_linear. Qed.

(* regression witness of the window rescan that fix 73a5c57 removed: m line comments used to cost
   >= 3m(m+1)/2 (the apostrophe marker was searched through the whole window for every token) *)
Example strip_line_comments_cost : cost_strip (concat (repeat [47; 47; 10] 50)) <= 6 * 150 + 6.
Proof. apply cost_strip_linear. Qed.
End PJson.
