(* Lemmas about the transport model of Lib/IO.v: every reader built here (the segment transport,
   bufio.Reader over any sound reader) is determined by its flattening -- the bytes it delivers
   before it ends and the error it ends with -- and so are io.ReadFull and io.CopyN on it
   ("read_segs_concat": however the transport splits the stream). *)
From Verif Require Import Lib.Base Lib.Err Lib.IO.
Open Scope N_scope.

(* ---------- small list facts ---------- *)
Lemma frev_rev {A} (l : list A) : frev l = rev l.
Proof. unfold frev. now rewrite rev_append_rev, app_nil_r. Qed.

Lemma lenN_acc_spec b : forall a, lenN_acc a b = a + N.of_nat (length b).
Proof. induction b as [|x b IH]; intros a; cbn [lenN_acc length]; [lia|rewrite IH; lia]. Qed.
Lemma lenN_length b : lenN b = N.of_nat (length b).
Proof. unfold lenN. now rewrite lenN_acc_spec. Qed.
Lemma lenN_nil : lenN [] = 0. Proof. reflexivity. Qed.
Lemma lenN_app a b : lenN (a ++ b) = lenN a + lenN b.
Proof. rewrite !lenN_length, app_length. lia. Qed.
Lemma lenN_zero b : lenN b = 0 -> b = [].
Proof. rewrite lenN_length. destruct b; cbn; [auto|lia]. Qed.
Lemma lenN_pos b : b <> [] -> 0 < lenN b.
Proof. rewrite lenN_length. destruct b; cbn; [congruence|lia]. Qed.

Lemma split_at_spec b : forall n, split_at n b = (firstn (N.to_nat n) b, skipn (N.to_nat n) b).
Proof.
  induction b as [|x b IH]; intros n; cbn [split_at].
  - now rewrite firstn_nil, skipn_nil.
  - destruct (N.eqb_spec n 0) as [->|Hn]; [reflexivity|].
    rewrite IH. replace (N.to_nat n) with (S (N.to_nat (N.pred n))) by lia. reflexivity.
Qed.

Lemma firstn_app_over (d r : bytes) need : lenN d < need ->
  firstn (N.to_nat need) (d ++ r) = d ++ firstn (N.to_nat (need - lenN d)) r.
Proof.
  intros H. rewrite lenN_length in *. rewrite firstn_app.
  replace (N.to_nat need - length d)%nat with (N.to_nat (need - N.of_nat (length d))) by lia.
  rewrite firstn_all2 by lia. reflexivity.
Qed.
Lemma skipn_app_over (d r : bytes) need : lenN d < need ->
  skipn (N.to_nat need) (d ++ r) = skipn (N.to_nat (need - lenN d)) r.
Proof.
  intros H. rewrite lenN_length in *. rewrite skipn_app.
  replace (N.to_nat need - length d)%nat with (N.to_nat (need - N.of_nat (length d))) by lia.
  rewrite (skipn_all2 d) by lia. reflexivity.
Qed.

Lemma firstn_app_exact {A} (a r : list A) : firstn (length a) (a ++ r) = a.
Proof. rewrite firstn_app, Nat.sub_diag, firstn_all. cbn. apply app_nil_r. Qed.
Lemma skipn_app_exact {A} (a r : list A) : skipn (length a) (a ++ r) = r.
Proof. rewrite skipn_app, Nat.sub_diag, skipn_all. reflexivity. Qed.

(* ---------- sound readers ---------- *)
Section Sound.
  Variable S : Type.
  Variable rd : N -> S -> bytes * option N * S.
  Variable fl : S -> bytes * N.          (* the flattening: data still to come, terminal error *)
  Variable inv : S -> Prop.

  (* one Read call of at most n > 0 bytes: returns a prefix of the data still to come, at most
     n bytes; without an error it makes progress; an error is reported only together with or
     after the last byte, it is the terminal error, and it is reported again afterwards *)
  Definition rd_ok (n : N) (st : S) : Prop :=
    let '(d, oe, st') := rd n st in
    inv st' /\ lenN d <= n /\
    exists r, fst (fl st) = d ++ r /\
      match oe with
      | None => d <> [] /\ fl st' = (r, snd (fl st))
      | Some e => r = [] /\ e = snd (fl st) /\ fl st' = ([], e)
      end.
  Definition sound : Prop := forall n st, 0 < n -> inv st -> rd_ok n st.

  Hypothesis Hsound : sound.

  (* io.ReadFull *)
  Lemma read_full_go_spec : forall fuel need acc any st b t,
    inv st -> fl st = (b, t) -> 0 < need -> (N.to_nat need < fuel)%nat ->
    (need <= lenN b ->
       exists st', read_full_go S rd fuel need acc any st
                   = Ok (concat (rev acc) ++ firstn (N.to_nat need) b, st')
                   /\ fl st' = (skipn (N.to_nat need) b, t) /\ inv st') /\
    (lenN b < need ->
       read_full_go S rd fuel need acc any st
       = Err (if (any || (0 <? lenN b)) && (t =? id_EOF) then id_UnexpectedEOF else t)).
  Proof.
    induction fuel as [|fuel IH]; intros need acc any st b t Hinv Hfl Hneed Hfuel; [lia|].
    cbn [read_full_go].
    pose proof (Hsound need st Hneed Hinv) as Hok. unfold rd_ok in Hok.
    destruct (rd need st) as [[d oe] st'] eqn:Hrd.
    rewrite Hfl in Hok. cbn [fst snd] in Hok.
    destruct Hok as (Hinv' & Hlen & r & Hb & Hoe). subst b.
    rewrite lenN_app.
    destruct (N.leb_spec need (lenN d)) as [Hle|Hgt].
    - (* this call completes the request *)
      assert (Hl : lenN d = need) by lia.
      assert (Hn : N.to_nat need = length d) by (rewrite <- Hl, lenN_length; lia).
      split; [intros _|intros H; lia].
      exists st'. rewrite frev_rev. cbn [rev]. rewrite concat_app. cbn [concat]. rewrite app_nil_r.
      rewrite Hn, firstn_app_exact, skipn_app_exact.
      split; [reflexivity|]. split; [|exact Hinv'].
      destruct oe as [e|].
      + destruct Hoe as (-> & -> & Hf). exact Hf.
      + destruct Hoe as (_ & Hf). exact Hf.
    - destruct oe as [e|].
      + (* the stream ended short *)
        destruct Hoe as (-> & -> & _). rewrite lenN_nil, N.add_0_r.
        split; [intros H; lia|intros _]. now destruct ((any || (0 <? lenN d)) && (t =? id_EOF)).
      + destruct Hoe as (Hd & Hf).
        assert (Hlp : 0 < lenN d) by now apply lenN_pos.
        destruct (IH (need - lenN d) (d :: acc) (any || (0 <? lenN d)) st' r t Hinv' Hf) as [IHok IHshort];
          [lia|lia|].
        split.
        * intros Hle. destruct IHok as (st'' & Hr & Hf'' & Hi''); [lia|].
          exists st''. rewrite Hr, Hf''.
          rewrite (firstn_app_over d r need), (skipn_app_over d r need) by exact Hgt.
          cbn [rev]. rewrite concat_app. cbn [concat]. rewrite app_nil_r, <- app_assoc.
          split; [reflexivity|]. split; [reflexivity|exact Hi''].
        * intros Hlt. rewrite IHshort by lia.
          replace (0 <? lenN d) with true by (symmetry; apply N.ltb_lt; lia).
          replace (0 <? lenN d + lenN r) with true by (symmetry; apply N.ltb_lt; lia).
          now rewrite !orb_true_r.
  Qed.

  Theorem read_full_sound n st : inv st ->
    match read_full_flat n (fl st) with
    | Ok (x, f') => exists st', read_full S rd n st = Ok (x, st') /\ fl st' = f' /\ inv st'
    | Err e => read_full S rd n st = Err e
    | Panic _ => False
    end.
  Proof.
    intros Hinv. destruct (fl st) as [b t] eqn:Hfl. unfold read_full_flat, read_full.
    destruct (N.eqb_spec n 0) as [->|Hn].
    - destruct (N.leb_spec 0 (lenN b)) as [_|H0]; [|lia]. cbn. exists st. rewrite Hfl. auto.
    - destruct (read_full_go_spec (Datatypes.S (N.to_nat n)) n [] false st b t Hinv Hfl) as [Hok Hshort];
        [lia|lia|].
      destruct (N.leb_spec n (lenN b)) as [Hle|Hgt].
      + destruct (Hok Hle) as (st' & Hr & Hf & Hi). exists st'. cbn [rev concat app] in Hr. auto.
      + rewrite (Hshort Hgt). cbn [orb]. destruct b as [|x b].
        * reflexivity.
        * replace (0 <? lenN (x :: b)) with true
            by (symmetry; apply N.ltb_lt; apply lenN_pos; congruence).
          cbn [andb]. now destruct (t =? id_EOF).
  Qed.

  (* io.CopyN *)
  Lemma copy_n_go_spec ask : 0 < ask -> forall fuel need acc st b t,
    inv st -> fl st = (b, t) -> 0 < need -> (N.to_nat need < fuel)%nat ->
    (need <= lenN b ->
       exists st', copy_n_go S rd fuel ask need acc st
                   = Ok (concat (rev acc) ++ firstn (N.to_nat need) b, st')
                   /\ fl st' = (skipn (N.to_nat need) b, t) /\ inv st') /\
    (lenN b < need -> copy_n_go S rd fuel ask need acc st = Err t).
  Proof.
    intros Hask. induction fuel as [|fuel IH]; intros need acc st b t Hinv Hfl Hneed Hfuel; [lia|].
    cbn [copy_n_go].
    assert (Hq : 0 < N.min ask need) by lia.
    pose proof (Hsound (N.min ask need) st Hq Hinv) as Hok. unfold rd_ok in Hok.
    destruct (rd (N.min ask need) st) as [[d oe] st'] eqn:Hrd.
    rewrite Hfl in Hok. cbn [fst snd] in Hok.
    destruct Hok as (Hinv' & Hlen & r & Hb & Hoe). subst b.
    rewrite lenN_app.
    destruct (N.leb_spec need (lenN d)) as [Hle|Hgt].
    - assert (Hl : lenN d = need) by lia.
      assert (Hn : N.to_nat need = length d) by (rewrite <- Hl, lenN_length; lia).
      split; [intros _|intros H; lia].
      exists st'. rewrite frev_rev. cbn [rev]. rewrite concat_app. cbn [concat]. rewrite app_nil_r.
      rewrite Hn, firstn_app_exact, skipn_app_exact.
      split; [reflexivity|]. split; [|exact Hinv'].
      destruct oe as [e|].
      + destruct Hoe as (-> & -> & Hf). exact Hf.
      + destruct Hoe as (_ & Hf). exact Hf.
    - destruct oe as [e|].
      + destruct Hoe as (-> & -> & _). rewrite lenN_nil, N.add_0_r.
        split; [intros H; lia|intros _; reflexivity].
      + destruct Hoe as (Hd & Hf).
        assert (Hlp : 0 < lenN d) by now apply lenN_pos.
        destruct (IH (need - lenN d) (d :: acc) st' r t Hinv' Hf) as [IHok IHshort]; [lia|lia|].
        split.
        * intros Hle. destruct IHok as (st'' & Hr & Hf'' & Hi''); [lia|].
          exists st''. rewrite Hr, Hf''.
          rewrite (firstn_app_over d r need), (skipn_app_over d r need) by exact Hgt.
          cbn [rev]. rewrite concat_app. cbn [concat]. rewrite app_nil_r, <- app_assoc.
          split; [reflexivity|]. split; [reflexivity|exact Hi''].
        * intros Hlt. apply IHshort. lia.
  Qed.

  Theorem copy_n_sound ask n st : 0 < ask -> inv st ->
    match copy_n_flat n (fl st) with
    | Ok (x, f') => exists st', copy_n S rd ask n st = Ok (x, st') /\ fl st' = f' /\ inv st'
    | Err e => copy_n S rd ask n st = Err e
    | Panic _ => False
    end.
  Proof.
    intros Hask Hinv. destruct (fl st) as [b t] eqn:Hfl. unfold copy_n_flat, copy_n.
    destruct (N.eqb_spec n 0) as [->|Hn].
    - destruct (N.leb_spec 0 (lenN b)) as [_|H0]; [|lia]. cbn. exists st. rewrite Hfl. auto.
    - destruct (copy_n_go_spec ask Hask (Datatypes.S (N.to_nat n)) n [] st b t Hinv Hfl) as [Hok Hshort];
        [lia|lia|].
      destruct (N.leb_spec n (lenN b)) as [Hle|Hgt].
      + destruct (Hok Hle) as (st' & Hr & Hf & Hi). exists st'. cbn [rev concat app] in Hr. auto.
      + exact (Hshort Hgt).
  Qed.

  (* ---------- bufio.Reader over a sound reader is a sound reader ---------- *)
  Definition br_flat (b : bufr S) : bytes * N :=
    match br_err b with
    | Some e => (br_buf b, e)
    | None => let (d, t) := fl (br_under b) in (br_buf b ++ d, t)
    end.
  Definition br_inv (b : bufr S) : Prop :=
    inv (br_under b) /\ forall e, br_err b = Some e -> fl (br_under b) = ([], e).
End Sound.

Arguments rd_ok {S}. Arguments sound {S}. Arguments br_flat {S}. Arguments br_inv {S}.

Lemma split_at_nonempty n b a r : 0 < n -> b <> [] -> split_at n b = (a, r) ->
  a <> [] /\ b = a ++ r /\ lenN a <= n.
Proof.
  intros Hn Hb H. rewrite split_at_spec in H. inversion H; subst a r. clear H.
  split; [|split].
  - destruct b as [|x b]; [congruence|]. replace (N.to_nat n) with (Datatypes.S (N.to_nat (N.pred n))) by lia.
    cbn. congruence.
  - now rewrite firstn_skipn.
  - rewrite lenN_length, firstn_length. lia.
Qed.

Theorem bufio_sound S rd fl inv :
  sound rd fl inv -> sound (br_read S rd) (br_flat fl) (br_inv fl inv).
Proof.
  intros Hs n [buf err u] Hn [Hiu Hie]. cbn [br_under br_err br_buf] in Hiu, Hie.
  unfold rd_ok, br_read, br_flat, br_inv. cbn [br_buf br_err br_under].
  destruct buf as [|x buf].
  - destruct err as [e|].
    + (* pending error, nothing buffered: reported and cleared *)
      cbn [br_under br_err br_buf]. rewrite (Hie e eq_refl). cbn [fst snd app].
      split; [split; [exact Hiu|discriminate]|]. split; [rewrite lenN_nil; lia|].
      exists []. auto.
    + destruct (N.leb_spec bufio_size n) as [Hbig|Hsmall].
      * (* large read, empty buffer: straight from the underlying reader *)
        pose proof (Hs n u Hn Hiu) as Hok. unfold rd_ok in Hok.
        destruct (rd n u) as [[d oe] u'] eqn:Hrd.
        destruct (fl u) as [b t] eqn:Hfu. cbn [fst snd app] in *.
        destruct Hok as (Hiu' & Hlen & r & Hb & Hoe).
        cbn [br_under br_err br_buf].
        split; [split; [exact Hiu'|discriminate]|]. split; [exact Hlen|].
        exists r. split; [exact Hb|].
        destruct oe as [e|].
        -- destruct Hoe as (-> & -> & Hf). rewrite Hf. auto.
        -- destruct Hoe as (Hd & Hf). rewrite Hf. auto.
      * (* fill the buffer with one Read, then copy out *)
        assert (Hbs : 0 < bufio_size) by (unfold bufio_size; lia).
        pose proof (Hs bufio_size u Hbs Hiu) as Hok. unfold rd_ok in Hok.
        destruct (rd bufio_size u) as [[d oe] u'] eqn:Hrd.
        destruct (fl u) as [b t] eqn:Hfu. cbn [fst snd app] in *.
        destruct Hok as (Hiu' & Hlen & r & Hb & Hoe).
        destruct d as [|y d].
        -- (* nothing read: the error (there must be one) is passed on *)
           cbn [br_under br_err br_buf].
           split; [split; [exact Hiu'|discriminate]|]. split; [rewrite lenN_nil; lia|].
           exists r. split; [exact Hb|].
           destruct oe as [e|].
           ++ destruct Hoe as (-> & -> & Hf). rewrite Hf. auto.
           ++ destruct Hoe as (Hd & _). congruence.
        -- destruct (split_at n (y :: d)) as [a rest] eqn:Hsp.
           destruct (split_at_nonempty n (y :: d) a rest Hn ltac:(congruence) Hsp) as (Ha & Hyd & Hla).
           cbn [br_under br_err br_buf].
           split.
           { split; [exact Hiu'|]. intros e He. destruct oe as [e'|]; [|discriminate].
             injection He as ->. destruct Hoe as (_ & _ & Hf). exact Hf. }
           split; [exact Hla|].
           exists (rest ++ r). split; [rewrite Hb, Hyd, <- app_assoc; reflexivity|].
           split; [exact Ha|].
           destruct oe as [e|].
           ++ destruct Hoe as (-> & -> & Hf). now rewrite app_nil_r.
           ++ destruct Hoe as (_ & Hf). rewrite Hf. reflexivity.
  - (* buffered data is served first *)
    destruct (split_at n (x :: buf)) as [a rest] eqn:Hsp.
    destruct (split_at_nonempty n (x :: buf) a rest Hn ltac:(congruence) Hsp) as (Ha & Hxb & Hla).
    cbn [br_under br_err br_buf].
    split; [split; [exact Hiu|exact Hie]|]. split; [exact Hla|].
    destruct err as [e|].
    + cbn [fst snd]. exists rest. split; [exact Hxb|]. split; [exact Ha|reflexivity].
    + destruct (fl u) as [b t] eqn:Hfu. cbn [fst snd].
      exists (rest ++ b). split; [rewrite Hxb, <- app_assoc; reflexivity|]. split; [exact Ha|reflexivity].
Qed.

(* ---------- the segment transport is a sound reader ---------- *)
Theorem transport_sound : sound tr_read flat (fun _ => True).
Proof.
  intros n s Hn _. unfold rd_ok. induction s as [|sg s IH].
  - cbn. split; [exact I|]. split; [lia|]. exists []. auto.
  - destruct sg as [b|e|b e].
    + destruct b as [|x b].
      * (* an empty Data segment is skipped *)
        cbn [tr_read flat]. destruct (tr_read n s) as [[d oe] s'].
        destruct (flat s) as [fb ft]. cbn [app fst snd] in *. exact IH.
      * cbn [tr_read flat].
        destruct (split_at n (x :: b)) as [a rest] eqn:Hsp.
        destruct (split_at_nonempty n (x :: b) a rest Hn ltac:(congruence) Hsp) as (Ha & Hxb & Hla).
        destruct (flat s) as [fb ft] eqn:Hfs. cbn [fst snd].
        destruct rest as [|y rest].
        -- split; [exact I|]. split; [exact Hla|]. exists fb. rewrite Hxb, app_nil_r.
           split; [reflexivity|]. split; [exact Ha|]. exact Hfs.
        -- split; [exact I|]. split; [exact Hla|]. exists ((y :: rest) ++ fb).
           split; [rewrite Hxb, <- app_assoc; reflexivity|]. split; [exact Ha|].
           cbn [flat]. now rewrite Hfs.
    + cbn. split; [exact I|]. split; [lia|]. exists []. auto.
    + destruct b as [|x b].
      * cbn. split; [exact I|]. split; [lia|]. exists []. auto.
      * cbn [tr_read flat fst snd].
        destruct (split_at n (x :: b)) as [a rest] eqn:Hsp.
        destruct (split_at_nonempty n (x :: b) a rest Hn ltac:(congruence) Hsp) as (Ha & Hxb & Hla).
        destruct rest as [|y rest].
        -- split; [exact I|]. split; [exact Hla|]. exists []. rewrite Hxb.
           split; [reflexivity|]. cbn. auto.
        -- split; [exact I|]. split; [exact Hla|]. exists (y :: rest).
           split; [exact Hxb|]. split; [exact Ha|]. reflexivity.
Qed.

(* bufio.Reader over the transport, as NewProtocol builds it *)
Definition bt_flat : bufr stream -> bytes * N := br_flat flat.
Definition bt_inv : bufr stream -> Prop := br_inv flat (fun _ => True).

Corollary buffered_transport_sound : sound (br_read stream tr_read) bt_flat bt_inv.
Proof. apply bufio_sound, transport_sound. Qed.

Lemma bt_new s : bt_inv (bufr_new s) /\ bt_flat (bufr_new s) = flat s.
Proof.
  unfold bt_inv, bt_flat, br_inv, br_flat, bufr_new. cbn.
  split; [split; [exact I|discriminate]|]. now destruct (flat s).
Qed.

(* ---------- read_segs_concat: two streams with the same flattening cannot be told apart by
   io.ReadFull / io.CopyN, directly or through bufio.Reader ---------- *)
Definition same_result {S1 S2} (f1 : S1 -> bytes * N) (f2 : S2 -> bytes * N)
  (r1 : res (bytes * S1)) (r2 : res (bytes * S2)) : Prop :=
  match r1, r2 with
  | Ok (x1, s1), Ok (x2, s2) => x1 = x2 /\ f1 s1 = f2 s2
  | Err e1, Err e2 => e1 = e2
  | _, _ => False
  end.

Lemma read_full_same S1 rd1 fl1 inv1 S2 rd2 fl2 inv2 n (st1 : S1) (st2 : S2) :
  sound rd1 fl1 inv1 -> sound rd2 fl2 inv2 -> inv1 st1 -> inv2 st2 -> fl1 st1 = fl2 st2 ->
  same_result fl1 fl2 (read_full S1 rd1 n st1) (read_full S2 rd2 n st2).
Proof.
  intros H1 H2 I1 I2 Hf.
  pose proof (read_full_sound S1 rd1 fl1 inv1 H1 n st1 I1) as A.
  pose proof (read_full_sound S2 rd2 fl2 inv2 H2 n st2 I2) as B.
  rewrite <- Hf in B. destruct (read_full_flat n (fl1 st1)) as [[x f']|e|p].
  - destruct A as (s1' & -> & F1 & _). destruct B as (s2' & -> & F2 & _). cbn. split; congruence.
  - rewrite A, B. reflexivity.
  - contradiction.
Qed.

Lemma copy_n_same S1 rd1 fl1 inv1 S2 rd2 fl2 inv2 a1 a2 n (st1 : S1) (st2 : S2) :
  0 < a1 -> 0 < a2 ->
  sound rd1 fl1 inv1 -> sound rd2 fl2 inv2 -> inv1 st1 -> inv2 st2 -> fl1 st1 = fl2 st2 ->
  same_result fl1 fl2 (copy_n S1 rd1 a1 n st1) (copy_n S2 rd2 a2 n st2).
Proof.
  intros Ha1 Ha2 H1 H2 I1 I2 Hf.
  pose proof (copy_n_sound S1 rd1 fl1 inv1 H1 a1 n st1 Ha1 I1) as A.
  pose proof (copy_n_sound S2 rd2 fl2 inv2 H2 a2 n st2 Ha2 I2) as B.
  rewrite <- Hf in B. destruct (copy_n_flat n (fl1 st1)) as [[x f']|e|p].
  - destruct A as (s1' & -> & F1 & _). destruct B as (s2' & -> & F2 & _). cbn. split; congruence.
  - rewrite A, B. reflexivity.
  - contradiction.
Qed.

(* however the transport splits the stream, whatever sizes the caller's buffer has, with or
   without a bufio.Reader in between *)
Theorem read_segs_concat n a1 a2 s1 s2 : 0 < a1 -> 0 < a2 -> flat s1 = flat s2 ->
  same_result flat flat (read_full stream tr_read n s1) (read_full stream tr_read n s2) /\
  same_result flat flat (copy_n stream tr_read a1 n s1) (copy_n stream tr_read a2 n s2) /\
  same_result flat bt_flat (read_full stream tr_read n s1)
              (read_full _ (br_read stream tr_read) n (bufr_new s2)).
Proof.
  intros Ha1 Ha2 Hf. split; [|split].
  - apply (read_full_same _ _ _ _ _ _ _ _ n s1 s2 transport_sound transport_sound I I Hf).
  - apply (copy_n_same _ _ _ _ _ _ _ _ a1 a2 n s1 s2 Ha1 Ha2 transport_sound transport_sound I I Hf).
  - destruct (bt_new s2) as [Hi Hb].
    apply (read_full_same _ _ _ _ _ _ _ _ n s1 (bufr_new s2) transport_sound buffered_transport_sound I Hi).
    now rewrite Hb.
Qed.
