(* The buffered writer over the failing transport depends on the pieces it is given only through
   their lengths: two runs on pieces of equal lengths make the same transport calls (same sizes),
   fail or succeed alike and leave the peer with the same number of bytes. *)
From Verif Require Import Lib.Base Lib.Sx Lib.Err Lib.IO Model.Faults Proofs.FaultsIO.
Open Scope N_scope.

Definition wl (w w' : wtr) : Prop :=
  (wt_calls w = wt_calls w' /\ wt_sticky w = wt_sticky w') /\ wt_failat w = wt_failat w' /\ wt_m w = wt_m w' /\ wt_term w = wt_term w' /\
  wt_failed w = wt_failed w' /\ map lenN (wt_peer w) = map lenN (wt_peer w').
Definition bl (b b' : bufw) : Prop :=
  bw_n b = bw_n b' /\ bw_err b = bw_err b' /\ map lenN (bw_rev b) = map lenN (bw_rev b') /\
  wl (bw_under b) (bw_under b').

Lemma lenN_firstn_eq (p p' : bytes) n : lenN p = lenN p' -> lenN (firstn n p) = lenN (firstn n p').
Proof. rewrite !lenN_length, !firstn_length. lia. Qed.
Lemma lenN_skipn_eq (p p' : bytes) n : lenN p = lenN p' -> lenN (skipn n p) = lenN (skipn n p').
Proof. rewrite !lenN_length, !skipn_length. lia. Qed.

Lemma lenN_concat_eq (l l' : list bytes) : map lenN l = map lenN l' -> lenN (concat l) = lenN (concat l').
Proof.
  revert l'. induction l as [|x l IH]; intros [|y l'] H; try discriminate; [reflexivity|].
  injection H as H1 H2. cbn [concat]. rewrite !lenN_app, H1, (IH _ H2). reflexivity.
Qed.
Lemma map_lenN_rev (l l' : list bytes) : map lenN l = map lenN l' -> map lenN (rev l) = map lenN (rev l').
Proof. intros H. now rewrite !map_rev, H. Qed.
Lemma bw_buf_len b b' : map lenN (bw_rev b) = map lenN (bw_rev b') -> lenN (bw_buf b) = lenN (bw_buf b').
Proof. intros H. unfold bw_buf. rewrite !frev_rev. apply lenN_concat_eq, map_lenN_rev, H. Qed.

Lemma wt_write_len p p' w w' : lenN p = lenN p' -> wl w w' ->
  fst (fst (wt_write p w)) = fst (fst (wt_write p' w')) /\ snd (fst (wt_write p w)) = snd (fst (wt_write p' w')) /\
  wl (snd (wt_write p w)) (snd (wt_write p' w')).
Proof.
  intros Hp ((Hc & Hs) & Ha & Hm & Ht & Hf & Hpe). unfold wt_write, wt_err. rewrite Hf, Ha, Hc, Hm, Ht, Hp, Hs.
  destruct (wt_failed w') eqn:Hf'.
  - cbn. repeat split; auto; congruence.
  - destruct (match wt_failat w' with Some i => i =? wt_calls w' | None => false end).
    + rewrite !split_at_spec. cbn [fst snd]. repeat split; cbn; auto; try congruence.
      f_equal; [|exact Hpe]. now apply lenN_firstn_eq.
    + cbn [fst snd]. repeat split; cbn; auto; try congruence.
Qed.

Definition same2 (r r' : option N * bufw) : Prop := fst r = fst r' /\ bl (snd r) (snd r').

Lemma flush_len b b' : bl b b' -> same2 (bw_flush b) (bw_flush b').
Proof.
  intros Hb0. pose proof Hb0 as (Hn & He & Hr & Hw). unfold bw_flush. rewrite Hn, He.
  destruct (bw_err b'); [split; [reflexivity|exact Hb0]|].
  destruct (bw_n b' =? 0); [split; [reflexivity|exact Hb0]|].
  pose proof (bw_buf_len b b' Hr) as Hb.
  destruct (wt_write_len (bw_buf b) (bw_buf b') _ _ Hb Hw) as (H1 & H2 & H3).
  destruct (wt_write (bw_buf b) (bw_under b)) as [[m oe] u]. destruct (wt_write (bw_buf b') (bw_under b')) as [[m' oe'] u'].
  cbn [fst snd] in *. subst m' oe'.
  assert (Hsk : lenN (skipn (N.to_nat m) (bw_buf b)) = lenN (skipn (N.to_nat m) (bw_buf b'))) by now apply lenN_skipn_eq.
  destruct oe as [e|]; [|destruct (m <? bw_n b')]; rewrite ?split_at_spec; (split; [reflexivity|]); cbn [snd];
    (split; [reflexivity|]); (split; [reflexivity|]); (split; [|exact H3]); cbn; congruence.
Qed.

Lemma write_go_len fuel : forall p p' b b', lenN p = lenN p' -> bl b b' ->
  same2 (bw_write_go fuel p b) (bw_write_go fuel p' b').
Proof.
  induction fuel as [|f IH]; intros p p' b b' Hp Hb; cbn [bw_write_go].
  - split; [reflexivity|exact Hb].
  - pose proof Hb as (Hn & He & Hr & Hw). unfold bw_avail. rewrite Hn, He, Hp.
    destruct (bw_err b'); [split; [reflexivity|exact Hb]|].
    destruct (bufio_size - bw_n b' <? lenN p').
    + destruct (bw_n b' =? 0).
      * destruct (wt_write_len p p' _ _ Hp Hw) as (H1 & H2 & H3).
        destruct (wt_write p (bw_under b)) as [[m oe] u]. destruct (wt_write p' (bw_under b')) as [[m' oe'] u'].
        cbn [fst snd] in *. subst m' oe'. rewrite !split_at_spec. apply IH; [now apply lenN_skipn_eq|].
        split; [cbn; congruence|]. split; [reflexivity|]. split; [exact Hr|exact H3].
      * rewrite !split_at_spec. cbn beta iota zeta.
        set (b1 := mk_bufw _ bufio_size None (bw_under b)). set (b1' := mk_bufw _ bufio_size None (bw_under b')).
        assert (H1 : bl b1 b1').
        { split; [reflexivity|]. split; [reflexivity|]. split; [|exact Hw]. cbn. f_equal; [|exact Hr]. now apply lenN_firstn_eq. }
        destruct (flush_len b1 b1' H1) as [_ H2].
        destruct (bw_flush b1) as [o b2]. destruct (bw_flush b1') as [o' b2']. apply IH; [now apply lenN_skipn_eq|exact H2].
    + split; [reflexivity|]. split; [cbn; congruence|]. split; [reflexivity|]. split; [|exact Hw]. cbn. f_equal; [exact Hp|exact Hr].
Qed.

Lemma copy_len p p' b b' : lenN p = lenN p' -> bl b b' -> same2 (bw_copy_bytes p b) (bw_copy_bytes p' b').
Proof.
  intros Hp Hb. unfold bw_copy_bytes. destruct p as [|x p], p' as [|y p']; try (exfalso; rewrite !lenN_length in Hp; cbn [length] in Hp; lia).
  - split; [reflexivity|exact Hb].
  - unfold bw_write. now apply write_go_len.
Qed.

Lemma copies_len ps : forall ps' b b', map lenN ps = map lenN ps' -> bl b b' ->
  same2 (bw_copies ps b) (bw_copies ps' b').
Proof.
  induction ps as [|p ps IH]; intros [|p' ps'] b b' H Hb; try discriminate; cbn [bw_copies].
  - split; [reflexivity|exact Hb].
  - injection H as H1 H2. destruct (copy_len p p' b b' H1 Hb) as [A B].
    destruct (bw_copy_bytes p b) as [o b1]. destruct (bw_copy_bytes p' b') as [o' b1']. cbn [fst snd] in *. subst o'.
    destruct o; [split; [reflexivity|exact B]|]. now apply IH.
Qed.

Lemma message_len o o' b b' : map lenN o = map lenN o' -> bl b b' ->
  same2 (rtmp_write_message o b) (rtmp_write_message o' b').
Proof.
  intros H Hb. unfold rtmp_write_message. destruct (copies_len o o' b b' H Hb) as [A B].
  destruct (bw_copies o b) as [x b1]. destruct (bw_copies o' b') as [x' b1']. cbn [fst snd] in *. subst x'.
  destruct x; [split; [reflexivity|exact B]|]. now apply flush_len.
Qed.

Theorem ops_len ops : forall ops' b b' n, map (map lenN) ops = map (map lenN) ops' -> bl b b' ->
  fst (fst (rtmp_write_ops ops b n)) = fst (fst (rtmp_write_ops ops' b' n)) /\
  snd (fst (rtmp_write_ops ops b n)) = snd (fst (rtmp_write_ops ops' b' n)) /\
  bl (snd (rtmp_write_ops ops b n)) (snd (rtmp_write_ops ops' b' n)).
Proof.
  induction ops as [|o ops IH]; intros [|o' ops'] b b' n H Hb; try discriminate; cbn [rtmp_write_ops].
  - auto.
  - injection H as H1 H2. destruct (message_len o o' b b' H1 Hb) as [A B].
    destruct (rtmp_write_message o b) as [x b1]. destruct (rtmp_write_message o' b') as [x' b1']. cbn [fst snd] in *. subst x'.
    destruct x; [cbn; auto|]. now apply IH.
Qed.

(* the peer has received the same number of bytes *)
Lemma wl_received w w' : wl w w' -> lenN (wt_received w) = lenN (wt_received w').
Proof. intros (_ & _ & _ & _ & _ & H). unfold wt_received. rewrite !frev_rev. apply lenN_concat_eq, map_lenN_rev, H. Qed.
