(* The linear-time decoder [decf] of Model/Amf0.v computes the same function as the faithful
   transcription [dec] (which advances by Size() with a checked slice): the executable model the
   harness runs is the one the theorems are about. *)
From Verif Require Import Lib.Base Lib.Sx Model.Amf0 Proofs.Amf0.
Open Scope N_scope.

Lemma decf_S f m r : decf (S f) (m :: r) =
  if m =? mObject then
    (let* (ps, sz, rest) := decf_props f true 0 r [] 0 0 in Ok (AObj ps, 1 + 3 + sz, rest))
  else if m =? mEcmaArray then
    match r with
    | a :: b :: c :: d :: r' =>
        let* (ps, sz, rest) := decf_props f true 0 r' [] 0 0 in
        Ok (AEcma (ube4 a b c d) ps, 1 + 4 + 3 + sz, rest)
    | _ => Err E_SHORT
    end
  else if m =? mStrictArray then
    match r with
    | a :: b :: c :: d :: r' =>
        let count := ube4 a b c d in
        if count =? 0 then Ok (AStrict [], 1 + 4, r')
        else let* (ps, sz, rest) := decf_props f false count r' [] 0 0 in
             Ok (AStrict ps, 1 + 4 + sz, rest)
    | _ => Err E_SHORT
    end
  else
    match dec 1 (m :: r) with
    | Ok (v, n) =>
        match takeN n (m :: r) with
        | Some (_, rest) => Ok (v, n, rest)
        | None => Panic 1
        end
    | Err e => Err e
    | Panic s => Panic s
    end.
Proof. reflexivity. Qed.

Lemma decf_props_S f eof maxn p racc n sz : decf_props (S f) eof maxn p racc n sz =
  if negb eof && (maxn <=? n) then Ok (rev racc, sz, p)
  else
    match um_utf8 p with
    | Ok (k, p1) =>
        if eof && is_eof k p1 then Ok (rev racc, sz, tl p1)
        else
          match decf f p1 with
          | Ok (v, vs, p2) =>
              decf_props f eof maxn p2 ((k, v) :: racc) (N.succ n) (sz + (utf8_size k + vs))
          | Err e => Err e
          | Panic s => Panic s
          end
    | Err e => Err e
    | Panic s => Panic s
    end.
Proof. reflexivity. Qed.

(* for a non-container marker one step of [dec] does not look at the fuel *)
Lemma dec_scalar_fuel f m r :
  (m =? mObject) = false -> (m =? mEcmaArray) = false -> (m =? mStrictArray) = false ->
  dec (S f) (m :: r) = dec 1 (m :: r).
Proof. intros H1 H2 H3. rewrite !dec_S, H1, H2, H3. reflexivity. Qed.

Definition sim (p : bytes) (X : res (amf * N)) (Y : res (amf * N * bytes)) : Prop :=
  match X with
  | Ok (v, n) => exists w rest, p = w ++ rest /\ lenN w = n /\ Y = Ok (v, n, rest)
  | Err e => Y = Err e
  | Panic _ => True
  end.

Definition simp (p : bytes) (eof : bool) (sz : N) (X : res (props * N)) (Y : res (props * N * bytes)) : Prop :=
  match X with
  | Ok (ps, sz') =>
      exists w rest, p = w ++ rest /\ sz + lenN w = sz' + (if eof then 3 else 0) /\ Y = Ok (ps, sz', rest)
  | Err e => Y = Err e
  | Panic _ => True
  end.

Lemma decf_sim : forall f,
  (forall p, sim p (dec f p) (decf f p)) /\
  (forall eof maxn p racc n sz,
     simp p eof sz (dec_props f eof maxn p racc n sz) (decf_props f eof maxn p racc n sz)).
Proof.
  induction f as [|f [IHd IHp]]; [split; intros; reflexivity|]. split.
  - intros p. destruct p as [|m r]; [reflexivity|]. rewrite decf_S.
    destruct (m =? mObject) eqn:Eo.
    { apply N.eqb_eq in Eo. subst m. rewrite dec_obj, um_object_eq.
      specialize (IHp true 0 r [] 0 0). unfold simp in IHp.
      destruct (dec_props f true 0 r [] 0 0) as [[ps sz']|e|s]; cbv beta iota delta [bind sim].
      - destruct IHp as (w & rest & -> & Hl & ->). cbv beta iota delta [bind].
        exists (mObject :: w), rest. split; [reflexivity|]. split; [rewrite lenN_cons; lia|reflexivity].
      - rewrite IHp. reflexivity.
      - exact I. }
    destruct (m =? mEcmaArray) eqn:Ee.
    { apply N.eqb_eq in Ee. subst m. rewrite dec_ecma.
      destruct r as [|a [|b [|c [|d r']]]]; try reflexivity. rewrite um_ecma_eq.
      specialize (IHp true 0 r' [] 0 0). unfold simp in IHp.
      destruct (dec_props f true 0 r' [] 0 0) as [[ps sz']|e|s]; cbv beta iota delta [bind sim].
      - destruct IHp as (w & rest & -> & Hl & ->). cbv beta iota delta [bind].
        exists (mEcmaArray :: a :: b :: c :: d :: w), rest. split; [reflexivity|].
        split; [rewrite !lenN_cons; lia|reflexivity].
      - rewrite IHp. reflexivity.
      - exact I. }
    destruct (m =? mStrictArray) eqn:Es.
    { apply N.eqb_eq in Es. subst m. rewrite dec_strict.
      destruct r as [|a [|b [|c [|d r']]]]; try reflexivity. rewrite um_strict_eq. cbv zeta.
      destruct (ube4 a b c d =? 0).
      { exists [mStrictArray; a; b; c; d], r'. repeat split. }
      specialize (IHp false (ube4 a b c d) r' [] 0 0). unfold simp in IHp.
      destruct (dec_props f false (ube4 a b c d) r' [] 0 0) as [[ps sz']|e|s]; cbv beta iota delta [bind sim].
      - destruct IHp as (w & rest & -> & Hl & ->). cbv beta iota delta [bind].
        exists (mStrictArray :: a :: b :: c :: d :: w), rest. split; [reflexivity|].
        split; [rewrite !lenN_cons; lia|reflexivity].
      - rewrite IHp. reflexivity.
      - exact I. }
    rewrite (dec_scalar_fuel f m r Eo Ee Es).
    destruct (dec 1 (m :: r)) as [[v n]|e|s] eqn:E; cbv beta iota delta [sim]; [|reflexivity|exact I].
    destruct (amf0_dec_takeN _ _ _ _ E) as (w & rest & Ht & Hp). rewrite Ht.
    exists w, rest. split; [exact Hp|]. split; [|reflexivity].
    apply takeN_some in Ht. apply Ht.
  - intros eof maxn p racc n sz. rewrite dec_props_S, decf_props_S.
    destruct (negb eof && (maxn <=? n)) eqn:Estop.
    { exists [], p. apply andb_true_iff in Estop. destruct Estop as [He _]. destruct eof; [discriminate|].
      split; [reflexivity|]. split; [rewrite lenN_nil; lia|reflexivity]. }
    destruct (um_utf8 p) as [[k p1]|e|s] eqn:Eu; [|reflexivity|exact I].
    apply um_utf8_ok in Eu. destruct Eu as (h & l & -> & Hk).
    destruct (eof && is_eof k p1) eqn:Eeof.
    { apply andb_true_iff in Eeof. destruct Eeof as [-> His].
      apply is_eof_true in His. destruct His as (-> & r & ->).
      exists [h; l; mObjectEnd], r. split; [reflexivity|]. split; [rewrite !lenN_cons, lenN_nil; lia|reflexivity]. }
    specialize (IHd p1). unfold sim in IHd.
    destruct (dec f p1) as [[v vs]|e|s]; [|rewrite IHd; reflexivity|exact I].
    destruct IHd as (w & p2 & -> & Hl & ->).
    rewrite takeN_app by (symmetry; exact Hl).
    specialize (IHp eof maxn p2 ((k, v) :: racc) (N.succ n) (sz + (utf8_size k + vs))).
    unfold simp in *.
    destruct (dec_props f eof maxn p2 ((k, v) :: racc) (N.succ n) (sz + (utf8_size k + vs))) as [[ps sz']|e|s];
      [|exact IHp|exact I].
    destruct IHp as (w2 & rest & -> & Hl2 & ->).
    exists (h :: l :: k ++ w ++ w2), rest. split; [cbn [app]; now rewrite <- !app_assoc|].
    split; [|reflexivity]. unfold utf8_size in Hl2. rewrite !lenN_cons, !lenN_app. lia.
Qed.

Theorem decf_eq p : decode_fast p = decode p.
Proof.
  unfold decode_fast, decode. pose proof (proj1 (decf_sim (dec_fuel p)) p) as H. unfold sim in H.
  destruct (dec (dec_fuel p) p) as [[v n]|e|s] eqn:E.
  - destruct H as (w & rest & _ & _ & ->). reflexivity.
  - rewrite H. reflexivity.
  - exfalso. exact (amf0_dec_total' _ _ _ E).
Qed.

(* the remaining input reported by the fast decoder is the input after Size() bytes *)
Theorem decf_rest fuel p v n rest : decf fuel p = Ok (v, n, rest) ->
  dec fuel p = Ok (v, n) /\ exists w, p = w ++ rest /\ lenN w = n.
Proof.
  intros H. pose proof (proj1 (decf_sim fuel) p) as S. unfold sim in S.
  destruct (dec fuel p) as [[v' n']|e|s] eqn:E.
  - destruct S as (w & rest' & Hp & Hl & Hf). rewrite Hf in H. inversion H; subst. split; [reflexivity|eauto].
  - rewrite S in H. discriminate.
  - exfalso. exact (amf0_dec_total' _ _ _ E).
Qed.

(* ------------------------------------------------------------------ linear-time encoder *)
Lemma enc_to_obj ps tail : enc_to (AObj ps) tail = mObject :: enc_props_to ps (eof_bytes ++ tail).
Proof.
  cbn [enc_to]. f_equal. induction ps as [|[k x] t IH]; cbn [enc_props_to]; [reflexivity|now rewrite IH].
Qed.
Lemma enc_to_ecma c ps tail : enc_to (AEcma c ps) tail = mEcmaArray :: be4 c ++ enc_props_to ps (eof_bytes ++ tail).
Proof.
  cbn [enc_to]. f_equal. f_equal. induction ps as [|[k x] t IH]; cbn [enc_props_to]; [reflexivity|now rewrite IH].
Qed.
Lemma enc_to_strict ps tail : enc_to (AStrict ps) tail = mStrictArray :: be4 (u32 (plen ps)) ++ enc_props_to ps tail.
Proof.
  cbn [enc_to]. f_equal. f_equal. induction ps as [|[k x] t IH]; cbn [enc_props_to]; [reflexivity|now rewrite IH].
Qed.

Lemma enc_props_to_eq ps :
  Forall (fun kv => forall tail, enc_to (snd kv) tail = enc (snd kv) ++ tail) ps ->
  forall tail, enc_props_to ps tail = enc_props ps ++ tail.
Proof.
  induction 1 as [|[k x] t Hx _ IH]; intros tail; [reflexivity|].
  cbn [enc_props_to enc_props snd] in *. rewrite Hx, IH, <- !app_assoc. reflexivity.
Qed.

Lemma enc_to_eq v : forall tail, enc_to v tail = enc v ++ tail.
Proof.
  induction v as [b|b|s|ps IH| | |c ps IH|ps IH] using amf_ind'; intros tail; try reflexivity.
  - rewrite enc_to_obj, enc_obj, (enc_props_to_eq ps IH). cbn [app]. rewrite <- app_assoc. reflexivity.
  - rewrite enc_to_ecma, enc_ecma, (enc_props_to_eq ps IH). cbn [app]. rewrite <- !app_assoc. reflexivity.
  - rewrite enc_to_strict, enc_strict, (enc_props_to_eq ps IH). cbn [app]. rewrite <- !app_assoc. reflexivity.
Qed.

Theorem enc_fast_eq v : enc_fast v = enc v.
Proof. unfold enc_fast. rewrite enc_to_eq. apply app_nil_r. Qed.
