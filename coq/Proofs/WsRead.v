(* C14 proofs, part 1: byte-level facts, list helpers, WriteControl, and the characterisation
   of advanceFrame against the RFC header parser. *)
From Verif Require Import Lib.Base Lib.Sx Lib.Utf8 Model.WsRead Proofs.WsReadUtf8.
From Verif Require Import Gen.Gen_websocket.
Open Scope Z_scope.

Ltac Zify.zify_post_hook ::= Z.div_mod_to_equations.

(* ------------------------------------------------------------------ finite sweeps *)
Fixpoint range_all (n : nat) (P : N -> bool) : bool :=
  match n with O => true | S k => P (N.of_nat k) && range_all k P end.

Lemma range_all_spec n P : range_all n P = true -> forall b, (b < N.of_nat n)%N -> P b = true.
Proof.
  induction n as [|k IH]; intros H b Hb; [lia|].
  cbn [range_all] in H. apply andb_true_iff in H as [H1 H2].
  destruct (N.eq_dec b (N.of_nat k)) as [->|Hne]; [exact H1|]. apply IH; [exact H2|lia].
Qed.

Lemma byte_sweep (P : N -> bool) : range_all 256 P = true -> forall b, wf_byte b -> P b = true.
Proof. intros H b Hb. apply (range_all_spec 256 P H). unfold wf_byte in Hb. lia. Qed.

Definition b0_ok (p0 : N) : bool :=
  (Bool.eqb (negb (N.land p0 finalBit =? 0)%N) (p0 / 128 =? 1)%N)
  && (N.land p0 15 =? p0 mod 16)%N
  && (N.land p0 rsvMask =? ((p0 / 16) mod 8) * 16)%N.

Lemma b0_fields p0 : wf_byte p0 ->
  negb (N.land p0 finalBit =? 0)%N = (p0 / 128 =? 1)%N /\
  N.land p0 15 = (p0 mod 16)%N /\
  N.land p0 rsvMask = (((p0 / 16) mod 8) * 16)%N.
Proof.
  intros H. assert (E : b0_ok p0 = true) by (apply byte_sweep; [vm_compute; reflexivity|exact H]).
  unfold b0_ok in E. apply andb_true_iff in E as [E E3]. apply andb_true_iff in E as [E1 E2].
  apply Bool.eqb_prop in E1. apply N.eqb_eq in E2, E3. auto.
Qed.

Definition b1_ok (p1 : N) : bool :=
  (Bool.eqb (negb (N.land p1 maskBit =? 0)%N) (p1 / 128 =? 1)%N)
  && (N.land p1 127 =? p1 mod 128)%N.

Lemma b1_fields p1 : wf_byte p1 ->
  negb (N.land p1 maskBit =? 0)%N = (p1 / 128 =? 1)%N /\ N.land p1 127 = (p1 mod 128)%N.
Proof.
  intros H. assert (E : b1_ok p1 = true) by (apply byte_sweep; [vm_compute; reflexivity|exact H]).
  unfold b1_ok in E. apply andb_true_iff in E as [E1 E2].
  apply Bool.eqb_prop in E1. apply N.eqb_eq in E2. auto.
Qed.

(* opcode classes *)
Definition op_ok (op : N) : bool :=
  Bool.eqb (is_control (Z.of_N op)) ((8 <=? op) && (op <=? 10))%N
  && Bool.eqb (is_data (Z.of_N op)) ((op =? 1) || (op =? 2))%N
  && Bool.eqb (Z.of_N op =? websocket_continuationFrame) (op =? 0)%N.

Lemma op_classes op : (op < 16)%N ->
  is_control (Z.of_N op) = ((8 <=? op) && (op <=? 10))%N /\
  is_data (Z.of_N op) = ((op =? 1) || (op =? 2))%N /\
  (Z.of_N op =? websocket_continuationFrame) = (op =? 0)%N.
Proof.
  intros H. assert (E : op_ok op = true) by (apply (range_all_spec 16); [vm_compute; reflexivity|exact H]).
  unfold op_ok in E. apply andb_true_iff in E as [E E3]. apply andb_true_iff in E as [E1 E2].
  apply Bool.eqb_prop in E1, E2, E3. auto.
Qed.

(* ------------------------------------------------------------------ lists *)
Lemma lenN_acc_length b : forall acc, lenN_acc acc b = (acc + N.of_nat (length b))%N.
Proof. induction b as [|x t IH]; intros acc; cbn [lenN_acc length]; [lia|]. rewrite IH. lia. Qed.

Lemma lenN_length b : lenN b = N.of_nat (length b).
Proof. unfold lenN. rewrite lenN_acc_length. lia. Qed.

Lemma take_app n : forall b p r, take n b = Some (p, r) -> b = p ++ r /\ length p = n.
Proof.
  induction n as [|k IH]; intros b p r H; cbn [take] in H.
  - inversion H; subst. auto.
  - destruct b as [|x t]; [discriminate|]. destruct (take k t) as [[a r']|] eqn:E; [|discriminate].
    inversion H; subst. destruct (IH _ _ _ E) as [-> L]. cbn. auto.
Qed.

Lemma take_none n : forall b, take n b = None -> (length b < n)%nat.
Proof.
  induction n as [|k IH]; intros b H; cbn [take] in H; [discriminate|].
  destruct b as [|x t]; [cbn; lia|]. destruct (take k t) as [[a r']|] eqn:E; [discriminate|].
  apply IH in E. cbn. lia.
Qed.

Lemma take_some n : forall b, (n <= length b)%nat -> exists p r, take n b = Some (p, r).
Proof.
  intros b H. destruct (take n b) as [[p r]|] eqn:E; [eauto|]. apply take_none in E. lia.
Qed.

Lemma wf_app a b : wf_bytes (a ++ b) <-> wf_bytes a /\ wf_bytes b.
Proof. unfold wf_bytes. apply Forall_app. Qed.

Lemma rev'_rev {A} (l : list A) : rev' l = rev l.
Proof. unfold rev'. rewrite <- rev_alt. reflexivity. Qed.

Lemma split_at_spec n : forall b acc p r,
  split_at n b acc = Some (p, r) -> rev acc ++ b = p ++ r /\ N.of_nat (length p) = (N.of_nat (length acc) + n)%N.
Proof.
  intros b. revert n. induction b as [|x t IH]; intros n acc p r H; cbn [split_at] in H.
  - destruct (n =? 0)%N eqn:E; [|discriminate]. apply N.eqb_eq in E. inversion H; subst.
    rewrite rev'_rev, rev_length. split; [reflexivity|lia].
  - destruct (n =? 0)%N eqn:E.
    + apply N.eqb_eq in E. inversion H; subst. rewrite rev'_rev, rev_length. split; [reflexivity|lia].
    + apply N.eqb_neq in E. apply IH in H as [H1 H2]. cbn [rev length] in *. rewrite <- app_assoc in H1. cbn in H1.
      split; [exact H1|lia].
Qed.

Lemma split_at_none n : forall b acc, split_at n b acc = None -> (N.of_nat (length b) < n)%N.
Proof.
  intros b. revert n. induction b as [|x t IH]; intros n acc H; cbn [split_at] in H.
  - destruct (n =? 0)%N eqn:E; [discriminate|]. apply N.eqb_neq in E. cbn. lia.
  - destruct (n =? 0)%N eqn:E; [discriminate|]. apply N.eqb_neq in E. apply IH in H. cbn [length]. lia.
Qed.

Lemma split_at_nil n b p r : split_at n b [] = Some (p, r) -> b = p ++ r /\ N.of_nat (length p) = n.
Proof. intros H. apply split_at_spec in H. cbn in H. destruct H. split; [assumption|lia]. Qed.

(* be_val *)
Lemma be_val_acc_bound b : forall acc, wf_bytes b ->
  (be_val_acc acc b < (acc + 1) * 256 ^ N.of_nat (length b))%N.
Proof.
  induction b as [|x t IH]; intros acc H; cbn [be_val_acc length].
  - cbn. lia.
  - inversion H; subst. specialize (IH (acc * 256 + x)%N H3). unfold wf_byte in H2.
    rewrite Nat2N.inj_succ, N.pow_succ_r'. nia.
Qed.

Lemma be_val_bound b : wf_bytes b -> (be_val b < 256 ^ N.of_nat (length b))%N.
Proof. intros H. unfold be_val. pose proof (be_val_acc_bound b 0%N H). lia. Qed.

Lemma zi64_small x : 0 <= x < 9223372036854775808 -> zi64 x = x.
Proof. intros H. unfold zi64. rewrite Z.mod_small; lia. Qed.

Lemma zi64_big x : 9223372036854775808 <= x < 18446744073709551616 -> zi64 x < 0.
Proof. intros H. unfold zi64. lia. Qed.

(* ------------------------------------------------------------------ WriteControl / protocol error *)
Definition close_frame (code : Z) (msg : bytes) : Z * bytes :=
  (websocket_CloseMessage, format_close code msg).

(* what the caller can still observe after a failed advanceFrame *)
Definition proto_fail {A} (c : conn) (r : mres A) : Prop :=
  exists m c', r = MErr c' (EProto m) /\
    c_out c' = close_frame websocket_CloseProtocolError m :: c_out c /\
    c_errcount c' = c_errcount c.

Lemma length_format_close code m : length (format_close code m) = S (S (length m)).
Proof. unfold format_close, be2. cbn. reflexivity. Qed.

Lemma hpe_fail {A} m c0 c : c_wclosed c = false -> c_out c = c_out c0 -> c_errcount c = c_errcount c0 ->
  (length m <= 123)%nat -> @proto_fail A c0 (handle_protocol_error m c).
Proof.
  intros Hw Ho He Hm. unfold handle_protocol_error, write_control.
  replace (is_control websocket_CloseMessage) with true by reflexivity. cbn [negb].
  rewrite lenN_length, length_format_close.
  destruct (websocket_maxControlFramePayloadSize <? _) eqn:E.
  { apply Z.ltb_lt in E. change websocket_maxControlFramePayloadSize with 125 in E. lia. }
  rewrite Hw. exists m. eexists. split; [reflexivity|]. cbn. rewrite Ho, He. auto.
Qed.

Lemma length_msg_rsv rsv : (rsv < 256)%N -> (length (msg_rsv rsv) <= 123)%nat.
Proof. intros H. unfold msg_rsv, hex_byte. rewrite app_length. destruct (rsv <? 16)%N; cbn; lia. Qed.

Lemma length_msg_opcode t : (length (msg_opcode t) <= 123)%nat.
Proof. unfold msg_opcode, itoa_small. rewrite app_length. destruct (Z.to_N t <? 10)%N; cbn; lia. Qed.

(* ------------------------------------------------------------------ advanceFrame, step 2 *)
(* the message of the rule the first two header bytes break, in the order the code tests them *)
Definition head_violation (is_open fin : bool) (rsv op l7 : N) : option bytes :=
  if negb (rsv =? 0)%N then Some (msg_rsv (rsv * 16))
  else if ((8 <=? op) && (op <=? 10))%N then
    if (125 <? l7)%N then Some msg_ctl_len else if negb fin then Some msg_ctl_final else None
  else if ((op =? 1) || (op =? 2))%N then if is_open then Some msg_start else None
  else if (op =? 0)%N then if negb is_open then Some msg_cont else None
  else Some (msg_opcode (Z.of_N op)).

Lemma head_violation_len is_open fin rsv op l7 m : (rsv < 8)%N ->
  head_violation is_open fin rsv op l7 = Some m -> (length m <= 123)%nat.
Proof.
  intros Hr. unfold head_violation.
  repeat match goal with |- context [if ?b then _ else _] => destruct b end;
    intros H; inversion H; subst; try (cbn; lia).
  - apply length_msg_rsv. lia.
  - apply length_msg_opcode.
Qed.

Lemma af_head_eq c p0 p1 r : c_in c = p0 :: p1 :: r -> wf_byte p0 -> wf_byte p1 ->
  let fin := (p0 / 128 =? 1)%N in let rsv := ((p0 / 16) mod 8)%N in let op := (p0 mod 16)%N in
  let masked := (p1 / 128 =? 1)%N in let l7 := (p1 mod 128)%N in
  let c1 := set_rem (set_in c r) (Z.of_N l7) in
  af_head c =
    match head_violation (negb (c_final c)) fin rsv op l7 with
    | Some m => handle_protocol_error m c1
    | None => MOk (if (8 <=? op)%N then c1 else set_final c1 fin) (fin, Z.of_N op, masked)
    end.
Proof.
  intros Hin H0 H1. cbv zeta. unfold af_head, c_readn. rewrite Hin. cbn [take mbind].
  destruct (b0_fields p0 H0) as (F1 & F2 & F3). destruct (b1_fields p1 H1) as (G1 & G2).
  rewrite F1, F2, F3, G1, G2.
  assert (Hop : (p0 mod 16 < 16)%N) by (apply N.mod_lt; lia).
  destruct (op_classes _ Hop) as (C1 & C2 & C3). rewrite C1, C2, C3.
  unfold head_violation.
  replace ((p0 / 16) mod 8 * 16 =? 0)%N with ((p0 / 16) mod 8 =? 0)%N
    by (destruct ((p0 / 16) mod 8 =? 0)%N eqn:E; symmetry; [apply N.eqb_eq in E; apply N.eqb_eq; lia|apply N.eqb_neq in E; apply N.eqb_neq; lia]).
  destruct (negb ((p0 / 16) mod 8 =? 0)%N); [reflexivity|].
  destruct ((8 <=? p0 mod 16)%N && (p0 mod 16 <=? 10)%N) eqn:Ectl.
  - apply andb_true_iff in Ectl as [E8 _]. rewrite E8.
    change (c_rem (set_rem (set_in c r) (Z.of_N (p1 mod 128)))) with (Z.of_N (p1 mod 128)).
    change websocket_maxControlFramePayloadSize with 125.
    replace (125 <? Z.of_N (p1 mod 128)) with (125 <? p1 mod 128)%N
      by (destruct (125 <? p1 mod 128)%N eqn:E; symmetry; [apply N.ltb_lt in E; apply Z.ltb_lt; lia|apply N.ltb_ge in E; apply Z.ltb_ge; lia]).
    destruct (125 <? p1 mod 128)%N; [reflexivity|]. destruct (negb (p0 / 128 =? 1)%N); reflexivity.
  - assert (E8 : (8 <=? p0 mod 16)%N = false \/ (p0 mod 16 <=? 10)%N = false)
      by (apply andb_false_iff; exact Ectl).
    destruct ((p0 mod 16 =? 1)%N || (p0 mod 16 =? 2)%N) eqn:Ed.
    + assert ((8 <=? p0 mod 16)%N = false) as -> by (apply N.leb_gt; apply orb_true_iff in Ed as [E|E]; apply N.eqb_eq in E; lia).
      change (c_final (set_rem (set_in c r) (Z.of_N (p1 mod 128)))) with (c_final c).
      destruct (c_final c); reflexivity.
    + destruct (p0 mod 16 =? 0)%N eqn:Ez.
      * assert ((8 <=? p0 mod 16)%N = false) as -> by (apply N.leb_gt; apply N.eqb_eq in Ez; lia).
        change (c_final (set_rem (set_in c r) (Z.of_N (p1 mod 128)))) with (c_final c).
        destruct (c_final c); reflexivity.
      * reflexivity.
Qed.

(* ------------------------------------------------------------------ the header rules, code vs RFC *)
Ltac decide_cmp :=
  repeat match goal with
  | |- context [(?a <=? ?b)%N] =>
    first [ replace (a <=? b)%N with true by (symmetry; apply N.leb_le; lia)
          | replace (a <=? b)%N with false by (symmetry; apply N.leb_gt; lia) ]
  | |- context [(?a <? ?b)%N] =>
    first [ replace (a <? b)%N with true by (symmetry; apply N.ltb_lt; lia)
          | replace (a <? b)%N with false by (symmetry; apply N.ltb_ge; lia) ]
  | |- context [(?a =? ?b)%N] =>
    first [ replace (a =? b)%N with true by (symmetry; apply N.eqb_eq; lia)
          | replace (a =? b)%N with false by (symmetry; apply N.eqb_neq; lia) ]
  end.

Lemma viol_iff server is_open fin rsv op masked ext len key l7 :
  (rsv < 8)%N -> (op < 16)%N -> (ext = false -> len = l7 /\ (l7 < 126)%N) -> (ext = true -> (126 <= l7)%N) ->
  rfc_violation server is_open (mkHdr fin rsv op masked ext len key) =
  match head_violation is_open fin rsv op l7 with
  | Some _ => true
  | None => negb (Bool.eqb masked server)
  end.
Proof.
  intros Hr Ho He1 He2. unfold rfc_violation, head_violation. cbn [f_rsv f_masked f_op f_fin f_len f_ext].
  assert (Hrs : rsv = 0%N \/ (0 < rsv)%N) by lia.
  assert (Hop : op = 0%N \/ op = 1%N \/ op = 2%N \/ (3 <= op <= 7)%N \/ (8 <= op <= 10)%N \/ (11 <= op)%N) by lia.
  destruct ext.
  - specialize (He2 eq_refl). clear He1.
    destruct Hrs as [Hrs|Hrs]; destruct Hop as [Hop|[Hop|[Hop|[Hop|[Hop|Hop]]]]]; decide_cmp;
      destruct is_open, fin, masked, server; cbn [negb Bool.eqb orb andb]; try destruct (125 <? len)%N; reflexivity.
  - destruct (He1 eq_refl) as [-> Hl]. clear He1 He2.
    destruct Hrs as [Hrs|Hrs]; destruct Hop as [Hop|[Hop|[Hop|[Hop|[Hop|Hop]]]]]; decide_cmp;
      destruct is_open, fin, masked, server; reflexivity.
Qed.

(* ------------------------------------------------------------------ advanceFrame, steps 2-4 against rfc_header *)
Definition af_header (c : conn) : mres (bool * Z * bool) :=
  mbind (af_head c) (fun c h =>
  mbind (af_len true c) (fun c _ =>
  mbind (af_mask (snd h) c) (fun c _ => MOk c h))).

Lemma advance_frame_split c :
  advance_frame true c =
  mbind (af_skip c) (fun c _ => mbind (af_header c) (fun c h =>
    let '(final, frameType, mask) := h in
    if (frameType =? websocket_continuationFrame) || (frameType =? websocket_TextMessage)
       || (frameType =? websocket_BinaryMessage)
    then af_data true frameType c else af_control frameType c)).
Proof.
  unfold advance_frame, af_header. destruct (af_skip c) as [c1 []| |]; cbn [mbind]; [|reflexivity|reflexivity].
  destruct (af_head c1) as [c2 [[f t] m]| |]; cbn [mbind snd]; [|reflexivity|reflexivity].
  destruct (af_len true c2) as [c3 []| |]; cbn [mbind]; [|reflexivity|reflexivity].
  destruct (af_mask m c3) as [c4 []| |]; cbn [mbind]; reflexivity.
Qed.

Lemma proto_fail_bind {A B} c (r : mres A) (K : conn -> A -> mres B) : proto_fail c r -> proto_fail c (mbind r K).
Proof. intros (m & c' & -> & H). exists m, c'. cbn [mbind]. auto. Qed.

Lemma af_len_eq c l7 : c_rem c = Z.of_N l7 -> (l7 < 128)%N -> wf_bytes (c_in c) ->
  af_len true c =
    if (l7 <? 126)%N then MOk c tt
    else if (l7 =? 126)%N then
      match take 2 (c_in c) with
      | Some (l, r') => MOk (set_rem (set_in c r') (Z.of_N (be_val l))) tt
      | None => MErr (set_in c []) EUeof
      end
    else
      match take 8 (c_in c) with
      | Some (l, r') =>
          if (two63 <=? be_val l)%N
          then handle_protocol_error msg_len63 (set_rem (set_in c r') (zi64 (Z.of_N (be_val l))))
          else MOk (set_rem (set_in c r') (Z.of_N (be_val l))) tt
      | None => MErr (set_in c []) EUeof
      end.
Proof.
  intros Hrem Hl Hwf. unfold af_len. rewrite Hrem.
  destruct (N.ltb_spec l7 126) as [H1|H1].
  { replace (Z.of_N l7 =? 126) with false by (symmetry; apply Z.eqb_neq; lia).
    replace (Z.of_N l7 =? 127) with false by (symmetry; apply Z.eqb_neq; lia). reflexivity. }
  destruct (N.eqb_spec l7 126) as [H2|H2].
  { subst l7. cbn [Z.of_N Z.eqb Pos.eqb]. unfold c_readn. destruct (take 2 (c_in c)) as [[l r']|]; reflexivity. }
  assert (l7 = 127%N) as -> by lia. cbn [Z.of_N Z.eqb Pos.eqb]. unfold c_readn.
  destruct (take 8 (c_in c)) as [[l r']|] eqn:Et; cbn [mbind]; [|reflexivity].
  apply take_app in Et as [Eb Ll]. rewrite Eb in Hwf. apply wf_app in Hwf as [Hwl _].
  pose proof (be_val_bound l Hwl) as Hb. rewrite Ll in Hb. change (256 ^ N.of_nat 8)%N with 18446744073709551616%N in Hb.
  change (c_rem (set_rem (set_in c r') (zi64 (Z.of_N (be_val l))))) with (zi64 (Z.of_N (be_val l))).
  unfold two63. destruct (N.leb_spec 9223372036854775808 (be_val l)) as [H3|H3].
  - pose proof (zi64_big (Z.of_N (be_val l)) ltac:(lia)) as Hz.
    replace (zi64 (Z.of_N (be_val l)) <? 0) with true by (symmetry; apply Z.ltb_lt; exact Hz). reflexivity.
  - rewrite zi64_small by lia.
    replace (Z.of_N (be_val l) <? 0) with false by (symmetry; apply Z.ltb_ge; lia). reflexivity.
Qed.


(* rfc_header after its first two bytes *)
Definition hdr_parse (fin : bool) (rsv op : N) (masked : bool) (l7 : N) (r : bytes) : hparse :=
  let with_len (ext : bool) (len : N) (r : bytes) : hparse :=
      if masked then
        match take 4 r with
        | Some (k, r') => HOk (mkHdr fin rsv op masked ext len k) r'
        | None => HCut
        end
      else HOk (mkHdr fin rsv op masked ext len []) r in
  if (l7 <? 126)%N then with_len false l7 r
  else if (l7 =? 126)%N then
    match take 2 r with
    | Some (l, r') => with_len true (be_val l) r'
    | None => HCut
    end
  else
    match take 8 r with
    | Some (l, r') => if (two63 <=? be_val l)%N then HBadLen else with_len true (be_val l) r'
    | None => HCut
    end.

Lemma rfc_header_cons p0 p1 r :
  rfc_header (p0 :: p1 :: r) =
  hdr_parse (p0 / 128 =? 1)%N ((p0 / 16) mod 8)%N (p0 mod 16)%N (p1 / 128 =? 1)%N (p1 mod 128)%N r.
Proof. reflexivity. Qed.

Lemma hdr_parse_shape fin rsv op masked l7 r :
  match hdr_parse fin rsv op masked l7 r with
  | HEnd => False
  | HOk h rest => (f_fin h = fin) /\ (f_rsv h = rsv) /\ (f_op h = op) /\ (f_masked h = masked) /\
                  (f_ext h = false -> (f_len h = l7) /\ (l7 < 126)%N) /\ (f_ext h = true -> (126 <= l7)%N)
  | _ => True
  end.
Proof.
  unfold hdr_parse.
  destruct (N.ltb_spec l7 126) as [H1|H1].
  { destruct masked; [destruct (take 4 r) as [[k r']|]|]; cbn; try exact I; repeat split; auto; try discriminate. }
  destruct (N.eqb_spec l7 126) as [H2|H2].
  { destruct (take 2 r) as [[l r1]|]; [|exact I].
    destruct masked; [destruct (take 4 r1) as [[k r']|]|]; cbn; try exact I; repeat split; auto; try discriminate; lia. }
  destruct (take 8 r) as [[l r1]|]; [|exact I]. destruct (two63 <=? be_val l)%N; [exact I|].
  destruct masked; [destruct (take 4 r1) as [[k r']|]|]; cbn; try exact I; repeat split; auto; try discriminate; lia.
Qed.

Definition hdr_state (c : conn) (h : fhdr) (rest : bytes) : conn :=
  mkConn (c_server c) (c_limit c) (Z.of_N (f_len h)) (if (8 <=? f_op h)%N then c_final c else f_fin h)
         (c_len c) (c_err c) (c_errcount c) (if f_masked h then f_key h else c_key c) rest (c_out c) (c_wclosed c).

Definition ueof_fail {A} (c : conn) (r : mres A) : Prop :=
  exists c', r = MErr c' EUeof /\ c_out c' = c_out c /\ c_errcount c' = c_errcount c.

Lemma length_msg_len63 : (length msg_len63 <= 123)%nat. Proof. cbn. lia. Qed.
Lemma length_msg_mask : (length msg_mask <= 123)%nat. Proof. cbn. lia. Qed.

(* steps 3 and 4 on the state left by step 2, against the RFC parser's length / key stage *)
Lemma af_tail_spec c c2 fin rsv op masked l7 (hd : bool * Z * bool) :
  c_wclosed c2 = false -> c_out c2 = c_out c -> c_errcount c2 = c_errcount c -> wf_bytes (c_in c2) ->
  c_rem c2 = Z.of_N l7 -> (l7 < 128)%N -> (rsv < 8)%N -> (op < 16)%N ->
  head_violation (negb (c_final c)) fin rsv op l7 = None ->
  snd hd = masked ->
  let r := mbind (af_len true c2) (fun c _ => mbind (af_mask (snd hd) c) (fun c _ => MOk c hd)) in
  match hdr_parse fin rsv op masked l7 (c_in c2) with
  | HEnd => False
  | HCut => ueof_fail c r \/ proto_fail c r
  | HBadLen => proto_fail c r
  | HOk h rest =>
    if rfc_violation (c_server c2) (negb (c_final c)) h then proto_fail c r
    else r = MOk (mkConn (c_server c2) (c_limit c2) (Z.of_N (f_len h)) (c_final c2) (c_len c2) (c_err c2)
                         (c_errcount c2) (if f_masked h then f_key h else c_key c2) rest (c_out c2) (c_wclosed c2)) hd
  end.
Proof.
  intros Hw Ho He Hwf Hrem Hl Hrs Hop Hv Hm. cbv zeta. unfold hdr_parse. rewrite Hm.
  rewrite (af_len_eq c2 l7 Hrem Hl Hwf).
  (* the mask stage, for any state c3 reached after the length stage *)
  assert (MASK : forall c3 ext len,
    c_wclosed c3 = false -> c_out c3 = c_out c -> c_errcount c3 = c_errcount c ->
    c_server c3 = c_server c2 -> c_limit c3 = c_limit c2 -> c_final c3 = c_final c2 -> c_len c3 = c_len c2 ->
    c_err c3 = c_err c2 -> c_key c3 = c_key c2 -> c_rem c3 = Z.of_N len ->
    (ext = false -> len = l7 /\ (l7 < 126)%N) -> (ext = true -> (126 <= l7)%N) ->
    let r := mbind (af_mask masked c3) (fun c _ => MOk c hd) in
    match (if masked then
             match take 4 (c_in c3) with
             | Some (k, r') => HOk (mkHdr fin rsv op masked ext len k) r'
             | None => HCut
             end
           else HOk (mkHdr fin rsv op masked ext len []) (c_in c3)) with
    | HEnd => False
    | HCut => ueof_fail c r \/ proto_fail c r
    | HBadLen => proto_fail c r
    | HOk h rest =>
      if rfc_violation (c_server c2) (negb (c_final c)) h then proto_fail c r
      else r = MOk (mkConn (c_server c2) (c_limit c2) (Z.of_N (f_len h)) (c_final c2) (c_len c2) (c_err c2)
                           (c_errcount c2) (if f_masked h then f_key h else c_key c2) rest (c_out c2) (c_wclosed c2)) hd
    end).
  { intros c3 ext len Hw3 Ho3 He3 Hs3 Hl3 Hf3 Hn3 Her3 Hk3 Hr3 E1 E2. cbv zeta. unfold af_mask.
    destruct (Bool.eqb masked (c_server c3)) eqn:Em; cbn [negb].
    - (* mask flag right *)
      destruct masked.
      + unfold c_readn. destruct (take 4 (c_in c3)) as [[k r']|] eqn:Et; cbn [mbind].
        * rewrite (viol_iff _ _ _ _ _ _ _ _ _ l7 Hrs Hop E1 E2), Hv, <- Hs3, Em. cbn [negb f_len f_masked f_key].
          destruct c3; cbn in *. subst. rewrite ?He, ?Ho, ?Hw. reflexivity.
        * left. eexists. split; [reflexivity|]. cbn. auto.
      + cbn [mbind]. rewrite (viol_iff _ _ _ _ _ _ _ _ _ l7 Hrs Hop E1 E2), Hv, <- Hs3, Em. cbn [negb f_len f_masked f_key].
        destruct c3; cbn in *. subst. rewrite ?He, ?Ho, ?Hw. reflexivity.
    - (* incorrect mask flag *)
      assert (PF : proto_fail c (mbind (@handle_protocol_error unit msg_mask c3) (fun c _ => MOk c hd))).
      { apply proto_fail_bind. apply hpe_fail; auto using length_msg_mask. }
      destruct masked.
      + destruct (take 4 (c_in c3)) as [[k r']|]; [|right; exact PF].
        rewrite (viol_iff _ _ _ _ _ _ _ _ _ l7 Hrs Hop E1 E2), Hv, <- Hs3, Em. exact PF.
      + rewrite (viol_iff _ _ _ _ _ _ _ _ _ l7 Hrs Hop E1 E2), Hv, <- Hs3, Em. exact PF. }
  destruct (N.ltb_spec l7 126) as [H1|H1].
  { cbn [mbind]. apply (MASK c2 false l7); auto. intros; discriminate. }
  destruct (N.eqb_spec l7 126) as [H2|H2].
  { destruct (take 2 (c_in c2)) as [[l r']|] eqn:Et; cbn [mbind].
    - apply (MASK (set_rem (set_in c2 r') (Z.of_N (be_val l))) true (be_val l)); auto; intros; try discriminate; lia.
    - left. eexists. split; [reflexivity|]. cbn. auto. }
  destruct (take 8 (c_in c2)) as [[l r']|] eqn:Et; cbn [mbind].
  - destruct (two63 <=? be_val l)%N.
    + apply proto_fail_bind. apply hpe_fail; auto using length_msg_len63.
    + cbn [mbind]. apply (MASK (set_rem (set_in c2 r') (Z.of_N (be_val l))) true (be_val l)); auto; intros; try discriminate; lia.
  - left. eexists. split; [reflexivity|]. cbn. auto.
Qed.

Lemma af_header_spec c : c_wclosed c = false -> wf_bytes (c_in c) ->
  match rfc_header (c_in c) with
  | HEnd => ueof_fail c (af_header c)
  | HCut => ueof_fail c (af_header c) \/ proto_fail c (af_header c)
  | HBadLen => proto_fail c (af_header c)
  | HOk h rest =>
    if rfc_violation (c_server c) (negb (c_final c)) h then proto_fail c (af_header c)
    else af_header c = MOk (hdr_state c h rest) (f_fin h, Z.of_N (f_op h), f_masked h)
  end.
Proof.
  intros Hw Hwf. destruct (c_in c) as [|p0 [|p1 r]] eqn:Hin.
  - cbn [rfc_header]. unfold af_header, af_head, c_readn. rewrite Hin. cbn [take mbind].
    eexists. split; [reflexivity|]. cbn. auto.
  - cbn [rfc_header]. left. unfold af_header, af_head, c_readn. rewrite Hin. cbn [take mbind].
    eexists. split; [reflexivity|]. cbn. auto.
  - inversion Hwf as [|? ? H0 Hwf1]; subst. inversion Hwf1 as [|? ? H1 Hwr]; subst.
    rewrite rfc_header_cons. unfold af_header. rewrite (af_head_eq c p0 p1 r Hin H0 H1).
    set (fin := (p0 / 128 =? 1)%N). set (rsv := ((p0 / 16) mod 8)%N). set (op := (p0 mod 16)%N).
    set (masked := (p1 / 128 =? 1)%N). set (l7 := (p1 mod 128)%N).
    assert (Hrs : (rsv < 8)%N) by (apply N.mod_lt; lia).
    assert (Hop : (op < 16)%N) by (apply N.mod_lt; lia).
    assert (Hl : (l7 < 128)%N) by (apply N.mod_lt; lia).
    pose proof (hdr_parse_shape fin rsv op masked l7 r) as SH.
    destruct (head_violation (negb (c_final c)) fin rsv op l7) as [m|] eqn:Hv.
    + (* the first two bytes already break a rule *)
      assert (PF : forall B (K : conn -> bool * Z * bool -> mres B),
                 proto_fail c (mbind (handle_protocol_error m (set_rem (set_in c r) (Z.of_N l7))) K)).
      { intros B K. apply proto_fail_bind. apply hpe_fail; auto. eapply head_violation_len; eauto. }
      destruct (hdr_parse fin rsv op masked l7 r) as [| | |h rest]; [contradiction|right; apply PF|apply PF|].
      destruct SH as (S1 & S2 & S3 & S4 & S5 & S6). destruct h as [hf hr ho hm he hl hk]. cbn in S1, S2, S3, S4, S5, S6. subst.
      rewrite (viol_iff _ _ _ _ _ _ _ _ _ l7 Hrs Hop S5 S6), Hv. apply PF.
    + cbn [mbind].
      set (c2 := if (8 <=? op)%N then set_rem (set_in c r) (Z.of_N l7) else set_final (set_rem (set_in c r) (Z.of_N l7)) fin).
      pose proof (af_tail_spec c c2 fin rsv op masked l7 (fin, Z.of_N op, masked)) as T. cbv zeta in T.
      assert (Hin2 : WsRead.c_in c2 = r) by (unfold c2; destruct (8 <=? op)%N; reflexivity).
      rewrite Hin2 in T.
      assert (Hsrv : c_server c2 = c_server c) by (unfold c2; destruct (8 <=? op)%N; reflexivity).
      rewrite Hsrv in T.
      specialize (T ltac:(unfold c2; destruct (8 <=? op)%N; exact Hw)
                    ltac:(unfold c2; destruct (8 <=? op)%N; reflexivity)
                    ltac:(unfold c2; destruct (8 <=? op)%N; reflexivity)
                    Hwr
                    ltac:(unfold c2; destruct (8 <=? op)%N; reflexivity) Hl Hrs Hop Hv eq_refl).
      destruct (hdr_parse fin rsv op masked l7 r) as [| | |h rest]; [contradiction|exact T|exact T|].
      destruct SH as (S1 & S2 & S3 & S4 & S5 & S6).
      destruct (rfc_violation (c_server c) (negb (c_final c)) h); [exact T|].
      rewrite T. unfold hdr_state. rewrite S1, S3, S4. f_equal.
      unfold c2. destruct (8 <=? op)%N; reflexivity.
Qed.

(* ------------------------------------------------------------------ payload helpers *)
Lemma split_at_take_acc b : forall n acc,
  split_at n b acc = match take (N.to_nat n) b with Some (p, r) => Some (rev acc ++ p, r) | None => None end.
Proof.
  induction b as [|x t IH]; intros n acc; cbn [split_at].
  - destruct (N.eqb_spec n 0) as [->|Hn].
    + cbn. rewrite rev'_rev, app_nil_r. reflexivity.
    + destruct (N.to_nat n) eqn:E; [lia|]. reflexivity.
  - destruct (N.eqb_spec n 0) as [->|Hn].
    + cbn. rewrite rev'_rev, app_nil_r. reflexivity.
    + rewrite IH. replace (N.to_nat n) with (S (N.to_nat (N.pred n))) by lia. cbn [take].
      destruct (take (N.to_nat (N.pred n)) t) as [[p r]|]; [|reflexivity].
      cbn [rev]. rewrite <- app_assoc. reflexivity.
Qed.

Lemma split_at_take n b : split_at n b [] = take (N.to_nat n) b.
Proof. rewrite split_at_take_acc. destruct (take (N.to_nat n) b) as [[p r]|]; reflexivity. Qed.

Lemma mask_unmask key p : forall pos, mask_bytes key pos p = rfc_unmask key pos p.
Proof.
  induction p as [|x t IH]; intros pos; cbn [mask_bytes rfc_unmask]; [reflexivity|].
  rewrite IH. f_equal. f_equal. f_equal. change 3%N with (N.ones 2). rewrite N.land_ones. reflexivity.
Qed.

(* ------------------------------------------------------------------ close codes: table vs RFC *)
Lemma gen_bodies_ok t :
  websocket_isControl t = Ok (is_control t) /\ websocket_isData t = Ok (is_data t).
Proof. repeat split. Qed.

Lemma close_code_table code :
  is_valid_received_close_code (Z.of_N code) = rfc_close_code_ok code.
Proof.
  unfold is_valid_received_close_code, websocket_close_code_valid, websocket_close_code_table, rfc_close_code_ok.
  cbn [websocket_close_code_lookup].
  repeat match goal with
         | |- context [Z.of_N code =? ?k] =>
             let E := fresh "E" in
             destruct (Z.eqb_spec (Z.of_N code) k) as [E|E];
             [ (let v := eval vm_compute in (Z.to_N k) in assert (code = v) as -> by lia); vm_compute; reflexivity | ]
         end.
  apply Bool.eq_true_iff_eq.
  rewrite ?orb_true_iff, ?andb_true_iff, ?Z.leb_le, ?Z.geb_le, ?N.leb_le. lia.
Qed.

(* what a frame that passed the header rules looks like *)
Lemma viol_false_inv server is_open h : rfc_violation server is_open h = false ->
  f_masked h = server /\
  ((f_op h <= 2)%N \/ ((8 <= f_op h <= 10)%N /\ f_fin h = true /\ (f_len h <= 125)%N /\ f_ext h = false)) /\
  (f_op h = 0%N -> is_open = true) /\ (f_op h = 1%N \/ f_op h = 2%N -> is_open = false).
Proof.
  unfold rfc_violation. intros H.
  repeat (apply orb_false_iff in H; destruct H as [H ?]).
  apply negb_false_iff in H. apply N.eqb_eq in H.
  repeat match goal with Hx : negb _ = false |- _ => apply negb_false_iff in Hx end.
  match goal with Hx : Bool.eqb _ _ = true |- _ => apply Bool.eqb_prop in Hx; rename Hx into Hm end.
  split; [exact Hm|].
  repeat match goal with Hx : (_ && _) = false |- _ => apply andb_false_iff in Hx end.
  repeat match goal with Hx : (_ || _) = false |- _ => apply orb_false_iff in Hx; destruct Hx end.
  repeat match goal with
         | Hx : _ \/ _ |- _ => destruct Hx
         | Hx : negb _ = false |- _ => apply negb_false_iff in Hx
         | Hx : negb _ = true |- _ => apply negb_true_iff in Hx
         | Hx : (_ || _) = false |- _ => apply orb_false_iff in Hx; destruct Hx
         | Hx : (_ <=? _)%N = false |- _ => apply N.leb_gt in Hx
         | Hx : (_ <=? _)%N = true |- _ => apply N.leb_le in Hx
         | Hx : (_ <? _)%N = false |- _ => apply N.ltb_ge in Hx
         | Hx : (_ =? _)%N = false |- _ => apply N.eqb_neq in Hx
         | Hx : (_ =? _)%N = true |- _ => apply N.eqb_eq in Hx
         end;
  (split; [|split]);
    try (left; lia); try (right; repeat split; try assumption; lia);
    try (intros; subst; try lia; try congruence; auto);
    try (intros [?|?]; subst; try lia; try congruence; auto).
Qed.

(* ------------------------------------------------------------------ advanceFrame on a clean state *)
Record clean (server : bool) (limit : Z) (c : conn) : Prop := mkClean {
  cl_srv : c_server c = server; cl_lim : c_limit c = limit; cl_err : c_err c = None;
  cl_w : c_wclosed c = false; cl_rem : c_rem c = 0; cl_len : 0 <= c_len c < 9223372036854775808;
  cl_wf : wf_bytes (c_in c) }.

Definition ctl_state (c : conn) (h : fhdr) (rest : bytes) (out : list (Z * bytes)) : conn :=
  mkConn (c_server c) (c_limit c) 0 (c_final c) (c_len c) (c_err c) (c_errcount c)
         (if f_masked h then f_key h else c_key c) rest out (c_wclosed c).

Definition limit_fail {A} (c : conn) (r : mres A) : Prop :=
  exists c', r = MErr c' ELimit /\
    c_out c' = close_frame websocket_CloseMessageTooBig [] :: c_out c /\ c_errcount c' = c_errcount c.

Definition close_fail {A} (c : conn) (p : bytes) (r : mres A) : Prop :=
  match rfc_close p with
  | OClosed None _ =>
    exists c', r = MErr c' (EClose websocket_CloseNoStatusReceived []) /\
      c_out c' = (websocket_CloseMessage, []) :: c_out c /\ c_errcount c' = c_errcount c
  | OClosed (Some code) reason =>
    exists c', r = MErr c' (EClose (Z.of_N code) reason) /\
      c_out c' = close_frame (Z.of_N code) [] :: c_out c /\ c_errcount c' = c_errcount c
  | OViolation => proto_fail c r
  | _ => False
  end.

Lemma ueof_fail_bind {A B} c (r : mres A) (K : conn -> A -> mres B) : ueof_fail c r -> ueof_fail c (mbind r K).
Proof. intros (c' & -> & H). exists c'. cbn [mbind]. auto. Qed.

Lemma length_mask key p : forall pos, length (mask_bytes key pos p) = length p.
Proof. induction p as [|x t IH]; intros pos; cbn [mask_bytes length]; [reflexivity|]. rewrite IH. reflexivity. Qed.

Lemma length_unmask key p : forall pos, length (rfc_unmask key pos p) = length p.
Proof. intros pos. rewrite <- mask_unmask. apply length_mask. Qed.

Lemma rfc_payload_length h rest p rest' : rfc_payload h rest = Some (p, rest') ->
  N.of_nat (length p) = f_len h /\ exists q, rest = q ++ rest' /\ length q = length p.
Proof.
  unfold rfc_payload. destruct (split_at (f_len h) rest []) as [[q r]|] eqn:E; [|discriminate].
  intros H. inversion H; subst. apply split_at_nil in E as [E1 E2].
  split.
  - destruct (f_masked h); [rewrite length_unmask|]; exact E2.
  - exists q. split; [exact E1|]. destruct (f_masked h); [rewrite length_unmask|]; reflexivity.
Qed.

(* step 6: the control payload *)
Lemma af_control_payload c h rest :
  f_masked h = c_server c -> (f_len h <= 125)%N ->
  let hs := hdr_state c h rest in
  (if 0 <? c_rem hs then
     match c_readn (Z.to_nat (c_rem hs)) hs with
     | MOk c p => MOk (set_rem c 0) (if c_server c then mask_bytes (c_key c) 0 p else p)
     | MErr c e => MErr (set_rem c 0) e
     | MPanic s => MPanic s
     end
   else MOk hs [])
  = match rfc_payload h rest with
    | Some (p, rest') => MOk (set_rem (set_in hs rest') 0) p
    | None => MErr (set_rem (set_in hs []) 0) EUeof
    end.
Proof.
  intros Hm Hl. cbv zeta. unfold rfc_payload. rewrite split_at_take.
  change (c_rem (hdr_state c h rest)) with (Z.of_N (f_len h)).
  destruct (N.eqb_spec (f_len h) 0) as [E|E].
  - rewrite E. cbn [Z.of_N Z.ltb Z.compare N.to_nat take].
    unfold hdr_state. rewrite E. cbn [Z.of_N set_rem set_in c_server c_limit c_rem c_final c_len c_err c_errcount c_key c_in c_out c_wclosed].
    destruct (f_masked h); reflexivity.
  - replace (0 <? Z.of_N (f_len h)) with true by (symmetry; apply Z.ltb_lt; lia).
    replace (Z.to_nat (Z.of_N (f_len h))) with (N.to_nat (f_len h)) by lia. unfold c_readn. change (WsRead.c_in (hdr_state c h rest)) with rest.
    destruct (take (N.to_nat (f_len h)) rest) as [[p r]|]; [|reflexivity].
    cbn [set_in set_rem hdr_state c_server c_key c_limit c_rem c_final c_len c_err c_errcount c_in c_out c_wclosed].
    rewrite <- Hm. destruct (f_masked h); [rewrite mask_unmask|]; reflexivity.
Qed.

(* ------------------------------------------------------------------ well-formedness is preserved *)
Lemma lxor_byte a b : wf_byte a -> wf_byte b -> wf_byte (N.lxor a b).
Proof.
  intros Ha Hb.
  assert (E : range_all 256 (fun a => range_all 256 (fun b => N.lxor a b <? 256)%N) = true) by (vm_compute; reflexivity).
  pose proof (range_all_spec 256 _ E a ltac:(unfold wf_byte in Ha; lia)) as E1. cbv beta in E1.
  pose proof (range_all_spec 256 _ E1 b ltac:(unfold wf_byte in Hb; lia)) as E2. cbv beta in E2.
  apply N.ltb_lt in E2. exact E2.
Qed.

Lemma wf_nth key i : wf_bytes key -> wf_byte (nth i key 0%N).
Proof.
  intros H. destruct (Nat.lt_ge_cases i (length key)) as [Hi|Hi].
  - unfold wf_bytes in H. rewrite Forall_forall in H. apply H. apply nth_In. exact Hi.
  - rewrite nth_overflow by exact Hi. unfold wf_byte. lia.
Qed.

Lemma wf_unmask key p : wf_bytes key -> wf_bytes p -> forall pos, wf_bytes (rfc_unmask key pos p).
Proof.
  intros Hk Hp. induction Hp as [|x t Hx Ht IH]; intros pos; cbn [rfc_unmask]; constructor.
  - apply lxor_byte; [exact Hx|apply wf_nth; exact Hk].
  - apply IH.
Qed.

Lemma take_wf n b p r : take n b = Some (p, r) -> wf_bytes b -> wf_bytes p /\ wf_bytes r /\ length b = (n + length r)%nat.
Proof.
  intros H Hwf. apply take_app in H as [-> L]. apply wf_app in Hwf as [H1 H2].
  rewrite app_length. auto.
Qed.

Lemma hdr_parse_rest fin rsv op masked l7 r : wf_bytes r -> (l7 < 128)%N ->
  match hdr_parse fin rsv op masked l7 r with
  | HOk h rest => wf_bytes (f_key h) /\ wf_bytes rest /\ (length rest <= length r)%nat /\ (f_len h < two63)%N
  | _ => True
  end.
Proof.
  intros Hwf Hl7. unfold hdr_parse.
  assert (K : forall ext len r1, wf_bytes r1 -> (length r1 <= length r)%nat -> (len < two63)%N ->
    match (if masked then match take 4 r1 with Some (k, r') => HOk (mkHdr fin rsv op masked ext len k) r' | None => HCut end
           else HOk (mkHdr fin rsv op masked ext len []) r1) with
    | HOk h rest => wf_bytes (f_key h) /\ wf_bytes rest /\ (length rest <= length r)%nat /\ (f_len h < two63)%N
    | _ => True
    end).
  { intros ext len r1 Hw1 Hl1 Hlen. destruct masked.
    - destruct (take 4 r1) as [[k r']|] eqn:E; [|exact I]. destruct (take_wf _ _ _ _ E Hw1) as (A & B & C).
      cbn [f_key f_len]. repeat split; auto. lia.
    - cbn [f_key f_len]. repeat split; auto. constructor. }
  destruct (l7 <? 126)%N; [apply K; auto; unfold two63; lia|].
  destruct (l7 =? 126)%N.
  - destruct (take 2 r) as [[l r1]|] eqn:E; [|exact I]. destruct (take_wf _ _ _ _ E Hwf) as (A & B & C). apply K; auto; [lia|].
    pose proof (be_val_bound l A) as Hb. apply take_app in E as [_ L]. rewrite L in Hb.
    change (256 ^ N.of_nat 2)%N with 65536%N in Hb. unfold two63. lia.
  - destruct (take 8 r) as [[l r1]|] eqn:E; [|exact I]. destruct (take_wf _ _ _ _ E Hwf) as (A & B & C).
    destruct (N.leb_spec two63 (be_val l)); [exact I|]. apply K; auto. lia.
Qed.

Lemma rfc_header_rest bs h rest : wf_bytes bs -> rfc_header bs = HOk h rest ->
  wf_bytes (f_key h) /\ wf_bytes rest /\ (length rest + 2 <= length bs)%nat /\ (f_len h < two63)%N.
Proof.
  intros Hwf H. destruct bs as [|p0 [|p1 r]]; try discriminate.
  rewrite rfc_header_cons in H. inversion Hwf as [|? ? _ Hw1]; subst. inversion Hw1 as [|? ? _ Hwr]; subst.
  pose proof (hdr_parse_rest (p0 / 128 =? 1)%N ((p0 / 16) mod 8)%N (p0 mod 16)%N (p1 / 128 =? 1)%N (p1 mod 128)%N r Hwr
                ltac:(apply N.mod_lt; lia)) as P.
  rewrite H in P. destruct P as (A & B & C & D). cbn [length]. repeat split; auto. lia.
Qed.

Lemma rfc_payload_rest h rest p rest' : wf_bytes (f_key h) -> wf_bytes rest -> rfc_payload h rest = Some (p, rest') ->
  wf_bytes p /\ wf_bytes rest' /\ (length rest' <= length rest)%nat.
Proof.
  intros Hk Hw. unfold rfc_payload. destruct (split_at (f_len h) rest []) as [[q r]|] eqn:E; [|discriminate].
  intros H. inversion H; subst. apply split_at_nil in E as [-> _]. apply wf_app in Hw as [Hq Hr].
  rewrite app_length. repeat split; auto; [|lia]. destruct (f_masked h); [apply wf_unmask|]; auto.
Qed.

Lemma write_control_ok t data c : is_control t = true -> (length data <= 125)%nat -> c_wclosed c = false ->
  write_control t data c = (set_out c ((t, data) :: c_out c) (t =? websocket_CloseMessage), 0%N).
Proof.
  intros Ht Hd Hw. unfold write_control. rewrite Ht, Hw. cbn [negb].
  rewrite lenN_length. change websocket_maxControlFramePayloadSize with 125.
  replace (125 <? Z.of_N (N.of_nat (length data))) with false by (symmetry; apply Z.ltb_ge; lia). reflexivity.
Qed.

Lemma advance_frame_spec server limit c : clean server limit c -> limit < 9223372036854775808 ->
  match rfc_header (c_in c) with
  | HEnd => ueof_fail c (advance_frame true c)
  | HCut => ueof_fail c (advance_frame true c) \/ proto_fail c (advance_frame true c)
  | HBadLen => proto_fail c (advance_frame true c)
  | HOk h rest =>
    if rfc_violation server (negb (c_final c)) h then proto_fail c (advance_frame true c)
    else if (8 <=? f_op h)%N then
      match rfc_payload h rest with
      | None => ueof_fail c (advance_frame true c)
      | Some (p, rest') =>
        if (f_op h =? 9)%N
        then advance_frame true c = MOk (ctl_state c h rest' ((websocket_PongMessage, p) :: c_out c)) websocket_PingMessage
        else if (f_op h =? 10)%N
        then advance_frame true c = MOk (ctl_state c h rest' (c_out c)) websocket_PongMessage
        else close_fail c p (advance_frame true c)
      end
    else
      if (rfc_cap limit <? Z.to_N (c_len c) + f_len h)%N then limit_fail c (advance_frame true c)
      else advance_frame true c = MOk (set_len (hdr_state c h rest) (c_len c + Z.of_N (f_len h))) (Z.of_N (f_op h))
  end.
Proof.
  intros [Hsrv Hlim Herr Hw Hrem Hlen Hwf] Hl63. rewrite advance_frame_split.
  unfold af_skip. rewrite Hrem. cbn [Z.ltb Z.compare mbind].
  pose proof (af_header_spec c Hw Hwf) as H. rewrite Hsrv in H.
  destruct (rfc_header (WsRead.c_in c)) as [| | |h rest] eqn:Eh.
  - apply ueof_fail_bind. exact H.
  - destruct H as [H|H]; [left; apply ueof_fail_bind|right; apply proto_fail_bind]; exact H.
  - apply proto_fail_bind. exact H.
  - destruct (rfc_violation server (negb (c_final c)) h) eqn:Hv; [apply proto_fail_bind; exact H|].
    rewrite H. cbn [mbind]. clear H.
    destruct (viol_false_inv _ _ _ Hv) as (Vm & Vop & Vz & Vd).
    destruct (N.leb_spec 8 (f_op h)) as [H8|H8].
    2: destruct (rfc_header_rest _ _ _ Hwf Eh) as (_ & _ & _ & Hl63h).
    + (* control frame *)
      destruct Vop as [Vop|(Vop & Vfin & Vlen & Vext)]; [lia|].
      replace ((Z.of_N (f_op h) =? websocket_continuationFrame) || (Z.of_N (f_op h) =? websocket_TextMessage)
               || (Z.of_N (f_op h) =? websocket_BinaryMessage)) with false
        by (symmetry; unfold websocket_continuationFrame, websocket_TextMessage, websocket_BinaryMessage;
            rewrite !orb_false_iff; repeat split; apply Z.eqb_neq; lia).
      unfold af_control. rewrite (af_control_payload c h rest) by (rewrite ?Hsrv; auto).
      destruct (rfc_payload h rest) as [[p rest']|] eqn:Ep.
      2:{ cbn [mbind]. eexists. split; [reflexivity|]. cbn. auto. }
      cbn [mbind]. destruct (rfc_header_rest _ _ _ Hwf Eh) as (Hwk & Hwr & _ & Hl63h).
      destruct (rfc_payload_rest _ _ _ _ Hwk Hwr Ep) as (Hwp & _ & _).
      apply rfc_payload_length in Ep as [Lp _].
      assert (Hp125 : (length p <= 125)%nat) by lia.
      assert (Hop : f_op h = 8%N \/ f_op h = 9%N \/ f_op h = 10%N) by lia.
      destruct Hop as [Hop|[Hop|Hop]]; rewrite Hop; cbn [N.eqb Pos.eqb Z.of_N].
      * (* close *)
        replace (8 =? websocket_PongMessage) with false by reflexivity.
        replace (8 =? websocket_PingMessage) with false by reflexivity.
        replace (8 =? websocket_CloseMessage) with true by reflexivity.
        unfold close_fail, rfc_close.
        set (cs := set_rem (set_in (hdr_state c h rest) rest') 0).
        assert (Hcw : c_wclosed cs = false) by exact Hw.
        destruct p as [|b0 [|b1 text]].
        -- eexists. split; [reflexivity|]. unfold handle_close.
           replace (websocket_CloseNoStatusReceived =? websocket_CloseNoStatusReceived) with true by reflexivity.
           rewrite write_control_ok by (auto; cbn; lia). cbn. auto.
        -- eexists. split; [reflexivity|]. unfold handle_close.
           replace (websocket_CloseNoStatusReceived =? websocket_CloseNoStatusReceived) with true by reflexivity.
           rewrite write_control_ok by (auto; cbn; lia). cbn. auto.
        -- replace (be_val [b0; b1]) with (b0 * 256 + b1)%N by (unfold be_val; cbn [be_val_acc]; lia).
           rewrite close_code_table.
           destruct (rfc_close_code_ok (b0 * 256 + b1)) eqn:Ecode; cbn [negb andb].
           2:{ apply hpe_fail; auto. cbn. lia. }
           assert (Hwt : wf_bytes text).
           { inversion Hwp as [|? ? _ Hw1]; subst. inversion Hw1; subst. assumption. }
           rewrite (utf8_valid_spec text Hwt).
           destruct (utf8_spec text); cbn [negb].
           2:{ apply hpe_fail; auto. cbn. lia. }
           eexists. split; [reflexivity|]. unfold handle_close.
           replace (Z.of_N (b0 * 256 + b1) =? websocket_CloseNoStatusReceived) with false.
           2:{ symmetry. apply Z.eqb_neq. unfold websocket_CloseNoStatusReceived. unfold rfc_close_code_ok in Ecode.
               rewrite !orb_true_iff, !andb_true_iff, !N.leb_le in Ecode. lia. }
           rewrite write_control_ok by (auto; rewrite length_format_close; cbn; lia). cbn. auto.
      * (* ping *)
        replace (9 =? websocket_PongMessage) with false by reflexivity.
        replace (9 =? websocket_PingMessage) with true by reflexivity.
        unfold handle_ping. rewrite write_control_ok by (auto).
        cbn [N.eqb]. unfold ctl_state, hdr_state. rewrite Hop.
        replace (8 <=? 9)%N with true by reflexivity. rewrite Hw. reflexivity.
      * (* pong *)
        replace (10 =? websocket_PongMessage) with true by reflexivity.
        unfold ctl_state, hdr_state. rewrite Hop.
        replace (8 <=? 10)%N with true by reflexivity. reflexivity.
    + (* data frame *)
      destruct Vop as [Vop|(Vop & _)]; [|lia].
      replace ((Z.of_N (f_op h) =? websocket_continuationFrame) || (Z.of_N (f_op h) =? websocket_TextMessage)
               || (Z.of_N (f_op h) =? websocket_BinaryMessage)) with true.
      2:{ symmetry. unfold websocket_continuationFrame, websocket_TextMessage, websocket_BinaryMessage.
          rewrite !orb_true_iff, !Z.eqb_eq. lia. }
      unfold af_data.
      change (c_len (hdr_state c h rest)) with (c_len c). change (c_rem (hdr_state c h rest)) with (Z.of_N (f_len h)).
      cbn [andb].
      change (c_len (set_len (hdr_state c h rest) (zi64 (c_len c + Z.of_N (f_len h))))) with (zi64 (c_len c + Z.of_N (f_len h))).
      change (c_limit (set_len (hdr_state c h rest) (zi64 (c_len c + Z.of_N (f_len h))))) with (c_limit c).
      rewrite Hlim. unfold rfc_cap, two63 in *.
      assert (Hsum : c_len c + Z.of_N (f_len h) < 9223372036854775808 \/
                     9223372036854775808 <= c_len c + Z.of_N (f_len h) < 18446744073709551616) by lia.
      destruct Hsum as [Hsum|Hsum].
      * rewrite zi64_small by lia.
        replace (c_len c + Z.of_N (f_len h) <? 0) with false by (symmetry; apply Z.ltb_ge; lia). cbn [orb].
        destruct (Z.ltb_spec 0 limit) as [Hl0|Hl0]; cbn [andb].
        -- destruct (Z.ltb_spec limit (c_len c + Z.of_N (f_len h))) as [Ho|Ho].
           ++ replace (Z.to_N limit <? Z.to_N (c_len c) + f_len h)%N with true by (symmetry; apply N.ltb_lt; lia).
              rewrite write_control_ok by (auto; rewrite ?length_format_close; cbn; lia).
              eexists. split; [reflexivity|]. cbn. auto.
           ++ replace (Z.to_N limit <? Z.to_N (c_len c) + f_len h)%N with false by (symmetry; apply N.ltb_ge; lia).
              reflexivity.
        -- replace (9223372036854775808 - 1 <? Z.to_N (c_len c) + f_len h)%N with false by (symmetry; apply N.ltb_ge; lia).
           reflexivity.
      * pose proof (zi64_big _ Hsum) as Hneg.
        replace (zi64 (c_len c + Z.of_N (f_len h)) <? 0) with true by (symmetry; apply Z.ltb_lt; lia). cbn [orb].
        replace ((if (0 <? limit)%Z then Z.to_N limit else 9223372036854775808 - 1) <? Z.to_N (c_len c) + f_len h)%N with true.
        2:{ symmetry. apply N.ltb_lt. destruct (0 <? limit); lia. }
        rewrite write_control_ok by (auto; rewrite ?length_format_close; cbn; lia).
        eexists. split; [reflexivity|]. cbn. auto.
Qed.
