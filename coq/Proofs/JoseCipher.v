(* Proofs about Model/Jose.v: PKCS#7 padding, CBC-HMAC Open, the AEAD nonce guard. *)
From Verif Require Import Lib.Base Lib.Sx Model.Jose Proofs.Jose Proofs.JoseCompact.
Open Scope N_scope.
Ltac Zify.zify_post_hook ::= Z.div_mod_to_equations.

(* ------------------------------------------------------------------ take *)
Lemma take_firstn n : forall b, (n <= length b)%nat -> take n b = Some (firstn n b, skipn n b).
Proof.
  induction n as [|n IH]; intros b L; [reflexivity|].
  destruct b as [|x b]; [cbn in L; lia|]. cbn [take firstn skipn]. rewrite IH by (cbn in L; lia). reflexivity.
Qed.
Lemma take_short n : forall b, (length b < n)%nat -> take n b = None.
Proof.
  induction n as [|n IH]; intros b L; [lia|].
  destruct b as [|x b]; [reflexivity|]. cbn [take]. rewrite IH by (cbn in L; lia). reflexivity.
Qed.
Lemma take_app a r : take (length a) (a ++ r) = Some (a, r).
Proof.
  rewrite take_firstn by (rewrite app_length; lia).
  rewrite firstn_app, skipn_app, Nat.sub_diag, firstn_all, skipn_all. cbn. rewrite app_nil_r. reflexivity.
Qed.
Lemma split_at_app a r n : n = lenN a -> split_at n (a ++ r) = Some (a, r).
Proof. intros ->. unfold split_at, takeN. rewrite lenN_length, Nat2N.id. apply take_app. Qed.
Lemma split_at_some n b : n <= lenN b -> exists x y, split_at n b = Some (x, y) /\ b = x ++ y /\ lenN x = n.
Proof.
  intro L. unfold split_at, takeN. rewrite lenN_length in L.
  rewrite take_firstn by lia. do 2 eexists. split; [reflexivity|]. split; [symmetry; apply firstn_skipn|].
  rewrite lenN_length, firstn_length. lia.
Qed.
Lemma split_at_none n b : lenN b < n -> split_at n b = None.
Proof. intro L. unfold split_at, takeN. rewrite lenN_length in L. apply take_short. lia. Qed.

(* ------------------------------------------------------------------ repeatN, last *)
Lemma repeatN_nat_length x n : length (repeatN_nat x n) = n.
Proof. induction n; cbn; auto. Qed.
Lemma lenN_repeatN x n : lenN (repeatN x n) = n.
Proof. unfold repeatN. rewrite lenN_length, repeatN_nat_length. lia. Qed.

Lemma last_opt_app_cons a x : last_opt (a ++ [x]) = Some x.
Proof.
  induction a as [|y a IH]; [reflexivity|]. cbn [app last_opt].
  destruct (a ++ [x]) eqn:E; [destruct a; discriminate|]. exact IH.
Qed.
Lemma repeatN_nat_snoc x n : repeatN_nat x (S n) = repeatN_nat x n ++ [x].
Proof. induction n as [|n IH]; [reflexivity|]. cbn [repeatN_nat app] in *. rewrite <- IH. reflexivity. Qed.
Lemma last_opt_repeat a x n : 0 < n -> last_opt (a ++ repeatN x n) = Some x.
Proof.
  intro H. unfold repeatN. destruct (N.to_nat n) as [|k] eqn:E; [lia|].
  rewrite repeatN_nat_snoc, app_assoc. apply last_opt_app_cons.
Qed.
Lemma last_opt_none b : last_opt b = None -> b = [].
Proof.
  induction b as [|x b IH]; [reflexivity|]. cbn [last_opt]. destruct b; [discriminate|]. intro H. apply IH in H. discriminate.
Qed.

(* ------------------------------------------------------------------ c16_pkcs7 *)
Lemma pad_missing_range len bs : 0 < bs -> 1 <= bs - len mod bs <= bs.
Proof. intro H. pose proof (N.mod_upper_bound len bs). lia. Qed.

Lemma pad_buffer_length b bs : 0 < bs -> lenN (pad_buffer b bs) mod bs = 0 /\ lenN b < lenN (pad_buffer b bs).
Proof.
  intro H. unfold pad_buffer. rewrite lenN_app, lenN_repeatN.
  pose proof (pad_missing_range (lenN b) bs H). split; [|lia].
  replace (lenN b + (bs - lenN b mod bs)) with (bs * (lenN b / bs) + lenN b mod bs + (bs - lenN b mod bs))
    by (rewrite <- N.div_mod by lia; reflexivity).
  replace (bs * (lenN b / bs) + lenN b mod bs + (bs - lenN b mod bs)) with ((lenN b / bs + 1) * bs) by lia.
  apply N.mod_mul. lia.
Qed.

(* unpad (pad b) = b for every length and every block size a byte can express *)
Lemma unpad_pad b bs : 0 < bs < 256 -> unpad_buffer (pad_buffer b bs) bs = Ok b.
Proof.
  intros [H0 H1]. destruct (pad_buffer_length b bs H0) as [Hm Hl].
  pose proof (pad_missing_range (lenN b) bs H0) as Hr.
  unfold unpad_buffer, unpad_buffer_g. cbn zeta. rewrite Hm.
  destruct (N.eqb_spec (lenN (pad_buffer b bs)) 0) as [E|_]; [lia|]. cbn [andb orb negb N.eqb].
  unfold pad_buffer in *. set (m := bs - lenN b mod bs) in *.
  assert (Um : u8 m = m) by (unfold u8; apply N.mod_small; lia). rewrite Um in *.
  rewrite last_opt_repeat by lia.
  destruct (N.eqb_spec m 0); [lia|]. destruct (N.ltb_spec bs m); [lia|].
  rewrite lenN_app, lenN_repeatN in *. destruct (N.ltb_spec (lenN b + m) m); [lia|]. cbn [orb].
  rewrite split_at_app by lia. rewrite bytes_eqb_refl. reflexivity.
Qed.

(* unpadBuffer never panics (with the empty-buffer guard), for every buffer and block size *)
Lemma unpad_total b bs : forall s, unpad_buffer b bs <> Panic s.
Proof.
  intros s. unfold unpad_buffer, unpad_buffer_g. cbn zeta.
  destruct (N.eqb_spec (lenN b) 0) as [E|NE]; cbn [andb orb]; [discriminate|].
  destruct (negb (lenN b mod bs =? 0)); [discriminate|].
  destruct (last_opt b) as [l|] eqn:EL.
  2:{ apply last_opt_none in EL. subst b. cbn in NE. contradiction. }
  destruct (l =? 0); cbn [orb]; [discriminate|]. destruct (bs <? l); cbn [orb]; [discriminate|].
  destruct (N.ltb_spec (lenN b) l); [discriminate|].
  destruct (split_at_some (lenN b - l) b) as (x & y & -> & _ & _); [lia|].
  destruct (bytes_eqb y (repeatN l l)); discriminate.
Qed.

(* ... and accepts only well-formed padding: the buffer is body ++ v copies of v, 1 <= v <= bs *)
Lemma unpad_ok_spec b bs body :
  unpad_buffer b bs = Ok body ->
  exists v, b = body ++ repeatN v v /\ 1 <= v <= bs /\ lenN b mod bs = 0 /\ b <> [].
Proof.
  unfold unpad_buffer, unpad_buffer_g. cbn zeta.
  destruct (N.eqb_spec (lenN b) 0) as [E|NE]; cbn [andb orb]; [discriminate|].
  destruct (N.eqb_spec (lenN b mod bs) 0) as [Em|_]; cbn [negb]; [|discriminate].
  destruct (last_opt b) as [l|] eqn:EL; [|discriminate].
  destruct (N.eqb_spec l 0); cbn [orb]; [discriminate|]. destruct (N.ltb_spec bs l); cbn [orb]; [discriminate|].
  destruct (N.ltb_spec (lenN b) l); [discriminate|].
  destruct (split_at_some (lenN b - l) b) as (x & y & -> & Eb & _); [lia|].
  destruct (bytes_eqb y (repeatN l l)) eqn:Ey; [|discriminate].
  apply bytes_eqb_eq in Ey. intro HO. injection HO as <-. subst y. exists l.
  split; [exact Eb|]. split; [lia|]. split; [exact Em|]. intro Z. rewrite Z in NE. apply NE. reflexivity.
Qed.

(* the code before the fix: an empty buffer reaches buffer[len(buffer)-1] *)
Lemma unpad_unguarded_refuted : unpad_buffer_g false [] 16 = Panic 1.
Proof. reflexivity. Qed.

(* ------------------------------------------------------------------ cbcAEAD.Open / aead decrypt *)
Lemma tag_of_total mac tb : tb <= lenN mac -> exists t, tag_of mac tb = Ok t /\ lenN t = tb.
Proof.
  intro L. unfold tag_of. destruct (split_at_some tb mac L) as (x & y & -> & _ & Lx). eauto.
Qed.

Lemma bind_not_panic {A B} (r : res A) (f : A -> res B) :
  (forall s, r <> Panic s) -> (forall a s, r = Ok a -> f a <> Panic s) -> forall s, bind r f <> Panic s.
Proof. intros Hr Hf s. destruct r; cbn [bind]; [apply (Hf a s eq_refl)|discriminate|]. exfalso. apply (Hr site). reflexivity. Qed.

(* Open never panics when the nonce has the block size, for any HMAC whose output is at least
   tagbytes long and any CBC decryption *)
Lemma cbc_open_total hm cbcdec tb nonce ctag aad :
  (forall m, tb <= lenN (hm m)) -> lenN nonce = block_size ->
  forall s, cbc_open hm cbcdec tb nonce ctag aad <> Panic s.
Proof.
  intros Hh Hn s. unfold cbc_open. cbn zeta.
  destruct (N.ltb_spec (lenN ctag) tb); [discriminate|].
  destruct (split_at_some (lenN ctag - tb) ctag) as (ct & tag & -> & _ & _); [lia|].
  destruct (tag_of_total (hm (mac_input aad nonce ct)) tb (Hh _)) as (t & -> & _). cbn [bind].
  destruct (negb (ct_eq t tag)); [discriminate|]. rewrite Hn, N.eqb_refl. cbn [negb].
  destruct (negb (lenN ct mod block_size =? 0)); [discriminate|]. apply unpad_total.
Qed.

(* without the guard a short nonce reaches cipher.NewCBCDecrypter *)
Lemma cbc_open_short_nonce_panics :
  cbc_open (fun _ => repeatN 0 32) (fun _ x => x) 16 [1; 2; 3] (repeatN 0 16) [] = Panic 5.
Proof. vm_compute. reflexivity. Qed.

(* aeadContentCipher.decrypt: with the nonce-size guard the stdlib precondition always holds *)
Lemma aead_decrypt_total ns open iv ct tag aad :
  (forall i c a s, lenN i = ns -> open i c a <> Panic s) ->
  forall s, aead_decrypt ns open iv ct tag aad <> Panic s.
Proof.
  intros Ho s. unfold aead_decrypt, aead_decrypt_g.
  destruct (N.eqb_spec (lenN iv) ns) as [E|NE]; cbn [negb andb]; [|discriminate]. apply Ho. exact E.
Qed.

Lemma aead_decrypt_unguarded_refuted :
  aead_decrypt_g false 12 (fun _ _ _ => Ok []) (repeatN 0 11) [] [] [] = Panic 6.
Proof. reflexivity. Qed.

(* CBC-HMAC under the guard: total *)
Lemma cbc_decrypt_total hm cbcdec tb iv ct tag aad :
  (forall m, tb <= lenN (hm m)) ->
  forall s, aead_decrypt block_size (cbc_open hm cbcdec tb) iv ct tag aad <> Panic s.
Proof. intros Hh. apply aead_decrypt_total. intros i c a s Hi. apply cbc_open_total; assumption. Qed.

(* Seal then Open returns the plaintext, for any HMAC and any CBC pair that inverts *)
Lemma cbc_open_seal hm cbcenc cbcdec tb nonce pt aad :
  (forall m, tb <= lenN (hm m)) -> lenN nonce = block_size ->
  (forall iv x, cbcdec iv (cbcenc iv x) = x) -> (forall iv x, lenN (cbcenc iv x) = lenN x) ->
  exists sealed, cbc_seal hm cbcenc tb nonce pt aad = Ok sealed /\ cbc_open hm cbcdec tb nonce sealed aad = Ok pt.
Proof.
  intros Hh Hn Hinv Hlen. unfold cbc_seal. cbn zeta.
  set (ct := cbcenc nonce (pad_buffer pt block_size)).
  destruct (tag_of_total (hm (mac_input aad nonce ct)) tb (Hh _)) as (t & Et & Lt). rewrite Et. cbn [bind].
  eexists. split; [reflexivity|].
  unfold cbc_open. cbn zeta. rewrite lenN_app, Lt.
  destruct (N.ltb_spec (lenN ct + tb) tb); [lia|].
  rewrite split_at_app by lia. rewrite Et. cbn [bind]. unfold ct_eq. rewrite bytes_eqb_refl. cbn [negb].
  rewrite Hn, N.eqb_refl. cbn [negb]. unfold ct at 1. rewrite Hlen.
  destruct (pad_buffer_length pt block_size) as [Hm _]; [unfold block_size; lia|]. rewrite Hm. cbn [N.eqb negb].
  unfold ct. rewrite Hinv. apply unpad_pad. unfold block_size. lia.
Qed.
