(* C08 write side, part 3: WHICH operation fails as a function of the write-call index i.
   The run over the transport that fails at call i is compared with the run over the transport that
   never fails: they are in lock step until the fault-free run issues its call number i; the
   operation during which that happens is the one that fails. *)
From Verif Require Import Lib.Base Lib.Sx Lib.Err Lib.IO Model.Faults Proofs.FaultsIO Proofs.FaultsWrite Proofs.FaultsBufw.
Open Scope N_scope.

(* lock step: same history, fault still ahead (or due now) *)
Definition sim (i : N) (wf w0 : wtr) : Prop :=
  wt_failed wf = false /\ wt_peer wf = wt_peer w0 /\ wt_calls wf = wt_calls w0 /\ wt_calls wf <= i /\
  wt_failat wf = Some i /\ intact w0.
(* the fault has hit: the faulty transport is broken, the fault-free run is past call i *)
Definition broken (i : N) (wf w0 : wtr) : Prop :=
  wt_failed wf = true /\ i < wt_calls w0 /\ intact w0.

Lemma wt_write_sim i p wf w0 : sim i wf w0 ->
  let '(mf, ef, wf') := wt_write p wf in
  let '(m0, e0, w0') := wt_write p w0 in
  (sim i wf' w0' /\ mf = m0 /\ ef = e0 /\ ef = None /\ mf = lenN p) \/ broken i wf' w0'.
Proof.
  intros (Hf & Hp & Hc & Hle & Ha & Ha0 & Hf0). unfold wt_write. rewrite Hf, Hf0, Ha, Ha0.
  destruct (N.eqb_spec i (wt_calls wf)) as [E|E].
  - right. rewrite split_at_spec. cbn. repeat split; try reflexivity. rewrite <- Hc. lia.
  - left. cbn. repeat split; try reflexivity; try congruence; try lia. now rewrite Hp.
Qed.

Lemma wt_write_frozen p w : wt_failed w = true -> snd (wt_write p w) = w.
Proof. intros H. now rewrite wt_write_failed. Qed.

Lemma wt_write_intact_calls p w : intact w ->
  intact (snd (wt_write p w)) /\ wt_calls w <= wt_calls (snd (wt_write p w)).
Proof.
  intros H. destruct (wt_write_intact p w H) as (w' & E & H'). rewrite E. cbn [snd]. split; [exact H'|].
  unfold wt_write in E. destruct H as [Ha Hf]. rewrite Hf, Ha in E. injection E as <-. cbn. lia.
Qed.

(* ---------- monotonicity of the two sides once they have diverged ---------- *)
(* a writer over a broken transport never touches it again *)
Lemma bw_flush_frozen b : wt_failed (bw_under b) = true -> wt_failed (bw_under (snd (bw_flush b))) = true.
Proof.
  intros H. unfold bw_flush. destruct (bw_err b); [exact H|]. destruct (bw_n b =? 0); [exact H|].
  rewrite wt_write_failed by exact H.
  destruct (0 <? bw_n b); [rewrite split_at_spec|]; exact H.
Qed.

Lemma bw_write_go_frozen fuel : forall p b, wt_failed (bw_under b) = true ->
  wt_failed (bw_under (snd (bw_write_go fuel p b))) = true.
Proof.
  induction fuel as [|f IH]; intros p b H; cbn [bw_write_go]; [exact H|].
  destruct (bw_err b); [exact H|]. destruct (bw_avail b <? lenN p); [|exact H].
  destruct (bw_n b =? 0).
  - rewrite wt_write_failed by exact H. rewrite split_at_spec. apply IH. exact H.
  - rewrite split_at_spec. set (b1 := mk_bufw _ _ _ _).
    pose proof (bw_flush_frozen b1 H) as H1. destruct (bw_flush b1) as [o b2]. apply IH. exact H1.
Qed.

Lemma bw_copies_frozen ps : forall b, wt_failed (bw_under b) = true ->
  wt_failed (bw_under (snd (bw_copies ps b))) = true.
Proof.
  induction ps as [|p ps IH]; intros b H; cbn [bw_copies]; [exact H|].
  assert (H1 : wt_failed (bw_under (snd (bw_copy_bytes p b))) = true).
  { unfold bw_copy_bytes. destruct p; [exact H|]. apply bw_write_go_frozen. exact H. }
  destruct (bw_copy_bytes p b) as [[e|] b1]; [exact H1|]. now apply IH.
Qed.

Lemma message_frozen o b : wt_failed (bw_under b) = true ->
  wt_failed (bw_under (snd (rtmp_write_message o b))) = true.
Proof.
  intros H. unfold rtmp_write_message. pose proof (bw_copies_frozen o b H) as Hc.
  destruct (bw_copies o b) as [[e|] b1]; [exact Hc|]. apply bw_flush_frozen. exact Hc.
Qed.

(* the fault-free side only moves forward *)
Definition fwd (w w' : wtr) : Prop := intact w' /\ wt_calls w <= wt_calls w'.
Lemma fwd_refl w : intact w -> fwd w w. Proof. intros H. split; [exact H|lia]. Qed.
Lemma fwd_trans a b c : fwd a b -> fwd b c -> fwd a c.
Proof. intros [_ H1] [H2 H3]. split; [exact H2|lia]. Qed.

Lemma bw_flush_fwd b : intact (bw_under b) -> fwd (bw_under b) (bw_under (snd (bw_flush b))).
Proof.
  intros H. unfold bw_flush. destruct (bw_err b); [now apply fwd_refl|]. destruct (bw_n b =? 0); [now apply fwd_refl|].
  pose proof (wt_write_intact_calls (bw_buf b) (bw_under b) H) as [H1 H2].
  destruct (wt_write (bw_buf b) (bw_under b)) as [[m oe] u']. cbn [snd] in *.
  destruct oe; [|destruct (m <? bw_n b)]; try rewrite split_at_spec; split; assumption.
Qed.

Lemma bw_write_go_fwd fuel : forall p b, intact (bw_under b) ->
  fwd (bw_under b) (bw_under (snd (bw_write_go fuel p b))).
Proof.
  induction fuel as [|f IH]; intros p b H; cbn [bw_write_go]; [now apply fwd_refl|].
  destruct (bw_err b); [now apply fwd_refl|]. destruct (bw_avail b <? lenN p); [|now apply fwd_refl].
  destruct (bw_n b =? 0).
  - pose proof (wt_write_intact_calls p (bw_under b) H) as [H1 H2].
    destruct (wt_write p (bw_under b)) as [[m oe] u']. cbn [snd] in *. rewrite split_at_spec.
    eapply fwd_trans; [split; [exact H1|exact H2]|]. apply (IH _ (mk_bufw (bw_rev b) (bw_n b) oe u')). exact H1.
  - rewrite split_at_spec. set (b1 := mk_bufw _ _ _ _).
    pose proof (bw_flush_fwd b1 H) as H1. destruct (bw_flush b1) as [o b2]. cbn [snd] in H1.
    eapply fwd_trans; [exact H1|]. apply IH. apply H1.
Qed.

Lemma bw_copies_fwd ps : forall b, intact (bw_under b) -> fwd (bw_under b) (bw_under (snd (bw_copies ps b))).
Proof.
  induction ps as [|p ps IH]; intros b H; cbn [bw_copies]; [now apply fwd_refl|].
  assert (H1 : fwd (bw_under b) (bw_under (snd (bw_copy_bytes p b)))).
  { unfold bw_copy_bytes. destruct p; [now apply fwd_refl|]. apply bw_write_go_fwd. exact H. }
  destruct (bw_copy_bytes p b) as [[e|] b1]; [exact H1|]. cbn [snd] in H1.
  eapply fwd_trans; [exact H1|]. apply IH. apply H1.
Qed.

Lemma message_fwd o b : intact (bw_under b) -> fwd (bw_under b) (bw_under (snd (rtmp_write_message o b))).
Proof.
  intros H. unfold rtmp_write_message. pose proof (bw_copies_fwd o b H) as Hc.
  destruct (bw_copies o b) as [[e|] b1]; [exact Hc|]. cbn [snd] in Hc.
  eapply fwd_trans; [exact Hc|]. apply bw_flush_fwd. apply Hc.
Qed.
