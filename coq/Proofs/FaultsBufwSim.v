(* C08 write side, part 3: WHICH operation fails as a function of the write-call index i.
   The run over the transport that fails at call i is compared with the run over the transport that
   never fails: they are in lock step until the fault-free run issues its call number i; the
   operation during which that happens is the one that fails. *)
From Verif Require Import Lib.Base Lib.Sx Lib.Err Lib.IO Model.Faults Proofs.FaultsIO Proofs.FaultsWrite Proofs.FaultsBufw.
Open Scope N_scope.

(* lock step: same history, fault still ahead (or due now) *)
Definition sim (i : N) (wf w0 : wtr) : Prop :=
  wt_failed wf = false /\ wt_peer wf = wt_peer w0 /\ wt_calls wf = wt_calls w0 /\ wt_calls wf <= i /\
  wt_failat wf = Some i /\ intact w0.
(* the fault has hit: the faulty transport is broken, the fault-free run is past call i *)
Definition broken (i : N) (wf w0 : wtr) : Prop :=
  wt_failed wf = true /\ i < wt_calls w0 /\ intact w0.

Lemma wt_write_sim i p wf w0 : sim i wf w0 ->
  let '(mf, ef, wf') := wt_write p wf in
  let '(m0, e0, w0') := wt_write p w0 in
  (sim i wf' w0' /\ mf = m0 /\ ef = e0 /\ ef = None /\ mf = lenN p) \/ broken i wf' w0'.
Proof.
  unfold sim, broken, intact. intros (Hf & Hp & Hc & Hle & Ha & Ha0 & Hf0). unfold wt_write. rewrite Hf, Hf0, Ha, Ha0.
  destruct (N.eqb_spec i (wt_calls wf)) as [E|E].
  - rewrite split_at_spec. cbn beta iota zeta. right. cbn. repeat split; try reflexivity. rewrite <- Hc. lia.
  - cbn beta iota zeta. left. cbn. repeat split; try reflexivity; try congruence; try lia.
Qed.

Lemma wt_write_frozen p w : wt_failed w = true -> snd (wt_write p w) = w.
Proof. intros H. now rewrite wt_write_failed. Qed.

Lemma wt_write_intact_calls p w : intact w ->
  intact (snd (wt_write p w)) /\ wt_calls w <= wt_calls (snd (wt_write p w)).
Proof.
  intros H. destruct (wt_write_intact p w H) as (w' & E & H'). rewrite E. cbn [snd]. split; [exact H'|].
  unfold wt_write in E. destruct H as [Ha Hf]. rewrite Hf, Ha in E. injection E as <-. cbn. lia.
Qed.

(* ---------- monotonicity of the two sides once they have diverged ---------- *)
(* a writer over a broken transport never touches it again *)
Lemma bw_flush_frozen b : wt_failed (bw_under b) = true -> wt_failed (bw_under (snd (bw_flush b))) = true.
Proof.
  intros H. unfold bw_flush. destruct (bw_err b); [exact H|]. destruct (bw_n b =? 0); [exact H|].
  rewrite wt_write_failed by exact H. cbn beta iota zeta. rewrite split_at_spec. exact H.
Qed.

Lemma bw_write_go_frozen fuel : forall p b, wt_failed (bw_under b) = true ->
  wt_failed (bw_under (snd (bw_write_go fuel p b))) = true.
Proof.
  induction fuel as [|f IH]; intros p b H; cbn [bw_write_go]; [exact H|].
  destruct (bw_err b); [exact H|]. destruct (bw_avail b <? lenN p); [|exact H].
  destruct (bw_n b =? 0).
  - rewrite wt_write_failed by exact H. rewrite split_at_spec. apply IH. exact H.
  - rewrite split_at_spec. set (b1 := mk_bufw _ _ _ _).
    pose proof (bw_flush_frozen b1 H) as H1. destruct (bw_flush b1) as [o b2]. apply IH. exact H1.
Qed.

Lemma bw_copies_frozen ps : forall b, wt_failed (bw_under b) = true ->
  wt_failed (bw_under (snd (bw_copies ps b))) = true.
Proof.
  induction ps as [|p ps IH]; intros b H; cbn [bw_copies]; [exact H|].
  assert (H1 : wt_failed (bw_under (snd (bw_copy_bytes p b))) = true).
  { unfold bw_copy_bytes. destruct p; [exact H|]. apply bw_write_go_frozen. exact H. }
  destruct (bw_copy_bytes p b) as [[e|] b1]; [exact H1|]. now apply IH.
Qed.

Lemma message_frozen o b : wt_failed (bw_under b) = true ->
  wt_failed (bw_under (snd (rtmp_write_message o b))) = true.
Proof.
  intros H. unfold rtmp_write_message. pose proof (bw_copies_frozen o b H) as Hc.
  destruct (bw_copies o b) as [[e|] b1]; [exact Hc|]. apply bw_flush_frozen. exact Hc.
Qed.

(* the fault-free side only moves forward *)
Definition fwd (w w' : wtr) : Prop := intact w' /\ wt_calls w <= wt_calls w'.
Lemma fwd_refl w : intact w -> fwd w w. Proof. intros H. split; [exact H|lia]. Qed.
Lemma fwd_trans a b c : fwd a b -> fwd b c -> fwd a c.
Proof. intros [_ H1] [H2 H3]. split; [exact H2|lia]. Qed.

Lemma bw_flush_fwd b : intact (bw_under b) -> fwd (bw_under b) (bw_under (snd (bw_flush b))).
Proof.
  intros H. unfold bw_flush. destruct (bw_err b); [now apply fwd_refl|]. destruct (bw_n b =? 0); [now apply fwd_refl|].
  pose proof (wt_write_intact_calls (bw_buf b) (bw_under b) H) as [H1 H2].
  destruct (wt_write (bw_buf b) (bw_under b)) as [[m oe] u']. cbn [snd] in *.
  destruct oe; [|destruct (m <? bw_n b)]; try rewrite split_at_spec; split; assumption.
Qed.

Lemma bw_write_go_fwd fuel : forall p b, intact (bw_under b) ->
  fwd (bw_under b) (bw_under (snd (bw_write_go fuel p b))).
Proof.
  induction fuel as [|f IH]; intros p b H; cbn [bw_write_go]; [now apply fwd_refl|].
  destruct (bw_err b); [now apply fwd_refl|]. destruct (bw_avail b <? lenN p); [|now apply fwd_refl].
  destruct (bw_n b =? 0).
  - pose proof (wt_write_intact_calls p (bw_under b) H) as [H1 H2].
    destruct (wt_write p (bw_under b)) as [[m oe] u']. cbn [snd] in *. rewrite split_at_spec.
    eapply fwd_trans; [split; [exact H1|exact H2]|]. apply (IH _ (mk_bufw (bw_rev b) (bw_n b) oe u')). exact H1.
  - rewrite split_at_spec. set (b1 := mk_bufw _ _ _ _).
    pose proof (bw_flush_fwd b1 H) as H1. destruct (bw_flush b1) as [o b2]. cbn [snd] in H1.
    eapply fwd_trans; [exact H1|]. apply IH. apply H1.
Qed.

Lemma bw_copies_fwd ps : forall b, intact (bw_under b) -> fwd (bw_under b) (bw_under (snd (bw_copies ps b))).
Proof.
  induction ps as [|p ps IH]; intros b H; cbn [bw_copies]; [now apply fwd_refl|].
  assert (H1 : fwd (bw_under b) (bw_under (snd (bw_copy_bytes p b)))).
  { unfold bw_copy_bytes. destruct p; [now apply fwd_refl|]. apply bw_write_go_fwd. exact H. }
  destruct (bw_copy_bytes p b) as [[e|] b1]; [exact H1|]. cbn [snd] in H1.
  eapply fwd_trans; [exact H1|]. apply IH. apply H1.
Qed.

Lemma message_fwd o b : intact (bw_under b) -> fwd (bw_under b) (bw_under (snd (rtmp_write_message o b))).
Proof.
  intros H. unfold rtmp_write_message. pose proof (bw_copies_fwd o b H) as Hc.
  destruct (bw_copies o b) as [[e|] b1]; [exact Hc|]. cbn [snd] in Hc.
  eapply fwd_trans; [exact Hc|]. apply bw_flush_fwd. apply Hc.
Qed.

(* ---------- lock step of the two buffered writers ---------- *)
Definition simb (i : N) (bf b0 : bufw) : Prop :=
  bw_rev bf = bw_rev b0 /\ bw_n bf = bw_n b0 /\ bw_err bf = bw_err b0 /\ sim i (bw_under bf) (bw_under b0).
Definition rb (i : N) (bf b0 : bufw) : Prop :=
  simb i bf b0 \/ broken i (bw_under bf) (bw_under b0).

Lemma sim_intact i wf w0 : sim i wf w0 -> intact w0.
Proof. intros H. apply H. Qed.
Lemma simb_not_broken i bf b0 : simb i bf b0 -> wt_failed (bw_under bf) = false.
Proof. intros (_ & _ & _ & H). apply H. Qed.

Lemma broken_step i wf wf' w0 w0' : broken i wf w0 -> wt_failed wf' = true -> fwd w0 w0' -> broken i wf' w0'.
Proof. intros (_ & Hc & _) Hf [Hi Hle]. split; [exact Hf|]. split; [lia|exact Hi]. Qed.

Lemma flush_rb i bf b0 : rb i bf b0 ->
  rb i (snd (bw_flush bf)) (snd (bw_flush b0)) /\
  (simb i (snd (bw_flush bf)) (snd (bw_flush b0)) -> fst (bw_flush bf) = fst (bw_flush b0)).
Proof.
  intros [Hs|Hb].
  - destruct Hs as (Hr & Hn & He & Hsim). unfold bw_flush, bw_buf. rewrite Hr, Hn, He.
    destruct (bw_err b0) as [e|] eqn:E0.
    { cbn [snd fst]. split; [left; split; [exact Hr|split; [exact Hn|split; [congruence|exact Hsim]]]|reflexivity]. }
    destruct (bw_n b0 =? 0).
    { cbn [snd fst]. split; [left; split; [exact Hr|split; [exact Hn|split; [congruence|exact Hsim]]]|reflexivity]. }
    pose proof (wt_write_sim i (concat (frev (bw_rev b0))) _ _ Hsim) as Hw.
    destruct (wt_write (concat (frev (bw_rev b0))) (bw_under bf)) as [[mf ef] wf'].
    destruct (wt_write (concat (frev (bw_rev b0))) (bw_under b0)) as [[m0 e0] w0'].
    destruct Hw as [(Hs' & -> & -> & -> & ->)|Hbr].
    + destruct (lenN (concat (frev (bw_rev b0))) <? bw_n b0).
      * rewrite split_at_spec. cbn [snd fst]. split; [left; split; [reflexivity|split; [reflexivity|split; [reflexivity|exact Hs']]]|reflexivity].
      * cbn [snd fst]. split; [left; split; [reflexivity|split; [reflexivity|split; [reflexivity|exact Hs']]]|reflexivity].
    + assert (Hbr' : forall x y, bw_under x = wf' -> bw_under y = w0' -> rb i x y)
        by (intros x y Hx Hy; right; rewrite Hx, Hy; exact Hbr).
      split.
      * destruct ef as [e1|], e0 as [e2|]; try destruct (mf <? bw_n b0); try destruct (m0 <? bw_n b0);
          rewrite ?split_at_spec; cbn [snd]; apply Hbr'; reflexivity.
      * intros Hsb. apply simb_not_broken in Hsb. exfalso.
        destruct Hbr as (Hf' & _).
        destruct ef as [e1|]; try destruct (mf <? bw_n b0); rewrite ?split_at_spec in Hsb; cbn [snd bw_under] in Hsb; congruence.
  - split.
    + right. pose proof Hb as (Hf & Hc & Hi).
      apply (broken_step i (bw_under bf) _ (bw_under b0)); [exact Hb|now apply bw_flush_frozen|now apply bw_flush_fwd].
    + intros Hsb. apply simb_not_broken in Hsb. rewrite bw_flush_frozen in Hsb by apply Hb. discriminate.
Qed.

Definition agree (i : N) (rf r0 : option N * bufw) : Prop :=
  rb i (snd rf) (snd r0) /\ (simb i (snd rf) (snd r0) -> fst rf = fst r0).

Lemma agree_broken i (rf r0 : option N * bufw) bf b0 :
  broken i (bw_under bf) (bw_under b0) ->
  wt_failed (bw_under (snd rf)) = true -> fwd (bw_under b0) (bw_under (snd r0)) -> agree i rf r0.
Proof.
  intros Hb Hf Hw. split.
  - right. apply (broken_step i _ _ _ _ Hb Hf Hw).
  - intros Hs. apply simb_not_broken in Hs. congruence.
Qed.

Lemma write_go_rb i fuel : forall p bf b0, rb i bf b0 ->
  agree i (bw_write_go fuel p bf) (bw_write_go fuel p b0).
Proof.
  induction fuel as [|f IH]; intros p bf b0 [Hs|Hb].
  - cbn [bw_write_go]. split; [now left|reflexivity].
  - cbn [bw_write_go]. split; [now right|]. intros Hsb. apply simb_not_broken in Hsb. cbn [snd] in Hsb. destruct Hb; congruence.
  - pose proof Hs as (Hr & Hn & He & Hsim). cbn [bw_write_go]. unfold bw_avail. rewrite Hr, Hn, He.
    destruct (bw_err b0) as [e|] eqn:E0.
    { cbn [snd fst]. split; [left; exact Hs|reflexivity]. }
    destruct (bufio_size - bw_n b0 <? lenN p).
    + destruct (bw_n b0 =? 0).
      * pose proof (wt_write_sim i p _ _ Hsim) as Hw.
        destruct (wt_write p (bw_under bf)) as [[mf ef] wf'].
        destruct (wt_write p (bw_under b0)) as [[m0 e0] w0'].
        rewrite !split_at_spec.
        destruct Hw as [(Hs' & -> & -> & -> & ->)|Hbr].
        -- apply IH. left. split; [reflexivity|]. split; [reflexivity|]. split; [reflexivity|exact Hs'].
        -- apply IH. right. exact Hbr.
      * rewrite !split_at_spec. cbn beta iota zeta.
        set (b1f := mk_bufw _ bufio_size None (bw_under bf)). set (b10 := mk_bufw _ bufio_size None (bw_under b0)).
        assert (H1 : rb i b1f b10) by (left; split; [reflexivity|split; [reflexivity|split; [reflexivity|exact Hsim]]]).
        destruct (flush_rb i b1f b10 H1) as [H2 _].
        destruct (bw_flush b1f) as [of b2f]. destruct (bw_flush b10) as [o0 b20]. apply IH. exact H2.
    + cbn [snd fst]. split; [left|reflexivity]. split; [reflexivity|]. split; [reflexivity|]. split; [reflexivity|exact Hsim].
  - apply (agree_broken i _ _ bf b0 Hb).
    + apply bw_write_go_frozen. apply Hb.
    + apply bw_write_go_fwd. apply Hb.
Qed.

Lemma copy_rb i p bf b0 : rb i bf b0 -> agree i (bw_copy_bytes p bf) (bw_copy_bytes p b0).
Proof.
  intros H. unfold bw_copy_bytes. destruct p as [|x p].
  - split; [exact H|reflexivity].
  - apply write_go_rb. exact H.
Qed.

Lemma copies_rb i ps : forall bf b0, rb i bf b0 -> agree i (bw_copies ps bf) (bw_copies ps b0).
Proof.
  induction ps as [|p ps IH]; intros bf b0 H; cbn [bw_copies].
  - split; [exact H|reflexivity].
  - destruct (copy_rb i p bf b0 H) as [H1 H2].
    destruct H1 as [Hs|Hb].
    + specialize (H2 Hs). destruct (bw_copy_bytes p bf) as [of b1f]. destruct (bw_copy_bytes p b0) as [o0 b10].
      cbn [fst snd] in *. subst o0. destruct of as [e|].
      * split; [left; exact Hs|reflexivity].
      * apply IH. left. exact Hs.
    + (* diverged inside this piece *)
      assert (Hff : wt_failed (bw_under (snd (bw_copies (p :: ps) bf))) = true).
      { cbn [bw_copies]. destruct (bw_copy_bytes p bf) as [[e|] b1f]; cbn [snd] in *; [apply Hb|].
        apply bw_copies_frozen. apply Hb. }
      assert (Hfw : fwd (bw_under (snd (bw_copy_bytes p b0))) (bw_under (snd (bw_copies (p :: ps) b0)))).
      { cbn [bw_copies]. destruct (bw_copy_bytes p b0) as [[e|] b10]; cbn [snd] in *; [apply fwd_refl, Hb|].
        apply bw_copies_fwd. apply Hb. }
      cbn [bw_copies] in Hff, Hfw.
      apply (agree_broken i _ _ _ _ Hb Hff Hfw).
Qed.

Lemma message_rb i o bf b0 : rb i bf b0 -> agree i (rtmp_write_message o bf) (rtmp_write_message o b0).
Proof.
  intros H. unfold rtmp_write_message. destruct (copies_rb i o bf b0 H) as [H1 H2].
  destruct H1 as [Hs|Hb].
  - specialize (H2 Hs). destruct (bw_copies o bf) as [of b1f]. destruct (bw_copies o b0) as [o0 b10].
    cbn [fst snd] in *. subst o0. destruct of as [e|].
    + split; [left; exact Hs|reflexivity].
    + apply flush_rb. left. exact Hs.
  - assert (Hff : wt_failed (bw_under (snd (rtmp_write_message o bf))) = true).
    { unfold rtmp_write_message. destruct (bw_copies o bf) as [[e|] b1f]; cbn [snd] in *; [apply Hb|].
      apply bw_flush_frozen. apply Hb. }
    assert (Hfw : fwd (bw_under (snd (bw_copies o b0))) (bw_under (snd (rtmp_write_message o b0)))).
    { unfold rtmp_write_message. destruct (bw_copies o b0) as [[e|] b10]; cbn [snd] in *; [apply fwd_refl, Hb|].
      apply bw_flush_fwd. apply Hb. }
    unfold rtmp_write_message in Hff, Hfw.
    apply (agree_broken i _ _ _ _ Hb Hff Hfw).
Qed.
