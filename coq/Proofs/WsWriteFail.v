(* C13 proofs (part 6): error paths.  What holds after a transport write has failed. *)
From Verif Require Import Lib.Base Lib.Sx Model.WsWrite Proofs.WsWrite Proofs.WsWriteFrame Proofs.WsWriteSession Proofs.WsWriteOps.
Open Scope N_scope.

(* ---- a failing transport write latches the error (writeFatal) ---- *)
Lemma faulty_writes_latch : forall bufs w k w' e, faulty_writes w k bufs = (w', e) ->
  (e = 0 \/ (e = eTransport /\ werrc w' = eTransport)).
Proof.
  induction bufs as [|b r IH]; intros w k w' e H; cbn [faulty_writes] in H.
  - inversion H. left. reflexivity.
  - destruct (is_nil b); [exact (IH _ _ _ _ H)|].
    destruct (k =? 0); [inversion H; right; split; reflexivity|exact (IH _ _ _ _ H)].
Qed.

Theorem transport_failure_latches w t bufs w' e : werrc w = 0 -> conn_write w t bufs = (w', e) ->
  e <> 0 -> e = eTransport /\ werrc w' = eTransport.
Proof.
  intros He H Hne. unfold conn_write in H. rewrite He in H. cbn [N.eqb negb] in H.
  destruct (wbudget w) as [k|].
  - destruct (faulty_writes w k bufs) as [w1 e1] eqn:Ef.
    destruct (faulty_writes_latch _ _ _ _ _ Ef) as [->|[-> Hw]].
    + cbn [N.eqb negb] in H. inversion H; subst. exfalso. apply Hne. reflexivity.
    + cbn in H. inversion H; subst. auto.
  - inversion H; subst. exfalso. apply Hne. reflexivity.
Qed.

(* ---- once the error is latched nothing reaches the transport any more ---- *)
Definition dead (w : mws) : Prop := werrc w <> 0.
Definition frozen (w w' : mws) : Prop := out w' = out w /\ dead w'.

Lemma frozen_refl w : dead w -> frozen w w. Proof. intros H. split; [reflexivity|exact H]. Qed.
Lemma frozen_trans a b d : frozen a b -> frozen b d -> frozen a d.
Proof. intros [A1 A2] [B1 B2]. split; [congruence|exact B2]. Qed.

Lemma dead_eqb w : dead w -> (werrc w =? 0) = false.
Proof. intros H. apply N.eqb_neq. exact H. Qed.

Lemma conn_write_dead w t bufs : dead w -> conn_write w t bufs = (w, werrc w).
Proof. intros H. unfold conn_write. rewrite (dead_eqb w H). reflexivity. Qed.

Lemma flush_dead c w final extra w' e : dead w -> flush_frame c w final extra = Ok (w', e) ->
  frozen w w' /\ e <> 0.
Proof.
  intros Hd. unfold flush_frame.
  destruct (is_control (ftype w) && (negb final || (maxCtl <? pos w - maxHdr + lenN extra))).
  { intros H. inversion H; subst. split; [apply frozen_refl; exact Hd|discriminate]. }
  set (b0 := N.lor _ _). set (len := pos w - maxHdr + lenN extra).
  assert (Hfh : forall (fh : res (N * bytes)) (k : N * bytes -> res (mws * N)),
             (forall x, fh = Ok x -> k x = Ok (w', e) -> frozen w w' /\ e <> 0) ->
             (let* y := fh in k y) = Ok (w', e) -> frozen w w' /\ e <> 0).
  { intros fh k Hk H. destruct fh as [x| |]; cbn [bind] in H; try discriminate. exact (Hk x eq_refl H). }
  apply Hfh. intros [fp h1] _.
  assert (Hd' : forall h, dead (set_hdr (set_cflag w false) h)) by (intros h; exact Hd).
  destruct (srv c).
  - rewrite (conn_write_dead _ _ _ (Hd' h1)). cbn [werrc set_hdr set_cflag]. rewrite (dead_eqb w Hd). cbn [negb].
    intros H. inversion H; subst. split; [split; [reflexivity|exact Hd]|exact Hd].
  - destruct (pop_key (keys (set_cflag w false))) as [key ks].
    destruct (put_at 4 (maxHdr - 4) key h1) as [h2| |]; cbn [bind]; try discriminate.
    destruct (negb (is_nil extra)).
    + cbn [werrc set_keys set_buf set_hdr set_cflag]. rewrite (dead_eqb w Hd).
      intros H. inversion H; subst. split; [split; [reflexivity|exact Hd]|discriminate].
    + assert (Hd2 : dead (set_keys (set_buf (set_hdr (set_cflag w false) h2) [mask_fast key 0 (buffered (set_cflag w false))] (pos (set_cflag w false))) ks)) by exact Hd.
      rewrite (conn_write_dead _ _ _ Hd2). cbn [werrc set_keys set_buf set_hdr set_cflag]. rewrite (dead_eqb w Hd). cbn [negb].
      intros H. inversion H; subst. split; [split; [reflexivity|exact Hd]|exact Hd].
Qed.

Lemma copy_loop_dead c : forall fuel w p plen w' e, dead w -> copy_loop fuel c w p plen = Ok (w', e) -> frozen w w'.
Proof.
  induction fuel as [|f0 fuel IH]; intros w p plen w' e Hd H; cbn [copy_loop] in H.
  - destruct (plen =? 0); [inversion H; subst; apply frozen_refl; exact Hd|discriminate].
  - destruct (plen =? 0); [inversion H; subst; apply frozen_refl; exact Hd|].
    destruct (blen c <=? pos w).
    + destruct (flush_frame c w false []) as [[w1 e1]| |] eqn:Ef; cbn [bind] in H; try discriminate.
      destruct (flush_dead _ _ _ _ _ _ Hd Ef) as [Hfr Hne]. rewrite (proj2 (N.eqb_neq e1 0) Hne) in H. cbn [negb] in H.
      inversion H; subst. exact Hfr.
    + cbn [bind N.eqb negb] in H. destruct (splitN _ p) as [a rest].
      apply IH in H; [|exact Hd]. exact H.
Qed.

Lemma read_from_loop_dead c ewd : forall fuel w data dlen caps w' e, dead w ->
  read_from_loop fuel c w data dlen caps ewd = Ok (w', e) -> frozen w w'.
Proof.
  induction fuel as [|f0 fuel IH]; intros w data dlen caps w' e Hd H; cbn [read_from_loop] in H; [discriminate|].
  destruct (pos w =? blen c).
  - destruct (flush_frame c w false []) as [[w1 e1]| |] eqn:Ef; cbn [bind] in H; try discriminate.
    destruct (flush_dead _ _ _ _ _ _ Hd Ef) as [Hfr Hne]. rewrite (proj2 (N.eqb_neq e1 0) Hne) in H. cbn [negb] in H.
    inversion H; subst. exact Hfr.
  - cbn [bind N.eqb negb] in H.
    destruct caps as [|cap caps']; destruct (splitN _ data) as [a rest];
      match type of H with context [if ?n =? 0 then w else buf_append w a ?n] =>
        assert (Hd2 : dead (if n =? 0 then w else buf_append w a n)) by (destruct (n =? 0); exact Hd);
        assert (Ho2 : out (if n =? 0 then w else buf_append w a n) = out w) by (destruct (n =? 0); reflexivity)
      end;
      (destruct (_ || _); [inversion H; subst; split; [exact Ho2|exact Hd2]|];
       apply IH in H; [|exact Hd2]; destruct H as [A B]; split; [congruence|exact B]).
Qed.

Lemma mw_write_dead c w p w' e : dead w -> mw_write c w p = Ok (w', e) -> frozen w w'.
Proof.
  intros Hd. unfold mw_write. destruct (_ && _).
  - intros H. exact (proj1 (flush_dead _ _ _ _ _ _ Hd H)).
  - apply copy_loop_dead. exact Hd.
Qed.

Lemma feed_dead c : forall ws w w' e, dead w -> feed_writes c w ws = Ok (w', e) -> frozen w w'.
Proof.
  unfold feed_writes.
  assert (G : forall ws (r : res (mws * N)) w0 w' e,
     (forall m e0, r = Ok (m, e0) -> frozen w0 m) ->
     fold_left (fun r p => let* x := r in let '(m1, e1) := x in if negb (e1 =? 0) then Ok (m1, e1) else mw_write c m1 p) ws r = Ok (w', e) ->
     frozen w0 w').
  { induction ws as [|p ws IH]; intros r w0 w' e Hr H; cbn [fold_left] in H; [exact (Hr _ _ H)|].
    apply (IH _ w0 w' e) in H; [exact H|]. intros m e0 Hm.
    destruct r as [[m1 e1]| |]; cbn [bind] in Hm; try discriminate.
    pose proof (Hr _ _ eq_refl) as Hf1.
    destruct (negb (e1 =? 0)); [inversion Hm; subst; exact Hf1|].
    exact (frozen_trans _ _ _ Hf1 (mw_write_dead _ _ _ _ _ (proj2 Hf1) Hm)). }
  intros ws w w' e Hd H. apply (G ws _ w w' e) in H; [exact H|].
  intros m e0 Hm. inversion Hm; subst. apply frozen_refl. exact Hd.
Qed.

(* connection level *)
Definition sdead (s : cst) : Prop := dead (mw s).
Definition sfrozen (s s' : cst) : Prop := frozen (mw s) (mw s').
Lemma sfrozen_refl s : sdead s -> sfrozen s s. Proof. apply frozen_refl. Qed.

Lemma lift_dead s r x w0 : (forall m e, r = Ok (m, e) -> frozen w0 m) -> lift_mw s r = Ok x -> frozen w0 (mw (fst x)).
Proof. intros Hr. unfold lift_mw. destruct r as [[m e]| |]; cbn; intros H; inversion H; subst. cbn. exact (Hr _ _ eq_refl). Qed.

Lemma do_mw_close_dead c s x : sdead s -> do_mw_close c s = Ok x -> sfrozen s (fst x) /\ snd x <> 0.
Proof.
  intros Hd. unfold do_mw_close. destruct (mwclosed s); [intros H; inversion H; split; [apply sfrozen_refl; exact Hd|discriminate]|].
  destruct (flush_frame c (mw s) true []) as [[m e]| |] eqn:Ef; cbn [bind]; try discriminate.
  destruct (flush_dead _ _ _ _ _ _ Hd Ef) as [Hfr Hne]. rewrite (proj2 (N.eqb_neq e 0) Hne). cbn [negb].
  intros H; inversion H; subst. split; [exact Hfr|exact Hne].
Qed.

Lemma do_z_close_dead c s ch x : sdead s -> do_z_close c s ch = Ok x -> sfrozen s (fst x) /\ snd x <> 0.
Proof.
  intros Hd. unfold do_z_close. destruct (negb (zopen s)); [intros H; inversion H; split; [apply sfrozen_refl; exact Hd|discriminate]|].
  destruct (tw_run (tws_ s) ch) as [t1 ws].
  destruct (feed_writes c (mw s) ws) as [[m1 e1]| |] eqn:Ef; cbn [bind]; try discriminate.
  pose proof (feed_dead _ _ _ _ _ Hd Ef) as Hf1.
  destruct (negb (flate_tail_ok t1)); [intros H; inversion H; subst; split; [exact Hf1|discriminate]|].
  destruct (do_mw_close c _) as [[s2 e2]| |] eqn:E; cbn [bind]; try discriminate.
  apply do_mw_close_dead in E; [|exact (proj2 Hf1)]. destruct E as [Hf2 Hne]. cbn [fst snd] in *.
  intros H; inversion H; subst. cbn [fst snd]. split; [exact (frozen_trans _ _ _ Hf1 Hf2)|].
  destruct (negb (e1 =? 0)) eqn:E1; [apply negb_true_iff, N.eqb_neq in E1; exact E1|exact Hne].
Qed.

Lemma implicit_close_dead c s ch s' : sdead s -> implicit_close c s ch = Ok s' -> sfrozen s s'.
Proof.
  intros Hd. unfold implicit_close. destruct (negb (wopen s)); [intros H; inversion H; subst; apply sfrozen_refl; exact Hd|].
  destruct (hkind s =? 2).
  - destruct (do_z_close c s ch) as [r| |] eqn:E; cbn [bind]; try discriminate.
    intros H; inversion H; subst. exact (proj1 (do_z_close_dead _ _ _ _ Hd E)).
  - destruct (do_mw_close c s) as [r| |] eqn:E; cbn [bind]; try discriminate.
    intros H; inversion H; subst. exact (proj1 (do_mw_close_dead _ _ _ Hd E)).
Qed.

Lemma prep_write_dead c s t ch x : sdead s -> prep_write c s t ch = Ok x -> sfrozen s (fst x) /\ snd x <> 0.
Proof.
  intros Hd. unfold prep_write. destruct (implicit_close c s ch) as [s1| |] eqn:E; cbn [bind]; try discriminate.
  apply implicit_close_dead in E; [|exact Hd].
  destruct (_ && _); intros H; inversion H; subst; cbn [fst snd]; (split; [exact E|]); [discriminate|exact (proj2 E)].
Qed.

Lemma do_next_dead c s t ch x : sdead s -> do_next c s t ch = Ok x -> sfrozen s (fst x) /\ snd x <> 0.
Proof.
  intros Hd. unfold do_next. destruct (prep_write c s t ch) as [[s1 e]| |] eqn:E; cbn [bind]; try discriminate.
  destruct (prep_write_dead _ _ _ _ _ Hd E) as [Hf Hne]. cbn [fst snd] in *.
  rewrite (proj2 (N.eqb_neq e 0) Hne). cbn [negb]. intros H; inversion H; subst. cbn [fst snd]. split; [exact Hf|exact Hne].
Qed.

Lemma do_write_dead c s p ch x : sdead s -> do_write c s p ch = Ok x -> sfrozen s (fst x).
Proof.
  intros Hd. unfold do_write. destruct (hkind s =? 2).
  - destruct (negb (zopen s)); [intros H; inversion H; apply sfrozen_refl; exact Hd|].
    destruct (tw_run (tws_ s) ch) as [t1 ws]. apply lift_dead. intros m e. apply feed_dead. exact Hd.
  - destruct (hkind s =? 1); [|intros H; inversion H; apply sfrozen_refl; exact Hd].
    destruct (mwclosed s); [intros H; inversion H; apply sfrozen_refl; exact Hd|].
    apply lift_dead. intros m e. apply mw_write_dead. exact Hd.
Qed.

Lemma do_write_string_dead c s p ch x : sdead s -> do_write_string c s p ch = Ok x -> sfrozen s (fst x).
Proof.
  intros Hd. unfold do_write_string. destruct (hkind s =? 1); [|apply do_write_dead; exact Hd].
  destruct (mwclosed s); [intros H; inversion H; apply sfrozen_refl; exact Hd|].
  apply lift_dead. intros m e. unfold mw_write_string. apply copy_loop_dead. exact Hd.
Qed.

Lemma do_read_from_dead c s p caps ewd ch x : sdead s -> do_read_from c s p caps ewd ch = Ok x -> sfrozen s (fst x).
Proof.
  intros Hd. unfold do_read_from. destruct (hkind s =? 1); [|apply do_write_dead; exact Hd].
  destruct (mwclosed s); [intros H; inversion H; apply sfrozen_refl; exact Hd|].
  apply lift_dead. intros m e. unfold mw_read_from. apply read_from_loop_dead. exact Hd.
Qed.

Lemma do_close_dead c s ch x : sdead s -> do_close c s ch = Ok x -> sfrozen s (fst x) /\ snd x <> 0.
Proof.
  intros Hd. unfold do_close. destruct (hkind s =? 2); [apply do_z_close_dead; exact Hd|].
  destruct (hkind s =? 1); [apply do_mw_close_dead; exact Hd|].
  intros H; inversion H. split; [apply sfrozen_refl; exact Hd|discriminate].
Qed.

Lemma do_control_dead c s t p : sdead s -> sfrozen s (fst (do_control c s t p)) /\ snd (do_control c s t p) <> 0.
Proof.
  intros Hd. unfold do_control. destruct (negb (is_control t)); [split; [apply sfrozen_refl; exact Hd|discriminate]|].
  destruct (maxCtl <? lenN p); [split; [apply sfrozen_refl; exact Hd|discriminate]|].
  rewrite (dead_eqb _ Hd). cbn [negb]. split; [apply sfrozen_refl; exact Hd|exact Hd].
Qed.

Lemma do_write_message_dead c s t p ich wch cch x : sdead s ->
  do_write_message c s t p ich wch cch = Ok x -> sfrozen s (fst x) /\ snd x <> 0.
Proof.
  intros Hd. unfold do_write_message. destruct (srv c && _).
  - destruct (prep_write c s t ich) as [[s1 e]| |] eqn:E; cbn [bind]; try discriminate.
    destruct (prep_write_dead _ _ _ _ _ Hd E) as [Hf Hne]. cbn [fst snd] in *.
    rewrite (proj2 (N.eqb_neq e 0) Hne). cbn [negb]. intros H; inversion H; subst. auto.
  - destruct (do_next c s t ich) as [[s1 e]| |] eqn:E; cbn [bind]; try discriminate.
    destruct (do_next_dead _ _ _ _ _ Hd E) as [Hf Hne]. cbn [fst snd] in *.
    rewrite (proj2 (N.eqb_neq e 0) Hne). cbn [negb]. intros H; inversion H; subst. auto.
Qed.

Lemma do_write_json_dead c s enc ich wch cch x : sdead s ->
  do_write_json c s enc ich wch cch = Ok x -> sfrozen s (fst x) /\ snd x <> 0.
Proof.
  intros Hd. unfold do_write_json.
  destruct (do_next c s opText ich) as [[s1 e]| |] eqn:E; cbn [bind]; try discriminate.
  destruct (do_next_dead _ _ _ _ _ Hd E) as [Hf Hne]. cbn [fst snd] in *.
  rewrite (proj2 (N.eqb_neq e 0) Hne). cbn [negb]. intros H; inversion H; subst. auto.
Qed.

Lemma do_prepared_dead c s idx t p wch cch x : sdead s ->
  do_prepared c s idx t p wch cch = Ok x -> sfrozen s (fst x) /\ snd x <> 0.
Proof.
  intros Hd. unfold do_prepared.
  destruct (pfind _ (pcache s)) as [v|].
  - cbn [bind]. cbn [N.eqb negb]. rewrite (conn_write_dead _ _ _ Hd).
    intros H; inversion H; subst. cbn [fst snd mw st_mw]. split; [split; [reflexivity|exact Hd]|exact Hd].
  - destruct (prepared_frame _ _ _ _ _ _ _ _) as [[[v ks] e]| |]; cbn [bind]; try discriminate.
    destruct (negb (e =? 0)) eqn:Ee.
    + intros H; inversion H; subst. cbn [fst snd mw st_mw]. split; [split; [reflexivity|exact Hd]|].
      apply negb_true_iff, N.eqb_neq in Ee. exact Ee.
    + assert (Hd2 : dead (set_keys (mw s) ks)) by exact Hd.
      cbn [mw st_mw]. rewrite (conn_write_dead _ _ _ Hd2).
      intros H; inversion H; subst. cbn [fst snd mw st_mw]. split; [split; [reflexivity|exact Hd]|exact Hd].
Qed.

Lemma drop_handle_dead s r x : (forall y, r = Ok y -> sfrozen s (fst y) /\ snd y <> 0) ->
  drop_handle r = Ok x -> sfrozen s (fst x) /\ snd x <> 0.
Proof.
  intros Hr. unfold drop_handle. destruct r as [y| |]; cbn [bind]; try discriminate.
  intros H; inversion H; subst. cbn [fst snd]. exact (Hr y eq_refl).
Qed.

(* every operation of the alphabet, whatever its arguments, well-formed or not *)
Theorem after_failure_frozen c pms s o x : sdead s -> run_op c pms s o = Ok x -> sfrozen s (fst x).
Proof.
  intros Hd. destruct o; cbn [run_op].
  - intros H. exact (proj1 (do_next_dead _ _ _ _ _ Hd H)).
  - apply do_write_dead; exact Hd.
  - apply do_write_string_dead; exact Hd.
  - apply do_read_from_dead; exact Hd.
  - intros H. exact (proj1 (do_close_dead _ _ _ _ Hd H)).
  - intros H. apply (drop_handle_dead s) in H; [exact (proj1 H)|]. intros y. apply do_write_message_dead. exact Hd.
  - intros H. apply (drop_handle_dead s) in H; [exact (proj1 H)|]. intros y. apply do_write_json_dead. exact Hd.
  - destruct (nth_error pms (N.to_nat idx)) as [[t p]|].
    + intros H. exact (proj1 (do_prepared_dead _ _ _ _ _ _ _ _ Hd H)).
    + intros H; inversion H. apply sfrozen_refl. exact Hd.
  - intros H; inversion H. exact (proj1 (do_control_dead c s t p Hd)).
  - destruct (valid_level l); intros H; inversion H; subst; cbn [fst]; [split; [reflexivity|exact Hd]|apply sfrozen_refl; exact Hd].
  - intros H; inversion H; subst. split; [reflexivity|exact Hd].
Qed.

(* ... and the calls that start or finish a message, send a prepared message or a control frame
   all report an error *)
Theorem after_failure_reported c pms s o x : sdead s -> run_op c pms s o = Ok x ->
  match o with
  | ONext _ _ | OClose _ | OWriteMessage _ _ _ _ _ | OJson _ _ _ _ | OCtl _ _ => snd x <> 0
  | OPrepared idx _ _ => nth_error pms (N.to_nat idx) <> None -> snd x <> 0
  | _ => True
  end.
Proof.
  intros Hd. destruct o; cbn [run_op]; try (intros; exact I).
  - intros H. exact (proj2 (do_next_dead _ _ _ _ _ Hd H)).
  - intros H. exact (proj2 (do_close_dead _ _ _ _ Hd H)).
  - intros H. apply (drop_handle_dead s) in H; [exact (proj2 H)|]. intros y. apply do_write_message_dead. exact Hd.
  - intros H. apply (drop_handle_dead s) in H; [exact (proj2 H)|]. intros y. apply do_write_json_dead. exact Hd.
  - destruct (nth_error pms (N.to_nat idx)) as [[t p]|].
    + intros H _. exact (proj2 (do_prepared_dead _ _ _ _ _ _ _ _ Hd H)).
    + intros _ Hn. congruence.
  - intros H; inversion H. exact (proj2 (do_control_dead c s t p Hd)).
Qed.

Theorem after_failure_wire c pms : forall os s x, sdead s -> run_oplist c pms s os = Ok x -> wire_of (fst x) = wire_of s.
Proof.
  induction os as [|o os IH]; intros s x Hd H; cbn [run_oplist] in H.
  - inversion H. reflexivity.
  - destruct (run_op c pms s o) as [y| |] eqn:E; cbn [bind] in H; try discriminate.
    pose proof (after_failure_frozen _ _ _ _ _ Hd E) as [Ho Hd1].
    destruct (snd y =? 0).
    + rewrite (IH _ _ Hd1 H). unfold wire_of. rewrite Ho. reflexivity.
    + inversion H; subst. unfold wire_of. rewrite Ho. reflexivity.
Qed.

(* what does NOT hold, because messageWriter.fatal tests `w.err != nil` where `w.err == nil`
   is meant: the writer that saw the failure is not marked, so a later Write on it that fits the
   buffer reports success although nothing will ever be sent.  Client, 16-byte buffer, the
   transport fails at once: NextWriter ok, Write ok (buffered), Close fails with the transport
   error, Write "succeeds", Close fails again. *)
Definition codes_of (c : cfg) (pms : list (N * bytes)) (s : cst) (os : list op) : list N :=
  snd (fold_left (fun (a : cst * list N) o =>
                    match run_op c pms (fst a) o with
                    | Ok (s', e) => (s', snd a ++ [e])
                    | _ => (fst a, snd a ++ [99])
                    end) os (s, [])).
Example later_write_fails_refuted :
  codes_of (mkC false 30) [] (with_budget (init_cst false [[1;2;3;4]]) (Some 0))
           [ONext 1 []; OWrite [1] []; OClose []; OWrite [2] []; OClose []; ONext 1 []]
  = [0; 0; eTransport; 0; eTransport; eTransport].
Proof. vm_compute. reflexivity. Qed.
