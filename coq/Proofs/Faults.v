(* C08 read side: a cut or failing transport under read plans (RTMP) and under the FLV demuxer. *)
From Verif Require Import Lib.Base Lib.Sx Lib.Err Lib.IO Model.Faults Proofs.FaultsIO.
From Verif Require Model.Flv Proofs.Flv.
Open Scope N_scope.

(* ================================ read plans, flat semantics ================================ *)
Definition rop_flat (o : rop) (f : bytes * N) : res (bytes * (bytes * N)) :=
  match o with RF n => read_full_flat n f | CN n => copy_n_flat n f end.

Fixpoint item_flat (ops : list rop) (f : bytes * N) (acc : list bytes) : res (list bytes * (bytes * N)) :=
  match ops with
  | [] => Ok (frev acc, f)
  | o :: t => match rop_flat o f with
              | Ok (b, f') => item_flat t f' (b :: acc)
              | Err e => Err e
              | Panic p => Panic p
              end
  end.

Fixpoint items_flat (items : list (list rop)) (f : bytes * N) (done : list (list bytes))
  : list (list bytes) * option N * (bytes * N) :=
  match items with
  | [] => (frev done, None, f)
  | it :: t => match item_flat it f [] with
               | Ok (bs, f') => items_flat t f' (bs :: done)
               | Err e => (frev done, Some e, f)
               | Panic p => (frev done, Some (2000 + p), f)
               end
  end.

Section PlanSound.
  Variable S : Type.
  Variable rd : N -> S -> bytes * option N * S.
  Variable fl : S -> bytes * N.
  Variable inv : S -> Prop.
  Hypothesis Hsound : sound rd fl inv.

  Lemma run_rop_sound o st : inv st ->
    match rop_flat o (fl st) with
    | Ok (x, f') => exists st', run_rop S rd o st = Ok (x, st') /\ fl st' = f' /\ inv st'
    | Err e => run_rop S rd o st = Err e
    | Panic _ => False
    end.
  Proof.
    intros Hi. destruct o as [n|n]; cbn [rop_flat run_rop].
    - exact (read_full_sound S rd fl inv Hsound n st Hi).
    - apply (copy_n_sound S rd fl inv Hsound copy_ask n st); [reflexivity|exact Hi].
  Qed.

  Lemma run_item_sound ops : forall st acc, inv st ->
    match item_flat ops (fl st) acc with
    | Ok (x, f') => exists st', run_item S rd ops st acc = Ok (x, st') /\ fl st' = f' /\ inv st'
    | Err e => run_item S rd ops st acc = Err e
    | Panic _ => False
    end.
  Proof.
    induction ops as [|o ops IH]; intros st acc Hi; cbn [item_flat run_item].
    - exists st. auto.
    - pose proof (run_rop_sound o st Hi) as Ho.
      destruct (rop_flat o (fl st)) as [[x f']|e|p].
      + destruct Ho as (st' & -> & Hf & Hi'). specialize (IH st' (x :: acc) Hi'). now rewrite Hf in IH.
      + now rewrite Ho.
      + contradiction.
  Qed.

  (* the items returned and the error depend on the flattening only *)
  Theorem run_items_sound items : forall st done, inv st ->
    let '(d, e, f') := items_flat items (fl st) done in
    exists st', run_items S rd items st done = (d, e, st') /\ inv st' /\ (e = None -> fl st' = f').
  Proof.
    induction items as [|it items IH]; intros st done Hi; cbn [items_flat run_items].
    - exists st. auto.
    - pose proof (run_item_sound it st [] Hi) as Ho.
      destruct (item_flat it (fl st) []) as [[x f']|e|p].
      + destruct Ho as (st' & -> & Hf & Hi'). specialize (IH st' (x :: done) Hi'). now rewrite Hf in IH.
      + rewrite Ho. exists st. split; [reflexivity|]. split; [exact Hi|discriminate].
      + contradiction.
  Qed.
End PlanSound.

(* short_code, item_outcome, plan_outcome: what a plan yields on k bytes followed by the terminal
   error t -- defined in Model/Faults.v (the correspondence run uses them directly for long wires) *)

Lemma lenN_firstn_le (b : bytes) n : n <= lenN b -> lenN (firstn (N.to_nat n) b) = n.
Proof. rewrite !lenN_length, firstn_length. lia. Qed.
Lemma lenN_skipn (b : bytes) n : lenN (skipn (N.to_nat n) b) = lenN b - n.
Proof. rewrite !lenN_length, skipn_length. lia. Qed.

Lemma rop_flat_outcome o b t :
  match rop_flat o (b, t) with
  | Ok (x, (b', t')) => rop_size o <= lenN b /\ lenN b' = lenN b - rop_size o /\ t' = t /\
                        b = x ++ b' /\ lenN x = rop_size o
  | Err e => lenN b < rop_size o /\ e = short_code o (lenN b) t
  | Panic _ => False
  end.
Proof.
  destruct o as [n|n]; cbn [rop_flat read_full_flat copy_n_flat rop_size short_code].
  - destruct (N.leb_spec n (lenN b)) as [Hle|Hgt].
    + rewrite lenN_skipn, firstn_skipn, lenN_firstn_le by exact Hle. auto.
    + destruct b as [|x b].
      * cbn. auto.
      * replace (lenN (x :: b) =? 0) with false
          by (symmetry; apply N.eqb_neq; pose proof (lenN_pos (x :: b)); intros E;
              assert (0 < lenN (x :: b)) by (apply H; congruence); lia).
        destruct (t =? id_EOF); auto.
  - destruct (N.leb_spec n (lenN b)) as [Hle|Hgt].
    + rewrite lenN_skipn, firstn_skipn, lenN_firstn_le by exact Hle. auto.
    + auto.
Qed.

Lemma item_flat_outcome ops : forall b t acc,
  match item_flat ops (b, t) acc with
  | Ok (_, (b', t')) => item_outcome ops (lenN b) t = inl (lenN b') /\ t' = t
  | Err e => item_outcome ops (lenN b) t = inr e
  | Panic _ => False
  end.
Proof.
  induction ops as [|o ops IH]; intros b t acc; cbn [item_flat item_outcome].
  - auto.
  - pose proof (rop_flat_outcome o b t) as Ho.
    destruct (rop_flat o (b, t)) as [[x [b' t']]|e|p].
    + destruct Ho as (Hle & Hl & -> & _).
      destruct (N.leb_spec (rop_size o) (lenN b)) as [_|H]; [|lia].
      rewrite <- Hl. apply IH.
    + destruct Ho as (Hlt & ->).
      destruct (N.leb_spec (rop_size o) (lenN b)) as [H|_]; [lia|reflexivity].
    + contradiction.
Qed.

Definition item_size (ops : list rop) : N := fold_right (fun o a => rop_size o + a) 0 ops.
Definition plan_size (items : list (list rop)) : N := fold_right (fun it a => item_size it + a) 0 items.

Lemma item_outcome_inl ops : forall a t a', item_outcome ops a t = inl a' ->
  item_size ops <= a /\ a' = a - item_size ops.
Proof.
  induction ops as [|o ops IH]; intros a t a' H; cbn [item_outcome item_size fold_right] in *.
  - injection H as <-. lia.
  - fold (item_size ops). destruct (N.leb_spec (rop_size o) a) as [Hc|Hc]; [|discriminate].
    destruct (IH _ _ _ H) as (H1 & ->). lia.
Qed.

Theorem items_flat_outcome items : forall b t done n,
  let '(d, e, f') := items_flat items (b, t) done in
  plan_outcome items (lenN b) t n = (n + N.of_nat (length d) - N.of_nat (length done), e)
  /\ (length done <= length d)%nat
  /\ (e = None -> snd f' = t /\ plan_size items <= lenN b /\ lenN (fst f') = lenN b - plan_size items).
Proof.
  induction items as [|it items IH]; intros b t done n; cbn [items_flat plan_outcome plan_size fold_right].
  - rewrite frev_rev, rev_length. split; [f_equal; lia|]. split; [lia|]. intros _. cbn [fst snd]. split; [reflexivity|lia].
  - fold (plan_size items). pose proof (item_flat_outcome it b t []) as Ho.
    destruct (item_flat it (b, t) []) as [[x [b' t']]|e|p].
    + destruct Ho as (Ho & ->). rewrite Ho. destruct (item_outcome_inl _ _ _ _ Ho) as (Hs & Hb').
      specialize (IH b' t (x :: done) (N.succ n)).
      destruct (items_flat items (b', t) (x :: done)) as [[d e] f]. destruct IH as (-> & Hl & Hn).
      cbn [length] in *. split; [f_equal; lia|]. split; [lia|].
      intros He. destruct (Hn He) as (H1 & H2 & H3). split; [exact H1|]. lia.
    + rewrite Ho, frev_rev, rev_length. split; [f_equal; lia|]. split; [lia|discriminate].
    + contradiction.
Qed.

(* ---------- properties of plan_outcome: the statement of C08 for a framed reader ---------- *)
Lemma item_outcome_complete ops : forall a t, item_size ops <= a ->
  item_outcome ops a t = inl (a - item_size ops).
Proof.
  induction ops as [|o ops IH]; intros a t H; cbn [item_outcome item_size fold_right] in *.
  - f_equal. lia.
  - fold (item_size ops) in *. destruct (N.leb_spec (rop_size o) a) as [_|Hc]; [|lia].
    rewrite IH by lia. f_equal. lia.
Qed.

Lemma item_outcome_short ops : forall a t, a < item_size ops ->
  exists e, item_outcome ops a t = inr e /\ (e = t \/ (t = id_EOF /\ e = id_UnexpectedEOF)).
Proof.
  induction ops as [|o ops IH]; intros a t H; cbn [item_outcome item_size fold_right] in *; [lia|].
  fold (item_size ops) in *. destruct (N.leb_spec (rop_size o) a) as [Hc|Hc].
  - apply IH. lia.
  - eexists. split; [reflexivity|]. destruct o as [n|n]; cbn [short_code]; [|auto].
    destruct (a =? 0); [auto|]. destruct (N.eqb_spec t id_EOF); auto.
Qed.

(* exactly the items that end within the first a bytes are completed, in order; if one does
   not, an error is reported, and it is the terminal error (or ErrUnexpectedEOF for a cut) *)
Theorem plan_outcome_spec pre : forall it post a t n,
  plan_size pre <= a -> a < plan_size pre + item_size it ->
  exists e, plan_outcome (pre ++ it :: post) a t n = (n + N.of_nat (length pre), Some e) /\
            (e = t \/ (t = id_EOF /\ e = id_UnexpectedEOF)).
Proof.
  induction pre as [|p pre IH]; intros it post a t n Hle Hlt; cbn [app plan_outcome plan_size fold_right length] in *.
  - destruct (item_outcome_short it a t) as (e & -> & He); [lia|].
    exists e. split; [f_equal; lia|exact He].
  - fold (plan_size pre) in *. rewrite item_outcome_complete by lia.
    destruct (IH it post (a - item_size p) t (N.succ n)) as (e & -> & He); [lia|lia|].
    exists e. split; [f_equal; lia|exact He].
Qed.

Theorem plan_outcome_all items : forall a t n, plan_size items <= a ->
  plan_outcome items a t n = (n + N.of_nat (length items), None).
Proof.
  induction items as [|p items IH]; intros a t n H; cbn [plan_outcome plan_size fold_right length] in *.
  - f_equal. lia.
  - fold (plan_size items) in *. rewrite item_outcome_complete by lia.
    rewrite IH by lia. f_equal. lia.
Qed.

(* a stream that ends exactly between two items ends cleanly: the next item's first read gets
   the terminal error itself (io.EOF for a cut), whatever kind of read it is *)
Theorem plan_outcome_boundary pre : forall o ops post t n, 0 < rop_size o ->
  plan_outcome (pre ++ (o :: ops) :: post) (plan_size pre) t n = (n + N.of_nat (length pre), Some t).
Proof.
  induction pre as [|p pre IH]; intros o ops post t n Ho; cbn [app plan_outcome plan_size fold_right length item_outcome] in *.
  - destruct (N.leb_spec (rop_size o) 0) as [H|_]; [lia|].
    f_equal; [lia|]. destruct o; reflexivity.
  - fold (plan_size pre). rewrite item_outcome_complete by lia.
    replace (item_size p + plan_size pre - item_size p) with (plan_size pre) by lia.
    rewrite IH by exact Ho. f_equal. lia.
Qed.

(* one byte into a multi-byte io.ReadFull the cut is reported as ErrUnexpectedEOF *)
Theorem plan_outcome_inside pre : forall n0 ops post a n,
  plan_size pre < a -> a < plan_size pre + n0 ->
  plan_outcome (pre ++ (RF n0 :: ops) :: post) a id_EOF n = (n + N.of_nat (length pre), Some id_UnexpectedEOF).
Proof.
  induction pre as [|p pre IH]; intros n0 ops post a n Hlo Hhi; cbn [app plan_outcome plan_size fold_right length item_outcome rop_size short_code] in *.
  - destruct (N.leb_spec n0 a) as [H|_]; [lia|].
    replace (a =? 0) with false by (symmetry; apply N.eqb_neq; lia).
    cbn. f_equal. lia.
  - fold (plan_size pre) in *. rewrite item_outcome_complete by lia.
    rewrite IH by lia. f_equal. lia.
Qed.

(* ================================ RTMP read session ================================ *)
Definition rtmp_plan (hs : bool) (ms : list rmsg) : list (list rop) :=
  (if hs then hs_plan else []) ++ msgs_plan DEFCHUNK ms ++ [[RF 1]].

Lemma plan_outcome_shift items : forall a t n,
  plan_outcome items a t n = (n + fst (plan_outcome items a t 0), snd (plan_outcome items a t 0)).
Proof.
  induction items as [|it items IH]; intros a t n; cbn [plan_outcome].
  - cbn. f_equal. lia.
  - destruct (item_outcome it a t) as [a'|e].
    + rewrite (IH a' t (N.succ n)), (IH a' t (N.succ 0)). cbn [fst snd]. f_equal. lia.
    + cbn. f_equal. lia.
Qed.

Lemma plan_outcome_app x : forall y a t n,
  plan_outcome (x ++ y) a t n =
  match plan_outcome x a t n with
  | (n', Some e) => (n', Some e)
  | (n', None) => plan_outcome y (a - plan_size x) t n'
  end.
Proof.
  induction x as [|it x IH]; intros y a t n; cbn [app plan_outcome plan_size fold_right].
  - now rewrite N.sub_0_r.
  - fold (plan_size x). destruct (item_outcome it a t) as [a'|e] eqn:Ho; [|reflexivity].
    destruct (item_outcome_inl _ _ _ _ Ho) as (_ & ->). rewrite IH.
    replace (a - item_size it - plan_size x) with (a - (item_size it + plan_size x)) by lia. reflexivity.
Qed.

(* the session: handshake on the raw transport, the chunk stream through bufio.Reader; for
   every stream, however segmented, that delivers k bytes and then fails with t *)
Theorem rtmp_read_session_spec hs ms s b t : flat s = (b, t) ->
  rtmp_read_session hs ms s =
  let (n, e) := plan_outcome (rtmp_plan hs ms) (lenN b) t 0 in
  (n, match e with Some x => x | None => 1000 end).
Proof.
  intros Hf. unfold rtmp_read_session, rtmp_plan.
  set (plan2 := msgs_plan DEFCHUNK ms ++ [[RF 1]]).
  assert (P2 : forall s1 b1, flat s1 = (b1, t) ->
     let '(d2, e2, _) := run_items (bufr stream) (br_read stream tr_read) plan2 (bufr_new s1) [] in
     plan_outcome plan2 (lenN b1) t 0 = (N.of_nat (length d2), e2)).
  { intros s1 b1 H1. destruct (bt_new s1) as [Hi Hb].
    pose proof (run_items_sound _ _ _ _ buffered_transport_sound plan2 (bufr_new s1) [] Hi) as R.
    rewrite Hb, H1 in R. pose proof (items_flat_outcome plan2 b1 t [] 0) as O.
    destruct (items_flat plan2 (b1, t) []) as [[d e] f]. destruct R as (st' & -> & _).
    destruct O as (-> & _). cbn [length]. f_equal. lia. }
  destruct hs.
  - pose proof (run_items_sound _ _ _ _ transport_sound hs_plan s [] I) as R.
    rewrite Hf in R. pose proof (items_flat_outcome hs_plan b t [] 0) as O.
    destruct (items_flat hs_plan (b, t) []) as [[d1 e1] [b1 t1]].
    destruct R as (s1 & -> & _ & Hf1). destruct O as (O & _ & On).
    rewrite plan_outcome_app, O. cbn [length]. rewrite N.add_0_l, N.sub_0_r.
    destruct e1 as [e|].
    + reflexivity.
    + destruct (On eq_refl) as (Ht & Hs & Hl). cbn [fst snd] in *. subst t1.
      specialize (P2 s1 b1 (Hf1 eq_refl)).
      destruct (run_items (bufr stream) (br_read stream tr_read) plan2 (bufr_new s1) []) as [[d2 e2] x].
      rewrite plan_outcome_shift, <- Hl, P2. cbn [fst snd]. f_equal. lia.
  - cbn [app]. specialize (P2 s b Hf).
    destruct (run_items (bufr stream) (br_read stream tr_read) plan2 (bufr_new s) []) as [[d2 e2] x].
    rewrite P2. cbn [length]. reflexivity.
Qed.

(* the cut never goes unnoticed: with at most the whole wire delivered the session ends with an
   error (the extra ReadMessage after the last message cannot get its first byte) *)
Lemma plan_size_app x y : plan_size (x ++ y) = plan_size x + plan_size y.
Proof. induction x as [|it x IH]; cbn [app plan_size fold_right]; [reflexivity|]. fold (plan_size (x ++ y)) (plan_size x). lia. Qed.

Definition rtmp_wire_len (hs : bool) (ms : list rmsg) : N :=
  plan_size ((if hs then hs_plan else []) ++ msgs_plan DEFCHUNK ms).

Theorem rtmp_plan_always_error hs ms k t : k <= rtmp_wire_len hs ms ->
  exists e, snd (plan_outcome (rtmp_plan hs ms) k t 0) = Some e /\
            (e = t \/ (t = id_EOF /\ e = id_UnexpectedEOF)).
Proof.
  intros Hk. unfold rtmp_plan, rtmp_wire_len in *.
  set (P := (if hs then hs_plan else []) ++ msgs_plan DEFCHUNK ms) in *.
  assert (Hsplit : forall items a, a < plan_size items + 1 ->
     exists pre it post, items ++ [[RF 1]] = pre ++ it :: post /\ plan_size pre <= a /\ a < plan_size pre + item_size it).
  { induction items as [|it items IH]; intros a Ha; cbn [plan_size fold_right app] in *.
    - exists [], [RF 1], []. cbn. split; [reflexivity|lia].
    - fold (plan_size items) in *. destruct (N.ltb_spec a (item_size it)) as [Hlt|Hge].
      + exists [], it, (items ++ [[RF 1]]). cbn. split; [reflexivity|lia].
      + destruct (IH (a - item_size it)) as (pre & it' & post & E & H1 & H2); [lia|].
        exists (it :: pre), it', post. cbn [app plan_size fold_right]. fold (plan_size pre).
        rewrite E. split; [reflexivity|lia]. }
  destruct (Hsplit P k) as (pre & it & post & E & H1 & H2); [lia|].
  replace (((if hs then hs_plan else []) ++ msgs_plan DEFCHUNK ms ++ [[RF 1]])) with (P ++ [[RF 1]])
    by (unfold P; now rewrite app_assoc).
  rewrite E. destruct (plan_outcome_spec pre it post k t 0 H1 H2) as (e & -> & He).
  exists e. auto.
Qed.

(* ---------- the shortcut of the correspondence run is the session ---------- *)
Lemma seg_go_concat fuel : forall b pend all acc,
  concat (seg_go fuel b pend all acc) = concat (rev acc) ++ b.
Proof.
  induction fuel as [|f IH]; intros b pend all acc; cbn [seg_go].
  - rewrite frev_rev. cbn [rev]. rewrite concat_app. cbn. now rewrite app_nil_r.
  - destruct b as [|x b]; [rewrite frev_rev; now rewrite app_nil_r|].
    destruct (next_size pend all) as [k pend']. destruct (k =? 0).
    + rewrite frev_rev. cbn [rev]. rewrite concat_app. cbn. now rewrite app_nil_r.
    + rewrite split_at_spec, IH. cbn [rev]. rewrite concat_app. cbn [concat]. rewrite app_nil_r, <- app_assoc.
      now rewrite firstn_skipn.
Qed.

Lemma seal_flat l t tog : flat (seal l t tog) = (concat l, t).
Proof.
  induction l as [|x l IH]; [destruct tog; reflexivity|].
  destruct l as [|y l].
  - destruct tog; cbn; now rewrite app_nil_r.
  - change (seal (x :: y :: l) t tog) with (Data x :: seal (y :: l) t tog). cbn [flat]. rewrite IH. reflexivity.
Qed.

Lemma mk_stream_flat data sizes t tog : flat (mk_stream data sizes t tog) = (data, t).
Proof. unfold mk_stream. rewrite seal_flat, seg_go_concat. reflexivity. Qed.

(* for every segmentation the harness can ask for, the directly computed outcome is what the
   session over the simulated transport returns *)
Theorem rtmp_read_outcome_ok hs ms k t sizes tog :
  rtmp_read_session hs ms (mk_stream (repeat 0 (N.to_nat k)) sizes t tog) = rtmp_read_outcome hs ms k t.
Proof.
  rewrite (rtmp_read_session_spec hs ms _ _ t (mk_stream_flat _ sizes t tog)).
  unfold rtmp_read_outcome, rtmp_plan. rewrite lenN_length, repeat_length, N2Nat.id. reflexivity.
Qed.
