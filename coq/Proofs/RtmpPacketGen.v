(* The model's switches (Model/RtmpPacket.v) against the tables the translator regenerates from
   rtmp.go on every run (tools/repo2coq/gen_rtmppkt.go): a generic interpreter of the generated
   tables computes the same receiver / table as the hand-written model for EVERY command name,
   request name and message type.  A change of a switch in the source changes a table and
   re-opens these lemmas (and with them Props/C03.v). *)
From Coq Require Import String.
From Verif Require Import Lib.Base Lib.Sx Lib.GoSem Gen.Gen_rtmp Model.Amf0 Model.RtmpPacket.
From Verif Require Import Proofs.RtmpPacket Proofs.RtmpPacketTx.
Open Scope N_scope.

(* constructor by the name the source uses *)
Definition ctor_of (c : string) (tid : N) : option pkt :=
  if String.eqb c "NewConnectAppPacket" then Some new_connect
  else if String.eqb c "NewConnectAppResPacket" then Some (new_connect_res tid)
  else if String.eqb c "NewCallPacket" then Some new_call
  else if String.eqb c "NewCreateStreamPacket" then Some new_create_stream
  else if String.eqb c "NewCreateStreamResPacket" then Some (new_create_stream_res tid)
  else if String.eqb c "NewPublishPacket" then Some new_publish
  else if String.eqb c "NewPlayPacket" then Some new_play
  else if String.eqb c "NewSetChunkSize" then Some new_set_chunk_size
  else if String.eqb c "NewWindowAcknowledgementSize" then Some new_win_ack
  else if String.eqb c "NewSetPeerBandwidth" then Some new_set_peer_bw
  else if String.eqb c "NewUserControl" then Some new_user_control
  else None.

Fixpoint assoc_name (l : list (string * string)) (name : bytes) : option string :=
  match l with
  | [] => None
  | (k, v) :: r => if bytes_eqb name (string_bytes k) then Some v else assoc_name r name
  end.

Definition in_names (l : list string) (name : bytes) : bool :=
  existsb (fun k => bytes_eqb name (string_bytes k)) l.

Definition ctor_res (c : string) (tid : N) (t : tx) : res pkt * tx :=
  match ctor_of c tid with Some r => (Ok r, t) | None => (Err 90, t) end.

(* parseAMFObject's switch, read off the generated tables *)
Definition parse_tbl (t : tx) (name : bytes) (tid : N) : res pkt * tx :=
  if in_names rtmp_tbl_parse_responses name then
    match tx_get t tid with
    | None => (Err 5, t)
    | Some rn =>
        let t' := if rtmp_tbl_parse_consumes then tx_del t tid else t in
        match assoc_name rtmp_tbl_parse_requests rn with
        | Some c => ctor_res c tid t'
        | None => (Err 6, t')
        end
    end
  else
    match assoc_name rtmp_tbl_parse_names name with
    | Some c => ctor_res c tid t
    | None => ctor_res rtmp_tbl_parse_default tid t
    end.

Theorem parse_spec_is_source_table t name tid : parse_spec t name tid = parse_tbl t name tid.
Proof.
  unfold parse_spec, parse_tbl, in_names, rtmp_tbl_parse_responses, rtmp_tbl_parse_requests,
    rtmp_tbl_parse_names, rtmp_tbl_parse_default, rtmp_tbl_parse_consumes.
  cbn [existsb assoc_name]. rewrite orb_false_r.
  rewrite (orb_comm (bytes_eqb name (string_bytes "_error"))).
  change (string_bytes "_result") with cResult. change (string_bytes "_error") with cError.
  change (string_bytes "connect") with cConnect. change (string_bytes "createStream") with cCreateStream.
  change (string_bytes "play") with cPlay. change (string_bytes "publish") with cPublish.
  destruct (bytes_eqb name cResult || bytes_eqb name cError).
  - destruct (tx_get t tid) as [rn|]; [|reflexivity].
    destruct (bytes_eqb rn cConnect); [reflexivity|].
    destruct (bytes_eqb rn cCreateStream); reflexivity.
  - destruct (bytes_eqb name cConnect); [reflexivity|].
    destruct (bytes_eqb name cCreateStream); [reflexivity|].
    destruct (bytes_eqb name cPlay); [reflexivity|].
    destruct (bytes_eqb name cPublish); reflexivity.
Qed.

(* DecodeMessage's two switches on the message type, read off the generated tables *)
Fixpoint assoc_type (l : list (Z * string)) (mt : N) : option string :=
  match l with
  | [] => None
  | (k, v) :: r => if mt =? Z.to_N k then Some v else assoc_type r mt
  end.

Definition skip_tbl (mt : N) : bool := existsb (fun k => mt =? Z.to_N k) rtmp_tbl_decode_skip.

Definition receiver_tbl (t : tx) (mt : N) (p : bytes) : res pkt * tx :=
  match assoc_type rtmp_tbl_decode_types mt with
  | Some c => if String.eqb c "parseAMFObject" then parse_amf_object t p else ctor_res c 0 t
  | None => (Err 2, t)
  end.

Definition decode_tbl (t : tx) (mt : N) (payload : bytes) : res pkt * tx :=
  match payload with
  | [] => (Err 1, t)
  | _ :: tl =>
      let p := if skip_tbl mt then tl else payload in
      match receiver_tbl t mt p with
      | (Ok r, t') => (unmarshal r p, t')
      | (Err e, t') => (Err e, t')
      | (Panic s, t') => (Panic s, t')
      end
  end.

Theorem decode_message_is_source_table t mt payload :
  decode_message t mt payload = decode_tbl t mt payload.
Proof.
  destruct payload as [|x tl]; [reflexivity|].
  Opaque parse_amf_object unmarshal.
  destruct (N.eqb_spec mt 1) as [->|H1]; [reflexivity|].
  destruct (N.eqb_spec mt 4) as [->|H4]; [reflexivity|].
  destruct (N.eqb_spec mt 5) as [->|H5]; [reflexivity|].
  destruct (N.eqb_spec mt 6) as [->|H6]; [reflexivity|].
  destruct (N.eqb_spec mt 15) as [->|H15];
    [cbn; destruct (parse_amf_object t tl) as [[r|e|s] t']; reflexivity|].
  destruct (N.eqb_spec mt 17) as [->|H17];
    [cbn; destruct (parse_amf_object t tl) as [[r|e|s] t']; reflexivity|].
  destruct (N.eqb_spec mt 18) as [->|H18];
    [cbn; destruct (parse_amf_object t (x :: tl)) as [[r|e|s] t']; reflexivity|].
  destruct (N.eqb_spec mt 20) as [->|H20];
    [cbn; destruct (parse_amf_object t (x :: tl)) as [[r|e|s] t']; reflexivity|].
  Transparent parse_amf_object unmarshal.
  apply N.eqb_neq in H1, H4, H5, H6, H15, H17, H18, H20.
  unfold decode_message, decode_tbl, skip_tbl, receiver_tbl, rtmp_tbl_decode_skip, rtmp_tbl_decode_types,
    is_amf_type.
  cbn [existsb assoc_type].
  change (Z.to_N 1) with 1. change (Z.to_N 4) with 4. change (Z.to_N 5) with 5. change (Z.to_N 6) with 6.
  change (Z.to_N 15) with 15. change (Z.to_N 17) with 17. change (Z.to_N 18) with 18. change (Z.to_N 20) with 20.
  change mtSetChunkSize with 1. change mtUserControl with 4. change mtWinAck with 5. change mtSetPeerBw with 6.
  change mtAMF3Data with 15. change mtAMF3Command with 17. change mtAMF0Data with 18. change mtAMF0Command with 20.
  rewrite H1, H4, H5, H6, H15, H17, H18, H20. reflexivity.
Qed.

(* requestTransaction's type switch and the constructors' defaults, as the source has them *)
Definition type_name (p : pkt) : string :=
  match p with
  | PConnect _ _ _ _ => "ConnectAppPacket" | PConnectRes _ _ _ _ => "ConnectAppResPacket"
  | PCall _ _ _ _ => "CallPacket" | PCreateStream _ _ _ => "CreateStreamPacket"
  | PCreateStreamRes _ _ _ _ => "CreateStreamResPacket" | PPublish _ _ _ _ _ => "PublishPacket"
  | PPlay _ _ _ _ => "PlayPacket" | PSetChunkSize _ => "SetChunkSize"
  | PWinAck _ => "WindowAcknowledgementSize" | PSetPeerBw _ _ => "SetPeerBandwidth"
  | PUserControl _ _ _ => "UserControl"
  end.

Theorem request_transaction_is_source_table p :
  request_transaction p =
  if existsb (String.eqb (type_name p)) rtmp_tbl_request_types then (cmd_tid p, cmd_name p) else (0, []).
Proof. destruct p; reflexivity. Qed.

(* a variant-call constructor's defaults: (CommandName, TransactionID bits, command object, StreamType) *)
Definition ctor_obj (c : string) : option amf :=
  if String.eqb c "amf0.NewNull" then Some ANull else None.
Definition variant_defaults (c : string * Z * string * string) : bytes * N * option amf * bytes :=
  let '(n, t, o, st) := c in (string_bytes n, Z.to_N t, ctor_obj o, string_bytes st).

Theorem constructors_are_source_tables :
  (let '(n, t, o, _) := rtmp_tbl_ctor_NewConnectAppPacket in
   o = "amf0.NewObject"%string /\ new_connect = PConnect (string_bytes n) (Z.to_N t) [] None) /\
  (let '(n, _, o, _) := rtmp_tbl_ctor_NewConnectAppResPacket in
   o = "amf0.NewObject"%string /\ forall tid, new_connect_res tid = PConnectRes (string_bytes n) tid [] None) /\
  (let '(n, t, o, _) := variant_defaults rtmp_tbl_ctor_NewCallPacket in new_call = PCall n t o None) /\
  (let '(n, t, o, _) := variant_defaults rtmp_tbl_ctor_NewCloseStreamPacket in new_close_stream = PCall n t o None) /\
  (let '(n, t, o, _) := variant_defaults rtmp_tbl_ctor_NewCreateStreamPacket in new_create_stream = PCreateStream n t o) /\
  (let '(n, _, o, _) := variant_defaults rtmp_tbl_ctor_NewCreateStreamResPacket in
   forall tid, new_create_stream_res tid = PCreateStreamRes n tid o 0) /\
  (let '(n, t, o, st) := variant_defaults rtmp_tbl_ctor_NewPublishPacket in new_publish = PPublish n t o [] st) /\
  (let '(n, t, o, _) := variant_defaults rtmp_tbl_ctor_NewPlayPacket in new_play = PPlay n t o []).
Proof. repeat split. Qed.
