(* C19 proofs.  encoding/json is an oracle: a Section with the marshaller and what the client
   half sees of a body as variables and the assumed law (parse after marshal gives the object
   back) as a Hypothesis; the theorems hold for every such pair. *)
From Verif Require Import Lib.Base Lib.Sx Model.HttpApi.
From Coq Require Import String.
Open Scope Z_scope.

(* ---- float64 rounding of an integer code never produces 0 from a non-zero code ---- *)
Lemma round53_small z : Z.abs z < 9007199254740992 -> round53 z = z.
Proof. intros H. unfold round53. destruct (Z.abs z <? 9007199254740992) eqn:E; [reflexivity|lia]. Qed.

Lemma round53_nonzero z : z <> 0 -> round53 z <> 0.
Proof.
  intros Hz. unfold round53. destruct (Z.abs z <? 9007199254740992) eqn:E; [exact Hz|].
  apply Z.ltb_ge in E.
  set (a := Z.abs z) in *. set (e := Z.log2 a - 52).
  assert (Ha : 0 < a) by lia.
  assert (Hl : 53 <= Z.log2 a) by (apply Z.log2_le_pow2; lia).
  assert (He : 0 < e) by (unfold e; lia).
  assert (Hp : 0 < 2 ^ e) by (apply Z.pow_pos_nonneg; lia).
  assert (Hq : 0 < a / 2 ^ e).
  { apply Z.div_str_pos. split; [lia|].
    destruct (Z.log2_spec a Ha) as [L _]. unfold e.
    assert (2 ^ (Z.log2 a - 52) <= 2 ^ Z.log2 a) by (apply Z.pow_le_mono_r; lia). lia. }
  set (q := a / 2 ^ e) in *.
  assert (Hq' : 0 < (if a mod 2 ^ e <? 2 ^ (e - 1) then q
                     else if 2 ^ (e - 1) <? a mod 2 ^ e then q + 1 else if Z.even q then q else q + 1)).
  { repeat match goal with |- context [if ?c then _ else _] => destruct c end; lia. }
  assert (Hs : Z.sgn z <> 0) by (destruct z; cbn; lia).
  intros H0. apply Z.mul_eq_0 in H0 as [H0|H0]; [lia|]. apply Z.mul_eq_0 in H0 as [H0|H0]; lia.
Qed.

(* ---- lookups in the envelopes ---- *)
Lemma view_code c rest : view_of_members ((k_code, JInt c) :: rest) = VCode (round53 c).
Proof. reflexivity. Qed.

Lemma client_nonzero st c : c <> 0 -> client st (VCode c) = (c, true).
Proof. intros H. unfold client. destruct (c =? 0) eqn:E; [lia|reflexivity]. Qed.

Lemma client_non2xx st v : st < 200 \/ 300 <= st -> snd (client st v) = true.
Proof.
  intros H. destruct v; cbn; auto. destruct (c =? 0); cbn; [|reflexivity].
  destruct (st <? 200) eqn:A; cbn; [reflexivity|]. destruct (300 <=? st) eqn:B; [reflexivity|lia].
Qed.

Section Wire.
  (* json.Marshal of a marshalable object given by its members *)
  Variable marshal : list (bytes * jv) -> bytes.
  (* json.Unmarshal(body, &map) followed by apiParse's lookup of "code" *)
  Variable parse_view : bytes -> view.
  (* the assumed law of encoding/json: parsing what was marshalled gives the object back
     (integers exactly up to float64 rounding, see round53) *)
  Hypothesis parse_marshal : forall m,
    forallb (fun kv => marshalable (snd kv)) m = true -> parse_view (marshal m) = view_of_members m.

  Definition lparen : N := 40%N.
  Definition rparen : N := 41%N.

  (* the bytes on the wire: fmt.Fprintf(w, "%s(%s)", cb, b) or w.Write(b) *)
  Definition wire (b : abody) : bytes :=
    match b with
    | BEnv [] m => marshal m
    | BEnv cb m => cb ++ [lparen] ++ marshal m ++ [rparen]
    | BText t => t
    end.

  (* ApiRequest against a server answering r *)
  Definition api_request (r : resp) : Z * bool := client (status r) (parse_view (wire (body r))).

  Variable g : cfg.

  Definition envelope (v : jv) : list (bytes * jv) := [(k_code, JInt 0); (k_data, v); (k_server, JInt (pid g))].

  (* success *)
  Lemma success_resp cb v merr : marshalable v = true ->
    respond g cb (PData v merr) =
      {| status := 200; ctyp := if is_nil cb then CtJson else CtJs; server := srv_name g; body := BEnv cb (envelope v) |}.
  Proof. intros H. unfold respond. rewrite H. reflexivity. Qed.

  Lemma success_client v merr : marshalable v = true -> api_request (respond g [] (PData v merr)) = (0, false).
  Proof.
    intros H. rewrite success_resp by auto. unfold api_request. cbn [status body wire].
    rewrite parse_marshal by (cbn; rewrite H; reflexivity). reflexivity.
  Qed.

  (* JSONP: the same JSON, wrapped *)
  Definition via_json_handler (p : payload) : bool :=
    match p with PData v _ => marshalable v | PSys _ | PCplx _ _ | PApp _ _ => true | PPlain _ _ => false
            | PRaw _ m _ => members_marshalable m end.

  Lemma jsonp_wrap cb p : cb <> [] -> via_json_handler p = true ->
    let r := respond g cb p in let r0 := respond g [] p in
    status r = status r0 /\ ctyp r = CtJs /\ ctyp r0 = CtJson /\ server r = srv_name g /\
    wire (body r) = cb ++ [lparen] ++ wire (body r0) ++ [rparen].
  Proof.
    intros Hcb Hp. destruct cb as [|c0 cb]; [congruence|].
    destruct p as [v merr|c|c msg|c msg|st msg|st m merr]; cbn in Hp; try discriminate;
      unfold respond; rewrite ?Hp; cbn; repeat split; reflexivity.
  Qed.

  (* coded errors *)
  Definition coded (p : payload) (c : Z) (members : list (bytes * jv)) : Prop :=
    (p = PSys c /\ members = [(k_code, JInt c)]) \/
    (exists msg, (p = PCplx c msg \/ p = PApp c msg) /\ members = [(k_code, JInt c); (k_data, JStr msg)]).

  Lemma coded_resp cb p c members : coded p c members ->
    respond g cb p = {| status := 200; ctyp := if is_nil cb then CtJson else CtJs; server := srv_name g; body := BEnv cb members |}.
  Proof. intros [[-> ->] | (msg & [-> | ->] & ->)]; reflexivity. Qed.

  Lemma coded_client p c members : coded p c members -> c <> 0 ->
    api_request (respond g [] p) = (round53 c, true).
  Proof.
    intros Hc Hz. rewrite (coded_resp [] p c members Hc). unfold api_request. cbn [status body wire].
    rewrite parse_marshal.
    - destruct Hc as [[_ ->] | (msg & _ & ->)]; rewrite view_code; apply client_nonzero, round53_nonzero, Hz.
    - destruct Hc as [[_ ->] | (msg & _ & ->)]; reflexivity.
  Qed.

  (* plain errors and unmarshalable values *)
  Lemma plain_resp cb st msg :
    respond g cb (PPlain st msg) =
      {| status := match st with Some s => s | None => 500 end; ctyp := CtText; server := srv_name g; body := BText (msg ++ [10%N]) |}.
  Proof. reflexivity. Qed.

  Lemma plain_client st msg :
    (match st with Some s => 300 <= s | None => True end) ->
    snd (api_request (respond g [] (PPlain st msg))) = true.
  Proof.
    intros H. rewrite plain_resp. unfold api_request. cbn [status]. apply client_non2xx.
    destruct st; lia.
  Qed.

  Lemma unmarshalable_resp cb v merr : marshalable v = false ->
    respond g cb (PData v merr) =
      {| status := 500; ctyp := CtText; server := srv_name g; body := BText (merr ++ [10%N]) |}.
  Proof. intros H. unfold respond. rewrite H. reflexivity. Qed.

  Lemma unmarshalable_client v merr : marshalable v = false ->
    snd (api_request (respond g [] (PData v merr))) = true.
  Proof. intros H. rewrite unmarshalable_resp by auto. unfold api_request. cbn [status]. apply client_non2xx. lia. Qed.

  (* success and failure are never confused *)
  Definition is_failure (p : payload) : Prop :=
    match p with
    | PData v _ => marshalable v = false
    | PSys c | PCplx c _ | PApp c _ => c <> 0
    | PPlain st _ => match st with Some s => 300 <= s | None => True end
    | PRaw _ m _ => members_marshalable m = false   (* a replaced hook decides everything else itself *)
    end.

  Lemma never_confused p :
    (is_failure p -> snd (api_request (respond g [] p)) = true) /\
    (forall v merr, p = PData v merr -> marshalable v = true -> api_request (respond g [] p) = (0, false)).
  Proof.
    split.
    - destruct p as [v merr|c|c msg|c msg|st msg|st m merr]; cbn [is_failure]; intros H.
      + now apply unmarshalable_client.
      + rewrite (coded_client (PSys c) c _ (or_introl (conj eq_refl eq_refl)) H). reflexivity.
      + rewrite (coded_client (PCplx c msg) c _ (or_intror (ex_intro _ msg (conj (or_introl eq_refl) eq_refl))) H). reflexivity.
      + rewrite (coded_client (PApp c msg) c _ (or_intror (ex_intro _ msg (conj (or_intror eq_refl) eq_refl))) H). reflexivity.
      + now apply plain_client.
      + unfold respond. rewrite H. unfold api_request. cbn [status plain_handler]. apply client_non2xx. lia.
    - intros v merr -> H. now apply success_client.
  Qed.

  (* a replaced FilterData hook: whatever object it returns is what is marshalled, with the
     status the object declares; the client half sees exactly that object *)
  Lemma raw_resp cb st m merr : members_marshalable m = true ->
    respond g cb (PRaw st m merr) =
      {| status := match st with Some s => s | None => 200 end; ctyp := if is_nil cb then CtJson else CtJs;
         server := srv_name g; body := BEnv cb m |}.
  Proof. intros H. unfold respond. rewrite H. reflexivity. Qed.

  Lemma raw_client st m merr : members_marshalable m = true ->
    api_request (respond g [] (PRaw st m merr)) = client (match st with Some s => s | None => 200 end) (view_of_members m).
  Proof. intros H. rewrite raw_resp by auto. unfold api_request. cbn [status body wire]. now rewrite parse_marshal. Qed.

  (* what stays possible (recorded finding plain-error-2xx-json): an error that declares a 2xx
     status itself and whose text the JSON decoder reads as an object with code 0 *)
  Definition w_code0 : bytes := [123; 34; 99; 111; 100; 101; 34; 58; 48; 125]%N.   (* an object with the one member code = 0 *)
  Lemma plain_2xx_confused :
    exists st msg,
      200 <= st < 300 /\
      (status (respond g [] (PPlain (Some st) msg)) = st) /\
      (wire (body (respond g [] (PPlain (Some st) msg))) = (msg ++ [10%N])%list) /\
      (parse_view (msg ++ [10%N]) = VCode 0 -> api_request (respond g [] (PPlain (Some st) msg)) = (0, false)).
  Proof.
    exists 200, w_code0. repeat split; try lia. intros H. unfold api_request. cbn [respond plain_handler body wire status].
    rewrite H. reflexivity.
  Qed.

  (* the client half agrees with the executable client of the model (run in the correspondence) *)
  Lemma api_request_abs r tv :
    (forall t, body r = BText t -> parse_view t = tv) ->
    (forall m, body r = BEnv [] m -> forallb (fun kv => marshalable (snd kv)) m = true) ->
    (forall cb m, body r = BEnv cb m -> cb = []) ->
    forall jtv, api_request r = client (status r) (body_view (body r) tv jtv).
  Proof.
    intros Ht Hm Hcb jtv. unfold api_request. destruct (body r) as [cb m|t] eqn:E.
    - rewrite (Hcb cb m eq_refl). cbn. rewrite parse_marshal by (apply Hm; now rewrite (Hcb cb m eq_refl)). reflexivity.
    - cbn. now rewrite (Ht t eq_refl).
  Qed.
End Wire.

(* the assumed law of encoding/json, as a predicate on an oracle pair (used by Props/C19.v) *)
Definition json_law (marshal : list (bytes * jv) -> bytes) (parse_view : bytes -> view) : Prop :=
  forall m, forallb (fun kv => marshalable (snd kv)) m = true -> parse_view (marshal m) = view_of_members m.

(* the envelope members the handlers marshal are marshalable exactly when the value is *)
Lemma envelope_marshalable g v : forallb (fun kv => marshalable (snd kv)) (envelope g v) = marshalable v.
Proof. cbn. now rewrite andb_true_r. Qed.

(* non-vacuity: a value with nesting, escapes and a nil; an unmarshalable value; codes *)
Definition ex_value : jv :=
  JObj [([97]%N, JArr [JNum 4609434218613702656; JStr [34; 92; 10; 195; 169]%N; JNull]); ([]%N, JBool true)].
Example ex_value_marshalable : marshalable ex_value = true.
Proof. reflexivity. Qed.
Example ex_chan_unmarshalable : marshalable (JObj [([99]%N, JBad 0)]) = false.
Proof. reflexivity. Qed.
Example ex_nan_unmarshalable : marshalable (JNum 9221120237041090560) = false.
Proof. reflexivity. Qed.
Example ex_round53 : round53 9007199254740993 = 9007199254740992 /\ round53 (-9007199254740995) = -9007199254740996
  /\ round53 (-7) = -7.
Proof. vm_compute. auto. Qed.

(* ---- WriteVersion ---- *)
Fixpoint dval (n : Z) (s : bytes) : Z :=
  match s with [] => n | c :: t => dval (n * 10 + (Z.of_N c - 48)) t end.

Lemma is_digit_range c : is_digit c = true -> 0 <= Z.of_N c - 48 <= 9.
Proof. unfold is_digit. intros H. apply andb_true_iff in H as [A B]. apply N.leb_le in A, B. lia. Qed.

Lemma dval_ge ds : forall n, 0 <= n -> forallb is_digit ds = true -> n <= dval n ds.
Proof.
  induction ds as [|c t IH]; intros n Hn Hd; cbn [dval]; [lia|].
  cbn in Hd. apply andb_true_iff in Hd as [Hc Ht]. pose proof (is_digit_range c Hc).
  specialize (IH (n * 10 + (Z.of_N c - 48)) ltac:(lia) Ht). lia.
Qed.

Lemma atoi_scan_ok ds : forall n, 0 <= n -> forallb is_digit ds = true -> dval n ds <= max_u64 ->
  atoi_scan n ds = ScanOk (dval n ds).
Proof.
  induction ds as [|c t IH]; intros n Hn Hd Hv; cbn [atoi_scan dval] in *; [reflexivity|].
  cbn in Hd. apply andb_true_iff in Hd as [Hc Ht]. rewrite Hc. cbn [negb].
  pose proof (is_digit_range c Hc) as Hr.
  pose proof (dval_ge t (n * 10 + (Z.of_N c - 48)) ltac:(lia) Ht) as Hge.
  unfold max_u64 in *.
  destruct (18446744073709551615 / 10 + 1 <=? n) eqn:A.
  - apply Z.leb_le in A. change (18446744073709551615 / 10 + 1) with 1844674407370955162 in A. lia.
  - destruct (18446744073709551615 <? n * 10 + (Z.of_N c - 48)) eqn:B; [apply Z.ltb_lt in B; lia|].
    apply IH; auto. lia.
Qed.

(* a plain decimal number that fits an int is read as itself *)
Lemma atoi_digits ds : ds <> [] -> forallb is_digit ds = true -> dval 0 ds <= max_i64 -> atoi ds = dval 0 ds.
Proof.
  intros Hne Hd Hv. destruct ds as [|c t]; [congruence|].
  assert (Hc : is_digit c = true) by (cbn in Hd; apply andb_true_iff in Hd as [Hc _]; exact Hc).
  assert (Hscan : atoi_scan 0 (c :: t) = ScanOk (dval 0 (c :: t)))
    by (apply atoi_scan_ok; auto; try lia; unfold max_u64, max_i64 in *; lia).
  assert (Hc10 : (c = 48 \/ c = 49 \/ c = 50 \/ c = 51 \/ c = 52 \/ c = 53 \/ c = 54 \/ c = 55 \/ c = 56 \/ c = 57)%N).
  { unfold is_digit in Hc. apply andb_true_iff in Hc as [A B]. apply N.leb_le in A, B. lia. }
  unfold atoi.
  repeat (destruct Hc10 as [-> | Hc10]); try subst c;
    cbv iota beta; rewrite Hscan;
    (destruct (max_i64 <? _) eqn:E; [apply Z.ltb_lt in E; lia|reflexivity]).
Qed.

Lemma split_on_notin sep a : forall cur, ~ In sep a -> split_on sep a cur = [rev cur ++ a].
Proof.
  induction a as [|c a IH]; intros cur Hn; cbn [split_on]; [now rewrite app_nil_r|].
  destruct (c =? sep)%N eqn:E; [apply N.eqb_eq in E; subst; elim Hn; now left|].
  rewrite IH by (intros Hi; apply Hn; now right). cbn [rev]. now rewrite <- app_assoc.
Qed.

Lemma split_on_first sep a rest : forall cur, ~ In sep a ->
  split_on sep (a ++ sep :: rest) cur = (rev cur ++ a) :: split_on sep rest [].
Proof.
  induction a as [|c a IH]; intros cur Hn; cbn [split_on app].
  - rewrite N.eqb_refl. now rewrite app_nil_r.
  - destruct (c =? sep)%N eqn:E; [apply N.eqb_eq in E; subst; elim Hn; now left|].
    rewrite IH by (intros Hi; apply Hn; now right). cbn [rev]. now rewrite <- app_assoc.
Qed.

Lemma digits_notin ds sep : forallb is_digit ds = true -> is_digit sep = false -> ~ In sep ds.
Proof. intros Hd Hs Hi. rewrite forallb_forall in Hd. rewrite (Hd _ Hi) in Hs. discriminate. Qed.

Definition is_num (ds : bytes) : Prop := ds <> [] /\ forallb is_digit ds = true /\ dval 0 ds <= max_i64.

(* version = major.minor.revision-extra in plain decimal: the data object carries those numbers,
   the version text itself and the Server signature *)
Lemma version_fields g ma mi re ex :
  is_num ma -> is_num mi -> is_num re -> is_num ex ->
  let version := ma ++ [46%N] ++ mi ++ [46%N] ++ re ++ [45%N] ++ ex in
  version_value g version =
    JObj [(k_extra, JInt (dval 0 ex)); (k_major, JInt (dval 0 ma)); (k_minor, JInt (dval 0 mi));
          (k_revision, JInt (dval 0 re)); (k_signature, JStr (srv_name g)); (k_version, JStr version)].
Proof.
  intros (Na & Da & Va) (Ni & Di & Vi) (Nr & Dr & Vr) (Ne & De & Ve) version.
  unfold version_value.
  assert (Hv : version = (ma ++ [46%N] ++ mi ++ [46%N] ++ re) ++ 45%N :: ex) by (unfold version; now rewrite <- !app_assoc).
  assert (Hnd : ~ In 45%N (ma ++ [46%N] ++ mi ++ [46%N] ++ re)).
  { intros Hi. repeat (apply in_app_or in Hi as [Hi|Hi]);
      try (revert Hi; apply digits_notin; auto; fail); cbn in Hi; destruct Hi as [Hi|[]]; discriminate. }
  assert (HS : split_on 45 version [] = [ma ++ [46%N] ++ mi ++ [46%N] ++ re; ex]).
  { rewrite Hv. rewrite (split_on_first 45 _ ex [] Hnd). cbn [rev app].
    rewrite (split_on_notin 45 ex []) by (apply digits_notin; auto). reflexivity. }
  rewrite !HS.
  assert (HP : split_on 46 (ma ++ [46%N] ++ mi ++ [46%N] ++ re) [] = [ma; mi; re]).
  { cbn [app]. rewrite (split_on_first 46 ma _ []) by (apply digits_notin; auto).
    rewrite (split_on_first 46 mi _ []) by (apply digits_notin; auto).
    rewrite (split_on_notin 46 re []) by (apply digits_notin; auto). reflexivity. }
  rewrite !HP.
  unfold nth_part. cbn [nth_error]. rewrite !atoi_digits by auto. reflexivity.
Qed.

(* the version response is always the success envelope of that object *)
Lemma version_marshalable g version : marshalable (version_value g version) = true.
Proof. reflexivity. Qed.

Example ex_version :
  version_value {| srv_name := [79]%N; pid := 7 |} [49; 46; 50; 48; 46; 51; 45; 52]%N =
  JObj [(k_extra, JInt 4); (k_major, JInt 1); (k_minor, JInt 20); (k_revision, JInt 3);
        (k_signature, JStr [79]%N); (k_version, JStr [49; 46; 50; 48; 46; 51; 45; 52]%N)].
Proof. vm_compute. reflexivity. Qed.
(* errors of strconv.Atoi are dropped: a syntax error reads as 0, a range error as the nearest int *)
Example ex_atoi : atoi [49; 95; 48]%N = 0 /\ atoi [45]%N = 0 /\ atoi [43; 53]%N = 5 /\
  atoi [57;57;57;57;57;57;57;57;57;57;57;57;57;57;57;57;57;57;57;57;57;46]%N = max_i64.
Proof. vm_compute. auto. Qed.

(* totality of the client half on arbitrary bodies (for C07): whatever the decoder makes of the
   untrusted body, apiParse + the status test return a code and an error flag; the model has no
   panic or non-termination to exclude, and a body that is not an object with a numeric code is
   always an error *)
Lemma httpapi_client_total st v : exists c e, client st v = (c, e).
Proof. destruct (client st v) as [c e]. now exists c, e. Qed.
Lemma httpapi_client_bad_body st v : v = VFail \/ v = VNoCode \/ v = VNotNum -> client st v = (0, true).
Proof. intros [-> | [-> | ->]]; reflexivity. Qed.

(* the complete body bytes computed in the correspondence run are [wire] of the theorems, with the
   marshaller instantiated by the bytes encoding/json produced for this envelope *)
Lemma wire_exec_wire mb b : wire_exec mb b = wire (fun _ => mb) b.
Proof. destruct b as [[|c cb] m|t]; reflexivity. Qed.

(* JSONP, on the executable side: for every payload answered through jsonHandler the body with a
   callback is callback ( plain body ) byte for byte *)
Lemma wire_exec_jsonp g cb p mb : cb <> [] -> via_json_handler p = true ->
  wire_exec mb (body (respond g cb p)) = cb ++ [40%N] ++ wire_exec mb (body (respond g [] p)) ++ [41%N].
Proof.
  intros Hcb Hp. rewrite !wire_exec_wire.
  destruct (jsonp_wrap (fun _ => mb) g cb p Hcb Hp) as (_ & _ & _ & _ & H). exact H.
Qed.

(* ---- strings that are not valid UTF-8 ---- *)
Lemma utf8_fix_ascii s : Forall (fun c => (c < 128)%N) s -> utf8_fix s = s.
Proof.
  induction 1 as [|c t Hc _ IH]; [reflexivity|]. cbn [utf8_fix].
  destruct (c <? 128)%N eqn:E; [now rewrite IH|apply N.ltb_ge in E; lia].
Qed.

(* a stray continuation byte, a truncated sequence, an overlong form and a surrogate are each
   replaced byte by byte; valid 2-, 3- and 4-byte sequences (U+FFFD itself included) are kept *)
Example ex_utf8_fix :
  utf8_fix [97; 128; 98]%N = [97; 239; 191; 189; 98]%N /\
  utf8_fix [195]%N = [239; 191; 189]%N /\
  utf8_fix [192; 175]%N = [239; 191; 189; 239; 191; 189]%N /\
  utf8_fix [237; 160; 128]%N = [239; 191; 189; 239; 191; 189; 239; 191; 189]%N /\
  utf8_fix [195; 169; 228; 184; 173; 240; 159; 152; 128; 239; 191; 189]%N = [195; 169; 228; 184; 173; 240; 159; 152; 128; 239; 191; 189]%N.
Proof. vm_compute. repeat split. Qed.

Example ex_f64_to_int :
  f64_to_int 4617315517961601024 = 5 /\ f64_to_int 13837628687431468646 = -3 /\ f64_to_int 4602678819172646912 = 0.
Proof. vm_compute. auto. Qed.

(* ---- the client's fetch over a segmented body ---- *)
Lemma fetch_concat dt : forall segs acc, fetch segs dt acc = (acc ++ List.concat segs)%list.
Proof.
  induction segs as [|s t IH]; intros acc; cbn [fetch List.concat]; [now rewrite app_nil_r|].
  destruct t as [|s2 t'].
  - cbn [List.concat]. rewrite app_nil_r. destruct dt; [reflexivity|]. cbn [fetch]. reflexivity.
  - rewrite IH. now rewrite <- app_assoc.
Qed.

(* however the transport splits the body, and whether the end arrives with or after the last
   bytes, apiGet holds the whole body: two deliveries of the same bytes are indistinguishable *)
Lemma fetch_segmentation segs1 segs2 dt1 dt2 :
  List.concat segs1 = List.concat segs2 -> fetch segs1 dt1 [] = fetch segs2 dt2 [].
Proof. intros H. rewrite !fetch_concat. cbn. exact H. Qed.

Lemma cut_body_concat : forall lens d, List.concat (cut_body lens d) = d.
Proof.
  induction lens as [|l t IH]; intros d; cbn [cut_body].
  - destruct d; cbn; [reflexivity|now rewrite app_nil_r].
  - destruct l as [n| |]; try apply IH.
    unfold takeN. destruct (take (N.to_nat (Z.to_N n)) d) as [[a r]|] eqn:E.
    + cbn [List.concat]. rewrite IH. clear IH. revert d a r E. induction (N.to_nat (Z.to_N n)) as [|k IHk]; intros d a r E; cbn in E.
      * inversion E; reflexivity.
      * destruct d as [|x d]; [discriminate|]. destruct (take k d) as [[a' r']|] eqn:E'; [|discriminate].
        inversion E; subst. cbn. f_equal. eapply IHk; eauto.
    + destruct d; cbn; [reflexivity|now rewrite app_nil_r].
Qed.

(* the body the model's client fetches in the correspondence run is the wire body *)
Lemma fetched_wire fx w got : fetched fx w = Some got -> got = w.
Proof.
  unfold fetched. destruct fx as [| |[|[z| |] [|[z2| |] lens]]]; try discriminate.
  intros H. inversion H. rewrite fetch_concat. cbn. apply cut_body_concat.
Qed.

(* ---- overlapping responses ---- *)
(* what is written for a handler is a function of that handler's own payload: serving other
   handlers before, after or in between (the list around it) does not change it *)
Lemma overlap_independent g (before : list sx) (sub : sx) (after : list sx) :
  nth (List.length before) (map (obs_sub g) (before ++ sub :: after)%list) bad_case = obs_sub g sub.
Proof. rewrite map_app. cbn [map]. rewrite app_nth2 by (rewrite map_length; lia). rewrite map_length, Nat.sub_diag. reflexivity. Qed.

(* ---- the dispatch of Error() ---- *)
(* an error value that has a Code() method and is neither of the two system types is answered as
   an application error with its OWN code and text -- whatever else it implements (Status(),
   Cause(), Unwrap()) and whatever those return *)
Lemma kind_of_app d c : d_cplx d = None -> d_sys d = None -> d_code d = Some c -> kind_of d = PApp c (d_text d).
Proof. intros A B C. unfold kind_of. now rewrite A, B, C. Qed.
Lemma kind_of_plain d : d_cplx d = None -> d_sys d = None -> d_code d = None -> kind_of d = PPlain (d_status d) (d_text d).
Proof. intros A B C. unfold kind_of. now rewrite A, B, C. Qed.
Lemma kind_of_sys d c : d_cplx d = None -> d_sys d = Some c -> kind_of d = PSys c.
Proof. intros A B. unfold kind_of. now rewrite A, B. Qed.
Lemma kind_of_cplx d c m : d_cplx d = Some (c, m) -> kind_of d = PCplx c m.
Proof. intros A. unfold kind_of. now rewrite A. Qed.

Lemma kind_of_coded d c : d_cplx d = None -> d_sys d = None -> d_code d = Some c ->
  coded (kind_of d) c [(k_code, JInt c); (k_data, JStr (d_text d))].
Proof. intros A B C. rewrite (kind_of_app d c A B C). right. exists (d_text d). auto. Qed.
