(* C08 write side over the rtmpchunk builder's writer: the pieces WriteMessage copies into the
   bufio.Writer are slices of their wire (c0 header, payload part, c3 header, payload part, ...), their
   sizes are the ones Model/Faults.v computes from the message list, and the buffered writer's
   behaviour depends on the pieces only through their sizes. *)
From Verif Require Import Lib.Base Lib.Sx Lib.Err Lib.IO Proofs.FaultsIO.
From Verif Require Import Model.RtmpChunk Proofs.RtmpChunk Proofs.RtmpChunkRT.
From Verif Require Model.Faults Proofs.Faults Proofs.FaultsRtmpG Proofs.FaultsWrite Proofs.FaultsBufw Proofs.FaultsBufwPeer Proofs.FaultsLens.
Module MFa := Verif.Model.Faults.
Module PG := Verif.Proofs.FaultsRtmpG.
Module PB := Verif.Proofs.FaultsBufw.
Module PS := Verif.Proofs.FaultsBufwPeer.
Open Scope N_scope.

(* ---------- the pieces of one message ---------- *)
Fixpoint chunk_pieces (fuel : nat) (c : N) (h h3 : bytes) (p : bytes) : list bytes :=
  match p with
  | [] => []
  | _ :: _ =>
      match fuel with
      | O => []
      | S f => h :: firstn (N.to_nat c) p :: chunk_pieces f c h3 h3 (skipn (N.to_nat c) p)
      end
  end.

Lemma chunk_pieces_concat fuel c : forall h h3 p w,
  write_chunks fuel c h h3 p = Ok w -> concat (chunk_pieces fuel c h h3 p) = w.
Proof.
  induction fuel as [|f IH]; intros h h3 p w H.
  - destruct p; cbn in H; [injection H as <-; reflexivity|discriminate].
  - destruct p as [|x p]; [cbn in H; injection H as <-; reflexivity|].
    rewrite write_chunks_S in H by congruence. cbn [chunk_pieces].
    destruct (write_chunks f c h3 h3 (skipn (N.to_nat c) (x :: p))) as [r|e|q] eqn:E; cbn [bind] in H; try discriminate.
    injection H as <-. cbn [concat]. now rewrite (IH _ _ _ _ E).
Qed.

Definition msg_pieces (c : N) (m : msg) : list bytes :=
  match c0_header m (u32 (lenN (m_payload m))), c3_header m with
  | Ok h, Ok h3 => chunk_pieces (S (length (m_payload m))) c h h3 (m_payload m)
  | _, _ => []
  end.

Lemma msg_pieces_concat c m w c' : write_message c m = Ok (w, c') -> concat (msg_pieces c m) = w.
Proof.
  unfold write_message, msg_pieces. intros H.
  destruct (c0_header m (u32 (lenN (m_payload m)))) as [h|e|q]; cbn [bind] in H; try discriminate.
  destruct (c3_header m) as [h3|e|q]; cbn [bind] in H; try discriminate.
  destruct (write_chunks (S (length (m_payload m))) c h h3 (m_payload m)) as [w'|e|q] eqn:E; cbn [bind] in H; try discriminate.
  injection H as <- _. now apply chunk_pieces_concat.
Qed.

Fixpoint their_wops (c : N) (ms : list msg) : list (list bytes) :=
  match ms with
  | [] => []
  | m :: r => msg_pieces c m :: their_wops (next_chunk c m) r
  end.

(* the pieces, concatenated, are their wire *)
Theorem their_wops_wire ms : Forall wf_msg ms -> forall c ws, write_all c ms = map Ok ws ->
  concat (concat (their_wops c ms)) = concat ws /\ map (@concat N) (their_wops c ms) = ws.
Proof.
  induction 1 as [|m r W Wr IH]; intros c ws Hw.
  - destruct ws; [auto|discriminate].
  - cbn [write_all] in Hw. destruct (write_message c m) as [[w c']|e|p] eqn:Hm; destruct ws as [|w0 ws]; try discriminate.
    injection Hw as Hw0 Hws. subst w0.
    assert (c' = next_chunk c m).
    { unfold write_message in Hm. destruct (c0_header m (u32 (lenN (m_payload m)))); cbn [bind] in Hm; try discriminate.
      destruct (c3_header m); cbn [bind] in Hm; try discriminate.
      destruct (write_chunks _ _ _ _ _); cbn [bind] in Hm; try discriminate. injection Hm as _ <-.
      apply written_ok, W. }
    subst c'. destruct (IH _ _ Hws) as [A B]. cbn [their_wops concat map].
    rewrite concat_app, A, B, (msg_pieces_concat c m w _ Hm). auto.
Qed.

(* ================================ C08, RTMP write side over their wire ================================ *)
Theorem their_write_session ms i m term ws :
  Forall wf_msg ms -> write_all DEFCHUNK ms = map Ok ws ->
  let ops := their_wops DEFCHUNK ms in
  let wf := wtr_new (Some i) m term in
  let w0 := wtr_new None m term in
  let '(n, oe, b) := MFa.rtmp_write_ops ops (bufw_new wf) 0 in
  map (@concat N) ops = ws /\
  PB.session_ok [] ops 0 n oe (wt_err wf) (bw_under b) /\
  n = PS.done_before i ops (bufw_new w0) 0 /\
  (oe = None <-> wt_calls (bw_under (snd (MFa.rtmp_write_ops ops (bufw_new w0) 0))) <= i).
Proof.
  intros W Hw ops wf w0.
  destruct (their_wops_wire ms W DEFCHUNK ws Hw) as [_ Hmap].
  assert (Hc : PB.clean (bufw_new wf)) by (repeat split; reflexivity).
  pose proof (PB.rtmp_write_ops_cases ops (bufw_new wf) 0 Hc eq_refl) as S1.
  assert (Hsb : PS.simb i (bufw_new wf) (bufw_new w0))
    by (split; [reflexivity|split; [reflexivity|split; [reflexivity|apply PS.sim_new]]]).
  pose proof (PS.ops_sim i ops (bufw_new wf) (bufw_new w0) 0 Hsb Hc eq_refl) as S2.
  destruct (MFa.rtmp_write_ops ops (bufw_new wf) 0) as [[n oe] b]. destruct S2 as [Hn He].
  split; [exact Hmap|]. split; [exact S1|]. split; [exact Hn|].
  destruct oe as [e|].
  - split; [discriminate|]. destruct He as (_ & L & _). lia.
  - split; [intros _|reflexivity]. destruct He as (_ & _ & _ & (_ & _ & E & L & _)). lia.
Qed.

(* ---------- the sizes of the pieces are the ones Model/Faults.v computes ---------- *)
Lemma chunk_sizes_flag f : forall h0 h3 cs rem b,
  MFa.chunk_sizes f h0 h3 cs rem false = MFa.chunk_sizes f h3 h3 cs rem b.
Proof.
  induction f as [|f IH]; intros h0 h3 cs rem b; cbn [MFa.chunk_sizes]; [reflexivity|].
  destruct (rem =? 0); [reflexivity|]. destruct b; f_equal; f_equal; try apply IH.
Qed.

Lemma chunk_sizes_eq f h0 h3 cs rem b :
  MFa.chunk_sizes (S f) h0 h3 cs rem b =
  if rem =? 0 then [] else (if b then h0 else h3) :: N.min cs rem :: MFa.chunk_sizes f h0 h3 cs (rem - N.min cs rem) false.
Proof. reflexivity. Qed.

Lemma chunk_sizes_S h0 h3 c : 0 < c -> forall f rem b, rem <= c * N.of_nat f ->
  MFa.chunk_sizes (S f) h0 h3 c rem b = MFa.chunk_sizes f h0 h3 c rem b.
Proof.
  intros Hc. induction f as [|f IH]; intros rem b H.
  - assert (rem = 0) as -> by lia. reflexivity.
  - rewrite (chunk_sizes_eq (S f) h0 h3 c rem b), (chunk_sizes_eq f h0 h3 c rem b). destruct (N.eqb_spec rem 0) as [->|Hr]; [reflexivity|].
    f_equal. f_equal. apply IH. rewrite Nat2N.inj_succ, N.mul_succ_r in H. lia.
Qed.

Lemma chunk_sizes_stable h0 h3 c : 0 < c -> forall k f rem b, rem <= c * N.of_nat f ->
  MFa.chunk_sizes (f + k) h0 h3 c rem b = MFa.chunk_sizes f h0 h3 c rem b.
Proof.
  intros Hc. induction k as [|k IH]; intros f rem b H.
  - now rewrite Nat.add_0_r.
  - replace (f + S k)%nat with (S (f + k)) by lia. rewrite chunk_sizes_S; [now apply IH|exact Hc|].
    rewrite Nat2N.inj_add. lia.
Qed.

Lemma chunk_pieces_sizes c : 0 < c -> forall f h h3 (p : bytes), (length p <= f)%nat ->
  map lenN (chunk_pieces f c h h3 p) = MFa.chunk_sizes f (lenN h) (lenN h3) c (lenN p) true.
Proof.
  intros Hc. induction f as [|f IH]; intros h h3 p Hl.
  - destruct p; [reflexivity|cbn in Hl; lia].
  - destruct p as [|x p]; [reflexivity|]. cbn [chunk_pieces map MFa.chunk_sizes].
    assert (Hp : 0 < lenN (x :: p)) by (rewrite lenN_length; cbn; lia).
    assert ((lenN (x :: p) =? 0) = false) as -> by lia.
    assert (Hfn : lenN (firstn (N.to_nat c) (x :: p)) = N.min c (lenN (x :: p)))
      by (rewrite !lenN_length, firstn_length; lia).
    rewrite Hfn. f_equal. f_equal. rewrite (chunk_sizes_flag f (lenN h) (lenN h3) c _ true).
    rewrite IH.
    + f_equal. rewrite !lenN_length, skipn_length. rewrite lenN_length in Hp. lia.
    + rewrite skipn_length. cbn [length] in *. lia.
Qed.

Lemma bh_len_of fmt cid bh : basic_header fmt cid = Ok bh -> lenN bh = MFa.bh_len cid.
Proof.
  intros Hb. apply basic_header_cases in Hb. unfold MFa.bh_len.
  destruct Hb as [[Hc ->]|[[Hc ->]|[Hc ->]]];
    destruct (N.leb_spec cid 63); destruct (N.leb_spec cid 319); try lia; reflexivity.
Qed.

Lemma msg_pieces_sizes c m : wf_msg m -> 0 < c ->
  map lenN (msg_pieces c m) = MFa.msg_write_sizes c (PG.rmsg_of m).
Proof.
  intros W Hc. pose proof (wf_len m W) as Hl.
  destruct (basic_header_ok F0 m W) as (bh0 & Hb0). destruct (basic_header_ok F3 m W) as (bh3 & Hb3).
  unfold msg_pieces. rewrite (c0_header_eq m bh0 W Hb0). unfold c3_header. rewrite Hb3. cbn [bind].
  rewrite chunk_pieces_sizes by (exact Hc || lia).
  unfold MFa.msg_write_sizes, PG.rmsg_of. cbn [MFa.rm_cid MFa.rm_ts MFa.rm_len].
  change (MFa.EXT <=? m_ts m) with (e_of m).
  assert (He : lenN (ext_bytes (m_ts m)) = (if e_of m then 4 else 0)).
  { destruct (e_of m) eqn:E; [rewrite (PG.ext_true m E)|rewrite (PG.ext_false m E)]; reflexivity. }
  rewrite !lenN_app, (bh_len_of _ _ _ Hb0), (bh_len_of _ _ _ Hb3), PG.mh0_len, He.
  replace (MFa.bh_len (m_cid m) + (11 + (if e_of m then 4 else 0))) with (MFa.bh_len (m_cid m) + 11 + (if e_of m then 4 else 0)) by lia.
  set (L := lenN (m_payload m)) in *.
  assert (H1 : L <= c * N.of_nat (S (N.to_nat (L / c)))).
  { rewrite Nat2N.inj_succ, N2Nat.id. pose proof (N.mul_succ_div_gt L c ltac:(lia)). lia. }
  assert (H2 : L <= c * N.of_nat (S (length (m_payload m)))).
  { rewrite Nat2N.inj_succ. fold (lenN (m_payload m)). rewrite <- lenN_length. fold L. nia. }
  rewrite <- (chunk_sizes_stable _ _ c Hc (S (N.to_nat (L / c))) (S (length (m_payload m))) L true H2).
  rewrite Nat.add_comm.
  now rewrite (chunk_sizes_stable _ _ c Hc (S (length (m_payload m))) (S (N.to_nat (L / c))) L true H1).
Qed.

Theorem their_wops_sizes ms : Forall wf_msg ms -> forall c, 0 < c ->
  map (map lenN) (their_wops c ms) = map (map lenN) (MFa.msgs_write_ops c (map PG.rmsg_of ms)).
Proof.
  induction 1 as [|m r W Wr IH]; intros c Hc; cbn [their_wops map MFa.msgs_write_ops]; [reflexivity|].
  rewrite (msg_pieces_sizes c m W Hc), (PG.next_chunk_size_of c m W).
  rewrite IH by (apply next_chunk_pos; [apply W|exact Hc]). f_equal.
  rewrite map_map. rewrite <- (map_id (MFa.msg_write_sizes c (PG.rmsg_of m))) at 1. apply map_ext.
  intros n. unfold MFa.zeros. now rewrite lenN_length, repeat_length, N2Nat.id.
Qed.

(* the run on their bytes and the run of the executable model (zero bytes of the same sizes) agree *)
Module PL := Verif.Proofs.FaultsLens.

Theorem their_vs_model ms fa m term :
  Forall wf_msg ms ->
  let ops := their_wops DEFCHUNK ms in
  let '(n, oe, b) := MFa.rtmp_write_ops ops (bufw_new (wtr_new fa m term)) 0 in
  let '(n', oe', w') := MFa.rtmp_write_session false (map PG.rmsg_of ms) (wtr_new fa m term) in
  n = n' /\ oe = oe' /\ lenN (wt_received (bw_under b)) = lenN (wt_received w') /\
  wt_calls (bw_under b) = wt_calls w'.
Proof.
  intros W ops. unfold MFa.rtmp_write_session.
  assert (Hc : 0 < DEFCHUNK) by (rewrite DEFCHUNK_eq; lia).
  pose proof (their_wops_sizes ms W DEFCHUNK Hc) as Hsz. fold ops in Hsz.
  assert (Hbl : PL.bl (bufw_new (wtr_new fa m term)) (bufw_new (wtr_new fa m term)))
    by (repeat split; reflexivity).
  pose proof (PL.ops_len ops (MFa.msgs_write_ops DEFCHUNK (map PG.rmsg_of ms)) _ _ 0 Hsz Hbl) as (A & B & C).
  change MFa.DEFCHUNK with DEFCHUNK.
  destruct (MFa.rtmp_write_ops ops (bufw_new (wtr_new fa m term)) 0) as [[n oe] b].
  destruct (MFa.rtmp_write_ops (MFa.msgs_write_ops DEFCHUNK (map PG.rmsg_of ms)) (bufw_new (wtr_new fa m term)) 0) as [[n' oe'] b'].
  cbn [fst snd] in *. split; [exact A|]. split; [exact B|]. destruct C as (_ & _ & _ & Hw).
  split; [now apply PL.wl_received|apply Hw].
Qed.

Theorem their_write_full ms i m term ws :
  Forall wf_msg ms -> write_all DEFCHUNK ms = map Ok ws ->
  let ops := their_wops DEFCHUNK ms in
  let wf := wtr_new (Some i) m term in
  let '(n, oe, b) := MFa.rtmp_write_ops ops (bufw_new wf) 0 in
  map (@concat N) ops = ws /\
  PB.session_ok [] ops 0 n oe (wt_err wf) (bw_under b) /\
  n = PS.free_done i false (map PG.rmsg_of ms) m term /\
  (oe = None <-> PS.free_calls false (map PG.rmsg_of ms) m term <= i) /\
  (let '(n', oe', w') := MFa.rtmp_write_session false (map PG.rmsg_of ms) wf in
   n' = n /\ oe' = oe /\ lenN (wt_received w') = lenN (wt_received (bw_under b))).
Proof.
  intros W Hw ops wf.
  pose proof (their_write_session ms i m term ws W Hw) as T. cbn zeta in T. fold ops wf in T.
  pose proof (their_vs_model ms (Some i) m term W) as V. cbn zeta in V. fold ops wf in V.
  pose proof (PS.rtmp_write_session_which false (map PG.rmsg_of ms) i m term) as Wh. fold wf in Wh.
  destruct (MFa.rtmp_write_ops ops (bufw_new wf) 0) as [[n oe] b].
  destruct (MFa.rtmp_write_session false (map PG.rmsg_of ms) wf) as [[n' oe'] w'].
  destruct T as (T1 & T2 & _ & _). destruct V as (V1 & V2 & V3 & _). destruct Wh as (W1 & W2).
  subst n' oe'. repeat split; auto; try apply W2.
Qed.
