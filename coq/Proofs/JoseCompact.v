(* Proofs about Model/Jose.v: compact serialization, signing input, AAD, MAC input. *)
From Verif Require Import Lib.Base Lib.Sx Model.Jose Proofs.Jose.
Open Scope N_scope.
Ltac Zify.zify_post_hook ::= Z.div_mod_to_equations.

(* ------------------------------------------------------------------ list facts *)
Lemma app_inv_len_head {A} (a a' b b' : list A) :
  length a = length a' -> a ++ b = a' ++ b' -> a = a' /\ b = b'.
Proof.
  revert a'. induction a as [|x a IH]; intros [|y a'] L E; cbn in *; try discriminate; auto.
  inversion E; subst. destruct (IH a') as [-> ->]; auto.
Qed.

Lemma app_inv_len_tail {A} (a a' b b' : list A) :
  length b = length b' -> a ++ b = a' ++ b' -> a = a' /\ b = b'.
Proof.
  intros L E. apply app_inv_len_head; [|exact E].
  apply (f_equal (@length A)) in E. rewrite !app_length in E. lia.
Qed.

(* ------------------------------------------------------------------ strings.Split on '.' *)
Definition no_dot (s : bytes) : Prop := Forall (fun c => c <> ch_dot) s.

Lemma split_dot_no_dot a : no_dot a -> split_dot a = [a].
Proof.
  induction 1 as [|c a Hc _ IH]; [reflexivity|]. cbn [split_dot].
  destruct (N.eqb_spec c ch_dot); [contradiction|]. rewrite IH. reflexivity.
Qed.

Lemma split_dot_app a r : no_dot a -> split_dot (a ++ ch_dot :: r) = a :: split_dot r.
Proof.
  induction 1 as [|c a Hc _ IH]; cbn [app split_dot].
  - rewrite N.eqb_refl. reflexivity.
  - destruct (N.eqb_spec c ch_dot); [contradiction|]. rewrite IH. reflexivity.
Qed.

Lemma app_dot_inj a a' b b' :
  no_dot a -> no_dot a' -> a ++ ch_dot :: b = a' ++ ch_dot :: b' -> a = a' /\ b = b'.
Proof.
  intros Ha Ha' E. pose proof (f_equal split_dot E) as S.
  rewrite !split_dot_app in S by assumption. inversion S; subst. split; [reflexivity|].
  apply app_inv_head in E. inversion E. reflexivity.
Qed.

Lemma no_dot_not_app a b x : no_dot x -> x <> a ++ ch_dot :: b.
Proof.
  intros H E. subst x. unfold no_dot in H. rewrite Forall_forall in H.
  apply (H ch_dot); [apply in_or_app; right; left|]; reflexivity.
Qed.

(* ------------------------------------------------------------------ text of a compact object *)
Definition txt_char (c : N) : Prop := is_b64_char c \/ c = ch_dot.

Lemma txt_char_not_ws c : txt_char c -> is_ws c = false.
Proof.
  unfold txt_char, is_b64_char, ch_dot, is_ws. intro H.
  destruct (N.eqb_spec c 9); [lia|]. destruct (N.eqb_spec c 10); [lia|]. destruct (N.eqb_spec c 12); [lia|].
  destruct (N.eqb_spec c 13); [lia|]. destruct (N.eqb_spec c 32); [lia|]. reflexivity.
Qed.

Lemma strip_ws_txt s : Forall txt_char s -> strip_ws s = s.
Proof.
  induction 1 as [|c s Hc _ IH]; [reflexivity|]. unfold strip_ws in *. cbn [filter].
  rewrite (txt_char_not_ws c Hc). cbn [negb]. rewrite IH. reflexivity.
Qed.

Lemma brace_txt s : Forall txt_char s -> starts_with_brace s = false.
Proof.
  intros H. destruct s as [|c s]; [reflexivity|]. inversion H as [|? ? Hc _]; subst.
  unfold txt_char, is_b64_char, ch_dot in Hc. cbn [starts_with_brace].
  destruct (N.eqb_spec c 123); [lia|reflexivity].
Qed.

Lemma enc_txt b : Forall txt_char (b64url_encode b).
Proof. eapply Forall_impl; [|apply b64url_encode_alphabet]. intros c H. left. exact H. Qed.
Lemma enc_no_dot b : no_dot (b64url_encode b).
Proof. apply b64url_encode_no_dot. Qed.

Lemma txt_app a b : Forall txt_char a -> Forall txt_char b -> Forall txt_char (a ++ ch_dot :: b).
Proof. intros Ha Hb. apply Forall_app. split; [exact Ha|]. constructor; [right; reflexivity|exact Hb]. Qed.

Lemma b64url_decode_r_enc b : wf_bytes b -> b64url_decode_r (b64url_encode b) = Ok b.
Proof. intro W. unfold b64url_decode_r. rewrite (b64_dec_enc b W). reflexivity. Qed.

Definition wf_jws (o : jws_fields) : Prop := wf_bytes (js_prot o) /\ wf_bytes (js_payload o) /\ wf_bytes (js_sig o).
Definition wf_jwe (o : jwe_fields) : Prop :=
  wf_bytes (je_prot o) /\ wf_bytes (je_key o) /\ wf_bytes (je_iv o) /\ wf_bytes (je_ct o) /\ wf_bytes (je_tag o).

(* c16_compact_jws *)
Lemma parse_jws_compact_serialize o :
  wf_jws o -> parse_jws_compact (jws_compact o) true = Ok o.
Proof.
  intros (Wp & Wl & Ws). destruct o as [p l s]. cbn [js_prot js_payload js_sig] in *.
  unfold parse_jws_compact, jws_compact. cbn [join_dot js_prot js_payload js_sig].
  assert (T : Forall txt_char (b64url_encode p ++ ch_dot :: b64url_encode l ++ ch_dot :: b64url_encode s))
    by (apply txt_app; [apply enc_txt|apply txt_app; apply enc_txt]).
  rewrite (strip_ws_txt _ T), (brace_txt _ T).
  rewrite split_dot_app by apply enc_no_dot. rewrite split_dot_app by apply enc_no_dot.
  rewrite split_dot_no_dot by apply enc_no_dot.
  rewrite !b64url_decode_r_enc by assumption. cbn [bind]. rewrite andb_false_r. reflexivity.
Qed.

(* c16_compact_jwe: the protected header of a JWE is never empty (it carries alg and enc) *)
Lemma parse_jwe_compact_serialize o :
  wf_jwe o -> je_prot o <> [] -> parse_jwe_compact (jwe_compact o) 1 = Ok o.
Proof.
  intros (Wp & Wk & Wi & Wc & Wt) NE. destruct o as [p k i c t]. cbn [je_prot je_key je_iv je_ct je_tag] in *.
  unfold parse_jwe_compact, jwe_compact. cbn [join_dot je_prot je_key je_iv je_ct je_tag].
  assert (T : Forall txt_char (b64url_encode p ++ ch_dot :: b64url_encode k ++ ch_dot :: b64url_encode i ++ ch_dot ::
                               b64url_encode c ++ ch_dot :: b64url_encode t))
    by (repeat (apply txt_app; [apply enc_txt|]); apply enc_txt).
  rewrite (strip_ws_txt _ T), (brace_txt _ T).
  rewrite !split_dot_app by apply enc_no_dot. rewrite split_dot_no_dot by apply enc_no_dot.
  rewrite !b64url_decode_r_enc by assumption. cbn [bind].
  destruct p; [contradiction|]. reflexivity.
Qed.

(* whitespace anywhere in the text is ignored (stripWhitespace runs first) *)
Lemma strip_ws_idem s : strip_ws (strip_ws s) = strip_ws s.
Proof.
  unfold strip_ws. induction s as [|c s IH]; [reflexivity|]. cbn [filter].
  destruct (is_ws c) eqn:E; cbn [negb]; [exact IH|]. cbn [filter]. rewrite E. cbn [negb]. rewrite IH. reflexivity.
Qed.
Lemma parse_jws_compact_ws s j : parse_jws_compact (strip_ws s) j = parse_jws_compact s j.
Proof. unfold parse_jws_compact. rewrite strip_ws_idem. reflexivity. Qed.

(* the verifier's signing input equals the signer's: both are computed from the same protected
   bytes (the parser returns them unchanged) *)
Lemma verifier_signing_input o :
  wf_jws o ->
  match parse_jws_compact (jws_compact o) true with
  | Ok o' => signing_input (js_prot o') (js_payload o') = signing_input (js_prot o) (js_payload o)
  | _ => False
  end.
Proof. intro W. rewrite (parse_jws_compact_serialize o W). reflexivity. Qed.

(* ------------------------------------------------------------------ injectivity *)
(* c16_signing_input_injective *)
Lemma signing_input_injective p l p' l' :
  wf_bytes p -> wf_bytes l -> wf_bytes p' -> wf_bytes l' ->
  signing_input p l = signing_input p' l' -> p = p' /\ l = l'.
Proof.
  intros Wp Wl Wp' Wl' E. unfold signing_input in E.
  apply app_dot_inj in E; try apply enc_no_dot. destruct E as [E1 E2].
  split; apply b64url_encode_injective; assumption.
Qed.

(* authenticated data as the API sees it: absent, or a non-empty byte string (zero-length data
   is treated as absent by the code) *)
Definition wf_aad (a : option bytes) : Prop :=
  match a with Some x => wf_bytes x /\ x <> [] | None => True end.

(* c16_aad_injective *)
Lemma aad_input_injective p a p' a' :
  wf_bytes p -> wf_bytes p' -> wf_aad a -> wf_aad a' ->
  aad_input p a = aad_input p' a' -> p = p' /\ a = a'.
Proof.
  intros Wp Wp' Wa Wa' E. unfold aad_input in E.
  destruct a as [x|], a' as [x'|]; cbn [wf_aad] in *.
  - destruct Wa as [Wx Nx], Wa' as [Wx' Nx'].
    destruct x as [|x0 x]; [contradiction|]. destruct x' as [|y0 x']; [contradiction|]. cbn [is_nil] in E.
    apply app_dot_inj in E; try apply enc_no_dot. destruct E as [E1 E2].
    split; [|f_equal]; apply b64url_encode_injective; assumption.
  - destruct Wa as [Wx Nx]. destruct x as [|x0 x]; [contradiction|]. cbn [is_nil] in E.
    rewrite app_nil_r in E. symmetry in E. exfalso. revert E. apply no_dot_not_app, enc_no_dot.
  - destruct Wa' as [Wx' Nx']. destruct x' as [|y0 x']; [contradiction|]. cbn [is_nil] in E.
    rewrite app_nil_r in E. exfalso. revert E. apply no_dot_not_app, enc_no_dot.
  - rewrite !app_nil_r in E. split; [|reflexivity]. apply b64url_encode_injective; assumption.
Qed.

Lemma be4_inj a b : a < 4294967296 -> b < 4294967296 -> be4 a = be4 b -> a = b.
Proof. unfold be4. intros Ha Hb E. inversion E. lia. Qed.

Lemma be8_inj a b : a < 18446744073709551616 -> b < 18446744073709551616 -> be8 a = be8 b -> a = b.
Proof.
  unfold be8. intros Ha Hb E.
  apply app_inv_len_head in E; [|reflexivity]. destruct E as [E1 E2].
  apply be4_inj in E1; [|lia|lia]. apply be4_inj in E2; [|lia|lia]. lia.
Qed.

Lemma be8_length n : length (be8 n) = 8%nat.
Proof. reflexivity. Qed.

(* c16_mac_input_injective: for nonces of equal length (the code fixes 16) and AAD shorter than
   2^61 bytes (so that its bit length fits the 64-bit field) *)
Lemma mac_input_injective aad iv ct aad' iv' ct' :
  length iv = length iv' -> lenN aad < 2305843009213693952 -> lenN aad' < 2305843009213693952 ->
  mac_input aad iv ct = mac_input aad' iv' ct' -> aad = aad' /\ iv = iv' /\ ct = ct'.
Proof.
  intros Li La La' E. unfold mac_input, u64 in E.
  rewrite !N.mod_small in E by lia.
  rewrite !app_assoc in E. apply app_inv_len_tail in E; [|reflexivity]. destruct E as [E EL].
  apply be8_inj in EL; [|lia|lia].
  rewrite <- !app_assoc in E. apply app_inv_len_head in E.
  - destruct E as [-> E]. apply app_inv_len_head in E; [|exact Li]. destruct E as [-> ->]. auto.
  - rewrite !lenN_length in EL. lia.
Qed.

(* ------------------------------------------------------------------ members of a JSON serialization *)
(* FullSerialize writes each field as the base64url text of a JSON string member; decoding the
   members (the part of parseSignedFull / parseEncryptedFull that is not encoding/json) returns
   the fields *)
Lemma jws_of_b64_enc o :
  wf_jws o -> jws_of_b64 (b64url_encode (js_prot o)) (b64url_encode (js_payload o)) (b64url_encode (js_sig o)) = Ok o.
Proof.
  intros (Wp & Wl & Ws). destruct o as [p l s]. cbn [js_prot js_payload js_sig] in *.
  unfold jws_of_b64. rewrite !b64url_decode_r_enc by assumption. reflexivity.
Qed.

Lemma jwe_of_b64_enc o :
  wf_jwe o ->
  jwe_of_b64 (b64url_encode (je_prot o)) (b64url_encode (je_key o)) (b64url_encode (je_iv o))
             (b64url_encode (je_ct o)) (b64url_encode (je_tag o)) = Ok o.
Proof.
  intros (Wp & Wk & Wi & Wc & Wt). destruct o as [p k i c t]. cbn [je_prot je_key je_iv je_ct je_tag] in *.
  unfold jwe_of_b64. rewrite !b64url_decode_r_enc by assumption. reflexivity.
Qed.
