(* C05, UnmarshalBinary into a receiver that already holds a value (Model/Amf0.v um_into,
   um_stream): the result never depends on the old value -- scalars are overwritten, containers
   replaced -- it is exactly what Discovery + UnmarshalBinary on a fresh value gives, so Size()
   is the number of bytes consumed for EVERY old value and a stream decoded into one receiver
   while advancing by Size() stays aligned. *)
From Verif Require Import Lib.Base Lib.Sx Model.Amf0 Proofs.Amf0.
Open Scope N_scope.

(* after v.reset() the container methods are the ones of a fresh value *)
Lemma um_cont_obj f p : um_cont_from mObject [] f p = um_object f p.
Proof. reflexivity. Qed.
Lemma um_cont_ecma f p : um_cont_from mEcmaArray [] f p = um_ecma f p.
Proof. destruct p as [|m [|a [|b [|c [|d r]]]]]; reflexivity. Qed.
Lemma um_cont_strict f p : um_cont_from mStrictArray [] f p = um_strict f p.
Proof. destruct p as [|m [|a [|b [|c [|d r]]]]]; reflexivity. Qed.

Lemma akind_cases (a b : amf) : akind a = akind b ->
  match a, b with
  | ANum _, ANum _ | ABool _, ABool _ | AStr _, AStr _ | AObj _, AObj _ | ANull, ANull
  | AUndef, AUndef | AEcma _ _, AEcma _ _ | AStrict _, AStrict _ => True
  | _, _ => False
  end.
Proof. destruct a, b; intros H; try exact I; vm_compute in H; discriminate. Qed.

(* the result is independent of the value the receiver held *)
Theorem unmarshal_overwrites old old' fuel p :
  akind old = akind old' -> um_into old fuel p = um_into old' fuel p.
Proof. intros H. apply akind_cases in H. destruct old, old'; try contradiction; reflexivity. Qed.

(* a successful typed method saw its own marker first *)
Lemma um_into_head old fuel p v n : um_into old fuel p = Ok (v, n) -> exists r, p = akind old :: r.
Proof.
  destruct old as [ob|ob|os|ops| | |oc ops|ops]; cbn [um_into akind].
  - unfold um_number. destruct p as [|m [|a [|b [|c [|d [|e [|f [|g [|h r]]]]]]]]]; try discriminate.
    destruct (N.eqb_spec m mNumber) as [->|]; [eauto|discriminate].
  - unfold um_bool. destruct p as [|m [|b r]]; try discriminate.
    destruct (N.eqb_spec m mBoolean) as [->|]; [eauto|discriminate].
  - unfold um_string. destruct p as [|m r]; try discriminate.
    destruct (N.eqb_spec m mString) as [->|]; [eauto|discriminate].
  - rewrite um_cont_obj. unfold um_object. destruct p as [|m r]; try discriminate.
    destruct (N.eqb_spec m mObject) as [->|]; [eauto|discriminate].
  - unfold um_null, um_single. destruct p as [|m r]; try discriminate.
    destruct (N.eqb_spec m mNull) as [->|]; [eauto|discriminate].
  - unfold um_undef, um_single. destruct p as [|m r]; try discriminate.
    destruct (N.eqb_spec m mUndefined) as [->|]; [eauto|discriminate].
  - rewrite um_cont_ecma. unfold um_ecma. destruct p as [|m [|a [|b [|c [|d r]]]]]; try discriminate.
    destruct (N.eqb_spec m mEcmaArray) as [->|]; [eauto|discriminate].
  - rewrite um_cont_strict. unfold um_strict. destruct p as [|m [|a [|b [|c [|d r]]]]]; try discriminate.
    destruct (N.eqb_spec m mStrictArray) as [->|]; [eauto|discriminate].
Qed.

(* ... and then it computed what Discovery + UnmarshalBinary on a fresh value computes *)
Theorem um_into_dec old fuel p v n : um_into old fuel p = Ok (v, n) -> dec (S fuel) p = Ok (v, n).
Proof.
  intros H. destruct (um_into_head _ _ _ _ _ H) as [r ->]. revert H.
  destruct old; cbn [um_into akind].
  - rewrite dec_num. auto.
  - rewrite dec_bool. auto.
  - rewrite dec_str. auto.
  - rewrite um_cont_obj, dec_obj. auto.
  - rewrite dec_null. auto.
  - rewrite dec_undef. auto.
  - rewrite um_cont_ecma, dec_ecma. auto.
  - rewrite um_cont_strict, dec_strict. auto.
Qed.

Lemma wire_kind w v : wire w v -> exists r, w = akind v :: r.
Proof. destruct 1; eexists; reflexivity. Qed.

(* Size() = bytes consumed, for every old value; the new value has the receiver's type *)
Theorem um_into_consumed old fuel p v n : um_into old fuel p = Ok (v, n) ->
  akind v = akind old /\ n = size v /\
  exists w rest, p = w ++ rest /\ lenN w = n /\
    (forall old' rest' fuel', akind old' = akind old -> (length w <= fuel')%nat ->
       um_into old' fuel' (w ++ rest') = Ok (v, n)).
Proof.
  intros H. destruct (um_into_head _ _ _ _ _ H) as [r Hp].
  pose proof (um_into_dec _ _ _ _ _ H) as Hd.
  apply dec_wire in Hd. destruct Hd as (w & rest & Hsplit & Hw & ->).
  destruct (wire_kind _ _ Hw) as [r' Hr'].
  assert (Hk : akind v = akind old).
  { rewrite Hr' in Hsplit. rewrite Hp in Hsplit. cbn [app] in Hsplit. inversion Hsplit. reflexivity. }
  split; [exact Hk|]. split; [reflexivity|].
  exists w, rest. split; [exact Hsplit|]. split; [apply wire_len; exact Hw|].
  intros old' rest' fuel' Hk' Hf.
  rewrite (unmarshal_overwrites old' v fuel' _) by congruence.
  pose proof (wire_dec w v (S fuel') rest' Hw ltac:(lia)) as Hd'.
  rewrite Hr' in Hd' |- *. cbn [app] in Hd' |- *. revert Hd'.
  destruct v; cbn [um_into akind].
  - rewrite dec_num. auto.
  - rewrite dec_bool. auto.
  - rewrite dec_str. auto.
  - rewrite um_cont_obj, dec_obj. auto.
  - rewrite dec_null. auto.
  - rewrite dec_undef. auto.
  - rewrite um_cont_ecma, dec_ecma. auto.
  - rewrite um_cont_strict, dec_strict. auto.
Qed.

(* decoding an encoding into any receiver of that type *)
Lemma enc_head v : exists r, enc v = akind v :: r.
Proof. destruct v; eexists; reflexivity. Qed.

Theorem um_into_enc old v rest fuel :
  wf_amf v -> akind v = akind old -> (length (enc v) <= fuel)%nat ->
  um_into old fuel (enc v ++ rest) = Ok (v, size v).
Proof.
  intros Hwf Hk Hf. rewrite (unmarshal_overwrites old v fuel _) by congruence.
  pose proof (amf0_dec_enc v rest (S fuel) Hwf ltac:(lia)) as Hd.
  destruct (enc_head v) as [r Hr]. rewrite Hr in Hd |- *. cbn [app] in Hd |- *. revert Hd.
  destruct v; cbn [um_into akind].
  - rewrite dec_num. auto.
  - rewrite dec_bool. auto.
  - rewrite dec_str. auto.
  - rewrite um_cont_obj, dec_obj. auto.
  - rewrite dec_null. auto.
  - rewrite dec_undef. auto.
  - rewrite um_cont_ecma, dec_ecma. auto.
  - rewrite um_cont_strict, dec_strict. auto.
Qed.

(* k values of one type, concatenated, decoded into ONE receiver advancing by Size(): every
   value comes out, in order, whatever the receiver held before and between *)
Theorem stream_aligned : forall vs old n,
  Forall (fun v => wf_amf v /\ akind v = akind old) vs -> (length vs < n)%nat ->
  um_stream n old (concat (map enc vs)) = (map (fun v => (v, size v)) vs, 0).
Proof.
  induction vs as [|v t IH]; intros old n Hall Hn.
  - destruct n as [|n]; [lia|]. reflexivity.
  - destruct n as [|n]; [cbn [length] in Hn; lia|].
    inversion Hall as [|? ? [Hwf Hk] Ht]; subst.
    cbn [map concat um_stream]. destruct (enc_head v) as [r Hr].
    assert (Hne : exists x y, enc v ++ concat (map enc t) = x :: y).
    { rewrite Hr. cbn [app]. eauto. }
    destruct Hne as (x & y & Hxy). rewrite Hxy. rewrite <- Hxy.
    rewrite um_into_enc; [|exact Hwf|exact Hk|unfold dec_fuel; rewrite app_length; lia].
    rewrite takeN_app by (symmetry; apply amf0_size_enc).
    rewrite (IH v n); [reflexivity| |cbn [length] in Hn; lia].
    apply Forall_forall. intros u Hu. rewrite Forall_forall in Ht. destruct (Ht u Hu) as [A B].
    split; [exact A|congruence].
Qed.

(* the behaviour before fix 8324535 (the decoded properties were appended to the old ones and
   the strict-array loop counted the old elements): Size() 8 after a 4-byte value; a strict
   array holding two elements read none of the two on the wire *)
Example unmarshal_append_refuted :
  um_cont_from mObject [([97], ANull)] 9 [3; 0;0;9] = Ok (AObj [([97], ANull)], 8) /\
  um_cont_from mStrictArray [([97], ANull); ([98], ANull)] 20 [10; 0;0;0;2; 0;1;120;5; 0;1;121;6]
    = Ok (AStrict [([97], ANull); ([98], ANull)], 13) /\
  um_into (AObj [([97], ANull)]) 9 [3; 0;0;9] = Ok (AObj [], 4) /\
  um_into (AStrict [([97], ANull); ([98], ANull)]) 20 [10; 0;0;0;2; 0;1;120;5; 0;1;121;6]
    = Ok (AStrict [([120], ANull); ([121], AUndef)], 13).
Proof. vm_compute. repeat split; reflexivity. Qed.

(* the trigger named by the coordinator: a String holding "live", then 02 00 00 *)
Example unmarshal_live_then_empty :
  um_into (AStr [108; 105; 118; 101]) 5 [2; 0; 0] = Ok (AStr [], 3).
Proof. reflexivity. Qed.
