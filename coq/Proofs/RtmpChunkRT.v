(* RTMP chunk stream round trip: one message (c01_single), a whole session with Set Chunk Size
   from the writer at any position (c01_session), handshake byte counts. *)
From Verif Require Import Lib.Base Lib.Sx Model.RtmpChunk Proofs.RtmpChunk.
From Verif Require Import Gen.Gen_rtmp.
Open Scope N_scope.
Ltac Zify.zify_post_hook ::= Z.div_mod_to_equations.

(* ---------- well-formed messages (the domain of C01) ---------- *)
(* bodies the peer decodes on arrival: Set Chunk Size (1), User Control (4), Window Ack Size (5) *)
Definition ctl_ok (m : msg) : bool :=
  let p := m_payload m in
  if m_type m =? 1 then
    match p with a :: b :: c :: d :: _ => let n := ube4 a b c d in (1 <=? n) && (n <? 2147483648) | _ => false end
  else if m_type m =? 5 then
    match p with _ :: _ :: _ :: _ :: _ => true | _ => false end
  else if m_type m =? 4 then
    match p with
    | e0 :: e1 :: _ :: _ =>
        has_len p (2 + (if ube2 e0 e1 =? 26 then 1 else 4) + (if ube2 e0 e1 =? 3 then 4 else 0))
    | _ => false
    end
  else true.

Record wf_msg (m : msg) : Prop := {
  wf_cid : 2 <= m_cid m <= 65599;
  wf_ts : m_ts m < 2147483648;
  wf_ty : m_type m < 256;
  wf_sid : m_sid m < 4294967296;
  wf_len : 1 <= lenN (m_payload m) < 16777216;
  wf_body : ctl_ok m = true }.

(* chunk size in force after the message: both endpoints must agree on this *)
Definition next_chunk (c : N) (m : msg) : N :=
  if m_type m =? 1 then match m_payload m with a :: b :: c' :: d :: _ => ube4 a b c' d | _ => c end else c.

Lemma arrived_ok c m : ctl_ok m = true -> on_message_arrived c m = Ok (next_chunk c m).
Proof.
  unfold ctl_ok, on_message_arrived, next_chunk. consts. intros H.
  destruct (m_type m =? 1) eqn:E1.
  - destruct (m_payload m) as [|a [|b [|c' [|d l]]]]; try discriminate. reflexivity.
  - destruct (m_type m =? 5) eqn:E5.
    + destruct (m_payload m) as [|a [|b [|c' [|d l]]]]; try discriminate. reflexivity.
    + destruct (m_type m =? 4) eqn:E4; [|reflexivity].
      destruct (m_payload m) as [|a [|b [|c' l]]]; try discriminate. now rewrite H.
Qed.

Lemma written_ok c m : ctl_ok m = true -> on_message_written c m = next_chunk c m.
Proof.
  unfold ctl_ok, on_message_written, next_chunk. consts. intros H.
  destruct (m_type m =? 1) eqn:E1; [|reflexivity].
  destruct (m_payload m) as [|a [|b [|c' [|d l]]]]; try discriminate.
  apply andb_true_iff in H. destruct H as [H1 H2].
  assert ((0 <? ube4 a b c' d) = true) as -> by lia. reflexivity.
Qed.

Lemma next_chunk_pos c m : ctl_ok m = true -> 0 < c -> 0 < next_chunk c m.
Proof.
  unfold ctl_ok, next_chunk. intros H Hc.
  destruct (m_type m =? 1); [|exact Hc].
  destruct (m_payload m) as [|a [|b [|c' [|d l]]]]; try discriminate.
  apply andb_true_iff in H. lia.
Qed.

(* ---------- header round trips ---------- *)
Lemma ube3_be3 n : n < 16777216 -> ube3 (n / 65536 mod 256) (n / 256 mod 256) (n mod 256) = n.
Proof. intros H. unfold ube3. lia. Qed.
Lemma ube4_be4 n : n < 4294967296 ->
  ube4 (n / 16777216 mod 256) (n / 65536 mod 256) (n / 256 mod 256) (n mod 256) = n.
Proof. intros H. unfold ube4. lia. Qed.
Lemma ule4_le4 n : n < 4294967296 ->
  ule4 (n mod 256) (n / 256 mod 256) (n / 65536 mod 256) (n / 16777216 mod 256) = n.
Proof. intros H. unfold ule4, ube4. lia. Qed.

Lemma stake_zero (s : bytes) (rest : inp) : stake (s :: rest) 0 = Ok ([], s :: rest).
Proof. cbn [stake]. destruct s; reflexivity. Qed.

Lemma basic_header_cases fmt cid bh : basic_header fmt cid = Ok bh ->
  (2 <= cid <= 63 /\ bh = [fmt * 64 + cid]) \/
  (64 <= cid <= 319 /\ bh = [fmt * 64; cid - 64]) \/
  (320 <= cid <= 65599 /\ bh = [fmt * 64 + 1; (cid - 64) mod 256; ((cid - 64) / 256) mod 256]).
Proof.
  unfold basic_header.
  destruct (N.leb_spec 2 cid); destruct (N.leb_spec cid 63); cbn [andb];
  destruct (N.leb_spec 64 cid); destruct (N.leb_spec cid 319); cbn [andb];
  destruct (N.leb_spec 320 cid); destruct (N.leb_spec cid 65599); cbn [andb];
  intros E; try discriminate; inversion E; subst; try lia; auto.
Qed.

Lemma basic_rt fmt cid bh (x : bytes) (rest : inp) : fmt < 4 -> basic_header fmt cid = Ok bh ->
  read_basic_header ((bh ++ x) :: rest) = Ok (fmt, cid, x :: rest).
Proof.
  intros Hf Hb. apply basic_header_cases in Hb.
  destruct Hb as [[Hc ->]|[[Hc ->]|[Hc ->]]]; cbn [app]; unfold read_basic_header;
    rewrite stake1_cons; cbn [bind].
  - assert ((fmt * 64 + cid) mod 64 = cid) as -> by lia.
    assert ((fmt * 64 + cid) / 64 mod 4 = fmt) as -> by lia.
    assert ((1 <? cid) = true) as -> by lia. reflexivity.
  - assert ((fmt * 64) mod 64 = 0) as -> by lia.
    assert ((fmt * 64) / 64 mod 4 = fmt) as -> by lia.
    change (1 <? 0) with false. cbv iota. rewrite stake1_cons. cbn [bind].
    change (0 =? 1) with false. cbv iota. unfold u32.
    assert ((64 + (cid - 64)) mod 4294967296 = cid) as -> by lia. reflexivity.
  - assert ((fmt * 64 + 1) mod 64 = 1) as -> by lia.
    assert ((fmt * 64 + 1) / 64 mod 4 = fmt) as -> by lia.
    change (1 <? 1) with false. cbv iota. rewrite stake1_cons. cbn [bind].
    change (1 =? 1) with true. cbv iota. rewrite stake1_cons. cbn [bind]. unfold u32.
    assert (((64 + (cid - 64) mod 256) mod 4294967296 + ((cid - 64) / 256 mod 256 * 256) mod 4294967296)
            mod 4294967296 = cid) as -> by lia.
    reflexivity.
Qed.

Definition tsf (m : msg) : N := if m_ts m <? EXT then m_ts m else 16777215.
Definition hdr_of (m : msg) : hdr := mkhdr (tsf m) (lenN (m_payload m)) (m_type m) (m_sid m) (m_ts m).
Definition e_of (m : msg) : bool := EXT <=? m_ts m.
(* the type-0 message header as the writer lays it out *)
Definition mh0 (m : msg) : bytes :=
  (if m_ts m <? EXT then be3 (m_ts m) else [255; 255; 255]) ++ be3 (lenN (m_payload m))
  ++ [u8 (m_type m)] ++ le4 (m_sid m).

Lemma ext_stake m (x : bytes) (rest : inp) : e_of m = true ->
  stake ((ext_bytes (m_ts m) ++ x) :: rest) 4
  = Ok ([m_ts m / 16777216 mod 256; m_ts m / 65536 mod 256; m_ts m / 256 mod 256; m_ts m mod 256], x :: rest).
Proof.
  unfold ext_bytes, e_of. consts. intros He.
  assert ((m_ts m <? 16777215) = false) as -> by lia.
  unfold be4. change 4 with (lenN [m_ts m / 16777216 mod 256; m_ts m / 65536 mod 256; m_ts m / 256 mod 256; m_ts m mod 256]).
  now rewrite stake_app.
Qed.

Lemma mhdr0_rt m cid st (x : bytes) (rest : inp) : wf_msg m -> c_part st = None ->
  read_message_header cid st 0 ((mh0 m ++ ext_bytes (m_ts m) ++ x) :: rest)
  = Ok (mkcs (hdr_of m) (e_of m) (c_count st + 1) None, x :: rest).
Proof.
  intros W Hp. pose proof W as W'. destruct W' as [Hc Ht Hty Hs Hl Hb].
  unfold read_message_header. rewrite Hp. consts. change (0 =? 0) with true.
  rewrite andb_false_r. cbn [negb andb]. rewrite hdr_size_0.
  set (tf := tsf m).
  assert (Htf : tf < 16777216) by (unfold tf, tsf; consts; destruct (m_ts m <? 16777215) eqn:E; lia).
  assert (Hmh : mh0 m = be3 tf ++ be3 (lenN (m_payload m)) ++ [u8 (m_type m)] ++ le4 (m_sid m)).
  { unfold mh0, tf, tsf. consts. destruct (m_ts m <? 16777215); reflexivity. }
  rewrite Hmh. unfold be3, le4. cbn [app].
  match goal with |- context [stake ((?a :: ?b :: ?c :: ?d :: ?e :: ?f :: ?g :: ?h :: ?i :: ?j :: ?k :: ?r) :: rest) 11] =>
    change (stake ((a :: b :: c :: d :: e :: f :: g :: h :: i :: j :: k :: r) :: rest) 11)
      with (stake (([a; b; c; d; e; f; g; h; i; j; k] ++ r) :: rest) (lenN [a; b; c; d; e; f; g; h; i; j; k])) end.
  rewrite stake_app. cbn [bind].
  change (0 <=? 2) with true. change (0 <=? 1) with true. cbv iota.
  rewrite (ube3_be3 tf Htf), (ube3_be3 (lenN (m_payload m))) by lia.
  rewrite ule4_le4 by lia. cbn [negb andb bind].
  assert (He : (16777215 <=? tf) = e_of m).
  { unfold tf, tsf, e_of. consts. destruct (N.ltb_spec (m_ts m) 16777215); lia. }
  rewrite He.
  assert (Hu8 : u8 (m_type m) = m_type m) by (unfold u8; apply N.mod_small; lia).
  rewrite Hu8.
  destruct (e_of m) eqn:Ee.
  - rewrite ext_stake by exact Ee. cbn [bind]. rewrite ube4_be4 by lia. unfold set_ts, hdr_of. cbn. unfold T31.
    rewrite !N.mod_small by lia. reflexivity.
  - assert (Hx : ext_bytes (m_ts m) = []).
    { unfold ext_bytes, e_of in *. consts. destruct (N.ltb_spec (m_ts m) 16777215); [reflexivity|lia]. }
    rewrite Hx. cbn [app bind h_ts]. unfold set_ts, hdr_of. cbn.
    assert (tf = m_ts m) as -> by (unfold tf, tsf, e_of in *; consts; destruct (N.ltb_spec (m_ts m) 16777215); lia).
    unfold T31. rewrite N.mod_small by lia. unfold tsf. consts.
    assert ((m_ts m <? 16777215) = true) as -> by (unfold e_of in Ee; consts; lia). reflexivity.
Qed.

Lemma mhdr3_rt m cid st g (x : bytes) (rest : inp) : wf_msg m ->
  c_hdr st = hdr_of m -> c_ext st = e_of m -> c_count st <> 0 -> c_part st = Some g ->
  read_message_header cid st 3 ((ext_bytes (m_ts m) ++ x) :: rest)
  = Ok (mkcs (hdr_of m) (e_of m) (c_count st + 1) (Some g), x :: rest).
Proof.
  intros W Hh He Hc Hp. pose proof W as W'. destruct W' as [_ Ht _ _ _ _].
  unfold read_message_header. rewrite Hp, He, Hh. consts.
  assert ((c_count st =? 0) = false) as -> by (now apply N.eqb_neq).
  change (3 =? 0) with false. cbn [negb andb]. rewrite hdr_size_3, stake_zero. cbn [bind].
  change (3 <=? 2) with false. cbv iota. cbn [bind].
  destruct (e_of m) eqn:Ee.
  - rewrite ext_stake by exact Ee. cbn [bind]. rewrite ube4_be4 by lia. unfold set_ts, hdr_of. cbn. unfold T31.
    rewrite !N.mod_small by lia. reflexivity.
  - assert (Hx : ext_bytes (m_ts m) = []).
    { unfold ext_bytes, e_of in *. consts. destruct (N.ltb_spec (m_ts m) 16777215); [reflexivity|lia]. }
    rewrite Hx. cbn [app bind h_ts hdr_of]. unfold set_ts. cbn. unfold T31.
    rewrite N.mod_small by lia. reflexivity.
Qed.

(* ---------- payload step ---------- *)
Definition part_is (p : option (list bytes * N)) (got : bytes) : Prop :=
  match p with None => got = [] | Some (gr, gl) => concat (rev gr) = got /\ gl = lenN got end.
Definition gr_of (p : option (list bytes * N)) : list bytes :=
  match p with None => [] | Some (gr, _) => gr end.

Lemma firstn_lenN c (q : bytes) : c < lenN q -> lenN (firstn (N.to_nat c) q) = c.
Proof. intros H. rewrite !lenN_length in *. rewrite firstn_length. lia. Qed.

Lemma eta_msg m : mkmsg (m_cid m) (m_ts m) (m_type m) (m_sid m) (m_payload m) = m.
Proof. destruct m; reflexivity. Qed.

Lemma payload_step c st m (got q x : bytes) (rest : inp) :
  0 < c -> c_hdr st = hdr_of m -> part_is (c_part st) got -> m_payload m = got ++ q -> q <> [] ->
  read_payload c (m_cid m) st ((firstn (N.to_nat c) q ++ x) :: rest) =
    if lenN q <=? c then Ok (Some m, set_part st None, x :: rest)
    else Ok (None, set_part st (Some (firstn (N.to_nat c) q :: gr_of (c_part st), lenN got + c)), x :: rest).
Proof.
  intros Hc Hh Hp Hpay Hq. unfold read_payload. rewrite Hh. cbn [hdr_of h_len h_ts h_type h_sid].
  assert (Hlen : lenN (m_payload m) = lenN got + lenN q) by (now rewrite Hpay, lenN_app).
  assert (Hql : 0 < lenN q) by (destruct q; [congruence|rewrite lenN_length; cbn; lia]).
  assert (Hpart : match c_part st with None => ([], 0) | Some g => g end = (gr_of (c_part st), lenN got)
                  /\ concat (rev (gr_of (c_part st))) = got).
  { unfold part_is in Hp. destruct (c_part st) as [[gr gl]|]; cbn.
    - destruct Hp as [H1 ->]. auto.
    - subst got. auto. }
  destruct Hpart as [-> Hgr].
  assert ((lenN (m_payload m) =? 0) = false) as -> by lia.
  assert ((lenN (m_payload m) <? lenN got) = false) as -> by lia.
  replace (lenN (m_payload m) - lenN got) with (lenN q) by lia.
  destruct (N.leb_spec (lenN q) c) as [Hle|Hgt].
  - rewrite N.min_l by lia. rewrite firstn_all2 by (rewrite lenN_length in Hle; lia).
    rewrite stake_app. cbn [bind].
    assert ((lenN got + lenN q =? lenN (m_payload m)) = true) as -> by lia.
    rewrite frev_rev. cbn [rev]. rewrite concat_app, Hgr. cbn [concat]. rewrite app_nil_r, <- Hpay, eta_msg.
    reflexivity.
  - rewrite N.min_r by lia.
    rewrite <- (firstn_lenN c q Hgt) at 2. rewrite stake_app. cbn [bind].
    assert ((lenN got + c =? lenN (m_payload m)) = false) as -> by lia.
    reflexivity.
Qed.

(* ---------- one chunk ---------- *)
Lemma chunk_step s m fmt (bh hb : bytes) st1 (got q x : bytes) (rest : inp) c :
  wf_msg m -> fmt < 4 -> basic_header fmt (m_cid m) = Ok bh ->
  (forall y, read_message_header (m_cid m) (get_chunk (chunks s) (m_cid m)) fmt ((hb ++ y) :: rest)
             = Ok (st1, y :: rest)) ->
  c_hdr st1 = hdr_of m -> part_is (c_part st1) got -> m_payload m = got ++ q -> q <> [] ->
  in_chunk s = c -> 0 < c ->
  read_chunk s ((bh ++ hb ++ firstn (N.to_nat c) q ++ x) :: rest) =
    if lenN q <=? c
    then Ok (Some m, mkrs (next_chunk c m) (set_chunk (chunks s) (m_cid m) (set_part st1 None)), x :: rest)
    else Ok (None, mkrs c (set_chunk (chunks s) (m_cid m)
                            (set_part st1 (Some (firstn (N.to_nat c) q :: gr_of (c_part st1), lenN got + c)))),
             x :: rest).
Proof.
  intros W Hf Hb Hh Hc1 Hp Hpay Hq Hin Hc. unfold read_chunk.
  rewrite (basic_rt fmt (m_cid m) bh _ rest Hf Hb). cbn [bind].
  rewrite Hh. cbn [bind]. rewrite Hin.
  rewrite (payload_step c st1 m got q x rest Hc Hc1 Hp Hpay Hq).
  destruct (lenN q <=? c); cbn [bind]; [|reflexivity].
  rewrite arrived_ok by apply W. reflexivity.
Qed.

(* ---------- a whole message ---------- *)
Definition inflight (m : msg) (st : cstate) (got : bytes) : Prop :=
  c_hdr st = hdr_of m /\ c_ext st = e_of m /\ c_count st <> 0 /\
  exists gr, c_part st = Some (gr, lenN got) /\ concat (rev gr) = got.

Definition idle_after (s s' : rstate) (cid : N) : Prop :=
  c_part (get_chunk (chunks s') cid) = None /\
  (forall k, k <> cid -> get_chunk (chunks s') k = get_chunk (chunks s) k).

Lemma write_chunks_nil fuel c h h3 : write_chunks fuel c h h3 [] = Ok [].
Proof. destruct fuel; reflexivity. Qed.

Lemma write_chunks_S f c h h3 q : q <> [] ->
  write_chunks (S f) c h h3 q =
  let* rest := write_chunks f c h3 h3 (skipn (N.to_nat c) q) in Ok (h ++ firstn (N.to_nat c) q ++ rest).
Proof. intros Hq. destruct q as [|q0 q']; [congruence|]. cbn [write_chunks]. rewrite upto_spec. reflexivity. Qed.

Lemma skipn_short c (q : bytes) : lenN q <= c -> skipn (N.to_nat c) q = [].
Proof. intros H. apply skipn_all2. rewrite lenN_length in H. lia. Qed.

Lemma rest_chunks m c (bh3 : bytes) : wf_msg m -> 0 < c -> basic_header 3 (m_cid m) = Ok bh3 ->
  forall n q got s,
    in_chunk s = c -> inflight m (get_chunk (chunks s) (m_cid m)) got -> m_payload m = got ++ q -> q <> [] ->
    (length q <= n)%nat ->
    exists w s',
      (forall fw, (n <= fw)%nat ->
         write_chunks fw c (bh3 ++ ext_bytes (m_ts m)) (bh3 ++ ext_bytes (m_ts m)) q = Ok w) /\
      (forall (x : bytes) (rest : inp) fr, (n <= fr)%nat ->
         read_message fr s ((w ++ x) :: rest) = Ok (m, s', x :: rest)) /\
      in_chunk s' = next_chunk c m /\ idle_after s s' (m_cid m).
Proof.
  intros W Hc Hb3. induction n as [|n IH]; intros q got s Hin Hfl Hpay Hq Hlen.
  - destruct q; [congruence|cbn in Hlen; lia].
  - destruct Hfl as (Hh & He & Hcnt & gr & Hp & Hgr).
    assert (Hstep := chunk_step s m 3 bh3 (ext_bytes (m_ts m))
                       (mkcs (hdr_of m) (e_of m) (c_count (get_chunk (chunks s) (m_cid m)) + 1) (Some (gr, lenN got)))
                       got q).
    destruct (N.leb_spec (lenN q) c) as [Hle|Hgt].
    + eexists.
      exists (mkrs (next_chunk c m) (set_chunk (chunks s) (m_cid m)
                (set_part (mkcs (hdr_of m) (e_of m) (c_count (get_chunk (chunks s) (m_cid m)) + 1) (Some (gr, lenN got))) None))).
      split; [|split; [|split; [reflexivity|]]].
      * intros fw Hfw. destruct fw as [|fw]; [lia|]. rewrite write_chunks_S by auto.
        rewrite skipn_short by auto. rewrite write_chunks_nil. cbn [bind]. reflexivity.
      * intros x rest fr Hfr. destruct fr as [|fr]; [lia|]. cbn [read_message].
        rewrite app_nil_r, <- !app_assoc.
        rewrite (Hstep x rest c W); auto; try lia.
        -- assert ((lenN q <=? c) = true) as -> by lia. cbn [bind]. reflexivity.
        -- intros y. now apply mhdr3_rt.
        -- cbn. auto.
      * split; cbn [chunks].
        -- now rewrite get_set_same.
        -- intros k Hk. now apply get_set_other.
    + set (s1 := mkrs c (set_chunk (chunks s) (m_cid m)
                 (set_part (mkcs (hdr_of m) (e_of m) (c_count (get_chunk (chunks s) (m_cid m)) + 1) (Some (gr, lenN got)))
                    (Some (firstn (N.to_nat c) q :: gr, lenN got + c))))).
      destruct (IH (skipn (N.to_nat c) q) (got ++ firstn (N.to_nat c) q) s1) as (w' & s' & Hw & Hr & Hn & Hi1 & Hi2).
      * reflexivity.
      * unfold s1, inflight. cbn [chunks]. rewrite get_set_same. cbn. repeat split; auto; try lia.
        exists (firstn (N.to_nat c) q :: gr). split.
        -- rewrite lenN_app, firstn_lenN by lia. reflexivity.
        -- cbn [rev]. rewrite concat_app, Hgr. cbn. now rewrite app_nil_r.
      * rewrite <- app_assoc, firstn_skipn. exact Hpay.
      * intro E. apply (f_equal (@length N)) in E. rewrite skipn_length in E. cbn in E.
        rewrite lenN_length in Hgt. lia.
      * rewrite skipn_length. rewrite lenN_length in Hgt. lia.
      * eexists. exists s'. split; [|split; [|split; [exact Hn|]]].
        -- intros fw Hfw. destruct fw as [|fw]; [lia|]. rewrite write_chunks_S by auto.
           rewrite Hw by lia. cbn [bind]. reflexivity.
        -- intros x rest fr Hfr. destruct fr as [|fr]; [lia|]. cbn [read_message].
           rewrite <- !app_assoc.
           rewrite (Hstep (w' ++ x) rest c W); auto; try lia.
           ++ assert ((lenN q <=? c) = false) as -> by lia. cbn [bind gr_of c_part]. fold s1.
              apply Hr. lia.
           ++ intros y. now apply mhdr3_rt.
           ++ cbn. auto.
        -- split; [exact Hi1|].
           intros k Hk. rewrite Hi2 by auto. unfold s1. cbn [chunks]. now apply get_set_other.
Qed.

(* the header bytes of the writer *)
Lemma c0_header_eq m bh : wf_msg m -> basic_header F0 (m_cid m) = Ok bh ->
  c0_header m (u32 (lenN (m_payload m))) = Ok (bh ++ mh0 m ++ ext_bytes (m_ts m)).
Proof.
  intros W Hb. unfold c0_header. rewrite Hb. cbn [bind]. unfold mh0.
  assert (u32 (lenN (m_payload m)) = lenN (m_payload m)) as -> by (unfold u32; apply N.mod_small; destruct W; lia).
  now rewrite <- !app_assoc.
Qed.

Lemma basic_header_ok fmt m : wf_msg m -> exists bh, basic_header fmt (m_cid m) = Ok bh.
Proof.
  intros W. destruct W as [Hc _ _ _ _ _]. unfold basic_header.
  destruct (N.leb_spec 2 (m_cid m)); destruct (N.leb_spec (m_cid m) 63); cbn [andb]; eauto; try lia.
  destruct (N.leb_spec 64 (m_cid m)); destruct (N.leb_spec (m_cid m) 319); cbn [andb]; eauto; try lia.
  destruct (N.leb_spec 320 (m_cid m)); destruct (N.leb_spec (m_cid m) 65599); cbn [andb]; eauto; lia.
Qed.

(* C01, one message: whatever the chunk size c >= 1 in force on both sides, whatever state the
   reader's other chunk streams are in, the bytes WriteMessage produces are read back as exactly
   that message; nothing after them is consumed; both sides end with the same chunk size. *)
Theorem single_message m c s :
  wf_msg m -> 0 < c -> in_chunk s = c -> c_part (get_chunk (chunks s) (m_cid m)) = None ->
  exists w s',
    write_message c m = Ok (w, next_chunk c m) /\
    (forall (x : bytes) (rest : inp) fuel, (length (m_payload m) < fuel)%nat ->
       read_message fuel s ((w ++ x) :: rest) = Ok (m, s', x :: rest)) /\
    in_chunk s' = next_chunk c m /\ idle_after s s' (m_cid m).
Proof.
  intros W Hc Hin Hp.
  destruct (basic_header_ok F0 m W) as (bh0 & Hb0). destruct (basic_header_ok F3 m W) as (bh3 & Hb3).
  unfold write_message. rewrite (c0_header_eq m bh0 W Hb0). cbn [bind].
  unfold c3_header. rewrite Hb3. cbn [bind]. rewrite written_ok by apply W.
  assert (Hq : m_payload m <> []).
  { destruct W as [_ _ _ _ Hl _]. destruct (m_payload m); [unfold lenN in Hl; cbn in Hl; lia|congruence]. }
  rewrite write_chunks_S by auto.
  set (st := get_chunk (chunks s) (m_cid m)).
  assert (Hstep := chunk_step s m 0 bh0 (mh0 m ++ ext_bytes (m_ts m))
                     (mkcs (hdr_of m) (e_of m) (c_count st + 1) None) [] (m_payload m)).
  consts.
  destruct (N.leb_spec (lenN (m_payload m)) c) as [Hle|Hgt].
  - rewrite skipn_short by auto. rewrite write_chunks_nil. cbn [bind].
    eexists.
    exists (mkrs (next_chunk c m) (set_chunk (chunks s) (m_cid m)
              (set_part (mkcs (hdr_of m) (e_of m) (c_count st + 1) None) None))).
    split; [reflexivity|]. split; [|split; [reflexivity|]].
    + intros x rest fuel Hfuel. destruct fuel as [|f]; [lia|]. cbn [read_message].
      rewrite app_nil_r, <- !app_assoc. rewrite (app_assoc (mh0 m) (ext_bytes (m_ts m))).
      rewrite (Hstep x rest c W); auto; try lia.
      * assert ((lenN (m_payload m) <=? c) = true) as -> by lia. reflexivity.
      * intros y. rewrite <- app_assoc. now apply mhdr0_rt.
      * reflexivity.
    + split; cbn [chunks].
      * now rewrite get_set_same.
      * intros k Hk. now apply get_set_other.
  - set (s1 := mkrs c (set_chunk (chunks s) (m_cid m)
                 (set_part (mkcs (hdr_of m) (e_of m) (c_count st + 1) None)
                    (Some ([firstn (N.to_nat c) (m_payload m)], lenN (@nil N) + c))))).
    destruct (rest_chunks m c bh3 W Hc Hb3 (length (m_payload m)) (skipn (N.to_nat c) (m_payload m))
                (firstn (N.to_nat c) (m_payload m)) s1) as (w' & s' & Hw & Hr & Hn & Hi1 & Hi2).
    + reflexivity.
    + unfold s1, inflight. cbn [chunks]. rewrite get_set_same. cbn. repeat split; auto; try lia.
      exists [firstn (N.to_nat c) (m_payload m)]. split.
      * rewrite firstn_lenN by lia. reflexivity.
      * cbn. now rewrite app_nil_r.
    + now rewrite firstn_skipn.
    + intro E. apply (f_equal (@length N)) in E. rewrite skipn_length in E. cbn in E.
      rewrite lenN_length in Hgt. lia.
    + rewrite skipn_length. lia.
    + rewrite Hw by lia. cbn [bind].
      eexists. exists s'. split; [reflexivity|]. split; [|split; [exact Hn|]].
      * intros x rest fuel Hfuel. destruct fuel as [|f]; [lia|]. cbn [read_message].
        rewrite <- !app_assoc. rewrite (app_assoc (mh0 m) (ext_bytes (m_ts m))).
        rewrite (Hstep (w' ++ x) rest c W); auto; try lia.
        -- assert ((lenN (m_payload m) <=? c) = false) as -> by lia. cbn [bind gr_of c_part]. fold s1.
           apply Hr. lia.
        -- intros y. rewrite <- app_assoc. now apply mhdr0_rt.
        -- reflexivity.
      * split; [exact Hi1|].
        intros k Hk. rewrite Hi2 by auto. unfold s1. cbn [chunks]. now apply get_set_other.
Qed.

(* ---------- a whole session ---------- *)
Definition all_idle (s : rstate) : Prop := forall k, c_part (get_chunk (chunks s) k) = None.

Lemma rs0_idle : all_idle rs0.
Proof. intros k. reflexivity. Qed.

Lemma idle_step s s' cid : all_idle s -> idle_after s s' cid -> all_idle s'.
Proof.
  intros Hs [H1 H2] k. destruct (N.eq_dec k cid) as [->|Hk]; [exact H1|]. rewrite H2 by auto. apply Hs.
Qed.

Lemma wire_of_oks ws : wire_of (map Ok ws) = concat ws.
Proof. unfold wire_of. rewrite map_map, map_id. reflexivity. Qed.

(* every message of the list is written with the chunk size left by its predecessors (Set Chunk
   Size messages included) and read back by a peer that applies the same sizes on arrival *)
Theorem session ms : Forall wf_msg ms ->
  forall c s, 0 < c -> in_chunk s = c -> all_idle s ->
  exists ws s',
    write_all c ms = map Ok ws /\
    (forall (x : bytes) (rest : inp) fuel, Forall (fun m => (length (m_payload m) < fuel)%nat) ms ->
       read_n fuel (length ms) s ((concat ws ++ x) :: rest) = Ok (ms, s', x :: rest)) /\
    all_idle s' /\ 0 < in_chunk s'.
Proof.
  induction 1 as [|m t W Wt IH]; intros c s Hc Hin Hidle.
  - exists [], s. cbn. repeat split; auto. lia.
  - destruct (single_message m c s W Hc Hin (Hidle _)) as (w & s1 & Hw & Hr1 & Hn & Hi).
    assert (Hc1 : 0 < next_chunk c m) by (apply next_chunk_pos; [apply W|exact Hc]).
    assert (Hidle1 : all_idle s1) by (eapply idle_step; eauto).
    destruct (IH (next_chunk c m) s1 Hc1 Hn Hidle1) as (ws & s' & Hws & Hr & Hi' & Hc').
    exists (w :: ws), s'. split; [|split; [|split; [exact Hi'|exact Hc']]].
    + cbn [write_all]. rewrite Hw, Hws. reflexivity.
    + intros x rest fuel Hfuel. pose proof (Forall_inv Hfuel) as Hm. pose proof (Forall_inv_tail Hfuel) as Ht.
      cbn beta in Hm. cbn [length read_n concat].
      rewrite <- app_assoc. rewrite Hr1 by exact Hm. cbn [bind].
      rewrite Hr by exact Ht. reflexivity.
Qed.

(* the same, as the peer's read loop sees it: all messages, then a clean end of stream *)
Theorem session_eof ms : Forall wf_msg ms ->
  forall c s acc fuel, 0 < c -> in_chunk s = c -> all_idle s ->
  (length ms < fuel)%nat -> Forall (fun m => (length (m_payload m) + length ms < fuel)%nat) ms ->
  exists ws, write_all c ms = map Ok ws /\
             read_all fuel s [concat ws] acc = (rev acc ++ ms, E_EOF).
Proof.
  induction 1 as [|m t W Wt IH]; intros c s acc fuel Hc Hin Hidle Hf Hfs.
  - exists []. split; [reflexivity|]. destruct fuel as [|f]; [cbn in Hf; lia|].
    cbn [read_all concat]. cbn [read_message]. unfold read_chunk, read_basic_header, stake1. cbn.
    now rewrite frev_rev, app_nil_r.
  - destruct (single_message m c s W Hc Hin (Hidle _)) as (w & s1 & Hw & Hr1 & Hn & Hi).
    assert (Hc1 : 0 < next_chunk c m) by (apply next_chunk_pos; [apply W|exact Hc]).
    assert (Hidle1 : all_idle s1) by (eapply idle_step; eauto).
    pose proof (Forall_inv Hfs) as Hm. pose proof (Forall_inv_tail Hfs) as Ht. cbn beta in Hm. cbn [length] in *.
    destruct fuel as [|f]; [lia|].
    destruct (IH (next_chunk c m) s1 (m :: acc) f Hc1 Hn Hidle1) as (ws & Hws & Hr).
    + lia.
    + eapply Forall_impl; [|exact Ht]. cbn. intros a Ha. lia.
    + exists (w :: ws). split.
      * cbn [write_all]. rewrite Hw, Hws. reflexivity.
      * cbn [read_all concat]. rewrite Hr1 by lia.
        etransitivity; [exact Hr|]. cbn [rev]. now rewrite <- app_assoc.
Qed.

(* the writer refuses what the protocol cannot encode, before any byte is written *)
Lemma cid_refused c m : m_cid m < 2 \/ 65599 < m_cid m -> write_message c m = Err E_CID.
Proof.
  intros H. unfold write_message, c0_header, basic_header.
  destruct (N.leb_spec 2 (m_cid m)); destruct (N.leb_spec (m_cid m) 63); cbn [andb]; try lia;
  destruct (N.leb_spec 64 (m_cid m)); destruct (N.leb_spec (m_cid m) 319); cbn [andb]; try lia;
  destruct (N.leb_spec 320 (m_cid m)); destruct (N.leb_spec (m_cid m) 65599); cbn [andb]; try lia; reflexivity.
Qed.

(* ---------- handshake: exactly 1 + 1536 + 1536 bytes move in each direction ---------- *)
Lemma copy_n_flat i (a t : bytes) n : flat i = a ++ t -> lenN a = n ->
  exists i', copy_n i n = Ok (a, i') /\ flat i' = t.
Proof.
  intros Hi Ha. unfold copy_n. pose proof (stake_flat i n) as S. rewrite Hi in S.
  rewrite lenN_length in Ha.
  destruct (stake i n) as [[a' i']|e|p].
  - destruct S as (_ & -> & S3). exists i'. split.
    + rewrite firstn_app. replace (N.to_nat n - length a)%nat with 0%nat by lia.
      rewrite firstn_O, app_nil_r, firstn_all2 by lia. reflexivity.
    + rewrite S3, skipn_app. replace (N.to_nat n - length a)%nat with 0%nat by lia.
      rewrite skipn_O, skipn_all2 by lia. reflexivity.
  - destruct S as (S1 & _). rewrite lenN_app, lenN_length in S1. lia.
  - contradiction.
Qed.

Lemma hs_c1s1_len rnd : length rnd = 1528%nat -> lenN (hs_c1s1 rnd) = 1536.
Proof. intros H. unfold hs_c1s1. rewrite lenN_length, app_length, H. reflexivity. Qed.

Theorem handshake (rnd s1 tail : bytes) (i : inp) :
  length rnd = 1528%nat -> length s1 = 1536%nat ->
  flat i = hs_c0s0 ++ hs_c1s1 rnd ++ hs_c2s2 s1 ++ tail ->
  exists i1 i2 i3,
    hs_read_c0s0 i = Ok ([3], i1) /\ hs_read_c1s1 i1 = Ok (hs_c1s1 rnd, i2) /\
    hs_read_c2s2 i2 = Ok (s1, i3) /\ flat i3 = tail /\
    lenN (hs_c0s0 ++ hs_c1s1 rnd ++ hs_c2s2 s1) = 3073.
Proof.
  intros Hr Hs Hi. unfold hs_read_c0s0, hs_read_c1s1, hs_read_c2s2.
  destruct (copy_n_flat i hs_c0s0 _ 1 Hi eq_refl) as (i1 & H1 & F1).
  destruct (copy_n_flat i1 (hs_c1s1 rnd) _ 1536 F1 (hs_c1s1_len rnd Hr)) as (i2 & H2 & F2).
  destruct (copy_n_flat i2 (hs_c2s2 s1) _ 1536 F2) as (i3 & H3 & F3).
  { unfold hs_c2s2. rewrite lenN_length, Hs. reflexivity. }
  exists i1, i2, i3. repeat split; auto.
  rewrite !lenN_app, hs_c1s1_len by auto. unfold hs_c2s2. rewrite (lenN_length s1), Hs. reflexivity.
Qed.

(* ---------- the writer terminates: with a positive chunk size the chunk loop never spins ---------- *)
Lemma write_chunks_ok : forall fuel c h h3 (p : bytes), 0 < c -> (length p <= fuel)%nat ->
  exists w, write_chunks fuel c h h3 p = Ok w.
Proof.
  induction fuel as [|f IH]; intros c h h3 p Hc Hl.
  - destruct p; [exists []; reflexivity|cbn in Hl; lia].
  - destruct p as [|p0 p']; [exists []; reflexivity|].
    rewrite write_chunks_S by congruence.
    destruct (IH c h3 h3 (skipn (N.to_nat c) (p0 :: p')) Hc) as (w & Hw).
    + rewrite skipn_length. cbn [length] in *. lia.
    + rewrite Hw. cbn [bind]. eauto.
Qed.

Theorem write_message_total c m : 0 < c ->
  write_message c m = Err E_CID \/ exists w c', write_message c m = Ok (w, c') /\ 0 < c'.
Proof.
  intros Hc. unfold write_message, c0_header, c3_header.
  destruct (basic_header F0 (m_cid m)) as [bh0|e|p] eqn:E0; cbn [bind].
  - destruct (basic_header F3 (m_cid m)) as [bh3|e|p] eqn:E3; cbn [bind].
    + match goal with |- context [write_chunks ?f ?c ?h ?h3 ?p] =>
        destruct (write_chunks_ok f c h h3 p Hc) as (w & Hw); [lia|rewrite Hw] end.
      cbn [bind]. right. eexists. eexists. split; [reflexivity|].
      unfold on_message_written. destruct (m_type m =? MT_SCS); [|exact Hc].
      destruct (m_payload m) as [|a [|b [|c' [|d l]]]]; try exact Hc.
      destruct (N.ltb_spec 0 (ube4 a b c' d)); [assumption|exact Hc].
    + unfold basic_header in *.
      destruct ((2 <=? m_cid m) && (m_cid m <=? 63)); [discriminate|].
      destruct ((64 <=? m_cid m) && (m_cid m <=? 319)); [discriminate|].
      destruct ((320 <=? m_cid m) && (m_cid m <=? 65599)); discriminate.
    + unfold basic_header in E3.
      destruct ((2 <=? m_cid m) && (m_cid m <=? 63)); [discriminate|].
      destruct ((64 <=? m_cid m) && (m_cid m <=? 319)); [discriminate|].
      destruct ((320 <=? m_cid m) && (m_cid m <=? 65599)); discriminate.
  - left. unfold basic_header in E0.
    destruct ((2 <=? m_cid m) && (m_cid m <=? 63)); [discriminate|].
    destruct ((64 <=? m_cid m) && (m_cid m <=? 319)); [discriminate|].
    destruct ((320 <=? m_cid m) && (m_cid m <=? 65599)); [discriminate|]. now inversion E0.
  - unfold basic_header in E0.
    destruct ((2 <=? m_cid m) && (m_cid m <=? 63)); [discriminate|].
    destruct ((64 <=? m_cid m) && (m_cid m <=? 319)); [discriminate|].
    destruct ((320 <=? m_cid m) && (m_cid m <=? 65599)); discriminate.
Qed.

(* ---------- handshake ++ session on ONE transport ----------
   The code hands the connection over unbuffered: Handshake.ReadC0S0/C1S1/C2S2 call
   io.CopyN(buf, conn, n) directly on the connection (io.CopyN reads through an io.LimitedReader,
   which never asks the connection for more than the bytes still missing), and only afterwards
   NewProtocol wraps the same connection in a bufio.Reader.  In the model: copy_n takes exactly n
   bytes off the segment list and returns what is left of it -- a segment holding the tail of C2
   and the first chunk bytes is split, its rest stays in the transport -- and the chunk reader
   continues on that remainder. *)
Theorem handshake_session (rnd s1 : bytes) ms (segs : inp) fuel :
  length rnd = 1528%nat -> length s1 = 1536%nat -> Forall wf_msg ms ->
  (length ms < fuel)%nat -> Forall (fun m => (length (m_payload m) + length ms < fuel)%nat) ms ->
  exists ws, write_all DEFCHUNK ms = map Ok ws /\
    (flat segs = hs_c0s0 ++ hs_c1s1 rnd ++ hs_c2s2 s1 ++ concat ws ->
     exists i1 i2 i3,
       hs_read_c0s0 segs = Ok ([3], i1) /\ hs_read_c1s1 i1 = Ok (hs_c1s1 rnd, i2) /\
       hs_read_c2s2 i2 = Ok (s1, i3) /\
       read_all fuel rs0 i3 [] = (ms, E_EOF)).
Proof.
  intros Hr Hs W Hf Hfs.
  destruct (session_eof ms W DEFCHUNK rs0 [] fuel) as (ws & Hw & Hread); auto; try reflexivity.
  { exact rs0_idle. }
  exists ws. split; [exact Hw|]. intros Hflat.
  destruct (handshake rnd s1 (concat ws) segs Hr Hs Hflat) as (i1 & i2 & i3 & H1 & H2 & H3 & F3 & _).
  exists i1, i2, i3. repeat split; auto.
  cbn [rev app] in Hread. etransitivity; [|exact Hread].
  apply read_all_same. cbn [flat concat]. now rewrite app_nil_r.
Qed.
