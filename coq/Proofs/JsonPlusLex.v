(* C17 proofs, part 6: comment-free texts.  [lex] cuts a byte string into runs and string
   literals (the lexical shape of every JSON text: quotes only as string delimiters or escaped
   inside strings, no apostrophe or slash outside strings); every text it accepts is the
   rendering of a guarded comment-free document, so it passes through the reader unchanged. *)
From Verif Require Import Lib.Base Lib.Sx Gen.Gen_json Model.JsonPlus.
From Verif Require Import Proofs.JsonPlusIndex Proofs.JsonPlusSplit Proofs.JsonPlusScan Proofs.JsonPlusStrip.
Open Scope N_scope.

Ltac norm_app := repeat (progress (rewrite <- ?app_assoc; cbn [app])).

Inductive lexst := LOut | LStr | LEsc.

Definition push_run (cur : bytes) (acc : list item) : list item :=
  match cur with [] => acc | _ => Run (rev cur) :: acc end.

(* cur: the bytes of the current run / string body, reversed; acc: finished items, reversed *)
Fixpoint lex_go (d : bytes) (st : lexst) (cur : bytes) (acc : list item) : option (list item) :=
  match d with
  | [] => match st with LOut => Some (rev (push_run cur acc)) | _ => None end
  | c :: t =>
      match st with
      | LOut => if c =? quote then lex_go t LStr [] (push_run cur acc)
                else if (c =? apos) || (c =? slash) then None
                else lex_go t LOut (c :: cur) acc
      | LStr => if c =? backslash then lex_go t LEsc (c :: cur) acc
                else if c =? quote then lex_go t LOut [] (Str (rev cur) :: acc)
                else lex_go t LStr (c :: cur) acc
      | LEsc => lex_go t LStr (c :: cur) acc
      end
  end.
Definition lex (d : bytes) : option (list item) := lex_go d LOut [] [].

(* the bytes already consumed, as rendered by the accumulators *)
Definition consumed (st : lexst) (cur : bytes) (acc : list item) : bytes :=
  concat (map render_item (rev acc)) ++ match st with LOut => rev cur | _ => quote :: rev cur end.

(* the current string body is well-formed so far: completing it with any well-formed rest
   (after one more arbitrary byte when an escape is pending) gives a well-formed body *)
Definition cur_ok (st : lexst) (cur : bytes) : Prop :=
  match st with
  | LOut => run_ok (rev cur) = true
  | LStr => forall s, body_ok s = true -> body_ok (rev cur ++ s) = true
  | LEsc => forall x s, body_ok s = true -> body_ok (rev cur ++ x :: s) = true
  end.

Lemma render_snoc l it : concat (map render_item (l ++ [it])) = concat (map render_item l) ++ render_item it.
Proof. rewrite map_app, concat_app. cbn. now rewrite app_nil_r. Qed.

Lemma forallb_snoc {A} (f : A -> bool) l x : forallb f (l ++ [x]) = forallb f l && f x.
Proof. rewrite forallb_app. cbn. now rewrite andb_true_r. Qed.

Lemma consumed_push_run cur acc :
  concat (map render_item (rev (push_run cur acc))) = concat (map render_item (rev acc)) ++ rev cur.
Proof.
  unfold push_run. destruct cur as [|c cur]; [cbn [rev]; now rewrite app_nil_r|].
  cbn [rev]. rewrite render_snoc. reflexivity.
Qed.

Lemma items_ok_push_run cur acc :
  run_ok (rev cur) = true -> forallb item_ok (rev acc) = true -> forallb item_ok (rev (push_run cur acc)) = true.
Proof.
  intros Hr Ha. unfold push_run. destruct cur as [|c cur]; [exact Ha|].
  cbn [rev]. rewrite forallb_snoc, Ha. exact Hr.
Qed.

Lemma nocomment_push_run cur acc :
  forallb no_comment (rev acc) = true -> forallb no_comment (rev (push_run cur acc)) = true.
Proof.
  intros Ha. unfold push_run. destruct cur as [|c cur]; [exact Ha|]. cbn [rev]. rewrite forallb_snoc, Ha. reflexivity.
Qed.

Lemma body_ok_snoc_plain pre c : c <> backslash -> c <> quote ->
  (forall s, body_ok s = true -> body_ok (pre ++ s) = true) ->
  forall s, body_ok s = true -> body_ok ((pre ++ [c]) ++ s) = true.
Proof.
  intros Hb Hq H s Hs. rewrite <- app_assoc. apply H. cbn [app body_ok].
  destruct (c =? backslash) eqn:E; [apply N.eqb_eq in E; congruence|].
  destruct (c =? quote) eqn:E2; [apply N.eqb_eq in E2; congruence|]. exact Hs.
Qed.

Lemma lex_go_sound : forall d st cur acc items,
  lex_go d st cur acc = Some items ->
  cur_ok st cur -> forallb item_ok (rev acc) = true -> forallb no_comment (rev acc) = true ->
  concat (map render_item items) = consumed st cur acc ++ d /\
  forallb item_ok items = true /\ forallb no_comment items = true.
Proof.
  induction d as [|c t IH]; intros st cur acc items H Hc Ha Hn.
  - cbn [lex_go] in H. destruct st; try discriminate. inversion H; subst items. clear H.
    unfold consumed. rewrite app_nil_r. cbn [cur_ok] in Hc.
    split; [apply consumed_push_run|]. split; [now apply items_ok_push_run|now apply nocomment_push_run].
  - cbn [lex_go] in H. destruct st.
    + (* outside *)
      cbn [cur_ok] in Hc. destruct (c =? quote) eqn:Eq.
      * apply N.eqb_eq in Eq. subst c.
        destruct (IH _ _ _ _ H) as (R & I & N0).
        -- cbn [cur_ok rev app]. auto.
        -- now apply items_ok_push_run.
        -- now apply nocomment_push_run.
        -- split; [|auto]. rewrite R. unfold consumed. rewrite consumed_push_run. cbn [rev app].
           norm_app. reflexivity.
      * destruct ((c =? apos) || (c =? slash)) eqn:Em; [discriminate|].
        destruct (IH _ _ _ _ H) as (R & I & N0); auto.
        -- cbn [cur_ok rev]. unfold run_ok in *. rewrite forallb_snoc, Hc. cbn. rewrite Eq. cbn. now rewrite Em.
        -- split; [|auto]. rewrite R. unfold consumed. cbn [rev]. norm_app. reflexivity.
    + (* inside a string *)
      cbn [cur_ok] in Hc. destruct (c =? backslash) eqn:Eb.
      * apply N.eqb_eq in Eb. subst c.
        destruct (IH _ _ _ _ H) as (R & I & N0); auto.
        -- cbn [cur_ok rev]. intros x s Hs. rewrite <- app_assoc. apply Hc. cbn [app body_ok]. rewrite N.eqb_refl. exact Hs.
        -- split; [|auto]. rewrite R. unfold consumed. cbn [rev]. norm_app. reflexivity.
      * destruct (c =? quote) eqn:Eq.
        -- apply N.eqb_eq in Eq. subst c.
           destruct (IH _ _ _ _ H) as (R & I & N0).
           ++ cbn [cur_ok rev]. reflexivity.
           ++ cbn [rev]. rewrite forallb_snoc, Ha. cbn [item_ok]. specialize (Hc [] eq_refl). now rewrite app_nil_r in Hc.
           ++ cbn [rev]. rewrite forallb_snoc, Hn. reflexivity.
           ++ split; [|auto]. rewrite R. unfold consumed. cbn [rev]. rewrite render_snoc. cbn [render_item app].
              norm_app. reflexivity.
        -- apply N.eqb_neq in Eb. apply N.eqb_neq in Eq.
           destruct (IH _ _ _ _ H) as (R & I & N0); auto.
           ++ cbn [cur_ok rev]. now apply body_ok_snoc_plain.
           ++ split; [|auto]. rewrite R. unfold consumed. cbn [rev]. norm_app. reflexivity.
    + (* after a backslash *)
      cbn [cur_ok] in Hc.
      destruct (IH _ _ _ _ H) as (R & I & N0); auto.
      * cbn [cur_ok rev]. intros s Hs. rewrite <- app_assoc. cbn [app]. now apply Hc.
      * split; [|auto]. rewrite R. unfold consumed. cbn [rev]. norm_app. reflexivity.
Qed.

Lemma lex_sound t d : lex t = Some d ->
  render_dec d None = t /\ doc_ok d None = true /\ forallb no_comment d = true.
Proof.
  intros H. destruct (lex_go_sound t LOut [] [] d H eq_refl eq_refl eq_refl) as (R & I & N0).
  unfold render_dec, doc_ok. rewrite app_nil_r, R, I, N0. cbn. auto.
Qed.

(* [core] a text without comments -- quotes only around (or escaped inside) string literals, no
   apostrophe or slash outside them -- passes through byte for byte, for every segmentation *)
Lemma reader_identity_text segs dt d :
  runs_ok segs -> lex (concat segs) = Some d -> lenN (concat segs) < tok_limit ->
  reader_dt segs 0 dt = (concat segs, Ok tt).
Proof.
  intros Hne Hl Hlim. destruct (lex_sound _ _ Hl) as (R & I & N0).
  exact (reader_identity segs dt d Hne (eq_sym R) N0 I Hlim).
Qed.

(* an object with an escaped quote and slashes in a string, and nested brackets *)
Example ex_lex : exists d, lex [123; 34; 107; 34; 58; 34; 97; 92; 34; 47; 47; 98; 34; 44; 32; 91; 49; 93; 125] = Some d.
Proof. eexists. vm_compute. reflexivity. Qed.
Example ex_lex_reject : lex [91; 49; 93; 32; 47; 47; 99] = None.     (* a comment is not comment-free *)
Proof. reflexivity. Qed.
