(* C13 proofs (part 6): scripts with prepared messages; the frame cache. *)
From Verif Require Import Lib.Base Lib.Sx Model.WsWrite Proofs.WsWrite Proofs.WsWriteFrame Proofs.WsWriteSession Proofs.WsWritePrepared.
Open Scope N_scope.

(* ---- the write API leaves the prepared-frame cache and the level alone ---- *)
Definition same_pc (s s' : cst) : Prop := pcache s' = pcache s /\ lvl s' = lvl s.
Lemma same_pc_refl s : same_pc s s. Proof. split; reflexivity. Qed.
Lemma same_pc_trans a b d : same_pc a b -> same_pc b d -> same_pc a d.
Proof. intros [A1 A2] [B1 B2]. split; congruence. Qed.

Ltac pc_solve :=
  repeat match goal with
  | |- same_pc ?s ?s => apply same_pc_refl
  | |- same_pc _ (st_mw _ _) => split; reflexivity
  | |- same_pc _ (st_h _ _ _ _ _ _) => split; reflexivity
  end.

Lemma lift_mw_pc s r x : lift_mw s r = Ok x -> same_pc s (fst x).
Proof. unfold lift_mw. destruct r as [[m e]| |]; cbn; intros H; inversion H; subst; cbn. split; reflexivity. Qed.

Lemma do_mw_close_pc c s x : do_mw_close c s = Ok x -> same_pc s (fst x).
Proof.
  unfold do_mw_close. destruct (mwclosed s); [intros H; inversion H; apply same_pc_refl|].
  destruct (flush_frame c (mw s) true []) as [[m e]| |]; cbn [bind]; try discriminate.
  destruct (negb (e =? 0)); intros H; inversion H; subst; cbn [fst]; split; reflexivity.
Qed.

Lemma do_z_close_pc c s ch x : do_z_close c s ch = Ok x -> same_pc s (fst x).
Proof.
  unfold do_z_close. destruct (negb (zopen s)); [intros H; inversion H; apply same_pc_refl|].
  destruct (tw_run (tws_ s) ch) as [t1 ws].
  destruct (feed_writes c (mw s) ws) as [[m1 e1]| |]; cbn [bind]; try discriminate.
  destruct (negb (flate_tail_ok t1)); [intros H; inversion H; subst; cbn [fst]; split; reflexivity|].
  destruct (do_mw_close c _) as [[s2 e2]| |] eqn:E; cbn [bind]; try discriminate.
  intros H; inversion H; subst; cbn [fst].
  apply do_mw_close_pc in E. cbn [fst] in E. destruct E as [A B]. split; [rewrite A|rewrite B]; reflexivity.
Qed.

Lemma implicit_close_pc c s ch s' : implicit_close c s ch = Ok s' -> same_pc s s'.
Proof.
  unfold implicit_close. destruct (negb (wopen s)); [intros H; inversion H; apply same_pc_refl|].
  destruct (hkind s =? 2).
  - destruct (do_z_close c s ch) as [r| |] eqn:E; cbn [bind]; try discriminate.
    intros H; inversion H; subst. apply do_z_close_pc in E. destruct E as [A B]. split; cbn; assumption.
  - destruct (do_mw_close c s) as [r| |] eqn:E; cbn [bind]; try discriminate.
    intros H; inversion H; subst. apply do_mw_close_pc in E. destruct E as [A B]. split; cbn; assumption.
Qed.

Lemma prep_write_pc c s t ch x : prep_write c s t ch = Ok x -> same_pc s (fst x).
Proof.
  unfold prep_write. destruct (implicit_close c s ch) as [s1| |] eqn:E; cbn [bind]; try discriminate.
  apply implicit_close_pc in E. destruct (negb (is_control t) && negb (is_data t)); intros H; inversion H; subst; exact E.
Qed.

Lemma do_next_pc c s t ch x : do_next c s t ch = Ok x -> same_pc s (fst x).
Proof.
  unfold do_next. destruct (prep_write c s t ch) as [[s1 e]| |] eqn:E; cbn [bind]; try discriminate.
  apply prep_write_pc in E. cbn [fst] in E.
  destruct (negb (e =? 0)); [intros H; inversion H; subst; cbn [fst]; destruct E; split; cbn; assumption|].
  destruct (comp s1 && ewc s1 && is_data t); intros H; inversion H; subst; cbn [fst]; destruct E; split; cbn; assumption.
Qed.

Lemma do_write_pc c s p ch x : do_write c s p ch = Ok x -> same_pc s (fst x).
Proof.
  unfold do_write. destruct (hkind s =? 2).
  - destruct (negb (zopen s)); [intros H; inversion H; apply same_pc_refl|].
    destruct (tw_run (tws_ s) ch) as [t1 ws]. intros H. apply lift_mw_pc in H. destruct H as [A B]. split; [rewrite A|rewrite B]; reflexivity.
  - destruct (hkind s =? 1); [|intros H; inversion H; apply same_pc_refl].
    destruct (mwclosed s); [intros H; inversion H; apply same_pc_refl|]. apply lift_mw_pc.
Qed.

Lemma do_write_string_pc c s p ch x : do_write_string c s p ch = Ok x -> same_pc s (fst x).
Proof.
  unfold do_write_string. destruct (hkind s =? 1); [|apply do_write_pc].
  destruct (mwclosed s); [intros H; inversion H; apply same_pc_refl|]. apply lift_mw_pc.
Qed.

Lemma do_read_from_pc c s p caps ewd ch x : do_read_from c s p caps ewd ch = Ok x -> same_pc s (fst x).
Proof.
  unfold do_read_from. destruct (hkind s =? 1); [|apply do_write_pc].
  destruct (mwclosed s); [intros H; inversion H; apply same_pc_refl|]. apply lift_mw_pc.
Qed.

Lemma do_close_pc c s ch x : do_close c s ch = Ok x -> same_pc s (fst x).
Proof.
  unfold do_close. destruct (hkind s =? 2); [apply do_z_close_pc|].
  destruct (hkind s =? 1); [apply do_mw_close_pc|]. intros H; inversion H; apply same_pc_refl.
Qed.

Lemma do_control_pc c s t p : same_pc s (fst (do_control c s t p)).
Proof.
  unfold do_control. destruct (negb (is_control t)); [apply same_pc_refl|].
  destruct (maxCtl <? lenN p); [apply same_pc_refl|].
  destruct (negb (werrc (mw s) =? 0)); [apply same_pc_refl|].
  destruct (srv c).
  - destruct (conn_write _ _ _); split; reflexivity.
  - destruct (pop_key _). destruct (conn_write _ _ _); split; reflexivity.
Qed.

Lemma do_write_message_pc c s t p wch cch x : do_write_message c s t p wch cch = Ok x -> same_pc s (fst x).
Proof.
  unfold do_write_message. destruct (srv c && (negb (comp s) || negb (ewc s))).
  - destruct (prep_write c s t []) as [[s1 e]| |] eqn:E; cbn [bind]; try discriminate.
    apply prep_write_pc in E. cbn [fst] in E.
    destruct (negb (e =? 0)); [intros H; inversion H; subst; exact E|].
    destruct (splitN _ p). intros H. apply lift_mw_pc in H. exact (same_pc_trans _ _ _ E H).
  - destruct (do_next c s t []) as [[s1 e]| |] eqn:E; cbn [bind]; try discriminate.
    apply do_next_pc in E. cbn [fst] in E.
    destruct (negb (e =? 0)); [intros H; inversion H; subst; exact E|].
    destruct (do_write c s1 p wch) as [[s2 e2]| |] eqn:E2; cbn [bind]; try discriminate.
    apply do_write_pc in E2. cbn [fst] in E2.
    destruct (negb (e2 =? 0)); [intros H; inversion H; subst; exact (same_pc_trans _ _ _ E E2)|].
    intros H. apply do_close_pc in H. exact (same_pc_trans _ _ _ (same_pc_trans _ _ _ E E2) H).
Qed.

Lemma run_wrs_pc c : forall xs s x, run_wrs c s xs = Ok x -> same_pc s (fst x).
Proof.
  induction xs as [|w xs IH]; intros s x; cbn [run_wrs]; [intros H; inversion H; apply same_pc_refl|].
  destruct (run_wr c s w) as [y| |] eqn:E; cbn [bind]; try discriminate.
  assert (Hy : same_pc s (fst y)).
  { destruct w; cbn [run_wr] in E.
    - exact (do_write_pc _ _ _ _ _ E). - exact (do_write_string_pc _ _ _ _ _ E).
    - exact (do_read_from_pc _ _ _ _ _ _ _ E). - inversion E; subst. apply do_control_pc. }
  destruct (snd y =? 0); [|intros H; inversion H; subst; exact Hy].
  intros H. exact (same_pc_trans _ _ _ Hy (IH _ _ H)).
Qed.

Lemma run_item_pc c s it x : run_item c s it = Ok x -> same_pc s (fst x).
Proof.
  destruct it as [t ws|t p|t p]; cbn [run_item].
  - destruct (do_next c s t []) as [a| |] eqn:E; cbn [bind]; try discriminate.
    apply do_next_pc in E. destruct (snd a =? 0); [|intros H; inversion H; subst; exact E].
    destruct (run_wrs c (fst a) ws) as [b| |] eqn:E2; cbn [bind]; try discriminate.
    apply run_wrs_pc in E2. destruct (snd b =? 0); [|intros H; inversion H; subst; exact (same_pc_trans _ _ _ E E2)].
    intros H. apply do_close_pc in H. exact (same_pc_trans _ _ _ (same_pc_trans _ _ _ E E2) H).
  - apply do_write_message_pc.
  - intros H; inversion H; subst. apply do_control_pc.
Qed.

(* ---- scripts with prepared messages ---- *)
Inductive pitem := PI (it : item) | PP (idx : N).   (* PP idx: WritePreparedMessage(pms[idx]) *)

Section Scripts.
Variable c : cfg.
Variable pms : list (N * bytes).     (* the PreparedMessage values of the session: (type, data) *)
Hypothesis Hblen : 15 <= blen c < big.

Definition run_pitem (s : cst) (x : pitem) : res (cst * N) :=
  match x with
  | PI it => run_item c s it
  | PP idx => match nth_error pms (N.to_nat idx) with
              | Some (t, p) => do_prepared c s idx t p [] []
              | None => Ok (s, eNoHandle)
              end
  end.
Fixpoint run_pitems (s : cst) (xs : list pitem) : res (cst * N) :=
  match xs with
  | [] => Ok (s, eOK)
  | x :: r => let* y := run_pitem s x in if snd y =? 0 then run_pitems (fst y) r else Ok y
  end.
Definition pitem_ok (x : pitem) : Prop :=
  match x with
  | PI it => item_ok it
  | PP idx => exists t p, nth_error pms (N.to_nat idx) = Some (t, p) /\ data_type t /\ lenN p < big
  end.
Definition pitem_msgs (x : pitem) : list (N * bool * bytes) :=
  match x with
  | PI it => item_msgs it
  | PP idx => match nth_error pms (N.to_nat idx) with Some (t, p) => [(t, false, p)] | None => [] end
  end.

Definition cache_ok (cache : list ((N * bool * bool * Z) * bytes)) : Prop :=
  forall idx l v, pfind (idx, srv c, false, l) cache = Some v ->
  exists t p, nth_error pms (N.to_nat idx) = Some (t, p) /\ seg_ok (srv c) v [(t, false, p)].
Definition PSInv (s : cst) (ds : list fd) (dn : list (N * bool * bytes)) : Prop :=
  SInv c s ds dn /\ cache_ok (pcache s).

Lemma pkey_eqb_idx i s1 c1 l1 j s2 c2 l2 :
  pkey_eqb (i, s1, c1, l1) (j, s2, c2, l2) = true -> i = j.
Proof.
  unfold pkey_eqb. intros H. apply andb_prop in H. destruct H as [H _].
  apply andb_prop in H. destruct H as [H _]. apply andb_prop in H. destruct H as [H _].
  apply N.eqb_eq. exact H.
Qed.

Lemma run_pitem_ok s ds dn x : PSInv s ds dn -> pitem_ok x ->
  exists s' ds', run_pitem s x = Ok (s', eOK) /\ PSInv s' ds' (dn ++ pitem_msgs x).
Proof.
  intros [HS Hc] Hx. destruct x as [it|idx]; cbn [run_pitem pitem_ok pitem_msgs] in *.
  - destruct (run_item_ok c Hblen s ds dn it HS Hx) as (s' & ds' & Hrun & HS').
    exists s', ds'. split; [exact Hrun|]. split; [exact HS'|].
    pose proof (run_item_pc c s it _ Hrun) as [Hp _]. cbn [fst] in Hp. rewrite Hp. exact Hc.
  - destruct Hx as (t & p & Hnth & Ht & Hp). rewrite Hnth.
    destruct (pfind (idx, srv c, false, lvl s) (pcache s)) as [v|] eqn:Ef.
    + destruct (Hc idx (lvl s) v Ef) as (t' & p' & Hnth' & Hseg).
      rewrite Hnth in Hnth'. inversion Hnth'; subst t' p'.
      destruct (do_prepared_hit c s ds dn idx t p v HS Ht Ef Hseg) as (s' & ds' & Hrun & HS' & Hpc & _).
      exists s', ds'. split; [exact Hrun|]. split; [exact HS'|]. rewrite Hpc. exact Hc.
    + destruct (do_prepared_miss c s ds dn idx t p HS Ht Hp Ef) as (s' & ds' & v & Hrun & HS' & Hseg & Hpc & _).
      exists s', ds'. split; [exact Hrun|]. split; [exact HS'|]. rewrite Hpc.
      intros idx' l' v' Hf. cbn [pfind] in Hf.
      destruct (pkey_eqb (idx', srv c, false, l') (idx, srv c, false, lvl s)) eqn:Ek.
      * inversion Hf; subst v'. apply pkey_eqb_idx in Ek. subst idx'. exists t, p. split; assumption.
      * exact (Hc idx' l' v' Hf).
Qed.

Lemma run_pitems_ok : forall xs s ds dn, PSInv s ds dn -> Forall pitem_ok xs ->
  exists s' ds', run_pitems s xs = Ok (s', eOK) /\ PSInv s' ds' (dn ++ concat (map pitem_msgs xs)).
Proof.
  induction xs as [|x xs IH]; intros s ds dn HS Hxs.
  - exists s, ds. cbn. rewrite app_nil_r. auto.
  - inversion Hxs as [|? ? Hx Hxs']; subst.
    destruct (run_pitem_ok s ds dn x HS Hx) as (s1 & ds1 & Hrun & H1).
    destruct (IH s1 ds1 _ H1 Hxs') as (s' & ds' & Hrun' & H').
    exists s', ds'. cbn [run_pitems map concat]. rewrite Hrun. cbn [bind fst snd N.eqb]. rewrite Hrun'.
    rewrite app_assoc. auto.
Qed.

(* all write APIs, prepared messages and their cache included, on an uncompressed connection *)
Theorem wire_valid_scripts ks xs :
  Forall (fun k : bytes => length k = 4%nat) ks -> Forall pitem_ok xs ->
  exists s', run_pitems (init_cst false ks) xs = Ok (s', eOK) /\
  exists fs, rfc_parse (wire_of s') = Some fs /\ rfc_valid (srv c) false fs = true /\
             messages fs = Some (concat (map pitem_msgs xs)).
Proof.
  intros Hk Hxs.
  assert (H0 : PSInv (init_cst false ks) [] []).
  { split; [apply SInv_init; exact Hk|]. intros idx l v Hf. discriminate Hf. }
  destruct (run_pitems_ok xs _ [] [] H0 Hxs) as (s' & ds' & Hrun & [HS _]).
  exists s'. split; [exact Hrun|]. cbn [app] in HS. exact (SInv_final c s' ds' _ HS).
Qed.
End Scripts.

Example scripts_instance :
  let c := mkC false (16 + 14) in
  let pms := [(2, repeat 5 5000)] in
  let xs := [PP 0; PI (IWriteMessage 1 [104; 105]); PP 0] in
  Forall (pitem_ok pms) xs /\
  match run_pitems c pms (init_cst false [[1;2;3;4]; [5;6;7;8]; [9;9;9;9]]) xs with
  | Ok (s', e) => e = 0 /\ match rfc_parse (wire_of s') with
                           | Some fs => rfc_valid false false fs = true /\ length fs = 5%nat
                                        /\ option_map (@length _) (messages fs) = Some 3%nat
                           | None => False end
  | _ => False
  end.
Proof.
  cbn zeta. split.
  - assert (HP : pitem_ok [(2, repeat 5 5000)] (PP 0)).
    { exists 2, (repeat 5 5000). split; [reflexivity|]. split; [right; reflexivity|vm_compute; reflexivity]. }
    constructor; [exact HP|]. constructor; [|constructor; [exact HP|constructor]].
    cbn [pitem_ok item_ok]. split; [left; reflexivity|vm_compute; reflexivity].
  - vm_compute. repeat split; auto.
Qed.

(* WriteJSON: NextWriter(TextMessage), one Write of the encoder's output, Close.  encoding/json
   is an oracle: [enc] is what Encoder.Encode produced. *)
Lemma write_json_ok c s ds dn enc : 15 <= blen c < big -> SInv c s ds dn -> lenN enc < big ->
  exists s' ds', step_op c [] s (SL [SZ 7; SB enc; SL []; SL []]) = Ok (s', eOK)
                 /\ SInv c s' ds' (dn ++ [(1, false, enc)]).
Proof.
  intros Hb HS Hl. cbn [step_op sx_chunks].
  assert (Ht : data_type opText) by (left; reflexivity).
  destruct (do_next_ok c Hb s ds dn opText HS Ht) as (s1 & Hrun1 & H1).
  rewrite Hrun1. cbn [bind N.eqb negb].
  destruct (run_wr_ok c Hb opText s1 _ dn [] (WrWrite enc) H1 Ht Hl) as (s2 & g2 & Hrun2 & H2).
  cbn [run_wr] in Hrun2. rewrite Hrun2. cbn [bind fst snd].
  destruct (do_close_ok c Hb opText s2 g2 dn _ H2 Ht) as (s3 & ds3 & Hrun3 & H3).
  rewrite Hrun3. cbn [bind fst snd N.eqb negb drop_handle].
  eexists _, ds3. split; [reflexivity|].
  destruct H3 as (HC & Ho & Hcp). unfold SInv. cbn [mw st_h wopen comp]. auto.
Qed.
