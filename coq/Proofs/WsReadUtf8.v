(* Go's utf8.ValidString (table driven) accepts exactly the RFC 3629 strings. *)
From Verif Require Import Lib.Base Lib.Utf8.
Open Scope N_scope.

Ltac Zify.zify_post_hook ::= Z.div_mod_to_equations.

Ltac decide_cmpN :=
  repeat match goal with
  | |- context [(?a <=? ?b)] =>
    first [ replace (a <=? b) with true by (symmetry; apply N.leb_le; lia)
          | replace (a <=? b) with false by (symmetry; apply N.leb_gt; lia) ]
  | |- context [(?a <? ?b)] =>
    first [ replace (a <? b) with true by (symmetry; apply N.ltb_lt; lia)
          | replace (a <? b) with false by (symmetry; apply N.ltb_ge; lia) ]
  | |- context [(?a =? ?b)] =>
    first [ replace (a =? b) with true by (symmetry; apply N.eqb_eq; lia)
          | replace (a =? b) with false by (symmetry; apply N.eqb_neq; lia) ]
  end.

Lemma bool_eq_iff (a b : bool) : (a = true <-> b = true) -> a = b.
Proof.
  destruct a, b; intros [H1 H2]; try reflexivity; [symmetry; apply H1; reflexivity | apply H2; reflexivity].
Qed.

Ltac to_props :=
  repeat rewrite ?andb_true_iff, ?orb_true_iff, ?negb_true_iff, ?andb_false_iff, ?orb_false_iff,
                 ?N.leb_le, ?N.ltb_lt, ?N.eqb_eq, ?N.leb_gt, ?N.ltb_ge, ?N.eqb_neq in *.

Lemma cont_range c : c < 256 -> in_range locb hicb c = is_cont c.
Proof.
  intros H. unfold in_range, is_cont, locb, hicb. apply bool_eq_iff. to_props. lia.
Qed.

Lemma head2 b0 c1 : 194 <= b0 < 224 -> c1 < 256 ->
  in_range locb hicb c1 = is_cont c1 && scalar_ok 128 ((b0 mod 32) * 64 + cont_bits c1).
Proof.
  intros H0 H1. unfold in_range, is_cont, scalar_ok, cont_bits, locb, hicb. apply bool_eq_iff. to_props. lia.
Qed.

Lemma head3 b0 lo hi c1 c2 : c1 < 256 -> c2 < 256 ->
  (b0 = 224 /\ lo = 160 /\ hi = 191) \/ (225 <= b0 < 237 /\ lo = 128 /\ hi = 191) \/
  (b0 = 237 /\ lo = 128 /\ hi = 159) \/ (238 <= b0 < 240 /\ lo = 128 /\ hi = 191) ->
  in_range lo hi c1 && in_range locb hicb c2 =
  is_cont c1 && is_cont c2 && scalar_ok 2048 ((b0 mod 16) * 4096 + cont_bits c1 * 64 + cont_bits c2).
Proof.
  intros H1 H2 H. unfold in_range, is_cont, scalar_ok, cont_bits, locb, hicb. apply bool_eq_iff.
  destruct H as [(-> & -> & ->)|[(H & -> & ->)|[(-> & -> & ->)|(H & -> & ->)]]]; to_props; lia.
Qed.

Lemma head4 b0 lo hi c1 c2 c3 : c1 < 256 -> c2 < 256 -> c3 < 256 ->
  (b0 = 240 /\ lo = 144 /\ hi = 191) \/ (241 <= b0 < 244 /\ lo = 128 /\ hi = 191) \/
  (b0 = 244 /\ lo = 128 /\ hi = 143) ->
  in_range lo hi c1 && in_range locb hicb c2 && in_range locb hicb c3 =
  is_cont c1 && is_cont c2 && is_cont c3 &&
  scalar_ok 65536 ((b0 mod 8) * 262144 + cont_bits c1 * 4096 + cont_bits c2 * 64 + cont_bits c3).
Proof.
  intros H1 H2 H3 H. unfold in_range, is_cont, scalar_ok, cont_bits, locb, hicb. apply bool_eq_iff.
  destruct H as [(-> & -> & ->)|[(H & -> & ->)|(-> & -> & ->)]]; to_props; lia.
Qed.

Lemma utf8_valid_spec_n n : forall s, (length s <= n)%nat -> wf_bytes s -> utf8_valid s = utf8_spec s.
Proof.
  induction n as [|n IH]; intros s Hn Hwf.
  { destruct s; [reflexivity|cbn in Hn; lia]. }
  destruct s as [|b0 t]; [reflexivity|].
  inversion Hwf as [|? ? Hb0 Hwt]; subst. unfold wf_byte in Hb0. cbn [length] in Hn.
  cbn [utf8_valid utf8_spec].
  assert (Hc0 : b0 < 128 \/ 128 <= b0 < 194 \/ 194 <= b0 < 224 \/ b0 = 224 \/ 225 <= b0 < 237 \/ b0 = 237 \/
               238 <= b0 < 240 \/ b0 = 240 \/ 241 <= b0 < 244 \/ b0 = 244 \/ 245 <= b0) by lia.
  assert (Hc : b0 < 128 \/ 128 <= b0 < 194 \/ 194 <= b0 < 224 \/ 224 <= b0 <= 224 \/ 225 <= b0 < 237 \/ 237 <= b0 <= 237 \/
               238 <= b0 < 240 \/ 240 <= b0 <= 240 \/ 241 <= b0 < 244 \/ 244 <= b0 <= 244 \/ 245 <= b0) by lia.
  clear Hc0.
  destruct Hc as [Hc|[Hc|[Hc|[Hc|[Hc|[Hc|[Hc|[Hc|[Hc|[Hc|Hc]]]]]]]]]].
  - (* ASCII *) decide_cmpN. apply IH; [lia|exact Hwt].
  - (* 80..C1 *)
    unfold go_first. decide_cmpN.
    destruct (N.eqb_spec (b0 / 32) 6) as [E|E]; [|reflexivity].
    destruct t as [|c1 t']; [reflexivity|]. inversion Hwt as [|? ? Hc1 ?]; subst. unfold wf_byte in Hc1.
    replace (scalar_ok 128 (b0 mod 32 * 64 + cont_bits c1)) with false; [destruct (is_cont c1); reflexivity|].
    symmetry. unfold scalar_ok, cont_bits. to_props. lia.
  - (* C2..DF *)
    unfold go_first. decide_cmpN. cbn [N.eqb Pos.eqb].
    destruct t as [|c1 t']; [reflexivity|]. inversion Hwt as [|? ? Hc1 Hwt']; subst. unfold wf_byte in Hc1.
    rewrite (head2 b0 c1) by lia. rewrite (IH t') by (cbn [length] in Hn; auto; lia). reflexivity.
  - unfold go_first. decide_cmpN. cbn [N.eqb Pos.eqb].
    destruct t as [|c1 [|c2 t']]; try reflexivity.
    inversion Hwt as [|? ? Hc1 Hwt1]; subst. inversion Hwt1 as [|? ? Hc2 Hwt']; subst. unfold wf_byte in Hc1, Hc2.
    rewrite (IH t') by (cbn [length] in Hn; auto; lia).
    rewrite (head3 b0 160 hicb c1 c2) by (unfold locb, hicb; lia). reflexivity.
  - unfold go_first. decide_cmpN. cbn [N.eqb Pos.eqb].
    destruct t as [|c1 [|c2 t']]; try reflexivity.
    inversion Hwt as [|? ? Hc1 Hwt1]; subst. inversion Hwt1 as [|? ? Hc2 Hwt']; subst. unfold wf_byte in Hc1, Hc2.
    rewrite (IH t') by (cbn [length] in Hn; auto; lia).
    rewrite (head3 b0 locb hicb c1 c2) by (unfold locb, hicb; lia). reflexivity.
  - unfold go_first. decide_cmpN. cbn [N.eqb Pos.eqb].
    destruct t as [|c1 [|c2 t']]; try reflexivity.
    inversion Hwt as [|? ? Hc1 Hwt1]; subst. inversion Hwt1 as [|? ? Hc2 Hwt']; subst. unfold wf_byte in Hc1, Hc2.
    rewrite (IH t') by (cbn [length] in Hn; auto; lia).
    rewrite (head3 b0 locb 159 c1 c2) by (unfold locb, hicb; lia). reflexivity.
  - unfold go_first. decide_cmpN. cbn [N.eqb Pos.eqb].
    destruct t as [|c1 [|c2 t']]; try reflexivity.
    inversion Hwt as [|? ? Hc1 Hwt1]; subst. inversion Hwt1 as [|? ? Hc2 Hwt']; subst. unfold wf_byte in Hc1, Hc2.
    rewrite (IH t') by (cbn [length] in Hn; auto; lia).
    rewrite (head3 b0 locb hicb c1 c2) by (unfold locb, hicb; lia). reflexivity.
  - unfold go_first. decide_cmpN. cbn [N.eqb Pos.eqb].
    destruct t as [|c1 [|c2 [|c3 t']]]; try reflexivity.
    inversion Hwt as [|? ? Hc1 Hwt1]; subst. inversion Hwt1 as [|? ? Hc2 Hwt2]; subst.
    inversion Hwt2 as [|? ? Hc3 Hwt']; subst. unfold wf_byte in Hc1, Hc2, Hc3.
    rewrite (IH t') by (cbn [length] in Hn; auto; lia).
    rewrite (head4 b0 144 hicb c1 c2 c3) by (unfold locb, hicb; lia). reflexivity.
  - unfold go_first. decide_cmpN. cbn [N.eqb Pos.eqb].
    destruct t as [|c1 [|c2 [|c3 t']]]; try reflexivity.
    inversion Hwt as [|? ? Hc1 Hwt1]; subst. inversion Hwt1 as [|? ? Hc2 Hwt2]; subst.
    inversion Hwt2 as [|? ? Hc3 Hwt']; subst. unfold wf_byte in Hc1, Hc2, Hc3.
    rewrite (IH t') by (cbn [length] in Hn; auto; lia).
    rewrite (head4 b0 locb hicb c1 c2 c3) by (unfold locb, hicb; lia). reflexivity.
  - unfold go_first. decide_cmpN. cbn [N.eqb Pos.eqb].
    destruct t as [|c1 [|c2 [|c3 t']]]; try reflexivity.
    inversion Hwt as [|? ? Hc1 Hwt1]; subst. inversion Hwt1 as [|? ? Hc2 Hwt2]; subst.
    inversion Hwt2 as [|? ? Hc3 Hwt']; subst. unfold wf_byte in Hc1, Hc2, Hc3.
    rewrite (IH t') by (cbn [length] in Hn; auto; lia).
    rewrite (head4 b0 locb 143 c1 c2 c3) by (unfold locb, hicb; lia). reflexivity.
  - (* F5..FF *)
    unfold go_first. decide_cmpN.
    destruct (N.eqb_spec (b0 / 8) 30) as [E|E]; [|reflexivity].
    destruct t as [|c1 [|c2 [|c3 t']]]; try reflexivity.
    inversion Hwt as [|? ? Hc1 Hwt1]; subst. inversion Hwt1 as [|? ? Hc2 Hwt2]; subst.
    inversion Hwt2 as [|? ? Hc3 Hwt']; subst. unfold wf_byte in Hc1, Hc2, Hc3.
    replace (scalar_ok 65536 (b0 mod 8 * 262144 + cont_bits c1 * 4096 + cont_bits c2 * 64 + cont_bits c3)) with false;
      [destruct (is_cont c1), (is_cont c2), (is_cont c3); reflexivity|].
    symmetry. unfold scalar_ok, cont_bits. to_props. lia.
Qed.

(* Go's ValidString = RFC 3629, for every byte string *)
Theorem utf8_valid_spec s : wf_bytes s -> utf8_valid s = utf8_spec s.
Proof. apply (utf8_valid_spec_n (length s)). lia. Qed.

(* non-vacuity: both accept U+10FFFF and reject a surrogate, an overlong NUL and U+110000 *)
Example utf8_examples :
  utf8_spec [244; 143; 191; 191] = true /\ utf8_spec [237; 160; 128] = false /\
  utf8_spec [192; 128] = false /\ utf8_spec [244; 144; 128; 128] = false /\
  utf8_valid [244; 143; 191; 191] = true /\ utf8_valid [237; 160; 128] = false.
Proof. vm_compute. repeat split. Qed.
