(* The Go loops of KeyWrap / KeyUnwrap (one index-based step per t, block r[t%n] updated in place)
   are the six-pass formulation used in Proofs/JoseWrap.v -- as a theorem. *)
From Verif Require Import Lib.Base Lib.Sx Model.Jose Proofs.Jose Proofs.JoseCompact Proofs.JoseCipher Proofs.JoseWrap.
Open Scope N_scope.

Lemma nth_error_mid {A} (done : list A) x rest : nth_error (done ++ x :: rest) (length done) = Some x.
Proof. induction done as [|d done IH]; cbn; auto. Qed.

Lemma set_blk_mid done x rest v : set_blk (done ++ x :: rest) (length done) v = done ++ v :: rest.
Proof. induction done as [|d done IH]; cbn [app length set_blk]; [reflexivity|]. rewrite IH. reflexivity. Qed.

(* (q*n + d) mod n = d for d < n *)
Lemma mod_base q n d : d < n -> (q * n + d) mod n = d.
Proof. intro H. rewrite N.add_comm, N.mod_add by lia. apply N.mod_small. exact H. Qed.

Lemma wrap_pass_length E r : forall a t, length (snd (wrap_pass E a t r)) = length r.
Proof.
  induction r as [|ri r IH]; intros a t; [reflexivity|]. cbn [wrap_pass].
  specialize (IH (xor_bytes (first8 (E (a ++ ri))) (be8 (u64 (t + 1)))) (t + 1)).
  destruct (wrap_pass E _ (t + 1) r) as [[a2 t2] r2]. cbn [snd length] in *. lia.
Qed.

(* the steps of one pass over the not yet processed suffix [todo] of r = done ++ todo, when t is
   q*n + |done| (so t mod n = |done|) *)
Lemma wrap_loop_pass E n q : forall todo done a more,
  N.of_nat (length done + length todo) = n ->
  wrap_loop E n (length todo + more) (q * n + N.of_nat (length done)) a (done ++ todo) =
  let '(a2, t2, todo') := wrap_pass E a (q * n + N.of_nat (length done)) todo in
  wrap_loop E n more t2 a2 (done ++ todo').
Proof.
  induction todo as [|ri todo IH]; intros done a more Hn.
  - cbn [length wrap_pass Nat.add]. reflexivity.
  - cbn [length Nat.add wrap_loop wrap_pass].
    rewrite mod_base by (cbn [length] in Hn; lia). rewrite Nat2N.id.
    rewrite nth_error_mid, set_blk_mid.
    set (b := E (a ++ ri)). set (a' := xor_bytes (first8 b) (be8 (u64 (q * n + N.of_nat (length done) + 1)))).
    specialize (IH (done ++ [rest8 b]) a' more).
    rewrite app_length in IH. cbn [length] in IH, Hn.
    replace (q * n + N.of_nat (length done + 1)) with (q * n + N.of_nat (length done) + 1) in IH by lia.
    rewrite <- app_assoc in IH. cbn [app] in IH. rewrite IH by lia.
    destruct (wrap_pass E a' (q * n + N.of_nat (length done) + 1) todo) as [[a2 t2] todo'].
    rewrite <- app_assoc. reflexivity.
Qed.

Lemma wrap_pass_t E r : forall a t, snd (fst (wrap_pass E a t r)) = t + N.of_nat (length r).
Proof.
  induction r as [|ri r IH]; intros a t; [cbn; lia|]. cbn [wrap_pass].
  specialize (IH (xor_bytes (first8 (E (a ++ ri))) (be8 (u64 (t + 1)))) (t + 1)).
  destruct (wrap_pass E _ (t + 1) r) as [[a2 t2] r2]. cbn [fst snd length] in *. lia.
Qed.

(* k passes = k*n steps *)
Lemma wrap_loop_passes E k : forall q a r,
  wrap_loop E (N.of_nat (length r)) (k * length r) (q * N.of_nat (length r)) a r =
  let '(a2, _, r2) := wrap_passes E k a (q * N.of_nat (length r)) r in Ok (a2, r2).
Proof.
  induction k as [|k IH]; intros q a r.
  - reflexivity.
  - cbn [Nat.mul wrap_passes].
    pose proof (wrap_loop_pass E (N.of_nat (length r)) q r [] a (k * length r)) as P.
    cbn [app length Nat.add] in P. rewrite N.add_0_r in P. rewrite P by reflexivity.
    pose proof (wrap_pass_length E r a (q * N.of_nat (length r))) as L.
    pose proof (wrap_pass_t E r a (q * N.of_nat (length r))) as T.
    destruct (wrap_pass E a (q * N.of_nat (length r)) r) as [[a2 t2] r2]. cbn [fst snd] in L, T.
    replace t2 with ((q + 1) * N.of_nat (length r2)) by (rewrite L; lia).
    rewrite <- L. apply IH.
Qed.

Lemma chunks8_length_div cek : lenN cek mod 8 = 0 -> N.of_nat (length (chunks8 (length cek) cek)) = lenN cek / 8.
Proof.
  intro Hm. set (m := (length cek / 8)%nat).
  assert (Lc : length cek = (8 * m)%nat).
  { rewrite lenN_length in Hm. unfold m.
    assert (Hn : (length cek mod 8 = 0)%nat) by (apply Nat2N.inj; rewrite Nat2N.inj_mod; exact Hm).
    pose proof (Nat.div_mod (length cek) 8 ltac:(lia)). lia. }
  destruct (chunks8_spec m cek (length cek) Lc) as (_ & _ & Ln); [lia|].
  rewrite Ln, lenN_length, Lc. replace (N.of_nat (8 * m)) with (N.of_nat m * 8) by lia.
  rewrite N.div_mul by lia. reflexivity.
Qed.

(* KeyWrap as written (index-based loop) = the six-pass formulation, for every block function,
   every initial value and every input *)
Theorem key_wrap_loop_eq E iv cek : key_wrap_loop_iv E iv cek = key_wrap_iv E iv cek.
Proof.
  unfold key_wrap_loop_iv, key_wrap_iv. cbn zeta.
  destruct (N.eqb_spec (lenN cek mod 8) 0) as [Hm|]; cbn [negb]; [|reflexivity].
  pose proof (chunks8_length_div cek Hm) as Ln.
  set (r := chunks8 (length cek) cek) in *.
  pose proof (wrap_loop_passes E 6 0 iv r) as P. rewrite N.mul_0_l in P.
  rewrite <- Ln. replace (N.to_nat (6 * N.of_nat (length r))) with (6 * length r)%nat by lia.
  rewrite P. destruct (wrap_passes E 6 iv 0 r) as [[a2 t2] r2]. reflexivity.
Qed.

(* ------------------------------------------------------------------ unwrap *)
Lemma unwrap_pass_length D : forall rrev a t acc, length (snd (unwrap_pass D a t rrev acc)) = (length rrev + length acc)%nat.
Proof.
  induction rrev as [|ri rrev IH]; intros a t acc; [reflexivity|]. cbn [unwrap_pass].
  rewrite IH. cbn [length]. lia.
Qed.
Lemma unwrap_pass_t D : forall rrev a t acc, N.of_nat (length rrev) <= t ->
  snd (fst (unwrap_pass D a t rrev acc)) = t - N.of_nat (length rrev).
Proof.
  induction rrev as [|ri rrev IH]; intros a t acc H; [cbn; lia|]. cbn [unwrap_pass].
  cbn [length] in H. rewrite IH by lia. cbn [length]. lia.
Qed.

(* the steps of one backward pass over the not yet processed prefix [todo] of r = todo ++ done,
   when t1 = q*n + |todo| *)
Lemma unwrap_loop_pass D n q : forall todo done a more,
  N.of_nat (length todo + length done) = n ->
  unwrap_loop D n (length todo + more) (q * n + N.of_nat (length todo)) a (todo ++ done) =
  let '(a2, t2, acc) := unwrap_pass D a (q * n + N.of_nat (length todo)) (rev todo) done in
  unwrap_loop D n more t2 a2 acc.
Proof.
  induction todo as [|ri todo IH] using rev_ind; intros done a more Hn.
  - cbn [length rev unwrap_pass Nat.add app]. reflexivity.
  - rewrite rev_app_distr. cbn [rev app]. rewrite app_length in *. cbn [length] in *.
    replace (length todo + 1 + more)%nat with (S (length todo + more)) by lia.
    cbn [unwrap_loop unwrap_pass].
    replace (q * n + N.of_nat (length todo + 1) - 1) with (q * n + N.of_nat (length todo)) by lia.
    rewrite mod_base by lia. rewrite Nat2N.id.
    rewrite <- app_assoc. cbn [app]. rewrite nth_error_mid, set_blk_mid.
    set (b := D (xor_bytes a (be8 (u64 (q * n + N.of_nat (length todo + 1)))) ++ ri)).
    apply (IH (rest8 b :: done) (first8 b) more). cbn [length]. lia.
Qed.

Lemma unwrap_loop_passes D k : forall a r,
  unwrap_loop D (N.of_nat (length r)) (k * length r) (N.of_nat k * N.of_nat (length r)) a r =
  let '(a2, _, r2) := unwrap_passes D k a (N.of_nat k * N.of_nat (length r)) r in Ok (a2, r2).
Proof.
  induction k as [|k IH]; intros a r.
  - reflexivity.
  - cbn [Nat.mul unwrap_passes].
    pose proof (unwrap_loop_pass D (N.of_nat (length r)) (N.of_nat k) r [] a (k * length r)) as P.
    rewrite app_nil_r in P. cbn [length] in P.
    replace (N.of_nat (S k) * N.of_nat (length r)) with (N.of_nat k * N.of_nat (length r) + N.of_nat (length r)) by lia.
    rewrite P by (f_equal; lia).
    pose proof (unwrap_pass_length D (rev r) a (N.of_nat k * N.of_nat (length r) + N.of_nat (length r)) []) as L.
    pose proof (unwrap_pass_t D (rev r) a (N.of_nat k * N.of_nat (length r) + N.of_nat (length r)) []) as T.
    rewrite rev_length in L, T. cbn [length] in L.
    destruct (unwrap_pass D a _ (rev r) []) as [[a2 t2] r2]. cbn [fst snd] in L, T.
    rewrite T by lia.
    replace (N.of_nat k * N.of_nat (length r) + N.of_nat (length r) - N.of_nat (length r)) with (N.of_nat k * N.of_nat (length r2))
      by (rewrite L; lia).
    replace (length r) with (length r2) by lia. apply IH.
Qed.

Lemma chunks8_length_rest ct : lenN ct mod 8 = 0 -> 8 <= lenN ct ->
  N.of_nat (length (chunks8 (length ct) (rest8 ct))) = lenN ct / 8 - 1.
Proof.
  intros Hm Hl. set (m := (length ct / 8 - 1)%nat).
  assert (Lc : length ct = (8 * (m + 1))%nat).
  { rewrite lenN_length in Hm, Hl. unfold m.
    assert (Hn : (length ct mod 8 = 0)%nat) by (apply Nat2N.inj; rewrite Nat2N.inj_mod; exact Hm).
    pose proof (Nat.div_mod (length ct) 8 ltac:(lia)). lia. }
  assert (Lr : length (rest8 ct) = (8 * m)%nat) by (unfold rest8; rewrite skipn_length; lia).
  destruct (chunks8_spec m (rest8 ct) (length ct) Lr) as (_ & _ & Ln); [lia|].
  rewrite Ln, lenN_length, Lc. replace (N.of_nat (8 * (m + 1))) with ((N.of_nat m + 1) * 8) by lia.
  rewrite N.div_mul by lia. lia.
Qed.

(* KeyUnwrap as written = the six-pass formulation *)
Theorem key_unwrap_loop_eq minlen D ct : key_unwrap_loop_g minlen D ct = key_unwrap_g minlen D ct.
Proof.
  unfold key_unwrap_loop_g, key_unwrap_g. cbn zeta.
  destruct (N.eqb_spec (lenN ct mod 8) 0) as [Hm|]; cbn [negb]; [|reflexivity].
  destruct (lenN ct <? minlen); [reflexivity|].
  destruct (N.eqb_spec (lenN ct) 0) as [|NZ]; [reflexivity|].
  assert (Hl : 8 <= lenN ct).
  { destruct (N.lt_ge_cases (lenN ct) 8) as [Hlt|]; [|assumption].
    rewrite N.mod_small in Hm by exact Hlt. contradiction. }
  pose proof (chunks8_length_rest ct Hm Hl) as Ln.
  set (r := chunks8 (length ct) (rest8 ct)) in *.
  pose proof (unwrap_loop_passes D 6 (first8 ct) r) as P.
  rewrite <- Ln. replace (N.to_nat (6 * N.of_nat (length r))) with (6 * length r)%nat by lia.
  change (N.of_nat 6) with 6 in P. rewrite P.
  destruct (unwrap_passes D 6 (first8 ct) (6 * N.of_nat (length r)) r) as [[a2 t2] r2]. reflexivity.
Qed.
