(* Lemmas about Lib/GoSem.v: the checked accessor used by the generated function bodies panics
   exactly when a Go index expression would (index < 0 or >= len), the fixed-width wraps stay in
   range and are the identity in range. *)
From Verif Require Import Lib.Base Lib.GoSem.
Open Scope Z_scope.

Lemma len_Z_acc_spec : forall l acc, len_Z_acc acc l = acc + Z.of_nat (length l).
Proof.
  induction l as [|x l IH]; intros acc; cbn [len_Z_acc length].
  - lia.
  - rewrite IH. lia.
Qed.

Lemma len_Z_length l : len_Z l = Z.of_nat (length l).
Proof. unfold len_Z. rewrite len_Z_acc_spec. lia. Qed.

Lemma nth_pos_spec : forall l p, nth_pos l p = nth_error l (Pos.to_nat p - 1).
Proof.
  induction l as [|x l IH]; intros p.
  - cbn. destruct (Pos.to_nat p - 1)%nat; reflexivity.
  - cbn [nth_pos]. destruct (Pos.eq_dec p 1) as [->|Hp].
    + reflexivity.
    + assert (E : nth_pos l (Pos.pred p) = nth_error (x :: l) (Pos.to_nat p - 1)).
      { rewrite IH. replace (Pos.to_nat p - 1)%nat with (S (Pos.to_nat (Pos.pred p) - 1)) by lia. reflexivity. }
      destruct p; try exact E. congruence.
Qed.

Lemma nth_chk_nth_error l i : 0 <= i -> nth_chk l i = match nth_error l (Z.to_nat i) with Some x => Ok x | None => Panic site_index end.
Proof.
  intros Hi. destruct i as [|p|p]; [| |lia].
  - destruct l; reflexivity.
  - cbn [nth_chk]. rewrite nth_pos_spec. replace (Pos.to_nat (Pos.succ p) - 1)%nat with (Z.to_nat (Z.pos p)) by lia.
    reflexivity.
Qed.

(* in range: the element; out of range: the run-time panic -- exactly Go's rule *)
Theorem nth_chk_in_range l i : 0 <= i < len_Z l -> exists x, nth_chk l i = Ok x /\ nth_error l (Z.to_nat i) = Some x.
Proof.
  rewrite len_Z_length. intros Hi. rewrite nth_chk_nth_error by lia.
  destruct (nth_error l (Z.to_nat i)) as [x|] eqn:E.
  - exists x. split; reflexivity.
  - apply nth_error_None in E. lia.
Qed.

Theorem nth_chk_panics_iff l i : nth_chk l i = Panic site_index <-> (i < 0 \/ len_Z l <= i).
Proof.
  rewrite len_Z_length. split.
  - intros H. destruct (Z_lt_dec i 0) as [|Hn]; [left; assumption|right].
    rewrite nth_chk_nth_error in H by lia.
    destruct (nth_error l (Z.to_nat i)) eqn:E; [discriminate|]. apply nth_error_None in E. lia.
  - intros [Hneg|Hbig].
    + destruct i; try lia. reflexivity.
    + destruct (Z_lt_dec i 0) as [Hn|Hn]; [destruct i; try lia; reflexivity|].
      rewrite nth_chk_nth_error by lia.
      destruct (nth_error l (Z.to_nat i)) eqn:E; [|reflexivity].
      assert (nth_error l (Z.to_nat i) <> None) by congruence. apply nth_error_Some in H. lia.
Qed.

Theorem wrap_u_range w x : 0 <= w -> 0 <= wrap_u w x < 2 ^ w.
Proof. intros Hw. unfold wrap_u. apply Z.mod_pos_bound. apply Z.pow_pos_nonneg; lia. Qed.

Theorem wrap_u_id w x : 0 <= x < 2 ^ w -> wrap_u w x = x.
Proof. intros H. unfold wrap_u. apply Z.mod_small. exact H. Qed.

Theorem wrap_s_range w x : 1 <= w -> - 2 ^ (w - 1) <= wrap_s w x < 2 ^ (w - 1).
Proof.
  intros Hw. unfold wrap_s.
  assert (P : 0 < 2 ^ (w - 1)) by (apply Z.pow_pos_nonneg; lia).
  assert (E : 2 ^ w = 2 * 2 ^ (w - 1)) by (replace w with (Z.succ (w - 1)) at 1 by lia; apply Z.pow_succ_r; lia).
  pose proof (Z.mod_pos_bound (x + 2 ^ (w - 1)) (2 ^ w)) as B. lia.
Qed.

Theorem wrap_s_id w x : 1 <= w -> - 2 ^ (w - 1) <= x < 2 ^ (w - 1) -> wrap_s w x = x.
Proof.
  intros Hw H. unfold wrap_s.
  assert (E : 2 ^ w = 2 * 2 ^ (w - 1)) by (replace w with (Z.succ (w - 1)) at 1 by lia; apply Z.pow_succ_r; lia).
  rewrite Z.mod_small by lia. lia.
Qed.

Theorem map_bool_absent m k : (forall b, ~ In (k, b) m) -> map_bool m k = false.
Proof.
  induction m as [|[k' b] m IH]; intros H; [reflexivity|].
  cbn [map_bool]. destruct (Z.eqb_spec k k') as [->|Hne].
  - exfalso. apply (H b). left. reflexivity.
  - apply IH. intros b' Hin. apply (H b'). right. exact Hin.
Qed.
