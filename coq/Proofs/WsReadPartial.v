(* C14 proofs, part 7: partial application reads inside a frame (readMaskPos), and the limit
   accounting around an abandoned message. *)
From Verif Require Import Lib.Base Lib.Sx Lib.Utf8 Model.WsRead Proofs.WsReadUtf8 Proofs.WsRead.
From Verif Require Import Gen.Gen_websocket.
Open Scope Z_scope.

Ltac Zify.zify_post_hook ::= Z.div_mod_to_equations.

Lemma take_upto_spec b : forall n acc,
  take_upto n b acc = (rev acc ++ firstn (N.to_nat n) b, skipn (N.to_nat n) b).
Proof.
  induction b as [|x t IH]; intros n acc; cbn [take_upto].
  - destruct (N.eqb_spec n 0) as [->|Hn]; rewrite rev'_rev.
    + cbn. rewrite app_nil_r. reflexivity.
    + rewrite firstn_nil, skipn_nil, app_nil_r. reflexivity.
  - destruct (N.eqb_spec n 0) as [->|Hn].
    + rewrite rev'_rev. cbn. rewrite app_nil_r. reflexivity.
    + rewrite IH. replace (N.to_nat n) with (S (N.to_nat (N.pred n))) by lia. cbn [firstn skipn rev].
      rewrite <- app_assoc. reflexivity.
Qed.

(* the mask position only matters modulo 4 *)
Lemma land3_mod a : N.land a 3 = (a mod 4)%N.
Proof. change 3%N with (N.ones 2). rewrite N.land_ones. reflexivity. Qed.

Lemma mask_bytes_mod key p : forall pos pos', (pos mod 4 = pos' mod 4)%N -> mask_bytes key pos p = mask_bytes key pos' p.
Proof.
  induction p as [|x t IH]; intros pos pos' H; cbn [mask_bytes]; [reflexivity|].
  rewrite !land3_mod, H. f_equal. apply IH. rewrite <- !N.add_1_r.
  rewrite (N.add_mod pos 1 4), (N.add_mod pos' 1 4), H by lia. reflexivity.
Qed.

Lemma mask_bytes_app key a : forall b pos,
  mask_bytes key pos (a ++ b) = mask_bytes key pos a ++ mask_bytes key (pos + N.of_nat (length a)) b.
Proof.
  induction a as [|x t IH]; intros b pos; cbn [app mask_bytes length].
  - rewrite N.add_0_r. reflexivity.
  - rewrite IH. cbn [app]. f_equal. f_equal. f_equal. lia.
Qed.

(* Read calls that fall inside the current frame: sizes [wants], one chunk per call *)
Fixpoint in_frame (fixed : bool) (wants : list N) (s : rd) (acc : list bytes) : rd * list bytes :=
  match wants with
  | [] => (s, acc)
  | w :: t =>
    if 0 <? c_rem (rc s) then
      match mr_read 1 fixed w s with
      | Ok (s', chunk, None) => in_frame fixed t s' (chunk :: acc)
      | _ => (s, acc)
      end
    else (s, acc)
  end.

Definition unmasked (c : conn) (pos : N) (p : bytes) : bytes :=
  if c_server c then mask_bytes (c_key c) pos p else p.

Lemma in_frame_inv fixed : forall wants s payload rest acc s' acc',
  c_err (rc s) = None -> c_rem (rc s) = Z.of_nat (length payload) -> c_in (rc s) = payload ++ rest ->
  in_frame fixed wants s acc = (s', acc') -> c_rem (rc s') = 0 ->
  concat (rev acc') = concat (rev acc) ++ unmasked (rc s) (rpos s) payload /\ c_in (rc s') = rest /\
  c_err (rc s') = None.
Proof.
  induction wants as [|w t IH]; intros s payload rest acc s' acc' He Hr Hi H H0.
  - cbn in H. inversion H; subst. rewrite Hr in H0. destruct payload; [|cbn in H0; lia].
    unfold unmasked. destruct (c_server (rc s')); cbn; rewrite app_nil_r; auto.
  - cbn [in_frame] in H. destruct (Z.ltb_spec 0 (c_rem (rc s))) as [Hpos|Hpos].
    2:{ inversion H; subst. rewrite Hr in Hpos. destruct payload; [|cbn in Hpos; lia].
        unfold unmasked. destruct (c_server (rc s')); cbn; rewrite app_nil_r; auto. }
    cbn [mr_read] in H. rewrite He in H. replace (0 <? c_rem (rc s)) with true in H by (symmetry; apply Z.ltb_lt; exact Hpos).
    destruct (N.eqb_spec (N.min w (Z.to_N (c_rem (rc s)))) 0) as [En|En].
    + (* Read(b) with len(b) = 0: an empty chunk, nothing moves *)
      destruct (IH s payload rest ([] :: acc) s' acc' He Hr Hi H H0) as (A & B & C).
      split; [|auto]. rewrite A. cbn [rev]. rewrite concat_app. cbn. rewrite !app_nil_r. reflexivity.
    + assert (Hne : payload <> []) by (intros ->; cbn in Hr; lia).
      set (n := N.min w (Z.to_N (c_rem (rc s)))) in *.
      destruct (c_in (rc s)) as [|i0 il] eqn:Ein.
      { destruct payload; [contradiction|discriminate]. }
      rewrite Hi in H.
      rewrite take_upto_spec in H. cbn [rev app] in H.
      assert (Hn : (N.to_nat n <= length payload)%nat) by (unfold n; lia).
      rewrite firstn_app, skipn_app in H.
      replace (N.to_nat n - length payload)%nat with 0%nat in H by lia. cbn [firstn skipn] in H. rewrite app_nil_r in H.
      set (a := firstn (N.to_nat n) payload) in *. set (b := skipn (N.to_nat n) payload) in *.
      assert (Hab : payload = a ++ b) by (symmetry; apply firstn_skipn).
      assert (La : length a = N.to_nat n) by (unfold a; rewrite firstn_length; lia).
      match type of H with in_frame _ _ ?S1 _ = _ => set (s1 := S1) in * end.
      assert (He1 : c_err (rc s1) = None) by exact He.
      assert (Hr1 : c_rem (rc s1) = Z.of_nat (length b)).
      { unfold s1. cbn. rewrite Hr, lenN_length. rewrite Hab at 1. rewrite app_length. lia. }
      assert (Hi1 : c_in (rc s1) = b ++ rest) by reflexivity.
      destruct (IH s1 b rest _ s' acc' He1 Hr1 Hi1 H H0) as (A & B & C).
      * split; [|auto]. rewrite A. cbn [rev]. rewrite concat_app. cbn [concat]. rewrite app_nil_r, <- app_assoc. f_equal.
        unfold unmasked, s1. cbn [rc rpos c_server c_key set_rem set_in].
        destruct (c_server (rc s)); [|symmetry; exact Hab].
        replace (mask_bytes (c_key (rc s)) (rpos s) payload) with (mask_bytes (c_key (rc s)) (rpos s) (a ++ b)) by (rewrite <- Hab; reflexivity).
        rewrite mask_bytes_app. f_equal.
        apply mask_bytes_mod. rewrite land3_mod, lenN_length, N.mod_mod by lia. reflexivity.
Qed.

(* Inside a frame whose payload is wholly present: whatever the buffer sizes of the successive Read
   calls (0 and 1 included), once the frame is exhausted the chunks returned, concatenated, are the
   payload, unmasked from the position the frame's reading started at (0 at a frame start), and
   the stream is positioned right after the frame. *)
Theorem partial_reads_frame fixed wants s payload rest s' chunks :
  c_err (rc s) = None -> c_rem (rc s) = Z.of_nat (length payload) -> c_in (rc s) = payload ++ rest ->
  in_frame fixed wants s [] = (s', chunks) -> c_rem (rc s') = 0 ->
  concat (rev chunks) = unmasked (rc s) (rpos s) payload /\ c_in (rc s') = rest.
Proof.
  intros He Hr Hi H H0. destruct (in_frame_inv fixed wants s payload rest [] s' chunks He Hr Hi H H0) as (A & B & _).
  split; [exact A|exact B].
Qed.

(* non-vacuity: server role, key 1 2 3 4, a 7-byte frame read with buffers 2, 0, 3, 1, 5 *)
Example partial_reads_example :
  let c := mkConn true 0 7 true 7 None 0 [1; 2; 3; 4]%N [10; 20; 30; 40; 50; 60; 70; 99]%N [] false in
  let '(s', chunks) := in_frame true [2; 0; 3; 1; 5]%N (mkRd c 0) [] in
  rev chunks = [[11; 22]; []; [29; 44; 51]; [62]; [69]]%N /\ c_in (rc s') = [99%N] /\
  concat (rev chunks) = mask_bytes [1; 2; 3; 4]%N 0 [10; 20; 30; 40; 50; 60; 70]%N.
Proof. vm_compute. repeat split. Qed.

(* ------------------------------------------------------------------ limit accounting around an abandoned message *)
(* NextReader restarts readLength, and the remaining fragments of a message the application
   abandoned are then added to it before the next message starts: with limit 100, a message of
   3 x 40 bytes abandoned after its first frame makes a following 80-byte message fail with
   ErrReadLimit (Close 1009), although 80 <= 100; with limit 160 (= 40 + 40 + 80) it is delivered.
   The property's limit clause (no message LONGER than the limit is ever delivered) is not
   contradicted: nothing over the limit is delivered in either case. *)
Definition carry_wire : bytes :=
  ([1; 40] ++ repeat 7 40 ++ [0; 40] ++ repeat 7 40 ++ [128; 40] ++ repeat 7 40 ++ [130; 80] ++ repeat 9 80)%N.

Example abandoned_limit_carry :
  lib_session_pat true false 100 [true; false] carry_wire =
    Ok ([(true, RMsg 1 []); (false, RErr ELimit)], [(websocket_CloseMessage, [3; 241]%N)]) /\
  lib_session_pat true false 159 [true; false] carry_wire =
    Ok ([(true, RMsg 1 []); (false, RErr ELimit)], [(websocket_CloseMessage, [3; 241]%N)]) /\
  lib_session_pat true false 160 [true; false] carry_wire =
    Ok ([(true, RMsg 1 []); (false, RMsg 2 (repeat 9%N 80)); (false, RErr EUeof)], []) /\
  (* read to its end instead, the first message (120 bytes) is itself over the limit 100 ... *)
  lib_session true false 100 0 carry_wire = Ok ([RErr ELimit], [(websocket_CloseMessage, [3; 241]%N)]) /\
  (* ... and under limit 120 both are delivered: per-message accounting *)
  lib_session true false 120 0 carry_wire =
    Ok ([RMsg 1 (repeat 7%N 120); RMsg 2 (repeat 9%N 80); RErr EUeof], []).
Proof. vm_compute. repeat split. Qed.
