(* Lemmas about Model/Kxps.v (C20). *)
From Verif Require Import Lib.Base Lib.Sx Model.Kxps.
From Verif Require Import Gen.Gen_kxps.
Open Scope Z_scope.
Ltac Zify.zify_post_hook ::= Z.div_mod_to_equations.

Definition two63 : Z := 9223372036854775808.
Definition two64 : Z := 18446744073709551616.

Lemma zi64_range x : - two63 <= zi64 x < two63.
Proof. unfold zi64, two63. lia. Qed.

(* the counter's increase, as the property states it: c - c0 when the counter grew (by less
   than 2^63, so that the signed cast keeps it), 0 when it stalled or went backwards *)
Definition increase (c c0 : Z) : Z := if c0 <? c then c - c0 else 0.

Definition is_u64 (x : Z) : Prop := 0 <= x < two64.

Lemma diff_exact c c0 : is_u64 c -> is_u64 c0 -> 0 < c - c0 < two63 -> zi64 (zu64 (c - c0)) = c - c0.
Proof. unfold is_u64, zi64, zu64, two63, two64. lia. Qed.

Lemma diff_backwards c c0 : is_u64 c -> is_u64 c0 -> c <= c0 -> c0 - c <= two63 -> zi64 (zu64 (c - c0)) <= 0.
Proof. unfold is_u64, zi64, zu64, two63, two64. lia. Qed.

(* wrap-around of the 64-bit counter counts as the (small) positive increase it is *)
Lemma diff_wrap c c0 : is_u64 c -> is_u64 c0 -> c < c0 -> c - c0 + two64 < two63 ->
  zi64 (zu64 (c - c0)) = c - c0 + two64.
Proof. unfold is_u64, zi64, zu64, two63, two64. lia. Qed.

(* ---- one window, one step ---- *)
Lemma step_fired now nb s :
  last s + ival s <= now ->
  step_s now nb s =
    (mk_s (let d := zi64 (zu64 (nb - cnt s)) in if d <=? 0 then 0 else d) nb now (ival s), true).
Proof. intros H. unfold step_s. destruct (now <? last s + ival s) eqn:E; [lia|reflexivity]. Qed.

Lemma step_idle now nb s : now < last s + ival s -> step_s now nb s = (s, false).
Proof. intros H. unfold step_s. destruct (now <? last s + ival s) eqn:E; [reflexivity|lia]. Qed.

Lemma step_fired_rate now nb s :
  is_u64 nb -> is_u64 (cnt s) -> Z.abs (nb - cnt s) < two63 ->
  last s + ival s <= now ->
  step_s now nb s = (mk_s (increase nb (cnt s)) nb now (ival s), true).
Proof.
  intros Hn Hc Hd Hf. rewrite step_fired by exact Hf. unfold increase. cbv zeta.
  destruct (cnt s <? nb) eqn:E.
  - rewrite diff_exact by (try assumption; lia).
    destruct (nb - cnt s <=? 0) eqn:E2; [lia|reflexivity].
  - pose proof (diff_backwards nb (cnt s) Hn Hc ltac:(lia) ltac:(lia)) as Hb.
    destruct (zi64 (zu64 (nb - cnt s)) <=? 0) eqn:E2; [reflexivity|lia].
Qed.

(* which windows are sampled in a step: the cascade *)
Definition due (now : Z) (s : sample) : bool := negb (now <? last s + ival s).
Definition fires10 now k := due now (r10 k).
Definition fires30 now k := fires10 now k && due now (r30 k).
Definition fires300 now k := fires30 now k && due now (r300 k).

Definition sampled (now nb : Z) (s : sample) : sample :=
  mk_s (let d := zi64 (zu64 (nb - cnt s)) in if d <=? 0 then 0 else d) nb now (ival s).

Lemma step_s_due now nb s : step_s now nb s = if due now s then (sampled now nb s, true) else (s, false).
Proof. unfold step_s, due, sampled. destruct (now <? last s + ival s); reflexivity. Qed.

(* do_sample, characterised window by window *)
Lemma do_sample_spec now nb k : nb <> 0 -> cnt (r10 k) <> 0 ->
  r10 (do_sample now nb k) = (if fires10 now k then sampled now nb (r10 k) else r10 k) /\
  r30 (do_sample now nb k) = (if fires30 now k then sampled now nb (r30 k) else r30 k) /\
  r300 (do_sample now nb k) = (if fires300 now k then sampled now nb (r300 k) else r300 k).
Proof.
  intros Hn Hc. unfold do_sample, fires300, fires30, fires10.
  destruct (nb =? 0) eqn:E1; [lia|]. destruct (cnt (r10 k) =? 0) eqn:E2; [lia|].
  rewrite !step_s_due.
  destruct (due now (r10 k)); cbn [negb andb set_samples r10 r30 r300]; [|auto].
  destruct (due now (r30 k)); cbn [negb andb set_samples r10 r30 r300]; [|auto].
  destruct (due now (r300 k)); cbn [negb andb set_samples r10 r30 r300]; auto.
Qed.

Lemma do_sample_zero now k : do_sample now 0 k = k.
Proof. reflexivity. Qed.

Lemma do_sample_first now nb k : nb <> 0 -> cnt (r10 k) = 0 ->
  do_sample now nb k = set_samples k (init_s now nb (r10 k)) (init_s now nb (r30 k)) (init_s now nb (r300 k)).
Proof.
  intros Hn Hc. unfold do_sample. destruct (nb =? 0) eqn:E1; [lia|]. rewrite Hc. reflexivity.
Qed.

(* ---- invariant over every history ---- *)
Definition ok_s (s : sample) : Prop := 0 <= rdiff s < two63.
Definition Inv (k : kx) : Prop :=
  ok_s (r10 k) /\ ok_s (r30 k) /\ ok_s (r300 k) /\
  ival (r10 k) = kxps_newKxps__v_r10s_interval /\
  ival (r30 k) = kxps_newKxps__v_r30s_interval /\
  ival (r300 k) = kxps_newKxps__v_r300s_interval.

Lemma sampled_ok now nb s : ok_s (sampled now nb s).
Proof.
  unfold ok_s, sampled, mk_s. cbn [rdiff]. pose proof (zi64_range (zu64 (nb - cnt s))).
  cbv zeta. destruct (zi64 (zu64 (nb - cnt s)) <=? 0) eqn:E; unfold two63 in *; lia.
Qed.

Lemma step_ok now nb s : ok_s s -> ok_s (fst (step_s now nb s)) /\ ival (fst (step_s now nb s)) = ival s.
Proof.
  intros H. rewrite step_s_due. destruct (due now s); cbn [fst]; split; auto using sampled_ok.
Qed.

Lemma do_sample_inv now nb k : Inv k -> Inv (do_sample now nb k).
Proof.
  intros (H1 & H2 & H3 & I1 & I2 & I3). unfold do_sample.
  destruct (nb =? 0); [unfold Inv; auto 10|].
  destruct (cnt (r10 k) =? 0); [unfold Inv, ok_s in *; cbn; auto 10|].
  destruct (step_ok now nb _ H1) as [A A']. destruct (step_ok now nb _ H2) as [B B'].
  destruct (step_ok now nb _ H3) as [C C'].
  destruct (step_s now nb (r10 k)) as [a fa]. cbn [fst] in A, A'.
  destruct fa; cbn [negb]; [|unfold Inv; cbn; rewrite ?A'; auto 10].
  destruct (step_s now nb (r30 k)) as [b fb]. cbn [fst] in B, B'.
  destruct fb; cbn [negb]; [|unfold Inv; cbn; rewrite ?A', ?B'; auto 10].
  destruct (step_s now nb (r300 k)) as [c fc]. cbn [fst] in C, C'.
  unfold Inv; cbn; rewrite ?A', ?B', ?C'; auto 10.
Qed.

Lemma k0_inv : Inv k0.
Proof. unfold Inv, ok_s, k0, two63; cbn. lia. Qed.

Lemma run_hist_inv h k : Inv k -> Inv (run_hist h k).
Proof.
  unfold run_hist. revert k. induction h as [|[t c] h IH]; intros k Hk; cbn [fold_left]; [exact Hk|].
  apply IH. cbn [fst snd]. now apply do_sample_inv.
Qed.

(* ---- average ---- *)
Lemma sample_average_spec now nb k d u k' :
  sample_average now nb k = (k', (d, u)) ->
  (d = 0 /\ u = 0) \/
  (k' = k /\ nb <> 0 /\ avg k <> 0 /\ d = zi64 (zu64 (nb - avg k)) /\ 0 < d < two63 /\
   u = Z.quot (now - create k) ms_ns /\ 0 < u).
Proof.
  unfold sample_average. destruct (nb =? 0) eqn:E1; [intros H; inversion H; auto|].
  destruct (avg k =? 0) eqn:E2; [intros H; inversion H; auto|].
  destruct (zi64 (zu64 (nb - avg k)) <=? 0) eqn:E3; [intros H; inversion H; auto|].
  destruct (Z.quot (now - create k) ms_ns <=? 0) eqn:E4; [intros H; inversion H; auto|].
  intros H; inversion H; subst. right. pose proof (zi64_range (zu64 (nb - avg k'))).
  repeat split; try lia.
Qed.

Lemma sample_average_first now nb k : nb <> 0 -> avg k = 0 ->
  avg (fst (sample_average now nb k)) = nb /\ create (fst (sample_average now nb k)) = now /\
  snd (sample_average now nb k) = (0, 0).
Proof.
  intros Hn Ha. unfold sample_average. destruct (nb =? 0) eqn:E1; [lia|]. rewrite Ha. cbn. auto.
Qed.

Lemma sample_average_exact now nb k :
  is_u64 nb -> is_u64 (avg k) -> avg k <> 0 -> 0 < nb - avg k < two63 -> ms_ns <= now - create k ->
  sample_average now nb k = (k, (nb - avg k, Z.quot (now - create k) ms_ns)).
Proof.
  intros Hn Ha Hz Hd Ht. unfold sample_average.
  destruct (nb =? 0) eqn:E1; [unfold is_u64 in *; lia|].
  destruct (avg k =? 0) eqn:E2; [lia|].
  rewrite diff_exact by assumption.
  destruct (nb - avg k <=? 0) eqn:E3; [lia|].
  assert (0 < Z.quot (now - create k) ms_ns).
  { unfold ms_ns in *. apply Z.quot_str_pos. lia. }
  destruct (Z.quot (now - create k) ms_ns <=? 0) eqn:E4; [lia|reflexivity].
Qed.

(* ---- refusal before start ---- *)
Lemma read_rate_refused w k : read_rate w k = None <-> started k = false.
Proof.
  unfold read_rate. destruct (started k); cbn [negb]; split; intros H; try discriminate; auto.
Qed.

Lemma do_sample_started now nb k : started (do_sample now nb k) = started k.
Proof.
  unfold do_sample. destruct (nb =? 0); [reflexivity|]. destruct (cnt (r10 k) =? 0); [reflexivity|].
  destruct (step_s now nb (r10 k)) as [a fa]; destruct fa; cbn [negb]; [|reflexivity].
  destruct (step_s now nb (r30 k)) as [b fb]; destruct fb; cbn [negb]; [|reflexivity].
  destruct (step_s now nb (r300 k)) as [c fc]; reflexivity.
Qed.

(* the unit test's scripted walk (kxps_test.go), evaluated on the model *)
Example unit_test_walk :
  let s := 1000 * ms_ns in
  let k := run_hist [(0,0); (10*s,10); (20*s,20); (30*s,20); (40*s,30); (50*s,30); (310*s,40)] k0 in
  (rdiff (r10 k), rdiff (r30 k), rdiff (r300 k)) = (10, 10, 30).
Proof. vm_compute. reflexivity. Qed.
