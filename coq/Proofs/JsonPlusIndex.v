(* C17 proofs, part 1: bytes.HasPrefix / bytes.Index / indexEnd / firstMatch.
   Stability of a search result under extension of the data, and the characterisation of
   firstMatch as the lexicographically least (position, table index) pair. *)
From Verif Require Import Lib.Base Lib.Sx Model.JsonPlus.
Open Scope N_scope.

(* ---- lengths ---- *)
Lemma lenN_acc_spec b : forall acc, lenN_acc acc b = acc + N.of_nat (length b).
Proof. induction b as [|x b IH]; intros acc; cbn [lenN_acc length]; [lia|]. rewrite IH. lia. Qed.
Lemma lenN_spec b : lenN b = N.of_nat (length b).
Proof. unfold lenN. rewrite lenN_acc_spec. lia. Qed.
Lemma lenZ_spec b : lenZ b = Z.of_nat (length b).
Proof. unfold lenZ. rewrite lenN_spec. lia. Qed.
Lemma lenN_app a b : lenN (a ++ b) = lenN a + lenN b.
Proof. rewrite !lenN_spec, app_length. lia. Qed.

(* ---- is_prefix ---- *)
Lemma is_prefix_app p d m : is_prefix p d = true -> is_prefix p (d ++ m) = true.
Proof.
  revert d; induction p as [|x p IH]; intros d H; [reflexivity|].
  destruct d as [|y d]; [discriminate|]. cbn in *. apply andb_true_iff in H as [H1 H2].
  rewrite H1. cbn. now apply IH.
Qed.

Lemma is_prefix_len p d : is_prefix p d = true -> (length p <= length d)%nat.
Proof.
  revert d; induction p as [|x p IH]; intros d H; cbn; [lia|].
  destruct d as [|y d]; [discriminate|]. cbn in *. apply andb_true_iff in H as [_ H2]. apply IH in H2. lia.
Qed.

Lemma is_prefix_straddle p d m :
  is_prefix p d = false -> is_prefix p (d ++ m) = true -> (length d < length p)%nat.
Proof.
  revert d; induction p as [|x p IH]; intros d H1 H2; [discriminate|].
  destruct d as [|y d]; [cbn; lia|]. cbn in *.
  destruct (x =? y); cbn in *; [|discriminate]. apply IH in H2; auto. lia.
Qed.

Lemma is_prefix_self p r : is_prefix p (p ++ r) = true.
Proof. induction p as [|x p IH]; [reflexivity|]. cbn. now rewrite N.eqb_refl, IH. Qed.

Lemma is_prefix_true p d : is_prefix p d = true -> exists r, d = p ++ r.
Proof.
  revert d; induction p as [|x p IH]; intros d H; [now exists d|].
  destruct d as [|y d]; [discriminate|]. cbn in H. apply andb_true_iff in H as [H1 H2].
  apply N.eqb_eq in H1. subst. destruct (IH _ H2) as [r ->]. now exists r.
Qed.

(* ---- index ---- *)
Lemma index_cons pat y d :
  index pat (y :: d) = if is_prefix pat (y :: d) then Some 0 else option_map N.succ (index pat d).
Proof. reflexivity. Qed.
Lemma index_nil pat : index pat [] = if is_prefix pat [] then Some 0 else None.
Proof. reflexivity. Qed.

Lemma index_bound pat d i : index pat d = Some i -> (N.to_nat i + length pat <= length d)%nat.
Proof.
  revert i; induction d as [|y d IH]; intros i H.
  - rewrite index_nil in H. destruct (is_prefix pat []) eqn:E; [|discriminate]. inversion H; subst.
    apply is_prefix_len in E. cbn in *. lia.
  - rewrite index_cons in H. destruct (is_prefix pat (y :: d)) eqn:E.
    + inversion H; subst. apply is_prefix_len in E. lia.
    + destruct (index pat d) as [j|] eqn:Ej; [|discriminate]. cbn in H. inversion H; subst.
      specialize (IH j eq_refl). cbn [length]. lia.
Qed.

(* a match that lies inside d is still the first match after extending d *)
Lemma index_app_some pat d m i : index pat d = Some i -> index pat (d ++ m) = Some i.
Proof.
  revert i; induction d as [|y d IH]; intros i H.
  - rewrite index_nil in H. destruct (is_prefix pat []) eqn:E; [|discriminate]. inversion H; subst.
    destruct pat; [|discriminate]. destruct m; reflexivity.
  - rewrite index_cons in H. cbn [app]. rewrite index_cons. destruct (is_prefix pat (y :: d)) eqn:E.
    + inversion H; subst. change (y :: d ++ m) with ((y :: d) ++ m). now rewrite is_prefix_app.
    + destruct (index pat d) as [j|] eqn:Ej; [|discriminate]. cbn in H. inversion H; subst.
      destruct (is_prefix pat (y :: d ++ m)) eqn:E2.
      * exfalso. change (y :: d ++ m) with ((y :: d) ++ m) in E2.
        pose proof (is_prefix_straddle _ _ _ E E2) as Hs. pose proof (index_bound _ _ _ Ej) as Hb.
        cbn [length] in Hs. lia.
      * rewrite (IH j eq_refl). reflexivity.
Qed.

(* a match that appears only after extension ends beyond the old end *)
Lemma index_app_none pat d m j :
  index pat d = None -> index pat (d ++ m) = Some j -> (length d < N.to_nat j + length pat)%nat.
Proof.
  revert j; induction d as [|y d IH]; intros j H1 H2.
  - cbn [app] in H2. rewrite index_nil in H1. destruct (is_prefix pat []) eqn:E; [discriminate|].
    destruct pat; [discriminate|]. cbn. lia.
  - rewrite index_cons in H1. destruct (is_prefix pat (y :: d)) eqn:E; [discriminate|].
    destruct (index pat d) as [k|] eqn:Ek; [discriminate|].
    cbn [app] in H2. rewrite index_cons in H2.
    destruct (is_prefix pat (y :: d ++ m)) eqn:E2.
    + inversion H2; subst. change (y :: d ++ m) with ((y :: d) ++ m) in E2.
      pose proof (is_prefix_straddle _ _ _ E E2). lia.
    + destruct (index pat (d ++ m)) as [k|] eqn:Ek2; [|discriminate]. cbn in H2. inversion H2; subst.
      specialize (IH k eq_refl eq_refl). cbn [length]. lia.
Qed.

(* the data before the first match does not start a match; used for shifting over a run *)
Lemma index_skip_head pat c y d :
  hd_error pat = Some c -> y <> c -> index pat (y :: d) = option_map N.succ (index pat d).
Proof.
  intros Hh Hy. rewrite index_cons. destruct pat as [|x pat]; [discriminate|]. cbn in Hh. inversion Hh; subst.
  cbn [is_prefix]. destruct (c =? y) eqn:E; [apply N.eqb_eq in E; congruence|]. reflexivity.
Qed.

Lemma index_skip_run pat c run d :
  hd_error pat = Some c -> ~ In c run ->
  index pat (run ++ d) = option_map (N.add (lenN run)) (index pat d).
Proof.
  intros Hh. induction run as [|y run IH]; intros Hn.
  - cbn. destruct (index pat d); reflexivity.
  - cbn [app]. rewrite (index_skip_head pat c) by (auto; intros ->; apply Hn; now left).
    rewrite IH by (intros Hi; apply Hn; now right).
    rewrite !lenN_spec. cbn [length]. rewrite Nat2N.inj_succ.
    destruct (index pat d); cbn [option_map]; [f_equal; lia|reflexivity].
Qed.

(* the first occurrence of the terminator in body ++ terminator ++ rest *)
Lemma index_at pat body rest :
  index pat (body ++ pat) = Some (lenN body) -> index pat (body ++ pat ++ rest) = Some (lenN body).
Proof. intros H. rewrite app_assoc. now apply index_app_some. Qed.

(* ---- index_esc (indexEnd with escape) ---- *)
Lemma index_esc_ind (P : bytes -> Prop) :
  P [] ->
  (P [backslash]) ->
  (forall x t, P t -> P (backslash :: x :: t)) ->
  (forall c t, c <> backslash -> P t -> P (c :: t)) ->
  forall d, P d.
Proof.
  intros H0 H1 H2 H3 d.
  assert (G : forall n d, (length d <= n)%nat -> P d).
  { induction n as [|n IH]; intros d' Hl.
    - destruct d'; [exact H0|cbn in Hl; lia].
    - destruct d' as [|c t]; [exact H0|].
      destruct (N.eq_dec c backslash) as [->|Hc].
      + destruct t as [|x t']; [exact H1|]. apply H2. apply IH. cbn in Hl. lia.
      + apply H3; auto. apply IH. cbn in Hl. lia. }
  exact (G (length d) d (le_n _)).
Qed.

Lemma index_esc_bs e x t :
  index_esc e (backslash :: x :: t) = option_map (N.add 2) (index_esc e t).
Proof. reflexivity. Qed.
Lemma index_esc_plain e c t : c <> backslash ->
  index_esc e (c :: t) = if is_prefix e (c :: t) then Some 0 else option_map N.succ (index_esc e t).
Proof. intros H. cbn [index_esc]. destruct (c =? backslash) eqn:E; [apply N.eqb_eq in E; congruence|reflexivity]. Qed.

Lemma Some_inj {A} (a b : A) : Some a = Some b -> a = b.
Proof. congruence. Qed.

Lemma index_esc_bound e d : forall i, index_esc e d = Some i -> (N.to_nat i + length e <= length d)%nat.
Proof.
  induction d as [| |x t IH|c t Hc IH] using index_esc_ind; intros i H.
  - discriminate.
  - discriminate.
  - rewrite index_esc_bs in H. destruct (index_esc e t) as [j|]; [|discriminate]. cbn [option_map] in H. apply Some_inj in H. subst i.
    specialize (IH j eq_refl). simpl length. lia.
  - rewrite index_esc_plain in H by auto. destruct (is_prefix e (c :: t)) eqn:E.
    + inversion H; subst. apply is_prefix_len in E. lia.
    + destruct (index_esc e t) as [j|]; [|discriminate]. cbn [option_map] in H. apply Some_inj in H. subst i.
      specialize (IH j eq_refl). simpl length. lia.
Qed.

Lemma index_esc_app_some e d m : forall i, index_esc e d = Some i -> index_esc e (d ++ m) = Some i.
Proof.
  induction d as [| |x t IH|c t Hc IH] using index_esc_ind; intros i H.
  - discriminate.
  - discriminate.
  - rewrite index_esc_bs in H. cbn [app]. rewrite index_esc_bs.
    destruct (index_esc e t) as [j|]; [|discriminate]. now rewrite (IH j eq_refl).
  - rewrite index_esc_plain in H by auto. cbn [app]. rewrite index_esc_plain by auto.
    destruct (is_prefix e (c :: t)) eqn:E.
    + change (c :: t ++ m) with ((c :: t) ++ m). now rewrite is_prefix_app.
    + destruct (index_esc e t) as [j|] eqn:Ej; [|discriminate]. cbn [option_map] in H. apply Some_inj in H. subst i.
      destruct (is_prefix e (c :: t ++ m)) eqn:E2.
      * exfalso. change (c :: t ++ m) with ((c :: t) ++ m) in E2.
        pose proof (is_prefix_straddle _ _ _ E E2) as Hs. pose proof (index_esc_bound _ _ _ Ej) as Hb.
        simpl length in Hs. lia.
      * now rewrite (IH j eq_refl).
Qed.

(* a well-formed string body is skipped up to its closing quote *)
Lemma index_esc_body body rest :
  body_ok body = true -> index_esc [quote] (body ++ quote :: rest) = Some (lenN body).
Proof.
  induction body as [| |x t IH|c t Hc IH] using index_esc_ind; intros H.
  - reflexivity.
  - discriminate.
  - cbn [app]. rewrite index_esc_bs. cbn in H. rewrite (IH H). rewrite !lenN_spec. cbn [length option_map].
    f_equal. lia.
  - cbn [body_ok] in H. destruct (c =? backslash) eqn:E; [apply N.eqb_eq in E; congruence|].
    apply andb_true_iff in H as [Hq Hb]. cbn [app]. rewrite index_esc_plain by auto.
    cbn [is_prefix]. unfold quote in *. destruct (34 =? c) eqn:E2.
    + apply N.eqb_eq in E2. subst. discriminate.
    + cbn [andb]. rewrite (IH Hb). rewrite !lenN_spec. simpl length. cbn [option_map]. f_equal. lia.
Qed.

Lemma index_end_bound d e b i : index_end d e b = Some i -> (N.to_nat i + length e <= length d)%nat.
Proof. unfold index_end. destruct b; [apply index_esc_bound|apply index_bound]. Qed.
Lemma index_end_app_some d e b m i : index_end d e b = Some i -> index_end (d ++ m) e b = Some i.
Proof. unfold index_end. destruct b; [apply index_esc_app_some|apply index_app_some]. Qed.

(* ---- firstMatch ---- *)
(* r is the least (position, table index) among the markers of tbl that occur in d *)
Definition is_fm (d : bytes) (tb : list bytes) (r : option (N * nat)) : Prop :=
  match r with
  | None => forall j m, nth_error tb j = Some m -> index m d = None
  | Some (p, i) =>
      (exists m, nth_error tb i = Some m /\ index m d = Some p) /\
      (forall j m q, nth_error tb j = Some m -> index m d = Some q -> p < q \/ (p = q /\ (i <= j)%nat))
  end.

Lemma is_fm_unique d tb r1 r2 : is_fm d tb r1 -> is_fm d tb r2 -> r1 = r2.
Proof.
  destruct r1 as [[p1 i1]|], r2 as [[p2 i2]|]; cbn; intros H1 H2.
  - destruct H1 as [(m1 & Hn1 & Hi1) M1], H2 as [(m2 & Hn2 & Hi2) M2].
    pose proof (M1 _ _ _ Hn2 Hi2) as A. pose proof (M2 _ _ _ Hn1 Hi1) as B.
    assert (p1 = p2) by lia. subst. assert (i1 = i2) by lia. now subst.
  - destruct H1 as [(m1 & Hn1 & Hi1) _]. rewrite (H2 _ _ Hn1) in Hi1. discriminate.
  - destruct H2 as [(m2 & Hn2 & Hi2) _]. rewrite (H1 _ _ Hn2) in Hi2. discriminate.
  - reflexivity.
Qed.

Lemma index_prefix0 m x : is_prefix m x = true -> index m x = Some 0.
Proof. intros H. destruct x; cbn [index]; now rewrite H. Qed.

Lemma index_zero m x : index m x = Some 0 -> is_prefix m x = true.
Proof.
  destruct x as [|y x].
  - rewrite index_nil. destruct (is_prefix m []); [auto|discriminate].
  - rewrite index_cons. destruct (is_prefix m (y :: x)); [auto|].
    destruct (index m x); cbn; intros H; [inversion H; lia|discriminate].
Qed.

(* the first-byte test of firstMatch only skips flags that are no prefix anyway *)
Fixpoint find_simple (d : bytes) (flags : list bytes) (i : nat) : option nat :=
  match flags with
  | [] => None
  | f :: rest => if is_prefix f d then Some i else find_simple d rest (S i)
  end.

Lemma find_flag_simple d : forall flags i, find_flag d flags i = find_simple d flags i.
Proof.
  induction flags as [|f rest IH]; intros i; [reflexivity|]. cbn [find_flag find_simple].
  destruct f as [|c0 f']; [reflexivity|]. destruct d as [|c d']; [cbn; apply IH|].
  destruct (c0 =? c) eqn:E; cbn [negb].
  - now rewrite IH.
  - cbn [is_prefix]. rewrite E. cbn. apply IH.
Qed.

Lemma find_simple_some d : forall flags i0 i, find_simple d flags i0 = Some i ->
  (i0 <= i)%nat /\ (exists m, nth_error flags (i - i0) = Some m /\ is_prefix m d = true) /\
  (forall j m, (j < i - i0)%nat -> nth_error flags j = Some m -> is_prefix m d = false).
Proof.
  induction flags as [|f rest IH]; intros i0 i H; [discriminate|]. cbn [find_simple] in H.
  destruct (is_prefix f d) eqn:E.
  - inversion H; subst. rewrite Nat.sub_diag. split; [lia|]. split; [exists f; auto|]. intros j m Hj. lia.
  - destruct (IH _ _ H) as (Hle & (m & Hn & Hp) & Hm). split; [lia|].
    replace (i - i0)%nat with (S (i - S i0)) by lia. split; [exists m; auto|].
    intros j m' Hj Hn'. destruct j as [|j]; [cbn in Hn'; inversion Hn'; subst; exact E|].
    cbn in Hn'. apply (Hm j m'); [lia|exact Hn'].
Qed.

Lemma find_simple_none d : forall flags i0, find_simple d flags i0 = None ->
  forall j m, nth_error flags j = Some m -> is_prefix m d = false.
Proof.
  induction flags as [|f rest IH]; intros i0 H j m Hn; [destruct j; discriminate|]. cbn [find_simple] in H.
  destruct (is_prefix f d) eqn:E; [discriminate|].
  destruct j as [|j]; [cbn in Hn; inversion Hn; subst; exact E|]. cbn in Hn. eapply IH; eauto.
Qed.

Lemma fm_at_shift tb : forall d pos,
  fm_at d tb pos = match fm_at d tb 0 with Some (p, i) => Some (pos + p, i) | None => None end.
Proof.
  induction d as [|c t IH]; intros pos; [reflexivity|]. cbn [fm_at].
  destruct (find_flag (c :: t) tb 0); [now rewrite N.add_0_r|].
  rewrite (IH (N.succ pos)), (IH (N.succ 0)). destruct (fm_at t tb 0) as [[p i]|]; [|reflexivity].
  f_equal. f_equal. lia.
Qed.

Lemma first_match_correct d tb : Forall (fun m => m <> []) tb -> is_fm d tb (first_match d tb).
Proof.
  intros Hne. unfold first_match. induction d as [|c t IH].
  - cbn [fm_at]. unfold is_fm. intros j m Hn. rewrite index_nil.
    assert (m <> []) by (rewrite Forall_forall in Hne; apply Hne; eapply nth_error_In; eauto).
    destruct m; [congruence|reflexivity].
  - cbn [fm_at]. rewrite find_flag_simple. destruct (find_simple (c :: t) tb 0) as [i|] eqn:F.
    + destruct (find_simple_some _ _ _ _ F) as (_ & (m & Hn & Hp) & Hm). rewrite Nat.sub_0_r in *.
      split; [exists m; split; [auto|now apply index_prefix0]|].
      intros j m' q Hn' Hq. destruct (N.eq_dec q 0) as [->|Hq0]; [|left; lia].
      right. split; [reflexivity|]. apply index_zero in Hq.
      destruct (Nat.lt_ge_cases j i) as [Hlt|Hge]; [|exact Hge].
      rewrite (Hm j m' Hlt Hn') in Hq. discriminate.
    + pose proof (find_simple_none _ _ _ F) as Hnp.
      assert (Hidx : forall j m, nth_error tb j = Some m -> index m (c :: t) = option_map N.succ (index m t)).
      { intros j m Hn. rewrite index_cons, (Hnp j m Hn). reflexivity. }
      rewrite fm_at_shift. destruct (fm_at t tb 0) as [[p i]|].
      * destruct IH as [(m & Hn & Hi) Hmin]. split.
        -- exists m. split; [auto|]. rewrite (Hidx _ _ Hn), Hi. cbn [option_map]. f_equal. lia.
        -- intros j m' q Hn' Hq. rewrite (Hidx _ _ Hn') in Hq.
           destruct (index m' t) as [q'|] eqn:Eq; [|discriminate]. cbn [option_map] in Hq. apply Some_inj in Hq. subst q.
           destruct (Hmin _ _ _ Hn' Eq) as [A|[A B]]; [left; lia|right; split; [lia|exact B]].
      * cbn in IH. intros j m Hn. rewrite (Hidx _ _ Hn), (IH _ _ Hn). reflexivity.
Qed.

Lemma first_match_is d tb r : Forall (fun m => m <> []) tb -> is_fm d tb r -> first_match d tb = r.
Proof. intros Hne H. eapply is_fm_unique; [apply first_match_correct; exact Hne|exact H]. Qed.
