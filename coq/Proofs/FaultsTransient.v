(* A transient write fault that reports an error (the Write calls after it succeed again) has the
   same effect on a session as a sticky one: io.Copy returns the error of the faulty call, bufio.Writer
   records it and never writes again in that operation, and the session stops at the first failing
   operation -- so the transport's later behaviour is never observed. *)
From Verif Require Import Lib.Base Lib.Sx Lib.Err Lib.IO Model.Faults Proofs.FaultsIO.
From Verif Require Import Proofs.FaultsWrite Proofs.FaultsBufw Proofs.FaultsBufwPeer.
Open Scope N_scope.

(* ws: the sticky transport, wt: the transient one; e: the error the faulty call reports *)
Definition tw (ws wt : wtr) : Prop :=
  wt_calls ws = wt_calls wt /\ wt_failat ws = wt_failat wt /\ wt_m ws = wt_m wt /\
  wt_term ws = wt_term wt /\ wt_peer ws = wt_peer wt /\
  wt_sticky ws = true /\ wt_sticky wt = false /\ wt_failed wt = false /\ wt_term ws <> None.
(* the buffered writers: same fields; the sticky transport is broken only when the writer knows *)
Definition tb (bs bt : bufw) : Prop :=
  bw_n bs = bw_n bt /\ bw_err bs = bw_err bt /\ bw_rev bs = bw_rev bt /\ tw (bw_under bs) (bw_under bt) /\
  (bw_err bs = None -> wt_failed (bw_under bs) = false).

Lemma wt_write_tw p ws wt : tw ws wt -> wt_failed ws = false ->
  fst (wt_write p ws) = fst (wt_write p wt) /\ tw (snd (wt_write p ws)) (snd (wt_write p wt)) /\
  (snd (fst (wt_write p ws)) = None -> wt_failed (snd (wt_write p ws)) = false).
Proof.
  intros (Hc & Ha & Hm & Ht & Hp & Hs & Hs' & Hf' & Hne) Hf. unfold wt_write. rewrite Hf, Hf', Ha, Hc, Hm, Ht, Hp, Hs, Hs'.
  destruct (match wt_failat wt with Some i => i =? wt_calls wt | None => false end).
  - rewrite !split_at_spec. cbn [fst snd]. split; [reflexivity|]. split.
    + repeat split; cbn; auto; congruence.
    + cbn. intros E. rewrite <- Ht in E. congruence.
  - cbn [fst snd]. split; [reflexivity|]. split; [repeat split; cbn; auto; congruence|]. reflexivity.
Qed.

Definition same3 (r r' : option N * bufw) : Prop := fst r = fst r' /\ tb (snd r) (snd r').

Lemma flush_tw bs bt : tb bs bt -> same3 (bw_flush bs) (bw_flush bt).
Proof.
  intros Hb0. pose proof Hb0 as (Hn & He & Hr & Hw & Hg). unfold bw_flush, bw_buf. rewrite Hn, He, Hr.
  destruct (bw_err bt) as [e|] eqn:E; [split; [reflexivity|exact Hb0]|].
  destruct (bw_n bt =? 0); [split; [reflexivity|exact Hb0]|].
  destruct (wt_write_tw (concat (frev (bw_rev bt))) _ _ Hw (Hg He)) as (H1 & H2 & H3).
  destruct (wt_write (concat (frev (bw_rev bt))) (bw_under bs)) as [[m oe] u].
  destruct (wt_write (concat (frev (bw_rev bt))) (bw_under bt)) as [[m' oe'] u']. cbn [fst snd] in *.
  injection H1 as -> ->.
  destruct oe' as [e|]; [|destruct (m' <? bw_n bt)]; rewrite ?split_at_spec; (split; [reflexivity|]); cbn [snd];
    (split; [reflexivity|]); (split; [reflexivity|]); (split; [reflexivity|]); (split; [exact H2|]); cbn; try discriminate.
  intros _. now apply H3.
Qed.

Lemma write_go_tw fuel : forall p bs bt, tb bs bt -> same3 (bw_write_go fuel p bs) (bw_write_go fuel p bt).
Proof.
  induction fuel as [|f IH]; intros p bs bt Hb; cbn [bw_write_go].
  - split; [reflexivity|exact Hb].
  - pose proof Hb as (Hn & He & Hr & Hw & Hg). unfold bw_avail. rewrite Hn, He.
    destruct (bw_err bt) as [e|] eqn:E; [split; [reflexivity|exact Hb]|].
    destruct (bufio_size - bw_n bt <? lenN p); [|split; [reflexivity|]].
    + destruct (bw_n bt =? 0).
      * destruct (wt_write_tw p _ _ Hw (Hg He)) as (H1 & H2 & H3).
        destruct (wt_write p (bw_under bs)) as [[m oe] u]. destruct (wt_write p (bw_under bt)) as [[m' oe'] u'].
        cbn [fst snd] in *. injection H1 as -> ->. rewrite !split_at_spec. apply IH.
        split; [cbn; congruence|]. split; [reflexivity|]. split; [exact Hr|]. split; [exact H2|]. exact H3.
      * rewrite !split_at_spec. cbn beta iota zeta. rewrite Hr.
        set (b1 := mk_bufw _ bufio_size None (bw_under bs)). set (b1' := mk_bufw _ bufio_size None (bw_under bt)).
        assert (H1 : tb b1 b1').
        { split; [reflexivity|]. split; [reflexivity|]. split; [reflexivity|]. split; [exact Hw|].
          intros _. apply Hg. congruence. }
        destruct (flush_tw b1 b1' H1) as [_ H2].
        destruct (bw_flush b1) as [o b2]. destruct (bw_flush b1') as [o' b2']. apply IH. exact H2.
    + split; [cbn; congruence|]. split; [reflexivity|]. split; [cbn; congruence|]. split; [exact Hw|].
      intros _. apply Hg. congruence.
Qed.

Lemma copies_tw ps : forall bs bt, tb bs bt -> same3 (bw_copies ps bs) (bw_copies ps bt).
Proof.
  induction ps as [|p ps IH]; intros bs bt Hb; cbn [bw_copies].
  - split; [reflexivity|exact Hb].
  - assert (H : same3 (bw_copy_bytes p bs) (bw_copy_bytes p bt)).
    { unfold bw_copy_bytes. destruct p; [split; [reflexivity|exact Hb]|]. unfold bw_write. now apply write_go_tw. }
    destruct H as [A B].
    destruct (bw_copy_bytes p bs) as [o b1]. destruct (bw_copy_bytes p bt) as [o' b1']. cbn [fst snd] in *. subst o'.
    destruct o; [split; [reflexivity|exact B]|]. now apply IH.
Qed.

Lemma message_tw o bs bt : tb bs bt -> same3 (rtmp_write_message o bs) (rtmp_write_message o bt).
Proof.
  intros Hb. unfold rtmp_write_message. destruct (copies_tw o bs bt Hb) as [A B].
  destruct (bw_copies o bs) as [x b1]. destruct (bw_copies o bt) as [x' b1']. cbn [fst snd] in *. subst x'.
  destruct x; [split; [reflexivity|exact B]|]. now apply flush_tw.
Qed.

Lemma ops_tw ops : forall bs bt n, tb bs bt ->
  fst (rtmp_write_ops ops bs n) = fst (rtmp_write_ops ops bt n) /\
  tb (snd (rtmp_write_ops ops bs n)) (snd (rtmp_write_ops ops bt n)).
Proof.
  induction ops as [|o ops IH]; intros bs bt n Hb; cbn [rtmp_write_ops].
  - auto.
  - destruct (message_tw o bs bt Hb) as [A B].
    destruct (rtmp_write_message o bs) as [x b1]. destruct (rtmp_write_message o bt) as [x' b1']. cbn [fst snd] in *. subst x'.
    destruct x; [cbn; auto|]. now apply IH.
Qed.

(* the handshake writes *)
Lemma raw_tw sizes : forall ws wt n, tw ws wt -> wt_failed ws = false ->
  fst (raw_copies sizes ws n) = fst (raw_copies sizes wt n) /\
  tw (snd (raw_copies sizes ws n)) (snd (raw_copies sizes wt n)) /\
  (snd (fst (raw_copies sizes ws n)) = None -> wt_failed (snd (raw_copies sizes ws n)) = false).
Proof.
  induction sizes as [|k r IH]; intros ws wt n Hw Hf; cbn [raw_copies].
  - auto.
  - unfold copy_bytes. destruct (repeat 0 (N.to_nat k)) as [|x l] eqn:E.
    + now apply IH.
    + destruct (wt_write_tw (x :: l) ws wt Hw Hf) as (H1 & H2 & H3).
      destruct (wt_write (x :: l) ws) as [[m oe] u]. destruct (wt_write (x :: l) wt) as [[m' oe'] u'].
      cbn [fst snd] in *. injection H1 as -> ->.
      destruct oe' as [e|]; [cbn; split; [reflexivity|]; split; [exact H2|discriminate]|].
      destruct (m' =? lenN (x :: l)).
      * apply IH; [exact H2|now apply H3].
      * cbn. split; [reflexivity|]. split; [exact H2|discriminate].
Qed.

(* ================================ the session ================================ *)
Theorem rtmp_write_session_transient hs ms i m e :
  let '(ns, oes, ws) := rtmp_write_session hs ms (wtr_new_s true (Some i) m (Some e)) in
  let '(nt, oet, wt) := rtmp_write_session hs ms (wtr_new_s false (Some i) m (Some e)) in
  ns = nt /\ oes = oet /\ wt_received ws = wt_received wt /\ wt_calls ws = wt_calls wt.
Proof.
  unfold rtmp_write_session.
  assert (H0 : tw (wtr_new_s true (Some i) m (Some e)) (wtr_new_s false (Some i) m (Some e)))
    by (repeat split; cbn; discriminate || reflexivity).
  assert (P2 : forall ws wt n1, tw ws wt -> wt_failed ws = false ->
     let '(n2, e2, b) := rtmp_write_ops (msgs_write_ops DEFCHUNK ms) (bufw_new ws) n1 in
     let '(n2', e2', b') := rtmp_write_ops (msgs_write_ops DEFCHUNK ms) (bufw_new wt) n1 in
     n2 = n2' /\ e2 = e2' /\ wt_received (bw_under b) = wt_received (bw_under b') /\
     wt_calls (bw_under b) = wt_calls (bw_under b')).
  { intros ws wt n1 Hw Hf.
    assert (Hb : tb (bufw_new ws) (bufw_new wt)) by (repeat split; cbn; auto; apply Hw).
    destruct (ops_tw (msgs_write_ops DEFCHUNK ms) _ _ n1 Hb) as [A B].
    destruct (rtmp_write_ops (msgs_write_ops DEFCHUNK ms) (bufw_new ws) n1) as [[n2 e2] b].
    destruct (rtmp_write_ops (msgs_write_ops DEFCHUNK ms) (bufw_new wt) n1) as [[n2' e2'] b'].
    cbn [fst snd] in *. injection A as -> ->. destruct B as (_ & _ & _ & (Hc & _ & _ & _ & Hp & _) & _).
    unfold wt_received. now rewrite Hp. }
  destruct hs.
  - destruct (raw_tw [1; 1536; 1536] _ _ 0 H0 eq_refl) as (A & B & C).
    destruct (raw_copies [1; 1536; 1536] (wtr_new_s true (Some i) m (Some e)) 0) as [[n1 e1] w1].
    destruct (raw_copies [1; 1536; 1536] (wtr_new_s false (Some i) m (Some e)) 0) as [[n1' e1'] w1'].
    cbn [fst snd] in *. injection A as -> ->.
    destruct e1' as [e1|].
    + destruct B as (Hc & _ & _ & _ & Hp & _). unfold wt_received. rewrite Hp. auto.
    + specialize (P2 w1 w1' n1' B (C eq_refl)).
      destruct (rtmp_write_ops (msgs_write_ops DEFCHUNK ms) (bufw_new w1) n1') as [[n2 e2] b].
      destruct (rtmp_write_ops (msgs_write_ops DEFCHUNK ms) (bufw_new w1') n1') as [[n2' e2'] b']. exact P2.
  - specialize (P2 _ _ 0 H0 eq_refl).
    destruct (rtmp_write_ops (msgs_write_ops DEFCHUNK ms) (bufw_new (wtr_new_s true (Some i) m (Some e))) 0) as [[n2 e2] b].
    destruct (rtmp_write_ops (msgs_write_ops DEFCHUNK ms) (bufw_new (wtr_new_s false (Some i) m (Some e))) 0) as [[n2' e2'] b']. exact P2.
Qed.

(* c08_rtmp_write_which for every shape of an error-reporting fault: (0, e), (0 < n < len p, e),
   (len p, e) -- that is m -- sticky or transient: same operations completed, same error, same
   bytes at the peer as the sticky run, whose n / error / received bytes c08_rtmp_write_which and
   c08_rtmp_write_peer describe *)
Theorem rtmp_write_session_shapes sticky hs ms i m e :
  let '(n, oe, w) := rtmp_write_session hs ms (wtr_new_s sticky (Some i) m (Some e)) in
  let '(ns, oes, ws) := rtmp_write_session hs ms (wtr_new (Some i) m (Some e)) in
  n = ns /\ oe = oes /\ wt_received w = wt_received ws /\
  n = free_done i hs ms m (Some e) /\
  (oe = None <-> free_calls hs ms m (Some e) <= i) /\
  (oe <> None -> oe = Some e).
Proof.
  pose proof (rtmp_write_session_which hs ms i m (Some e)) as P.
  pose proof (rtmp_write_session_spec hs ms (Some i) m (Some e)) as S.
  pose proof (rtmp_write_session_transient hs ms i m e) as T.
  cbn zeta in P, S, T.
  change (wtr_new (Some i) m (Some e)) with (wtr_new_s true (Some i) m (Some e)) in *.
  destruct (rtmp_write_session hs ms (wtr_new_s true (Some i) m (Some e))) as [[ns oes] ws] eqn:Es.
  cbn beta iota zeta in P, S, T. destruct P as (Pn & Pe).
  assert (Hoe : oes <> None -> oes = Some e).
  { destruct oes as [x|]; [|congruence]. intros _. unfold session_ok in S. destruct S as (-> & _). reflexivity. }
  destruct sticky.
  - rewrite Es. auto 10.
  - destruct (rtmp_write_session hs ms (wtr_new_s false (Some i) m (Some e))) as [[nt oet] wt].
    destruct T as (-> & -> & Hr & _). rewrite <- Hr. auto 10.
Qed.
