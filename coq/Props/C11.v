(* C11 -- ADTS framing and AudioSpecificConfig (stub; theorems follow) *)
From Verif Require Import Lib.Base Lib.Sx Lib.Bitfield Model.Aac.
Open Scope N_scope.

Theorem c11_stub : adts_decode asc0 [] = (asc0, Err 1).
Proof. reflexivity. Qed.

Print Assumptions c11_stub.
