(* C11 -- ADTS framing and AudioSpecificConfig round-trip and match the ISO layout.
   Property theorems only; every proof is `exact <lemma>` or a short composition.

   Model: Model/Aac.v (transcribed from aac/aac.go after the fix: commits f39ffb3 and 31fa840;
   enum helper bodies, constants and validate()'s bounds regenerated from the source into
   Gen/Gen_aac.v).  Vocabulary:
     asc = (object type, sampling-frequency index, channel configuration)
     adts_encode a raw            ADTSImpl{asc: a}.Encode(raw)
     adts_decode st data          Decode(data) on an ADTS whose config is st:  (config afterwards, result);
                                  result = Ok (raw, left) | Err code
     adts_stream fuel st data []  decode frame after frame until nothing is left
     asc_unmarshal st data / asc_marshal a     AudioSpecificConfig.UnmarshalBinary / MarshalBinary
     spec_adts_frame h raw        the frame an ISO/IEC 13818-7 6.2 writer produces for the header fields h
                                  (syntax table as a list of (value, width) bit fields, Model/Aac.v)
     profile_of o                 ADTS profile of object type o: Main 1 -> 0, SSR 3 -> 2, LC 2 / HE 5 / HEv2 29 -> 1 *)
From Verif Require Import Lib.Base Lib.Sx Lib.Bitfield Model.Aac Proofs.AacBits Proofs.Aac.
From Verif Require Import Gen.Gen_aac.
Open Scope N_scope.

(* The configurations the library accepts are exactly: object type in {Main 1, LC 2, SSR 3,
   HE 5, HEv2 29}, sampling-frequency index 1..12, channel configuration 1..7. *)
Theorem c11_accepted a :
  validate a = Ok tt <->
  (aobj a = 1 \/ aobj a = 2 \/ aobj a = 3 \/ aobj a = 5 \/ aobj a = 29) /\ 1 <= asr a <= 12 /\ 1 <= ach a <= 7.
Proof. exact (validate_spec a). Qed.

(* Round trip: for every accepted configuration and every raw frame of 1..8184 bytes the
   encoder's output decodes (on an ADTS object in any state) to the same raw bytes with
   nothing left over, and the decoder reports the configuration's ADTS profile (as the object
   type profile+1), sampling index and channels. *)
Theorem c11_adts_rt a raw st :
  validate a = Ok tt -> 1 <= lenN raw <= 8184 ->
  exists adts, adts_encode a raw = Ok adts /\
    adts_decode st adts = (mk_asc (profile_of (aobj a) + 1) (asr a) (ach a), Ok (raw, [])).
Proof. intros V. apply adts_rt. apply validate_spec. exact V. Qed.

(* the same through the public API on ONE object: SetASC(b0 b1 ...) with an accepted config,
   Encode(raw), Decode(output) *)
Theorem c11_setasc_rt b0 b1 rest raw :
  b0 < 256 -> b1 < 256 ->
  let a := mk_asc ((b0 * 256 + b1) / 2048) (((b0 * 256 + b1) / 128) mod 16) (((b0 * 256 + b1) / 8) mod 16) in
  validate a = Ok tt -> 1 <= lenN raw <= 8184 ->
  exists adts,
    asc_unmarshal asc0 (b0 :: b1 :: rest) = (a, Ok tt) /\ adts_encode a raw = Ok adts /\
    adts_decode a adts = (mk_asc (profile_of (aobj a) + 1) (asr a) (ach a), Ok (raw, [])).
Proof. intros H0 H1 a V Hl. apply setasc_rt; try assumption. apply validate_spec. exact V. Qed.

(* The encoder's output IS the ISO frame: MPEG-4 id 0, layer 0, protection absent, the
   configuration's profile / index / channels, all flag bits 0, buffer fullness 63, one raw block. *)
Theorem c11_encoder_iso_layout a raw :
  validate a = Ok tt -> lenN raw <= 8184 ->
  adts_encode a raw =
  Ok (spec_adts_frame (mk_hdr 0 0 1 (profile_of (aobj a)) (asr a) 0 (ach a) 0 0 0 0 63 0 0) raw).
Proof. intros V. apply encode_is_spec. apply validate_spec. exact V. Qed.

(* ... and every other configuration is refused by Encode. *)
Theorem c11_encode_rejects a raw : validate a <> Ok tt -> exists e, adts_encode a raw = Err e.
Proof. intros V. apply adts_encode_rejects. intros Ha. apply V. apply validate_spec. exact Ha. Qed.

(* ISO reader: a frame produced by the independent ISO 13818-7 writer -- either id, any
   layer bits, with (protection_absent = 0, any 16-bit crc_check) or without CRC, profile
   Main/LC/SSR, index 1..12, channels 1..7, every combination of private/original/home/
   copyright bits, any buffer fullness, any number_of_raw_data_blocks field value, raw data
   block of at least one byte with frame length <= 8191 -- followed by ANY bytes [tail],
   decodes to exactly its raw data block, leaves exactly [tail], and reports profile+1,
   index and channels. *)
Theorem c11_iso_reader h raw tail st :
  h_id h < 2 -> h_layer h < 4 -> h_pa h < 2 -> h_profile h < 3 -> 1 <= h_sfi h <= 12 -> h_priv h < 2 ->
  1 <= h_ch h <= 7 -> h_orig h < 2 -> h_home h < 2 -> h_cbit h < 2 -> h_cstart h < 2 ->
  h_fullness h < 2048 -> h_nblocks h < 4 -> h_crc h < 65536 ->
  1 <= lenN raw -> (if h_pa h =? 0 then 9 else 7) + lenN raw <= 8191 ->
  adts_decode st (spec_adts_frame h raw ++ tail)
  = (mk_asc (h_profile h + 1) (h_sfi h) (h_ch h), Ok (raw, tail)).
Proof.
  intros. apply decode_spec_frame; unfold hdr_wf, hdr_accepted; try assumption; repeat split; try assumption; lia.
Qed.

(* SCOPE of c11_iso_reader: frames with ONE raw data block (the "their raw data block" of the
   property; the number_of_raw_data_blocks_in_frame FIELD is free above, the payload is one block).
   Frames of the independent writer with SEVERAL raw data blocks (field value n = 1..3, n+1 blocks,
   ISO 13818-7 6.2.1; spec_adts_frame_multi, multi_ok = field widths, accepted configuration,
   field = #blocks - 1, every block non-empty, frame length <= 8191):
   - without protection the library returns the blocks concatenated and leaves exactly [tail]
     (the block boundaries are not in the ADTS layer) -- c11_multi_block;
   - with protection it skips only the first two bytes behind the 7-byte header, so framing and
     configuration are right but the returned bytes are the rest of the raw_data_block_position
     table, the header crc_check and the blocks interleaved with their per-block crc_checks
     (c11_multi_block_crc_partial) -- NOT the raw data blocks (c11_multi_block_crc_refuted; known
     finding multi-rdb-crc). *)
Theorem c11_multi_block h blocks tail st :
  multi_ok h blocks -> h_pa h = 1 ->
  adts_decode st (spec_adts_frame_multi h blocks ++ tail) = (frame_asc h, Ok (flat_map fst blocks, tail)).
Proof. exact (decode_multi_nocrc h blocks tail st). Qed.

Theorem c11_multi_block_crc_partial h blocks tail st :
  multi_ok h blocks -> h_pa h = 0 ->
  adts_decode st (spec_adts_frame_multi h blocks ++ tail) =
  (frame_asc h, Ok (skipn 2 (spec_multi_body h blocks), tail)).
Proof. exact (decode_multi_crc h blocks tail st). Qed.

Theorem c11_multi_block_crc_refuted :
  exists h blocks, multi_ok h blocks /\ h_pa h = 0 /\
    snd (adts_decode asc0 (spec_adts_frame_multi h blocks)) <> Ok (flat_map fst blocks, []).
Proof. exact decode_multi_crc_refuted. Qed.

Example c11_multi_block_nonvacuous :
  multi_ok (mk_hdr 1 0 1 1 4 0 2 0 0 0 0 2047 2 0) [([1], 0); ([2; 3], 0); ([4], 0)] /\
  spec_adts_frame_multi (mk_hdr 1 0 1 1 4 0 2 0 0 0 0 2047 2 0) [([1], 0); ([2; 3], 0); ([4], 0)]
  = [255; 249; 80; 128; 1; 127; 254; 1; 2; 3; 4].
Proof.
  split; [|vm_compute; reflexivity].
  unfold multi_ok, hdr_wf, hdr_accepted. cbn. repeat split; try lia; try discriminate. repeat constructor; cbn; lia.
Qed.

(* every such frame starts with the 12-bit sync word *)
Theorem c11_frame_sync h raw : hdr_wf h -> spec_adts_hdr_len h + lenN raw < 8192 ->
  exists b rest, spec_adts_frame h raw = 255 :: b :: rest /\ b / 16 = 15.
Proof. exact (spec_frame_sync h raw). Qed.

(* Streams: the concatenation of any list of such frames (frame_ok = the hypotheses of
   c11_iso_reader) decodes one frame at a time into exactly the list of (raw block, reported
   configuration), in order, ends without error, and the ADTS object ends with the last
   frame's configuration.  By c11_iso_reader each intermediate remainder is exactly the
   concatenation of the frames not yet decoded, i.e. it starts at the next sync word. *)
Theorem c11_stream fs st fuel :
  Forall frame_ok fs -> (length (stream_bytes fs) < fuel)%nat ->
  adts_stream fuel st (stream_bytes fs) [] = (map frame_out fs, last_asc st fs, Ok tt).
Proof. intros Hf Hl. exact (adts_stream_frames fs Hf fuel st [] Hl). Qed.

Theorem c11_stream_step f fs st :
  frame_ok f -> adts_decode st (stream_bytes (f :: fs)) = (frame_asc (fst f), Ok (snd f, stream_bytes fs)).
Proof. intros (Hw & Ha & H1 & H2). exact (decode_spec_frame (fst f) (snd f) (stream_bytes fs) st Hw Ha H1 H2). Qed.

(* HISTORIES ON ONE OBJECT.  The ADTS object's only state is its configuration (adts_step:
   SetASC unmarshals into it -- the fields are assigned even when the config is then rejected --,
   Decode overwrites it with the decoded frame's, the pointer returned by ASC() lets the caller
   assign it, Encode only reads it); results are values and never change afterwards (the harness
   keeps every returned frame and re-reads it after the last operation).
   (a) After ANY sequence of operations, whatever bytes they were given, Encode returns
       adts_encode of the configuration then in force and leaves it unchanged. *)
Theorem c11_history_encode st ops raw :
  adts_run st (ops ++ [OpEncode raw]) =
  (fst (adts_run st ops), snd (adts_run st ops) ++ [OutEnc (adts_encode (fst (adts_run st ops)) raw)]).
Proof. exact (adts_history_encode st ops raw). Qed.

(* (b) For every history made of SetASC (>= 2 bytes, accepted or not; or too short), assignment
       through ASC(), Decode of conformant ISO frames (frame_ok, any tail) and Encode (<= 8184
       bytes), from any initial configuration: the configuration in force after each operation is
       the one LAST ESTABLISHED -- by SetASC: the 5+4+4-bit fields; by Decode: the frame's
       (profile+1, index, channels); by assignment: the assigned value -- (fold_left cop_cfg), and
       each operation returns cop_out: in particular every Encode returns the ISO frame
       spec_adts_frame (encoder_hdr cfg) raw of the configuration cfg in force AT ITS CALL when
       that is an accepted configuration, and validate's error otherwise. *)
Theorem c11_history cs st :
  Forall cop_ok cs ->
  adts_run st (map cop_op cs) = (fold_left cop_cfg cs st, cops_outs st cs).
Proof. intros H. exact (adts_history cs H st). Qed.

(* no operation of any history panics *)
Theorem aac_adts_history_total ops st :
  Forall (fun o => match o with
                   | OutSet _ (Panic _) | OutEnc (Panic _) | OutDec _ (Panic _) => False
                   | _ => True
                   end) (snd (adts_run st ops)).
Proof. exact (adts_run_total ops st). Qed.

(* the stale-header shape: Encode under LC 44.1k stereo, Decode a Main 48k mono frame, Encode
   again -- the second frame carries Main / 48k / mono *)
Example c11_history_witness :
  let f := spec_adts_frame (mk_hdr 1 0 1 0 3 0 1 0 0 0 0 2047 0 0) [7] in
  snd (adts_run asc0 [OpSetASC [18; 16]; OpEncode [1]; OpDecode f; OpEncode [2]]) =
  [ OutSet (mk_asc 2 4 2) (Ok tt); OutEnc (Ok [255; 241; 80; 128; 1; 0; 252; 1]);
    OutDec (mk_asc 1 3 1) (Ok ([7], [])); OutEnc (Ok [255; 241; 12; 64; 1; 0; 252; 2]) ].
Proof. vm_compute. reflexivity. Qed.

(* AudioSpecificConfig, all 65536 two-byte configs b0 b1 (and any bytes after them, any
   receiver state): the fields are the 5+4+4 bits of the 16-bit value, the config is accepted
   exactly when those fields are an accepted configuration, and then MarshalBinary gives the
   two bytes back (the three unused low bits cleared). *)
Theorem c11_asc_unmarshal st b0 b1 rest :
  b0 < 256 -> b1 < 256 ->
  let v := b0 * 256 + b1 in
  let a := mk_asc (v / 2048) ((v / 128) mod 16) ((v / 8) mod 16) in
  asc_unmarshal st (b0 :: b1 :: rest) = (a, validate a) /\
  (validate a = Ok tt -> asc_marshal a = Ok [b0; (b1 / 8) * 8]) /\
  (validate a <> Ok tt -> exists e, validate a = Err e /\ asc_marshal a = Err e).
Proof.
  intros H0 H1 v a. split; [exact (asc_unmarshal_fields st b0 b1 rest H0 H1)|]. split.
  - intros V. rewrite asc_marshal_accepted by (apply validate_spec; exact V).
    f_equal. exact (asc_bytes_fields b0 b1 H0 H1).
  - intros V. unfold asc_marshal. pose proof (validate_no_panic a) as P.
    destruct (validate a) as [[]|e|s]; [congruence|exists e; split; reflexivity|exfalso; exact (P s eq_refl)].
Qed.

(* in one statement: accepted <-> object in {1,2,3,5,29} /\ index in 1..12 /\ channels in 1..7 *)
Theorem c11_asc b0 b1 :
  b0 < 256 -> b1 < 256 ->
  let v := b0 * 256 + b1 in
  let o := v / 2048 in let sr := (v / 128) mod 16 in let ch := (v / 8) mod 16 in
  fst (asc_unmarshal asc0 [b0; b1]) = mk_asc o sr ch /\
  (snd (asc_unmarshal asc0 [b0; b1]) = Ok tt <->
     (o = 1 \/ o = 2 \/ o = 3 \/ o = 5 \/ o = 29) /\ 1 <= sr <= 12 /\ 1 <= ch <= 7) /\
  (snd (asc_unmarshal asc0 [b0; b1]) = Ok tt -> asc_marshal (mk_asc o sr ch) = Ok [b0; (b1 / 8) * 8]).
Proof.
  intros H0 H1 v o sr ch.
  destruct (c11_asc_unmarshal asc0 b0 b1 [] H0 H1) as (E & M & _). fold v o sr ch in E, M.
  rewrite E. cbn [fst snd]. split; [reflexivity|]. split; [exact (c11_accepted (mk_asc o sr ch))|exact M].
Qed.

(* the same, evaluated by the kernel for each of the 65536 configs (acceptance, fields, error
   class, re-marshalled bytes; asc_check is defined in Proofs/Aac.v) *)
Theorem c11_asc_sweep hi lo : hi < 256 -> lo < 256 -> asc_check hi lo = true.
Proof. exact (asc_sweep_all hi lo). Qed.

(* fewer than two bytes are refused and leave the receiver unchanged *)
Theorem c11_asc_short st data : (length data < 2)%nat -> asc_unmarshal st data = (st, Err 8).
Proof. exact (asc_unmarshal_short st data). Qed.

(* marshal then unmarshal is the identity on accepted values; the marshalled bytes are the ISO
   14496-3 layout audioObjectType(5) samplingFrequencyIndex(4) channelConfiguration(4) + 3 zero
   bits; anything else is refused by MarshalBinary *)
Theorem c11_asc_marshal a st rest :
  validate a = Ok tt ->
  asc_marshal a = Ok (pack_fields [ (aobj a, 5); (asr a, 4); (ach a, 4); (0, 3) ]) /\
  exists b0 b1, asc_marshal a = Ok [b0; b1] /\ asc_unmarshal st (b0 :: b1 :: rest) = (a, Ok tt).
Proof.
  intros V. pose proof (proj1 (validate_spec a) V) as Ha. split; [exact (asc_marshal_accepted a Ha)|].
  pose proof Ha as (Ho & Hs & Hc).
  assert (aobj a < 32) by (destruct Ho as [->|[->|[->|[->| ->]]]]; lia).
  destruct (asc_fields_bytes a) as (b0 & b1 & E & H0 & H1 & F); try lia.
  exists b0, b1. split; [rewrite asc_marshal_accepted by exact Ha; f_equal; exact E|].
  rewrite asc_unmarshal_fields by assumption. rewrite F, V. reflexivity.
Qed.

Theorem c11_asc_marshal_rejects a : validate a <> Ok tt -> exists e, asc_marshal a = Err e.
Proof. intros V. apply asc_marshal_rejects. intros Ha. apply V. apply validate_spec. exact Ha. Qed.

(* each sampling-frequency index converts to the frequency of ISO 13818-7 Table 35
   (spec_iso_hz = 96000 88200 64000 48000 44100 32000 24000 22050 16000 12000 11025 8000 7350),
   every other index to 0 -- no index panics (31fa840) *)
Theorem c11_hz i : i <= 12 -> to_hz i = Ok (nth (N.to_nat i) spec_iso_hz 0).
Proof. exact (to_hz_table i). Qed.
Theorem c11_hz_undefined i : 12 < i -> i < 256 -> to_hz i = Ok 0.     (* SampleRateIndex is a uint8 *)
Proof. exact (to_hz_undefined i). Qed.

(* the table in the source (wherever ToHz keeps it; regenerated on every run) starts with Table 35 *)
Theorem c11_hz_source_table : firstn 13 aac_ToHz__table = map Z.of_N spec_iso_hz.
Proof. reflexivity. Qed.

(* object type <-> profile mapping of the accepted object types *)
Theorem c11_profile_map :
  to_profile 1 = Ok 0 /\ to_profile 2 = Ok 1 /\ to_profile 3 = Ok 2 /\ to_profile 5 = Ok 1 /\ to_profile 29 = Ok 1 /\
  to_object 0 = Ok 1 /\ to_object 1 = Ok 2 /\ to_object 2 = Ok 3 /\ to_object 3 = Ok 0.
Proof. repeat split; reflexivity. Qed.

(* Totality: no byte string makes a decoder panic (no well-formedness needed), for any
   receiver state; the stream driver never runs out of fuel before a panic either. *)
Theorem aac_adts_dec_total st data s : snd (adts_decode st data) <> Panic s.
Proof. exact (adts_decode_total st data s). Qed.
Theorem aac_asc_dec_total st data s : snd (asc_unmarshal st data) <> Panic s.
Proof. exact (asc_unmarshal_total st data s). Qed.
Theorem aac_adts_stream_total fuel st data acc s : snd (adts_stream fuel st data acc) <> Panic s.
Proof. exact (adts_stream_total fuel st data acc s). Qed.

(* the generated bodies of the four enum String helpers return a string for every integer
   (their texts are compared with the implementation's by the harness for all uint8 values) *)
Theorem aac_enum_strings_total v :
  (exists s, aac_ObjectType_String v = Ok s) /\ (exists s, aac_Profile_String v = Ok s) /\
  (exists s, aac_SampleRateIndex_String v = Ok s) /\ (exists s, aac_Channels_String v = Ok s).
Proof.
  split; [apply objecttype_string_total|split; [apply profile_string_total|split; [apply sampleindex_string_total|apply channels_string_total]]].
Qed.

(* a successful Decode returns a split of its input: 7 or 9 header bytes, raw, left *)
Theorem c11_decode_shape st data a raw rest :
  adts_decode st data = (a, Ok (raw, rest)) ->
  exists hdr, data = hdr ++ raw ++ rest /\ (length hdr = 7 \/ length hdr = 9)%nat.
Proof. exact (adts_decode_ok_shape st data a raw rest). Qed.

(* ---- non-vacuity and regression witnesses ---- *)
(* an accepted configuration, a CRC-protected ISO frame and a two-frame stream; the second is the
   witness of the fixed defect (raw length = frame_length - 7 with CRC present, f39ffb3): the
   remainder starts exactly at the second sync word *)
Example c11_adts_rt_nonvacuous :
  validate (mk_asc 2 4 2) = Ok tt /\
  adts_encode (mk_asc 2 4 2) [1; 2; 3] = Ok [255; 241; 80; 128; 1; 64; 252; 1; 2; 3].
Proof. vm_compute. split; reflexivity. Qed.

Example c11_crc_witness :
  let f1 := spec_adts_frame (mk_hdr 0 0 0 1 4 0 2 0 0 0 0 0 0 43707) [1; 2; 3] in
  let f2 := [255; 241; 80; 128; 1; 0; 252; 9] in
  f1 = [255; 240; 80; 128; 1; 128; 0; 170; 187; 1; 2; 3] /\
  adts_decode asc0 (f1 ++ f2) = (mk_asc 2 4 2, Ok ([1; 2; 3], f2)) /\
  adts_stream 100 asc0 (f1 ++ f2) [] = ([([1; 2; 3], mk_asc 2 4 2); ([9], mk_asc 2 4 2)], mk_asc 2 4 2, Ok tt).
Proof. vm_compute. repeat split; reflexivity. Qed.

Example c11_stream_nonvacuous :
  Forall frame_ok [ (mk_hdr 1 0 0 0 3 1 6 1 0 1 0 2047 0 65535, [7; 8]); (mk_hdr 0 0 1 2 12 0 1 0 1 0 1 5 0 0, [9]) ].
Proof.
  repeat constructor; cbn; lia.
Qed.

(* the bound 8184 is sharp: one more byte overflows the 13-bit aac_frame_length and the
   encoder's own output is no longer decoded *)
Example c11_bound_sharp :
  exists adts, adts_encode (mk_asc 2 4 2) (repeat 0 8185) = Ok adts /\
               snd (adts_decode asc0 adts) <> Ok (repeat 0 8185, []).
Proof. eexists. split; [vm_compute; reflexivity|]. vm_compute. discriminate. Qed.

(* A header whose frame_length field is smaller than the header itself (7, or 9 with CRC) is
   rejected whatever follows it, for every combination of the other header fields (fixed in
   cd86513; before, uint16(frame_length - header) wrapped and 65529 following bytes came back as
   one "raw block"); and a successful Decode always has frame_length >= header size. *)
Theorem c11_short_frame_length_rejected h flen c0 c1 x rest st :
  hdr_wf h -> flen < (if h_pa h =? 0 then 9 else 7) ->
  exists a, adts_decode st (hdr7_of h flen ++ (if h_pa h =? 0 then [c0; c1] else []) ++ x :: rest) = (a, Err 9).
Proof. exact (short_length_rejected h flen c0 c1 x rest st). Qed.

Example c11_length_underflow_witness (p : bytes) :
  snd (adts_decode asc0 ([255; 241; 80; 128; 0; 0; 252; 0] ++ p)) = Err 9.
Proof. reflexivity. Qed.

Print Assumptions c11_accepted.
Print Assumptions c11_short_frame_length_rejected.
Print Assumptions c11_length_underflow_witness.
Print Assumptions c11_bound_sharp.
Print Assumptions c11_adts_rt.
Print Assumptions c11_setasc_rt.
Print Assumptions c11_encoder_iso_layout.
Print Assumptions c11_encode_rejects.
Print Assumptions c11_iso_reader.
Print Assumptions c11_frame_sync.
Print Assumptions c11_multi_block.
Print Assumptions c11_multi_block_crc_partial.
Print Assumptions c11_multi_block_crc_refuted.
Print Assumptions c11_multi_block_nonvacuous.
Print Assumptions c11_stream.
Print Assumptions c11_stream_step.
Print Assumptions c11_history_encode.
Print Assumptions c11_history.
Print Assumptions aac_adts_history_total.
Print Assumptions c11_history_witness.
Print Assumptions c11_asc_unmarshal.
Print Assumptions c11_asc.
Print Assumptions c11_asc_sweep.
Print Assumptions c11_asc_short.
Print Assumptions c11_asc_marshal.
Print Assumptions c11_asc_marshal_rejects.
Print Assumptions c11_hz.
Print Assumptions c11_hz_undefined.
Print Assumptions c11_hz_source_table.
Print Assumptions c11_profile_map.
Print Assumptions aac_adts_dec_total.
Print Assumptions aac_asc_dec_total.
Print Assumptions aac_adts_stream_total.
Print Assumptions c11_decode_shape.
Print Assumptions aac_enum_strings_total.
Print Assumptions c11_adts_rt_nonvacuous.
Print Assumptions c11_crc_witness.
Print Assumptions c11_stream_nonvacuous.
