(* C04 -- RTMP request/response matching holds with a concurrent reader and writer.
   Property theorems only; every proof is `exact <lemma>` or a short composition.

   Model (Model/RtmpTx.v): thread 0 sends the requests [order] through WritePacket, thread 1 reads
   and decodes responses (ReadMessage; DecodeMessage -> the lookup+delete of parseAMFObject), thread
   2+k is the peer answering request k -- enabled only after the transport write of k has
   succeeded, at most once.  The instruction lists of WritePacket and of the three accesses to
   the transaction table are produced from the skeletons tools/repo2coq/gen_skel.go extracts from
   rtmp/rtmp.go on every run.  A SCHEDULE is an arbitrary list of thread indices (Lib/Sched.v).
   A request: (transaction id, command: 1 connect / 2 createStream / 0 expects no response,
   transport failure).  The log holds (request, Some command it was decoded as | None = the
   "No matched request" failure) for every response the reader has looked up. *)
From Coq Require Import String.
From Verif Require Import Gen.Gen_rtmp.
From Verif Require Import Lib.Base Lib.Sx Lib.Sched Model.RtmpTx Proofs.RtmpTx.
Import List ListNotations.
Open Scope Z_scope.

(* GENERIC.  For any skeleton satisfying the decidable discipline tx_safeb (register before
   WriteMessage is entered, i.e. before the FIRST write of the request into the buffered writer --
   every chunk write is transport-visible, because bufio.Writer hands data to the transport
   whenever its buffer fills and passes large writes straight through; "before Flush" is NOT
   enough, see c04_before_flush_refuted; WriteMessage itself only writes chunks, flushes and runs
   its hook; remove the entry when the write fails; store, lookup+delete and removal each
   inside ltransactions.Lock..Unlock), any request sequence whose response-expecting requests
   carry pairwise different transaction ids, and EVERY interleaving of writer steps, reader steps
   and peers:
   - every response the reader has looked up was matched, and decoded as the response type of
     its own request (no spurious "No matched request", no wrong type);
   - no request is matched twice;
   - a matched request had been answered, and an answered request had been handed to the
     transport successfully;
   - the table holds exactly the registered requests that were neither matched-and-deleted nor
     removed after a failed write (nothing leaks, nothing is dropped early). *)
Theorem c04_generic sk reqs order sched :
  tx_safeb sk = true ->
  (forall k k', needs (rq reqs k) = true -> needs (rq reqs k') = true ->
                q_tid (rq reqs k) = q_tid (rq reqs k') -> k = k') ->
  NoDup order ->
  let s := trun sk reqs (tinit reqs [order] 1) sched in
  (forall k o, In (k, o) (t_log s) -> o = Some (q_name (rq reqs k))) /\
  NoDup (map fst (t_log s)) /\
  (forall k, In k (map fst (t_log s)) -> In k (t_answered s)) /\
  (forall k, In k (t_answered s) -> In k (t_sent s) /\ needs (rq reqs k) = true) /\
  (forall tid v, tab_get tid (t_tab s) = Some v <->
     exists k, needs (rq reqs k) = true /\ q_tid (rq reqs k) = tid /\ q_name (rq reqs k) = v /\
               In k (t_reg s) /\ ~ In k (t_clean s) /\ ~ In k (t_del s)).
Proof.
  intros Hs Hd Hn s. pose proof (trun_inv2 sk reqs Hs Hd order sched Hn) as HI. fold s in HI.
  split; [exact (i_log _ _ HI)|]. split; [exact (i_l _ _ HI)|]. split; [exact (i_la _ _ HI)|].
  split; [exact (i_ans _ _ HI)|exact (i_tab _ _ HI)].
Qed.

(* responses in flight and the one the reader holds are answered, unmatched, and pairwise
   different -- so each of them will be looked up exactly once *)
Theorem c04_generic_in_flight sk reqs order sched :
  tx_safeb sk = true ->
  (forall k k', needs (rq reqs k) = true -> needs (rq reqs k') = true ->
                q_tid (rq reqs k) = q_tid (rq reqs k') -> k = k') ->
  NoDup order ->
  let s := trun sk reqs (tinit reqs [order] 1) sched in
  NoDup (t_queue s) /\
  (forall k, In k (t_queue s) -> In k (t_answered s) /\ ~ In k (map fst (t_log s))) /\
  (forall rpc k found, nth_error (t_ths s) 1 = Some (TReader rpc (Some k) found) -> (1 <= rpc <= 3)%nat ->
     In k (t_answered s) /\ ~ In k (t_queue s) /\ ~ In k (map fst (t_log s))).
Proof.
  intros Hs Hd Hn s. pose proof (trun_inv2 sk reqs Hs Hd order sched Hn) as HI. fold s in HI.
  split; [exact (i_q _ _ HI)|]. split; [exact (i_qa _ _ HI)|].
  intros rpc k found E Hr. destruct (i_r _ _ HI) as (rpc' & held & found' & E' & _ & H13 & _).
  rewrite E in E'. injection E' as <- <- <-. destruct (H13 Hr) as (k0 & Hk & H). injection Hk as <-. exact H.
Qed.

(* NONE LOST.  The answered responses are exactly: those in flight, the one in the reader's hand
   (hand rpc = 1 while the reader has read a response and not yet looked it up), and those looked
   up -- counted; together with c04_generic_in_flight (these three groups are duplicate-free,
   pairwise disjoint and consist of answered requests) this is a partition, so no response
   disappears, and by c04_generic every one that is looked up is matched. *)
Theorem c04_generic_none_lost sk reqs order sched :
  tx_safeb sk = true ->
  (forall k k', needs (rq reqs k) = true -> needs (rq reqs k') = true ->
                q_tid (rq reqs k) = q_tid (rq reqs k') -> k = k') ->
  NoDup order ->
  let s := trun sk reqs (tinit reqs [order] 1) sched in
  forall rpc held found, nth_error (t_ths s) 1 = Some (TReader rpc held found) ->
    length (t_answered s) = (length (t_queue s) + length (t_log s) + hand rpc)%nat.
Proof.
  intros Hs Hd Hn s. pose proof (trun_inv2 sk reqs Hs Hd order sched Hn) as HI. fold s in HI.
  exact (i_cnt _ _ HI).
Qed.

(* NO UNSYNCHRONISED TABLE ACCESS.  Under the discipline no two threads are ever inside accesses to
   the transaction table at the same time -- for any number of writers and readers, every request
   sequence and every interleaving (the model's rendering of "no data race on the table"). *)
Theorem c04_generic_no_race sk reqs writers nr sched :
  tx_safeb sk = true -> t_raced (trun sk reqs (tinit reqs writers nr) sched) = false.
Proof. intros Hs. exact (no_race sk reqs Hs writers nr sched). Qed.

(* THE CODE IN /repo satisfies the discipline (by computation on the regenerated skeletons; the
   table is touched nowhere else than in the functions the skeletons come from and in the
   constructor), hence the statement holds for it. *)
Theorem c04_repo_discipline : tx_safeb repo_skel = true /\ repo_sites_ok = true.
Proof. vm_compute. auto. Qed.

Theorem c04_repo_no_race reqs writers nr sched :
  t_raced (trun repo_skel reqs (tinit reqs writers nr) sched) = false.
Proof. apply c04_generic_no_race. vm_compute. reflexivity. Qed.

Theorem c04_repo reqs order sched :
  (forall k k', needs (rq reqs k) = true -> needs (rq reqs k') = true ->
                q_tid (rq reqs k) = q_tid (rq reqs k') -> k = k') ->
  NoDup order ->
  let s := trun repo_skel reqs (tinit reqs [order] 1) sched in
  (forall k o, In (k, o) (t_log s) -> o = Some (q_name (rq reqs k))) /\
  NoDup (map fst (t_log s)) /\
  (forall k, In k (map fst (t_log s)) -> In k (t_answered s)) /\
  (forall k, In k (t_answered s) -> In k (t_sent s) /\ needs (rq reqs k) = true) /\
  (forall tid v, tab_get tid (t_tab s) = Some v <->
     exists k, needs (rq reqs k) = true /\ q_tid (rq reqs k) = tid /\ q_name (rq reqs k) = v /\
               In k (t_reg s) /\ ~ In k (t_clean s) /\ ~ In k (t_del s)).
Proof. apply c04_generic. vm_compute. reflexivity. Qed.

(* non-vacuity: two requests, the response to the first arrives while the second is being written
   (between its registration and its transport write); both are matched as their own type and the
   table ends empty *)
Example c04_nonvacuous :
  let reqs := [{| q_tid := 1; q_name := 1; q_fail := false |}; {| q_tid := 2; q_name := 2; q_fail := false |}] in
  let s := trun repo_skel reqs (tinit reqs [[0; 1]%nat] 1)
             ([0; 0; 0; 0; 0; 0; 0] ++ [0; 0; 0; 0; 0] ++ [2] ++ [1; 1; 1; 1; 1; 1; 1] ++ [0; 0] ++ [3] ++ [1; 1; 1; 1; 1; 1; 1])%nat in
  rev (t_log s) = [(0%nat, Some 1); (1%nat, Some 2)] /\ t_tab s = [] /\ t_raced s = false.
Proof. vm_compute. auto. Qed.

(* THE PINNED SNAPSHOT (defect 7, fixed in /repo by the rtmp builder's commit).  WritePacket wrote
   the bytes first and registered afterwards.  The predicate rejects that order, and the search
   computes the schedule  marshal, write | peer answers | reader reads and looks up | register  after
   which the reader has logged "No matched request". *)
Theorem c04_old_order_refuted :
  tx_safeb old_skel = false /\
  exists sched, find_cex old_skel = Some sched /\
                exists k, In (k, None) (t_log (trun old_skel cex_reqs (tinit cex_reqs [[0%nat]] 1) sched)).
Proof.
  split; [reflexivity|].
  destruct (find_cex old_skel) as [sched|] eqn:E; [|vm_compute in E; discriminate].
  exists sched. split; [reflexivity|]. now apply find_cex_sound.
Qed.

(* SAME PACKET KINDS.  tx_safeb also requires that registration and roll-back apply to the same packets:
   both take (tid, name) from requestTransaction under the same guard, and requestTransaction
   knows exactly the connect and createStream requests (regenerated from the source).  A roll-back
   applying to more kinds (every command packet with tid > 0) is rejected: a failed write of a
   call or of a response would delete the entry of an outstanding request with the same number. *)
Example c04_wide_rollback_rejected :
  tx_safeb wide_rollback_skel = false /\ k_same_kinds repo_skel = true.
Proof. vm_compute. auto. Qed.

(* REGISTERING BEFORE THE FLUSH IS NOT ENOUGH.  With the registration inside WriteMessage, after the
   chunk writes and before the flush, the request can be complete at the peer (a chunk write went
   through to the transport) while it is still unregistered: rejected by the predicate, and
   refuted by a computed schedule. *)
Theorem c04_before_flush_refuted :
  tx_safeb before_flush_skel = false /\
  exists sched, find_cex before_flush_skel = Some sched /\
                exists k, In (k, None) (t_log (trun before_flush_skel cex_reqs (tinit cex_reqs [[0%nat]] 1) sched)).
Proof.
  split; [reflexivity|].
  destruct (find_cex before_flush_skel) as [sched|] eqn:E; [|vm_compute in E; discriminate].
  exists sched. split; [reflexivity|]. now apply find_cex_sound.
Qed.

Print Assumptions c04_generic.
Print Assumptions c04_before_flush_refuted.
Print Assumptions c04_generic_in_flight.
Print Assumptions c04_generic_none_lost.
Print Assumptions c04_generic_no_race.
Print Assumptions c04_repo_no_race.
Print Assumptions c04_repo_discipline.
Print Assumptions c04_repo.
Print Assumptions c04_old_order_refuted.
