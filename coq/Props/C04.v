(* C04 -- stage 1 placeholder; replaced below by the full statements. *)
From Verif Require Import Lib.Base Lib.Sx Lib.Sched Model.RtmpTx.
Theorem c04_repo_discipline : tx_safeb repo_skel = true /\ repo_sites_ok = true.
Proof. vm_compute. auto. Qed.
Print Assumptions c04_repo_discipline.
